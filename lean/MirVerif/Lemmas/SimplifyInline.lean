import MirVerif.Model.SimplifyInline
/-! Inlining of a callee whose (simplified) body is straight-line code is a simulation:
parameter moves + renamed body + result moves, executed in the caller's activation, leave the
caller-visible registers and the memory exactly as the call does. -/
namespace MirVerif.Simplify
open MirVerif.MirCore

section
variable {ρ μ : Type} [DecidableEq ρ] [ByteMem μ]

/-- every register an operand mentions is visible to the caller (`vis`) -/
def OpdVis (vis : ρ → Prop) : Opd ρ → Prop
  | .reg r => vis r
  | .imm _ => True
  | .mem m => (∀ b, m.base = some b → vis b) ∧ (∀ i, m.index = some i → vis i)

/-- callee registers `rc` live in the inlined activation `ri` under their new names -/
def Carried (ren : ρ → ρ) (rc ri : Regs ρ) : Prop := ∀ r, rc.get r = ri.get (ren r)

/-- two register files agree on the caller-visible registers -/
def AgreeVis (vis : ρ → Prop) (a b : Regs ρ) : Prop := ∀ r, vis r → a.get r = b.get r

theorem optGet_ren (ren : ρ → ρ) (rc ri : Regs ρ) (h : Carried ren rc ri) (o : Option ρ) :
    optGet ri (o.map ren) = optGet rc o := by
  cases o <;> simp [optGet, h _]

theorem addr_ren (ren : ρ → ρ) (rc ri : Regs ρ) (h : Carried ren rc ri) (m : MemOp ρ) :
    MemOp.addr { m with base := m.base.map ren, index := m.index.map ren } ri = m.addr rc := by
  simp [MemOp.addr, optGet_ren ren rc ri h]

theorem evalOpd_ren (ren : ρ → ρ) (rc ri : Regs ρ) (h : Carried ren rc ri) (g : G μ) (o : Opd ρ) :
    evalOpd ri g (renOpd ren o) = evalOpd rc g o := by
  cases o with
  | reg r => simp [renOpd, evalOpd, h r]
  | imm v => rfl
  | mem m => simp only [renOpd, evalOpd, addr_ren ren rc ri h m]

theorem optGet_vis (vis : ρ → Prop) (a b : Regs ρ) (h : AgreeVis vis a b) (o : Option ρ)
    (ho : ∀ r, o = some r → vis r) : optGet a o = optGet b o := by
  cases o with
  | none => rfl
  | some r => simp [optGet, h r (ho r rfl)]

theorem evalOpd_vis (vis : ρ → Prop) (a b : Regs ρ) (h : AgreeVis vis a b) (g : G μ) (o : Opd ρ)
    (ho : OpdVis vis o) : evalOpd a g o = evalOpd b g o := by
  cases o with
  | reg r => simp [evalOpd, h r ho]
  | imm v => rfl
  | mem m =>
    have e : m.addr a = m.addr b := by
      simp [MemOp.addr, optGet_vis vis a b h m.base ho.1, optGet_vis vis a b h m.index ho.2]
    simp only [evalOpd, e]

variable (ren : ρ → ρ) (vis : ρ → Prop)

/-- writing a callee destination in the callee's activation vs. the renamed destination in the
inlined activation -/
theorem setOpd_ren (hinj : ∀ a b, ren a = ren b → a = b) (hfresh : ∀ r, ¬ vis (ren r))
    (rc ri r0 : Regs ρ) (hc : Carried ren rc ri) (hv : AgreeVis vis ri r0) (g : G μ) (d : Opd ρ) (v : W64)
    (rc' : Regs ρ) (g' : G μ) (h : setOpd rc g d v = .ok (rc', g')) :
    ∃ ri', setOpd ri g (renOpd ren d) v = .ok (ri', g') ∧ Carried ren rc' ri' ∧ AgreeVis vis ri' r0 := by
  cases d with
  | reg r =>
    simp only [setOpd, Except.ok.injEq, Prod.mk.injEq] at h
    obtain ⟨rfl, rfl⟩ := h
    refine ⟨ri.set (ren r) v, rfl, ?_, ?_⟩
    · intro x
      rw [Regs.get_set, Regs.get_set]
      by_cases e : x = r
      · subst e; simp
      · have e' : ¬ ren x = ren r := fun q => e (hinj _ _ q)
        simp [e, e', hc x]
    · intro x hx
      have e : x ≠ ren r := fun q => hfresh r (q ▸ hx)
      rw [Regs.get_set_other _ _ _ _ e]; exact hv x hx
  | imm c => simp [setOpd] at h
  | mem m =>
    have ea := addr_ren ren rc ri hc m
    simp only [setOpd] at h
    simp only [renOpd, setOpd, ea]
    split at h
    · rename_i hval
      simp only [Except.ok.injEq, Prod.mk.injEq] at h
      obtain ⟨rfl, rfl⟩ := h
      exact ⟨ri, by simp [hval], hc, hv⟩
    · cases h

/-- one straight-line instruction -/
theorem step_ren (hinj : ∀ a b, ren a = ren b → a = b) (hfresh : ∀ r, ¬ vis (ren r))
    (i : Insn ρ) (hs : Straight i = true) (fc fi : Frame ρ) (r0 : Regs ρ)
    (hc : Carried ren fc.regs fi.regs) (hv : AgreeVis vis fi.regs r0) (g : G μ)
    (fc' : Frame ρ) (g' : G μ) (h : stepInsn [] i fc g = .ok (fc', g')) :
    ∃ fi', stepInsn [] (renInsn ren i) fi g = .ok (fi', g') ∧
      Carried ren fc'.regs fi'.regs ∧ AgreeVis vis fi'.regs r0 := by
  cases i <;> simp [Straight] at hs
  · -- bin
    rename_i a s d x y
    simp only [stepInsn, renInsn, evalOpd_ren ren _ _ hc] at h ⊢
    cases hx : evalOpd fc.regs g x with
    | error e => simp [hx, bind, Except.bind] at h
    | ok vx =>
      cases hy : evalOpd fc.regs g y with
      | error e => simp [hx, hy, bind, Except.bind] at h
      | ok vy =>
        cases hr : ofOpt (opName a s) (docSem a s vx vy) with
        | error e => simp [hx, hy, hr, bind, Except.bind] at h
        | ok r =>
          cases hd : setOpd fc.regs g d r with
          | error e => simp [hx, hy, hr, hd, bind, Except.bind] at h
          | ok p =>
            obtain ⟨rc', g1⟩ := p
            simp [hx, hy, hr, hd, bind, Except.bind, pure, Except.pure] at h
            obtain ⟨rfl, rfl⟩ := h
            obtain ⟨ri', e1, e2, e3⟩ := setOpd_ren ren vis hinj hfresh _ _ r0 hc hv g d r rc' _ hd
            exact ⟨_, by simp [hx, hy, hr, e1, bind, Except.bind, pure, Except.pure]; rfl, by simpa [next] using e2,
              by simpa [next] using e3⟩
  · -- mov
    rename_i d x
    simp only [stepInsn, renInsn, evalOpd_ren ren _ _ hc] at h ⊢
    cases hx : evalOpd fc.regs g x with
    | error e => simp [hx, bind, Except.bind] at h
    | ok vx =>
      cases hd : setOpd fc.regs g d vx with
      | error e => simp [hx, hd, bind, Except.bind] at h
      | ok p =>
        obtain ⟨rc', g1⟩ := p
        simp [hx, hd, bind, Except.bind, pure, Except.pure] at h
        obtain ⟨rfl, rfl⟩ := h
        obtain ⟨ri', e1, e2, e3⟩ := setOpd_ren ren vis hinj hfresh _ _ r0 hc hv g d vx rc' _ hd
        exact ⟨_, by simp [hx, e1, bind, Except.bind, pure, Except.pure]; rfl, by simpa [next] using e2,
          by simpa [next] using e3⟩
  · -- ext
    rename_i k sg d x
    simp only [stepInsn, renInsn, evalOpd_ren ren _ _ hc] at h ⊢
    cases hx : evalOpd fc.regs g x with
    | error e => simp [hx, bind, Except.bind] at h
    | ok vx =>
      cases hd : setOpd fc.regs g d (docExt k sg vx) with
      | error e => simp [hx, hd, bind, Except.bind] at h
      | ok p =>
        obtain ⟨rc', g1⟩ := p
        simp [hx, hd, bind, Except.bind, pure, Except.pure] at h
        obtain ⟨rfl, rfl⟩ := h
        obtain ⟨ri', e1, e2, e3⟩ := setOpd_ren ren vis hinj hfresh _ _ r0 hc hv g d _ rc' _ hd
        exact ⟨_, by simp [hx, e1, bind, Except.bind, pure, Except.pure]; rfl, by simpa [next] using e2,
          by simpa [next] using e3⟩
  · -- neg
    rename_i sh d x
    simp only [stepInsn, renInsn, evalOpd_ren ren _ _ hc] at h ⊢
    cases hx : evalOpd fc.regs g x with
    | error e => simp [hx, bind, Except.bind] at h
    | ok vx =>
      cases hd : setOpd fc.regs g d (docNeg sh vx) with
      | error e => simp [hx, hd, bind, Except.bind] at h
      | ok p =>
        obtain ⟨rc', g1⟩ := p
        simp [hx, hd, bind, Except.bind, pure, Except.pure] at h
        obtain ⟨rfl, rfl⟩ := h
        obtain ⟨ri', e1, e2, e3⟩ := setOpd_ren ren vis hinj hfresh _ _ r0 hc hv g d _ rc' _ hd
        exact ⟨_, by simp [hx, e1, bind, Except.bind, pure, Except.pure]; rfl, by simpa [next] using e2,
          by simpa [next] using e3⟩

/-- a straight-line body -/
theorem execSeq_ren (hinj : ∀ a b, ren a = ren b → a = b) (hfresh : ∀ r, ¬ vis (ren r)) (r0 : Regs ρ) :
    ∀ (B : List (Insn ρ)) (_ : ∀ i ∈ B, Straight i = true) (fc fi : Frame ρ)
      (_ : Carried ren fc.regs fi.regs) (_ : AgreeVis vis fi.regs r0) (g : G μ) (fc' : Frame ρ) (g' : G μ)
      (_ : execSeq B fc g = .ok (fc', g')),
      ∃ fi', execSeq (B.map (renInsn ren)) fi g = .ok (fi', g') ∧
        Carried ren fc'.regs fi'.regs ∧ AgreeVis vis fi'.regs r0
  | [], _, fc, fi, hc, hv, g, fc', g', h => by
    simp only [execSeq, Except.ok.injEq, Prod.mk.injEq] at h
    obtain ⟨rfl, rfl⟩ := h
    exact ⟨fi, rfl, hc, hv⟩
  | i :: tl, hs, fc, fi, hc, hv, g, fc', g', h => by
    simp only [execSeq] at h
    cases h1 : stepInsn [] i fc g with
    | error e => simp [h1, bind, Except.bind] at h
    | ok p =>
      obtain ⟨fc1, g1⟩ := p
      simp only [h1, bind, Except.bind] at h
      obtain ⟨fi1, e1, c1, v1⟩ := step_ren ren vis hinj hfresh i (hs i (by simp)) fc fi r0 hc hv g fc1 g1 h1
      obtain ⟨fi', e2, c2, v2⟩ := execSeq_ren hinj hfresh r0 tl (fun j hj => hs j (by simp [hj])) fc1 fi1 c1 v1 g1 fc' g' h
      exact ⟨fi', by simp [List.map_cons, execSeq, e1, bind, Except.bind, e2], c2, v2⟩

/-- value a parameter list gives a register: the first occurrence wins (what `enter` does) -/
def pget (dflt : ρ → W64) : List ρ → List W64 → ρ → W64
  | p :: ps, v :: vs, r => if r = p then v else pget dflt ps vs r
  | _, _, r => dflt r

theorem enter_get (init : Regs ρ) : ∀ (ps : List ρ) (vs : List W64) (g : G μ) (rs : Regs ρ) (g' : G μ),
    enter init (ps.map fun p => (p, Ty.i64)) vs g = .ok (rs, g') →
    g' = g ∧ ps.length = vs.length ∧ ∀ r, rs.get r = pget init.get ps vs r
  | [], [], g, rs, g', h => by
    simp only [List.map_nil, enter, Except.ok.injEq, Prod.mk.injEq] at h
    obtain ⟨rfl, rfl⟩ := h
    exact ⟨rfl, rfl, fun _ => rfl⟩
  | [], _ :: _, g, rs, g', h => by simp [enter] at h
  | _ :: _, [], g, rs, g', h => by simp [enter] at h
  | p :: ps, v :: vs, g, rs, g', h => by
    simp only [List.map_cons, enter] at h
    cases h1 : enter init (ps.map fun p => (p, Ty.i64)) vs g with
    | error e => simp [h1, bind, Except.bind] at h
    | ok q =>
      obtain ⟨rs1, g1⟩ := q
      simp only [h1, bind, Except.bind, pure, Except.pure, Except.ok.injEq, Prod.mk.injEq] at h
      obtain ⟨rfl, rfl⟩ := h
      obtain ⟨e1, e2, e3⟩ := enter_get init ps vs g rs1 g1 h1
      refine ⟨e1, by simp [e2], ?_⟩
      intro r
      rw [Regs.get_set]
      simp [pget, Ty.trunc, Ty.bytes, e3 r]

/-- the parameter moves, executed one after the other in the caller's activation -/
theorem paramMoves_exec (hinj : ∀ a b, ren a = ren b → a = b) (hfresh : ∀ r, ¬ vis (ren r)) (r0 : Regs ρ)
    (g : G μ) :
    ∀ (ps : List ρ) (args : List (Opd ρ)) (vs : List W64) (fi : Frame ρ),
      ps.Nodup → (∀ a ∈ args, OpdVis vis a) → evalOpds r0 g args = .ok vs → ps.length = vs.length →
      AgreeVis vis fi.regs r0 →
      ∃ fi', execSeq (paramMoves ren ps args) fi g = .ok (fi', g) ∧ AgreeVis vis fi'.regs r0 ∧
        (∀ r, fi'.regs.get (ren r) = pget (fun x => fi.regs.get (ren x)) ps vs r)
  | [], args, vs, fi, _, _, _, hl, hv => by
    cases vs with
    | nil => exact ⟨fi, by cases args <;> simp [paramMoves, execSeq], hv, fun _ => rfl⟩
    | cons _ _ => simp at hl
  | p :: ps, [], vs, fi, _, _, he, hl, _ => by
    simp only [evalOpds, Except.ok.injEq] at he
    subst he; simp at hl
  | p :: ps, a :: args, vs, fi, hn, ha, he, hl, hv => by
    simp only [evalOpds] at he
    cases h1 : evalOpd r0 g a with
    | error e => simp [h1, bind, Except.bind] at he
    | ok v =>
      cases h2 : evalOpds r0 g args with
      | error e => simp [h1, h2, bind, Except.bind] at he
      | ok vs' =>
        simp only [h1, h2, bind, Except.bind, pure, Except.pure, Except.ok.injEq] at he
        subst he
        have hn' : ps.Nodup := (List.nodup_cons.mp hn).2
        have hp : p ∉ ps := (List.nodup_cons.mp hn).1
        have ev : evalOpd fi.regs g a = .ok v := by
          rw [evalOpd_vis vis fi.regs r0 hv g a (ha a (by simp))]; exact h1
        have hv1 : AgreeVis vis (fi.regs.set (ren p) v) r0 := by
          intro x hx
          have e : x ≠ ren p := fun q => hfresh p (q ▸ hx)
          rw [Regs.get_set_other _ _ _ _ e]; exact hv x hx
        obtain ⟨fi', e1, e2, e3⟩ := paramMoves_exec hinj hfresh r0 g ps args vs'
          (next { fi with regs := fi.regs.set (ren p) v }) hn' (fun b hb => ha b (by simp [hb])) h2
          (by simpa using hl) (by simpa [next] using hv1)
        refine ⟨fi', ?_, e2, ?_⟩
        · simp only [paramMoves, execSeq, stepInsn, ev, setOpd, bind, Except.bind, pure, Except.pure]
          exact e1
        · intro r
          rw [e3 r]
          simp only [pget, next]
          by_cases e : r = p
          · subst e
            -- `r` does not occur among the remaining parameters: the default is what the move wrote
            have : ∀ (qs : List ρ) (ws : List W64), r ∉ qs →
                pget (fun x => (fi.regs.set (ren r) v).get (ren x)) qs ws r = v := by
              intro qs
              induction qs with
              | nil => intro ws _; cases ws <;> simp [pget]
              | cons q qt ih =>
                intro ws hq
                cases ws with
                | nil => simp [pget]
                | cons w wt =>
                  have hne : r ≠ q := fun e => hq (by simp [e])
                  simp only [pget, hne, if_false]
                  exact ih wt (fun h => hq (by simp [h]))
            simp [this ps vs' hp]
          · simp only [e, if_false]
            -- for other registers the default is the old content
            have : ∀ (qs : List ρ) (ws : List W64),
                pget (fun x => (fi.regs.set (ren p) v).get (ren x)) qs ws r
                  = pget (fun x => fi.regs.get (ren x)) qs ws r := by
              intro qs
              induction qs with
              | nil =>
                intro ws
                have e' : ren r ≠ ren p := fun q => e (hinj _ _ q)
                cases ws <;> simp [pget, Regs.get_set_other _ _ _ _ e']
              | cons q qt ih =>
                intro ws
                cases ws with
                | nil =>
                  have e' : ren r ≠ ren p := fun q => e (hinj _ _ q)
                  simp [pget, Regs.get_set_other _ _ _ _ e']
                | cons w wt =>
                  simp only [pget]
                  split
                  · rfl
                  · exact ih wt
            exact this ps vs'


theorem execSeq_append : ∀ (a b : List (Insn ρ)) (fr : Frame ρ) (g : G μ),
    execSeq (a ++ b) fr g = (execSeq a fr g >>= fun p => execSeq b p.1 p.2)
  | [], b, fr, g => by simp [execSeq, bind, Except.bind]
  | i :: tl, b, fr, g => by
    simp only [List.cons_append, execSeq]
    cases stepInsn [] i fr g with
    | error e => simp [bind, Except.bind]
    | ok p => simp [bind, Except.bind, execSeq_append tl b p.1 p.2]

/-- writing a caller-visible destination in two register files that agree on the visible registers -/
theorem setOpd_vis (hfresh : ∀ r, ¬ vis (ren r)) (a b : Regs ρ) (hv : AgreeVis vis a b) (g : G μ) (d : Opd ρ)
    (hd : OpdVis vis d) (v : W64) (b' : Regs ρ) (g' : G μ) (h : setOpd b g d v = .ok (b', g')) :
    ∃ a', setOpd a g d v = .ok (a', g') ∧ AgreeVis vis a' b' ∧ (∀ r, a'.get (ren r) = a.get (ren r)) := by
  cases d with
  | reg x =>
    simp only [setOpd, Except.ok.injEq, Prod.mk.injEq] at h
    obtain ⟨rfl, rfl⟩ := h
    refine ⟨a.set x v, rfl, ?_, ?_⟩
    · intro y hy
      rw [Regs.get_set, Regs.get_set]
      split
      · rfl
      · exact hv y hy
    · intro r
      have e : ren r ≠ x := fun q => hfresh r (q ▸ hd)
      exact Regs.get_set_other _ _ _ _ e
  | imm c => simp [setOpd] at h
  | mem m =>
    have e : m.addr a = m.addr b := by
      simp [MemOp.addr, optGet_vis vis a b hv m.base hd.1, optGet_vis vis a b hv m.index hd.2]
    simp only [setOpd] at h ⊢
    rw [e]
    split at h
    · rename_i hval
      simp only [Except.ok.injEq, Prod.mk.injEq] at h
      obtain ⟨rfl, rfl⟩ := h
      exact ⟨a, by simp [hval], hv, fun _ => rfl⟩
    · cases h

/-- the result moves -/
theorem resultMoves_exec (hfresh : ∀ r, ¬ vis (ren r)) (rcF : Regs ρ) :
    ∀ (ds : List (Opd ρ)) (rr : List ρ) (rcall : Regs ρ) (fi : Frame ρ) (g : G μ) (rsC : Regs ρ) (gC : G μ),
      AgreeVis vis fi.regs rcall → (∀ r, fi.regs.get (ren r) = rcF.get r) → (∀ d ∈ ds, OpdVis vis d) →
      setOpds rcall g ds (rr.map rcF.get) = .ok (rsC, gC) →
      ∃ fi', execSeq (resultMoves ren ds rr) fi g = .ok (fi', gC) ∧ AgreeVis vis fi'.regs rsC
  | [], [], rcall, fi, g, rsC, gC, hv, _, _, h => by
    simp only [List.map_nil, setOpds, Except.ok.injEq, Prod.mk.injEq] at h
    obtain ⟨rfl, rfl⟩ := h
    exact ⟨fi, rfl, hv⟩
  | [], _ :: _, _, _, _, _, _, _, _, _, h => by simp [setOpds] at h
  | _ :: _, [], _, _, _, _, _, _, _, _, h => by simp [setOpds] at h
  | d :: ds, r :: rr, rcall, fi, g, rsC, gC, hv, hc, hd, h => by
    simp only [List.map_cons, setOpds] at h
    cases h1 : setOpd rcall g d (rcF.get r) with
    | error e => simp [h1, bind, Except.bind] at h
    | ok q =>
      obtain ⟨rc1, g1⟩ := q
      simp only [h1, bind, Except.bind] at h
      obtain ⟨a', e1, e2, e3⟩ := setOpd_vis ren vis hfresh fi.regs rcall hv g d (hd d (by simp)) _ rc1 g1 h1
      obtain ⟨fi', e4, e5⟩ := resultMoves_exec hfresh rcF ds rr rc1 (next { fi with regs := a' }) g1 rsC gC
        (by simpa [next] using e2) (by intro x; simp only [next]; rw [e3 x]; exact hc x)
        (fun x hx => hd x (by simp [hx])) h
      refine ⟨fi', ?_, e5⟩
      simp only [resultMoves, execSeq, stepInsn, evalOpd, hc r, e1, bind, Except.bind, pure, Except.pure]
      exact e4

/-- straight-line code does not move the alloca pointer -/
theorem setOpd_sp (rs : Regs ρ) (g : G μ) (d : Opd ρ) (v : W64) (rs' : Regs ρ) (g' : G μ)
    (h : setOpd rs g d v = .ok (rs', g')) : g'.sp = g.sp ∧ g'.log = g.log := by
  cases d with
  | reg x => simp only [setOpd, Except.ok.injEq, Prod.mk.injEq] at h; obtain ⟨_, rfl⟩ := h; exact ⟨rfl, rfl⟩
  | imm c => simp [setOpd] at h
  | mem m =>
    simp only [setOpd] at h
    split at h
    · simp only [Except.ok.injEq, Prod.mk.injEq] at h; obtain ⟨_, rfl⟩ := h; exact ⟨rfl, rfl⟩
    · cases h

theorem step_sp (i : Insn ρ) (hs : Straight i = true) (fr fr' : Frame ρ) (g g' : G μ)
    (h : stepInsn [] i fr g = .ok (fr', g')) : g'.sp = g.sp := by
  cases i <;> simp [Straight] at hs
  · rename_i a s d x y
    simp only [stepInsn] at h
    cases hx : evalOpd fr.regs g x with
    | error e => simp [hx, bind, Except.bind] at h
    | ok vx =>
      cases hy : evalOpd fr.regs g y with
      | error e => simp [hx, hy, bind, Except.bind] at h
      | ok vy =>
        cases hr : ofOpt (opName a s) (docSem a s vx vy) with
        | error e => simp [hx, hy, hr, bind, Except.bind] at h
        | ok r =>
          cases hd : setOpd fr.regs g d r with
          | error e => simp [hx, hy, hr, hd, bind, Except.bind] at h
          | ok p =>
            simp [hx, hy, hr, hd, bind, Except.bind, pure, Except.pure] at h
            obtain ⟨_, rfl⟩ := h
            exact (setOpd_sp _ _ _ _ p.1 p.2 hd).1
  · rename_i d x
    simp only [stepInsn] at h
    cases hx : evalOpd fr.regs g x with
    | error e => simp [hx, bind, Except.bind] at h
    | ok vx =>
      cases hd : setOpd fr.regs g d vx with
      | error e => simp [hx, hd, bind, Except.bind] at h
      | ok p =>
        simp [hx, hd, bind, Except.bind, pure, Except.pure] at h
        obtain ⟨_, rfl⟩ := h
        exact (setOpd_sp _ _ _ _ p.1 p.2 hd).1
  · rename_i k sg d x
    simp only [stepInsn] at h
    cases hx : evalOpd fr.regs g x with
    | error e => simp [hx, bind, Except.bind] at h
    | ok vx =>
      cases hd : setOpd fr.regs g d (docExt k sg vx) with
      | error e => simp [hx, hd, bind, Except.bind] at h
      | ok p =>
        simp [hx, hd, bind, Except.bind, pure, Except.pure] at h
        obtain ⟨_, rfl⟩ := h
        exact (setOpd_sp _ _ _ _ p.1 p.2 hd).1
  · rename_i sh d x
    simp only [stepInsn] at h
    cases hx : evalOpd fr.regs g x with
    | error e => simp [hx, bind, Except.bind] at h
    | ok vx =>
      cases hd : setOpd fr.regs g d (docNeg sh vx) with
      | error e => simp [hx, hd, bind, Except.bind] at h
      | ok p =>
        simp [hx, hd, bind, Except.bind, pure, Except.pure] at h
        obtain ⟨_, rfl⟩ := h
        exact (setOpd_sp _ _ _ _ p.1 p.2 hd).1

theorem execSeq_sp : ∀ (B : List (Insn ρ)) (_ : ∀ i ∈ B, Straight i = true) (fr fr' : Frame ρ) (g g' : G μ),
    execSeq B fr g = .ok (fr', g') → g'.sp = g.sp
  | [], _, fr, fr', g, g', h => by
    simp only [execSeq, Except.ok.injEq, Prod.mk.injEq] at h; obtain ⟨_, rfl⟩ := h; rfl
  | i :: tl, hs, fr, fr', g, g', h => by
    simp only [execSeq] at h
    cases h1 : stepInsn [] i fr g with
    | error e => simp [h1, bind, Except.bind] at h
    | ok p =>
      simp only [h1, bind, Except.bind] at h
      have := execSeq_sp tl (fun j hj => hs j (by simp [hj])) p.1 fr' p.2 g' h
      rw [this, step_sp i (hs i (by simp)) fr p.1 g p.2 (by simpa using h1)]

/-- the meaning of `call` for a callee `params; body; ret rets` with straight-line `body`, exactly
as `exec` computes it (evaluate the arguments, enter a new activation whose other registers start
from `init`, run the body, write the results, restore the alloca pointer) -/
def callSem (init : Regs ρ) (params : List ρ) (body : List (Insn ρ)) (rets : List ρ)
    (res args : List (Opd ρ)) (fr : Frame ρ) (g : G μ) : Except Err (Regs ρ × G μ) := do
  let av ← evalOpds fr.regs g args
  let (rs0, g0) ← enter init (params.map fun p => (p, Ty.i64)) av g
  let (fc, g1) ← execSeq body { regs := rs0, pc := 0 } g0
  setOpds fr.regs { g1 with sp := g.sp } res (rets.map fc.regs.get)

/-- **inline_sound_partial** (core).  If the call succeeds with caller registers `rsC` and global
state `gC`, the inlined code run in the caller's own activation succeeds with the same global state
and the same contents of every caller-visible register. -/
theorem inline_straight (hinj : ∀ a b, ren a = ren b → a = b) (hfresh : ∀ r, ¬ vis (ren r))
    (init : Regs ρ) (params : List ρ) (body : List (Insn ρ)) (rets : List ρ) (res args : List (Opd ρ))
    (fr : Frame ρ) (g : G μ) (hn : params.Nodup) (hb : ∀ i ∈ body, Straight i = true)
    (ha : ∀ a ∈ args, OpdVis vis a) (hd : ∀ d ∈ res, OpdVis vis d)
    (hinit : ∀ r, init.get r = fr.regs.get (ren r))
    (rsC : Regs ρ) (gC : G μ) (hcall : callSem init params body rets res args fr g = .ok (rsC, gC)) :
    ∃ fi, execSeq (inlinedCode ren params body rets res args) fr g = .ok (fi, gC) ∧
      AgreeVis vis fi.regs rsC := by
  simp only [callSem] at hcall
  cases h1 : evalOpds fr.regs g args with
  | error e => simp [h1, bind, Except.bind] at hcall
  | ok av =>
    simp only [h1, bind, Except.bind] at hcall
    cases h2 : enter init (params.map fun p => (p, Ty.i64)) av g with
    | error e => simp [h2] at hcall
    | ok q =>
      obtain ⟨rs0, g0⟩ := q
      simp only [h2] at hcall
      obtain ⟨eg, el, eget⟩ := enter_get init params av g rs0 g0 h2
      subst eg
      cases h3 : execSeq body { regs := rs0, pc := 0 } g0 with
      | error e => simp [h3] at hcall
      | ok q3 =>
        obtain ⟨fc, g1⟩ := q3
        simp only [h3] at hcall
        have hsp : g1.sp = g0.sp := execSeq_sp body hb _ fc g0 g1 h3
        have hg1 : ({ g1 with sp := g0.sp } : G μ) = g1 := by cases g1; simp_all
        rw [hg1] at hcall
        -- parameter moves
        obtain ⟨f1, e1, v1, c1⟩ := paramMoves_exec ren vis hinj hfresh fr.regs g0 params args av fr hn ha h1 el
          (fun _ _ => rfl)
        have hc1 : Carried ren rs0 f1.regs := by
          intro r
          rw [eget r, c1 r]
          have : ∀ (qs : List ρ) (ws : List W64), pget init.get qs ws r = pget (fun x => fr.regs.get (ren x)) qs ws r := by
            intro qs
            induction qs with
            | nil => intro ws; cases ws <;> simp [pget, hinit r]
            | cons q qt ih =>
              intro ws
              cases ws with
              | nil => simp [pget, hinit r]
              | cons w wt =>
                simp only [pget]
                split
                · rfl
                · exact ih wt
          exact this params av
        -- body
        obtain ⟨f2, e2, c2, v2⟩ := execSeq_ren ren vis hinj hfresh fr.regs body hb
          { regs := rs0, pc := 0 } f1 hc1 v1 g0 fc g1 h3
        -- result moves
        obtain ⟨f3, e3, v3⟩ := resultMoves_exec ren vis hfresh fc.regs res rets fr.regs f2 g1 rsC gC v2
          (fun r => (c2 r).symm) hd hcall
        refine ⟨f3, ?_, v3⟩
        simp only [inlinedCode, execSeq_append, e1, e2, e3, bind, Except.bind]


/-! ## `callSem` is what `exec` does at such a call -/

theorem stepInsn_body_irrel (i : Insn ρ) (hs : Straight i = true) (body : List (Insn ρ)) (fr : Frame ρ) (g : G μ) :
    stepInsn body i fr g = stepInsn [] i fr g := by
  cases i <;> simp [Straight] at hs <;> rfl

theorem evalOpds_regs (rs : Regs ρ) (g : G μ) : ∀ (l : List ρ), evalOpds rs g (l.map Opd.reg) = .ok (l.map rs.get)
  | [] => rfl
  | r :: tl => by simp [evalOpds, evalOpd, evalOpds_regs rs g tl, bind, Except.bind, pure, Except.pure]

theorem truncRes_i64 : ∀ (l : List ρ) (vs : List W64), l.length = vs.length →
    truncRes (l.map fun _ => Ty.i64) vs = .ok vs
  | [], [], _ => rfl
  | [], _ :: _, h => by simp at h
  | _ :: _, [], h => by simp at h
  | _ :: tl, v :: vs, h => by
    simp [truncRes, truncRes_i64 tl vs (by simpa using h), bind, Except.bind, pure, Except.pure, Ty.trunc, Ty.bytes]

theorem getElem_append_mid (pre : List (Insn ρ)) (x : Insn ρ) (post : List (Insn ρ)) :
    (pre ++ x :: post)[pre.length]? = some x := by
  simp

/-- running a callee `pre ++ B ++ [ret rets]` from the start of the straight-line part `B` -/
theorem exec_straight (P : Prog ρ) (c : Cfg ρ μ) (hchk : ∀ i fr, c.chk i fr = true) (init : String → Regs ρ)
    (f : Func ρ) (rets : List ρ) (hres : f.res = rets.map fun _ => Ty.i64) :
    ∀ (B pre : List (Insn ρ)) (_ : ∀ i ∈ B, Straight i = true) (_ : f.body = pre ++ B ++ [.ret (rets.map Opd.reg)])
      (fr : Frame ρ) (_ : fr.pc = pre.length) (g : G μ) (n : Nat),
      exec P c init (n + B.length + 1) f fr g
        = (execSeq B fr g >>= fun p => .ok (rets.map p.1.regs.get, p.2))
  | [], pre, _, hb, fr, hpc, g, n => by
    have hget : f.body[fr.pc]? = some (.ret (rets.map Opd.reg)) := by
      rw [hb, hpc]; simp
    simp only [List.length_nil, Nat.add_zero, exec, hget, hchk, Bool.not_true, Bool.false_eq_true, if_false,
      evalOpds_regs, hres, execSeq, bind, Except.bind]
    rw [truncRes_i64 rets _ (by simp)]
    rfl
  | i :: tl, pre, hs, hb, fr, hpc, g, n => by
    have hget : f.body[fr.pc]? = some i := by
      rw [hb, hpc]; simp
    have hi := hs i (by simp)
    have hnc : ∀ (inl : Bool) fn res args, i ≠ .call inl fn res args := by
      intro a b c d e; subst e; simp [Straight] at hi
    have hnr : ∀ vs, i ≠ .ret vs := by
      intro vs e; subst e; simp [Straight] at hi
    have e1 : n + (i :: tl).length + 1 = (n + tl.length + 1) + 1 := by simp; omega
    rw [e1]
    simp only [execSeq]
    rw [← stepInsn_body_irrel i hi f.body fr g]
    have hstep : exec P c init ((n + tl.length + 1) + 1) f fr g
        = (stepInsn f.body i fr g >>= fun p => exec P c init (n + tl.length + 1) f p.1 p.2) := by
      cases i <;> simp [Straight] at hi <;>
        simp only [exec, hget, hchk, Bool.not_true, Bool.false_eq_true, if_false] <;> rfl
    rw [hstep]
    cases h1 : stepInsn f.body i fr g with
    | error e => simp [bind, Except.bind]
    | ok p =>
      simp only [bind, Except.bind]
      have hpc' : p.1.pc = (pre ++ [i]).length := by
        rw [stepInsn_body_irrel i hi] at h1
        have : p.1.pc = fr.pc + 1 := by
          cases i <;> simp [Straight] at hi <;>
            (simp only [stepInsn, bind, Except.bind, pure, Except.pure] at h1
             repeat (split at h1 <;> try (cases h1))
             all_goals first | rfl | (injection h1 with h1; rw [← h1]; rfl))
        simp [this, hpc]
      have := exec_straight P c hchk init f rets hres tl (pre ++ [i]) (fun j hj => hs j (by simp [hj]))
        (by rw [hb]; simp) p.1 hpc' p.2 n
      rw [this]
      rfl


/-- at a `call` of a function `params (all i64); body; ret rets` with straight-line `body`, `exec`
performs `callSem` and continues behind the call -/
theorem exec_call_straight (P : Prog ρ) (c : Cfg ρ μ) (hchk : ∀ i fr, c.chk i fr = true) (init : String → Regs ρ)
    (caller callee : Func ρ) (fn : String) (inl : Bool) (params rets : List ρ) (body : List (Insn ρ))
    (res args : List (Opd ρ)) (fr : Frame ρ) (g : G μ)
    (hf : findFunc P fn = some callee) (hp : callee.params = params.map fun p => (p, Ty.i64))
    (hres : callee.res = rets.map fun _ => Ty.i64) (hbody : callee.body = body ++ [.ret (rets.map Opd.reg)])
    (hb : ∀ i ∈ body, Straight i = true) (hpc : caller.body[fr.pc]? = some (.call inl fn res args)) (n : Nat) :
    exec P c init (n + body.length + 2) caller fr g
      = (callSem (init fn) params body rets res args fr g >>= fun p =>
          exec P c init (n + body.length + 1) caller (next { fr with regs := p.1 }) p.2) := by
  have e : n + body.length + 2 = (n + body.length + 1) + 1 := by omega
  rw [e, exec]
  simp only [hpc, hchk, Bool.not_true, Bool.false_eq_true, if_false, hf, callSem, hp]
  cases h1 : evalOpds fr.regs g args with
  | error e => simp [bind, Except.bind]
  | ok av =>
    simp only [bind, Except.bind]
    cases h2 : enter (init fn) (params.map fun p => (p, Ty.i64)) av g with
    | error e => simp
    | ok q =>
      obtain ⟨rs0, g0⟩ := q
      simp only []
      have hs := exec_straight P c hchk init callee rets hres body [] hb (by simpa using hbody)
        { regs := rs0, pc := 0 } rfl g0 n
      rw [hs]
      cases h3 : execSeq body { regs := rs0, pc := 0 } g0 with
      | error e => simp [bind, Except.bind]
      | ok q3 =>
        obtain ⟨fc, g1⟩ := q3
        simp only [bind, Except.bind, pure, Except.pure]

end
end MirVerif.Simplify
