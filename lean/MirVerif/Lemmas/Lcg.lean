import Mathlib.NumberTheory.Multiplicity
import Mathlib.Data.Fintype.Card
import MirVerif.Lemmas.HtabTerm
/-!
Full period of the probe generator of `mir-htab.h` (`ind = (5 * ind + 1) & mask` once `peterb` is 0):
`x ↦ (5x+1) mod 2^k` visits every residue within `2^k` steps (Hull–Dobell, special case).

With `y = 4x+1` the map is `y ↦ 5y mod 2^(k+2)`; `v₂(5^n − 1) = 2 + v₂(n)` (lifting the exponent,
`Int.two_pow_sub_pow'`) makes the first `2^k` iterates pairwise distinct; a finite injective map is
surjective.  This is the only file of the project that imports Mathlib.
-/
namespace MirVerif.Lcg

def step (k x : ℕ) : ℕ := (5 * x + 1) % 2^k

def iter (k : ℕ) : ℕ → ℕ → ℕ
  | 0, x => x
  | n+1, x => step k (iter k n x)

theorem iter_lt (k n x : ℕ) (hx : x < 2^k) : iter k n x < 2^k := by
  cases n with
  | zero => simpa [iter]
  | succ n => simp [iter, step]; exact Nat.mod_lt _ (by positivity)

theorem iter_closed (k n x : ℕ) :
    (4 * iter k n x + 1) % 2^(k+2) = (5^n * (4*x+1)) % 2^(k+2) := by
  induction n with
  | zero => simp [iter]
  | succ n ih =>
    have h4 : 4 * ((5 * iter k n x + 1) % 2^k) = (4 * (5 * iter k n x + 1)) % 2^(k+2) := by
      rw [show 2^(k+2) = 4 * 2^k by ring, Nat.mul_mod_mul_left]
    simp only [iter, step]
    rw [h4]
    have : (4 * (5 * iter k n x + 1) % 2 ^ (k + 2) + 1) % 2^(k+2)
         = (5 * (4 * iter k n x + 1)) % 2^(k+2) := by
      rw [Nat.add_mod, Nat.mod_mod, ← Nat.add_mod]; congr 1; ring
    rw [this, Nat.mul_mod, ih, ← Nat.mul_mod]; congr 1; ring

theorem key (k n : ℕ) (h : (2:ℤ)^(k+2) ∣ 5^n - 1) : 2^k ∣ n := by
  have e := Int.two_pow_sub_pow' (x := 5) (y := 1) n (by norm_num) (by norm_num)
  simp only [one_pow] at e
  have h4 : emultiplicity (2:ℤ) (5 - 1) = 2 := by
    have : (5:ℤ) - 1 = 2^2 := by norm_num
    rw [this, emultiplicity_pow_self_of_prime Int.prime_two]; rfl
  rw [h4] at e
  have h1 := le_emultiplicity_of_pow_dvd h
  rw [e] at h1
  have h2 : (k : ℕ∞) ≤ emultiplicity (2:ℤ) (n:ℤ) := by
    have : ((k + 2 : ℕ) : ℕ∞) = 2 + (k : ℕ∞) := by push_cast; ring
    rw [this] at h1
    exact (ENat.add_le_add_iff_left (by simp)).mp h1
  have h3 := pow_dvd_of_le_emultiplicity h2
  exact_mod_cast h3

theorem iter_eq_dvd (k a b x : ℕ) (hab : a ≤ b) (h : iter k a x = iter k b x) : 2^k ∣ b - a := by
  have ha := iter_closed k a x
  have hb := iter_closed k b x
  rw [h] at ha
  have hm : 5^a * (4*x+1) ≡ 5^b * (4*x+1) [MOD 2^(k+2)] := by
    unfold Nat.ModEq; rw [← ha, ← hb]
  have hle : 5^a * (4*x+1) ≤ 5^b * (4*x+1) :=
    Nat.mul_le_mul_right _ (Nat.pow_le_pow_right (by norm_num) hab)
  have hd : 2^(k+2) ∣ 5^b * (4*x+1) - 5^a * (4*x+1) := (Nat.modEq_iff_dvd' hle).mp hm
  have hfac : 5^b * (4*x+1) - 5^a * (4*x+1) = (5^(b-a) - 1) * (5^a * (4*x+1)) := by
    have : 5^b = 5^(b-a) * 5^a := by rw [← pow_add, Nat.sub_add_cancel hab]
    rw [this, Nat.sub_mul, one_mul]; ring_nf
  rw [hfac] at hd
  have hodd : Nat.Coprime (2^(k+2)) (5^a * (4*x+1)) := by
    apply Nat.Coprime.pow_left
    rw [Nat.coprime_two_left]
    exact (Odd.pow (by decide)).mul ⟨2*x, by ring⟩
  have hd' : 2^(k+2) ∣ 5^(b-a) - 1 := hodd.dvd_of_dvd_mul_right hd
  apply key k (b-a)
  have h1 : 1 ≤ 5^(b-a) := Nat.one_le_pow _ _ (by norm_num)
  have : ((2^(k+2) : ℕ) : ℤ) ∣ ((5^(b-a) - 1 : ℕ) : ℤ) := Int.natCast_dvd_natCast.mpr hd'
  rw [Nat.cast_sub h1] at this
  exact_mod_cast this

/-- starting anywhere, the first `2^k` iterates visit every residue -/
theorem full_period' (k x t : ℕ) (hx : x < 2^k) (ht : t < 2^k) : ∃ n, n < 2^k ∧ iter k n x = t := by
  let f : Fin (2^k) → Fin (2^k) := fun n => ⟨iter k n x, iter_lt k n x hx⟩
  have hinj : Function.Injective f := by
    intro a b hab
    have hv : iter k a x = iter k b x := congrArg Fin.val hab
    rcases Nat.le_total a b with hle | hle
    · have := iter_eq_dvd k a b x hle hv
      have hlt : (b:ℕ) - a < 2^k := lt_of_le_of_lt (Nat.sub_le _ _) b.2
      have := Nat.eq_zero_of_dvd_of_lt this hlt
      exact Fin.ext (by omega)
    · have := iter_eq_dvd k b a x hle hv.symm
      have hlt : (a:ℕ) - b < 2^k := lt_of_le_of_lt (Nat.sub_le _ _) a.2
      have := Nat.eq_zero_of_dvd_of_lt this hlt
      exact Fin.ext (by omega)
  obtain ⟨n, hn⟩ := (Finite.injective_iff_surjective.mp hinj) ⟨t, ht⟩
  exact ⟨n, n.2, congrArg Fin.val hn⟩

theorem lcgIter_eq (k n x : ℕ) : MirVerif.Htab.lcgIter (2^k) n x = iter k n x := by
  induction n with
  | zero => rfl
  | succ n ih => rw [MirVerif.Htab.lcgIter, ih, MirVerif.Htab.lcgStep_eq_mod]; rfl

/-- the probe generator of `mir-htab.h` has full period -/
theorem full_period : MirVerif.Htab.FullPeriod := by
  intro k x t hx ht
  obtain ⟨n, hn, h⟩ := full_period' k x t hx ht
  exact ⟨n, hn, by rw [lcgIter_eq]; exact h⟩

end MirVerif.Lcg
