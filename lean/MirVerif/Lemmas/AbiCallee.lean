import MirVerif.Model.AbiCallee
/-! Helper lemmas for C06: simulation of the psABI walk by the three models of the code. -/
namespace MirVerif.AbiCallee

/-! ### runs of stack pieces -/

theorem fpRun_resolve (S : Int) : ∀ (n d off : Nat), d = off + 16 →
    (fpRun d n).map (MPiece.resolve (S - 8)) = (stkRun off n).map (Piece.resolve S)
  | 0, _, _, _ => rfl
  | n + 1, d, off, h => by
    simp only [fpRun, stkRun, List.map_cons, MPiece.resolve, Piece.resolve]
    rw [fpRun_resolve S n (d + 8) (off + 8) (by omega)]
    congr 2
    omega

theorem ovfRun_toPiece : ∀ (n off : Nat), (ovfRun off n).map Src.toPiece = stkRun off n
  | 0, _ => rfl
  | n + 1, off => by
    simp only [ovfRun, stkRun, List.map_cons, Src.toPiece]
    rw [ovfRun_toPiece n (off + 8)]

theorem rsaPiece_gpr (n : Nat) (h : n < 6) : rsaPiece (8 * n) = .gpr n := by
  unfold rsaPiece
  have h1 : 8 * n < 48 := by omega
  have h2 : 8 * n % 8 = 0 := by omega
  have h3 : 8 * n / 8 = n := by omega
  simp [h1, h2, h3]

theorem rsaPiece_xmm (n : Nat) (h : n < 8) : rsaPiece (48 + 16 * n) = .xmm n := by
  unfold rsaPiece
  have h1 : ¬ (48 + 16 * n < 48) := by omega
  have h2 : 48 + 16 * n < 176 := by omega
  simp [h1, h2]

/-! ### well-formed blocks -/

theorem wf_blk {k sz : Nat} (h : (PTy.blk k sz).wf = true) :
    1 ≤ sz ∧ k ≤ 4 ∧ (k = 0 ∨ sz ≤ 16) ∧ ((k = 3 ∨ k = 4) → 8 < sz) := by
  simp [PTy.wf] at h
  omega

/-! ### `target_machinize` simulates the psABI -/

def MachRel (m : MachSt) (s : SysV) : Prop :=
  s.ni = min m.intArgNum 6 ∧ s.nf = min m.fpArgNum 8 ∧ s.off = m.memSize

theorem machStep_sysv (S : Int) (m : MachSt) (s : SysV) (p : PTy) (hR : MachRel m s)
    (hwf : p.wf = true) :
    (machStep m p).1.map (MPiece.resolve (S - 8)) = (sysvStep s p).1.map (Piece.resolve S)
    ∧ MachRel (machStep m p).2 (sysvStep s p).2 := by
  obtain ⟨hi, hf, ho⟩ := hR
  cases p with
  | int =>
    by_cases h : m.intArgNum < 6
    · have h' : s.ni < 6 := by omega
      simp [machStep, sysvStep, intArgRegP, h, h', MachRel, MPiece.resolve, Piece.resolve]; omega
    · have h' : ¬ s.ni < 6 := by omega
      simp [machStep, sysvStep, intArgRegP, h, h', MachRel, MPiece.resolve, Piece.resolve, argDisp, startSpFromBp]
      omega
  | rblk =>
    by_cases h : m.intArgNum < 6
    · have h' : s.ni < 6 := by omega
      simp [machStep, sysvStep, intArgRegP, h, h', MachRel, MPiece.resolve, Piece.resolve]; omega
    · have h' : ¬ s.ni < 6 := by omega
      simp [machStep, sysvStep, intArgRegP, h, h', MachRel, MPiece.resolve, Piece.resolve, argDisp, startSpFromBp]
      omega
  | flt =>
    by_cases h : m.fpArgNum < 8
    · have h' : s.nf < 8 := by omega
      simp [machStep, sysvStep, fpArgRegP, h, h', MachRel, MPiece.resolve, Piece.resolve]; omega
    · have h' : ¬ s.nf < 8 := by omega
      simp [machStep, sysvStep, fpArgRegP, h, h', MachRel, MPiece.resolve, Piece.resolve, argDisp, startSpFromBp]
      omega
  | dbl =>
    by_cases h : m.fpArgNum < 8
    · have h' : s.nf < 8 := by omega
      simp [machStep, sysvStep, fpArgRegP, h, h', MachRel, MPiece.resolve, Piece.resolve]; omega
    · have h' : ¬ s.nf < 8 := by omega
      simp [machStep, sysvStep, fpArgRegP, h, h', MachRel, MPiece.resolve, Piece.resolve, argDisp, startSpFromBp]
      omega
  | ld =>
    simp [machStep, sysvStep, MachRel, MPiece.resolve, Piece.resolve, argDisp, startSpFromBp, ho]
    omega
  | blk k sz =>
    obtain ⟨h1, h4, h16, h8⟩ := wf_blk hwf
    have hw : (sz + 7) / 8 * 8 / 8 = words sz := by unfold words; omega
    have hmem : ∀ (m' : MachSt), m' = m →
        (fpRun (argDisp m'.memSize) ((sz + 7) / 8)).map (MPiece.resolve (S - 8))
          = (stkRun s.off (words sz)).map (Piece.resolve S) := by
      intro m' hm; subst hm
      exact fpRun_resolve S _ _ _ (by simp [argDisp, startSpFromBp]; omega)
    have hoff : m.memSize + (sz + 7) / 8 * 8 = s.off + 8 * words sz := by unfold words; omega
    rcases k with _ | _ | _ | _ | _ | k
    · -- blk0: memory
      simp only [machStep, sysvStep, MachRel]
      simp
      exact ⟨hmem m rfl, hi, hf, by omega⟩
    · -- blk1: integer registers if all of it fits
      by_cases hfit : s.ni + words sz ≤ 6
      · have hw12 : words sz = 1 ∨ words sz = 2 := by unfold words; omega
        rcases hw12 with hw1 | hw2
        · have hb : (sz + 7) / 8 * 8 ≤ 8 := by unfold words at hw1; omega
          have hb' : ¬ (sz + 7) / 8 * 8 > 8 := by omega
          have hreg : m.intArgNum < 6 := by omega
          have hfit1 : s.ni ≤ 5 := by omega
          simp [machStep, sysvStep, intArgRegP, MachRel, hfit1, hw1, hb, hb', hreg, MPiece.resolve, Piece.resolve]
          omega
        · have hb : (sz + 7) / 8 * 8 > 8 := by unfold words at hw2; omega
          have hb' : ¬ (sz + 7) / 8 * 8 ≤ 8 := by omega
          have hreg : m.intArgNum < 6 := by omega
          have hreg2 : m.intArgNum + 1 < 6 := by omega
          have hfit2 : s.ni ≤ 4 := by omega
          simp [machStep, sysvStep, intArgRegP, MachRel, hfit2, hw2, hb, hb', hreg, hreg2, MPiece.resolve, Piece.resolve]
          omega
      · have hnot : ¬ (m.intArgNum < 6 ∧ ((sz + 7) / 8 * 8 ≤ 8 ∨ m.intArgNum + 1 < 6)) := by
          unfold words at hfit; omega
        simp [machStep, sysvStep, intArgRegP, MachRel, hfit, hnot]
        exact ⟨hmem m rfl, hi, hf, by omega⟩
    · -- blk2: SSE registers if all of it fits
      by_cases hfit : s.nf + words sz ≤ 8
      · have hw12 : words sz = 1 ∨ words sz = 2 := by unfold words; omega
        rcases hw12 with hw1 | hw2
        · have hb : (sz + 7) / 8 * 8 ≤ 8 := by unfold words at hw1; omega
          have hb' : ¬ (sz + 7) / 8 * 8 > 8 := by omega
          have hreg : m.fpArgNum < 8 := by omega
          have hfit1 : s.nf ≤ 7 := by omega
          simp [machStep, sysvStep, fpArgRegP, MachRel, hfit1, hw1, hb, hb', hreg, MPiece.resolve, Piece.resolve]
          omega
        · have hb : (sz + 7) / 8 * 8 > 8 := by unfold words at hw2; omega
          have hb' : ¬ (sz + 7) / 8 * 8 ≤ 8 := by omega
          have hreg : m.fpArgNum < 8 := by omega
          have hreg2 : m.fpArgNum + 1 < 8 := by omega
          have hfit2 : s.nf ≤ 6 := by omega
          simp [machStep, sysvStep, fpArgRegP, MachRel, hfit2, hw2, hb, hb', hreg, hreg2, MPiece.resolve, Piece.resolve]
          omega
      · have hnot : ¬ (m.fpArgNum < 8 ∧ ((sz + 7) / 8 * 8 ≤ 8 ∨ m.fpArgNum + 1 < 8)) := by
          unfold words at hfit; omega
        simp [machStep, sysvStep, fpArgRegP, MachRel, hfit, hnot]
        exact ⟨hmem m rfl, hi, hf, by omega⟩
    · -- blk3: one integer and one SSE register
      by_cases hfit : s.ni < 6 ∧ s.nf < 8
      · have hreg : m.intArgNum < 6 ∧ m.fpArgNum < 8 := by omega
        simp [machStep, sysvStep, intArgRegP, fpArgRegP, MachRel, hfit, hreg, MPiece.resolve, Piece.resolve]
        omega
      · have hnot : ¬ (m.intArgNum < 6 ∧ m.fpArgNum < 8) := by omega
        simp [machStep, sysvStep, intArgRegP, fpArgRegP, MachRel, hfit, hnot]
        exact ⟨hmem m rfl, hi, hf, by omega⟩
    · -- blk4
      by_cases hfit : s.ni < 6 ∧ s.nf < 8
      · have hreg : m.intArgNum < 6 ∧ m.fpArgNum < 8 := by omega
        simp [machStep, sysvStep, intArgRegP, fpArgRegP, MachRel, hfit, hreg, MPiece.resolve, Piece.resolve]
        omega
      · have hnot : ¬ (m.intArgNum < 6 ∧ m.fpArgNum < 8) := by omega
        simp [machStep, sysvStep, intArgRegP, fpArgRegP, MachRel, hfit, hnot]
        exact ⟨hmem m rfl, hi, hf, by omega⟩
    · omega

theorem machWalk_sysv (S : Int) : ∀ (ps : List PTy) (m : MachSt) (s : SysV), MachRel m s →
    allWf ps = true →
    (machWalk m ps).1.map (·.map (MPiece.resolve (S - 8))) = (sysvWalk s ps).1.map (·.map (Piece.resolve S))
    ∧ MachRel (machWalk m ps).2 (sysvWalk s ps).2
  | [], _, _, hR, _ => ⟨rfl, hR⟩
  | p :: ps, m, s, hR, hwf => by
    simp only [allWf, Bool.and_eq_true] at hwf
    obtain ⟨h1, h2⟩ := machStep_sysv S m s p hR hwf.1
    obtain ⟨h3, h4⟩ := machWalk_sysv S ps _ _ h2 hwf.2
    simp only [machWalk, sysvWalk, List.map_cons]
    exact ⟨by rw [h1, h3], h4⟩

/-! ### fetching from a `va_list` simulates the psABI -/

/-- a `va_list` in the state the psABI prescribes for the register/stack consumption `s` -/
def VaRel (v : VaList) (s : SysV) : Prop :=
  v.gp = 8 * s.ni ∧ v.fp = 48 + 16 * s.nf ∧ v.oaa = s.off ∧ s.ni ≤ 6 ∧ s.nf ≤ 8

theorem vaBlockArg_sysv (v : VaList) (s : SysV) (k sz : Nat) (hR : VaRel v s)
    (hwf : (PTy.blk k sz).wf = true) :
    (vaBlockArg v sz k).1.map Src.toPiece = (sysvStep s (.blk k sz)).1
    ∧ VaRel (vaBlockArg v sz k).2 (sysvStep s (.blk k sz)).2 := by
  obtain ⟨hg, hf, ho, hi6, hf8⟩ := hR
  obtain ⟨h1, h4, h16, h8⟩ := wf_blk hwf
  have hmem : (ovfRun v.oaa ((sz + 7) / 8)).map Src.toPiece = stkRun s.off (words sz) := by
    rw [ovfRun_toPiece, ho]; rfl
  rcases k with _ | _ | _ | _ | _ | k
  · simp [vaBlockArg, sysvStep, VaRel]
    exact ⟨hmem, hg, hf, by unfold words; omega, hi6, hf8⟩
  · by_cases hfit : s.ni + words sz ≤ 6
    · have hw12 : words sz = 1 ∨ words sz = 2 := by unfold words; omega
      have hnov : ¬ (v.gp + (sz + 7) / 8 * 8 > 48) := by unfold words at hfit; omega
      have hp : rsaPiece v.gp = .gpr s.ni := by rw [hg]; exact rsaPiece_gpr s.ni (by omega)
      rcases hw12 with hw1 | hw2
      · have hb' : ¬ (sz + 7) / 8 * 8 > 8 := by unfold words at hw1; omega
        have hfit1 : s.ni ≤ 5 := by omega
        simp [vaBlockArg, sysvStep, VaRel, hfit1, hw1, hnov, hb', Src.toPiece, hp]
        omega
      · have hb : (sz + 7) / 8 * 8 > 8 := by unfold words at hw2; omega
        have hp2 : rsaPiece (v.gp + 8) = .gpr (s.ni + 1) := by
          have : v.gp + 8 = 8 * (s.ni + 1) := by omega
          rw [this]; exact rsaPiece_gpr (s.ni + 1) (by omega)
        have hfit2 : s.ni ≤ 4 := by omega
        simp [vaBlockArg, sysvStep, VaRel, hfit2, hw2, hnov, hb, Src.toPiece, hp, hp2]
        omega
    · have hov : v.gp + (sz + 7) / 8 * 8 > 48 := by unfold words at hfit; omega
      simp [vaBlockArg, sysvStep, VaRel, hfit, hov]
      exact ⟨hmem, hg, hf, by unfold words; omega, hi6, hf8⟩
  · by_cases hfit : s.nf + words sz ≤ 8
    · have hw12 : words sz = 1 ∨ words sz = 2 := by unfold words; omega
      have hnov : ¬ (v.fp + (sz + 7) / 8 * 8 * 2 > 176) := by unfold words at hfit; omega
      have hp : rsaPiece v.fp = .xmm s.nf := by rw [hf]; exact rsaPiece_xmm s.nf (by omega)
      rcases hw12 with hw1 | hw2
      · have hb' : ¬ (sz + 7) / 8 * 8 > 8 := by unfold words at hw1; omega
        have hfit1 : s.nf ≤ 7 := by omega
        simp [vaBlockArg, sysvStep, VaRel, hfit1, hw1, hnov, hb', Src.toPiece, hp]
        omega
      · have hb : (sz + 7) / 8 * 8 > 8 := by unfold words at hw2; omega
        have hp2 : rsaPiece (v.fp + 16) = .xmm (s.nf + 1) := by
          have : v.fp + 16 = 48 + 16 * (s.nf + 1) := by omega
          rw [this]; exact rsaPiece_xmm (s.nf + 1) (by omega)
        have hfit2 : s.nf ≤ 6 := by omega
        simp [vaBlockArg, sysvStep, VaRel, hfit2, hw2, hnov, hb, Src.toPiece, hp, hp2]
        omega
    · have hov : v.fp + (sz + 7) / 8 * 8 * 2 > 176 := by unfold words at hfit; omega
      simp [vaBlockArg, sysvStep, VaRel, hfit, hov]
      exact ⟨hmem, hg, hf, by unfold words; omega, hi6, hf8⟩
  · by_cases hfit : s.ni < 6 ∧ s.nf < 8
    · have hno : ¬ (v.fp > 160 ∨ v.gp > 40) := by omega
      have hp : rsaPiece v.gp = .gpr s.ni := by rw [hg]; exact rsaPiece_gpr s.ni hfit.1
      have hq : rsaPiece v.fp = .xmm s.nf := by rw [hf]; exact rsaPiece_xmm s.nf hfit.2
      simp [vaBlockArg, sysvStep, VaRel, hfit, hno, Src.toPiece, hp, hq]
      omega
    · have hyes : v.fp > 160 ∨ v.gp > 40 := by omega
      simp [vaBlockArg, sysvStep, VaRel, hfit, hyes]
      exact ⟨hmem, hg, hf, by unfold words; omega, hi6, hf8⟩
  · by_cases hfit : s.ni < 6 ∧ s.nf < 8
    · have hno : ¬ (v.fp > 160 ∨ v.gp > 40) := by omega
      have hp : rsaPiece v.gp = .gpr s.ni := by rw [hg]; exact rsaPiece_gpr s.ni hfit.1
      have hq : rsaPiece v.fp = .xmm s.nf := by rw [hf]; exact rsaPiece_xmm s.nf hfit.2
      simp [vaBlockArg, sysvStep, VaRel, hfit, hno, Src.toPiece, hp, hq]
      omega
    · have hyes : v.fp > 160 ∨ v.gp > 40 := by omega
      simp [vaBlockArg, sysvStep, VaRel, hfit, hyes]
      exact ⟨hmem, hg, hf, by unfold words; omega, hi6, hf8⟩
  · omega

theorem vaArgStep_sysv (v : VaList) (s : SysV) (p : PTy) (hR : VaRel v s) (hwf : p.wf = true) :
    (vaArgStep v p).1.map Src.toPiece = (sysvStep s p).1 ∧ VaRel (vaArgStep v p).2 (sysvStep s p).2 := by
  cases p with
  | blk k sz => exact vaBlockArg_sysv v s k sz hR hwf
  | ld =>
    obtain ⟨hg, hf, ho, hi6, hf8⟩ := hR
    simp [vaArgStep, sysvStep, VaRel, Src.toPiece, ho, hg, hf, hi6, hf8]
  | int =>
    obtain ⟨hg, hf, ho, hi6, hf8⟩ := hR
    by_cases h : s.ni < 6
    · have h' : v.gp ≤ 40 := by omega
      have hp : rsaPiece v.gp = .gpr s.ni := by rw [hg]; exact rsaPiece_gpr s.ni h
      simp [vaArgStep, sysvStep, VaRel, Src.toPiece, h, h', hp]; omega
    · have h' : ¬ v.gp ≤ 40 := by omega
      simp [vaArgStep, sysvStep, VaRel, Src.toPiece, h, h', ho]; omega
  | rblk =>
    obtain ⟨hg, hf, ho, hi6, hf8⟩ := hR
    by_cases h : s.ni < 6
    · have h' : v.gp ≤ 40 := by omega
      have hp : rsaPiece v.gp = .gpr s.ni := by rw [hg]; exact rsaPiece_gpr s.ni h
      simp [vaArgStep, sysvStep, VaRel, Src.toPiece, h, h', hp]; omega
    · have h' : ¬ v.gp ≤ 40 := by omega
      simp [vaArgStep, sysvStep, VaRel, Src.toPiece, h, h', ho]; omega
  | flt =>
    obtain ⟨hg, hf, ho, hi6, hf8⟩ := hR
    by_cases h : s.nf < 8
    · have h' : v.fp ≤ 160 := by omega
      have hp : rsaPiece v.fp = .xmm s.nf := by rw [hf]; exact rsaPiece_xmm s.nf h
      simp [vaArgStep, sysvStep, VaRel, Src.toPiece, h, h', hp]; omega
    · have h' : ¬ v.fp ≤ 160 := by omega
      simp [vaArgStep, sysvStep, VaRel, Src.toPiece, h, h', ho]; omega
  | dbl =>
    obtain ⟨hg, hf, ho, hi6, hf8⟩ := hR
    by_cases h : s.nf < 8
    · have h' : v.fp ≤ 160 := by omega
      have hp : rsaPiece v.fp = .xmm s.nf := by rw [hf]; exact rsaPiece_xmm s.nf h
      simp [vaArgStep, sysvStep, VaRel, Src.toPiece, h, h', hp]; omega
    · have h' : ¬ v.fp ≤ 160 := by omega
      simp [vaArgStep, sysvStep, VaRel, Src.toPiece, h, h', ho]; omega

theorem vaArgWalk_sysv : ∀ (ps : List PTy) (v : VaList) (s : SysV), VaRel v s →
    allWf ps = true →
    (vaArgWalk v ps).1.map (·.map Src.toPiece) = (sysvWalk s ps).1
    ∧ VaRel (vaArgWalk v ps).2 (sysvWalk s ps).2
  | [], _, _, hR, _ => ⟨rfl, hR⟩
  | p :: ps, v, s, hR, hwf => by
    simp only [allWf, Bool.and_eq_true] at hwf
    obtain ⟨h1, h2⟩ := vaArgStep_sysv v s p hR hwf.1
    obtain ⟨h3, h4⟩ := vaArgWalk_sysv ps _ _ h2 hwf.2
    simp only [vaArgWalk, sysvWalk, List.map_cons]
    exact ⟨by rw [h1, h3], h4⟩

/-- the C compiler's `va_arg` (used by `interp` for the named parameters) aligns `long double` itself -/
theorem gccVaArg_sysv (v : VaList) (s : SysV) (p : PTy) (hR : VaRel v s) (hwf : p.wf = true) :
    (gccVaArg v p).1.map Src.toPiece = (sysvStep s p).1 ∧ VaRel (gccVaArg v p).2 (sysvStep s p).2 := by
  cases p with
  | blk k sz => exact vaBlockArg_sysv v s k sz hR hwf
  | ld =>
    obtain ⟨hg, hf, ho, hi6, hf8⟩ := hR
    simp [gccVaArg, sysvStep, VaRel, Src.toPiece, ho, hg, hf, hi6, hf8]
  | int =>
    obtain ⟨hg, hf, ho, hi6, hf8⟩ := hR
    by_cases h : s.ni < 6
    · have h' : v.gp < 48 := by omega
      have hp : rsaPiece v.gp = .gpr s.ni := by rw [hg]; exact rsaPiece_gpr s.ni h
      simp [gccVaArg, sysvStep, VaRel, Src.toPiece, h, h', hp]; omega
    · have h' : ¬ v.gp < 48 := by omega
      simp [gccVaArg, sysvStep, VaRel, Src.toPiece, h, h', ho]; omega
  | rblk =>
    obtain ⟨hg, hf, ho, hi6, hf8⟩ := hR
    by_cases h : s.ni < 6
    · have h' : v.gp < 48 := by omega
      have hp : rsaPiece v.gp = .gpr s.ni := by rw [hg]; exact rsaPiece_gpr s.ni h
      simp [gccVaArg, sysvStep, VaRel, Src.toPiece, h, h', hp]; omega
    · have h' : ¬ v.gp < 48 := by omega
      simp [gccVaArg, sysvStep, VaRel, Src.toPiece, h, h', ho]; omega
  | flt =>
    obtain ⟨hg, hf, ho, hi6, hf8⟩ := hR
    by_cases h : s.nf < 8
    · have h' : v.fp < 176 := by omega
      have hp : rsaPiece v.fp = .xmm s.nf := by rw [hf]; exact rsaPiece_xmm s.nf h
      simp [gccVaArg, sysvStep, VaRel, Src.toPiece, h, h', hp]; omega
    · have h' : ¬ v.fp < 176 := by omega
      simp [gccVaArg, sysvStep, VaRel, Src.toPiece, h, h', ho]; omega
  | dbl =>
    obtain ⟨hg, hf, ho, hi6, hf8⟩ := hR
    by_cases h : s.nf < 8
    · have h' : v.fp < 176 := by omega
      have hp : rsaPiece v.fp = .xmm s.nf := by rw [hf]; exact rsaPiece_xmm s.nf h
      simp [gccVaArg, sysvStep, VaRel, Src.toPiece, h, h', hp]; omega
    · have h' : ¬ v.fp < 176 := by omega
      simp [gccVaArg, sysvStep, VaRel, Src.toPiece, h, h', ho]; omega

theorem shimWalk_sysv : ∀ (ps : List PTy) (v : VaList) (s : SysV), VaRel v s →
    allWf ps = true →
    (shimWalk v ps).1.map (·.map Src.toPiece) = (sysvWalk s ps).1
    ∧ VaRel (shimWalk v ps).2 (sysvWalk s ps).2
  | [], _, _, hR, _ => ⟨rfl, hR⟩
  | p :: ps, v, s, hR, hwf => by
    simp only [allWf, Bool.and_eq_true] at hwf
    obtain ⟨h1, h2⟩ := gccVaArg_sysv v s p hR hwf.1
    obtain ⟨h3, h4⟩ := shimWalk_sysv ps _ _ h2 hwf.2
    simp only [shimWalk, sysvWalk, List.map_cons]
    exact ⟨by rw [h1, h3], h4⟩

/-! ### the walk keeps the register counters within the register files -/

theorem sysvStep_bounds (s : SysV) (p : PTy) (hwf : p.wf = true) (hi : s.ni ≤ 6) (hf : s.nf ≤ 8) :
    (sysvStep s p).2.ni ≤ 6 ∧ (sysvStep s p).2.nf ≤ 8 := by
  cases p with
  | blk k sz =>
    rcases k with _ | _ | _ | _ | _ | k
    · simp [sysvStep]; omega
    · by_cases h : s.ni + words sz ≤ 6 <;> simp [sysvStep, h] <;> omega
    · by_cases h : s.nf + words sz ≤ 8 <;> simp [sysvStep, h] <;> omega
    · by_cases h : s.ni < 6 ∧ s.nf < 8 <;> simp [sysvStep, h] <;> omega
    · by_cases h : s.ni < 6 ∧ s.nf < 8 <;> simp [sysvStep, h] <;> omega
    · simp [sysvStep]; omega
  | int => by_cases h : s.ni < 6 <;> simp [sysvStep, h] <;> omega
  | rblk => by_cases h : s.ni < 6 <;> simp [sysvStep, h] <;> omega
  | flt => by_cases h : s.nf < 8 <;> simp [sysvStep, h] <;> omega
  | dbl => by_cases h : s.nf < 8 <;> simp [sysvStep, h] <;> omega
  | ld => simp [sysvStep]; omega

theorem sysvWalk_bounds : ∀ (ps : List PTy) (s : SysV), allWf ps = true → s.ni ≤ 6 → s.nf ≤ 8 →
    (sysvWalk s ps).2.ni ≤ 6 ∧ (sysvWalk s ps).2.nf ≤ 8
  | [], _, _, hi, hf => ⟨hi, hf⟩
  | p :: ps, s, hwf, hi, hf => by
    simp only [allWf, Bool.and_eq_true] at hwf
    obtain ⟨h1, h2⟩ := sysvStep_bounds s p hwf.1 hi hf
    simp only [sysvWalk]
    exact sysvWalk_bounds ps _ hwf.2 h1 h2

/-! ### result registers -/

theorem retStep_of_spec (c : RetCnt) (t : RTy) (r : RetLoc × RetCnt) (h : retSpecStep c t = some r) :
    retGenStep c t = some r ∧ retShimStep c t = some r := by
  cases t <;> simp only [retSpecStep] at h <;> split at h
  all_goals first
    | (rename_i h0; simp [retGenStep, retShimStep, h0] at h ⊢; exact h)
    | (split at h
       · rename_i h0 h1; simp [retGenStep, retShimStep, h1] at h ⊢; exact h
       · exact absurd h (by simp))

theorem retWalk_of_spec : ∀ (rs : List RTy) (c : RetCnt) (locs : List RetLoc),
    retWalk retSpecStep c rs = some locs →
    retWalk retGenStep c rs = some locs ∧ retWalk retShimStep c rs = some locs
  | [], _, _, h => by simpa [retWalk] using h
  | t :: ts, c, locs, h => by
    simp only [retWalk] at h
    cases hs : retSpecStep c t with
    | none => simp [hs] at h
    | some r =>
      obtain ⟨l, c'⟩ := r
      simp only [hs, Option.map_eq_some_iff] at h
      obtain ⟨rest, hr, hl⟩ := h
      obtain ⟨hg, hsh⟩ := retStep_of_spec c t (l, c') hs
      obtain ⟨ig, ish⟩ := retWalk_of_spec ts c' rest hr
      simp [retWalk, hg, hsh, ig, ish, hl]

end MirVerif.AbiCallee
