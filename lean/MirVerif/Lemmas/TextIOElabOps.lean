import MirVerif.Lemmas.TextIOElabLabels
/-! # C10 — elaboration of the operands and instructions of a function body -/
namespace TextIO

theorem canonLabels_cons_some {k0 k l k' : Nat} {ls : List Nat} (h : canonLabels k0 k (l :: ls) = some k') :
    ∃ k1, canonStep k0 k l = some k1 ∧ canonLabels k0 k1 ls = some k' := by
  rw [canonLabels_cons] at h
  cases h1 : canonStep k0 k l with
  | none => simp [h1] at h
  | some k1 => exact ⟨k1, rfl, by simpa [h1] using h⟩

theorem canonLabels_append_some {k0 k k' : Nat} {a b : List Nat} (h : canonLabels k0 k (a ++ b) = some k') :
    ∃ k1, canonLabels k0 k a = some k1 ∧ canonLabels k0 k1 b = some k' := by
  rw [canonLabels_append] at h
  cases h1 : canonLabels k0 k a with
  | none => simp [h1] at h
  | some k1 => exact ⟨k1, rfl, by simpa [h1] using h⟩

theorem elabOps_cons_plain {st : St} {h : Head} {r : ROp} {op : Op} (os : List ROp) (acc : List Op)
    (hr : ∀ rest acc', elabOps st h (r :: rest) acc' = elabOps st h rest (acc' ++ [op])) :
    elabOps st h (r :: os) acc = elabOps st h os (acc ++ [op]) := hr os acc

/-- the operands of one instruction -/
theorem elabOps_ops {c : Nat} {f : Func} {m : Module} (ops : List Op) :
    ∀ (st : St) (acc : List Op) (k0 k k' : Nat) (defs : List Nat),
      st.func = some f → st.cur = some m → st.lastInsn = c → k0 ≤ k →
      LabInv st.labels k0 k defs → st.nlab = k →
      opsOK f.regNames st.tab c ops acc.length = true →
      canonLabels k0 k (ops.flatMap opLabels) = some k' →
      ∃ st', elabOps st (.insn c) (ops.map ropOfOp) acc = .ok (st', acc ++ ops.map normOp) ∧ SameBut st st' ∧
        LabInv st'.labels k0 k' defs ∧ st'.nlab = k' ∧ k0 ≤ k' := by
  induction ops with
  | nil =>
    intro st acc k0 k k' defs _ _ _ hk0 hinv hn _ hcan
    simp only [List.flatMap_nil, canonLabels, Option.some.injEq] at hcan
    subst hcan
    exact ⟨st, by simp [elabOps], SameBut.refl st, hinv, hn, hk0⟩
  | cons o os ih =>
    intro st acc k0 k k' defs hf hcur hli hk0 hinv hn hok hcan
    simp only [opsOK, Bool.and_eq_true] at hok
    obtain ⟨ho, hrest⟩ := hok
    have hlen : (acc ++ [normOp o]).length = acc.length + 1 := by simp
    -- all operand kinds except labels leave the state alone
    have plain : ∀ (r : ROp), ropOfOp o = r → opLabels o = [] →
        (∀ rest, elabOps st (.insn c) (r :: rest) acc = elabOps st (.insn c) rest (acc ++ [normOp o])) →
        ∃ st', elabOps st (.insn c) ((o :: os).map ropOfOp) acc = .ok (st', acc ++ (o :: os).map normOp) ∧
          SameBut st st' ∧ LabInv st'.labels k0 k' defs ∧ st'.nlab = k' ∧ k0 ≤ k' := by
      intro r hr hl hstep
      have hcan' : canonLabels k0 k (os.flatMap opLabels) = some k' := by
        simpa [List.flatMap_cons, hl] using hcan
      obtain ⟨st', h1, h2, h3, h4, h5⟩ := ih st (acc ++ [normOp o]) k0 k k' defs hf hcur hli hk0 hinv hn
        (by rw [hlen]; exact hrest) hcan'
      refine ⟨st', ?_, h2, h3, h4, h5⟩
      simp only [List.map_cons, hr, hstep, h1, List.append_assoc, List.singleton_append]
    simp only [opOK, Bool.and_eq_true] at ho
    obtain ⟨hpos, hkind⟩ := ho
    cases o with
    | int v => exact plain _ rfl rfl (fun rest => by simp [elabOps, normOp, ropOfOp])
    | uint v => exact plain _ rfl rfl (fun rest => by simp [elabOps, normOp, ropOfOp])
    | flt b => exact plain _ rfl rfl (fun rest => by simp [elabOps, normOp, ropOfOp])
    | dbl b => exact plain _ rfl rfl (fun rest => by simp [elabOps, normOp, ropOfOp])
    | ldbl b => exact plain _ rfl rfl (fun rest => by simp [elabOps, normOp, ropOfOp])
    | str s =>
      have hs : forceNul s = s := forceNul_eq_self (by simpa using hkind)
      exact plain _ rfl rfl (fun rest => by simp [elabOps, normOp, ropOfOp, hs])
    | reg n =>
      simp only [Bool.and_eq_true] at hkind
      have hlp : labelPos c acc.length = false := by simpa using hpos
      have hmem : n ∈ f.regNames := by simpa using hkind.2
      exact plain _ rfl rfl (fun rest => by
        simp [elabOps, ropOfOp, normOp, elabName, headCode, hlp, hf, hmem])
    | ref n =>
      simp only [Bool.and_eq_true, Bool.not_eq_true'] at hkind
      have hlp : labelPos c acc.length = false := by simpa using hpos
      have hnm : n ∉ f.regNames := by simpa using hkind.1.2
      exact plain _ rfl rfl (fun rest => by
        simp [elabOps, ropOfOp, normOp, elabName, headCode, hlp, hf, hnm, hkind.2, hcur])
    | mem mm =>
      simp only [memOK, Bool.and_eq_true] at hkind
      obtain ⟨⟨⟨hb, hi⟩, _⟩, _⟩ := hkind
      have hbase : checkReg st (normMem mm).base = .ok () := by
        have : (normMem mm).base = mm.base := by unfold normMem; split <;> rfl
        rw [this]
        cases hbb : mm.base with
        | none => rfl
        | some b =>
          rw [hbb] at hb; simp only [Bool.and_eq_true] at hb
          have : b ∈ f.regNames := by simpa using hb.2
          simp [checkReg, hf, this]
      have hidx : checkReg st (normMem mm).index = .ok () := by
        have : (normMem mm).index = mm.index := by unfold normMem; split <;> rfl
        rw [this]
        cases hii : mm.index with
        | none => rfl
        | some i =>
          rw [hii] at hi; simp only [Bool.and_eq_true] at hi
          have : i ∈ f.regNames := by simpa using hi.2
          simp [checkReg, hf, this]
      exact plain _ rfl rfl (fun rest => by simp [elabOps, ropOfOp, normOp, hbase, hidx])
    | label l =>
      have hlp : labelPos c acc.length = true := by
        simp only [Bool.and_eq_true] at hpos; exact hpos.1
      have hcan' : canonLabels k0 k (l :: os.flatMap opLabels) = some k' := by
        simpa [List.flatMap_cons, opLabels] using hcan
      obtain ⟨k1, hs1, hs2⟩ := canonLabels_cons_some hcan'
      obtain ⟨st1, hc1, hsame, hinv1, hn1, hk1⟩ := createLabel_use hk0 hinv hn hs1
      obtain ⟨st', h1, h2, h3, h4, h5⟩ := ih st1 (acc ++ [normOp (.label l)]) k0 k1 k' defs
        (hsame.2.2.2.1.trans hf) (hsame.2.1.trans hcur) (hsame.2.2.2.2.trans hli) hk1 hinv1 hn1
        (by rw [hlen, hsame.2.2.1]; exact hrest) hs2
      refine ⟨st', ?_, SameBut.trans hsame h2, h3, h4, h5⟩
      simp only [List.map_cons, ropOfOp, elabOps, elabName, headCode, hlp, hc1, Except.map, normOp] at h1 ⊢
      simpa [List.append_assoc] using h1


/-! ## labels in front of an instruction, instruction statements, bodies -/

theorem noDup_cons {x : Nat} {xs : List Nat} (h : noDup (x :: xs) = true) : x ∉ xs ∧ noDup xs = true := by
  simp only [noDup, Bool.and_eq_true, Bool.not_eq_true'] at h
  exact ⟨by simpa using h.1, h.2⟩

theorem noDup_append {a b : List Nat} (h : noDup (a ++ b) = true) :
    noDup a = true ∧ noDup b = true ∧ ∀ x ∈ a, x ∉ b := by
  induction a with
  | nil => exact ⟨rfl, by simpa using h, fun _ hx => by simp at hx⟩
  | cons x xs ih =>
    obtain ⟨h1, h2⟩ := noDup_cons (by simpa using h)
    obtain ⟨i1, i2, i3⟩ := ih h2
    refine ⟨?_, i2, ?_⟩
    · simp only [noDup, Bool.and_eq_true, Bool.not_eq_true']
      refine ⟨?_, i1⟩
      have : x ∉ xs := fun hm => h1 (List.mem_append_left _ hm)
      simpa using this
    · intro y hy
      simp only [List.mem_cons] at hy
      rcases hy with hy | hy
      · subst hy; exact fun hm => h1 (List.mem_append_right _ hm)
      · exact i3 y hy

/-- scanner state inside a function: everything but the function body, the label table and the
instruction code is as in `st0` -/
structure InFunc (st0 st : St) (f : Func) : Prop where
  done : st.done = st0.done
  cur : st.cur = st0.cur
  tab : st.tab = st0.tab
  func : st.func = some f

theorem defineLabels_list {f0 : Func} (pl : List Nat) :
    ∀ (st0 st : St) (f : Func) (k0 k k' : Nat) (defs : List Nat),
      InFunc st0 st f → k0 ≤ k → LabInv st.labels k0 k defs → st.nlab = k →
      canonLabels k0 k pl = some k' → noDup (defs ++ pl) = true →
      ∃ st', defineLabels st (pl.map printLabel) = .ok st' ∧
        InFunc st0 st' { f with body := f.body ++ pl.map FItem.label } ∧ st'.lastInsn = st.lastInsn ∧
        LabInv st'.labels k0 k' (defs ++ pl) ∧ st'.nlab = k' ∧ k0 ≤ k' := by
  induction pl with
  | nil =>
    intro st0 st f k0 k k' defs hin hk0 hinv hn hcan _
    simp only [canonLabels, Option.some.injEq] at hcan; subst hcan
    exact ⟨st, rfl, by simpa using hin, rfl, by simpa using hinv, hn, hk0⟩
  | cons l ls ih =>
    intro st0 st f k0 k k' defs hin hk0 hinv hn hcan hnd
    obtain ⟨k1, hs1, hs2⟩ := canonLabels_cons_some hcan
    obtain ⟨_, _, hdisj⟩ := noDup_append hnd
    have hl : l ∉ defs := fun hm => hdisj l hm (List.mem_cons_self)
    obtain ⟨st1, hc1, hsame, hinv1, hn1, hk1⟩ := createLabel_def hk0 hinv hn hs1 hl
    have hf1 : st1.func = some f := hsame.2.2.2.1.trans hin.func
    let st2 : St := { st1 with func := some { f with body := f.body ++ [.label l] } }
    have hin2 : InFunc st0 st2 { f with body := f.body ++ [.label l] } :=
      ⟨hsame.1.trans hin.done, hsame.2.1.trans hin.cur, hsame.2.2.1.trans hin.tab, rfl⟩
    obtain ⟨st', h1, h2, h3, h4, h5, h6⟩ := ih st0 st2 _ k0 k1 k' (defs ++ [l]) hin2 hk1 hinv1 hn1 hs2
      (by simpa [List.append_assoc] using hnd)
    refine ⟨st', ?_, by simpa [List.append_assoc] using h2, by rw [h3]; exact hsame.2.2.2.2,
      by simpa [List.append_assoc] using h4, h5, h6⟩
    simp only [List.map_cons, defineLabels, hc1, hf1]
    exact h1

theorem codeOK_checkNops {c n : Nat} (hc : codeOK c = true) (hn : nopsOK c n = true) : checkNops c n = .ok () := by
  simp only [codeOK, Bool.and_eq_true, decide_eq_true_eq] at hc
  simp only [nopsOK, Bool.and_eq_true, Bool.or_eq_true, decide_eq_true_eq, Bool.not_eq_true', Bool.and_eq_false_iff,
    decide_eq_false_iff_not] at hn
  obtain ⟨⟨h1, h2⟩, h3⟩ := hn
  unfold checkNops
  rw [if_neg (by intro h; rcases h with h | h <;> simp_all)]
  rw [if_neg (by
    intro h
    simp only [Bool.and_eq_true, Bool.not_eq_true', decide_eq_true_eq] at h
    rcases h1 with h1 | h1
    · simp [h1] at h
    · exact h.2 h1)]
  rw [if_neg (by
    intro h
    simp only [Bool.and_eq_true, decide_eq_true_eq] at h
    rcases h2 with h2 | h2
    · exact h2 (by simpa using h.1)
    · omega)]
  rw [if_neg (by
    intro h
    simp only [Bool.and_eq_true, decide_eq_true_eq] at h
    rcases h3 with h3 | h3
    · simp [h3] at h
    · omega)]

/-- one instruction statement with the labels in front of it -/
theorem elab_insn_stmt {st0 st : St} {f : Func} {m : Module} (hin : InFunc st0 st f) (hcur : st0.cur = some m)
    {k0 k k' : Nat} {defs : List Nat} (hk0 : k0 ≤ k) (hinv : LabInv st.labels k0 k defs) (hn : st.nlab = k)
    (pl : List Nat) (c : Nat) (ops : List Op)
    (hok : fitemOK f.regNames st.tab (.insn c ops) = true)
    (hcan : canonLabels k0 k (pl ++ ops.flatMap opLabels) = some k') (hnd : noDup (defs ++ pl) = true) :
    ∃ st', elabStmt st ⟨pl.map printLabel, .insn c, ops.map ropOfOp, false⟩ = .ok st' ∧
      InFunc st0 st' { f with body := f.body ++ pl.map FItem.label ++ [.insn c (ops.map normOp)] } ∧
      st'.lastInsn = c ∧ LabInv st'.labels k0 k' (defs ++ pl) ∧ st'.nlab = k' ∧ k0 ≤ k' := by
  simp only [fitemOK, Bool.and_eq_true] at hok
  obtain ⟨⟨hcode, hnops⟩, hops⟩ := hok
  obtain ⟨k1, hc1, hc2⟩ := canonLabels_append_some hcan
  let stA : St := { st with lastInsn := c }
  have hinA : InFunc st0 stA f := ⟨hin.done, hin.cur, hin.tab, hin.func⟩
  obtain ⟨st1, hd1, hin1, hli1, hinv1, hn1, hk1⟩ :=
    defineLabels_list (f0 := f) pl st0 stA f k0 k k1 defs hinA hk0 hinv hn hc1 hnd
  have hli1' : st1.lastInsn = c := hli1
  have hregs : ({ f with body := f.body ++ pl.map FItem.label } : Func).regNames = f.regNames := rfl
  obtain ⟨st2, he2, hsame2, hinv2, hn2, hk2⟩ :=
    elabOps_ops (c := c) (f := { f with body := f.body ++ pl.map FItem.label }) (m := m) ops st1 [] k0 k1 k'
      (defs ++ pl) hin1.func (hin1.cur.trans hcur) hli1' hk1 hinv1 hn1
      (by rw [hregs, hin1.tab, ← hin.tab]; simpa using hops) hc2
  have hchk := codeOK_checkNops hcode (by simpa using hnops)
  have hf2 : st2.func = some { f with body := f.body ++ pl.map FItem.label } := hsame2.2.2.2.1.trans hin1.func
  refine ⟨{ st2 with func := some { f with body := f.body ++ pl.map FItem.label ++ [.insn c (ops.map normOp)] } },
    ?_, ⟨hsame2.1.trans hin1.done, hsame2.2.1.trans hin1.cur, hsame2.2.2.1.trans hin1.tab, rfl⟩,
    hsame2.2.2.2.2.trans hli1', hinv2, hn2, hk2⟩
  simp only [elabStmt]
  have hd1' : defineLabels { st with lastInsn := c } (pl.map printLabel) = .ok st1 := hd1
  simp only [hd1', he2, List.nil_append, List.length_map, hchk, hf2]

end TextIO
