import MirVerif.Lemmas.CArithFold
/-! C07: the C operators on mathematical values (`cBin`, written from C11 6.5.5-6.5.12) against the
two's-complement host operations the folder uses (`cS`/`cU`), per width and signedness, and their
assembly for the six types operators are carried out in. -/
namespace MirVerif.CArith
open MirVerif

theorem toInt_wrapI_of_range {n} (hn : 0 < n) (v : Int) (h1 : -(2 ^ (n - 1)) ≤ v) (h2 : v < 2 ^ (n - 1)) :
    (wrapI n v).toInt = v :=
  BitVec.toInt_ofInt_eq_self hn (by simpa using h1) h2

/-- the `fit` of `cBin` for a signed type -/
theorem fit_signed {t : IType} (hs : t.signed = true) (v r : Int)
    (h : (if t.signed then (if -(2 ^ (t.width - 1)) ≤ v ∧ v < 2 ^ (t.width - 1) then some v else none)
          else some (v % 2 ^ t.width)) = some r) :
    v = r ∧ -(2 ^ (t.width - 1)) ≤ v ∧ v < 2 ^ (t.width - 1) := by
  rw [hs] at h
  simp only [if_true] at h
  split at h
  · rename_i hc; exact ⟨Option.some.inj h, hc⟩
  · cases h

theorem fit_signed' (w : Nat) (v r : Int)
    (h : (if -(2 ^ (w - 1)) ≤ v ∧ v < 2 ^ (w - 1) then some v else none) = some r) :
    v = r ∧ -(2 ^ (w - 1)) ≤ v ∧ v < 2 ^ (w - 1) := by
  split at h
  · rename_i hc; exact ⟨Option.some.inj h, hc⟩
  · cases h

theorem cBin_signed_arith {n} (hn : 0 < n) (t : IType) (hw : t.width = n) (hs : t.signed = true)
    (o : BinOp) (ho : o = .add ∨ o = .sub ∨ o = .mul) (x y : BitVec n) (r : Int)
    (h : cBin o t x.toInt y.toInt = some r) : ∃ z, cS o x y = some z ∧ z.toInt = r := by
  subst hw
  rcases ho with rfl | rfl | rfl <;> simp only [cBin] at h <;>
    obtain ⟨e, h1, h2⟩ := fit_signed hs _ _ h <;> subst e
  · exact ⟨_, rfl, by rw [add_doc]; exact toInt_wrapI_of_range hn _ h1 h2⟩
  · exact ⟨_, rfl, by rw [sub_doc]; exact toInt_wrapI_of_range hn _ h1 h2⟩
  · exact ⟨_, rfl, by rw [mul_doc]; exact toInt_wrapI_of_range hn _ h1 h2⟩

theorem cBin_signed_div {n} (hn : 0 < n) (t : IType) (hw : t.width = n) (hs : t.signed = true)
    (x y : BitVec n) (r : Int) (h : cBin .div t x.toInt y.toInt = some r) :
    ∃ z, cS .div x y = some z ∧ z.toInt = r := by
  subst hw
  simp only [cBin] at h
  split at h
  · cases h
  · rename_i hb
    obtain ⟨e, h1, h2⟩ := fit_signed' _ _ _ h
    subst e
    have hy : y ≠ 0 := fun e => hb (by rw [e]; simp)
    have hnm : ¬ (x = BitVec.intMin t.width ∧ y = BitVec.allOnes t.width) := by
      rintro ⟨ex, ey⟩
      rw [ex, ey, toInt_intMin' hn, toInt_allOnes' hn] at h2
      simp [Int.tdiv_neg] at h2
    simp only [cS]
    rw [if_neg (by rintro (h0 | h0); exact hy h0; exact hnm h0)]
    exact ⟨_, rfl, by rw [sdiv_doc]; exact toInt_wrapI_of_range hn _ h1 h2⟩

theorem cBin_signed_mod {n} (hn : 0 < n) (t : IType) (hw : t.width = n) (hs : t.signed = true)
    (x y : BitVec n) (r : Int) (h : cBin .mod t x.toInt y.toInt = some r) :
    ∃ z, cS .mod x y = some z ∧ z.toInt = r := by
  subst hw
  simp only [cBin] at h
  split at h
  · cases h
  · rename_i hb
    split at h
    · cases h
    · rename_i hm
      obtain ⟨e, h1, h2⟩ := fit_signed' _ _ _ h
      subst e
      have hy : y ≠ 0 := fun e => hb (by rw [e]; simp)
      have hnm : ¬ (x = BitVec.intMin t.width ∧ y = BitVec.allOnes t.width) := by
        rintro ⟨ex, ey⟩
        exact hm ⟨hs, by rw [ex, toInt_intMin' hn], by rw [ey, toInt_allOnes' hn]⟩
      simp only [cS]
      rw [if_neg (by rintro (h0 | h0); exact hy h0; exact hnm h0)]
      exact ⟨_, rfl, by rw [srem_doc]; exact toInt_wrapI_of_range hn _ h1 h2⟩

theorem toNat_of_toInt_nonneg {n} (y : BitVec n) (h : 0 ≤ y.toInt) : (y.toNat : Int) = y.toInt := by
  rw [BitVec.toInt_eq_toNat_cond] at h ⊢
  split at h <;> rename_i hc
  · rw [if_pos hc]
  · have := y.isLt; omega

theorem toInt_wrapN_small {n} (hn : 0 < n) (v : Nat) (h : (v : Int) < 2 ^ (n - 1)) : (wrapN n v).toInt = v := by
  have hp : 2 ^ n = 2 * 2 ^ (n - 1) := by
    conv => lhs; rw [show n = (n - 1) + 1 by omega]
    rw [Nat.pow_succ]; omega
  have hv : v < 2 ^ (n - 1) := by exact_mod_cast h
  rw [wrapN, BitVec.toInt_eq_toNat_cond, BitVec.toNat_ofNat, Nat.mod_eq_of_lt (by omega)]
  rw [if_pos (by omega)]

theorem cBin_signed_shift {n} (hn : 0 < n) (t : IType) (hw : t.width = n) (hs : t.signed = true)
    (o : BinOp) (ho : o = .lsh ∨ o = .rsh) (x y : BitVec n) (r : Int)
    (h : cBin o t x.toInt y.toInt = some r) : ∃ z, cS o x y = some z ∧ z.toInt = r := by
  subst hw
  rcases ho with rfl | rfl <;> simp only [cBin] at h <;> split at h
  · cases h
  · rename_i hb
    have hb0 : 0 ≤ y.toInt := by omega
    have hyn := toNat_of_toInt_nonneg y hb0
    have hk : y.toNat < t.width := by omega
    have hkk : y.toInt.toNat = y.toNat := by omega
    split at h
    · cases h
    · rename_i ha
      obtain ⟨e, h1, h2⟩ := fit_signed' _ _ _ h
      subst e
      have ha0 : 0 ≤ x.toInt := by omega
      have hxn := toNat_of_toInt_nonneg x ha0
      simp only [cS]
      rw [if_pos hk]
      refine ⟨_, rfl, ?_⟩
      rw [shl_doc, toInt_wrapN_small hn]
      · rw [hkk, ← hxn]; push_cast; rfl
      · rw [hkk, ← hxn] at h2; push_cast; exact h2
  · cases h
  · rename_i hb
    have hb0 : 0 ≤ y.toInt := by omega
    have hyn := toNat_of_toInt_nonneg y hb0
    have hk : y.toNat < t.width := by omega
    have hkk : y.toInt.toNat = y.toNat := by omega
    simp only [cS]
    rw [if_pos hk]
    refine ⟨_, rfl, ?_⟩
    rw [BitVec.toInt_sshiftRight, Int.shiftRight_eq_div_pow, ← Option.some.inj h, hkk]
    norm_cast

theorem fit_unsigned {t : IType} (hs : t.signed = false) (v r : Int)
    (h : (if t.signed then (if -(2 ^ (t.width - 1)) ≤ v ∧ v < 2 ^ (t.width - 1) then some v else none)
          else some (v % 2 ^ t.width)) = some r) : r = v % 2 ^ t.width := by
  rw [hs] at h
  simpa using h.symm

theorem natCast_two_pow (n : Nat) : ((2 ^ n : Nat) : Int) = 2 ^ n := by norm_cast

theorem cBin_unsigned {n} (t : IType) (hw : t.width = n) (hs : t.signed = false)
    (o : BinOp) (ho : o ≠ .and ∧ o ≠ .or ∧ o ≠ .xor) (x y : BitVec n) (r : Int)
    (h : cBin o t (x.toNat : Int) (y.toNat : Int) = some r) : ∃ z, cU o x y = some z ∧ (z.toNat : Int) = r := by
  subst hw
  have hx := x.isLt
  have hy := y.isLt
  cases o <;> simp only [cBin] at h
  · -- add
    have e := fit_unsigned hs _ _ h
    exact ⟨_, rfl, by rw [e, BitVec.toNat_add]; push_cast; rfl⟩
  · -- sub
    have e := fit_unsigned hs _ _ h
    refine ⟨_, rfl, ?_⟩
    rw [e, BitVec.toNat_sub]
    have : ((2 ^ t.width - y.toNat + x.toNat : Nat) : Int) = (x.toNat : Int) - y.toNat + 2 ^ t.width := by
      rw [Int.natCast_add, Int.natCast_sub (Nat.le_of_lt hy), natCast_two_pow]; omega
    rw [Int.natCast_emod, this, natCast_two_pow, Int.add_emod_right]
  · -- mul
    have e := fit_unsigned hs _ _ h
    exact ⟨_, rfl, by rw [e, BitVec.toNat_mul]; push_cast; rfl⟩
  · -- div
    split at h
    · cases h
    · rename_i hb
      have e := fit_unsigned hs _ _ h
      have hy0 : y ≠ 0 := fun e0 => hb (by rw [e0]; simp)
      simp only [cU]
      rw [if_neg hy0]
      refine ⟨_, rfl, ?_⟩
      rw [e, BitVec.toNat_udiv, Int.tdiv_eq_ediv_of_nonneg (by omega), ← Int.natCast_ediv]
      have : x.toNat / y.toNat < 2 ^ t.width := Nat.lt_of_le_of_lt (Nat.div_le_self _ _) hx
      rw [Int.emod_eq_of_lt (Int.natCast_nonneg _) (by exact_mod_cast this)]
  · -- mod
    split at h
    · cases h
    · rename_i hb
      rw [hs] at h
      simp only [Bool.false_eq_true, false_and, if_false] at h
      have e : r = (x.toNat : Int).tmod y.toNat % 2 ^ t.width := by simpa using h.symm
      have hy0 : y ≠ 0 := fun e0 => hb (by rw [e0]; simp)
      simp only [cU]
      rw [if_neg hy0]
      refine ⟨_, rfl, ?_⟩
      rw [e, BitVec.toNat_umod, Int.tmod_eq_emod_of_nonneg (by omega), ← Int.natCast_emod]
      have : x.toNat % y.toNat < 2 ^ t.width := Nat.lt_of_le_of_lt (Nat.mod_le _ _) hx
      rw [Int.emod_eq_of_lt (Int.natCast_nonneg _) (by exact_mod_cast this)]
  · exact absurd rfl ho.1
  · exact absurd rfl ho.2.1
  · exact absurd rfl ho.2.2
  · -- lsh
    split at h
    · cases h
    · rename_i hb
      rw [hs] at h
      simp only [Bool.false_eq_true, if_false] at h
      have hk : y.toNat < t.width := by omega
      simp only [cU]
      rw [if_pos hk]
      refine ⟨_, rfl, ?_⟩
      rw [← Option.some.inj h, BitVec.toNat_shiftLeft, Nat.shiftLeft_eq]
      push_cast
      simp
  · -- rsh
    split at h
    · cases h
    · rename_i hb
      have hk : y.toNat < t.width := by omega
      simp only [cU]
      rw [if_pos hk]
      refine ⟨_, rfl, ?_⟩
      rw [← Option.some.inj h, BitVec.toNat_ushiftRight, Nat.shiftRight_eq_div_pow]
      push_cast
      simp

/-! ## assembling: the folder computes the value C defines -/

theorem ofInt_natCast_toNat (a : W64) : BitVec.ofInt 64 (a.toNat : Int) = a := by
  rw [BitVec.ofInt_natCast, BitVec.ofNat_toNat, BitVec.setWidth_eq]

def isBitwise (o : BinOp) : Bool := match o with | .and | .or | .xor => true | _ => false

theorem cBin_signed_all {n} (hn : 0 < n) (t : IType) (hw : t.width = n) (hs : t.signed = true)
    (o : BinOp) (ho : isBitwise o = false) (x y : BitVec n) (r : Int)
    (h : cBin o t x.toInt y.toInt = some r) : ∃ z, cS o x y = some z ∧ z.toInt = r := by
  cases o
  · exact cBin_signed_arith hn t hw hs _ (Or.inl rfl) x y r h
  · exact cBin_signed_arith hn t hw hs _ (Or.inr (Or.inl rfl)) x y r h
  · exact cBin_signed_arith hn t hw hs _ (Or.inr (Or.inr rfl)) x y r h
  · exact cBin_signed_div hn t hw hs x y r h
  · exact cBin_signed_mod hn t hw hs x y r h
  · cases ho
  · cases ho
  · cases ho
  · exact cBin_signed_shift hn t hw hs _ (Or.inl rfl) x y r h
  · exact cBin_signed_shift hn t hw hs _ (Or.inr rfl) x y r h

theorem cBin_unsigned_all {n} (t : IType) (hw : t.width = n) (hs : t.signed = false)
    (o : BinOp) (ho : isBitwise o = false) (x y : BitVec n) (r : Int)
    (h : cBin o t (x.toNat : Int) (y.toNat : Int) = some r) : ∃ z, cU o x y = some z ∧ (z.toNat : Int) = r := by
  apply cBin_unsigned t hw hs o _ x y r h
  cases o <;> simp [isBitwise] at ho ⊢

/-- bitwise operators on 64-bit images of a signed type (`valOf = toInt`) -/
theorem cBin_bitwise_signed (t : IType) (hs : t.signed = true) (o : BinOp) (ho : isBitwise o = true) (a b : W64) (r : Int)
    (h : cBin o t a.toInt b.toInt = some r) : ∃ z, cS o a b = some z ∧ z.toInt = r := by
  cases o <;> simp [isBitwise] at ho <;>
    simp only [cBin, valOf, hs, if_true, BitVec.ofInt_toInt] at h <;>
    exact ⟨_, rfl, Option.some.inj h⟩

theorem cBin_bitwise_unsigned (t : IType) (hs : t.signed = false) (o : BinOp) (ho : isBitwise o = true) (a b : W64) (r : Int)
    (h : cBin o t (a.toNat : Int) (b.toNat : Int) = some r) : ∃ z, cU o a b = some z ∧ (z.toNat : Int) = r := by
  cases o <;> simp [isBitwise] at ho <;>
    simp only [cBin, valOf, hs, Bool.false_eq_true, if_false, ofInt_natCast_toNat] at h <;>
    exact ⟨_, rfl, Option.some.inj h⟩

theorem castValue_long (x : W64) : castValue .long x = x := rfl
theorem castValue_llong (x : W64) : castValue .llong x = x := rfl
theorem castValue_ulong (x : W64) : castValue .ulong x = x := rfl
theorem castValue_ullong (x : W64) : castValue .ullong x = x := rfl

theorem fold_meets_c_s64 (t : IType) (hw : t.width = 64) (hs : t.signed = true) (hc : ∀ x, castValue t x = x)
    (o : BinOp) (a b : W64) (r : Int) (h : cBin o t (valOf t a) (valOf t b) = some r) :
    ∃ z, foldConst o t a b = some z ∧ valOf t z = r := by
  simp only [valOf, hs, if_true] at h ⊢
  simp only [foldConst, foldBin, hostOp, hs, if_true, hc]
  cases hb : isBitwise o
  · obtain ⟨z, hz, hv⟩ := cBin_signed_all (by decide) t hw hs o hb a b r h
    exact ⟨z, by rw [hz, Option.map_some, hc], hv⟩
  · obtain ⟨z, hz, hv⟩ := cBin_bitwise_signed t hs o hb a b r h
    exact ⟨z, by rw [hz, Option.map_some, hc], hv⟩

theorem fold_meets_c_u64 (t : IType) (hw : t.width = 64) (hs : t.signed = false) (hc : ∀ x, castValue t x = x)
    (o : BinOp) (a b : W64) (r : Int) (h : cBin o t (valOf t a) (valOf t b) = some r) :
    ∃ z, foldConst o t a b = some z ∧ valOf t z = r := by
  simp only [valOf, hs, Bool.false_eq_true, if_false] at h ⊢
  simp only [foldConst, foldBin, hostOp, hs, Bool.false_eq_true, if_false, hc]
  cases hb : isBitwise o
  · obtain ⟨z, hz, hv⟩ := cBin_unsigned_all t hw hs o hb a b r h
    exact ⟨z, by rw [hz, Option.map_some, hc], hv⟩
  · obtain ⟨z, hz, hv⟩ := cBin_bitwise_unsigned t hs o hb a b r h
    exact ⟨z, by rw [hz, Option.map_some, hc], hv⟩

theorem sext32_and (x y : W32) : sext32 (x &&& y) = sext32 x &&& sext32 y := by simp [sext32]
theorem sext32_or (x y : W32) : sext32 (x ||| y) = sext32 x ||| sext32 y := by simp [sext32]
theorem sext32_xor (x y : W32) : sext32 (x ^^^ y) = sext32 x ^^^ sext32 y := by simp [sext32]
theorem zext32_and (x y : W32) : zext32 (x &&& y) = zext32 x &&& zext32 y := by simp [zext32]
theorem zext32_or (x y : W32) : zext32 (x ||| y) = zext32 x ||| zext32 y := by simp [zext32]
theorem zext32_xor (x y : W32) : zext32 (x ^^^ y) = zext32 x ^^^ zext32 y := by simp [zext32]

theorem fold_meets_c_int (o : BinOp) (a b : W64) (ha : canonical .int a) (hb : canonical .int b) (r : Int)
    (h : cBin o .int (valOf .int a) (valOf .int b) = some r) :
    ∃ z, foldConst o .int a b = some z ∧ valOf .int z = r := by
  have ea : a = sext32 (lo32 a) := ha.symm
  have eb : b = sext32 (lo32 b) := hb.symm
  have hs : IType.signed .int = true := rfl
  simp only [valOf, hs, if_true] at h ⊢
  simp only [foldConst, foldBin, hostOp, hs, if_true, castValue_int]
  cases hbw : isBitwise o
  · rw [ea, eb, toInt_sext32, toInt_sext32] at h
    obtain ⟨z32, hz, hv⟩ := cBin_signed_all (n := 32) (by decide) .int rfl rfl o hbw _ _ r h
    obtain ⟨z64, hz64, hl⟩ := cS_sext o _ _ z32 hz
    exact ⟨sext32 z32, by rw [hz64, Option.map_some, castValue_int, hl], by rw [toInt_sext32]; exact hv⟩
  · obtain ⟨z, hz, hv⟩ := cBin_bitwise_signed .int rfl o hbw a b r h
    refine ⟨z, ?_, hv⟩
    rw [← ea, ← eb, hz, Option.map_some]
    congr 1
    cases o <;> simp [isBitwise] at hbw <;> simp only [cS] at hz <;> rw [← Option.some.inj hz]
    · rw [castValue_int, lo32_and, sext32_and, ← ea, ← eb]
    · rw [castValue_int, lo32_or, sext32_or, ← ea, ← eb]
    · rw [castValue_int, lo32_xor, sext32_xor, ← ea, ← eb]

theorem fold_meets_c_uint (o : BinOp) (a b : W64) (ha : canonical .uint a) (hb : canonical .uint b) (r : Int)
    (h : cBin o .uint (valOf .uint a) (valOf .uint b) = some r) :
    ∃ z, foldConst o .uint a b = some z ∧ valOf .uint z = r := by
  have ea : a = zext32 (lo32 a) := ha.symm
  have eb : b = zext32 (lo32 b) := hb.symm
  have hs : IType.signed .uint = false := rfl
  simp only [valOf, hs, Bool.false_eq_true, if_false] at h ⊢
  simp only [foldConst, foldBin, hostOp, hs, Bool.false_eq_true, if_false, castValue_uint]
  cases hbw : isBitwise o
  · rw [ea, eb, toNat_zext32, toNat_zext32] at h
    obtain ⟨z32, hz, hv⟩ := cBin_unsigned_all (n := 32) .uint rfl rfl o hbw _ _ r h
    obtain ⟨z64, hz64, hl⟩ := cU_zext o _ _ z32 hz
    exact ⟨zext32 z32, by rw [hz64, Option.map_some, castValue_uint, hl], by rw [toNat_zext32]; exact hv⟩
  · obtain ⟨z, hz, hv⟩ := cBin_bitwise_unsigned .uint rfl o hbw a b r h
    refine ⟨z, ?_, hv⟩
    rw [← ea, ← eb, hz, Option.map_some]
    congr 1
    cases o <;> simp [isBitwise] at hbw <;> simp only [cU] at hz <;> rw [← Option.some.inj hz]
    · rw [castValue_uint, lo32_and, zext32_and, ← ea, ← eb]
    · rw [castValue_uint, lo32_or, zext32_or, ← ea, ← eb]
    · rw [castValue_uint, lo32_xor, zext32_xor, ← ea, ← eb]
end MirVerif.CArith
