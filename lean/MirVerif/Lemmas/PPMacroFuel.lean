import MirVerif.Model.PPMacro
/-!
# C09 — `expand_terminates`

`expandFuel n` interprets the recursion equations of the C11 expander with an explicit bound `n` on
the recursion depth (`none` = bound exceeded).  `expandFuel_reaches` shows, by induction along the
well-founded order of the specification, that for every input some bound suffices and every larger
bound gives the same result, namely that of the total function `expandList`: the rescanning process
of 6.10.3.4 (arguments first, then the replacement list together with the rest of the tokens, nested
replacement with the macro disabled) terminates on every macro table and every token sequence —
including self-referential and mutually recursive definitions.
`expandFuel` is structurally recursive, so the kernel can evaluate it: it is also used to *compute*
`expandList` on concrete inputs inside proofs (`expandList_of_fuel`).
-/
set_option linter.unusedSimpArgs false
set_option linter.unusedVariables false
namespace MirVerif.PP

def mapOpt {α β : Type} (f : α → Option β) : List α → Option (List β)
  | [] => some []
  | a :: as =>
    match f a, mapOpt f as with
    | some b, some bs => some (b :: bs)
    | _, _ => none

def argOut (o : XOut) : List Tok × Bool := (o.toks ++ o.pending.toList, o.err)

/-- one unfolding of the recursion equations; `rec` stands for the recursive calls -/
def stepF (defs : Defs) (rec : List String → Option Tok → List Tok → Option XOut)
    (dis : List String) (pend : Option Tok) (ts : List Tok) : Option XOut :=
    match pend with
    | some f =>
      match lookup defs f.sp, dis.contains f.sp with
      | some m, false =>
        match ts with
        | [] => some ⟨[], some f, false⟩
        | t :: rest =>
          if t.sp == "(" then
            match collectArgs (m.params.getD []).length m.variadic 0 [] [] rest with
            | none => some ⟨f :: t :: rest, none, true⟩
            | some (args0, rest') =>
              match checkArity m args0 with
              | none => some ⟨f :: t :: rest, none, true⟩
              | some args =>
                match mapOpt (fun a => (rec dis none a).map argOut) args0 with
                | none => none
                | some exp =>
                  let expArgs := if args.length == args0.length then exp.map (·.1) else args.map (fun _ => [])
                  let needed := neededArgs false m.repl
                  let aerr := (exp.zipIdx.filter (fun p => needed.contains p.2)).any (·.1.2)
                  match subst m args expArgs with
                  | none => some ⟨f :: t :: rest, none, true⟩
                  | some body =>
                    match rec (f.sp :: dis) none (retouch body f.ws) with
                    | none => none
                    | some o1 =>
                      match rec dis o1.pending (afterExp rest') with
                      | none => none
                      | some o2 => some (o2.prepend o1.toks (aerr || o1.err))
          else (rec dis none (t :: rest)).map (·.cons f)
      | _, _ => (rec dis none ts).map (·.cons f)
    | none =>
      match ts with
      | [] => some ⟨[], none, false⟩
      | t :: rest =>
        if isIdent t.sp && !t.painted then
          match lookup defs t.sp with
          | none => (rec dis none rest).map (·.cons t)
          | some m =>
            match dis.contains t.sp with
            | true => (rec dis none rest).map (·.cons (paint t))
            | false =>
              match m.params with
              | none =>
                match subst m [] [] with
                | none => some ⟨t :: rest, none, true⟩
                | some body =>
                  match rec (t.sp :: dis) none (retouch body t.ws) with
                  | none => none
                  | some o1 =>
                    match rec dis o1.pending (afterExp rest) with
                    | none => none
                    | some o2 => some (o2.prepend o1.toks o1.err)
              | some _ => rec dis (some t) rest
        else (rec dis none rest).map (·.cons t)

def expandFuel (defs : Defs) : Nat → List String → Option Tok → List Tok → Option XOut
  | 0 => fun _ _ _ => none
  | n + 1 => stepF defs (expandFuel defs n)

/-- "from some bound on, the bounded interpreter returns the value of the specification" -/
def Reaches (defs : Defs) (dis : List String) (pend : Option Tok) (ts : List Tok) : Prop :=
  ∃ N, ∀ m, N ≤ m → expandFuel defs m dis pend ts = some (expandList defs dis pend ts)

theorem mapOpt_eq {α β : Type} (f : α → Option β) (h : α → β) (l : List α)
    (hf : ∀ a, a ∈ l → f a = some (h a)) : mapOpt f l = some (l.map h) := by
  induction l with
  | nil => simp [mapOpt]
  | cons a as ih =>
    have h1 := hf a (by simp)
    have h2 := ih (fun b hb => hf b (by simp [hb]))
    simp [mapOpt, h1, h2]

theorem uniform_bound {α : Type} (l : List α) (P : α → Nat → Prop)
    (h : ∀ a, a ∈ l → ∃ N, ∀ m, N ≤ m → P a m) : ∃ N, ∀ a, a ∈ l → ∀ m, N ≤ m → P a m := by
  induction l with
  | nil => exact ⟨0, by simp⟩
  | cons a as ih =>
    obtain ⟨N1, h1⟩ := h a (by simp)
    obtain ⟨N2, h2⟩ := ih (fun b hb => h b (by simp [hb]))
    refine ⟨max N1 N2, ?_⟩
    intro b hb m hm
    cases hb with
    | head => exact h1 m (by omega)
    | tail _ hb' => exact h2 b hb' m (by omega)


theorem succ_of_le {N m : Nat} (h : N + 1 ≤ m) : ∃ k, m = k + 1 ∧ N ≤ k := ⟨m - 1, by omega, by omega⟩

/-! ### the recursion equations of `expandList`, case by case -/
section eqs
variable {defs : Defs} {dis : List String}

theorem xl_pend_nil {t : Tok} {m : Macro} (hl : lookup defs t.sp = some m)
    (hd : dis.contains t.sp = false) : expandList defs dis (some t) [] = ⟨[], some t, false⟩ := by
  rw [expandList]; split
  · rfl
  · rename_i hne; exact (hne m hl hd).elim

theorem xl_pend_unterminated {t t1 : Tok} {rest : List Tok} {m : Macro}
    (hl : lookup defs t.sp = some m) (hd : dis.contains t.sp = false) (hp : (t1.sp == "(") = true)
    (hc : collectArgs (m.params.getD []).length m.variadic 0 [] [] rest = none) :
    expandList defs dis (some t) (t1 :: rest) = ⟨t :: t1 :: rest, none, true⟩ := by
  rw [expandList]; split
  · rename_i m' hl' hd'
    have : m' = m := by rw [hl] at hl'; cases hl'; rfl
    subst this
    simp only [hp, if_true]
    split
    · rfl
    · rename_i h; rw [hc] at h; cases h
  · rename_i hne; exact (hne m hl hd).elim

theorem xl_pend_arity {t t1 : Tok} {rest rest' : List Tok} {m : Macro} {args0 : List (List Tok)}
    (hl : lookup defs t.sp = some m) (hd : dis.contains t.sp = false) (hp : (t1.sp == "(") = true)
    (hc : collectArgs (m.params.getD []).length m.variadic 0 [] [] rest = some (args0, rest'))
    (ha : checkArity m args0 = none) :
    expandList defs dis (some t) (t1 :: rest) = ⟨t :: t1 :: rest, none, true⟩ := by
  rw [expandList]; split
  · rename_i m' hl' hd'
    have : m' = m := by rw [hl] at hl'; cases hl'; rfl
    subst this
    simp only [hp, if_true]
    split
    · rfl
    · rename_i a0 r0 h
      rw [hc] at h; cases h
      simp only [ha]
  · rename_i hne; exact (hne m hl hd).elim

/-- the pre-expanded arguments as the specification computes them -/
def expArgsOf (defs : Defs) (dis : List String) (args0 : List (List Tok)) : List (List Tok × Bool) :=
  args0.map (fun a => argOut (expandList defs dis none a))

theorem attach_map_eq (args0 : List (List Tok)) :
    args0.attach.map (fun x =>
      ((expandList defs dis none x.val).toks ++ (expandList defs dis none x.val).pending.toList,
        (expandList defs dis none x.val).err)) = expArgsOf defs dis args0 := by
  unfold expArgsOf argOut
  rw [List.attach_map_val (f := fun a => ((expandList defs dis none a).toks ++ (expandList defs dis none a).pending.toList, (expandList defs dis none a).err))]

theorem xl_pend_badpaste {t t1 : Tok} {rest rest' : List Tok} {m : Macro} {args0 args : List (List Tok)}
    (hl : lookup defs t.sp = some m) (hd : dis.contains t.sp = false) (hp : (t1.sp == "(") = true)
    (hc : collectArgs (m.params.getD []).length m.variadic 0 [] [] rest = some (args0, rest'))
    (ha : checkArity m args0 = some args)
    (hs : subst m args (if args.length == args0.length then (expArgsOf defs dis args0).map (·.1)
            else args.map (fun _ => [])) = none) :
    expandList defs dis (some t) (t1 :: rest) = ⟨t :: t1 :: rest, none, true⟩ := by
  rw [expandList]; split
  · rename_i m' hl' hd'
    have : m' = m := by rw [hl] at hl'; cases hl'; rfl
    subst this
    simp only [hp, if_true]
    split
    · rfl
    · rename_i a0 r0 h
      rw [hc] at h; cases h
      simp only [ha, attach_map_eq]
      split
      · rfl
      · rename_i body hb
        rw [hs] at hb; cases hb
  · rename_i hne; exact (hne m hl hd).elim

theorem xl_pend_call {t t1 : Tok} {rest rest' : List Tok} {m : Macro} {args0 args : List (List Tok)}
    {body : List Tok}
    (hl : lookup defs t.sp = some m) (hd : dis.contains t.sp = false) (hp : (t1.sp == "(") = true)
    (hc : collectArgs (m.params.getD []).length m.variadic 0 [] [] rest = some (args0, rest'))
    (ha : checkArity m args0 = some args)
    (hs : subst m args (if args.length == args0.length then (expArgsOf defs dis args0).map (·.1)
            else args.map (fun _ => [])) = some body) :
    expandList defs dis (some t) (t1 :: rest) =
      (expandList defs dis (expandList defs (t.sp :: dis) none (retouch body t.ws)).pending (afterExp rest')).prepend
        (expandList defs (t.sp :: dis) none (retouch body t.ws)).toks
        ((((expArgsOf defs dis args0).zipIdx.filter (fun p => (neededArgs false m.repl).contains p.2)).any (·.1.2))
          || (expandList defs (t.sp :: dis) none (retouch body t.ws)).err) := by
  rw [expandList]; split
  · rename_i m' hl' hd'
    have : m' = m := by rw [hl] at hl'; cases hl'; rfl
    subst this
    simp only [hp, if_true]
    split
    · rename_i h; rw [hc] at h; cases h
    · rename_i a0 r0 h
      rw [hc] at h; cases h
      simp only [ha, attach_map_eq]
      split
      · rename_i hb; rw [hs] at hb; cases hb
      · rename_i body' hb
        rw [hs] at hb; cases hb
        rfl
  · rename_i hne; exact (hne m hl hd).elim

theorem xl_pend_nocall {t t1 : Tok} {rest : List Tok} {m : Macro}
    (hl : lookup defs t.sp = some m) (hd : dis.contains t.sp = false) (hp : ¬(t1.sp == "(") = true) :
    expandList defs dis (some t) (t1 :: rest) = (expandList defs dis none (t1 :: rest)).cons t := by
  rw [expandList]; split
  · rename_i m' hl' hd'
    simp only [hp, if_false]
    rfl
  · rename_i hne; exact (hne m hl hd).elim

theorem xl_pend_notmacro {t : Tok} {ts : List Tok}
    (hne : ∀ (m : Macro), lookup defs t.sp = some m → dis.contains t.sp = false → False) :
    expandList defs dis (some t) ts = (expandList defs dis none ts).cons t := by
  rw [expandList]; split
  · rename_i m' hl' hd'; exact (hne m' hl' hd').elim
  · rfl

theorem xl_nil : expandList defs dis none [] = ⟨[], none, false⟩ := by
  rw [expandList]

theorem xl_obj_badpaste {t : Tok} {rest : List Tok} {m : Macro}
    (hi : (isIdent t.sp && !t.painted) = true) (hl : lookup defs t.sp = some m)
    (hd : dis.contains t.sp = false) (hp : m.params = none) (hs : subst m [] [] = none) :
    expandList defs dis none (t :: rest) = ⟨t :: rest, none, true⟩ := by
  rw [expandList]
  simp only [hi, if_true]
  split
  · rename_i h; rw [hl] at h; cases h
  · rename_i m' hl'
    have : m' = m := by rw [hl] at hl'; cases hl'; rfl
    subst this
    split
    · rename_i h; rw [hd] at h; cases h
    · simp only [hp, hs]

theorem xl_obj {t : Tok} {rest : List Tok} {m : Macro} {body : List Tok}
    (hi : (isIdent t.sp && !t.painted) = true) (hl : lookup defs t.sp = some m)
    (hd : dis.contains t.sp = false) (hp : m.params = none) (hs : subst m [] [] = some body) :
    expandList defs dis none (t :: rest) =
      (expandList defs dis (expandList defs (t.sp :: dis) none (retouch body t.ws)).pending (afterExp rest)).prepend
        (expandList defs (t.sp :: dis) none (retouch body t.ws)).toks
        (expandList defs (t.sp :: dis) none (retouch body t.ws)).err := by
  rw [expandList]
  simp only [hi, if_true]
  split
  · rename_i h; rw [hl] at h; cases h
  · rename_i m' hl'
    have : m' = m := by rw [hl] at hl'; cases hl'; rfl
    subst this
    split
    · rename_i h; rw [hd] at h; cases h
    · simp only [hp, hs]

theorem xl_fun {t : Tok} {rest : List Tok} {m : Macro} {ps : List String}
    (hi : (isIdent t.sp && !t.painted) = true) (hl : lookup defs t.sp = some m)
    (hd : dis.contains t.sp = false) (hp : m.params = some ps) :
    expandList defs dis none (t :: rest) = expandList defs dis (some t) rest := by
  conv => lhs; rw [expandList]
  simp only [hi, if_true]
  split
  · rename_i h; rw [hl] at h; cases h
  · rename_i m' hl'
    have : m' = m := by rw [hl] at hl'; cases hl'; rfl
    subst this
    split
    · rename_i h; rw [hd] at h; cases h
    · simp only [hp]

theorem xl_skip {t : Tok} {rest : List Tok} (hi : ¬(isIdent t.sp && !t.painted) = true) :
    expandList defs dis none (t :: rest) = (expandList defs dis none rest).cons t := by
  rw [expandList]
  simp only [hi, if_false]
  rfl

theorem xl_nonmacro {t : Tok} {rest : List Tok} (hi : (isIdent t.sp && !t.painted) = true)
    (hl : lookup defs t.sp = none) :
    expandList defs dis none (t :: rest) = (expandList defs dis none rest).cons t := by
  rw [expandList]
  simp only [hi, if_true]
  split
  · rfl
  · rename_i m hl'; rw [hl] at hl'; cases hl'

theorem xl_disabled {t : Tok} {rest : List Tok} {m : Macro} (hi : (isIdent t.sp && !t.painted) = true)
    (hl : lookup defs t.sp = some m) (hd : dis.contains t.sp = true) :
    expandList defs dis none (t :: rest) = (expandList defs dis none rest).cons (paint t) := by
  rw [expandList]
  simp only [hi, if_true]
  split
  · rename_i h; rw [hl] at h; cases h
  · split
    · rfl
    · rename_i h; rw [hd] at h; cases h

end eqs

theorem expandFuel_reaches (defs : Defs) :
    ∀ (dis : List String) (pend : Option Tok) (ts : List Tok), Reaches defs dis pend ts := by
  refine expandList.induct defs (Reaches defs) ?_ ?_ ?_ ?_ ?_ ?_ ?_ ?_ ?_ ?_ ?_ ?_ ?_ ?_
  · -- 1: pending name at the end of the list
    intro dis t m hl hd
    refine ⟨1, fun k hk => ?_⟩
    obtain ⟨k, rfl, _⟩ := succ_of_le hk
    rw [xl_pend_nil hl hd]
    simp only [expandFuel, stepF, hl, hd]
  · -- 2: unterminated invocation
    intro dis t m hl hd t1 rest hp hc
    refine ⟨1, fun k hk => ?_⟩
    obtain ⟨k, rfl, _⟩ := succ_of_le hk
    rw [xl_pend_unterminated hl hd hp hc]
    simp only [expandFuel, stepF, hl, hd, hp, hc, if_true]
  · -- 3: wrong number of arguments
    intro dis t m hl hd t1 rest hp args0 rest' hc ha
    refine ⟨1, fun k hk => ?_⟩
    obtain ⟨k, rfl, _⟩ := succ_of_le hk
    rw [xl_pend_arity hl hd hp hc ha]
    simp only [expandFuel, stepF, hl, hd, hp, hc, ha, if_true]
  · -- 4: invalid `##` after argument pre-expansion
    intro dis t m hl hd t1 rest hp args0 rest' hc args ha exp expArgs hs iha
    obtain ⟨N, hN⟩ := uniform_bound args0
      (fun a k => expandFuel defs k dis none a = some (expandList defs dis none a)) iha
    refine ⟨N + 1, fun k hk => ?_⟩
    obtain ⟨k, rfl, hk'⟩ := succ_of_le hk
    have hexp : exp = expArgsOf defs dis args0 := attach_map_eq args0
    have hs' : subst m args (if args.length == args0.length then (expArgsOf defs dis args0).map (·.1)
            else args.map (fun _ => [])) = none := by
      rw [← hexp]; simpa [expArgs] using hs
    rw [xl_pend_badpaste hl hd hp hc ha hs']
    have hm : mapOpt (fun a => (expandFuel defs k dis none a).map argOut) args0
        = some (expArgsOf defs dis args0) := by
      apply mapOpt_eq
      intro a ha'
      rw [hN a ha' k hk']; rfl
    simp only [expandFuel, stepF, hl, hd, hp, hc, ha, if_true, hm, hs']
  · -- 5: the invocation proper
    intro dis t m hl hd t1 rest hp args0 rest' hc args ha exp expArgs body hs o1 iha ih1 ih2
    obtain ⟨N, hN⟩ := uniform_bound args0
      (fun a k => expandFuel defs k dis none a = some (expandList defs dis none a)) iha
    obtain ⟨N1, hN1⟩ := ih1
    obtain ⟨N2, hN2⟩ := ih2
    refine ⟨N + N1 + N2 + 1, fun k hk => ?_⟩
    obtain ⟨k, rfl, hk'⟩ := succ_of_le hk
    have hexp : exp = expArgsOf defs dis args0 := attach_map_eq args0
    have hs' : subst m args (if args.length == args0.length then (expArgsOf defs dis args0).map (·.1)
            else args.map (fun _ => [])) = some body := by
      rw [← hexp]; simpa [expArgs] using hs
    rw [xl_pend_call hl hd hp hc ha hs']
    have hm : mapOpt (fun a => (expandFuel defs k dis none a).map argOut) args0
        = some (expArgsOf defs dis args0) := by
      apply mapOpt_eq
      intro a ha'
      rw [hN a ha' k (by omega)]; rfl
    simp only [expandFuel, stepF, hl, hd, hp, hc, ha, if_true, hm, hs', hN1 k (by omega)]
    simp only [o1] at hN2
    simp only [hN2 k (by omega)]
  · -- 6: a pending name not followed by `(`
    intro dis t m hl hd t1 rest hp ih
    obtain ⟨N, hN⟩ := ih
    refine ⟨N + 1, fun k hk => ?_⟩
    obtain ⟨k, rfl, hk'⟩ := succ_of_le hk
    rw [xl_pend_nocall hl hd hp]
    simp only [expandFuel, stepF, hl, hd, hp, Bool.false_eq_true, if_false, hN k hk', Option.map]
  · -- 7: pending token that is not an enabled macro (unreachable from `none`, kept for totality)
    intro dis ts t hne ih
    obtain ⟨N, hN⟩ := ih
    refine ⟨N + 1, fun k hk => ?_⟩
    obtain ⟨k, rfl, hk'⟩ := succ_of_le hk
    rw [xl_pend_notmacro hne]
    cases hl : lookup defs t.sp with
    | none => simp only [expandFuel, stepF, hl, hN k hk', Option.map]
    | some m =>
      cases hd : dis.contains t.sp with
      | false => exact (hne m hl hd).elim
      | true => simp only [expandFuel, stepF, hl, hd, hN k hk', Option.map]
  · -- 8: empty list
    intro dis
    refine ⟨1, fun k hk => ?_⟩
    obtain ⟨k, rfl, _⟩ := succ_of_le hk
    rw [xl_nil]
    simp only [expandFuel, stepF]
  · -- 9: identifier that is not a macro name
    intro dis t rest hi hl ih
    obtain ⟨N, hN⟩ := ih
    refine ⟨N + 1, fun k hk => ?_⟩
    obtain ⟨k, rfl, hk'⟩ := succ_of_le hk
    rw [xl_nonmacro hi hl]
    simp only [expandFuel, stepF, hi, hl, if_true, hN k hk', Option.map]
  · -- 10: name of a macro that is being replaced: painted
    intro dis t rest hi m hl hd ih
    obtain ⟨N, hN⟩ := ih
    refine ⟨N + 1, fun k hk => ?_⟩
    obtain ⟨k, rfl, hk'⟩ := succ_of_le hk
    rw [xl_disabled hi hl hd]
    simp only [expandFuel, stepF, hi, hl, hd, if_true, hN k hk', Option.map]
  · -- 11: object-like macro with an invalid `##`
    intro dis t rest hi m hl hd hp hs
    refine ⟨1, fun k hk => ?_⟩
    obtain ⟨k, rfl, _⟩ := succ_of_le hk
    rw [xl_obj_badpaste hi hl hd hp hs]
    simp only [expandFuel, stepF, hi, hl, hd, hp, hs, if_true]
  · -- 12: object-like macro
    intro dis t rest hi m hl hd hp body hs o1 ih1 ih2
    obtain ⟨N1, hN1⟩ := ih1
    obtain ⟨N2, hN2⟩ := ih2
    refine ⟨N1 + N2 + 1, fun k hk => ?_⟩
    obtain ⟨k, rfl, hk'⟩ := succ_of_le hk
    rw [xl_obj hi hl hd hp hs]
    simp only [expandFuel, stepF, hi, hl, hd, hp, hs, if_true, hN1 k (by omega)]
    simp only [o1] at hN2
    simp only [hN2 k (by omega)]
  · -- 13: function-like macro name: becomes pending
    intro dis t rest hi m hl hd ps hp ih
    obtain ⟨N, hN⟩ := ih
    refine ⟨N + 1, fun k hk => ?_⟩
    obtain ⟨k, rfl, hk'⟩ := succ_of_le hk
    rw [xl_fun hi hl hd hp]
    simp only [expandFuel, stepF, hi, hl, hd, hp, if_true, hN k hk']
  · -- 14: painted token / not an identifier
    intro dis t rest hi ih
    obtain ⟨N, hN⟩ := ih
    refine ⟨N + 1, fun k hk => ?_⟩
    obtain ⟨k, rfl, hk'⟩ := succ_of_le hk
    rw [xl_skip hi]
    simp only [expandFuel, stepF, hi, Bool.false_eq_true, if_false, hN k hk', Option.map]

/-- **`expand_terminates`** — for every macro table and token list the rescanning process reaches a
result within a finite recursion depth, and that result is the value of `expandList`. -/
theorem expandFuel_terminates (defs : Defs) (dis : List String) (pend : Option Tok) (ts : List Tok) :
    ∃ n, ∀ m, n ≤ m → expandFuel defs m dis pend ts = some (expandList defs dis pend ts) :=
  expandFuel_reaches defs dis pend ts

theorem mapOpt_mono {α β : Type} (f g : α → Option β) (l : List α) (out : List β)
    (hfg : ∀ a r, f a = some r → g a = some r) (h : mapOpt f l = some out) : mapOpt g l = some out := by
  induction l generalizing out with
  | nil => simpa [mapOpt] using h
  | cons a as ih =>
    unfold mapOpt at h ⊢
    split at h
    · rename_i b bs hb hbs
      rw [hfg a b hb, ih bs hbs]
      exact h
    · cases h

theorem stepF_mono (defs : Defs) (rec rec' : List String → Option Tok → List Tok → Option XOut)
    (hrec : ∀ d p t r, rec d p t = some r → rec' d p t = some r)
    (dis : List String) (pend : Option Tok) (ts : List Tok) (r : XOut)
    (h : stepF defs rec dis pend ts = some r) : stepF defs rec' dis pend ts = some r := by
  have hmap : ∀ (dis : List String) (l : List (List Tok)) out,
      mapOpt (fun a => (rec dis none a).map argOut) l = some out →
      mapOpt (fun a => (rec' dis none a).map argOut) l = some out := by
    intro dis l out hm
    apply mapOpt_mono _ _ l out _ hm
    intro a r' hr
    cases hx : rec dis none a with
    | none => simp [hx] at hr
    | some x => rw [hrec _ _ _ _ hx]; simpa [hx] using hr
  have hmapc : ∀ (d : List String) (p : Option Tok) (t : List Tok) (g : XOut → XOut) (r : XOut),
      (rec d p t).map g = some r → (rec' d p t).map g = some r := by
    intro d p t g r hm
    cases hx : rec d p t with
    | none => simp [hx] at hm
    | some x => rw [hrec _ _ _ _ hx]; simpa [hx] using hm
  unfold stepF at h ⊢
  repeat' split at h
  all_goals (try dsimp only at h)
  all_goals (repeat' split at h)
  all_goals (try simp only [*, if_true, if_false, Bool.false_eq_true])
  all_goals first
    | exact h
    | (exact hmapc _ _ _ _ _ h)
    | cases h
    | skip
  all_goals first
    | (have e1 := hmap _ _ _ ‹mapOpt (fun a => Option.map argOut (rec _ none a)) _ = some _›
       have e2 := hrec _ _ _ _ ‹rec (_ :: _) none _ = some _›
       have e3 := hrec _ _ _ _ ‹rec _ (XOut.pending _) _ = some _›
       simp only [e1, e2, e3, *]; done)
    | (have e1 := hmap _ _ _ ‹mapOpt (fun a => Option.map argOut (rec _ none a)) _ = some _›
       simp only [e1, *]; done)
    | (have e2 := hrec _ _ _ _ ‹rec (_ :: _) none _ = some _›
       have e3 := hrec _ _ _ _ ‹rec _ (XOut.pending _) _ = some _›
       simp only [e2, e3, *]; done)
    | (exact hrec _ _ _ _ h)

/-- more fuel never changes a result that has been reached -/
theorem expandFuel_mono (defs : Defs) : ∀ (k : Nat) (dis : List String) (pend : Option Tok)
    (ts : List Tok) (r : XOut), expandFuel defs k dis pend ts = some r →
    expandFuel defs (k + 1) dis pend ts = some r := by
  intro k
  induction k with
  | zero => intro dis pend ts r h; simp [expandFuel] at h
  | succ k ih =>
    intro dis pend ts r h
    exact stepF_mono defs _ _ ih dis pend ts r h

/-- soundness of the bounded interpreter (used to evaluate `expandList` on concrete inputs) -/
theorem expandList_of_fuel (defs : Defs) (n : Nat) (dis : List String) (pend : Option Tok)
    (ts : List Tok) (r : XOut) (h : expandFuel defs n dis pend ts = some r) :
    expandList defs dis pend ts = r := by
  obtain ⟨N, hN⟩ := expandFuel_reaches defs dis pend ts
  have mono : ∀ d, expandFuel defs (n + d) dis pend ts = some r := by
    intro d
    induction d with
    | zero => exact h
    | succ d ihd => exact expandFuel_mono defs _ _ _ _ _ ihd
  have h1 := hN (n + N) (by omega)
  rw [mono N] at h1
  cases h1; rfl

end MirVerif.PP
