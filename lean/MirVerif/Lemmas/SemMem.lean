import MirVerif.Model.SemFp
import MirVerif.Lemmas.Sem
/-! Narrow stores followed by loads of the same type (memory model lemma for i8 … u32). -/
namespace MirVerif

theorem st_toNat8 (old v : W64) : (storeTrunc 8 old v).toNat = old.toNat / 2 ^ 8 * 2 ^ 8 + v.toNat % 2 ^ 8 := by
  have := old.isLt; have := v.isLt
  simp only [storeTrunc, wrapN]; simp; omega
theorem narrow8 (signed : Bool) (old v : W64) :
    loadExt 8 signed (storeTrunc 8 old v) = docExt 8 signed v ∧
    (storeTrunc 8 old v).toNat / 2 ^ 8 = old.toNat / 2 ^ 8 := by
  have h := st_toNat8 old v
  have := old.isLt; have := v.isLt
  refine ⟨?_, by rw [h]; omega⟩
  simp only [loadExt, docExt]
  cases signed <;> simp only [h] <;> simp <;> congr 1 <;> omega

theorem st_toNat16 (old v : W64) : (storeTrunc 16 old v).toNat = old.toNat / 2 ^ 16 * 2 ^ 16 + v.toNat % 2 ^ 16 := by
  have := old.isLt; have := v.isLt
  simp only [storeTrunc, wrapN]; simp; omega
theorem narrow16 (signed : Bool) (old v : W64) :
    loadExt 16 signed (storeTrunc 16 old v) = docExt 16 signed v ∧
    (storeTrunc 16 old v).toNat / 2 ^ 16 = old.toNat / 2 ^ 16 := by
  have h := st_toNat16 old v
  have := old.isLt; have := v.isLt
  refine ⟨?_, by rw [h]; omega⟩
  simp only [loadExt, docExt]
  cases signed <;> simp only [h] <;> simp <;> congr 1 <;> omega

theorem st_toNat32 (old v : W64) : (storeTrunc 32 old v).toNat = old.toNat / 2 ^ 32 * 2 ^ 32 + v.toNat % 2 ^ 32 := by
  have := old.isLt; have := v.isLt
  simp only [storeTrunc, wrapN]; simp; omega
theorem narrow32 (signed : Bool) (old v : W64) :
    loadExt 32 signed (storeTrunc 32 old v) = docExt 32 signed v ∧
    (storeTrunc 32 old v).toNat / 2 ^ 32 = old.toNat / 2 ^ 32 := by
  have h := st_toNat32 old v
  have := old.isLt; have := v.isLt
  refine ⟨?_, by rw [h]; omega⟩
  simp only [loadExt, docExt]
  cases signed <;> simp only [h] <;> simp <;> congr 1 <;> omega

end MirVerif
