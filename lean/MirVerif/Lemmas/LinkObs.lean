import MirVerif.Lemmas.LinkFrozen
/-! what the entry function of a freshly linked module observes (C13, `observed_spec`) -/
namespace MirVerif.Link
set_option linter.unusedSimpArgs false
set_option linter.unusedVariables false

/-- every MIR function the environment points to belongs to a module that has been loaded -/
def FuncsLoaded (s : State) : Prop :=
  ∀ n id, s.env.lookup n = some (.func id) → ∃ m ∈ s.queue ++ s.done, m.id = id

theorem Forall2_bound_ids {env' : Env} {q q' : List Mod} (hf : Forall2 (Bound env') q q') :
    q'.map (·.id) = q.map (·.id) := by
  induction hf with
  | nil => rfl
  | cons hb _ ih => simp only [List.map_cons, ih]; rw [hb.1]

theorem mem_ids_of_map_eq {q q' : List Mod} (h : q'.map (·.id) = q.map (·.id)) {id : Nat}
    (hm : ∃ m ∈ q, m.id = id) : ∃ m ∈ q', m.id = id := by
  obtain ⟨m, hm, rfl⟩ := hm
  have : m.id ∈ q.map (·.id) := List.mem_map.2 ⟨m, hm, rfl⟩
  rw [← h] at this
  obtain ⟨m', hm', he⟩ := List.mem_map.1 this
  exact ⟨m', hm', he⟩

theorem funcsLoaded_step {s : State} {r : List Op} {op : Op} (hreg : Reg s r) (hs : s.err = none)
    (h : (step s op).err = none) (hf : FuncsLoaded s) : FuncsLoaded (step s op) := by
  rw [step_of_ok op hs] at h ⊢
  cases op with
  | loadModule id ds =>
    change (loadModule s id ds).err = none at h
    change FuncsLoaded (loadModule s id ds)
    obtain ⟨b, env', hb, hl, heq⟩ := loadModule_ok h hs
    rw [heq]
    intro n id' hn
    simp only at hn ⊢
    rw [load_env hb hl n] at hn
    cases hx : declExport id ds n with
    | some d =>
      rw [hx] at hn
      simp only [Option.some.injEq] at hn
      subst hn
      have : id' = id := by
        unfold declExport at hx
        split at hx
        · split at hx <;> simp at hx
          exact hx.symm
        · cases hx
      subst this
      exact ⟨{ id := id', imps := b.imps, uid := s.loaded.length }, by simp, rfl⟩
    | none =>
      rw [hx] at hn
      obtain ⟨m, hm, hid⟩ := hf n id' hn
      refine ⟨m, ?_, hid⟩
      rcases List.mem_append.1 hm with hm | hm
      · exact List.mem_append_left _ (List.mem_append_left _ hm)
      · exact List.mem_append_right _ hm
  | loadExternal m a =>
    change FuncsLoaded (loadExternal s m a)
    intro n id' hn
    simp only [loadExternal, setupGlobal, lookup_cons_eq] at hn ⊢
    split at hn
    · cases hn
    · exact hf n id' hn
  | setRedef b => exact hf
  | link ifc res =>
    change (link s ifc res).err = none at h
    change FuncsLoaded (link s ifc res)
    obtain ⟨env', q', hr, heq⟩ := link_ok h hs
    obtain ⟨hext, hfb⟩ := resolveQueue_ok hr
    have hids := Forall2_bound_ids hfb
    rw [heq]
    intro n id' hn
    have hn' : env'.lookup n = some (.func id') := by cases ifc <;> exact hn
    have hold : s.env.lookup n = some (.func id') := by
      rw [hext n] at hn'
      cases he : s.env.lookup n with
      | some d => rw [he] at hn'; exact hn'
      | none =>
        rw [he] at hn'
        simp only at hn'
        split at hn'
        · cases hres : res n <;> simp [hres] at hn'
        · cases hn'
    obtain ⟨m, hm, hid⟩ := hf n id' hold
    rcases List.mem_append.1 hm with hm | hm
    · obtain ⟨m', hm', hid'⟩ := mem_ids_of_map_eq hids ⟨m, hm, hid⟩
      cases ifc with
      | none =>
        refine ⟨inlineMod m', ?_, by simpa [inlineMod] using hid'⟩
        simp only [linkResult]
        exact List.mem_append_left _ (List.mem_map.2 ⟨m', hm', rfl⟩)
      | some i =>
        refine ⟨installIface i (inlineMod m'), ?_, by simpa [inlineMod, installIface] using hid'⟩
        simp only [linkResult, List.nil_append]
        exact List.mem_append_right _
          (List.mem_map.2 ⟨inlineMod m', List.mem_map.2 ⟨m', hm', rfl⟩, rfl⟩)
    · refine ⟨m, ?_, hid⟩
      cases ifc with
      | none => simp only [linkResult]; exact List.mem_append_right _ hm
      | some i =>
        simp only [linkResult, List.nil_append]
        exact List.mem_append_left _ hm
  | call =>
    change FuncsLoaded (callAll s)
    obtain ⟨h1, h2, _⟩ := callAll_fields s
    intro n id' hn
    rw [h1] at hn
    obtain ⟨m, hm, hid⟩ := hf n id' hn
    rw [h2, callAll_done]
    rcases List.mem_append.1 hm with hm | hm
    · exact ⟨m, List.mem_append_left _ hm, hid⟩
    · exact ⟨codeMod s.env m, List.mem_append_right _ (List.mem_map.2 ⟨m, hm, rfl⟩),
        by rw [(codeMod_fields s.env m).1]; exact hid⟩

  | reload k =>
    change (reloadModule s k).err = none at h
    change FuncsLoaded (reloadModule s k)
    cases reloadModule_ok h with
    | absent hl heq => rw [heq]; exact hf
    | ok id ds b env' hl hb hd heq =>
      rw [heq]
      obtain ⟨hE, _, _⟩ := requeue_fields { s with env := env' } k { id := id, imps := b.imps, uid := k }
      -- every id that had a record keeps one, and `id` has one now
      have hidk : ∀ m ∈ s.queue ++ s.done, m.uid = k → m.id = id := by
        intro m hm hk
        obtain ⟨ds0, h0, _⟩ := hreg.recs m hm
        rw [hk, hl] at h0; cases h0; rfl
      have hkeep : ∀ m ∈ s.queue ++ s.done, ∃ m' ∈ (requeue { s with env := env' } k
          { id := id, imps := b.imps, uid := k }).queue ++ (requeue { s with env := env' } k
          { id := id, imps := b.imps, uid := k }).done, m'.id = m.id := by
        intro m hm
        rcases requeue_cases { s with env := env' } k { id := id, imps := b.imps, uid := k } with
          ⟨_, hq, hdn⟩ | ⟨m0, hm0, hk0, hq, hdn⟩ | ⟨hq, hdn⟩
        · rw [hq, hdn]; exact ⟨m, hm, rfl⟩
        · rw [hq, hdn]
          rcases List.mem_append.1 hm with h1 | h1
          · exact ⟨m, List.mem_append_left _ (List.mem_append_left _ h1), rfl⟩
          · by_cases hu : m.uid = k
            · refine ⟨{ m0 with iface := none }, List.mem_append_left _
                (List.mem_append_right _ (List.mem_singleton.2 rfl)), ?_⟩
              show m0.id = m.id
              rw [hidk m0 (List.mem_append_right _ hm0) hk0, hidk m hm hu]
            · exact ⟨m, List.mem_append_right _ (List.mem_filter.2 ⟨h1, by simpa using hu⟩), rfl⟩
        · rw [hq, hdn]
          rcases List.mem_append.1 hm with h1 | h1
          · exact ⟨m, List.mem_append_left _ (List.mem_append_left _ h1), rfl⟩
          · exact ⟨m, List.mem_append_right _ h1, rfl⟩
      have hnew : ∃ m' ∈ (requeue { s with env := env' } k { id := id, imps := b.imps, uid := k }).queue ++
          (requeue { s with env := env' } k { id := id, imps := b.imps, uid := k }).done, m'.id = id := by
        rcases requeue_cases { s with env := env' } k { id := id, imps := b.imps, uid := k } with
          ⟨⟨m0, hm0, hk0⟩, hq, hdn⟩ | ⟨m0, hm0, hk0, hq, hdn⟩ | ⟨hq, hdn⟩
        · rw [hq, hdn]
          exact ⟨m0, List.mem_append_left _ hm0, hidk m0 (List.mem_append_left _ hm0) hk0⟩
        · rw [hq, hdn]
          exact ⟨{ m0 with iface := none }, List.mem_append_left _
            (List.mem_append_right _ (List.mem_singleton.2 rfl)),
            hidk m0 (List.mem_append_right _ hm0) hk0⟩
        · rw [hq, hdn]
          exact ⟨_, List.mem_append_left _ (List.mem_append_right _ (List.mem_singleton.2 rfl)), rfl⟩
      intro n id' hn
      rw [hE] at hn
      simp only at hn
      rw [load_env hb hd n] at hn
      cases hx : declExport id ds n with
      | some d =>
        rw [hx] at hn
        simp only [Option.some.injEq] at hn
        subst hn
        have : id' = id := by
          unfold declExport at hx
          split at hx
          · split at hx <;> simp at hx
            exact hx.symm
          · cases hx
        subst this
        exact hnew
      | none =>
        rw [hx] at hn
        obtain ⟨m, hm, hid⟩ := hf n id' hn
        obtain ⟨m', hm', hid'⟩ := hkeep m hm
        exact ⟨m', hm', by rw [hid', hid]⟩

theorem funcsLoaded_runFrom {s : State} {r : List Op} (h : List Op)
    (hf : s.err = none → (Inv s r ∧ Reg s r) ∧ FuncsLoaded s)
    (he : (runFrom s h).err = none) : FuncsLoaded (runFrom s h) := by
  induction h generalizing s r with
  | nil => exact (hf he).2
  | cons op t ih =>
    rw [runFrom_cons] at he ⊢
    have hstep : (step s op).err = none := err_none_of_runFrom he
    have hs : s.err = none := err_none_of_step hstep
    obtain ⟨⟨hi, hr⟩, hfl⟩ := hf hs
    exact ih (r := op :: r)
      (fun _ => ⟨⟨inv_step hi hr hs hstep, reg_step hr hs hstep⟩, funcsLoaded_step hr hs hstep hfl⟩) he

theorem funcsLoaded_run {h : List Op} (he : (run h).err = none) : FuncsLoaded (run h) :=
  funcsLoaded_runFrom (r := []) h
    (fun _ => ⟨⟨inv_init, reg_init⟩, by intro n id hn; simp [init] at hn⟩) he

/-! ### `process_inlines` only inlines functions the import is bound to -/

def inlStep (m : Mod) (acc : List (Name × Nat)) (p : Name × Use) : List (Name × Nat) :=
  match p.2, acc.lookup p.1, m.binds.lookup p.1 with
  | .call, none, some (.func id) => acc ++ [(p.1, id)]
  | _, _, _ => acc

theorem inlineMod_eq (m : Mod) : (inlineMod m).inl = m.imps.foldl (inlStep m) m.inl := rfl

theorem inlStep_lookup {m : Mod} {acc : List (Name × Nat)} {p : Name × Use} {n : Name} {x : Nat}
    (h : (inlStep m acc p).lookup n = some x) :
    acc.lookup n = some x ∨ (acc.lookup n = none ∧ m.binds.lookup n = some (.func x)) := by
  unfold inlStep at h
  split at h
  · rename_i id hacc hb
    cases hl : acc.lookup n with
    | some y => rw [lookup_append_of_some hl] at h; exact Or.inl h
    | none =>
      rw [lookup_append_of_none hl, lookup_cons_eq] at h
      split at h
      · rename_i hn
        simp only [Option.some.injEq] at h
        subst h; subst hn
        exact Or.inr ⟨rfl, hb⟩
      · cases h
  · exact Or.inl h

theorem inline_only_funcs {m : Mod} {n : Name} {x : Nat} (h : (inlineMod m).inl.lookup n = some x) :
    m.inl.lookup n = some x ∨ m.binds.lookup n = some (.func x) := by
  rw [inlineMod_eq] at h
  have key : ∀ (imps : List (Name × Use)) (acc : List (Name × Nat)),
      (∀ y, acc.lookup n = some y → m.inl.lookup n = some y ∨ m.binds.lookup n = some (.func y)) →
      ∀ y, (imps.foldl (inlStep m) acc).lookup n = some y →
        m.inl.lookup n = some y ∨ m.binds.lookup n = some (.func y) := by
    intro imps
    induction imps with
    | nil => intro acc hacc y hy; exact hacc y hy
    | cons p rest ih =>
      intro acc hacc y hy
      simp only [List.foldl_cons] at hy
      refine ih (inlStep m acc p) ?_ y hy
      intro z hz
      rcases inlStep_lookup hz with h1 | ⟨_, h2⟩
      · exact hacc z h1
      · exact Or.inr h2
  exact key m.imps m.inl (fun y hy => Or.inl hy) x h

theorem inline_of_func {m : Mod} {n : Name} {id : Nat} (hfresh : m.inl = [])
    (hu : (n, Use.call) ∈ m.imps) (hb : m.binds.lookup n = some (.func id)) :
    (inlineMod m).inl.lookup n = some id := by
  rw [inlineMod_eq, hfresh]
  have key : ∀ (imps : List (Name × Use)) (acc : List (Name × Nat)),
      (acc.lookup n = some id ∨ (acc.lookup n = none ∧ (n, Use.call) ∈ imps)) →
      (imps.foldl (inlStep m) acc).lookup n = some id := by
    intro imps
    induction imps with
    | nil => intro acc h; rcases h with h | ⟨_, h⟩; exact h; cases h
    | cons p rest ih =>
      intro acc h
      simp only [List.foldl_cons]
      apply ih
      obtain ⟨pn, pu⟩ := p
      rcases h with h | ⟨hnone, hmem⟩
      · left
        unfold inlStep
        split
        · exact lookup_append_of_some h
        · exact h
      · rcases List.mem_cons.1 hmem with heq | hmem'
        · cases heq
          left
          unfold inlStep
          simp only [hnone, hb]
          rw [lookup_append_of_none hnone, lookup_cons_eq, if_pos rfl]
        · unfold inlStep
          split
          · rename_i id' hacc hbind
            simp only at hacc hbind
            by_cases hpn : pn = n
            · subst hpn
              rw [hb] at hbind; cases hbind
              left; rw [lookup_append_of_none hnone, lookup_cons_eq, if_pos rfl]
            · right
              refine ⟨?_, hmem'⟩
              rw [lookup_append_of_none hnone, lookup_cons_eq, if_neg (Ne.symm hpn)]; rfl
          · exact Or.inr ⟨hnone, hmem'⟩
  exact key m.imps [] (Or.inr ⟨rfl, hu⟩)

theorem mem_of_lookup {α} {l : List (Name × α)} {n : Name} {v : α} (h : l.lookup n = some v) :
    (n, v) ∈ l := by
  induction l with
  | nil => cases h
  | cons p rest ih =>
    obtain ⟨m, e⟩ := p
    rw [lookup_cons_eq] at h
    split at h
    · rename_i hn; cases h; subst hn; exact List.mem_cons_self ..
    · exact List.mem_cons_of_mem _ (ih h)

theorem lookup_map_keep' {bs : List (Name × Def)} {f : Name × Def → Name × Def}
    (hf : ∀ p, (f p).1 = p.1) (n : Name) :
    (bs.map f).lookup n = (bs.lookup n).map (fun d => (f (n, d)).2) := by
  induction bs with
  | nil => rfl
  | cons p rest ih =>
    obtain ⟨m, d⟩ := p
    have h1 : f (m, d) = (m, (f (m, d)).2) := by
      have := hf (m, d); exact Prod.ext this rfl
    rw [List.map_cons, h1, lookup_cons_eq, lookup_cons_eq]
    by_cases hnm : n = m
    · subst hnm; simp
    · simp [hnm, ih]

/-- what the entry function of a module observes when it is called right after the link that
installed its interface, if nothing of it had been inlined before -/
theorem observe_after_link (env1 : Env) (s2 : State) (m' : Mod) (i : Iface)
    (hbinds : ∀ n ∈ m'.importNames, m'.binds.lookup n = env1.lookup n ∧ (env1.lookup n).isSome = true)
    (hinl : m'.inl = []) (hmc : m'.mcode = none)
    (hlinked : ∀ n id, env1.lookup n = some (.func id) → funcLinked s2 id = true)
    (n : Name) (u : Use) (hu : m'.imps.lookup n = some u)
    (hnz : env1.lookup n ≠ some (.ext 0)) :
    observeImp s2 (codeMod env1 (installIface i (inlineMod m'))) (n, u) =
      (env1.lookup n).map Def.value := by
  have hmem : (n, u) ∈ m'.imps := mem_of_lookup hu
  have hn : n ∈ m'.importNames := List.mem_map.2 ⟨(n, u), hmem, rfl⟩
  obtain ⟨hb, hsome⟩ := hbinds n hn
  obtain ⟨d, hd⟩ := Option.isSome_iff_exists.1 hsome
  rw [hd] at hb
  -- what the code that runs after link + first translation was made from
  have hmap : ∀ (bs : List (Name × Def)), bs.lookup n = some d →
      (bs.map (fun (p : Name × Def) =>
        match m'.imps.lookup p.1, env1.lookup p.1 with
        | some .call, _ => p
        | _, some d => (p.1, d)
        | _, none => p)).lookup n = some d := by
    intro bs hbs
    rw [lookup_map_keep' (by intro p; split <;> rfl) n, hbs]
    simp only [Option.map_some, hu, hd]
    cases u <;> rfl
  have hrun : (codeMod env1 (installIface i (inlineMod m'))).running.1.lookup n = some d ∧
      (codeMod env1 (installIface i (inlineMod m'))).running.2 = (inlineMod m').inl := by
    cases i with
    | interp =>
      simp only [codeMod, installIface, inlineMod, Mod.running, hmc]
      exact ⟨hmap _ hb, rfl⟩
    | gen =>
      simp only [codeMod, installIface, inlineMod, Mod.running, hmc]
      exact ⟨hb, rfl⟩
    | lazy =>
      simp only [codeMod, installIface, inlineMod, Mod.running, hmc]
      exact ⟨hb, rfl⟩
  obtain ⟨hbinds2, hinl2⟩ := hrun
  unfold observeImp
  simp only [hinl2, hbinds2, hd, Option.map_some]
  cases u with
  | call =>
    cases d with
    | func id =>
      rw [inline_of_func hinl hmem hb]
      rfl
    | data id =>
      have : (inlineMod m').inl.lookup n = none := by
        cases hx : (inlineMod m').inl.lookup n with
        | none => rfl
        | some x =>
          rcases inline_only_funcs hx with h1 | h1
          · rw [hinl] at h1; cases h1
          · rw [hb] at h1; cases h1
      rw [this]
    | ext a =>
      have : (inlineMod m').inl.lookup n = none := by
        cases hx : (inlineMod m').inl.lookup n with
        | none => rfl
        | some x =>
          rcases inline_only_funcs hx with h1 | h1
          · rw [hinl] at h1; cases h1
          · rw [hb] at h1; cases h1
      rw [this]
      cases a with
      | zero => exact absurd hd hnz
      | succ a' => rfl
  | ptr =>
    cases d with
    | func id =>
      have := hlinked n id hd
      cases hx : (inlineMod m').inl.lookup n <;> simp [this, Def.value]
    | data id => cases hx : (inlineMod m').inl.lookup n <;> rfl
    | ext a =>
      cases a with
      | zero => exact absurd hd hnz
      | succ a' => cases hx : (inlineMod m').inl.lookup n <;> rfl
  | ref =>
    cases d with
    | func id => cases hx : (inlineMod m').inl.lookup n <;> rfl
    | data id => cases hx : (inlineMod m').inl.lookup n <;> rfl
    | ext a =>
      cases a with
      | zero => exact absurd hd hnz
      | succ a' => cases hx : (inlineMod m').inl.lookup n <;> rfl

theorem drop_append_length {α} (a b : List α) : (a ++ b).drop a.length = b := by simp

theorem obs_aux {s : State} {r : List Op} {i : Iface} {res : Resolver} (hinv : Inv s r)
    (hs : s.err = none) (h : (link s (some i) res).err = none)
    (hfl : FuncsLoaded (link s (some i) res)) {env' : Env} {q' : List Mod}
    (hr : resolveQueue res s.queue s.env = (env', q', none))
    (heq : link s (some i) res = linkResult s (some i) env' q')
    (hext : Extended res (s.queue.flatMap Mod.importNames) s.env env')
    (m m' : Mod) (hq : m ∈ s.queue) (hb : Bound env' m m') (hinl : m.inl = [])
    (hmc : m.mcode = none) :
    (codeMod env' (installIface i (inlineMod m'))).id = m.id ∧
      ∀ n u, m.imps.lookup n = some u → wanted r res n ≠ some (.ext 0) →
        observeImp (callAll (link s (some i) res)) (codeMod env' (installIface i (inlineMod m')))
          (n, u) = (wanted r res n).map Def.value := by
  have hm'imps : m'.imps = m.imps := by rw [hb.1]
  have hm'inl : m'.inl = [] := by rw [hb.1]; exact hinl
  have hm'mc : m'.mcode = none := by rw [hb.1]; exact hmc
  have hm'id : m'.id = m.id := by rw [hb.1]
  refine ⟨?_, ?_⟩
  · rw [(codeMod_fields _ _).1]; simpa [installIface, inlineMod] using hm'id
  · intro n u hu hnz
    have hlinked : ∀ n id, env'.lookup n = some (.func id) →
        funcLinked (callAll (link s (some i) res)) id = true := by
      intro n id hn
      have henv : (link s (some i) res).env = env' := by rw [heq]; rfl
      have hqueue : (link s (some i) res).queue = [] := by rw [heq]; rfl
      obtain ⟨mm, hmm, hid⟩ := hfl n id (by rw [henv]; exact hn)
      rw [hqueue, List.nil_append] at hmm
      simp only [funcLinked, List.any_eq_true, callAll_done]
      refine ⟨codeMod (link s (some i) res).env mm, List.mem_map.2 ⟨mm, hmm, rfl⟩, ?_⟩
      rw [(codeMod_fields _ _).1]; simpa using hid
    have hbinds : ∀ n ∈ m'.importNames,
        m'.binds.lookup n = env'.lookup n ∧ (env'.lookup n).isSome = true := by
      intro n hn
      have : m'.importNames = m.importNames := by unfold Mod.importNames; rw [hm'imps]
      exact hb.2 n (this ▸ hn)
    have hnm : n ∈ m.importNames :=
      List.mem_map.2 ⟨(n, u), mem_of_lookup hu, rfl⟩
    have hw : env'.lookup n = wanted r res n := by
      rw [hext n, hinv.env n]
      unfold wanted
      cases lastDefR r n with
      | some d => rfl
      | none =>
        have : n ∈ s.queue.flatMap Mod.importNames := mem_flatMap_importNames.2 ⟨m, hq, hnm⟩
        simp [this]
    rw [observe_after_link env' _ m' i hbinds hm'inl hm'mc hlinked n u (by rw [hm'imps]; exact hu)
      (by rw [hw]; exact hnz), hw]

/-- state-level form of `observed_spec` -/
theorem observed_after_link {s : State} {r : List Op} {i : Iface} {res : Resolver} (hinv : Inv s r)
    (hs : s.err = none) (h : (link s (some i) res).err = none)
    (hfl : FuncsLoaded (link s (some i) res)) :
    Forall2 (fun m m2 => m.inl = [] → m.mcode = none → m2.id = m.id ∧
        ∀ n u, m.imps.lookup n = some u → wanted r res n ≠ some (.ext 0) →
          observeImp (callAll (link s (some i) res)) m2 (n, u) = (wanted r res n).map Def.value)
      s.queue ((callAll (link s (some i) res)).done.drop s.done.length) := by
  obtain ⟨env', q', hr, heq⟩ := link_ok h hs
  obtain ⟨hext, hf⟩ := resolveQueue_ok hr
  have hdone : (callAll (link s (some i) res)).done.drop s.done.length =
      q'.map (fun m' => codeMod env' (installIface i (inlineMod m'))) := by
    rw [callAll_done, heq]
    simp only [linkResult, List.map_append, List.map_map]
    have : (s.done.map (codeMod env')).length = s.done.length := by simp
    rw [← this, drop_append_length]
    rfl
  rw [hdone]
  have key : Forall2 (fun m m' => m.inl = [] → m.mcode = none →
      (codeMod env' (installIface i (inlineMod m'))).id = m.id ∧
        ∀ n u, m.imps.lookup n = some u → wanted r res n ≠ some (.ext 0) →
          observeImp (callAll (link s (some i) res)) (codeMod env' (installIface i (inlineMod m')))
            (n, u) = (wanted r res n).map Def.value) s.queue q' := by
    refine hf.imp_mem ?_
    intro m m' hq _ hb hinl hmc
    exact obs_aux hinv hs h hfl hr heq hext m m' hq hb hinl hmc
  exact key.map_right (fun m' => codeMod env' (installIface i (inlineMod m'))) (fun m m' h1 => h1)


end MirVerif.Link
