import MirVerif.Model.CheckKnown
/-! # C15 — finite enumerations of the operand-kind space and their completeness -/
namespace MirVerif.Check

def RegRef.all : List RegRef := [.decl .i64, .decl .f, .decl .d, .decl .ld, .undecl]
def RefS.all : List RefS := [.proto, .func, .import_, .export_, .forward_, .data, .bss]
def RV.all : List RV := [.ok, .undecl, .regty]

def OpA.allMem : List OpA :=
  Ty.all.flatMap fun t => [false, true].flatMap fun n => RV.all.map fun rv => .mem t n rv

/-- all 139 abstract operand kinds -/
def OpA.all : List OpA :=
  RegRef.all.map .reg ++ [.int, .uint, .float, .double, .ldouble] ++ OpA.allMem
    ++ [.label] ++ RefS.all.map .ref ++ [.str]

theorem Ty.mem_all (t : Ty) : t ∈ Ty.all := by cases t <;> decide
theorem RegRef.mem_all (r : RegRef) : r ∈ RegRef.all := by
  cases r with
  | undecl => decide
  | decl t => cases t <;> decide
theorem RefS.mem_all (r : RefS) : r ∈ RefS.all := by cases r <;> decide
theorem RV.mem_all (r : RV) : r ∈ RV.all := by cases r <;> decide

theorem OpA.mem_all (o : OpA) : o ∈ OpA.all := by
  simp only [OpA.all, OpA.allMem, List.mem_append, List.mem_map, List.mem_flatMap]
  cases o with
  | reg r => exact Or.inl (Or.inl (Or.inl (Or.inl (Or.inl ⟨r, RegRef.mem_all r, rfl⟩))))
  | int => exact Or.inl (Or.inl (Or.inl (Or.inl (Or.inr (by decide)))))
  | uint => exact Or.inl (Or.inl (Or.inl (Or.inl (Or.inr (by decide)))))
  | float => exact Or.inl (Or.inl (Or.inl (Or.inl (Or.inr (by decide)))))
  | double => exact Or.inl (Or.inl (Or.inl (Or.inl (Or.inr (by decide)))))
  | ldouble => exact Or.inl (Or.inl (Or.inl (Or.inl (Or.inr (by decide)))))
  | mem t n rv =>
    exact Or.inl (Or.inl (Or.inl (Or.inr
      ⟨t, Ty.mem_all t, n, by cases n <;> decide, rv, RV.mem_all rv, rfl⟩)))
  | label => exact Or.inl (Or.inl (Or.inr (by decide)))
  | ref k => exact Or.inl (Or.inr ⟨k, RefS.mem_all k, rfl⟩)
  | str => exact Or.inr (by decide)

/-- a Boolean predicate that holds on the whole enumeration holds for every operand kind -/
theorem OpA.forall_of_all {p : OpA → Bool} (h : OpA.all.all p = true) (o : OpA) : p o = true :=
  List.all_eq_true.mp h o (OpA.mem_all o)

theorem Ty.forall_of_all {p : Ty → Bool} (h : Ty.all.all p = true) (t : Ty) : p t = true :=
  List.all_eq_true.mp h t (Ty.mem_all t)

/-- the checker and the documentation judge base/index registers alike -/
theorem memReg_agree (r : MemReg) : memRegSelf r = docMemReg r := by
  cases r with
  | none => rfl
  | r x => cases x with
    | undecl => rfl
    | decl t => cases t <;> decide

/-- … hence they see the same abstract operand kind -/
theorem abs_agree (o : OpS) : o.abs = o.absDoc := by
  have h : memRegSelf = docMemReg := funext memReg_agree
  simp [OpS.abs, OpS.absDoc, h]

end MirVerif.Check
