import MirVerif.Model.Varr
/-! Each `mir-varr.h` operation against its list specification. -/
namespace MirVerif.Varr
variable {α : Type}

theorem abs_length (v : Varr α) (h : WF v) : (abs v).length = v.num := by
  simp [abs, WF] at *; omega

theorem expand_abs (v : Varr α) (h : WF v) (n : Nat) :
    abs (expand v n).1 = abs v ∧ WF (expand v n).1 ∧ n ≤ (expand v n).1.buf.length ∧
    (expand v n).1.num = v.num := by
  unfold expand
  split
  · refine ⟨?_, ?_, ?_, rfl⟩
    · simp only [abs]; exact List.take_append_of_le_length h
    · simp [WF] at *; omega
    · simp; omega
  · rename_i hc
    exact ⟨rfl, h, by simp at hc ⊢; omega, rfl⟩

theorem take_set_succ (l : List (Option α)) (n : Nat) (a : Option α) (h : n < l.length) :
    (l.set n a).take (n + 1) = l.take n ++ [a] := by
  apply List.ext_getElem?
  intro i
  simp only [List.getElem?_take, List.getElem?_set, List.getElem?_append, List.length_take]
  by_cases h1 : i < n
  · have : ¬ n = i := by omega
    simp [h1, this, show i < n + 1 by omega, show i < min n l.length by omega]
  · by_cases h2 : i = n
    · subst h2
      have hm : min i l.length = i := by omega
      simp [h, hm]
    · have h3 : ¬ i < n + 1 := by omega
      have h4 : ¬ i < min n l.length := by omega
      simp [h3, h4]
      omega

theorem push_abs (v : Varr α) (h : WF v) (x : α) :
    abs (push v x) = abs v ++ [some x] ∧ WF (push v x) := by
  obtain ⟨e1, e2, e3, e4⟩ := expand_abs v h (v.num + 1)
  unfold push
  simp only [abs, WF, e4, List.length_set] at *
  exact ⟨by rw [take_set_succ _ _ _ (by omega), e1], by omega⟩

theorem storeAll_abs : ∀ (xs : List α) (v : Varr α), v.num + xs.length ≤ v.buf.length →
    abs (storeAll v xs) = abs v ++ xs.map some ∧ WF (storeAll v xs)
  | [], v, h => by simp [storeAll, WF] at *; exact h
  | x :: xs, v, h => by
    simp only [List.length_cons] at h
    have ih := storeAll_abs xs { buf := v.buf.set v.num (some x), num := v.num + 1 }
      (by simp; omega)
    unfold storeAll
    refine ⟨?_, ih.2⟩
    rw [ih.1]
    simp only [abs]
    rw [take_set_succ _ _ _ (by omega)]
    simp

theorem pushArr_abs (v : Varr α) (h : WF v) (xs : List α) :
    abs (pushArr v xs) = abs v ++ xs.map some ∧ WF (pushArr v xs) := by
  obtain ⟨e1, e2, e3, e4⟩ := expand_abs v h (v.num + xs.length)
  unfold pushArr
  have := storeAll_abs xs (expand v (v.num + xs.length)).1 (by omega)
  rw [e1] at this
  exact this

theorem slot_eq (v : Varr α) (i : Nat) (hi : i < v.num) : slot v i = ((abs v)[i]?).join := by
  simp [slot, abs, hi]

theorem getLast?_abs (v : Varr α) (h : WF v) (hn : v.num ≠ 0) :
    (abs v).getLast?.join = slot v (v.num - 1) := by
  rw [List.getLast?_eq_getElem?, abs_length v h, slot_eq v _ (by omega)]

theorem abs_eq_nil_iff (v : Varr α) (h : WF v) : abs v = [] ↔ v.num = 0 := by
  rw [← List.length_eq_zero_iff, abs_length v h]

theorem tailor_abs (v : Varr α) (h : WF v) (n : Nat) :
    abs (tailor v n) = (abs v).take n ++ List.replicate (n - (abs v).length) none ∧
    WF (tailor v n) := by
  have hl := abs_length v h
  unfold tailor
  simp only [abs, WF] at *
  have hlen : (List.take (min v.num n) v.buf).length = min v.num n := by simp; omega
  constructor
  · rw [List.take_of_length_le (by simp; omega), List.take_take, hlen, hl, Nat.min_comm]
    congr 2
    omega
  · simp; omega

/-- one call of the header refines one step of the list specification (same acceptance, same
result, same returned value) and preserves the representation invariant -/
theorem step_refines (v : Varr α) (h : WF v) (op : Op α) :
    (step v op).map (fun r => (abs r.1, r.2)) = specStep (abs v) op ∧
    ∀ v' o, step v op = some (v', o) → WF v' := by
  have hl := abs_length v h
  cases op with
  | push x =>
    simp only [step, specStep, Option.map_some]
    exact ⟨by rw [(push_abs v h x).1], by intro v' o e; cases e; exact (push_abs v h x).2⟩
  | pushArr xs =>
    simp only [step, specStep, Option.map_some]
    exact ⟨by rw [(pushArr_abs v h xs).1], by intro v' o e; cases e; exact (pushArr_abs v h xs).2⟩
  | pop =>
    simp only [step, specStep, pop, abs_eq_nil_iff v h]
    by_cases hn : v.num = 0
    · simp [hn]
    · simp only [hn, if_false, Option.map_some]
      refine ⟨?_, ?_⟩
      · rw [getLast?_abs v h hn]
        simp only [abs]
        rw [List.dropLast_eq_take, List.take_take, List.length_take]
        have e : min (min v.num v.buf.length - 1) v.num = v.num - 1 := by
          simp [WF] at h; omega
        rw [e]
      · intro v' o e; cases e; simp [WF] at *; omega
  | last =>
    simp only [step, specStep, last, abs_eq_nil_iff v h]
    by_cases hn : v.num = 0
    · simp [hn]
    · simp only [hn, if_false, Option.map_some]
      exact ⟨by rw [getLast?_abs v h hn], by intro v' o e; cases e; exact h⟩
  | get i =>
    simp only [step, specStep, get, hl]
    by_cases hi : i < v.num
    · simp only [hi, if_true, Option.map_some]
      exact ⟨by rw [slot_eq v i hi], by intro v' o e; cases e; exact h⟩
    · simp [hi]
  | set i x =>
    simp only [step, specStep, set, hl]
    by_cases hi : i < v.num
    · simp only [hi, if_true, Option.map_some]
      exact ⟨by simp [abs, List.take_set], by intro v' o e; cases e; simpa [WF] using h⟩
    · simp [hi]
  | trunc n =>
    simp only [step, specStep, trunc, hl]
    by_cases hn : n ≤ v.num
    · simp only [hn, if_true, Option.map_some]
      refine ⟨?_, ?_⟩
      · simp only [abs, List.take_take]
        rw [Nat.min_eq_left hn]
      · intro v' o e; cases e; simp [WF] at *; omega
    · simp [hn]
  | expand n =>
    simp only [step, specStep, Option.map_some]
    exact ⟨by rw [(expand_abs v h n).1], by intro v' o e; cases e; exact (expand_abs v h n).2.1⟩
  | tailor n =>
    simp only [step, specStep, Option.map_some]
    exact ⟨by rw [(tailor_abs v h n).1], by intro v' o e; cases e; exact (tailor_abs v h n).2⟩
  | length =>
    simp only [step, specStep, Option.map_some, length]
    exact ⟨by rw [hl], by intro v' o e; cases e; exact h⟩

theorem run_refines : ∀ (ops : List (Op α)) (v : Varr α), WF v →
    (run v ops).map (fun r => (abs r.1, r.2)) = specRun (abs v) ops
  | [], v, _ => by simp [run, specRun]
  | op :: ops, v, h => by
    obtain ⟨h1, h2⟩ := step_refines v h op
    unfold run specRun
    cases hs : step v op with
    | none =>
      rw [hs] at h1
      simp only [Option.map_none] at h1
      rw [← h1]
      rfl
    | some r =>
      obtain ⟨v', o⟩ := r
      rw [hs] at h1
      simp only [Option.map_some] at h1
      rw [← h1]
      simp only
      rw [← run_refines ops v' (h2 v' o hs)]
      cases run v' ops <;> simp

theorem create_abs (n : Nat) : abs (create n : Varr α) = [] ∧ WF (create n : Varr α) := by
  simp [abs, create, WF]

end MirVerif.Varr
