import MirVerif.Lemmas.CArith
/-! C07: compile-time folding (`foldConst`, model of `check_assign_op` + final `convert_value`)
against the documented result of the selected MIR instruction (`runtimeSem ∘ insnFor`). -/
namespace MirVerif.CArith
open MirVerif

theorem castValue_int (x : W64) : castValue .int x = sext32 (lo32 x) := rfl
theorem castValue_uint (x : W64) : castValue .uint x = zext32 (lo32 x) := rfl

/-- the abstract MIR operation for a signed / an unsigned operand type -/
def aopS (o : BinOp) : AOp :=
  match o with
  | .add => .add | .sub => .sub | .mul => .mul | .div => .div | .mod => .mod
  | .and => .and | .or => .or | .xor => .xor | .lsh => .lsh | .rsh => .rsh
def aopU (o : BinOp) : AOp :=
  match o with
  | .add => .add | .sub => .sub | .mul => .mul | .div => .udiv | .mod => .umod
  | .and => .and | .or => .or | .xor => .xor | .lsh => .lsh | .rsh => .ursh

theorem cS_docS {n} (hn : 0 < n) (o : BinOp) (x y : BitVec n) : cS o x y = docBin (aopS o) x y := by
  rw [cS_doc hn]; cases o <;> rfl

theorem cU_docU {n} (hn : 0 < n) (o : BinOp) (x y : BitVec n) : cU o x y = docBin (aopU o) x y := by
  cases o
  · exact cS_docS hn .add x y
  · exact cS_docS hn .sub x y
  · exact cS_docS hn .mul x y
  · exact cU_div_doc x y
  · exact cU_mod_doc x y
  · exact cS_docS hn .and x y
  · exact cS_docS hn .or x y
  · exact cS_docS hn .xor x y
  · exact cS_docS hn .lsh x y
  · exact cU_rsh_doc x y

theorem fold_rt_s32 (o : BinOp) (x y : W32) (r' : W64)
    (h : docSem (aopS o) true (sext32 x) (sext32 y) = some r') :
    (cS o (sext32 x) (sext32 y)).map (fun r => sext32 (lo32 r)) = some (sext32 (lo32 r')) := by
  simp only [docSem, if_true, lo32_sext32, ← cS_docS (n := 32) (by decide)] at h
  cases hc : cS o x y with
  | none => rw [hc] at h; cases h
  | some r32 =>
    rw [hc] at h
    obtain ⟨r, hr, hl⟩ := cS_sext o x y r32 hc
    have : r' = sext32 r32 := (Option.some.inj h).symm
    subst this
    rw [hr, Option.map_some, hl, lo32_sext32]

theorem fold_rt_u32 (o : BinOp) (x y : W32) (r' : W64)
    (h : docSem (aopU o) true (zext32 x) (zext32 y) = some r') :
    (cU o (zext32 x) (zext32 y)).map (fun r => zext32 (lo32 r)) = some (zext32 (lo32 r')) := by
  simp only [docSem, if_true, lo32_zext32, ← cU_docU (n := 32) (by decide)] at h
  cases hc : cU o x y with
  | none => rw [hc] at h; cases h
  | some r32 =>
    rw [hc] at h
    obtain ⟨r, hr, hl⟩ := cU_zext o x y r32 hc
    have : r' = sext32 r32 := (Option.some.inj h).symm
    subst this
    rw [hr, Option.map_some, hl, lo32_sext32]

theorem insnFor_signed (o : BinOp) (t : IType) (h : t.signed = true) :
    insnFor o t = (aopS o, decide (t.width ≤ 32)) := by
  cases o <;> simp [insnFor, aopS, h]
theorem insnFor_unsigned (o : BinOp) (t : IType) (h : t.signed = false) :
    insnFor o t = (aopU o, decide (t.width ≤ 32)) := by
  cases o <;> simp [insnFor, aopU, h]

end MirVerif.CArith
