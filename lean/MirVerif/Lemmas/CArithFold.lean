import MirVerif.Lemmas.CArith
import MirVerif.Lemmas.SemExt
/-! C07: compile-time folding (`foldConst`, model of `check_assign_op` + final `convert_value`)
against the documented result of the selected MIR instruction (`runtimeSem ∘ insnFor`). -/
namespace MirVerif.CArith
open MirVerif

theorem castValue_int (x : W64) : castValue .int x = sext32 (lo32 x) := rfl
theorem castValue_uint (x : W64) : castValue .uint x = zext32 (lo32 x) := rfl

/-- the abstract MIR operation for a signed / an unsigned operand type -/
def aopS (o : BinOp) : AOp :=
  match o with
  | .add => .add | .sub => .sub | .mul => .mul | .div => .div | .mod => .mod
  | .and => .and | .or => .or | .xor => .xor | .lsh => .lsh | .rsh => .rsh
def aopU (o : BinOp) : AOp :=
  match o with
  | .add => .add | .sub => .sub | .mul => .mul | .div => .udiv | .mod => .umod
  | .and => .and | .or => .or | .xor => .xor | .lsh => .lsh | .rsh => .ursh

theorem cS_docS {n} (hn : 0 < n) (o : BinOp) (x y : BitVec n) : cS o x y = docBin (aopS o) x y := by
  rw [cS_doc hn]; cases o <;> rfl

theorem cU_docU {n} (hn : 0 < n) (o : BinOp) (x y : BitVec n) : cU o x y = docBin (aopU o) x y := by
  cases o
  · exact cS_docS hn .add x y
  · exact cS_docS hn .sub x y
  · exact cS_docS hn .mul x y
  · exact cU_div_doc x y
  · exact cU_mod_doc x y
  · exact cS_docS hn .and x y
  · exact cS_docS hn .or x y
  · exact cS_docS hn .xor x y
  · exact cS_docS hn .lsh x y
  · exact cU_rsh_doc x y

theorem fold_rt_s32 (o : BinOp) (x y : W32) (r' : W64)
    (h : docSem (aopS o) true (sext32 x) (sext32 y) = some r') :
    (cS o (sext32 x) (sext32 y)).map (fun r => sext32 (lo32 r)) = some (sext32 (lo32 r')) := by
  simp only [docSem, if_true, lo32_sext32, ← cS_docS (n := 32) (by decide)] at h
  cases hc : cS o x y with
  | none => rw [hc] at h; cases h
  | some r32 =>
    rw [hc] at h
    obtain ⟨r, hr, hl⟩ := cS_sext o x y r32 hc
    have : r' = sext32 r32 := (Option.some.inj h).symm
    subst this
    rw [hr, Option.map_some, hl, lo32_sext32]

theorem fold_rt_u32 (o : BinOp) (x y : W32) (r' : W64)
    (h : docSem (aopU o) true (zext32 x) (zext32 y) = some r') :
    (cU o (zext32 x) (zext32 y)).map (fun r => zext32 (lo32 r)) = some (zext32 (lo32 r')) := by
  simp only [docSem, if_true, lo32_zext32, ← cU_docU (n := 32) (by decide)] at h
  cases hc : cU o x y with
  | none => rw [hc] at h; cases h
  | some r32 =>
    rw [hc] at h
    obtain ⟨r, hr, hl⟩ := cU_zext o x y r32 hc
    have : r' = sext32 r32 := (Option.some.inj h).symm
    subst this
    rw [hr, Option.map_some, hl, lo32_sext32]

theorem insnFor_signed (o : BinOp) (t : IType) (h : t.signed = true) :
    insnFor o t = (aopS o, decide (t.width ≤ 32)) := by
  cases o <;> simp [insnFor, aopS, h]
theorem insnFor_unsigned (o : BinOp) (t : IType) (h : t.signed = false) :
    insnFor o t = (aopU o, decide (t.width ≤ 32)) := by
  cases o <;> simp [insnFor, aopU, h]

/-! ## comparisons -/

theorem cCmpS_sext (c : CmpOp) (x y : W32) : cCmpS c (sext32 x) (sext32 y) = cCmpS c x y := by
  cases c <;> simp only [cCmpS, BitVec.slt_eq_decide, BitVec.sle_eq_decide, toInt_sext32]
  · simp only [Bool.beq_eq_decide_eq, ← BitVec.toInt_inj, toInt_sext32]
  · simp only [bne, Bool.beq_eq_decide_eq, ← BitVec.toInt_inj, toInt_sext32]

theorem cCmpU_zext (c : CmpOp) (x y : W32) : cCmpU c (zext32 x) (zext32 y) = cCmpU c x y := by
  cases c <;> simp only [cCmpU, BitVec.ult_eq_decide, BitVec.ule_eq_decide, toNat_zext32]
  · simp only [Bool.beq_eq_decide_eq, ← BitVec.toNat_inj, toNat_zext32]
  · simp only [bne, Bool.beq_eq_decide_eq, ← BitVec.toNat_inj, toNat_zext32]

/-- signed comparison on images = comparison of the mathematical values -/
theorem cCmpS_val {n} (c : CmpOp) (x y : BitVec n) : cCmpS c x y = cCmp c x.toInt y.toInt := by
  cases c <;> simp [cCmpS, cCmp, BitVec.slt_eq_decide, BitVec.sle_eq_decide, bne] <;>
    simp [Bool.beq_eq_decide_eq, BitVec.toInt_inj]
theorem cCmpU_val {n} (c : CmpOp) (x y : BitVec n) : cCmpU c x y = cCmp c (x.toNat : Int) (y.toNat : Int) := by
  cases c <;> simp [cCmpU, cCmp, BitVec.ult_eq_decide, BitVec.ule_eq_decide, bne] <;>
    simp [Bool.beq_eq_decide_eq, ← BitVec.toNat_inj, Int.ofNat_inj]

def cmpS (c : CmpOp) : AOp := match c with | .eq => .eq | .ne => .ne | .lt => .lt | .le => .le | .gt => .gt | .ge => .ge
def cmpU (c : CmpOp) : AOp := match c with | .eq => .eq | .ne => .ne | .lt => .ult | .le => .ule | .gt => .ugt | .ge => .uge

theorem docBin_cmpS {n} (c : CmpOp) (x y : BitVec n) : docBin (cmpS c) x y = some (b2w (cCmpS c x y)) := by
  rw [cCmpS_doc]; cases c <;> rfl
theorem docBin_cmpU {n} (c : CmpOp) (x y : BitVec n) : docBin (cmpU c) x y = some (b2w (cCmpU c x y)) := by
  cases c
  · simp [cmpU, docBin, cCmpU, BitVec.toInt_inj, Bool.beq_eq_decide_eq]
  · simp [cmpU, docBin, cCmpU, BitVec.toInt_inj, bne, Bool.beq_eq_decide_eq]
  · exact (cmpU_lt x y).symm
  · exact (cmpU_le x y).symm
  · exact (cmpU_gt x y).symm
  · exact (cmpU_ge x y).symm

theorem cmpFor_signed (c : CmpOp) (t : IType) (h : t.signed = true) : cmpFor c t = (cmpS c, decide (t.width ≤ 32)) := by
  cases c <;> simp [cmpFor, cmpS, h]
theorem cmpFor_unsigned (c : CmpOp) (t : IType) (h : t.signed = false) : cmpFor c t = (cmpU c, decide (t.width ≤ 32)) := by
  cases c <;> simp [cmpFor, cmpU, h]

theorem cmp_rt_s32 (c : CmpOp) (x y : W32) :
    docSem (cmpS c) true (sext32 x) (sext32 y) = some (b2w (cCmpS c (sext32 x) (sext32 y))) := by
  simp only [docSem, if_true, lo32_sext32, docBin_cmpS, Option.map_some, sext32_b2w, cCmpS_sext]
theorem cmp_rt_u32 (c : CmpOp) (x y : W32) :
    docSem (cmpU c) true (zext32 x) (zext32 y) = some (b2w (cCmpU c (zext32 x) (zext32 y))) := by
  simp only [docSem, if_true, lo32_zext32, docBin_cmpU, Option.map_some, sext32_b2w, cCmpU_zext]
theorem cmp_rt_s64 (c : CmpOp) (x y : W64) : docSem (cmpS c) false x y = some (b2w (cCmpS c x y)) := by
  simp only [docSem, Bool.false_eq_true, if_false, docBin_cmpS]
theorem cmp_rt_u64 (c : CmpOp) (x y : W64) : docSem (cmpU c) false x y = some (b2w (cCmpU c x y)) := by
  simp only [docSem, Bool.false_eq_true, if_false, docBin_cmpU]

end MirVerif.CArith
