import MirVerif.Model.TextIOWF
/-! # C10 — characters and decimal numerals: facts used by the lexer round trip -/
namespace TextIO

theorem toNat_ofNat_small {n : Nat} (h : n < 256) : (Char.ofNat n).toNat = n := by
  have : n.isValidChar := by
    unfold Nat.isValidChar; omega
  simp [Char.ofNat, this, Char.toNat, Char.ofNatAux]

theorem char_eq_of_toNat {a b : Char} (h : a.toNat = b.toNat) : a = b := by
  have := congrArg Char.ofNat h
  simpa using this

theorem digitChar_toNat (d : Nat) : (digitChar d).toNat = 48 + d % 10 := by
  unfold digitChar
  exact toNat_ofNat_small (by omega)

theorem isDigit_digitChar (d : Nat) : isDigit (digitChar d) = true := by
  simp [isDigit, digitChar_toNat]; omega

/-! ## `natDec` -/

theorem natDecF_fuel (n : Nat) : ∀ f1 f2, n ≤ f1 → n ≤ f2 → natDecF f1 n = natDecF f2 n := by
  induction n using Nat.strongRecOn with
  | _ n ih =>
    intro f1 f2 h1 h2
    cases f1 with
    | zero =>
      have : n = 0 := by omega
      subst this
      cases f2 <;> simp [natDecF]
    | succ g1 =>
      cases f2 with
      | zero =>
        have : n = 0 := by omega
        subst this
        simp [natDecF]
      | succ g2 =>
        simp only [natDecF]
        split
        · rfl
        · rw [ih (n / 10) (by omega) g1 g2 (by omega) (by omega)]

theorem natDec_lt10 {n : Nat} (h : n < 10) : natDec n = [digitChar n] := by
  unfold natDec
  cases n <;> simp [natDecF, h]

theorem natDec_ge10 {n : Nat} (h : ¬ n < 10) : natDec n = natDec (n / 10) ++ [digitChar (n % 10)] := by
  unfold natDec
  cases n with
  | zero => omega
  | succ m =>
    simp only [natDecF, h, if_false]
    rw [natDecF_fuel ((m + 1) / 10) m ((m + 1) / 10) (by omega) (Nat.le_refl _)]

theorem natDec_ne_nil (n : Nat) : natDec n ≠ [] := by
  by_cases h : n < 10
  · rw [natDec_lt10 h]; simp
  · rw [natDec_ge10 h]; simp

theorem natDec_all_digits (n : Nat) : ∀ c ∈ natDec n, isDigit c = true := by
  induction n using Nat.strongRecOn with
  | _ n ih =>
    by_cases h : n < 10
    · rw [natDec_lt10 h]; intro c hc; simp at hc; subst hc; exact isDigit_digitChar n
    · rw [natDec_ge10 h]
      intro c hc
      simp only [List.mem_append, List.mem_singleton] at hc
      rcases hc with hc | hc
      · exact ih (n / 10) (by omega) c hc
      · subst hc; exact isDigit_digitChar _

/-- value of a digit string, the accumulator form used by `strtoul` and `digitsVal` -/
theorem accDigits_append (base : Nat) (a b : List Char) (acc : Nat) :
    accDigits base (a ++ b) acc = accDigits base b (accDigits base a acc) := by
  induction a generalizing acc with
  | nil => rfl
  | cons c cs ih => simp [accDigits, ih]

theorem digitValue_digitChar (d : Nat) : digitValue (digitChar d) = d % 10 := by
  simp [digitValue, isDigit_digitChar, digitChar_toNat]

theorem accDigits_natDec (n : Nat) : accDigits 10 (natDec n) 0 = n := by
  induction n using Nat.strongRecOn with
  | _ n ih =>
    by_cases h : n < 10
    · rw [natDec_lt10 h]; simp [accDigits, digitValue_digitChar]; omega
    · rw [natDec_ge10 h, accDigits_append, ih (n / 10) (by omega)]
      simp [accDigits, digitValue_digitChar]; omega

/-- the first digit is `0` only for the number 0 -/
theorem natDec_head (n : Nat) : ∃ c t, natDec n = c :: t ∧ (c.toNat = 48 → n = 0 ∧ t = []) ∧ isDigit c = true := by
  induction n using Nat.strongRecOn with
  | _ n ih =>
    by_cases h : n < 10
    · refine ⟨digitChar n, [], natDec_lt10 h, ?_, isDigit_digitChar n⟩
      intro h0; rw [digitChar_toNat] at h0; exact ⟨by omega, rfl⟩
    · obtain ⟨c, t, hc, h0, hd⟩ := ih (n / 10) (by omega)
      refine ⟨c, t ++ [digitChar (n % 10)], by rw [natDec_ge10 h, hc]; rfl, ?_, hd⟩
      intro hz
      have := (h0 hz).1
      omega

theorem validDigit10_of_isDigit {c : Char} (h : isDigit c = true) : validDigit 10 c = true := by
  simp only [isDigit, Bool.and_eq_true, decide_eq_true_eq] at h
  simp [validDigit, isXDigit, isDigit, digitValue, h.1, h.2]
  omega

theorem takeWhile_all {α} (p : α → Bool) (l : List α) (h : ∀ x ∈ l, p x = true) : l.takeWhile p = l := by
  induction l with
  | nil => rfl
  | cons x xs ih =>
    simp only [List.takeWhile, h x (List.mem_cons_self)]
    rw [ih (fun y hy => h y (List.mem_cons_of_mem _ hy))]

end TextIO
