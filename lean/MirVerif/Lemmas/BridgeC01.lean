import MirVerif.Model.GenCanon
import MirVerif.Gen.C01_Tables
/-! Per-run bridge for C01: the optimizer tables regenerated from mir-gen.c / mir.c equal the
reviewed canonical ones, and the canonical ones encode the relations `AOp.neg`, `AOp.swap`,
`canonFold`. -/
namespace MirVerif

theorem gen_foldRows : Gen.C01.foldRows = Canon.C01.foldRows := by decide +kernel
theorem gen_otherFoldRows : Gen.C01.otherFoldRows = Canon.C01.otherFoldRows := by decide +kernel
theorem gen_reverseRows : Gen.C01.reverseRows = Canon.C01.reverseRows := by decide +kernel
theorem gen_commRows : Gen.C01.commRows = Canon.C01.commRows := by decide +kernel
theorem gen_combRows : Gen.C01.combRows = Canon.C01.combRows := by decide +kernel
theorem gen_pinned01 : Gen.C01.pinned = Canon.C01.pinned := by decide +kernel

theorem canon_fold_complete :
    (AOp.all.all fun a => [false, true].all fun s =>
      Canon.C01.foldRows.contains (opName a s, canonFold a s)) = true := by decide +kernel
theorem canon_fold_functional : (Canon.C01.foldRows.map (·.1)).Nodup := by decide +kernel

theorem canon_reverse_complete :
    (AOp.cmps.all fun a => [false, true].all fun s =>
      match a.neg with
      | some a' => Canon.C01.reverseRows.contains (brName a s, brName a' s)
      | none => false) = true := by decide +kernel
theorem canon_reverse_functional : (Canon.C01.reverseRows.map (·.1)).Nodup := by decide +kernel

/-- every integer opcode in the commutation table is related to its image by `AOp.swap`, and
opcodes without such a relation (sub, div, shifts, …) are absent from the table -/
theorem canon_comm_sound :
    (AOp.all.all fun a => [false, true].all fun s =>
      match a.swap with
      | some a' => Canon.C01.commRows.contains (opName a s, opName a' s)
      | none => !(Canon.C01.commRows.map (·.1)).contains (opName a s)) = true := by decide +kernel
theorem canon_comm_branch :
    ([AOp.eq, AOp.ne].all fun a => [false, true].all fun s =>
      Canon.C01.commRows.contains (brName a s, brName a s)) = true := by decide +kernel
theorem canon_comm_functional : (Canon.C01.commRows.map (·.1)).Nodup := by decide +kernel

theorem canon_comb_complete :
    (AOp.cmps.all fun a => [false, true].all fun s =>
      match a.neg with
      | some a' => Canon.C01.combRows.contains (opName a s, brName a s, brName a' s)
      | none => false) = true := by decide +kernel
theorem canon_comb_functional : (Canon.C01.combRows.map (·.1)).Nodup := by decide +kernel

end MirVerif
