import MirVerif.Lemmas.TextIOLexInt
/-! # C10 — floating literals in `%.*e` shape are read back as one token whose value is what the
C library's `strtof/strtod/strtold` model returns for the same characters -/
namespace TextIO

/-- the parts of a `%.*e` literal -/
structure SciParts where
  neg : Bool
  d : Char
  fr : Str
  sg : Char
  e1 : Char
  ex : Str

def SciParts.sign (p : SciParts) : Str := if p.neg then ['-'] else []
def SciParts.body (p : SciParts) : Str := p.d :: '.' :: p.fr ++ 'e' :: p.sg :: p.e1 :: p.ex
def SciParts.str (p : SciParts) : Str := p.sign ++ p.body

structure SciParts.OK (p : SciParts) : Prop where
  hd : isDigit p.d = true
  hfr : ∀ c ∈ p.fr, isDigit c = true
  hsg : p.sg = '+' ∨ p.sg = '-'
  he1 : isDigit p.e1 = true
  hex : ∀ c ∈ p.ex, isDigit c = true

theorem mem_takeWhile_true {α} {p : α → Bool} {l : List α} {x : α} (h : x ∈ l.takeWhile p) : p x = true := by
  induction l with
  | nil => simp at h
  | cons y ys ih =>
    simp only [List.takeWhile] at h
    split at h
    · rename_i hy
      simp only [List.mem_cons] at h
      rcases h with h | h
      · subst h; exact hy
      · exact ih h
    · simp at h

theorem sciShape_body {s : Str} :
    (match s with
     | d :: '.' :: t =>
       isDigit d &&
       (let fr := t.takeWhile isDigit
        let r := t.dropWhile isDigit
        !fr.isEmpty &&
        match r with
        | 'e' :: sg :: ex => (sg = '+' || sg = '-') && ex.length ≥ 2 && ex.all isDigit
        | _ => false)
     | _ => false) = true →
    ∃ d fr sg e1 ex, s = d :: '.' :: fr ++ 'e' :: sg :: e1 :: ex ∧ isDigit d = true ∧ (∀ c ∈ fr, isDigit c = true)
      ∧ (sg = '+' ∨ sg = '-') ∧ isDigit e1 = true ∧ (∀ c ∈ ex, isDigit c = true) := by
  intro h
  split at h
  · rename_i d t
    simp only [Bool.and_eq_true] at h
    obtain ⟨hd, _, h2⟩ := h
    split at h2
    · rename_i sg ex heq
      simp only [Bool.and_eq_true, Bool.or_eq_true, decide_eq_true_eq, List.all_eq_true] at h2
      obtain ⟨⟨hsg, hlen⟩, hall⟩ := h2
      cases ex with
      | nil => simp at hlen
      | cons e1 ex' =>
        refine ⟨d, t.takeWhile isDigit, sg, e1, ex', ?_, hd, ?_, hsg, hall e1 (List.mem_cons_self),
          fun c hc => hall c (List.mem_cons_of_mem _ hc)⟩
        · simp [← heq]
        · intro c hc; exact mem_takeWhile_true hc
    · simp at h2
  · simp at h

theorem sciShape_parts {s : Str} (h : sciShape s = true) : ∃ p : SciParts, p.OK ∧ p.str = s := by
  unfold sciShape at h
  split at h
  · rename_i t
    obtain ⟨d, fr, sg, e1, ex, hs, h1, h2, h3, h4, h5⟩ := sciShape_body h
    exact ⟨⟨true, d, fr, sg, e1, ex⟩, ⟨h1, h2, h3, h4, h5⟩, by simp [SciParts.str, SciParts.sign, SciParts.body, hs]⟩
  · obtain ⟨d, fr, sg, e1, ex, hs, h1, h2, h3, h4, h5⟩ := sciShape_body h
    exact ⟨⟨false, d, fr, sg, e1, ex⟩, ⟨h1, h2, h3, h4, h5⟩, by simp [SciParts.str, SciParts.sign, SciParts.body, hs]⟩

/-- a character that ends the exponent digits: the suffix letter or a delimiter -/
def stopsExp (c : Char) : Prop := c.toNat ≠ 0 ∧ c.toNat ≠ 255 ∧ c.toNat ≠ 95 ∧ isDigit c = false

theorem stagePrefix_sci {d : Char} (hd : isDigit d = true) (tl : List Char) :
    ∃ b, (b == 16) = false ∧ stagePrefix d ('.' :: tl) = .ok ([], b, d, '.' :: tl) := by
  by_cases h0 : d = '0'
  · subst h0
    exact ⟨8, by decide, by simp [stagePrefix, getc]⟩
  · exact ⟨10, by decide, stagePrefix_nonzero hd h0 _⟩

theorem stagePrefix_sci_neg {d : Char} (hd : isDigit d = true) (tl : List Char) :
    ∃ b, (b == 16) = false ∧ stagePrefix '-' (d :: '.' :: tl) = .ok (['-'], b, d, '.' :: tl) := by
  by_cases h0 : d = '0'
  · subst h0
    exact ⟨8, by decide, by simp [stagePrefix, getc]⟩
  · exact ⟨10, by decide, stagePrefix_neg h0 _⟩

/-- state of `scan_number` after the exponent of a `%.*e` literal: `temp_string` is the literal,
the current character is the one that follows it -/
theorem scan_sci_core (p : SciParts) (hp : p.OK) (sign : Str) (nx : Char) (hnx : stopsExp nx) (rest : List Char) :
    let l := numLoop false p.d ('.' :: p.fr ++ 'e' :: p.sg :: p.e1 :: p.ex ++ nx :: rest)
    stageExp (stageFrac ⟨sign ++ l.1, l.2.2.1, l.2.2.2, false⟩) = ⟨sign ++ p.body, some nx, rest, true⟩ := by
  intro l
  have hdot : stopsExp '.' := ⟨by decide, by decide, by decide, by decide⟩
  have h1 := numLoop_digits p.d hp.hd [] (by simp) '.' hdot (p.fr ++ 'e' :: p.sg :: p.e1 :: p.ex ++ nx :: rest)
  simp only [List.nil_append] at h1
  have he : stopsExp 'e' := ⟨by decide, by decide, by decide, by decide⟩
  have h2 := numLoop_run '.' (by decide) p.fr hp.hfr 'e' he (p.sg :: p.e1 :: p.ex ++ nx :: rest)
  have h3 := numLoop_digits p.e1 hp.he1 p.ex hp.hex nx hnx rest
  have e1 := h1.2; rw [Prod.ext_iff] at e1; simp only at e1
  have e2 := h2.2; rw [Prod.ext_iff] at e2; simp only at e2
  have e3 := h3.2; rw [Prod.ext_iff] at e3; simp only at e3
  have hl1 : l.1 = [p.d] := h1.1
  have hl2 : l.2.2.1 = some '.' := e1.1
  have hl3 : l.2.2.2 = p.fr ++ 'e' :: p.sg :: p.e1 :: p.ex ++ nx :: rest := e1.2
  rw [hl1, hl2, hl3]
  have hsgok : p.sg.toNat ≠ 0 ∧ p.sg.toNat ≠ 255 := by
    rcases hp.hsg with h | h <;> rw [h] <;> decide
  have he1d := isDigit_iff.mp hp.he1
  have hg1 : getc (p.sg :: p.e1 :: (p.ex ++ nx :: rest)) = (some p.sg, p.e1 :: (p.ex ++ nx :: rest)) :=
    getc_of_ok hsgok _
  have hg2 : getc (p.e1 :: (p.ex ++ nx :: rest)) = (some p.e1, p.ex ++ nx :: rest) :=
    getc_of_ok ⟨by omega, by omega⟩ _
  have hsg : (p.sg = '+' || p.sg = '-') = true := by
    rcases hp.hsg with h | h <;> simp [h]
  simp only [stageFrac, if_true, List.append_assoc, List.cons_append] at *
  simp only [h2.1, e2.1, e2.2, stageExp, Bool.true_or, Bool.or_true, if_true, hg1, hsg, hg2, hp.he1, h3.1, e3.1, e3.2]
  simp [SciParts.body]

/-- `scan_number` on a `%.*e` literal followed by `nx :: rest` leaves `temp_string` = the literal and
stops with `ch = nx` -/
theorem scanNumber_sci (p : SciParts) (hp : p.OK) (nx : Char) (hnx : stopsExp nx) (rest : List Char) :
    ∃ b, (b == 16) = false ∧
      ((p.neg = false → scanNumber p.d ('.' :: p.fr ++ 'e' :: p.sg :: p.e1 :: p.ex ++ nx :: rest) =
          .ok (stageSuffix b ⟨p.str, some nx, rest, true⟩)) ∧
       (p.neg = true → scanNumber '-' (p.d :: '.' :: p.fr ++ 'e' :: p.sg :: p.e1 :: p.ex ++ nx :: rest) =
          .ok (stageSuffix b ⟨p.str, some nx, rest, true⟩))) := by
  cases hneg : p.neg
  · obtain ⟨b, hb, hpre⟩ := stagePrefix_sci hp.hd (p.fr ++ 'e' :: p.sg :: p.e1 :: p.ex ++ nx :: rest)
    refine ⟨b, hb, ?_, by simp⟩
    intro _
    have := scan_sci_core p hp [] nx hnx rest
    simp only [List.nil_append] at this
    simp only [scanNumber, List.cons_append, List.append_assoc] at *
    simp only [hpre, hb]
    simp only [List.nil_append, this, SciParts.str, SciParts.sign, hneg, Bool.false_eq_true, if_false]
  · obtain ⟨b, hb, hpre⟩ := stagePrefix_sci_neg hp.hd (p.fr ++ 'e' :: p.sg :: p.e1 :: p.ex ++ nx :: rest)
    refine ⟨b, hb, by simp, ?_⟩
    intro _
    have := scan_sci_core p hp ['-'] nx hnx rest
    simp only [scanNumber, List.cons_append, List.append_assoc, List.nil_append, List.singleton_append] at *
    simp only [hpre, hb]
    simp only [List.singleton_append, this, SciParts.str, SciParts.sign, hneg, if_true]

/-- `scan_token` on a `%.*e` literal: dispatch through the sign/digit classes -/
theorem lexOne_sci (p : SciParts) (hp : p.OK) (tailc : List Char) :
    lexOne (p.str ++ tailc) =
      if p.neg then lexNumber '-' (p.d :: '.' :: p.fr ++ 'e' :: p.sg :: p.e1 :: p.ex ++ tailc)
      else lexNumber p.d ('.' :: p.fr ++ 'e' :: p.sg :: p.e1 :: p.ex ++ tailc) := by
  have hdd := isDigit_iff.mp hp.hd
  cases hneg : p.neg
  · simp only [SciParts.str, SciParts.sign, hneg, SciParts.body, Bool.false_eq_true, if_false, List.nil_append,
      List.cons_append, lexOne, charClass_digit hp.hd, List.append_assoc]
  · have hcm : charClass '-' = .sign := charClass_minus (by decide)
    have hg : getc (p.d :: ('.' :: (p.fr ++ 'e' :: p.sg :: p.e1 :: (p.ex ++ tailc)))) =
        (some p.d, '.' :: (p.fr ++ 'e' :: p.sg :: p.e1 :: (p.ex ++ tailc))) := getc_of_ok ⟨by omega, by omega⟩ _
    simp only [SciParts.str, SciParts.sign, hneg, SciParts.body, if_true, List.cons_append, List.nil_append,
      List.append_assoc, lexOne, hcm, hg, hp.hd]

theorem delim_stopsExp {d : Char} (h : isDelim d = true) : stopsExp d := delim_stops_number h

theorem getc_delim {d : Char} (h : isDelim d = true) (rest : List Char) : getc (d :: rest) = (some d, rest) :=
  getc_of_ok ⟨(delim_stops_number h).1, (delim_stops_number h).2.1⟩ rest

/-- double: no suffix -/
theorem wordOK_sci_dbl {s : Str} (hs : sciShape s = true) {bits : Nat} (hb : parseSci fmtD s = some bits) :
    WordOK s (.dbl (BitVec.ofNat 64 bits)) := by
  intro d rest hd
  obtain ⟨p, hp, rfl⟩ := sciShape_parts hs
  have hdc := isDelim_cases hd
  obtain ⟨b, hb16, h1, h2⟩ := scanNumber_sci p hp d (delim_stopsExp hd) rest
  have hsuf : stageSuffix b ⟨p.str, some d, rest, true⟩ = ⟨p.str, b, false, true, false, d :: rest⟩ := by
    have hf : (some d = some 'f') = False := by simp; intro h; subst h; simp at hdc
    have hF : (some d = some 'F') = False := by simp; intro h; subst h; simp at hdc
    have hl : (some d = some 'l') = False := by simp; intro h; subst h; simp at hdc
    have hL : (some d = some 'L') = False := by simp; intro h; subst h; simp at hdc
    simp [stageSuffix, hb16, hf, hF, hl, hL, NumSt.pos, ungetc]
  rw [lexOne_sci p hp]
  cases hneg : p.neg
  · have := h1 hneg
    simp only [List.append_assoc, List.cons_append] at this ⊢
    simp only [Bool.false_eq_true, if_false]
    simp [lexNumber, this, hsuf, hb]
  · have := h2 hneg
    simp only [List.append_assoc, List.cons_append] at this ⊢
    simp only [if_true]
    simp [lexNumber, this, hsuf, hb]

/-- float: suffix `f` -/
theorem wordOK_sci_flt {s : Str} (hs : sciShape s = true) {bits : Nat} (hb : parseSci fmtF s = some bits) :
    WordOK (s ++ ['f']) (.flt (BitVec.ofNat 32 bits)) := by
  intro d rest hd
  obtain ⟨p, hp, rfl⟩ := sciShape_parts hs
  obtain ⟨b, hb16, h1, h2⟩ := scanNumber_sci p hp 'f' ⟨by decide, by decide, by decide, by decide⟩ (d :: rest)
  have hsuf : stageSuffix b ⟨p.str, some 'f', d :: rest, true⟩ = ⟨p.str, b, true, false, false, d :: rest⟩ := by
    simp [stageSuffix, hb16, getc_delim hd, ungetc]
  rw [List.append_assoc, lexOne_sci p hp]
  cases hneg : p.neg
  · have := h1 hneg
    simp only [List.append_assoc, List.cons_append, List.nil_append] at this ⊢
    simp only [Bool.false_eq_true, if_false]
    simp [lexNumber, this, hsuf, hb]
  · have := h2 hneg
    simp only [List.append_assoc, List.cons_append, List.nil_append] at this ⊢
    simp only [if_true]
    simp [lexNumber, this, hsuf, hb]

/-- long double: suffix `L` -/
theorem wordOK_sci_ldbl {s : Str} (hs : sciShape s = true) {bits : Nat} (hb : parseSci fmtLD s = some bits) :
    WordOK (s ++ ['L']) (.ldbl (BitVec.ofNat 80 bits)) := by
  intro d rest hd
  obtain ⟨p, hp, rfl⟩ := sciShape_parts hs
  obtain ⟨b, hb16, h1, h2⟩ := scanNumber_sci p hp 'L' ⟨by decide, by decide, by decide, by decide⟩ (d :: rest)
  have hsuf : stageSuffix b ⟨p.str, some 'L', d :: rest, true⟩ = ⟨p.str, b, false, false, true, d :: rest⟩ := by
    simp [stageSuffix, hb16, getc_delim hd, ungetc]
  rw [List.append_assoc, lexOne_sci p hp]
  cases hneg : p.neg
  · have := h1 hneg
    simp only [List.append_assoc, List.cons_append, List.nil_append] at this ⊢
    simp only [Bool.false_eq_true, if_false]
    simp [lexNumber, this, hsuf, hb]
  · have := h2 hneg
    simp only [List.append_assoc, List.cons_append, List.nil_append] at this ⊢
    simp only [if_true]
    simp [lexNumber, this, hsuf, hb]

/-! ## the three literal kinds of the writer under `floatRT` -/

theorem floatRT_parts {f : FFmt} {bits : Nat} (h : floatRT f bits = true) :
    ∃ s, fmtSci f bits = some s ∧ sciShape s = true ∧ parseSci f s = some bits := by
  unfold floatRT at h
  split at h
  · simp at h
  · rename_i s hs
    simp only [Bool.and_eq_true, beq_iff_eq] at h
    exact ⟨s, hs, h.1, h.2⟩

theorem wordOK_flt {b : BitVec 32} (h : floatRT fmtF b.toNat = true) : WordOK (printFlt b) (.flt b) := by
  obtain ⟨s, h1, h2, h3⟩ := floatRT_parts h
  have := wordOK_sci_flt h2 h3
  simpa [printFlt, printFloatLit, h1] using this

theorem wordOK_dbl {b : BitVec 64} (h : floatRT fmtD b.toNat = true) : WordOK (printDbl b) (.dbl b) := by
  obtain ⟨s, h1, h2, h3⟩ := floatRT_parts h
  have := wordOK_sci_dbl h2 h3
  simpa [printDbl, printFloatLit, h1] using this

theorem wordOK_ldbl {b : BitVec 80} (h : floatRT fmtLD b.toNat = true) : WordOK (printLdbl b) (.ldbl b) := by
  obtain ⟨s, h1, h2, h3⟩ := floatRT_parts h
  have := wordOK_sci_ldbl h2 h3
  simpa [printLdbl, printFloatLit, h1] using this

end TextIO
