import MirVerif.Model.Sem
/-! Generic-width lemmas: the C operators on two's-complement words compute the mathematically
specified results (`cS`/`cU`/`cCmp*` vs `docBin`). -/
namespace MirVerif

theorem wrapI_toInt {n} (x : BitVec n) : wrapI n x.toInt = x := BitVec.ofInt_toInt

theorem eq_wrapI {n} (x : BitVec n) (i : Int) (h : x.toInt = i.bmod (2 ^ n)) : x = wrapI n i := by
  apply BitVec.eq_of_toInt_eq; rw [h, wrapI, BitVec.toInt_ofInt]

theorem eq_wrapN {n} (x : BitVec n) (i : Nat) (h : x.toNat = i % 2 ^ n) : x = wrapN n i := by
  apply BitVec.eq_of_toNat_eq; rw [h, wrapN, BitVec.toNat_ofNat]

theorem add_doc {n} (x y : BitVec n) : x + y = wrapI n (x.toInt + y.toInt) :=
  eq_wrapI _ _ (BitVec.toInt_add x y)
theorem sub_doc {n} (x y : BitVec n) : x - y = wrapI n (x.toInt - y.toInt) :=
  eq_wrapI _ _ BitVec.toInt_sub
theorem mul_doc {n} (x y : BitVec n) : x * y = wrapI n (x.toInt * y.toInt) :=
  eq_wrapI _ _ (BitVec.toInt_mul x y)
theorem sdiv_doc {n} (x y : BitVec n) : x.sdiv y = wrapI n (x.toInt.tdiv y.toInt) :=
  eq_wrapI _ _ (BitVec.toInt_sdiv x y)

theorem srem_doc {n} (x y : BitVec n) : x.srem y = wrapI n (x.toInt.tmod y.toInt) := by
  apply BitVec.eq_of_toInt_eq
  rw [BitVec.toInt_srem, wrapI, BitVec.toInt_ofInt, ← BitVec.toInt_srem, BitVec.toInt_bmod_cancel]

theorem udiv_doc {n} (x y : BitVec n) : x / y = wrapN n (x.toNat / y.toNat) := by
  apply eq_wrapN; rw [BitVec.toNat_udiv, Nat.mod_eq_of_lt]
  exact Nat.lt_of_le_of_lt (Nat.div_le_self _ _) x.isLt
theorem umod_doc {n} (x y : BitVec n) : x % y = wrapN n (x.toNat % y.toNat) := by
  apply eq_wrapN; rw [BitVec.toNat_umod, Nat.mod_eq_of_lt (a := x.toNat % y.toNat)]
  exact Nat.lt_of_le_of_lt (Nat.mod_le _ _) x.isLt

theorem shl_doc {n} (x : BitVec n) (k : Nat) : x <<< k = wrapN n (x.toNat * 2 ^ k) := by
  apply eq_wrapN; rw [BitVec.toNat_shiftLeft, Nat.shiftLeft_eq]
theorem ushr_doc {n} (x : BitVec n) (k : Nat) : x >>> k = wrapN n (x.toNat / 2 ^ k) := by
  apply eq_wrapN; rw [BitVec.toNat_ushiftRight, Nat.shiftRight_eq_div_pow, Nat.mod_eq_of_lt]
  exact Nat.lt_of_le_of_lt (Nat.div_le_self _ _) x.isLt
theorem sshr_doc {n} (x : BitVec n) (k : Nat) : x.sshiftRight k = wrapI n (x.toInt / 2 ^ k) := by
  apply BitVec.eq_of_toInt_eq
  rw [wrapI, BitVec.toInt_ofInt]
  have h : (x.sshiftRight k).toInt = x.toInt / 2 ^ k := by
    rw [BitVec.toInt_sshiftRight, Int.shiftRight_eq_div_pow]; norm_cast
  rw [← h, BitVec.toInt_bmod_cancel]

theorem toInt_eq_zero_iff {n} (y : BitVec n) : y.toInt = 0 ↔ y = 0 := by
  rw [← BitVec.toInt_inj]; simp

theorem toNat_eq_zero_iff {n} (y : BitVec n) : y.toNat = 0 ↔ y = 0 := by
  rw [← BitVec.toNat_inj]; simp

theorem toInt_intMin' {n} (hn : 0 < n) : (BitVec.intMin n).toInt = -(2 ^ (n - 1)) := by
  rw [BitVec.toInt_intMin, Nat.mod_eq_of_lt (Nat.pow_lt_pow_right (by omega) (by omega))]
  norm_cast

theorem toInt_allOnes' {n} (hn : 0 < n) : (BitVec.allOnes n).toInt = -1 := by
  rw [BitVec.toInt_allOnes]; simp [hn]

theorem eq_allOnes_iff {n} (hn : 0 < n) (y : BitVec n) : y = BitVec.allOnes n ↔ y.toInt = -1 := by
  rw [← BitVec.toInt_inj, toInt_allOnes' hn]

theorem eq_intMin_iff {n} (hn : 0 < n) (y : BitVec n) : y = BitVec.intMin n ↔ y.toInt = -(2 ^ (n - 1)) := by
  rw [← BitVec.toInt_inj, toInt_intMin' hn]

/-- signed operations: the compiled C operator computes the documented result wherever defined -/
theorem cS_doc {n} (hn : 0 < n) (o : BinOp) (x y : BitVec n) :
    cS o x y = docBin (match o with
      | .add => .add | .sub => .sub | .mul => .mul | .div => .div | .mod => .mod
      | .and => .and | .or => .or | .xor => .xor | .lsh => .lsh | .rsh => .rsh) x y := by
  cases o <;> simp only [cS, docBin, add_doc, sub_doc, mul_doc, shl_doc, sshr_doc]
  · simp only [← toInt_eq_zero_iff, ← eq_allOnes_iff hn, ← eq_intMin_iff hn, sdiv_doc]
  · simp only [← toInt_eq_zero_iff, ← eq_allOnes_iff hn, ← eq_intMin_iff hn, srem_doc]

/-- unsigned operations (only `/`, `%` and `>>` rows use the unsigned macros) -/
theorem cU_div_doc {n} (x y : BitVec n) : cU .div x y = docBin .udiv x y := by
  simp only [cU, docBin, ← toNat_eq_zero_iff, udiv_doc]
theorem cU_mod_doc {n} (x y : BitVec n) : cU .mod x y = docBin .umod x y := by
  simp only [cU, docBin, ← toNat_eq_zero_iff, umod_doc]
theorem cU_rsh_doc {n} (x y : BitVec n) : cU .rsh x y = docBin .ursh x y := by
  simp only [cU, docBin, ushr_doc]

theorem cCmpS_doc {n} (c : CmpOp) (x y : BitVec n) :
    some (b2w (n := n) (cCmpS c x y)) = docBin (match c with
      | .eq => .eq | .ne => .ne | .lt => .lt | .le => .le | .gt => .gt | .ge => .ge) x y := by
  cases c <;> simp only [cCmpS, docBin, BitVec.slt_eq_decide, BitVec.sle_eq_decide, gt_iff_lt, ge_iff_le]
  · congr 2; simp [BitVec.toInt_inj, Bool.beq_eq_decide_eq]
  · congr 2; simp [bne, BitVec.toInt_inj, Bool.beq_eq_decide_eq]

theorem cCmpU_doc {n} (c : CmpOp) (hc : c ≠ .eq ∧ c ≠ .ne) (x y : BitVec n) :
    some (b2w (n := n) (cCmpU c x y)) = docBin (match c with
      | .eq => .eq | .ne => .ne | .lt => .ult | .le => .ule | .gt => .ugt | .ge => .uge) x y := by
  cases c <;> simp only [cCmpU, docBin, BitVec.ult_eq_decide, BitVec.ule_eq_decide, gt_iff_lt, ge_iff_le]
  · exact absurd rfl hc.1
  · exact absurd rfl hc.2

theorem sext32_b2w (b : Bool) : sext32 (b2w b) = b2w b := by cases b <;> decide
theorem lo32_sext32 (x : W32) : lo32 (sext32 x) = x := by
  simp only [lo32, sext32]; ext i hi; simp [BitVec.getLsbD_signExtend, hi]; omega
theorem lo32_zext32 (x : W32) : lo32 (zext32 x) = x := by
  simp [lo32, zext32]

theorem agree_refl (a s r) : agree a s r r := by unfold agree; split <;> rfl

theorem optRel_agree_refl (a s) (o : Option W64) : optRel (agree a s) o o := by
  cases o <;> simp [optRel, agree_refl]

theorem optRel_zext_sext (a : AOp) (h : a.isCmp = false) (o : Option W32) :
    optRel (agree a true) (o.map zext32) (o.map sext32) := by
  cases o <;> simp [optRel, agree, h, lo32_sext32, lo32_zext32]

theorem cmpS_short (c : CmpOp) (x y : W32) :
    some (b2w (n := 64) (cCmpS c x y)) = (docBin (match c with
      | .eq => .eq | .ne => .ne | .lt => .lt | .le => .le | .gt => .gt | .ge => .ge) x y).map sext32 := by
  rw [← cCmpS_doc]; simp [sext32_b2w]

theorem cmpU_lt {n} (x y : BitVec n) : some (b2w (n := n) (cCmpU .lt x y)) = docBin .ult x y :=
  cCmpU_doc .lt (by decide) x y
theorem cmpU_le {n} (x y : BitVec n) : some (b2w (n := n) (cCmpU .le x y)) = docBin .ule x y :=
  cCmpU_doc .le (by decide) x y
theorem cmpU_gt {n} (x y : BitVec n) : some (b2w (n := n) (cCmpU .gt x y)) = docBin .ugt x y :=
  cCmpU_doc .gt (by decide) x y
theorem cmpU_ge {n} (x y : BitVec n) : some (b2w (n := n) (cCmpU .ge x y)) = docBin .uge x y :=
  cCmpU_doc .ge (by decide) x y
theorem cmpU_lt_short (x y : W32) :
    some (b2w (n := 64) (cCmpU .lt x y)) = (docBin .ult x y).map sext32 := by
  rw [← cmpU_lt]; simp [sext32_b2w]
theorem cmpU_le_short (x y : W32) :
    some (b2w (n := 64) (cCmpU .le x y)) = (docBin .ule x y).map sext32 := by
  rw [← cmpU_le]; simp [sext32_b2w]
theorem cmpU_gt_short (x y : W32) :
    some (b2w (n := 64) (cCmpU .gt x y)) = (docBin .ugt x y).map sext32 := by
  rw [← cmpU_gt]; simp [sext32_b2w]
theorem cmpU_ge_short (x y : W32) :
    some (b2w (n := 64) (cCmpU .ge x y)) = (docBin .uge x y).map sext32 := by
  rw [← cmpU_ge]; simp [sext32_b2w]

end MirVerif
