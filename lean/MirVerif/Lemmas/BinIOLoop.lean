import MirVerif.Lemmas.BinIOStmt
/-!
# C11 lemmas, part 5: statements of a function, and the reader loop over whole modules
-/
namespace BinIO

/-! ### the remaining statement kinds -/

theorem readStmt_funcBegin (cfg : Cfg) (tab : List Str) (f : Func) (rest : List Byte)
    (hn : NameOK f.name) (hr : f.res.length < 2 ^ 64) (hrt : ∀ t : Nat, t ∈ f.res → t ≤ 17)
    (hargs : ∀ v : Var, v ∈ f.args → VarOK v)
    (hin : InTab tab ([STok.name (Kw.bytes .func), STok.name f.name] ++ toksProto f.vararg f.res f.args))
    (hl : tab.length ≤ 2 ^ 32) :
    readStmt cfg tab (([STok.name (Kw.bytes .func), STok.name f.name]
        ++ toksProto f.vararg f.res f.args).flatMap (encTok tab) ++ rest)
      = .ok (.funcBegin f.name f.vararg f.res f.args, rest) := by
  have h1 : Kw.func.bytes ++ [0] ∈ tab := hin (.name _) (by simp) _ rfl
  have h2 : f.name ++ [0] ∈ tab := hin (.name f.name) (by simp) _ rfl
  have hin3 : InTab tab (toksProto f.vararg f.res f.args) := hin.append_right
  simp only [List.cons_append, List.nil_append, List.flatMap_cons, List.append_assoc,
    readStmt_kw cfg tab _ _ h1 hl]
  simp [readKwStmt, readName_enc tab _ f.name _ h2 hl hn.ne_zero, noLabs_nil,
    readProto_enc tab f.vararg f.res f.args rest hr hrt hargs hin3 hl]

theorem labs_enc_eq (tab : List Str) (labs : List Nat) :
    (labs.map STok.lab).flatMap (encTok tab) = labs.flatMap (writeIdx Tag.lab1) := by
  induction labs with
  | nil => rfl
  | cons a l ih => simp [List.flatMap_cons, ih]

/-- a reserved name after label tokens: `readKwStmt` gets the labels -/
theorem readStmt_kw_labs (cfg : Cfg) (tab : List Str) (labs : List Nat) (k : Kw) (r : List Byte)
    (hlabs : ∀ l : Nat, l ∈ labs → l < 2 ^ 32) (hin : k.bytes ++ [0] ∈ tab) (hl : tab.length ≤ 2 ^ 32) :
    readStmt cfg tab ((labs.map STok.lab).flatMap (encTok tab) ++ (encTok tab (.name k.bytes) ++ r))
      = readKwStmt cfg tab labs k r := by
  have hlen1 : labs.length ≤ (labs.flatMap (writeIdx Tag.lab1)).length :=
    length_le_flatMap _ _ (fun l _ => by simp [writeIdx])
  unfold readStmt
  rw [labs_enc_eq]
  simp only [P.bind_apply]
  rw [readLabs_enc labs _ _ _ _ hlabs (readToken_name tab k.bytes r hin hl) (by intro n; simp)
    (by simp only [List.length_append]; omega)]
  simp only [toStr_idxOf tab _ hin, P.bind_apply, P.lift_ok, kwOf_cstr]

theorem readStmt_modEnd (cfg : Cfg) (tab : List Str) (rest : List Byte)
    (hin : Kw.endmodule.bytes ++ [0] ∈ tab) (hl : tab.length ≤ 2 ^ 32) :
    readStmt cfg tab (encTok tab (.name (Kw.bytes .endmodule)) ++ rest) = .ok (.modEnd, rest) := by
  rw [readStmt_kw cfg tab _ rest hin hl]
  simp [readKwStmt, noLabs_nil]

theorem readStmt_funcEnd (cfg : Cfg) (tab : List Str) (labs : List Nat) (rest : List Byte)
    (hlabs : ∀ l : Nat, l ∈ labs → l < 2 ^ 32) (hq : cfg.endfuncLabels = false → labs = [])
    (hin : Kw.endfunc.bytes ++ [0] ∈ tab) (hl : tab.length ≤ 2 ^ 32) :
    readStmt cfg tab ((labs.map STok.lab).flatMap (encTok tab)
        ++ (encTok tab (.name (Kw.bytes .endfunc)) ++ rest)) = .ok (.funcEnd labs, rest) := by
  rw [readStmt_kw_labs cfg tab labs _ rest hlabs hin hl]
  cases hb : cfg.endfuncLabels with
  | true => simp [readKwStmt, hb]
  | false =>
    have := hq hb
    subst this
    simp [readKwStmt, hb, noLabs_nil]

theorem readStmt_modBegin (cfg : Cfg) (tab : List Str) (n : Name) (rest : List Byte) (hn : NameOK n)
    (h1 : Kw.module_.bytes ++ [0] ∈ tab) (h2 : n ++ [0] ∈ tab) (hl : tab.length ≤ 2 ^ 32) :
    readStmt cfg tab (encTok tab (.name (Kw.bytes .module_)) ++ (encTok tab (.name n) ++ rest))
      = .ok (.modBegin n, rest) := by
  rw [readStmt_kw cfg tab _ _ h1 hl]
  simp [readKwStmt, readName_enc tab _ n _ h2 hl hn.ne_zero, noLabs_nil]

theorem readStmt_eof (cfg : Cfg) (tab : List Str) (rest : List Byte) :
    readStmt cfg tab (Tag.eofile :: rest) = .ok (.eof, rest) := by
  simp [readStmt, readLabs]

theorem readStmt_locals (cfg : Cfg) (tab : List Str) (vs : List (Nat × Name)) (rest : List Byte)
    (hne : vs ≠ []) (hw : ∀ v : Nat × Name, v ∈ vs → v.1 ≤ 17 ∧ NameOK v.2)
    (hin : InTab tab (toksLocals vs)) (hl : tab.length ≤ 2 ^ 32) :
    readStmt cfg tab ((toksLocals vs).flatMap (encTok tab) ++ rest)
      = .ok (.vars false (vs.map (fun v => (v.1, v.2, none))), rest) := by
  have e : toksLocals vs = STok.name (Kw.bytes .local_) :: localToks vs := by
    simp [toksLocals, localToks, hne]
  rw [e] at hin ⊢
  have h1 : Kw.local_.bytes ++ [0] ∈ tab := hin.name_head
  have hlen := toks_length_le tab (localToks vs)
  have hlen2 : vs.length ≤ (localToks vs).length := by
    have := length_le_flatMap vs (fun v => [STok.raw (Tag.ti8 + v.1), STok.name v.2]) (fun v _ => by simp)
    simp only [localToks, List.length_append]
    omega
  obtain ⟨t, r, ht, hr⟩ := readVars_local_enc cfg tab vs
    (((localToks vs).flatMap (encTok tab) ++ rest).length + 1) rest hw hin.cons_tail hl
    (by simp only [List.length_append]; omega)
  simp only [List.flatMap_cons, List.append_assoc, readStmt_kw cfg tab _ _ h1 hl]
  simp only [readKwStmt, P.bind_apply, noLabs_nil, ht, hr, P.pure_apply]

theorem readStmt_globals (cfg : Cfg) (tab : List Str) (vs : List (Nat × Name × Name)) (rest : List Byte)
    (hq : cfg.globalDoubleRead = false)
    (hne : vs ≠ []) (hw : ∀ v : Nat × Name × Name, v ∈ vs → v.1 ≤ 17 ∧ NameOK v.2.1 ∧ NameOK v.2.2)
    (hin : InTab tab (toksGlobals vs)) (hl : tab.length ≤ 2 ^ 32) :
    readStmt cfg tab ((toksGlobals vs).flatMap (encTok tab) ++ rest)
      = .ok (.vars true (vs.map (fun v => (v.1, v.2.1, some v.2.2))), rest) := by
  have e : toksGlobals vs = STok.name (Kw.bytes .global) :: globalToks vs := by
    simp [toksGlobals, globalToks, hne]
  rw [e] at hin ⊢
  have h1 : Kw.global.bytes ++ [0] ∈ tab := hin.name_head
  have hlen := toks_length_le tab (globalToks vs)
  have hlen2 : vs.length ≤ (globalToks vs).length := by
    have := length_le_flatMap vs
      (fun v => [STok.raw (Tag.ti8 + v.1), STok.name v.2.1, STok.name v.2.2]) (fun v _ => by simp)
    simp only [globalToks, List.length_append]
    omega
  obtain ⟨t, r, ht, hr⟩ := readVars_global_enc cfg tab vs
    (((globalToks vs).flatMap (encTok tab) ++ rest).length + 1) rest hq hw hin.cons_tail hl
    (by simp only [List.length_append]; omega)
  simp only [List.flatMap_cons, List.append_assoc, readStmt_kw cfg tab _ _ h1 hl]
  simp only [readKwStmt, P.bind_apply, noLabs_nil, ht, hr, P.pure_apply]

theorem readStmt_insn (cfg : Cfg) (tab : List Str) (labs : List Nat) (code : Nat) (ops : List Op)
    (rest : List Byte) (hlabs : ∀ l : Nat, l ∈ labs → l < 2 ^ 32) (hw : InsnOK cfg (.op code ops))
    (hin : InTab tab (toksInsn cfg (.op code ops))) (hl : tab.length ≤ 2 ^ 32) :
    readStmt cfg tab ((labs.map STok.lab).flatMap (encTok tab)
        ++ ((toksInsn cfg (.op code ops)).flatMap (encTok tab) ++ rest))
      = .ok (.insn labs code ops, rest) := by
  obtain ⟨hc, hlim, hun, hn, hops⟩ := hw
  have hin2 : InTab tab (ops.flatMap toksOp) :=
    hin.of_subset (fun t ht => by simp [toksInsn]; right; left; simpa using ht)
  have elabs : (labs.map STok.lab).flatMap (encTok tab) = labs.flatMap (writeIdx Tag.lab1) := by
    induction labs with
    | nil => rfl
    | cons a l ih => simp [List.flatMap_cons, ih (fun x hx => hlabs x (List.mem_cons_of_mem _ hx))]
  have hlen1 : labs.length ≤ (labs.flatMap (writeIdx Tag.lab1)).length :=
    length_le_flatMap _ _ (fun l _ => by simp [writeIdx])
  have hlen2 := toks_length_le tab (ops.flatMap toksOp)
  have hlen3 : ops.length ≤ (ops.flatMap toksOp).length :=
    length_le_flatMap _ _ (fun o _ => by
      have := toksOp_ne_nil o
      cases h : toksOp o with
      | nil => exact absurd h this
      | cons a l => simp)
  unfold readStmt
  rw [elabs]
  simp only [toksInsn, List.flatMap_cons, encTok_uint, List.append_assoc, P.bind_apply]
  rw [readLabs_enc labs _ _ (.uint code) _ hlabs (readToken_writeUint code _ hc) (by intro n; simp)
    (by simp only [List.length_append]; omega)]
  have hlim' : ¬ cfg.codeLimit ≤ code := by omega
  simp only [P.bind_apply, P.pure_apply, hlim', if_false, hun, Bool.false_eq_true]
  by_cases h0 : cfg.nopsOf code = 0
  · simp only [h0, if_true, List.flatMap_append, List.flatMap_cons, List.flatMap_nil, encTok_raw,
      List.append_nil, List.append_assoc, List.cons_append, List.nil_append, P.bind_apply, Tag.eoi]
    rw [readOpsVar_enc tab ops _ rest hops hin2 hl
      (by simp only [List.length_append, List.length_cons]; omega)]
    rfl
  · have hn' := hn h0
    simp only [h0, if_false, List.flatMap_append, List.flatMap_nil, List.append_nil, P.bind_apply]
    rw [← hn', readOpsFixed_enc tab ops rest hops hin2 hl]
    rfl

/-! ### the reader loop -/

theorem readLoop_step (cfg : Cfg) (tab : List Str) (fuel : Nat) (st st' : RState) (bs rest : List Byte)
    (s : Stmt) (h1 : readStmt cfg tab bs = .ok (s, rest)) (hs : s ≠ .eof)
    (h2 : applyStmt cfg st s = .ok st') :
    readLoop cfg tab (fuel + 1) st bs = readLoop cfg tab fuel st' rest := by
  simp only [readLoop, h1]
  cases s <;> simp_all

theorem readLoop_eof (cfg : Cfg) (tab : List Str) (fuel : Nat) (st : RState) (bs rest : List Byte)
    (h1 : readStmt cfg tab bs = .ok (.eof, rest)) :
    readLoop cfg tab (fuel + 1) st bs = finish st := by
  simp only [readLoop, h1]

def opCount : List Insn → Nat
  | [] => 0
  | .label _ :: r => opCount r
  | .op _ _ :: r => opCount r + 1

/-- instructions that have been appended when the reader has consumed the instruction list:
everything except the labels that are still waiting for an instruction -/
def settledInsns : List Nat → List Insn → List Insn
  | _, [] => []
  | labs, .label n :: r => settledInsns (labs ++ [n]) r
  | labs, .op c ops :: r => labs.map Insn.label ++ (Insn.op c ops :: settledInsns [] r)

theorem settled_append_pending (insns : List Insn) (labs : List Nat) :
    settledInsns labs insns ++ (pendingLabs labs insns).map Insn.label = labs.map Insn.label ++ insns := by
  induction insns generalizing labs with
  | nil => simp [settledInsns, pendingLabs]
  | cons i insns ih =>
    cases i with
    | label n => simp [settledInsns, pendingLabs, ih]
    | op c ops => simp [settledInsns, pendingLabs, ih]

theorem pendingLabs_lt (cfg : Cfg) (insns : List Insn) (labs : List Nat)
    (hw : ∀ i : Insn, i ∈ insns → InsnOK cfg i) (hlabs : ∀ l : Nat, l ∈ labs → l < 2 ^ 32) :
    ∀ l : Nat, l ∈ pendingLabs labs insns → l < 2 ^ 32 := by
  induction insns generalizing labs with
  | nil => simpa [pendingLabs] using hlabs
  | cons i insns ih =>
    have hw2 : ∀ j : Insn, j ∈ insns → InsnOK cfg j := fun j hj => hw j (List.mem_cons_of_mem _ hj)
    cases i with
    | label n =>
      have hn : n < 2 ^ 32 := hw _ List.mem_cons_self
      simp only [pendingLabs]
      apply ih _ hw2
      intro l hl'
      rcases List.mem_append.mp hl' with h | h
      · exact hlabs l h
      · simp at h; omega
    | op c ops =>
      simp only [pendingLabs]
      exact ih _ hw2 (by simp)

/-- the instructions of a function: label tokens gather in front of the next instruction; labels
after the last instruction stay in the input (they precede `endfunc`) -/
theorem readLoop_insns (cfg : Cfg) (tab : List Str) (insns : List Insn) :
    ∀ (labs : List Nat) (fuel : Nat) (done : List Module) (macc : ModAcc) (facc : FuncAcc) (X : List Byte),
    (∀ i : Insn, i ∈ insns → InsnOK cfg i) → (∀ l : Nat, l ∈ labs → l < 2 ^ 32) →
    InTab tab (insns.flatMap (toksInsn cfg)) → tab.length ≤ 2 ^ 32 →
    (∀ i : Insn, i ∈ insns → insnRefsOK macc.decl i = true) →
    readLoop cfg tab (fuel + opCount insns) { doneRev := done, mod := some macc, func := some facc }
        ((labs.map STok.lab).flatMap (encTok tab) ++ ((insns.flatMap (toksInsn cfg)).flatMap (encTok tab) ++ X))
      = readLoop cfg tab fuel
          { doneRev := done, mod := some macc,
            func := some { facc with insnsRev := (settledInsns labs insns).reverse ++ facc.insnsRev } }
          (((pendingLabs labs insns).map STok.lab).flatMap (encTok tab) ++ X) := by
  induction insns with
  | nil =>
    intro labs fuel done macc facc X _ _ _ _ _
    simp [opCount, settledInsns, pendingLabs]
  | cons i insns ih =>
    intro labs fuel done macc facc X hw hlabs hin hl hrefs
    have hw1 := hw i List.mem_cons_self
    have hw2 : ∀ j : Insn, j ∈ insns → InsnOK cfg j := fun j hj => hw j (List.mem_cons_of_mem _ hj)
    have hin1 : InTab tab (toksInsn cfg i) := by
      simp only [List.flatMap_cons] at hin; exact hin.append_left
    have hin2 : InTab tab (insns.flatMap (toksInsn cfg)) := by
      simp only [List.flatMap_cons] at hin; exact hin.append_right
    have hr1 := hrefs i List.mem_cons_self
    have hr2 : ∀ j : Insn, j ∈ insns → insnRefsOK macc.decl j = true :=
      fun j hj => hrefs j (List.mem_cons_of_mem _ hj)
    cases i with
    | label n =>
      have hn : n < 2 ^ 32 := hw1
      have hlabs' : ∀ l : Nat, l ∈ labs ++ [n] → l < 2 ^ 32 := by
        intro l hl'
        rcases List.mem_append.mp hl' with h | h
        · exact hlabs l h
        · simp at h; omega
      have := ih (labs ++ [n]) fuel done macc facc X hw2 hlabs' hin2 hl hr2
      simp only [opCount, List.flatMap_cons, toksInsn, List.flatMap_nil, List.append_nil,
        List.append_assoc, List.singleton_append, settledInsns, pendingLabs]
      simp only [List.map_append, List.map_cons, List.map_nil, List.flatMap_append, List.flatMap_cons,
        List.flatMap_nil, List.append_nil, List.append_assoc, List.singleton_append,
        List.cons_append, List.nil_append] at this
      exact this
    | op code ops =>
      have hstmt := readStmt_insn cfg tab labs code ops
        ((insns.flatMap (toksInsn cfg)).flatMap (encTok tab) ++ X) hlabs hw1 hin1 hl
      have happ : applyStmt cfg { doneRev := done, mod := some macc, func := some facc } (.insn labs code ops)
          = .ok { doneRev := done, mod := some macc,
                  func := some { facc with insnsRev := (Insn.op code ops :: (labs.reverse.map Insn.label ++ facc.insnsRev)) } } := by
        simp only [insnRefsOK] at hr1
        simp [applyStmt, hr1]
      have := ih [] fuel done macc
        { facc with insnsRev := (Insn.op code ops :: (labs.reverse.map Insn.label ++ facc.insnsRev)) } X
        hw2 (by simp) hin2 hl hr2
      simp only [opCount, List.flatMap_cons, List.flatMap_append, List.append_assoc, settledInsns,
        pendingLabs]
      rw [← Nat.add_assoc, readLoop_step cfg tab _ _ _ _ _ _ hstmt (by simp) happ]
      simp only [List.map_nil, List.flatMap_nil, List.nil_append] at this
      rw [this]
      simp [List.map_reverse]

/-! ### one function -/

theorem readLoop_locals (cfg : Cfg) (tab : List Str) (ls : List (Nat × Name)) (fuel : Nat)
    (done : List Module) (macc : ModAcc) (facc : FuncAcc) (X : List Byte)
    (hw : ∀ v : Nat × Name, v ∈ ls → v.1 ≤ 17 ∧ NameOK v.2)
    (hin : InTab tab (toksLocals ls)) (hl : tab.length ≤ 2 ^ 32) :
    readLoop cfg tab (fuel + (if ls = [] then 0 else 1))
        { doneRev := done, mod := some macc, func := some facc } ((toksLocals ls).flatMap (encTok tab) ++ X)
      = readLoop cfg tab fuel
        { doneRev := done, mod := some macc, func := some { facc with locals := facc.locals ++ ls } } X := by
  by_cases h : ls = []
  · subst h
    simp [toksLocals]
  · have hstmt := readStmt_locals cfg tab ls X h hw hin hl
    have happ : applyStmt cfg { doneRev := done, mod := some macc, func := some facc }
        (.vars false (ls.map (fun v => (v.1, v.2, none))))
        = .ok { doneRev := done, mod := some macc, func := some { facc with locals := facc.locals ++ ls } } := by
      simp [applyStmt, List.map_map, Function.comp_def]
    simp only [h, if_false]
    exact readLoop_step cfg tab _ _ _ _ _ _ hstmt (by simp) happ

theorem readLoop_globals (cfg : Cfg) (tab : List Str) (gs : List (Nat × Name × Name)) (fuel : Nat)
    (done : List Module) (macc : ModAcc) (facc : FuncAcc) (X : List Byte)
    (hq : cfg.globalDoubleRead = true → gs = [])
    (hw : ∀ v : Nat × Name × Name, v ∈ gs → v.1 ≤ 17 ∧ NameOK v.2.1 ∧ NameOK v.2.2)
    (hin : InTab tab (toksGlobals gs)) (hl : tab.length ≤ 2 ^ 32) :
    readLoop cfg tab (fuel + (if gs = [] then 0 else 1))
        { doneRev := done, mod := some macc, func := some facc } ((toksGlobals gs).flatMap (encTok tab) ++ X)
      = readLoop cfg tab fuel
        { doneRev := done, mod := some macc, func := some { facc with globals := facc.globals ++ gs } } X := by
  by_cases h : gs = []
  · subst h
    simp [toksGlobals]
  · have hq' : cfg.globalDoubleRead = false := by
      cases hb : cfg.globalDoubleRead with
      | false => rfl
      | true => exact absurd (hq hb) h
    have hstmt := readStmt_globals cfg tab gs X hq' h hw hin hl
    have happ : applyStmt cfg { doneRev := done, mod := some macc, func := some facc }
        (.vars true (gs.map (fun v => (v.1, v.2.1, some v.2.2))))
        = .ok { doneRev := done, mod := some macc, func := some { facc with globals := facc.globals ++ gs } } := by
      simp [applyStmt, List.map_map, Function.comp_def]
    simp only [h, if_false]
    exact readLoop_step cfg tab _ _ _ _ _ _ hstmt (by simp) happ

/-- statements (= loop iterations) an item takes -/
def nstmtsItem : Item → Nat
  | .func f =>
    ((1 + opCount f.insns + (if f.globals = [] then 0 else 1)) + (if f.locals = [] then 0 else 1)) + 1
  | _ => 1

theorem readLoop_func (cfg : Cfg) (tab : List Str) (f : Func) (fuel : Nat) (done : List Module)
    (macc : ModAcc) (X : List Byte) (hw : FuncOK cfg f) (hin : InTab tab (toksItem cfg (.func f)))
    (hl : tab.length ≤ 2 ^ 32) (hrefs : itemRefsOK macc.decl (.func f) = true) :
    readLoop cfg tab (fuel + nstmtsItem (.func f)) { doneRev := done, mod := some macc, func := none }
        ((toksItem cfg (.func f)).flatMap (encTok tab) ++ X)
      = readLoop cfg tab fuel
        { doneRev := done,
          mod := some { macc with itemsRev := .func f :: macc.itemsRev,
                                  decl := itemDecl (.func f) ++ macc.decl },
          func := none } X := by
  obtain ⟨hn, hr, hrt, hargs, hlocs, hglobs, hq, hinsns, hpend⟩ := hw
  have hplt := pendingLabs_lt cfg f.insns [] hinsns (by simp)
  -- the pieces of the token list
  have hinA : InTab tab ([STok.name (Kw.bytes .func), STok.name f.name] ++ toksProto f.vararg f.res f.args) :=
    hin.of_subset (fun t ht => by simp only [toksItem, List.mem_append] at ht ⊢; simp_all)
  have hinL : InTab tab (toksLocals f.locals) :=
    hin.of_subset (fun t ht => by simp only [toksItem, List.mem_append] at ht ⊢; simp_all)
  have hinG : InTab tab (toksGlobals f.globals) :=
    hin.of_subset (fun t ht => by simp only [toksItem, List.mem_append] at ht ⊢; simp_all)
  have hinI : InTab tab (f.insns.flatMap (toksInsn cfg)) :=
    hin.of_subset (fun t ht => by simp only [toksItem, List.mem_append] at ht ⊢; simp_all)
  have hinE : Kw.endfunc.bytes ++ [0] ∈ tab := hin (.name _) (by simp [toksItem]) _ rfl
  have hrefs' : ∀ i : Insn, i ∈ f.insns → insnRefsOK ((f.name, true) :: macc.decl) i = true := by
    simpa [itemRefsOK, List.all_eq_true] using hrefs
  -- 1. func header
  have h1 := readStmt_funcBegin cfg tab f
    ((toksLocals f.locals).flatMap (encTok tab) ++ ((toksGlobals f.globals).flatMap (encTok tab)
      ++ ((f.insns.flatMap (toksInsn cfg)).flatMap (encTok tab)
      ++ (encTok tab (.name (Kw.bytes .endfunc)) ++ X)))) hn hr hrt hargs hinA hl
  have a1 : applyStmt cfg { doneRev := done, mod := some macc, func := none }
      (.funcBegin f.name f.vararg f.res f.args)
      = .ok { doneRev := done, mod := some { macc with decl := (f.name, true) :: macc.decl },
              func := some { name := f.name, vararg := f.vararg, res := f.res, args := f.args,
                             locals := [], globals := [], insnsRev := [] } } := by
    simp [applyStmt]
  simp only [toksItem, nstmtsItem, List.flatMap_append, List.append_assoc, List.flatMap_cons,
    List.flatMap_nil, List.append_nil] at h1 ⊢
  rw [← Nat.add_assoc, readLoop_step cfg tab _ _ _ _ _ _ h1 (by simp) a1]
  -- 2. locals, 3. globals
  rw [← Nat.add_assoc, readLoop_locals cfg tab f.locals _ _ _ _ _ hlocs hinL hl]
  rw [← Nat.add_assoc, readLoop_globals cfg tab f.globals _ _ _ _ _ hq hglobs hinG hl]
  -- 4. instructions
  have h4 := readLoop_insns cfg tab f.insns [] (fuel + 1) done
    { macc with decl := (f.name, true) :: macc.decl }
    { name := f.name, vararg := f.vararg, res := f.res, args := f.args,
      locals := [] ++ f.locals, globals := [] ++ f.globals, insnsRev := [] }
    (encTok tab (.name (Kw.bytes .endfunc)) ++ X) hinsns (by simp) hinI hl hrefs'
  simp only [List.map_nil, List.flatMap_nil, List.nil_append] at h4
  dsimp only
  simp only [List.nil_append]
  rw [← Nat.add_assoc, h4]
  -- 5. endfunc, preceded by the labels that follow the last instruction
  have h5 := readStmt_funcEnd cfg tab (pendingLabs [] f.insns) X hplt hpend hinE hl
  rw [readLoop_step cfg tab _ _ _ _ _ _ h5 (by simp) (by simp [applyStmt]; rfl)]
  have e := settled_append_pending f.insns []
  simp only [List.map_nil, List.nil_append] at e
  simp [itemDecl, List.map_reverse, e]

/-! ### items, modules -/

theorem applyStmt_item (cfg : Cfg) (done : List Module) (macc : ModAcc) (it : Item) (hf : ∀ f, it ≠ .func f)
    (hrefs : itemRefsOK macc.decl it = true) (hl2 : ∀ nm l1 l2 d, it = .lref nm l1 l2 d → ∀ l, l2 = some l →
      l < 2 ^ 63 ∧ (cfg.lrefZeroIsNone = true → l ≠ 0)) :
    applyStmt cfg { doneRev := done, mod := some macc, func := none } (stmtOfItem it)
      = .ok { doneRev := done,
              mod := some { macc with itemsRev := it :: macc.itemsRev, decl := itemDecl it ++ macc.decl },
              func := none } := by
  cases it with
  | func f => exact absurd rfl (hf f)
  | lref nm l1 l2 d =>
    cases l2 with
    | none => simp [stmtOfItem, applyStmt, addItem]
    | some l =>
      obtain ⟨h1, h2⟩ := hl2 nm l1 (some l) d rfl l rfl
      have h3 : ¬ (cfg.lrefZeroIsNone = true ∧ l = 0) := fun ⟨a, b⟩ => h2 a b
      simp [stmtOfItem, applyStmt, addItem, h1, h3]
  | ref nm it d =>
    simp only [itemRefsOK] at hrefs
    simp [stmtOfItem, applyStmt, addItem, hrefs]
  | expr nm fn =>
    simp only [itemRefsOK] at hrefs
    simp [stmtOfItem, applyStmt, addItem, hrefs]
  | _ => simp [stmtOfItem, applyStmt, addItem]

theorem readLoop_item (cfg : Cfg) (tab : List Str) (it : Item) (fuel : Nat) (done : List Module)
    (macc : ModAcc) (X : List Byte) (hw : ItemOK cfg it) (hin : InTab tab (toksItem cfg it))
    (hl : tab.length ≤ 2 ^ 32) (hrefs : itemRefsOK macc.decl it = true) :
    readLoop cfg tab (fuel + nstmtsItem it) { doneRev := done, mod := some macc, func := none }
        ((toksItem cfg it).flatMap (encTok tab) ++ X)
      = readLoop cfg tab fuel
        { doneRev := done,
          mod := some { macc with itemsRev := it :: macc.itemsRev, decl := itemDecl it ++ macc.decl },
          func := none } X := by
  by_cases hf : ∃ f, it = .func f
  · obtain ⟨f, rfl⟩ := hf
    exact readLoop_func cfg tab f fuel done macc X hw hin hl hrefs
  · have hf' : ∀ f, it ≠ .func f := fun f h => hf ⟨f, h⟩
    have h1 := readStmt_item cfg tab it X hf' hw hin hl
    have hl2 : ∀ nm l1 l2 d, it = .lref nm l1 l2 d → ∀ l, l2 = some l →
        l < 2 ^ 63 ∧ (cfg.lrefZeroIsNone = true → l ≠ 0) := by
      intro nm l1 l2 d e l hl2
      subst e
      exact hw.2.2.1 l hl2
    have h2 := applyStmt_item cfg done macc it hf' hrefs hl2
    have hne : stmtOfItem it ≠ .eof := by cases it <;> simp [stmtOfItem]
    have e : nstmtsItem it = 1 := by cases it <;> first | rfl | exact absurd rfl (hf' _)
    rw [e]
    exact readLoop_step cfg tab _ _ _ _ _ _ h1 hne h2

def nstmtsItems (items : List Item) : Nat := (items.map nstmtsItem).sum

theorem readLoop_items (cfg : Cfg) (tab : List Str) (items : List Item) :
    ∀ (fuel : Nat) (done : List Module) (macc : ModAcc) (X : List Byte),
    (∀ i : Item, i ∈ items → ItemOK cfg i) → InTab tab (items.flatMap (toksItem cfg)) →
    tab.length ≤ 2 ^ 32 → itemsRefsOK macc.decl items = true →
    ∃ decl', readLoop cfg tab (fuel + nstmtsItems items) { doneRev := done, mod := some macc, func := none }
        ((items.flatMap (toksItem cfg)).flatMap (encTok tab) ++ X)
      = readLoop cfg tab fuel
        { doneRev := done,
          mod := some { name := macc.name, itemsRev := items.reverse ++ macc.itemsRev, decl := decl' },
          func := none } X := by
  induction items with
  | nil =>
    intro fuel done macc X _ _ _ _
    exact ⟨macc.decl, by simp [nstmtsItems]⟩
  | cons it items ih =>
    intro fuel done macc X hw hin hl hrefs
    have hw1 := hw it List.mem_cons_self
    have hin1 : InTab tab (toksItem cfg it) := by
      simp only [List.flatMap_cons] at hin; exact hin.append_left
    have hin2 : InTab tab (items.flatMap (toksItem cfg)) := by
      simp only [List.flatMap_cons] at hin; exact hin.append_right
    simp only [itemsRefsOK, Bool.and_eq_true] at hrefs
    obtain ⟨decl', h⟩ := ih fuel done
      { macc with itemsRev := it :: macc.itemsRev, decl := itemDecl it ++ macc.decl } X
      (fun i hi => hw i (List.mem_cons_of_mem _ hi)) hin2 hl hrefs.2
    refine ⟨decl', ?_⟩
    have e : fuel + nstmtsItems (it :: items) = (fuel + nstmtsItems items) + nstmtsItem it := by
      simp [nstmtsItems]; omega
    simp only [List.flatMap_cons, List.flatMap_append, List.append_assoc]
    rw [e, readLoop_item cfg tab it _ done macc _ hw1 hin1 hl hrefs.1, h]
    simp

def nstmtsModule (m : Module) : Nat := (1 + nstmtsItems m.items) + 1

theorem readLoop_module (cfg : Cfg) (tab : List Str) (m : Module) (fuel : Nat) (done : List Module)
    (X : List Byte) (hw : ModuleOK cfg m) (hin : InTab tab (toksModule cfg m)) (hl : tab.length ≤ 2 ^ 32)
    (hrefs : itemsRefsOK [] m.items = true) :
    readLoop cfg tab (fuel + nstmtsModule m) { doneRev := done, mod := none, func := none }
        ((toksModule cfg m).flatMap (encTok tab) ++ X)
      = readLoop cfg tab fuel { doneRev := m :: done, mod := none, func := none } X := by
  obtain ⟨hn, hitems⟩ := hw
  have h1 : Kw.module_.bytes ++ [0] ∈ tab := hin (.name _) (by simp [toksModule]) _ rfl
  have h2 : m.name ++ [0] ∈ tab := hin (.name m.name) (by simp [toksModule]) _ rfl
  have h3 : Kw.endmodule.bytes ++ [0] ∈ tab := hin (.name _) (by simp [toksModule]) _ rfl
  have hinI : InTab tab (m.items.flatMap (toksItem cfg)) :=
    hin.of_subset (fun t ht => by simp only [toksModule, List.mem_append] at ht ⊢; simp_all)
  have s1 := readStmt_modBegin cfg tab m.name
    ((m.items.flatMap (toksItem cfg)).flatMap (encTok tab) ++ (encTok tab (.name (Kw.bytes .endmodule)) ++ X))
    hn h1 h2 hl
  obtain ⟨decl', h⟩ := readLoop_items cfg tab m.items (fuel + 1) done
    { name := m.name, itemsRev := [], decl := [] } (encTok tab (.name (Kw.bytes .endmodule)) ++ X)
    hitems hinI hl hrefs
  have s3 := readStmt_modEnd cfg tab X h3 hl
  simp only [toksModule, nstmtsModule, List.flatMap_append, List.flatMap_cons, List.flatMap_nil,
    List.append_nil, List.append_assoc, List.cons_append, List.nil_append] at s1 ⊢
  rw [← Nat.add_assoc, readLoop_step cfg tab _ _ _ _ _ _ s1 (by simp) (by simp [applyStmt]; rfl)]
  rw [← Nat.add_assoc, h]
  rw [readLoop_step cfg tab _ _ _ _ _ _ s3 (by simp) (by simp [applyStmt]; rfl)]

def nstmtsModules (ms : List Module) : Nat := (ms.map nstmtsModule).sum

theorem readLoop_modules (cfg : Cfg) (tab : List Str) (ms : List Module) :
    ∀ (fuel : Nat) (done : List Module) (X : List Byte),
    (∀ m : Module, m ∈ ms → ModuleOK cfg m) → InTab tab (toksModules cfg ms) → tab.length ≤ 2 ^ 32 →
    (∀ m : Module, m ∈ ms → itemsRefsOK [] m.items = true) →
    readLoop cfg tab (fuel + nstmtsModules ms) { doneRev := done, mod := none, func := none }
        ((toksModules cfg ms).flatMap (encTok tab) ++ X)
      = readLoop cfg tab fuel { doneRev := ms.reverse ++ done, mod := none, func := none } X := by
  induction ms with
  | nil => intro fuel done X _ _ _ _; simp [nstmtsModules, toksModules]
  | cons m ms ih =>
    intro fuel done X hw hin hl hrefs
    have hin1 : InTab tab (toksModule cfg m) := by
      simp only [toksModules, List.flatMap_cons] at hin; exact hin.append_left
    have hin2 : InTab tab (toksModules cfg ms) := by
      simp only [toksModules, List.flatMap_cons] at hin; exact hin.append_right
    have e : fuel + nstmtsModules (m :: ms) = (fuel + nstmtsModules ms) + nstmtsModule m := by
      simp [nstmtsModules]; omega
    simp only [toksModules, List.flatMap_cons, List.flatMap_append, List.append_assoc]
    rw [e, readLoop_module cfg tab m _ done _ (hw m List.mem_cons_self) hin1 hl
      (hrefs m List.mem_cons_self)]
    have := ih fuel (m :: done) X (fun x hx => hw x (List.mem_cons_of_mem _ hx)) hin2 hl
      (fun x hx => hrefs x (List.mem_cons_of_mem _ hx))
    simp only [toksModules] at this
    rw [this]
    simp

end BinIO
