import MirVerif.Lemmas.SimplifyRules
/-! CFG-local rewrites of `simplify_func`: a branch/jump to the label that follows it
(`jump_to_next`), a conditional branch in front of a jump to the same place, a conditional branch
over a jump (`br_over_jmp`), jump threading.  Positions are compared after skipping labels
(`normPc`): a label instruction only advances the program counter. -/
namespace MirVerif.Simplify
open MirVerif.MirCore

def AllLabels (l : List SInsn) : Prop := ∀ x ∈ l, isLabel x = true
def NoLabel (l : List SInsn) (lab : Lab) : Prop := ∀ x ∈ l, x ≠ Insn.label lab

/-- the position execution reaches from `pc` by stepping over labels -/
def normPc (body : List SInsn) (pc : Nat) : Nat := pc + ((body.drop pc).takeWhile isLabel).length

theorem findLabel_cons_nonlabel (x : SInsn) (tl : List SInsn) (l : Lab) (h : x ≠ .label l) :
    findLabel (x :: tl) l = (findLabel tl l).map (· + 1) := by
  cases x <;> simp [findLabel]
  rename_i l'
  intro e; subst e; exact absurd rfl h

theorem findLabel_append_none (pre post : List SInsn) (l : Lab) (h : NoLabel pre l) :
    findLabel (pre ++ post) l = (findLabel post l).map (· + pre.length) := by
  induction pre with
  | nil => simp
  | cons x tl ih =>
    have hx : x ≠ .label l := h x (by simp)
    have ht : NoLabel tl l := fun y hy => h y (by simp [hy])
    rw [List.cons_append, findLabel_cons_nonlabel _ _ _ hx, ih ht]
    cases findLabel post l <;> simp [Nat.add_assoc]

theorem findLabel_append_some (pre post : List SInsn) (l : Lab) (p : Nat) (h : findLabel pre l = some p) :
    findLabel (pre ++ post) l = some p := by
  induction pre generalizing p with
  | nil => simp [findLabel] at h
  | cons x tl ih =>
    by_cases hx : x = .label l
    · subst hx; simp [findLabel] at h ⊢; exact h
    · rw [findLabel_cons_nonlabel _ _ _ hx] at h
      rw [List.cons_append, findLabel_cons_nonlabel _ _ _ hx]
      cases hq : findLabel tl l with
      | none => simp [hq] at h
      | some q => simp [hq] at h; subst h; simp [ih q hq]

theorem findLabel_none_noLabel (pre : List SInsn) (l : Lab) (h : findLabel pre l = none) : NoLabel pre l := by
  induction pre with
  | nil => intro x hx; simp at hx
  | cons y tl ih =>
    by_cases hy : y = .label l
    · subst hy; simp [findLabel] at h
    · rw [findLabel_cons_nonlabel _ _ _ hy] at h
      have ht : findLabel tl l = none := by cases hq : findLabel tl l <;> simp [hq] at h ⊢
      intro x hx
      rcases List.mem_cons.mp hx with rfl | hx
      · exact hy
      · exact ih ht x hx

theorem findLabel_here (tl : List SInsn) (l : Lab) : findLabel (.label l :: tl) l = some 0 := by
  simp [findLabel]

theorem takeWhile_labels_append (labs tl : List SInsn) (h : AllLabels labs) :
    (labs ++ tl).takeWhile isLabel = labs ++ tl.takeWhile isLabel := by
  induction labs with
  | nil => rfl
  | cons x t ih =>
    have hx : isLabel x = true := h x (by simp)
    have ht : AllLabels t := fun y hy => h y (by simp [hy])
    simp [List.takeWhile, hx, ih ht]

theorem drop_len_append (pre post : List SInsn) : (pre ++ post).drop pre.length = post := by
  simp

theorem drop_len_append_add (pre post : List SInsn) (k : Nat) : (pre ++ post).drop (pre.length + k) = post.drop k := by
  induction pre with
  | nil => simp
  | cons x t ih => simpa [Nat.succ_add] using ih

/-- walking over `labs` (all labels) reaches the same normalised position -/
theorem normPc_skip (pre labs tl : List SInsn) (h : AllLabels labs) :
    normPc (pre ++ labs ++ tl) (pre.length + labs.length) = normPc (pre ++ labs ++ tl) pre.length := by
  unfold normPc
  have e1 : (pre ++ labs ++ tl).drop (pre.length + labs.length) = tl := by
    rw [List.append_assoc, drop_len_append_add]; simp
  have e2 : (pre ++ labs ++ tl).drop pre.length = labs ++ tl := by
    rw [List.append_assoc, drop_len_append]
  rw [e1, e2, takeWhile_labels_append _ _ h, List.length_append]
  omega

/-- the model's condition `reaches` holds exactly for the shape the theorems below assume -/
theorem reaches_decomp (tl : List SInsn) (l : Lab) (h : reaches tl l = true) :
    ∃ labs rest, tl = labs ++ .label l :: rest ∧ AllLabels labs ∧ NoLabel labs l := by
  induction tl with
  | nil => simp [reaches, skipLabels] at h
  | cons x t ih =>
    cases x <;> try (simp [reaches, skipLabels] at h)
    rename_i l'
    by_cases e : l' = l
    · subst e; exact ⟨[], t, rfl, fun _ hx => by simp at hx, fun _ hx => by simp at hx⟩
    · have e' : ¬ l = l' := fun q => e q.symm
      have ht : reaches t l = true := by
        simpa [reaches, skipLabels, e, e'] using h
      obtain ⟨labs, rest, rfl, ha, hn⟩ := ih ht
      refine ⟨.label l' :: labs, rest, rfl, ?_, ?_⟩
      · intro y hy; rcases List.mem_cons.mp hy with rfl | hy
        · rfl
        · exact ha y hy
      · intro y hy; rcases List.mem_cons.mp hy with rfl | hy
        · intro q; injection q with q; exact e q
        · exact hn y hy

section step
variable {μ : Type} [ByteMem μ]

theorem goto_ok (body : List SInsn) (fr : Frame R) (l : Lab) (p : Nat) (h : findLabel body l = some p) :
    goto body fr l = .ok { fr with pc := p } := by simp [goto, h]

/-- position of the label in `pre ++ i :: labs ++ label l :: rest` -/
theorem findLabel_shape (pre labs rest : List SInsn) (i : SInsn) (l : Lab)
    (hp : NoLabel pre l) (hi : i ≠ .label l) (hl : NoLabel labs l) :
    findLabel (pre ++ i :: (labs ++ .label l :: rest)) l = some (pre.length + 1 + labs.length) := by
  rw [findLabel_append_none _ _ _ hp, findLabel_cons_nonlabel _ _ _ hi, findLabel_append_none _ _ _ hl,
    findLabel_here]
  simp; omega

/-- **BR L | JMP L; <labels> L:** — whatever the branch does, execution continues at the same
instruction with the same registers, flags and memory: the instruction is a no-op and may be
removed (mir.c:3757-3760). -/
theorem jump_to_next_step (pre labs rest : List SInsn) (i : SInsn) (l : Lab)
    (ht : branchTarget i = some l) (ha : AllLabels labs) (hp : NoLabel pre l) (hl : NoLabel labs l)
    (fr fr' : Frame R) (g g' : G μ) (hpc : fr.pc = pre.length)
    (hs : stepInsn (pre ++ i :: (labs ++ .label l :: rest)) i fr g = .ok (fr', g')) :
    g' = g ∧ fr'.regs = fr.regs ∧ fr'.sov = fr.sov ∧ fr'.uov = fr.uov ∧
      normPc (pre ++ i :: (labs ++ .label l :: rest)) fr'.pc
        = normPc (pre ++ i :: (labs ++ .label l :: rest)) (pre.length + 1) := by
  have hi : i ≠ .label l := by intro e; subst e; simp [branchTarget, intBranchTarget] at ht
  have hf := findLabel_shape pre labs rest i l hp hi hl
  have hnorm : normPc (pre ++ i :: (labs ++ .label l :: rest)) (pre.length + 1 + labs.length)
      = normPc (pre ++ i :: (labs ++ .label l :: rest)) (pre.length + 1) := by
    have := normPc_skip (pre ++ [i]) labs (.label l :: rest) ha
    simpa [List.append_assoc] using this
  have hgo := goto_ok (pre ++ i :: (labs ++ .label l :: rest)) fr l _ hf
  have hbr : ∀ j : SInsn, intBranchTarget j = some l →
      stepInsn (pre ++ i :: (labs ++ .label l :: rest)) j fr g = .ok (fr', g') →
      g' = g ∧ fr'.regs = fr.regs ∧ fr'.sov = fr.sov ∧ fr'.uov = fr.uov ∧
      normPc (pre ++ i :: (labs ++ .label l :: rest)) fr'.pc
        = normPc (pre ++ i :: (labs ++ .label l :: rest)) (pre.length + 1) := by
    intro j hj hs
    obtain ⟨c, _, hstep⟩ := stepInsn_brCond (pre ++ i :: (labs ++ .label l :: rest)) j l hj fr g
    rw [hstep] at hs
    cases c with
    | error e => simp [bind, Except.bind] at hs
    | ok b =>
      cases b
      · simp [bind, Except.bind, pure, Except.pure, next] at hs
        obtain ⟨rfl, rfl⟩ := hs
        exact ⟨rfl, rfl, rfl, rfl, by simp [hpc]⟩
      · simp [bind, Except.bind, pure, Except.pure, hgo] at hs
        obtain ⟨rfl, rfl⟩ := hs
        exact ⟨rfl, rfl, rfl, rfl, hnorm⟩
  cases i with
  | jmp l' =>
    have e : l' = l := by simpa [branchTarget] using ht
    subst e
    simp [stepInsn, hgo, bind, Except.bind, pure, Except.pure] at hs
    obtain ⟨rfl, rfl⟩ := hs
    exact ⟨rfl, rfl, rfl, rfl, hnorm⟩
  | bcmp a s l' x y => exact hbr _ (by simpa [branchTarget] using ht) hs
  | bt s t l' x => exact hbr _ (by simpa [branchTarget] using ht) hs
  | bo u t l' => exact hbr _ (by simpa [branchTarget] using ht) hs
  | _ => simp [branchTarget, intBranchTarget] at ht

/-- position map of "delete the instruction at index `k + 1`" -/
def shiftPc (k p : Nat) : Nat := if p ≤ k then p else p - 1

theorem findLabel_lt (pre : List SInsn) (l : Lab) (p : Nat) (h : findLabel pre l = some p) : p < pre.length := by
  induction pre generalizing p with
  | nil => simp [findLabel] at h
  | cons x tl ih =>
    by_cases hx : x = .label l
    · subst hx; simp [findLabel] at h; subst h; simp
    · rw [findLabel_cons_nonlabel _ _ _ hx] at h
      cases hq : findLabel tl l with
      | none => simp [hq] at h
      | some q => simp [hq] at h; subst h; have := ih q hq; simp; omega

/-- labels keep their (shifted) positions when `x; y` is replaced by `x'` (none of them a label) -/
theorem findLabel_delete (pre post : List SInsn) (x y x' : SInsn) (l : Lab)
    (hx : x ≠ .label l) (hy : y ≠ .label l) (hx' : x' ≠ .label l) :
    findLabel (pre ++ x' :: post) l = (findLabel (pre ++ x :: y :: post) l).map (shiftPc pre.length) := by
  cases hq : findLabel pre l with
  | some p =>
    have hlt := findLabel_lt pre l p hq
    rw [findLabel_append_some _ _ _ _ hq, findLabel_append_some _ _ _ _ hq]
    simp [shiftPc]; omega
  | none =>
    have hn := findLabel_none_noLabel pre l hq
    rw [findLabel_append_none _ _ _ hn, findLabel_append_none _ _ _ hn, findLabel_cons_nonlabel _ _ _ hx',
      findLabel_cons_nonlabel _ _ _ hx, findLabel_cons_nonlabel _ _ _ hy]
    cases findLabel post l with
    | none => simp
    | some q => simp [shiftPc]

theorem reverse_not_label (i : SInsn) (mk : Lab → SInsn) (h : reverseBranch i = some mk) (l2 l' : Lab) :
    mk l2 ≠ .label l' := by
  cases i <;> simp [reverseBranch] at h
  · obtain ⟨a', _, rfl⟩ := h; intro e; cases e
  · subst h; intro e; cases e
  · subst h; intro e; cases e

/-- **BCond L; JMP L2; <labels> L:  ⇒  BNCond L2; <labels> L:** (mir.c:3793-3802).  With the
condition of the original branch evaluating to `b`:
* `b = true`: the original goes to `L`; the reversed branch falls through into the labels, i.e. to
  the same instruction (`normPc`);
* `b = false`: the original falls through to `JMP L2` and goes to `L2`; the reversed branch goes to
  `L2`, whose position is the old one shifted by the deleted instruction. -/
theorem br_over_jmp_step (pre labs rest : List SInsn) (i : SInsn) (mk : Lab → SInsn) (l l2 : Lab)
    (hrev : reverseBranch i = some mk) (ht : intBranchTarget i = some l)
    (ha : AllLabels labs) (hp : NoLabel pre l) (hl : NoLabel labs l)
    (fr : Frame R) (g : G μ) (hpc : fr.pc = pre.length) (b : Bool) (hc : brCond i fr g = some (.ok b)) :
    (b = true →
      stepInsn (pre ++ i :: .jmp l2 :: (labs ++ .label l :: rest)) i fr g
        = .ok ({ fr with pc := pre.length + 2 + labs.length }, g) ∧
      stepInsn (pre ++ mk l2 :: (labs ++ .label l :: rest)) (mk l2) fr g = .ok (next fr, g) ∧
      normPc (pre ++ mk l2 :: (labs ++ .label l :: rest)) (pre.length + 1)
        = normPc (pre ++ mk l2 :: (labs ++ .label l :: rest)) (shiftPc pre.length (pre.length + 2 + labs.length))) ∧
    (b = false →
      stepInsn (pre ++ i :: .jmp l2 :: (labs ++ .label l :: rest)) i fr g = .ok (next fr, g) ∧
      stepInsn (pre ++ i :: .jmp l2 :: (labs ++ .label l :: rest)) (.jmp l2) (next fr) g
        = (goto (pre ++ i :: .jmp l2 :: (labs ++ .label l :: rest)) (next fr) l2).map (·, g) ∧
      stepInsn (pre ++ mk l2 :: (labs ++ .label l :: rest)) (mk l2) fr g
        = (goto (pre ++ mk l2 :: (labs ++ .label l :: rest)) fr l2).map (·, g) ∧
      findLabel (pre ++ mk l2 :: (labs ++ .label l :: rest)) l2
        = (findLabel (pre ++ i :: .jmp l2 :: (labs ++ .label l :: rest)) l2).map (shiftPc pre.length)) := by
  have hi : ∀ l', i ≠ .label l' := by
    intro l' e; subst e; simp [intBranchTarget] at ht
  obtain ⟨hmk, c, hc1, hc2⟩ := reverse_branch_cond i mk hrev l2 fr g
  rw [hc] at hc1; cases hc1
  obtain ⟨c1, hb1, hs1⟩ := stepInsn_brCond (pre ++ i :: .jmp l2 :: (labs ++ .label l :: rest)) i l ht fr g
  rw [hc] at hb1; cases hb1
  obtain ⟨c2, hb2, hs2⟩ := stepInsn_brCond (pre ++ mk l2 :: (labs ++ .label l :: rest)) (mk l2) l2 hmk fr g
  rw [hc2] at hb2; cases hb2
  constructor
  · intro hb; subst hb
    have hf : findLabel (pre ++ i :: .jmp l2 :: (labs ++ .label l :: rest)) l = some (pre.length + 2 + labs.length) := by
      rw [findLabel_append_none _ _ _ hp, findLabel_cons_nonlabel _ _ _ (hi l),
        findLabel_cons_nonlabel _ _ _ (by intro e; cases e), findLabel_append_none _ _ _ hl, findLabel_here]
      simp; omega
    refine ⟨?_, ?_, ?_⟩
    · rw [hs1]; simp [bind, Except.bind, pure, Except.pure, goto_ok _ _ _ _ hf]
    · rw [hs2]; simp [bind, Except.bind, pure, Except.pure, Except.map]
    · have := normPc_skip (pre ++ [mk l2]) labs (.label l :: rest) ha
      have e : shiftPc pre.length (pre.length + 2 + labs.length) = pre.length + 1 + labs.length := by
        simp [shiftPc]; omega
      rw [e]
      simpa [List.append_assoc] using this.symm
  · intro hb; subst hb
    refine ⟨?_, ?_, ?_, ?_⟩
    · rw [hs1]; simp [bind, Except.bind, pure, Except.pure]
    · simp only [stepInsn]
      cases goto (pre ++ i :: .jmp l2 :: (labs ++ .label l :: rest)) (next fr) l2 <;>
        simp [bind, Except.bind, pure, Except.pure, Except.map]
    · rw [hs2]
      cases goto (pre ++ mk l2 :: (labs ++ .label l :: rest)) fr l2 <;>
        simp [bind, Except.bind, pure, Except.pure, Except.map]
    · exact findLabel_delete pre (labs ++ .label l :: rest) i (.jmp l2) (mk l2) l2 (hi l2)
        (by intro e; cases e) (reverse_not_label i mk hrev l2 l2)

end step
end MirVerif.Simplify
