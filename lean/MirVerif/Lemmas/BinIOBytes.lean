import MirVerif.Lemmas.BinIOMain
/-!
# C11 lemmas: everything the writer emits is a byte (`< 256`), for the composition with C12
-/
namespace BinIO

/-- what makes the encoding of a token a list of bytes -/
def tokOK : STok → Prop
  | .raw b => b < 256
  | .reg n => ∀ b : Nat, b ∈ n → b < 256
  | .name n => ∀ b : Nat, b ∈ n → b < 256
  | .str s => ∀ b : Nat, b ∈ s → b < 256
  | _ => True

def AllTok (l : List STok) : Prop := ∀ t : STok, t ∈ l → tokOK t

theorem allTok_nil : AllTok [] := fun _ h => by cases h
theorem allTok_cons (t : STok) (l : List STok) : AllTok (t :: l) ↔ tokOK t ∧ AllTok l := by
  unfold AllTok; exact List.forall_mem_cons
theorem allTok_append (a b : List STok) : AllTok (a ++ b) ↔ AllTok a ∧ AllTok b := by
  unfold AllTok; exact List.forall_mem_append
theorem allTok_flatMap {α : Type} (l : List α) (f : α → List STok) (h : ∀ a : α, a ∈ l → AllTok (f a)) :
    AllTok (l.flatMap f) := by
  intro x hx
  obtain ⟨a, ha, hxa⟩ := List.mem_flatMap.mp hx
  exact h a ha x hxa
theorem allTok_map {α : Type} (l : List α) (f : α → STok) (h : ∀ a : α, a ∈ l → tokOK (f a)) :
    AllTok (l.map f) := by
  intro x hx
  obtain ⟨a, ha, rfl⟩ := List.mem_map.mp hx
  exact h a ha

theorem NameOK.bytes {n : Name} (h : NameOK n) : ∀ b : Nat, b ∈ n → b < 256 := fun b hb => (h b hb).2
theorem Kw.bytes_lt (k : Kw) : ∀ b : Nat, b ∈ k.bytes → b < 256 := by cases k <;> decide

theorem allTok_mem (m : Mem) (h : MemOK m) : AllTok (toksMem m) := by
  obtain ⟨hty, _, hb, hi, ha, hna⟩ := h
  have hr := memTagB_range (decide (m.disp ≠ 0)) m.base.isSome m.index.isSome
    (decide (m.alias ≠ [] ∨ m.nonalias ≠ []))
  rw [← memTag_eq] at hr
  have h1 : memTag m < 256 := by omega
  have h2 : 43 + m.ty < 256 := by omega
  unfold toksMem
  simp only [allTok_append, allTok_cons, tokOK, Tag.ti8, h1, h2, true_and, and_true]
  refine ⟨⟨⟨⟨allTok_nil, ?_⟩, ?_⟩, ?_⟩, ?_⟩
  · split
    · simp [allTok_cons, tokOK, allTok_nil]
    · exact allTok_nil
  · cases hbb : m.base with
    | none => exact allTok_nil
    | some b => simp only [allTok_cons, tokOK]; exact ⟨(hb b hbb).bytes, allTok_nil⟩
  · cases hii : m.index with
    | none => exact allTok_nil
    | some p => simp only [allTok_cons, tokOK]; exact ⟨(hi p hii).1.bytes, trivial, allTok_nil⟩
  · split
    · simp only [allTok_cons, tokOK]; exact ⟨ha.bytes, hna.bytes, allTok_nil⟩
    · exact allTok_nil

theorem allTok_op (o : Op) (h : OpOK o) : AllTok (toksOp o) := by
  cases o with
  | mem m => exact allTok_mem m h
  | reg n => simp only [toksOp, allTok_cons, tokOK]; exact ⟨NameOK.bytes h, allTok_nil⟩
  | ref n => simp only [toksOp, allTok_cons, tokOK]; exact ⟨NameOK.bytes h, allTok_nil⟩
  | str s => simp only [toksOp, allTok_cons, tokOK]; exact ⟨h, allTok_nil⟩
  | _ => simp [toksOp, allTok_cons, tokOK, allTok_nil]

theorem allTok_insn (cfg : Cfg) (i : Insn) (h : InsnOK cfg i) : AllTok (toksInsn cfg i) := by
  cases i with
  | label n => simp [toksInsn, allTok_cons, tokOK, allTok_nil]
  | op c ops =>
    obtain ⟨_, _, _, _, hops⟩ := h
    unfold toksInsn
    simp only [allTok_cons, allTok_append, tokOK, true_and]
    refine ⟨allTok_flatMap _ _ (fun o ho => allTok_op o (hops o ho)), ?_⟩
    split
    · simp [allTok_cons, tokOK, allTok_nil]
    · exact allTok_nil

theorem allTok_var (v : Var) (h : VarOK v) : AllTok (toksVar v) := by
  obtain ⟨hty, hn, _, _⟩ := h
  have h2 : 43 + v.ty < 256 := by omega
  unfold toksVar
  simp only [allTok_append, allTok_cons, tokOK, Tag.ti8, h2, true_and]
  refine ⟨⟨hn.bytes, allTok_nil⟩, ?_⟩
  split
  · simp [allTok_cons, tokOK, allTok_nil]
  · exact allTok_nil

theorem allTok_proto (va : Bool) (res : List Nat) (args : List Var) (hr : ∀ t : Nat, t ∈ res → t ≤ 17)
    (ha : ∀ v : Var, v ∈ args → VarOK v) : AllTok (toksProto va res args) := by
  unfold toksProto
  simp only [allTok_append, allTok_cons, tokOK, true_and]
  refine ⟨⟨⟨allTok_nil, ?_⟩, ?_⟩, ?_, allTok_nil⟩
  · exact allTok_map _ _ (fun t ht => by
      show Tag.ti8 + t < 256
      have := hr t ht
      simp only [Tag.ti8]; omega)
  · exact allTok_flatMap _ _ (fun v hv => allTok_var v (ha v hv))
  · simp

theorem allTok_named (a b : Kw) (nm : Option Name) (h : OptNameOK nm) : AllTok (toksNamed a b nm) := by
  cases nm with
  | none => simp only [toksNamed, allTok_cons, tokOK]; exact ⟨Kw.bytes_lt a, allTok_nil⟩
  | some n => simp only [toksNamed, allTok_cons, tokOK]; exact ⟨Kw.bytes_lt b, NameOK.bytes h, allTok_nil⟩

theorem tokOK_dataEl (t v : Nat) : tokOK (toksDataEl t v) := by
  unfold toksDataEl
  split <;> trivial

theorem allTok_item (cfg : Cfg) (it : Item) (h : ItemOK cfg it) : AllTok (toksItem cfg it) := by
  cases it with
  | import_ n => simp only [toksItem, allTok_cons, tokOK]; exact ⟨Kw.bytes_lt _, NameOK.bytes h, allTok_nil⟩
  | export_ n => simp only [toksItem, allTok_cons, tokOK]; exact ⟨Kw.bytes_lt _, NameOK.bytes h, allTok_nil⟩
  | forward_ n => simp only [toksItem, allTok_cons, tokOK]; exact ⟨Kw.bytes_lt _, NameOK.bytes h, allTok_nil⟩
  | bss nm len =>
    simp only [toksItem, allTok_append, allTok_cons, tokOK]
    exact ⟨allTok_named _ _ nm h.1, trivial, allTok_nil⟩
  | ref nm it d =>
    simp only [toksItem, allTok_append, allTok_cons, tokOK]
    exact ⟨allTok_named _ _ nm h.1, h.2.1.bytes, trivial, allTok_nil⟩
  | lref nm l1 l2 d =>
    simp only [toksItem, allTok_append, allTok_cons, tokOK]
    exact ⟨allTok_named _ _ nm h.1, trivial, trivial, trivial, allTok_nil⟩
  | expr nm fn =>
    simp only [toksItem, allTok_append, allTok_cons, tokOK]
    exact ⟨allTok_named _ _ nm h.1, h.2.bytes, allTok_nil⟩
  | data nm ty els =>
    obtain ⟨hn, hd⟩ := h
    have hty : 43 + ty < 256 := by
      rcases hd.1 with h | h
      · omega
      · omega
    simp only [toksItem, allTok_append, allTok_cons, tokOK, Tag.ti8, Tag.eoi]
    exact ⟨⟨⟨allTok_named _ _ nm hn, hty, allTok_nil⟩, allTok_map _ _ (fun v _ => tokOK_dataEl ty v)⟩,
      (by show (61 : Nat) < 256; omega), allTok_nil⟩
  | proto n va res args =>
    obtain ⟨hn, _, hrt, hargs⟩ := h
    simp only [toksItem, allTok_append, allTok_cons, tokOK]
    exact ⟨⟨Kw.bytes_lt _, hn.bytes, allTok_nil⟩, allTok_proto va res args hrt hargs⟩
  | func f =>
    obtain ⟨hn, _, hrt, hargs, hlocs, hglobs, _, hinsns, _⟩ := h
    simp only [toksItem, allTok_append, allTok_cons, tokOK]
    refine ⟨⟨⟨⟨⟨⟨Kw.bytes_lt _, hn.bytes, allTok_nil⟩, allTok_proto _ _ _ hrt hargs⟩, ?_⟩, ?_⟩,
      allTok_flatMap _ _ (fun i hi => allTok_insn cfg i (hinsns i hi))⟩, Kw.bytes_lt _, allTok_nil⟩
    · unfold toksLocals
      split
      · exact allTok_nil
      · simp only [allTok_cons, allTok_append, tokOK, Tag.eoi]
        refine ⟨Kw.bytes_lt _, allTok_flatMap _ _ (fun v hv => ?_), (by show (61 : Nat) < 256; omega), allTok_nil⟩
        have := hlocs v hv
        have h1 := this.1
        simp only [allTok_cons, tokOK, Tag.ti8]
        exact ⟨(by show 43 + v.1 < 256; omega), this.2.bytes, allTok_nil⟩
    · unfold toksGlobals
      split
      · exact allTok_nil
      · simp only [allTok_cons, allTok_append, tokOK, Tag.eoi]
        refine ⟨Kw.bytes_lt _, allTok_flatMap _ _ (fun v hv => ?_), (by show (61 : Nat) < 256; omega), allTok_nil⟩
        have := hglobs v hv
        have h1 := this.1
        simp only [allTok_cons, tokOK, Tag.ti8]
        exact ⟨(by show 43 + v.1 < 256; omega), this.2.1.bytes, this.2.2.bytes, allTok_nil⟩

theorem allTok_modules (cfg : Cfg) (ms : List Module) (h : ∀ m : Module, m ∈ ms → ModuleOK cfg m) :
    AllTok (toksModules cfg ms) := by
  unfold toksModules
  refine allTok_flatMap _ _ (fun m hm => ?_)
  unfold toksModule
  simp only [allTok_append, allTok_cons, tokOK]
  exact ⟨⟨⟨Kw.bytes_lt _, (h m hm).1.bytes, allTok_nil⟩,
    allTok_flatMap _ _ (fun it hit => allTok_item cfg it ((h m hm).2 it hit))⟩, Kw.bytes_lt _, allTok_nil⟩

/-! ### bytes of the primitive writers -/

theorem writeUint_bytes (u : Nat) : ∀ b : Nat, b ∈ writeUint u → b < 256 := by
  intro b hb
  unfold writeUint at hb
  split at hb
  · simp at hb; omega
  · have := nbytes_le u
    rcases List.mem_cons.mp hb with h | h
    · simp at h; omega
    · exact putUint_lt _ _ b h

theorem writeInt_bytes (u : Nat) : ∀ b : Nat, b ∈ writeInt u → b < 256 := by
  intro b hb
  have := intLength_range u
  rcases List.mem_cons.mp hb with h | h
  · simp at h; omega
  · exact putUint_lt _ _ b h

theorem writeIdx_bytes (base i : Nat) (hb : base ≤ 100) : ∀ b : Nat, b ∈ writeIdx base i → b < 256 := by
  intro b hb'
  have : idxLen i ≤ 8 := by
    unfold idxLen uintLength
    have := nbytes_le i
    repeat' split
    all_goals omega
  rcases List.mem_cons.mp hb' with h | h
  · omega
  · exact putUint_lt _ _ b h

theorem encTok_bytes (tab : List Str) (t : STok) (h : tokOK t) : ∀ b : Nat, b ∈ encTok tab t → b < 256 := by
  intro b hb
  cases t with
  | uint v => exact writeUint_bytes v b hb
  | int v => exact writeInt_bytes v b hb
  | flt v =>
    rcases List.mem_cons.mp hb with h | h
    · simp at h; omega
    · exact putUint_lt _ _ b h
  | dbl v =>
    rcases List.mem_cons.mp hb with h | h
    · simp at h; omega
    · exact putUint_lt _ _ b h
  | ldbl v =>
    rcases List.mem_cons.mp hb with h | h
    · simp at h; omega
    · rcases List.mem_append.mp h with h | h
      · exact putUint_lt _ _ b h
      · exact putUint_lt _ _ b h
  | reg n => exact writeIdx_bytes _ _ (by simp) b hb
  | name n => exact writeIdx_bytes _ _ (by simp) b hb
  | str s => exact writeIdx_bytes _ _ (by simp) b hb
  | lab n => exact writeIdx_bytes _ _ (by simp) b hb
  | raw c =>
    simp [encTok] at hb
    subst hb
    exact h

theorem foldl_storeStr_subset (l : List Str) (s : Str) :
    ∀ acc : List Str, s ∈ l.foldl storeStr acc → s ∈ acc ∨ s ∈ l := by
  induction l with
  | nil => intro acc h; exact Or.inl h
  | cons a l ih =>
    intro acc h
    rcases ih (storeStr acc a) h with h1 | h1
    · unfold storeStr at h1
      split at h1
      · exact Or.inl h1
      · rcases List.mem_cons.mp h1 with rfl | h2
        · exact Or.inr List.mem_cons_self
        · exact Or.inl h2
    · exact Or.inr (List.mem_cons_of_mem _ h1)

theorem strTable_subset (toks : List STok) (s : Str) (h : s ∈ strTable toks) : s ∈ toks.filterMap strOf := by
  unfold strTable at h
  rw [List.mem_reverse] at h
  rcases foldl_storeStr_subset _ s [] h with h1 | h1
  · cases h1
  · exact h1

theorem strOf_bytes (t : STok) (h : tokOK t) (s : Str) (hs : strOf t = some s) : ∀ b : Nat, b ∈ s → b < 256 := by
  cases t with
  | reg n =>
    simp only [strOf, Option.some.injEq] at hs; subst hs
    intro b hb
    rcases List.mem_append.mp hb with h1 | h1
    · exact h b h1
    · simp at h1; omega
  | name n =>
    simp only [strOf, Option.some.injEq] at hs; subst hs
    intro b hb
    rcases List.mem_append.mp hb with h1 | h1
    · exact h b h1
    · simp at h1; omega
  | str s' => simp only [strOf, Option.some.injEq] at hs; subst hs; exact h
  | _ => simp [strOf] at hs

/-- every byte of the stream is `< 256` when all raw tags and all string bytes are -/
theorem encToks_bytes (cfg : Cfg) (toks : List STok) (hr : AllTok toks) :
    ∀ b : Nat, b ∈ encToks cfg toks → b < 256 := by
  intro b hb
  unfold encToks at hb
  simp only [List.mem_append, List.mem_cons, List.mem_nil_iff, or_false] at hb
  rcases hb with (hb | hb) | hb
  · unfold encHeader at hb
    simp only [List.mem_append] at hb
    rcases hb with (hb | hb) | hb
    · exact writeUint_bytes _ b hb
    · exact writeUint_bytes _ b hb
    · obtain ⟨s, hs1, hs2⟩ := List.mem_flatMap.mp hb
      unfold encStr at hs2
      rcases List.mem_append.mp hs2 with h | h
      · exact writeUint_bytes _ b h
      · obtain ⟨t, ht, hst⟩ := List.mem_filterMap.mp (strTable_subset toks s hs1)
        exact strOf_bytes t (hr t ht) s hst b h
  · obtain ⟨t, ht, htb⟩ := List.mem_flatMap.mp hb
    exact encTok_bytes _ t (hr t ht) b htb
  · subst hb; simp

/-- **the writer emits bytes** -/
theorem writeModules_bytes (cfg : Cfg) (ms : List Module) (h : WF cfg ms) :
    ∀ b : Nat, b ∈ writeModules cfg ms → b < 256 :=
  encToks_bytes cfg _ (allTok_modules cfg ms h.modules)

end BinIO
