import MirVerif.Model.Layout
/-! Lemmas for C08 layout: arithmetic of `roundUp`, the search loop of `update_field_layout` after a
regular field, alignment positivity. -/
namespace MirVerif.Layout

theorem roundUp_zero (a : Nat) : roundUp 0 a = 0 := by
  unfold roundUp
  cases a with
  | zero => simp
  | succ n => simp [Nat.div_eq_of_lt]

theorem roundUp_ge {x a : Nat} (ha : 0 < a) : x ≤ roundUp x a := by
  unfold roundUp
  have h := Nat.div_add_mod (x + a - 1) a
  have h2 := Nat.mod_lt (x + a - 1) ha
  have : a * ((x + a - 1) / a) = (x + a - 1) / a * a := Nat.mul_comm _ _
  omega

theorem roundUp_dvd (x a : Nat) : a ∣ roundUp x a := by
  unfold roundUp; exact Nat.dvd_mul_left _ _

theorem roundUp_mod (x a : Nat) : roundUp x a % a = 0 := by
  unfold roundUp; exact Nat.mul_mod_left _ _

/-- the least multiple of `a` that is `≥ x` -/
theorem roundUp_eq_of_bounds {x a k : Nat} (ha : 0 < a) (h1 : x ≤ k * a) (h2 : k * a < x + a) :
    roundUp x a = k * a := by
  unfold roundUp
  have : (x + a - 1) / a = k := by
    apply Nat.div_eq_of_lt_le
    · omega
    · rw [Nat.add_mul]; omega
  rw [this]

theorem roundUp_of_mul (k a : Nat) (ha : 0 < a) : roundUp (k * a) a = k * a :=
  roundUp_eq_of_bounds ha (Nat.le_refl _) (by omega)

theorem roundUp_idem {x a : Nat} (ha : 0 < a) : roundUp (roundUp x a) a = roundUp x a := by
  unfold roundUp
  exact roundUp_of_mul _ a ha

theorem roundSize_eq_roundUp {s a : Nat} (ha : 0 < a) : roundSize s a = roundUp s a := by
  unfold roundSize roundUp
  have : a ≠ 0 := by omega
  simp [this]

/-- search loop after a regular field, for a regular field: from a multiple `k * al` of the
alignment that is not below the end `pO + pS` of the previous field, the loop walks down to the
least multiple of the alignment that is not below that end. -/
theorem ufLoop_plain (pO pS fs al b : Nat) (hal : 0 < al) :
    ∀ k, pO + pS ≤ k * al →
      ufLoop false pO pS fs al none (k * al) (k * al) b = (roundUp (pO + pS) al, b) := by
  intro k
  induction k with
  | zero =>
    intro h
    have hP : pO + pS = 0 := by omega
    unfold ufLoop
    simp [hal, hP, roundUp_zero]
  | succ k ih =>
    intro h
    unfold ufLoop
    have h1 : ¬ ((k + 1) * al < al) := by rw [Nat.add_mul]; omega
    have h2 : al ≠ 0 := by omega
    have h3 : (k + 1) * al - al = k * al := by rw [Nat.add_mul]; omega
    simp only [h1, h2, if_false, h3]
    by_cases hc : k * al < pO + pS
    · simp [hc]
      exact (roundUp_eq_of_bounds hal h (by rw [Nat.add_mul]; omega)).symm
    · simp [hc]
      exact ih (by omega)

theorem c2mBasicSize_eq (s : Sc) : c2mBasicSize s = s.size := by cases s <;> rfl
theorem c2mBasicAlign_eq (s : Sc) : c2mBasicAlign s = s.align := by cases s <;> rfl
theorem Sc.size_pos (s : Sc) : 0 < s.size := by cases s <;> decide
theorem Sc.align_pos (s : Sc) : 0 < s.align := Sc.size_pos s

end MirVerif.Layout

namespace MirVerif.Layout

/-! ### alignment is positive (the `assert (field_type_align > 0)` of `update_field_layout`) -/

theorem le_c2mAlignFold (u : Bool) : ∀ (ms : Mems) (a : Nat), a ≤ c2mAlignFold u ms a
  | .nil, a => by simp [c2mAlignFold]
  | .cons k t r, a => by
    unfold c2mAlignFold
    split
    · exact le_c2mAlignFold u r a
    · exact Nat.le_trans (Nat.le_max_left _ _) (le_c2mAlignFold u r _)

theorem c2mLay_align_pos : ∀ t : CTy, 0 < (c2mLay t).align
  | .sc s => by simp [c2mLay, c2mBasicAlign_eq, Sc.align_pos]
  | .arr n t => by simp [c2mLay]; exact c2mLay_align_pos t
  | .agg u ms => by
    simp [c2mLay]
    exact le_c2mAlignFold u ms 1

theorem le_sysvAlignFold : ∀ (ms : Mems) (a : Nat), a ≤ sysvAlignFold ms a
  | .nil, a => by simp [sysvAlignFold]
  | .cons k t r, a => by
    unfold sysvAlignFold
    split
    · exact Nat.le_trans (Nat.le_max_left _ _) (le_sysvAlignFold r _)
    · exact le_sysvAlignFold r a

theorem sysvLay_align_pos : ∀ t : CTy, 0 < (sysvLay t).align
  | .sc s => by simp [sysvLay, Sc.align_pos]
  | .arr n t => by simp [sysvLay]; exact sysvLay_align_pos t
  | .agg u ms => by
    simp [sysvLay]
    exact le_sysvAlignFold ms 1

/-! ### `update_field_layout` for a regular field after a regular field -/

theorem ufl_plain (st : FL) (pS fs al : Nat) (hbf : st.bf = false) (hal : 0 < al)
    (hP : st.offset + pS ≤ st.overall) :
    updateFieldLayout st pS fs al none
      = { bf := false, offset := roundUp (st.offset + pS) al, bound := st.bound,
          overall := if st.overall < roundUp (st.offset + pS) al + fs
                     then roundUp (st.offset + pS) al + fs else st.overall } := by
  unfold updateFieldLayout
  have hge : st.overall ≤ (st.overall + al - 1) / al * al := roundUp_ge (x := st.overall) hal
  have hl := ufLoop_plain st.offset pS fs al st.bound hal ((st.overall + al - 1) / al) (by omega)
  simp [hbf, hl]

/-- simulation relation between the locals of `set_type_layout` and the specification state, valid
as long as no bit-field has been seen -/
structure Rel (u : Bool) (c : MSt) (s : SSt) : Prop where
  bf : c.bf = false
  out : c.out = s.out
  pos : s.bitpos = 8 * c.overall
  inv : if u then c.offset = 0 ∧ c.prevSize = 0 else c.offset + c.prevSize = c.overall

theorem MK.bits_none_of_not_bf {k : MK} (h : ∀ w nm, k ≠ .bf w nm) : k.bits = none := by
  cases k <;> simp [MK.bits] at *

theorem member_plain_rel {u : Bool} {c : MSt} {s : SSt} {k : MK} {sz al : Nat}
    (hr : Rel u c s) (hsz : 0 < sz) (hal : 0 < al) (hk : ∀ w nm, k ≠ .bf w nm) :
    Rel u (c2mMember u c k sz al) (sysvMember u s k sz al) := by
  have hbits := MK.bits_none_of_not_bf hk
  obtain ⟨cbf, cov, coff, cbound, cps, cout⟩ := c
  obtain ⟨sbit, sout⟩ := s
  obtain ⟨hbf, hout, hpos, hinv⟩ := hr
  simp only at hbf hout hpos hinv
  subst hbf hout hpos
  have hsz' : sz ≠ 0 := by omega
  cases u with
  | true =>
    simp at hinv
    obtain ⟨h1, h2⟩ := hinv
    subst h1 h2
    have hufl := ufl_plain ⟨false, cov, 0, cbound⟩ 0 sz al rfl hal (by simp)
    simp only [Nat.add_zero, roundUp_zero, Nat.zero_add] at hufl
    cases k with
    | bf w nm => exact absurd rfl (hk w nm)
    | plain =>
      simp only [c2mMember, sysvMember, hsz', MK.bits, hufl, if_true, if_false]
      constructor <;> simp <;> split <;> omega
    | anon =>
      simp only [c2mMember, sysvMember, hsz', MK.bits, hufl, if_true, if_false]
      constructor <;> simp <;> split <;> omega
  | false =>
    simp at hinv
    have hufl := ufl_plain ⟨false, cov, coff, cbound⟩ cps sz al rfl hal (by simp [hinv])
    simp only [hinv] at hufl
    have hge : cov ≤ roundUp cov al := roundUp_ge hal
    have h8 : (8 * cov + 7) / 8 = cov := by omega
    cases k with
    | bf w nm => exact absurd rfl (hk w nm)
    | plain =>
      simp only [c2mMember, sysvMember, hsz', MK.bits, hufl, if_false, h8]
      constructor <;> simp <;> (try split) <;> omega
    | anon =>
      simp only [c2mMember, sysvMember, hsz', MK.bits, hufl, if_false, h8]
      constructor <;> simp <;> (try split) <;> omega

theorem member_plain_overall {u : Bool} {c : MSt} {s : SSt} {k : MK} {sz al : Nat}
    (hr : Rel u c s) (hsz : 0 < sz) (hal : 0 < al) (hk : ∀ w nm, k ≠ .bf w nm) :
    c.overall ≤ (c2mMember u c k sz al).overall ∧ 0 < (c2mMember u c k sz al).overall := by
  have hbits := MK.bits_none_of_not_bf hk
  obtain ⟨cbf, cov, coff, cbound, cps, cout⟩ := c
  obtain ⟨hbf, hout, hpos, hinv⟩ := hr
  simp only at hbf hinv
  subst hbf
  have hsz' : sz ≠ 0 := by omega
  have hP : coff + cps ≤ cov := by
    cases u <;> simp at hinv <;> omega
  have hufl := ufl_plain ⟨false, cov, coff, cbound⟩ cps sz al rfl hal hP
  cases u <;> simp only [c2mMember, hsz', hbits, hufl, if_false, if_true] <;> (try simp) <;> split <;> omega

theorem sysvLay_size_dvd : ∀ t : CTy, (sysvLay t).align ∣ (sysvLay t).size
  | .sc s => by simp [sysvLay, Sc.align]
  | .arr n t => by
    simp [sysvLay]
    exact Nat.dvd_trans (sysvLay_size_dvd t) (Nat.dvd_mul_right _ _)
  | .agg u ms => by
    simp [sysvLay]
    exact roundUp_dvd _ _

theorem Rel.init (u : Bool) : Rel u {} {} := by
  constructor <;> simp

mutual
/-- `layout_meets_sysv` for declarations without bit-fields (and positivity of sizes) -/
theorem lay_eq_noBf : ∀ t : CTy, t.wf = true → t.noBf = true →
    c2mLay t = sysvLay t ∧ 0 < (sysvLay t).size
  | .sc s, _, _ => by
    simp [c2mLay, sysvLay, c2mBasicSize_eq, c2mBasicAlign_eq, Sc.size_pos]
  | .arr n t, hw, hn => by
    simp [CTy.wf] at hw
    simp [CTy.noBf] at hn
    obtain ⟨ih, hpos⟩ := lay_eq_noBf t hw.2 hn
    have hal := sysvLay_align_pos t
    have hmul : roundUp ((sysvLay t).size * n) (sysvLay t).align = (sysvLay t).size * n := by
      obtain ⟨q, hq⟩ := sysvLay_size_dvd t
      have : (sysvLay t).size * n = (q * n) * (sysvLay t).align := by
        rw [hq, Nat.mul_comm (sysvLay t).align q, Nat.mul_assoc, Nat.mul_assoc, Nat.mul_comm n]
      rw [this]
      exact roundUp_of_mul _ _ hal
    simp [c2mLay, sysvLay, ih, roundSize_eq_roundUp hal, hmul]
    exact Nat.mul_pos hpos hw.1
  | .agg u ms, hw, hn => by
    simp [CTy.wf] at hw
    simp [CTy.noBf] at hn
    obtain ⟨hrel, hal, hmono, hne⟩ := fold_eq_noBf u ms {} {} hw.2 hn (Rel.init u)
    obtain ⟨hbf, hout, hpos, hinv⟩ := hrel
    have hms : ms ≠ .nil := by
      intro h; subst h; simp [Mems.nonempty] at hw
    have hov := hne hms
    have halpos : 0 < sysvAlignFold ms 1 := le_sysvAlignFold ms 1
    have h8 : (8 * (c2mFold u ms {}).overall + 7) / 8 = (c2mFold u ms {}).overall := by omega
    simp [c2mLay, sysvLay, hal, hout, hpos, h8, roundSize_eq_roundUp halpos]
    have := roundUp_ge (x := (c2mFold u ms {}).overall) halpos
    omega
/-- the member loops of the code and of the specification stay in `Rel` -/
theorem fold_eq_noBf : ∀ (u : Bool) (ms : Mems) (c : MSt) (s : SSt), ms.wf = true → ms.noBf = true →
    Rel u c s →
    Rel u (c2mFold u ms c) (sysvFold u ms s) ∧ (∀ a, c2mAlignFold u ms a = sysvAlignFold ms a)
      ∧ c.overall ≤ (c2mFold u ms c).overall ∧ (ms ≠ .nil → 0 < (c2mFold u ms c).overall)
  | u, .nil, c, s, _, _, hr => by
    simp [c2mFold, sysvFold, c2mAlignFold, sysvAlignFold, hr]
  | u, .cons k t r, c, s, hw, hn, hr => by
    simp [Mems.wf] at hw
    have hk : ∀ w nm, k ≠ .bf w nm := by
      intro w nm h; subst h; simp [Mems.noBf] at hn
    have hn' : t.noBf = true ∧ r.noBf = true := by
      cases k <;> simp_all [Mems.noBf]
    obtain ⟨ih, hpos⟩ := lay_eq_noBf t hw.1.1 hn'.1
    have hal := sysvLay_align_pos t
    have hstep := member_plain_rel (k := k) hr hpos hal hk
    have hov := member_plain_overall (k := k) hr hpos hal hk
    obtain ⟨h1, h2, h3, h4⟩ := fold_eq_noBf u r _ _ hw.2 hn'.2 hstep
    have hskip : c2mAlignSkip u k = false := by
      cases k <;> simp [c2mAlignSkip] at *
    have hcontrib : sysvAlignContrib k = true := by
      cases k <;> simp [sysvAlignContrib] at *
    simp only [c2mFold, sysvFold, c2mAlignFold, sysvAlignFold, ih, hskip, hcontrib]
    refine ⟨h1, ?_, ?_, ?_⟩
    · intro a; exact h2 _
    · omega
    · intro _; omega
end

/-! ### `layout_wf` ingredients (all types, bit-fields included) -/

/-- the search loop returns a multiple of the field's alignment -/
theorem ufLoop_dvd (bf : Bool) (pO pS fs al : Nat) (bits : Option Nat) :
    ∀ (curr start bound : Nat), al ∣ start → al ∣ curr →
      al ∣ (ufLoop bf pO pS fs al bits start curr bound).1 := by
  intro curr
  induction curr using Nat.strongRecOn with
  | _ curr ih =>
    intro start bound hs hc
    unfold ufLoop
    by_cases h1 : curr < al
    · rw [if_pos h1]; exact hs
    · by_cases h2 : al = 0
      · rw [if_neg h1, if_pos h2]; exact hs
      · have hlt : curr - al < curr := by omega
        have hc' : al ∣ curr - al := Nat.dvd_sub hc (Nat.dvd_refl al)
        simp only [h1, h2, if_false]
        repeat' split
        all_goals first | exact hs | exact ih _ hlt _ _ hc' hc'

theorem ufl_offset_dvd (st : FL) (pS fs al : Nat) (bits : Option Nat) :
    al ∣ (updateFieldLayout st pS fs al bits).offset := by
  unfold updateFieldLayout
  exact ufLoop_dvd _ _ _ _ _ _ _ _ _ (Nat.dvd_mul_left _ _) (Nat.dvd_mul_left _ _)

theorem ufl_overall (st : FL) (pS fs al : Nat) (bits : Option Nat) :
    st.overall ≤ (updateFieldLayout st pS fs al bits).overall
    ∧ (updateFieldLayout st pS fs al bits).offset + fs ≤ (updateFieldLayout st pS fs al bits).overall := by
  unfold updateFieldLayout
  simp only
  repeat' split
  all_goals omega

theorem c2mLay_size_dvd : ∀ t : CTy, (c2mLay t).align ∣ (c2mLay t).size
  | .sc s => by simp [c2mLay, c2mBasicAlign]
  | .arr n t => by
    simp [c2mLay]
    rw [roundSize_eq_roundUp (c2mLay_align_pos t)]
    exact roundUp_dvd _ _
  | .agg u ms => by
    have h := c2mLay_align_pos (.agg u ms)
    simp [c2mLay] at h ⊢
    rw [roundSize_eq_roundUp h]
    exact roundUp_dvd _ _

/-- arrays have no padding between (or after) the elements -/
theorem c2mLay_arr_size (n : Nat) (t : CTy) : (c2mLay (.arr n t)).size = n * (c2mLay t).size := by
  have hal := c2mLay_align_pos t
  obtain ⟨q, hq⟩ := c2mLay_size_dvd t
  simp [c2mLay]
  rw [roundSize_eq_roundUp hal]
  have : (c2mLay t).size * n = (q * n) * (c2mLay t).align := by
    rw [hq, Nat.mul_comm (c2mLay t).align q, Nat.mul_assoc, Nat.mul_assoc, Nat.mul_comm n]
  rw [this, roundUp_of_mul _ _ hal, ← this, Nat.mul_comm]

/-- every `decl->offset` is a multiple of the alignment of the member's type -/
def unitsAligned : Mems → List Place → Bool
  | .cons _ t r, p :: ps => (p.unit % (c2mLay t).align == 0) && unitsAligned r ps
  | .nil, [] => true
  | _, _ => false

/-- every member (also a bit-field's storage unit) lies inside the object -/
def unitsInside (size : Nat) : Mems → List Place → Bool
  | .cons _ t r, p :: ps => decide (p.unit + (c2mLay t).size ≤ size) && unitsInside size r ps
  | _, _ => true

theorem unitsInside_mono {s1 s2 : Nat} (h : s1 ≤ s2) : ∀ ms ps, unitsInside s1 ms ps = true →
    unitsInside s2 ms ps = true
  | .nil, _, _ => by simp [unitsInside]
  | .cons _ t r, [], _ => by simp [unitsInside]
  | .cons _ t r, p :: ps, hh => by
    simp [unitsInside] at hh ⊢
    exact ⟨by omega, unitsInside_mono h r ps hh.2⟩

theorem c2mMember_out (u : Bool) (c : MSt) (k : MK) (sz al : Nat) (hsz : 0 < sz) :
    ∃ p : Place, (c2mMember u c k sz al).out = c.out ++ [p] ∧ al ∣ p.unit
      ∧ p.unit + sz ≤ (c2mMember u c k sz al).overall
      ∧ c.overall ≤ (c2mMember u c k sz al).overall := by
  have hsz' : sz ≠ 0 := by omega
  have hd := ufl_offset_dvd ⟨c.bf, c.overall, c.offset, c.bound⟩ c.prevSize sz al k.bits
  have ho := ufl_overall ⟨c.bf, c.overall, c.offset, c.bound⟩ c.prevSize sz al k.bits
  simp only at ho
  cases u <;> cases k <;> simp only [c2mMember, hsz', if_false, if_true] <;>
    exact ⟨_, rfl, hd, ho.2, ho.1⟩

mutual
theorem c2mLay_size_pos : ∀ t : CTy, t.wf = true → 0 < (c2mLay t).size
  | .sc s, _ => by simp [c2mLay, c2mBasicSize_eq, Sc.size_pos]
  | .arr n t, hw => by
    simp [CTy.wf] at hw
    rw [c2mLay_arr_size]
    exact Nat.mul_pos hw.1 (c2mLay_size_pos t hw.2)
  | .agg u ms, hw => by
    simp [CTy.wf] at hw
    have hms : ms ≠ .nil := by
      intro h; subst h; simp [Mems.nonempty] at hw
    obtain ⟨l, _, _, _, h4, _⟩ := c2mFold_out u ms {} hw.2
    have hal := c2mLay_align_pos (.agg u ms)
    simp [c2mLay] at hal ⊢
    rw [roundSize_eq_roundUp hal]
    have := roundUp_ge (x := (c2mFold u ms {}).overall) hal
    have := h4 hms
    omega
/-- what the member loop appends: one place per member, aligned, inside `overall_size` -/
theorem c2mFold_out : ∀ (u : Bool) (ms : Mems) (c : MSt), ms.wf = true →
    ∃ l, (c2mFold u ms c).out = c.out ++ l ∧ unitsAligned ms l = true
      ∧ unitsInside (c2mFold u ms c).overall ms l = true
      ∧ (ms ≠ .nil → 0 < (c2mFold u ms c).overall) ∧ c.overall ≤ (c2mFold u ms c).overall
  | u, .nil, c, _ => ⟨[], by simp [c2mFold, unitsAligned, unitsInside]⟩
  | u, .cons k t r, c, hw => by
    simp [Mems.wf] at hw
    have hpos := c2mLay_size_pos t hw.1.1
    obtain ⟨p, hp1, hp2, hp3, hp4⟩ := c2mMember_out u c k _ (c2mLay t).align hpos
    obtain ⟨l, hl1, hl2, hl3, _, hl5⟩ := c2mFold_out u r (c2mMember u c k (c2mLay t).size (c2mLay t).align) hw.2
    refine ⟨p :: l, ?_, ?_, ?_, ?_, ?_⟩
    · simp [c2mFold, hl1, hp1]
    · simp [unitsAligned, hl2]
      exact Nat.mod_eq_zero_of_dvd hp2
    · simp only [c2mFold, unitsInside]
      simp [hl3]
      apply decide_eq_true
      omega
    · intro _; simp only [c2mFold]; omega
    · simp only [c2mFold]; omega
end

/-! ### struct members are ordered and disjoint (declarations without bit-fields) -/

/-- places are in increasing order, pairwise disjoint, inside `[lo, hi)` (bit positions) -/
def orderedUpTo : Nat → List Place → Nat → Bool
  | lo, [], hi => decide (lo ≤ hi)
  | lo, p :: ps, hi => decide (lo ≤ p.bitpos) && orderedUpTo (p.bitpos + p.nbits) ps hi

theorem orderedUpTo_append {hi hi' : Nat} {p : Place} (h1 : hi ≤ p.bitpos)
    (h2 : p.bitpos + p.nbits ≤ hi') : ∀ (l : List Place) (lo : Nat),
    orderedUpTo lo l hi = true → orderedUpTo lo (l ++ [p]) hi' = true := by
  intro l
  induction l with
  | nil =>
    intro lo h
    simp [orderedUpTo] at h ⊢
    omega
  | cons q qs ih =>
    intro lo h
    simp [orderedUpTo] at h ⊢
    exact ⟨h.1, ih _ h.2⟩

theorem orderedUpTo_mono {hi hi' : Nat} (hh : hi ≤ hi') : ∀ (l : List Place) (lo : Nat),
    orderedUpTo lo l hi = true → orderedUpTo lo l hi' = true := by
  intro l
  induction l with
  | nil => intro lo h; simp [orderedUpTo] at h ⊢; omega
  | cons q qs ih => intro lo h; simp [orderedUpTo] at h ⊢; exact ⟨h.1, ih _ h.2⟩

/-- the specification places the members of any struct (bit-fields included) in increasing,
pairwise disjoint positions -/
theorem sysvFold_ordered : ∀ (ms : Mems) (s : SSt),
    orderedUpTo 0 s.out s.bitpos = true →
    orderedUpTo 0 (sysvFold false ms s).out (sysvFold false ms s).bitpos = true
  | .nil, s, h => by simpa [sysvFold] using h
  | .cons k t r, s, h => by
    have hal := sysvLay_align_pos t
    simp only [sysvFold]
    apply sysvFold_ordered r _
    have hge := roundUp_ge (x := (s.bitpos + 7) / 8) hal
    have hge2 := roundUp_ge (x := s.bitpos) (show 0 < 8 * (sysvLay t).align by omega)
    cases k with
    | bf w nm =>
      simp only [sysvMember, if_false, Bool.false_eq_true]
      split
      · exact orderedUpTo_append (by simp; omega) (by simp) _ _ h
      · split
        · exact orderedUpTo_append (by simp; omega) (by simp) _ _ h
        · exact orderedUpTo_append (by simp) (by simp) _ _ h
    | plain =>
      simp only [sysvMember, if_false, Bool.false_eq_true]
      exact orderedUpTo_append (by simp; omega) (by simp; omega) _ _ h
    | anon =>
      simp only [sysvMember, if_false, Bool.false_eq_true]
      exact orderedUpTo_append (by simp; omega) (by simp; omega) _ _ h

/-- psABI struct: members in declaration order, pairwise disjoint, inside the object -/
theorem sysvLay_struct_ordered (ms : Mems) :
    orderedUpTo 0 (sysvLay (.agg false ms)).mems (8 * (sysvLay (.agg false ms)).size) = true := by
  have h := sysvFold_ordered ms {} (by simp [orderedUpTo])
  simp only [sysvLay]
  apply orderedUpTo_mono _ _ _ h
  have := roundUp_ge (x := ((sysvFold false ms {}).bitpos + 7) / 8) (le_sysvAlignFold ms 1)
  omega

/-- the enum rule: c2mir accepts exactly the enumerator ranges the platform compiler accepts, and
gives the enumerated type the same underlying type (size and signedness) -/
theorem enumBase_eq (mn mx : Int) (h0 : mn ≤ 0) (h1 : 0 ≤ mx)
    (hmn : -9223372036854775808 ≤ mn) (hmx : mx ≤ 18446744073709551615) :
    c2mEnumOk mn mx = gccEnumOk mn mx
    ∧ (gccEnumOk mn mx = true → c2mEnumBase mn mx = gccEnumBase mn mx) := by
  refine ⟨rfl, ?_⟩
  intro hok
  simp only [gccEnumOk, Bool.not_eq_true', Bool.and_eq_false_iff, decide_eq_false_iff_not] at hok
  unfold c2mEnumBase gccEnumBase
  repeat' split
  all_goals first
    | rfl
    | omega

end MirVerif.Layout
