import MirVerif.Lemmas.TextIOLexWord
/-! # C10 — decimal integers written by the writer are read back (incl. `strtoul` wrap-around) -/
namespace TextIO

theorem stagePrefix_zero {d : Char} (hd : isDelim d = true) (rest : List Char) :
    stagePrefix '0' (d :: rest) = .ok ([], 8, '0', d :: rest) := by
  have hdc := isDelim_cases hd
  have hstop := delim_stops_number hd
  have hx : d ≠ 'x' := by intro h; subst h; simp at hdc
  have hX : d ≠ 'X' := by intro h; subst h; simp at hdc
  have hg := getc_of_ok ⟨hstop.1, hstop.2.1⟩ rest
  simp [stagePrefix, hg, hx, hX]

theorem stagePrefix_nonzero {c : Char} (hc : isDigit c = true) (h0 : c ≠ '0') (cs : List Char) :
    stagePrefix c cs = .ok ([], 10, c, cs) := by
  have hcd := isDigit_iff.mp hc
  have hm : c ≠ '-' := by intro h; subst h; simp at hcd
  have hp : c ≠ '+' := by intro h; subst h; simp at hcd
  simp [stagePrefix, hm, hp, h0]

theorem stagePrefix_neg {c : Char} (h0 : c ≠ '0') (cs : List Char) :
    stagePrefix '-' (c :: cs) = .ok (['-'], 10, c, cs) := by
  simp [stagePrefix, h0]

/-- `scan_number` on a decimal digit run followed by a delimiter -/
theorem scanNumber_int {c0 : Char} {cs0 : List Char} {sign : Str} {base : Nat} {ch : Char} {tl : List Char}
    {d : Char} {rest : List Char} (hb : (base == 16) = false)
    (hp : stagePrefix c0 cs0 = .ok (sign, base, ch, tl ++ d :: rest))
    (hch : isDigit ch = true) (htl : ∀ x ∈ tl, isDigit x = true) (hd : isDelim d = true) :
    scanNumber c0 cs0 = .ok ⟨sign ++ ch :: tl, base, false, false, false, d :: rest⟩ := by
  have hnl := numLoop_digits ch hch tl htl d (delim_stops_number hd) rest
  have e := hnl.2
  rw [Prod.ext_iff] at e
  simp only at e
  simp only [scanNumber, hp, hb, hnl.1, e.1, e.2, stages_int base (sign ++ ch :: tl) hd rest]

/-- unsigned decimal numeral -/
theorem wordOK_nat {n : Nat} (hn : n < 2 ^ 64) : WordOK (natDec n) (.int (BitVec.ofNat 64 n)) := by
  intro d rest hd
  obtain ⟨c, tl, hc, h0, hdig⟩ := natDec_head n
  have hall := natDec_all_digits n
  rw [hc] at hall
  have htl : ∀ x ∈ tl, isDigit x = true := fun x hx => hall x (List.mem_cons_of_mem _ hx)
  rw [hc]
  simp only [List.cons_append, lexOne, charClass_digit hdig]
  have hacc : accDigits 10 (c :: tl) 0 = n := by rw [← hc]; exact accDigits_natDec n
  by_cases hz : c.toNat = 48
  · -- the numeral "0": octal prefix path
    obtain ⟨hn0, ht⟩ := h0 hz
    subst ht
    have hc0 : c = '0' := char_eq_of_toNat (by simpa using hz)
    subst hc0
    have hsn := scanNumber_int (tl := []) (by decide) (stagePrefix_zero hd rest) (by decide) (by simp) hd
    simp only [List.nil_append] at hsn ⊢
    rw [lexNumber_int hsn rfl rfl rfl]
    simp [strtoul, strtoulSign, hn0, validDigit, isXDigit, isDigit, digitValue, accDigits]
  · have hne0 : c ≠ '0' := by intro h; subst h; simp at hz
    have hsn := scanNumber_int (by decide) (stagePrefix_nonzero hdig hne0 (tl ++ d :: rest)) hdig htl hd
    rw [lexNumber_int hsn rfl rfl rfl]
    simp only [List.nil_append, strtoul_digits10 hdig htl, hacc]
    have : ¬ n ≥ 2 ^ 64 := by omega
    simp [this]

/-- negative decimal numeral: `strtoul` wraps the magnitude around -/
theorem wordOK_neg {m : Nat} (h1 : 1 ≤ m) (h2 : m ≤ 2 ^ 63) :
    WordOK ('-' :: natDec m) (.int (BitVec.ofNat 64 (2 ^ 64 - m))) := by
  intro d rest hd
  obtain ⟨c, tl, hc, h0, hdig⟩ := natDec_head m
  have hall := natDec_all_digits m
  rw [hc] at hall
  have htl : ∀ x ∈ tl, isDigit x = true := fun x hx => hall x (List.mem_cons_of_mem _ hx)
  have hcd := isDigit_iff.mp hdig
  rw [hc]
  have hacc : accDigits 10 (c :: tl) 0 = m := by rw [← hc]; exact accDigits_natDec m
  have hz : c.toNat ≠ 48 := by intro hz; have := (h0 hz).1; omega
  have hne0 : c ≠ '0' := by intro h; subst h; simp at hz
  have hg : getc (c :: (tl ++ d :: rest)) = (some c, tl ++ d :: rest) := getc_of_ok ⟨by omega, by omega⟩ _
  have hcm : charClass '-' = .sign := charClass_minus (by decide)
  simp only [List.cons_append, lexOne, hcm, hg, hdig, if_true]
  have hsn := scanNumber_int (by decide) (stagePrefix_neg hne0 (tl ++ d :: rest)) hdig htl hd
  rw [lexNumber_int hsn rfl rfl rfl]
  simp only [List.singleton_append, strtoul_neg_digits10 hdig htl, hacc]
  have : ¬ m ≥ 2 ^ 64 := by omega
  simp [this]

theorem wordOK_i64 (v : BitVec 64) : WordOK (printI64 v) (.int v) := by
  unfold printI64
  have hv := v.isLt
  split
  · have := wordOK_nat (n := v.toNat) hv
    simpa using this
  · rename_i h
    have := wordOK_neg (m := 2 ^ 64 - v.toNat) (by omega) (by omega)
    have he : 2 ^ 64 - (2 ^ 64 - v.toNat) = v.toNat := by omega
    simpa [he] using this

theorem wordOK_u64 (v : BitVec 64) : WordOK (printU64 v) (.int v) := by
  have := wordOK_nat (n := v.toNat) v.isLt
  simpa [printU64] using this

theorem wordOK_signedBits {w : Nat} (hw1 : 1 ≤ w) (hw : w ≤ 64) (v : Nat) :
    WordOK (printSignedBits w v) (.int (sextBits w v)) := by
  unfold printSignedBits sextBits
  have hx : v % 2 ^ w < 2 ^ w := Nat.mod_lt _ (Nat.two_pow_pos w)
  have hpw : 2 ^ w ≤ 2 ^ 64 := Nat.pow_le_pow_right (by omega) hw
  have hhalf : 2 ^ (w - 1) * 2 = 2 ^ w := by
    rw [← Nat.pow_succ]; congr 1; omega
  have hh63 : 2 ^ (w - 1) ≤ 2 ^ 63 := Nat.pow_le_pow_right (by omega) (by omega)
  simp only
  split
  · exact wordOK_nat (by omega)
  · exact wordOK_neg (by omega) (by omega)

end TextIO
