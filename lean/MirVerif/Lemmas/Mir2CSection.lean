import MirVerif.Model.Mir2CSection
/-! C20 — termination of the data-section printer: the fixed loop always ends, today's loop ends
exactly when no anonymous data item follows the section head. -/
namespace MirVerif.Mir2C

theorem inner_none_some (fixed : Bool) (items : List Item) (i fuel : Nat) (acc : List Nat) :
    (inner fixed items i (fuel + 1) none acc).isSome := by
  simp [inner]

/-- the fixed inner loop ends within `items.length - c + 1` steps -/
theorem inner_fixed_some (items : List Item) (i : Nat) :
    ∀ (fuel c : Nat) (acc : List Nat), items.length - c < fuel →
      (inner true items i fuel (some c) acc).isSome
  | 0, _, _, h => by omega
  | fuel + 1, c, acc, h => by
    unfold inner
    cases hit : items[c]? with
    | none => simp
    | some it =>
      have hc : c < items.length := by
        rcases List.getElem?_eq_some_iff.mp hit with ⟨hc, _⟩; exact hc
      simp only
      split
      · simp
      · cases it.kind <;> simp only [Option.isSome_some, if_true]
        all_goals
          unfold nextItem
          split
          · exact inner_fixed_some items i fuel (c + 1) _ (by omega)
          · cases fuel with
            | zero => omega
            | succ f => exact inner_none_some _ _ _ _ _

theorem printSection_fixed_some (items : List Item) (i : Nat) :
    (printSection true items i (items.length + 1)).isSome := by
  unfold printSection
  cases hit : items[i]? with
  | none => simp
  | some it =>
    simp only
    split
    · simp
    · have h := inner_fixed_some items i (items.length + 1) i [] (by omega)
      cases hr : inner true items i (items.length + 1) (some i) [] with
      | none => rw [hr] at h; cases h
      | some r =>
        obtain ⟨m0, e0⟩ := r
        simp only
        split <;> simp

theorem seqOptSome {α} : ∀ (l : List (Option α)), (∀ o ∈ l, o.isSome = true) → (seqOpt l).isSome = true
  | [], _ => rfl
  | none :: _, h => by have := h none (by simp); cases this
  | some a :: t, h => by
    have ih := seqOptSome t (fun o ho => h o (by simp [ho]))
    simp only [seqOpt]
    cases hs : seqOpt t with
    | none => rw [hs] at ih; cases ih
    | some v => rfl

theorem printModule_fixed_some (items : List Item) :
    (printModule true items (items.length + 1)).isSome := by
  unfold printModule
  apply seqOptSome
  intro o ho
  rcases List.mem_map.mp ho with ⟨i, _, rfl⟩
  cases items[i]? with
  | none => rfl
  | some it =>
    simp only
    split
    · exact printSection_fixed_some items i
    · rfl

/-! ### today's loop (`fixed = false`) -/

/-- once the loop has reached an anonymous data item right after the head it stays there -/
theorem inner_today_stuck (items : List Item) (i : Nat) (it : Item)
    (hit : items[i + 1]? = some it) (hn : it.named = false)
    (hk : it.kind ≠ .other ∧ it.kind ≠ .exprData) :
    ∀ (fuel : Nat) (acc : List Nat), inner false items i fuel (some (i + 1)) acc = none
  | 0, _ => rfl
  | fuel + 1, acc => by
    have hlt : i + 1 < items.length := by
      rcases List.getElem?_eq_some_iff.mp hit with ⟨hc, _⟩; exact hc
    unfold inner
    rw [hit]
    simp only [hn, Bool.false_and, Bool.false_eq_true, if_false]
    have hnext : nextItem items i = some (i + 1) := by simp [nextItem, hlt]
    rcases hk with ⟨h1, h2⟩
    cases hkind : it.kind <;> simp_all only [ne_eq, not_true_eq_false] <;>
      exact inner_today_stuck items i it hit hn ⟨by simp [hkind], by simp [hkind]⟩ fuel _

theorem printSection_today_none (items : List Item) (i : Nat) (hd it : Item)
    (hhd : items[i]? = some hd) (hnamed : hd.named = true)
    (hkd : hd.kind ≠ .other ∧ hd.kind ≠ .exprData)
    (hit : items[i + 1]? = some it) (hn : it.named = false)
    (hk : it.kind ≠ .other ∧ it.kind ≠ .exprData) (fuel : Nat) :
    printSection false items i fuel = none := by
  have hlt : i + 1 < items.length := by
    rcases List.getElem?_eq_some_iff.mp hit with ⟨hc, _⟩; exact hc
  have hnext : nextItem items i = some (i + 1) := by simp [nextItem, hlt]
  have key : inner false items i fuel (some i) [] = none := by
    cases fuel with
    | zero => rfl
    | succ f =>
      unfold inner
      rw [hhd]
      simp only [bne_self_eq_false, Bool.and_false, Bool.false_eq_true, if_false]
      rcases hkd with ⟨h1, h2⟩
      cases hkind : hd.kind <;> simp_all only [ne_eq, not_true_eq_false] <;>
        exact inner_today_stuck items i it hit hn hk f _
  unfold printSection
  rw [hhd]
  simp only [hnamed, Bool.not_true, Bool.false_eq_true, if_false, key]

/-- under `noAnonFollower` today's loop ends after at most two steps per pass -/
theorem printSection_today_some (items : List Item) (i : Nat) (h : noAnonFollower items i = true) :
    (printSection false items i 3).isSome := by
  unfold printSection
  cases hhd : items[i]? with
  | none => simp
  | some hd =>
    simp only
    split
    · simp
    · have key : ∃ r, inner false items i 3 (some i) [] = some r := by
        unfold inner
        rw [hhd]
        simp only [bne_self_eq_false, Bool.and_false, Bool.false_eq_true, if_false]
        unfold noAnonFollower at h
        have step : ∀ acc, ∃ r, inner false items i 2 (nextItem items i) acc = some r := by
          intro acc
          unfold nextItem
          split
          · next hlt =>
            unfold inner
            cases hit : items[i + 1]? with
            | none => exact ⟨_, rfl⟩
            | some it =>
              rw [hit] at h
              simp only
              by_cases hnm : it.named = true
              · have : (it.named && (i + 1 != i)) = true := by simp [hnm]
                rw [if_pos this]; exact ⟨_, rfl⟩
              · have hnm' : it.named = false := by simpa using hnm
                have : (it.named && (i + 1 != i)) = false := by simp [hnm']
                rw [this]
                simp only [Bool.false_eq_true, if_false]
                simp only [hnm', Bool.false_or, Bool.or_eq_true, beq_iff_eq] at h
                rcases h with h | h <;> rw [h] <;> exact ⟨_, rfl⟩
          · exact ⟨_, rfl⟩
        cases hd.kind
        · exact step _
        · exact step _
        · exact ⟨_, rfl⟩
        · exact step _
        · exact ⟨_, rfl⟩
      obtain ⟨⟨m0, e0⟩, hr⟩ := key
      rw [hr]
      simp only
      split <;> simp

end MirVerif.Mir2C
