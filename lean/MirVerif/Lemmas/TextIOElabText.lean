import MirVerif.Lemmas.TextIOElabItems
/-! # C10 — elaboration of item lists, modules and whole texts; `WF` implies the lexical and
parse-level conditions -/
namespace TextIO

theorem elab_items {D : List Module} {mn : Str} (items : List Item) :
    ∀ (st : St) (prev : List Item) (tab : List TabEnt) (li k0 k k' : Nat) (defs : List Nat),
      AtItem st D mn (prev.map normItem) tab li → k0 ≤ k → LabInv st.labels k0 k defs → st.nlab = k →
      itemsOK ⟨tab, li⟩ prev items = true →
      canonLabels k0 k (items.flatMap itemLabels) = some k' →
      noDup (defs ++ items.flatMap itemDefs) = true →
      ∃ st', elabStmts st (items.flatMap stmtsOfItem) = .ok st' ∧
        AtItem st' D mn ((prev ++ items).map normItem) (itemsLast ⟨tab, li⟩ items).tab
          (itemsLast ⟨tab, li⟩ items).lastInsn ∧
        LabInv st'.labels k0 k' (defs ++ items.flatMap itemDefs) ∧ st'.nlab = k' ∧ k0 ≤ k' := by
  induction items with
  | nil =>
    intro st prev tab li k0 k k' defs hat hk0 hinv hn _ hcan _
    simp only [List.flatMap_nil, canonLabels, Option.some.injEq] at hcan
    subst hcan
    exact ⟨st, rfl, by simpa [itemsLast] using hat, by simpa using hinv, hn, hk0⟩
  | cons it rest ih =>
    intro st prev tab li k0 k k' defs hat hk0 hinv hn hok hcan hnd
    simp only [itemsOK, Bool.and_eq_true] at hok
    obtain ⟨hok1, hok2⟩ := hok
    have hcan' : canonLabels k0 k (itemLabels it ++ rest.flatMap itemLabels) = some k' := by
      simpa [List.flatMap_cons] using hcan
    obtain ⟨k1, hc1, hc2⟩ := canonLabels_append_some hcan'
    have hnd' : noDup ((defs ++ itemDefs it) ++ rest.flatMap itemDefs) = true := by
      simpa [List.flatMap_cons, List.append_assoc] using hnd
    obtain ⟨hnd1, _, _⟩ := noDup_append hnd'
    obtain ⟨st1, h1, hat1, hinv1, hn1, hk1⟩ := elab_item hat hk0 hinv hn it hok1 hc1 hnd1
    have heta : (⟨(stepW ⟨tab, li⟩ it).tab, (stepW ⟨tab, li⟩ it).lastInsn⟩ : WSt) = stepW ⟨tab, li⟩ it := rfl
    obtain ⟨st', h2, hat2, hinv2, hn2, hk2⟩ := ih st1 (prev ++ [it]) _ _ k0 k1 k' (defs ++ itemDefs it) hat1 hk1 hinv1 hn1
      (by rw [heta]; exact hok2) hc2 hnd'
    refine ⟨st', ?_, ?_, ?_, hn2, hk2⟩
    · simp only [List.flatMap_cons, elabStmts_append, h1, h2]
    · simpa [itemsLast, List.append_assoc] using hat2
    · simpa [List.flatMap_cons, List.append_assoc] using hinv2

/-- scanner state between two modules -/
structure AtTop (st : St) (done : List Module) (k li : Nat) : Prop where
  done : st.done = done
  cur : st.cur = none
  func : st.func = none
  nlab : st.nlab = k
  li : st.lastInsn = li

theorem elab_module {st : St} {D : List Module} {k li k' : Nat} (htop : AtTop st D k li) (m : Module)
    (hitems : itemsOK ⟨[], li⟩ [] m.items = true) (hnd : noDup (m.items.flatMap itemDefs) = true)
    (hcan : canonLabels k k (moduleLabels m) = some k') :
    ∃ st', elabStmts st (stmtsOfModule m) = .ok st' ∧
      AtTop st' (D ++ [normModule m]) k' (itemsLast ⟨[], li⟩ m.items).lastInsn := by
  -- `module`
  let st1 : St := { st with cur := some ⟨m.name, []⟩, tab := [], labels := [] }
  have h1 : elabStmt st ⟨[m.name], .module, [], false⟩ = .ok st1 := by
    simp [elabStmt, elabOps, htop.cur, st1]
  have hat1 : AtItem st1 D m.name (([] : List Item).map normItem) [] li :=
    ⟨htop.done, rfl, rfl, htop.func, htop.li⟩
  obtain ⟨st2, h2, hat2, _, hn2, _⟩ := elab_items (D := D) (mn := m.name) m.items st1 [] [] li k k k' [] hat1 (Nat.le_refl _)
    (LabInv.empty k) htop.nlab hitems hcan (by simpa using hnd)
  -- `endmodule`
  have h3 : elabStmt st2 ⟨[], .endmodule, [], false⟩
      = .ok { st2 with done := st2.done ++ [⟨m.name, m.items.map normItem⟩], cur := none, tab := [] } := by
    simp [elabStmt, elabOps, hat2.cur, hat2.func]
  refine ⟨{ st2 with done := st2.done ++ [⟨m.name, m.items.map normItem⟩], cur := none, tab := [] }, ?_,
    ⟨?_, rfl, hat2.func, hn2, hat2.li⟩⟩
  · simp only [stmtsOfModule, elabStmts_append, elabStmts_cons, elabStmts_nil, h1]
    have : elabStmts st1 (m.items.flatMap stmtsOfItem) = .ok st2 := h2
    simp only [this, h3]
  · simp [hat2.done, normModule]

theorem elab_modules (ms : List Module) :
    ∀ (st : St) (D : List Module) (k li : Nat), AtTop st D k li → modulesOK k li ms = true →
      ∃ st' k' li', elabStmts st (ms.flatMap stmtsOfModule) = .ok st' ∧ AtTop st' (D ++ ms.map normModule) k' li' := by
  induction ms with
  | nil => intro st D k li htop _; exact ⟨st, k, li, rfl, by simpa using htop⟩
  | cons m rest ih =>
    intro st D k li htop hok
    simp only [modulesOK, Bool.and_eq_true] at hok
    obtain ⟨⟨⟨_, hitems⟩, hnd⟩, hrest⟩ := hok
    cases hc : canonLabels k k (moduleLabels m) with
    | none => simp [hc] at hrest
    | some k1 =>
      simp only [hc] at hrest
      obtain ⟨st1, h1, htop1⟩ := elab_module htop m hitems hnd hc
      obtain ⟨st', k', li', h2, htop2⟩ := ih st1 _ _ _ htop1 hrest
      refine ⟨st', k', li', ?_, by simpa [List.append_assoc] using htop2⟩
      simp only [List.flatMap_cons, elabStmts_append, h1, h2]

/-- **elaboration round trip** -/
theorem elab_text (ms : List Module) (h : WF ms = true) :
    ∃ st, elabStmts {} (stmtsText ms) = .ok st ∧ finishScan st = .ok (normText ms) := by
  have htop : AtTop ({} : St) [] 0 insnTable.length := ⟨rfl, rfl, rfl, rfl, rfl⟩
  obtain ⟨st, k', li', h1, htop'⟩ := elab_modules ms {} [] 0 insnTable.length htop h
  refine ⟨st, h1, ?_⟩
  simp [finishScan, htop'.func, htop'.cur, htop'.done, normText]

/-! ## `WF` implies the lexical and parse-level conditions -/

theorem optNameOK_of {n : Option Str} (h : match n with | some b => nameOK b && true | none => true) :
    optNameOK n = true := by
  cases n <;> simp_all [optNameOK]

theorem lexOp_of_opOK {regs : List Str} {tab : List TabEnt} {c idx : Nat} {o : Op}
    (h : opOK regs tab c idx o = true) : lexOp o = true := by
  simp only [opOK, Bool.and_eq_true] at h
  obtain ⟨_, hk⟩ := h
  cases o with
  | reg n => simp only [Bool.and_eq_true] at hk; exact hk.1
  | int v => rfl
  | uint v => rfl
  | flt b => exact hk
  | dbl b => exact hk
  | ldbl b => exact hk
  | mem m =>
    simp only [memOK, Bool.and_eq_true] at hk
    obtain ⟨⟨⟨hb, hi⟩, ha⟩, hn⟩ := hk
    simp only [lexOp, lexMem, Bool.and_eq_true]
    refine ⟨⟨⟨?_, ?_⟩, ha⟩, hn⟩
    · cases hbb : m.base with
      | none => rfl
      | some b => rw [hbb] at hb; simp only [Bool.and_eq_true] at hb; exact hb.1
    · cases hii : m.index with
      | none => rfl
      | some i => rw [hii] at hi; simp only [Bool.and_eq_true] at hi; exact hi.1
  | ref n => simp only [Bool.and_eq_true] at hk; exact hk.1.1
  | str s => simp only [strOK, Bool.and_eq_true] at hk; exact hk.1
  | label l => rfl

theorem lexOps_of_opsOK {regs : List Str} {tab : List TabEnt} {c : Nat} (ops : List Op) :
    ∀ idx, opsOK regs tab c ops idx = true → ops.all lexOp = true := by
  induction ops with
  | nil => intro _ _; rfl
  | cons o os ih =>
    intro idx h
    simp only [opsOK, Bool.and_eq_true] at h
    simp only [List.all_cons, Bool.and_eq_true]
    exact ⟨lexOp_of_opOK h.1, ih _ h.2⟩

theorem lex_p_FItem {regs : List Str} {tab : List TabEnt} {i : FItem} (h : fitemOK regs tab i = true) :
    lexFItem i = true ∧ pFItem i = true := by
  cases i with
  | label l => exact ⟨rfl, rfl⟩
  | insn c ops =>
    simp only [fitemOK, Bool.and_eq_true] at h
    obtain ⟨⟨hc, _⟩, hops⟩ := h
    refine ⟨?_, hc⟩
    have hc' := hc
    simp only [codeOK, Bool.and_eq_true, decide_eq_true_eq] at hc'
    simp only [lexFItem, Bool.and_eq_true, decide_eq_true_eq]
    exact ⟨⟨hc'.1.1.1.1.1, hc'.2⟩, lexOps_of_opsOK ops 0 hops⟩

theorem lex_p_Var {v : Var} (h : varOK v = true) : lexVar v = true ∧ pVar v = true := by
  simp only [varOK, Bool.and_eq_true, Bool.or_eq_true, Bool.not_eq_true', decide_eq_true_eq] at h
  simp only [lexVar, pVar, Bool.and_eq_true, Bool.or_eq_true, Bool.not_eq_true', decide_eq_true_eq]
  refine ⟨⟨h.1, ?_⟩, h.2⟩
  rcases h.2 with h2 | h2
  · exact Or.inl h2
  · exact Or.inr (by omega)

theorem lex_p_Func {tab : List TabEnt} {f : Func} (h : funcOK tab f = true) : lexFunc f = true ∧ pFunc f = true := by
  simp only [funcOK, Bool.and_eq_true, List.all_eq_true] at h
  obtain ⟨⟨⟨⟨⟨⟨⟨⟨⟨⟨hn, _⟩, hargs⟩, _⟩, hloc⟩, hglob⟩, _⟩, _⟩, _⟩, hbody⟩, _⟩ := h
  constructor
  · simp only [lexFunc, Bool.and_eq_true, List.all_eq_true]
    refine ⟨⟨⟨⟨hn, fun v hv => (lex_p_Var (hargs v hv)).1⟩, fun v hv => ?_⟩, fun v hv => ?_⟩,
      fun i hi => (lex_p_FItem (hbody i hi)).1⟩
    · exact (hloc v hv).2
    · have := hglob v hv; simp [this.1.2, this.2]
  · simp only [pFunc, Bool.and_eq_true, List.all_eq_true]
    refine ⟨⟨⟨fun v hv => (lex_p_Var (hargs v hv)).2, fun v hv => ?_⟩, fun v hv => ?_⟩,
      fun i hi => (lex_p_FItem (hbody i hi)).2⟩
    · exact (hloc v hv).1
    · exact (hglob v hv).1.1

theorem lex_p_Item {w : WSt} {prev : List Item} {it : Item} (h : itemOK w prev it = true) :
    lexItem it = true ∧ pItem it = true := by
  unfold itemOK at h
  simp only [Bool.and_eq_true] at h
  obtain ⟨hname, h⟩ := h
  cases hd : declare w.tab it with
  | none => simp [hd] at h
  | some tab' =>
    simp only [hd] at h
    cases it with
    | «export» n => exact ⟨hname, rfl⟩
    | «import» n => exact ⟨hname, rfl⟩
    | forward n => exact ⟨hname, rfl⟩
    | bss name len => exact ⟨hname, rfl⟩
    | lref name l1 l2 disp => exact ⟨hname, rfl⟩
    | ref name r disp =>
      simp only [Bool.and_eq_true] at h
      exact ⟨by simp only [lexItem, Bool.and_eq_true]; exact ⟨hname, h.1⟩, rfl⟩
    | expr name fn =>
      simp only [Bool.and_eq_true] at h
      exact ⟨by simp only [lexItem, Bool.and_eq_true]; exact ⟨hname, h.1.1⟩, rfl⟩
    | proto name res args va =>
      simp only [Bool.and_eq_true, List.all_eq_true] at h
      refine ⟨?_, ?_⟩
      · simp only [lexItem, Bool.and_eq_true, List.all_eq_true]
        exact ⟨hname, fun v hv => (lex_p_Var (h.2 v hv)).1⟩
      · simp only [pItem, List.all_eq_true]
        exact fun v hv => (lex_p_Var (h.2 v hv)).2
    | func f =>
      have := lex_p_Func (tab := tab') (f := f) (by simpa using h)
      exact ⟨this.1, this.2⟩
    | data name ty els =>
      simp only [dataOK, Bool.and_eq_true, Bool.not_eq_true'] at h
      obtain ⟨hb, hfl⟩ := h
      refine ⟨?_, by simp [pItem, hb]⟩
      simp only [lexItem, Bool.and_eq_true, List.all_eq_true]
      refine ⟨hname, ?_⟩
      intro v hv
      cases ty <;> simp [Ty.isBlk] at hb <;> simp only [lexDataEl] <;>
        (try exact List.all_eq_true.mp hfl v hv)

theorem lex_p_items (items : List Item) : ∀ (w : WSt) (prev : List Item), itemsOK w prev items = true →
    items.all lexItem = true ∧ items.all pItem = true := by
  induction items with
  | nil => intro _ _ _; exact ⟨rfl, rfl⟩
  | cons it rest ih =>
    intro w prev h
    simp only [itemsOK, Bool.and_eq_true] at h
    have h1 := lex_p_Item h.1
    have h2 := ih _ _ h.2
    simp only [List.all_cons, Bool.and_eq_true]
    exact ⟨⟨h1.1, h2.1⟩, ⟨h1.2, h2.2⟩⟩

theorem lex_p_modules (ms : List Module) : ∀ (k li : Nat), modulesOK k li ms = true →
    ms.all lexModule = true ∧ ms.all pModule = true := by
  induction ms with
  | nil => intro _ _ _; exact ⟨rfl, rfl⟩
  | cons m rest ih =>
    intro k li h
    simp only [modulesOK, Bool.and_eq_true] at h
    obtain ⟨⟨⟨hn, hitems⟩, _⟩, hrest⟩ := h
    have h1 := lex_p_items m.items _ _ hitems
    cases hc : canonLabels k k (moduleLabels m) with
    | none => simp [hc] at hrest
    | some k1 =>
      simp only [hc] at hrest
      have h2 := ih _ _ hrest
      simp only [List.all_cons, Bool.and_eq_true, lexModule, pModule]
      exact ⟨⟨⟨hn, h1.1⟩, h2.1⟩, ⟨h1.2, h2.2⟩⟩

end TextIO
