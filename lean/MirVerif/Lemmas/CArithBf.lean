import MirVerif.Model.CArithBf
/-! Bit-level facts about the bit-field sequences and the induction for the block-move loop. -/
namespace MirVerif.CArith
open MirVerif

theorem getLsbD_bfMask (w i : Nat) : (bfMask w).getLsbD i = decide (i < w ∧ i < 64) := by
  simp only [bfMask, BitVec.getLsbD_ushiftRight, BitVec.getLsbD_allOnes]
  by_cases h : i < w <;> simp [h] <;> omega

/-- evaluate `decide`s and `if`s whose conditions are linear facts provable from the context -/
macro "bits_omega" : tactic => `(tactic|
  (simp (disch := omega) only [decide_eq_true, decide_eq_false, if_pos, if_neg, Bool.true_and, Bool.and_true,
     Bool.false_and, Bool.and_false, Bool.or_false, Bool.false_or, Bool.not_true, Bool.not_false, Bool.or_true,
     Bool.true_or, Bool.and_self, Nat.sub_zero, Nat.zero_add, Nat.add_zero]))

/-- after the store sequence, bit `i` of the storage unit is bit `i - off` of the value inside the
field and the old bit outside -/
theorem bfInsert_bit (sg : Bool) (u v : W64) (off w i : Nat) (hw : 1 ≤ w) (h : off + w ≤ 64) (hi : i < 64) :
    (bfInsert sg u v off w).getLsbD i
      = if off ≤ i ∧ i < off + w then v.getLsbD (i - off) else u.getLsbD i := by
  unfold bfInsert
  have e1 : 64 - w + (i - off) - (64 - w) = i - off := by omega
  have e2 : 64 - w + i - (64 - w) = i := by omega
  cases sg <;> by_cases h0 : off = 0 <;>
    simp only [h0, if_true, if_false, Bool.false_eq_true, BitVec.getLsbD_or, BitVec.getLsbD_and, BitVec.getLsbD_not,
      BitVec.getLsbD_shiftLeft, getLsbD_bfMask, BitVec.getLsbD_sshiftRight, BitVec.msb_eq_getLsbD_last, e1, e2] <;>
    by_cases h1 : off ≤ i <;> by_cases h2 : i < off + w <;>
    (try subst h0) <;> (first | (exfalso; omega) | bits_omega)

/-- the load sequence yields the field's bits, sign- or zero-extended -/
theorem bfExtract_bit (sg : Bool) (x : W64) (off w i : Nat) (hw : 1 ≤ w) (h : off + w ≤ 64) (hi : i < 64) :
    (bfExtract sg x off w).getLsbD i
      = if i < w then x.getLsbD (off + i) else (sg && x.getLsbD (off + w - 1)) := by
  unfold bfExtract
  have e1 : 64 - w + i - (64 - off - w) = off + i := by omega
  have e2 : 64 - 1 - (64 - off - w) = off + w - 1 := by omega
  cases sg <;> by_cases h0 : 64 - off - w = 0 <;>
    simp only [h0, ne_eq, not_true_eq_false, not_false_eq_true, if_true, if_false, Bool.false_eq_true, BitVec.getLsbD_ushiftRight,
      BitVec.getLsbD_shiftLeft, BitVec.getLsbD_sshiftRight, BitVec.msb_eq_getLsbD_last, e1, e2, Bool.false_and, Bool.true_and] <;>
    by_cases h1 : i < w <;>
    (first | (bits_omega; done) | (bits_omega; congr 1; omega) | (bits_omega; exact BitVec.getLsbD_of_ge _ _ (by omega)))

/-- the compile-time variant computes the same word as the emitted sequence -/
theorem addBitField_eq_bfInsert (sg : Bool) (u v : W64) (off w : Nat) :
    addBitField sg u v off w = bfInsert sg u v off w := by
  unfold addBitField bfInsert
  by_cases h0 : off = 0
  · subst h0; simp [BitVec.or_comm]
  · simp [h0, BitVec.or_comm]

/-! ## block move -/

theorem blockMoveLoop_spec (dst src : Nat) :
    ∀ (fuel index : Nat) (m : Mem), 1 ≤ index → index ≤ fuel →
      (∀ i j, i < index → j < index → dst + i ≠ src + j) →
      ∀ a, blockMoveLoop dst src fuel index m a
        = if dst ≤ a ∧ a < dst + index then m (src + (a - dst)) else m a
  | 0, index, m, h1, h2, _, a => by omega
  | fuel + 1, index, m, h1, h2, hd, a => by
    unfold blockMoveLoop
    simp only
    by_cases hgt : index - 1 > 0
    · rw [if_pos hgt]
      rw [blockMoveLoop_spec dst src fuel (index - 1) _ (by omega) (by omega)
        (fun i j hi hj => hd i j (by omega) (by omega))]
      by_cases ha : dst ≤ a ∧ a < dst + (index - 1)
      · rw [if_pos ha, if_pos ⟨ha.1, by omega⟩]
        have : src + (a - dst) ≠ dst + (index - 1) := by
          have := hd (index - 1) (a - dst) (by omega) (by omega); omega
        simp [Mem.set, this]
      · rw [if_neg ha]
        by_cases hb : a = dst + (index - 1)
        · subst hb
          rw [if_pos ⟨by omega, by omega⟩]
          simp [Mem.set]
        · have : ¬ (dst ≤ a ∧ a < dst + index) := by omega
          rw [if_neg this]; simp [Mem.set, hb]
    · rw [if_neg hgt]
      have hi1 : index = 1 := by omega
      subst hi1
      by_cases hb : a = dst
      · subst hb; simp [Mem.set]
      · have : ¬ (dst ≤ a ∧ a < dst + 1) := by omega
        rw [if_neg this]; simp [Mem.set, hb]

end MirVerif.CArith
