import MirVerif.Lemmas.Thunk
/-! The invariant behind `thunk_decodes` / `code_target_is_machine_code` (C03): it holds initially
and is preserved by every event. -/
namespace MirVerif.Thunk

/-- per-function invariant: bytes at the public address decode to the recorded target; a thunk in
state `code` leads to the machine code -/
def Consistent (s : FuncSt) : Prop :=
  ∀ a, s.addr = some a →
    thunkTarget a s.bytes = some s.to ∧ getThunkAddr s.bytes = s.to ∧ s.bytes.length = 13 ∧
    (s.kind = .code → s.machineCode = some s.to)

theorem consistent_redirectTo (s : FuncSt) (k : Kind) (to : W64) (hk : k ≠ .code) :
    Consistent (s.redirectTo k to) := by
  intro a ha
  rw [redirectTo_addr] at ha
  simp only [FuncSt.redirectTo, ha]
  exact ⟨thunkTarget_redirect a to, getThunkAddr_redirect a to, length_redirect a to, fun h => absurd h hk⟩

theorem consistent_genCode (s : FuncSt) (p : W64) : Consistent (s.genCode p) := by
  intro a ha
  rw [genCode_addr] at ha
  unfold FuncSt.genCode
  split
  · rename_i c hc
    rw [redirectTo_some s _ _ a ha]
    exact ⟨thunkTarget_redirect a c, getThunkAddr_redirect a c, length_redirect a c, fun _ => hc⟩
  · rw [redirectTo_some s _ _ a ha]
    exact ⟨thunkTarget_redirect a p, getThunkAddr_redirect a p, length_redirect a p, fun _ => rfl⟩

theorem consistent_setIface (s : FuncSt) (i : Iface) (p : W64) : Consistent (s.setIface i p) := by
  cases i
  · exact consistent_redirectTo s _ p (by decide)
  · exact consistent_genCode s p
  · exact consistent_redirectTo s _ p (by decide)
  · exact consistent_redirectTo s _ p (by decide)

theorem consistent_genBB (s : FuncSt) (p : W64) : Consistent (s.genBB p) := by
  unfold FuncSt.genBB
  split
  · next c hc =>
    intro a ha
    rw [redirectTo_addr] at ha
    rw [redirectTo_some s _ _ a ha]
    exact ⟨thunkTarget_redirect a c, getThunkAddr_redirect a c, length_redirect a c, fun _ => hc⟩
  · intro a ha
    have ha' : s.addr = some a := by simpa [redirectTo_addr] using ha
    rw [redirectTo_some s _ _ a ha']
    exact ⟨thunkTarget_redirect a p, getThunkAddr_redirect a p, length_redirect a p, fun h => by simp at h⟩

theorem consistent_load (s : FuncSt) (u fr : W64) : Consistent (s.load u fr) := by
  intro a ha
  cases hs : s.addr with
  | some b =>
    rw [load_addr_of_some s u fr b hs] at ha
    cases ha
    simp only [FuncSt.load, hs]
    rw [redirectTo_some s _ _ _ hs]
    exact ⟨thunkTarget_redirect _ u, getThunkAddr_redirect _ u, length_redirect _ u, fun h => by simp at h⟩
  | none =>
    rw [load_addr_of_none s u fr hs] at ha
    cases ha
    simp only [FuncSt.load, hs]
    rw [redirectTo_some _ _ _ _ rfl]
    exact ⟨thunkTarget_redirect _ u, getThunkAddr_redirect _ u, length_redirect _ u, fun h => by simp at h⟩

/-- the invariant does not mention the bookkeeping flags -/
theorem consistent_flags (s : FuncSt) (hs : Consistent s) (b c : Bool) :
    Consistent { s with interpData := b, pending := c } := by
  intro a ha
  exact hs a ha

theorem consistent_stepF (u : W64) (e : Event) (f : Nat) (s : FuncSt) (hs : Consistent s) :
    Consistent (stepF u e f s) := by
  cases e with
  | load fs t => simp only [stepF]; split
                 · exact consistent_load s u _
                 · exact hs
  | link i p => simp only [stepF]; split
                · have h1 := consistent_setIface { s with interpData := false } i (p f)
                  have h2 := consistent_flags _ h1 ({ s with interpData := false }.setIface i (p f)).interpData false
                  exact h2
                · exact hs
  | setIface i g p => simp only [stepF]; split
                      · exact consistent_setIface s i p
                      · exact hs
  | firstCall g p => simp only [stepF]; split
                     · split
                       · exact consistent_genCode s p
                       · exact consistent_genBB s p
                       · exact consistent_flags s hs true s.pending
                       · exact hs
                     · exact hs
  | gen g p => simp only [stepF]; split
               · exact consistent_genCode s p
               · exact hs
  | bbgen g p => simp only [stepF]; split
                 · exact consistent_genBB s p
                 · exact hs

theorem consistent_run (u : W64) (s : State) (h : List Event) (hs : ∀ f, Consistent (s f)) :
    ∀ f, Consistent (run u s h f) := by
  induction h generalizing s with
  | nil => exact hs
  | cons e h ih => rw [run_cons]; exact ih _ (fun f => consistent_stepF u e f (s f) (hs f))

end MirVerif.Thunk
