import MirVerif.Lemmas.ReduceEncode
/-! Composition lemmas for the C12 round trip: valid parses of one buffer under the stream loop,
and the encoder's buffer sequence under the decoder. -/
namespace MirVerif.Reduce

/-- `es` is a valid parse of the buffer contents `d`: applying the elements one after the other
to the empty decoder state (every reference resolves through `ind2pos` to a source that lies
completely before the current position) yields `d`, and every element is well-formed -/
def ValidParse (c : Cfg) (es : List El) (d : List UInt8) : Prop :=
  (applyEls DSt.init es).map (·.buf) = some d ∧ ∀ e ∈ es, ElOk c e

/-- the stream loop on the serialisation of a valid parse of one non-empty buffer followed by
`rest`: a full buffer is hashed and delivered, a shorter one stays pending until the trailer -/
theorem decChunks_of_valid_parse (c : Cfg) (hc : c.Ok) (es : List El) (d : List UInt8)
    (hv : ValidParse c es d) (hlen : d.length ≤ c.bufLen) (h : UInt64) (acc rest : List UInt8) :
    (d.length = c.bufLen →
      decChunks c h DSt.init acc (serEls es ++ rest) = decChunks c (c.H d h) DSt.init (acc ++ d) rest) ∧
    (d.length < c.bufLen →
      decChunks c h DSt.init acc (serEls es ++ 0 :: leBytes 8 (chainHash c h d).toNat)
        = .ok (acc ++ d)) := by
  obtain ⟨hmap, hall⟩ := hv
  obtain ⟨st, happ, rfl⟩ := Option.map_eq_some_iff.mp hmap
  constructor
  · intro hfull
    have hne : es ≠ [] := by
      intro h0; subst h0
      simp only [applyEls, Option.some.injEq] at happ
      have := hc.pos
      subst happ
      simp [DSt.init] at hfull; omega
    exact decChunks_serEls_full c hc es DSt.init st h acc rest hall happ hne (Nat.le_refl _) hfull
  · intro hlt
    rw [decChunks_serEls_partial c hc es DSt.init st h acc _ hall happ (Nat.le_refl _) hlt]
    rw [decChunks_trailer, chainHash_short c hc h st.buf hlen]
    simp [leVal_leBytes_u64]

/-- the elements the modelled `_reduce_encode_buf` writes for a buffer are a valid parse of it -/
theorem encodeBuf_validParse (c : Cfg) (buf : Array UInt8) (hsz : buf.size ≤ c.bufLen) :
    ValidParse c (encodeBufEls c buf) buf.toList := by
  obtain ⟨⟨starts, h⟩, hall, _⟩ := encodeBufEls_valid c buf hsz
  exact ⟨by rw [h]; rfl, hall⟩

theorem encChunks_nil (c : Cfg) (h : UInt64) : encChunks c h [] = 0 :: leBytes 8 h.toNat := by
  rw [encChunks]; simp

theorem decChunks_encChunks (c : Cfg) (hc : c.Ok) (n : Nat) :
    ∀ d : List UInt8, d.length ≤ n → ∀ (h : UInt64) (acc : List UInt8),
      decChunks c h DSt.init acc (encChunks c h d) = .ok (acc ++ d) := by
  have hp := hc.pos
  induction n with
  | zero =>
    intro d hd h acc
    have : d = [] := List.length_eq_zero_iff.mp (by omega)
    subst this
    rw [encChunks_nil, decChunks_trailer]
    simp [DSt.init, leVal_leBytes_u64]
  | succ n ih =>
    intro d hd h acc
    by_cases hnil : d = []
    · subst hnil
      rw [encChunks_nil, decChunks_trailer]
      simp [DSt.init, leVal_leBytes_u64]
    · have hd0 : d.length ≠ 0 := fun h0 => hnil (List.length_eq_zero_iff.mp h0)
      rw [encChunks, if_neg (by intro hh; rcases hh with hh | hh; omega; exact hnil hh)]
      dsimp only
      have hsz : (d.take c.bufLen).toArray.size ≤ c.bufLen := by
        simp only [List.size_toArray, List.length_take]; omega
      have hv := encodeBuf_validParse c (d.take c.bufLen).toArray hsz
      rw [List.toList_toArray] at hv
      have hlen : (d.take c.bufLen).length ≤ c.bufLen := by
        simp only [List.length_take]; omega
      by_cases hfull : c.bufLen ≤ d.length
      · have hl : (d.take c.bufLen).length = c.bufLen := by
          simp only [List.length_take]; omega
        rw [(decChunks_of_valid_parse c hc _ _ hv hlen h acc _).1 hl]
        rw [ih (d.drop c.bufLen) (by simp only [List.length_drop]; omega)]
        rw [List.append_assoc, List.take_append_drop]
      · have ht : d.take c.bufLen = d := List.take_of_length_le (by omega)
        have hdr : d.drop c.bufLen = [] := List.drop_eq_nil_of_le (by omega)
        rw [hdr, encChunks_nil]
        rw [ht] at hv hlen ⊢
        have hch : c.H d h = chainHash c h d := by
          rw [chainHash_short c hc h d hlen, if_pos hd0]
        rw [hch]
        exact (decChunks_of_valid_parse c hc _ _ hv hlen h acc []).2 (by omega)

end MirVerif.Reduce
