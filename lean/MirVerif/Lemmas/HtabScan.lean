import MirVerif.Model.Htab
/-!
Lemmas about the probing loop of the HTAB model: the loop is a scan of the (finite prefix of the)
probe path; what each of its three results tells about the table.
-/
namespace MirVerif.Htab

variable {α : Type}

/-- the first `n` probe positions starting at `ind` with Peter-B state `pb` -/
def probeFrom (size : Nat) : Nat → Nat → Nat → List Nat
  | 0, _, _ => []
  | n + 1, ind, pb => ind :: probeFrom size n (nextInd size ind (pb / 2048)) (pb / 2048)

/-- the probe path of hash `h` in a table with `size` entries (`size + 3` probes) -/
def path (size h : Nat) : List Nat := probeFrom size (size + 3) (h &&& (size - 1)) h

/-- the loop as a scan of a list of probe positions -/
def scanL (eq : α → α → Bool) (t : Tab α) (h : Nat) (x : α) :
    List Nat → Option Nat → Nat → Res α
  | [], _, _ => .noFuel
  | p :: ps, ld, c =>
    match ent t p with
    | .empty => .absent p ld c
    | .deleted => scanL eq t h x ps (some p) (c + 1)
    | .idx i =>
      match t.els[i]? with
      | some e =>
        if e.hash = h ∧ eq e.el x = true then .found p i e c else scanL eq t h x ps ld (c + 1)
      | none => scanL eq t h x ps ld (c + 1)

theorem scan_eq_scanL (eq : α → α → Bool) (t : Tab α) (h : Nat) (x : α) (fuel ind pb : Nat)
    (ld : Option Nat) (c : Nat) :
    scan eq t h x fuel ind pb ld c = scanL eq t h x (probeFrom t.entries.length fuel ind pb) ld c := by
  induction fuel generalizing ind pb ld c with
  | zero => simp [scan, probeFrom, scanL]
  | succ n ih =>
    simp only [scan, probeFrom, scanL, ih]
    cases ent t ind with
    | empty => rfl
    | deleted => rfl
    | idx i => cases t.els[i]? <;> rfl

theorem lookup_eq_scanL (hf : α → Nat) (eq : α → α → Bool) (t : Tab α) (x : α) :
    lookup hf eq t x = scanL eq t (hashOf hf x) x (path t.entries.length (hashOf hf x)) none 0 := by
  simp [lookup, fuelFor, path, scan_eq_scanL]

theorem scanL_found {eq : α → α → Bool} {t : Tab α} {h : Nat} {x : α} {ps : List Nat}
    {ld : Option Nat} {c p i c' : Nat} {e : El α}
    (hs : scanL eq t h x ps ld c = .found p i e c') :
    ent t p = .idx i ∧ t.els[i]? = some e ∧ e.hash = h ∧ eq e.el x = true := by
  induction ps generalizing ld c with
  | nil => simp [scanL] at hs
  | cons q qs ih =>
    simp only [scanL] at hs
    split at hs
    · cases hs
    · exact ih hs
    · rename_i i' hq
      split at hs
      · rename_i e' he
        split at hs
        · rename_i hm
          cases hs
          exact ⟨hq, he, hm.1, hm.2⟩
        · exact ih hs
      · exact ih hs

theorem scanL_reaches {eq : α → α → Bool} {t : Tab α} {h : Nat} {x : α} {pre post : List Nat}
    {p i : Nat} {e : El α}
    (hpre : ∀ q ∈ pre, ent t q ≠ .empty) (hp : ent t p = .idx i) (he : t.els[i]? = some e)
    (hh : e.hash = h) (hx : eq e.el x = true) (ld : Option Nat) (c : Nat) :
    ∃ p' i' e' c', scanL eq t h x (pre ++ p :: post) ld c = .found p' i' e' c' := by
  induction pre generalizing ld c with
  | nil =>
    refine ⟨p, i, e, c, ?_⟩
    simp only [List.nil_append, scanL, hp, he]
    rw [if_pos ⟨hh, hx⟩]
  | cons q qs ih =>
    have hq := hpre q (by simp)
    have hqs : ∀ q' ∈ qs, ent t q' ≠ .empty := fun q' h' => hpre q' (by simp [h'])
    simp only [List.cons_append, scanL]
    split
    · rename_i hcase; exact absurd hcase hq
    · exact ih hqs _ _
    · split
      · split
        · exact ⟨_, _, _, _, rfl⟩
        · exact ih hqs _ _
      · exact ih hqs _ _

theorem scanL_absent {eq : α → α → Bool} {t : Tab α} {h : Nat} {x : α} {ps : List Nat}
    {ld0 ld : Option Nat} {c c' p : Nat}
    (hs : scanL eq t h x ps ld0 c = .absent p ld c') :
    ∃ pre post, ps = pre ++ p :: post ∧ ent t p = .empty ∧ (∀ q ∈ pre, ent t q ≠ .empty) ∧
      (ld = ld0 ∨ ∃ q ∈ pre, ld = some q ∧ ent t q = .deleted) := by
  induction ps generalizing ld0 c with
  | nil => simp [scanL] at hs
  | cons a as ih =>
    simp only [scanL] at hs
    have step : ∀ ld1 c1, ent t a ≠ .empty → (ld1 = ld0 ∨ (ld1 = some a ∧ ent t a = .deleted)) →
        scanL eq t h x as ld1 c1 = .absent p ld c' →
        ∃ pre post, a :: as = pre ++ p :: post ∧ ent t p = .empty ∧ (∀ q ∈ pre, ent t q ≠ .empty) ∧
          (ld = ld0 ∨ ∃ q ∈ pre, ld = some q ∧ ent t q = .deleted) := by
      intro ld1 c1 hne hld1 hs1
      obtain ⟨pre, post, h1, h2, h3, h4⟩ := ih hs1
      refine ⟨a :: pre, post, by simp [h1], h2, ?_, ?_⟩
      · intro q hq
        rcases List.mem_cons.mp hq with rfl | hq
        · exact hne
        · exact h3 q hq
      · rcases h4 with h4 | ⟨q, hq, h5, h6⟩
        · rcases hld1 with h7 | ⟨h7, h8⟩
          · exact Or.inl (h4.trans h7)
          · exact Or.inr ⟨a, by simp, h4.trans h7, h8⟩
        · exact Or.inr ⟨q, by simp [hq], h5, h6⟩
    split at hs
    · rename_i ha
      cases hs
      exact ⟨[], as, by simp, ha, by simp, Or.inl rfl⟩
    · rename_i ha
      exact step _ _ (by rw [ha]; simp) (Or.inr ⟨rfl, ha⟩) hs
    · rename_i i ha
      have hne : ent t a ≠ .empty := by rw [ha]; simp
      split at hs
      · split at hs
        · cases hs
        · exact step _ _ hne (Or.inl rfl) hs
      · exact step _ _ hne (Or.inl rfl) hs

theorem scanL_noFuel {eq : α → α → Bool} {t : Tab α} {h : Nat} {x : α} {ps : List Nat}
    {ld : Option Nat} {c : Nat} (hs : scanL eq t h x ps ld c = .noFuel) :
    ∀ q ∈ ps, ent t q ≠ .empty := by
  induction ps generalizing ld c with
  | nil => intro q hq; cases hq
  | cons a as ih =>
    simp only [scanL] at hs
    intro q hq
    have step : ∀ ld1 c1, ent t a ≠ .empty → scanL eq t h x as ld1 c1 = .noFuel →
        ent t q ≠ .empty := by
      intro ld1 c1 hne hs1
      rcases List.mem_cons.mp hq with rfl | hq
      · exact hne
      · exact ih hs1 q hq
    split at hs
    · cases hs
    · rename_i ha; exact step _ _ (by rw [ha]; simp) hs
    · rename_i i ha
      have hne : ent t a ≠ .empty := by rw [ha]; simp
      split at hs
      · split at hs
        · cases hs
        · exact step _ _ hne hs
      · exact step _ _ hne hs

/-! ### positions on the path are inside the table -/

theorem nextInd_lt (size ind pb : Nat) (hs : 0 < size) : nextInd size ind pb < size := by
  unfold nextInd
  have := Nat.and_le_right (n := 5 * ind + pb + 1) (m := size - 1)
  omega

theorem probeFrom_lt (size : Nat) (hs : 0 < size) : ∀ n ind pb, ind < size →
    ∀ p ∈ probeFrom size n ind pb, p < size := by
  intro n
  induction n with
  | zero => intro ind pb _ p hp; simp [probeFrom] at hp
  | succ n ih =>
    intro ind pb hind p hp
    simp only [probeFrom, List.mem_cons] at hp
    rcases hp with rfl | hp
    · exact hind
    · exact ih _ _ (nextInd_lt _ _ _ hs) p hp

theorem path_lt (size h : Nat) (hs : 0 < size) : ∀ p ∈ path size h, p < size := by
  apply probeFrom_lt size hs
  have := Nat.and_le_right (n := h) (m := size - 1)
  omega

end MirVerif.Htab
