import MirVerif.Model.PhiElim
namespace MirVerif.PhiElim

theorem upd_same (σ : St) (r v) : upd σ r v r = v := by simp [upd]
theorem upd_other (σ : St) (r v x) (h : x ≠ r) : upd σ r v x = σ x := by simp [upd, h]

/-- a register that is not a destination keeps its value -/
theorem runMoves_not_dst (ms : List (Reg × Reg)) (σ : St) (x : Reg) (h : ∀ m ∈ ms, m.1 ≠ x) :
    runMoves ms σ x = σ x := by
  induction ms generalizing σ with
  | nil => rfl
  | cons m ms ih =>
    obtain ⟨d, s⟩ := m
    simp only [runMoves]
    rw [ih _ (fun m hm => h m (List.mem_cons_of_mem _ hm))]
    exact upd_other _ _ _ _ (fun e => h (d, s) (List.mem_cons_self) e.symm)

/-- moves whose destinations are pairwise distinct and never read by any of the moves: every
destination ends up with the OLD value of its source -/
theorem runMoves_fresh_dsts (ms : List (Reg × Reg)) (σ : St)
    (hnd : (ms.map (·.1)).Nodup) (hfresh : ∀ m ∈ ms, ∀ n ∈ ms, m.1 ≠ n.2) :
    ∀ m ∈ ms, runMoves ms σ m.1 = σ m.2 := by
  induction ms generalizing σ with
  | nil => intro m hm; cases hm
  | cons m0 ms ih =>
    obtain ⟨d, s⟩ := m0
    simp only [List.map_cons, List.nodup_cons] at hnd
    intro m hm
    simp only [runMoves]
    rcases List.mem_cons.1 hm with rfl | hm'
    · -- the head: later moves do not touch d
      rw [runMoves_not_dst ms _ d (fun n hn e => hnd.1 (e ▸ List.mem_map_of_mem (f := (·.1)) hn))]
      exact upd_same _ _ _
    · have := ih (upd σ d (σ s)) hnd.2
        (fun a ha b hb => hfresh a (List.mem_cons_of_mem _ ha) b (List.mem_cons_of_mem _ hb)) m hm'
      rw [this]
      exact upd_other _ _ _ _ (fun e => hfresh (d, s) List.mem_cons_self m (List.mem_cons_of_mem _ hm') e.symm)

end MirVerif.PhiElim

namespace MirVerif.PhiElim

theorem parAssign_not_res (ps : List Phi) (σ : St) (x : Reg) (h : ∀ p ∈ ps, p.res ≠ x) :
    parAssign (phiMoves ps) σ x = σ x := by
  unfold parAssign
  have : (phiMoves ps).find? (fun m => m.1 = x) = none := by
    rw [List.find?_eq_none]
    intro m hm
    simp only [phiMoves, List.mem_map] at hm
    obtain ⟨p, hp, rfl⟩ := hm
    simpa using h p hp
  rw [this]

theorem parAssign_res (ps : List Phi) (σ : St) (hres : (ps.map (·.res)).Nodup) :
    ∀ p ∈ ps, parAssign (phiMoves ps) σ p.res = σ p.arg := by
  induction ps with
  | nil => intro p hp; cases hp
  | cons q ps ih =>
    simp only [List.map_cons, List.nodup_cons] at hres
    intro p hp
    rcases List.mem_cons.1 hp with rfl | hp'
    · simp [parAssign, phiMoves]
    · have hne : q.res ≠ p.res := fun e => hres.1 (e ▸ List.mem_map_of_mem (f := (·.res)) hp')
      have := ih hres.2 p hp'
      simp only [parAssign, phiMoves, List.map_cons, List.find?_cons] at this ⊢
      simp only [hne, decide_false]
      exact this

/-- **Form (A) is sound**: executing the copies `r_i% := a_i` (end of the predecessor) and then
`r_i := r_i%` (after the phis) has, on every register other than the fresh temps, exactly the effect
of the parallel phi assignment — for any number of phis, any argument registers (including phi
results of the same block: the swap and lost-copy situations). -/
theorem lowerA_sound (ps : List Phi) (σ : St) (hf : Fresh ps) (hres : (ps.map (·.res)).Nodup)
    (x : Reg) (hx : ∀ p ∈ ps, x ≠ p.tmp) :
    lowerA ps σ x = parAssign (phiMoves ps) σ x := by
  obtain ⟨htn, hfr⟩ := hf
  -- state after the predecessor's copies
  have h1 : ∀ p ∈ ps, runMoves (predMoves ps) σ p.tmp = σ p.arg := by
    intro p hp
    have := runMoves_fresh_dsts (predMoves ps) σ
      (by simpa [predMoves, List.map_map, Function.comp_def] using htn)
      (by
        intro m hm n hn
        simp only [predMoves, List.mem_map] at hm hn
        obtain ⟨a, ha, rfl⟩ := hm
        obtain ⟨b, hb, rfl⟩ := hn
        exact (hfr a ha b hb).2)
      (p.tmp, p.arg) (by simp only [predMoves, List.mem_map]; exact ⟨p, hp, rfl⟩)
    simpa using this
  have h1' : ∀ y, (∀ p ∈ ps, y ≠ p.tmp) → runMoves (predMoves ps) σ y = σ y := by
    intro y hy
    apply runMoves_not_dst
    intro m hm
    simp only [predMoves, List.mem_map] at hm
    obtain ⟨a, ha, rfl⟩ := hm
    exact fun e => hy a ha e.symm
  unfold lowerA
  by_cases hxr : ∃ p ∈ ps, p.res = x
  · obtain ⟨p, hp, rfl⟩ := hxr
    have := runMoves_fresh_dsts (entryMoves ps) (runMoves (predMoves ps) σ)
      (by simpa [entryMoves, List.map_map, Function.comp_def] using hres)
      (by
        intro m hm n hn
        simp only [entryMoves, List.mem_map] at hm hn
        obtain ⟨a, ha, rfl⟩ := hm
        obtain ⟨b, hb, rfl⟩ := hn
        exact fun e => (hfr b hb a ha).1 e.symm)
      (p.res, p.tmp) (by simp only [entryMoves, List.mem_map]; exact ⟨p, hp, rfl⟩)
    simp only at this
    rw [this, h1 p hp, parAssign_res ps σ hres p hp]
  · have hnr : ∀ p ∈ ps, p.res ≠ x := fun p hp e => hxr ⟨p, hp, e⟩
    rw [runMoves_not_dst (entryMoves ps) _ x (by
      intro m hm
      simp only [entryMoves, List.mem_map] at hm
      obtain ⟨a, ha, rfl⟩ := hm
      exact hnr a ha), h1' x hx, parAssign_not_res ps σ x hnr]

end MirVerif.PhiElim
