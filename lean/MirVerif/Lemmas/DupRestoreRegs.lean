import MirVerif.Lemmas.DupRestoreSpec
/-!
Register tables: registers created on the working copy (`MIR_new_func_reg`, `_MIR_new_temp_reg`) are
pushed on top of `vars`, `reg_descs` and the two hash tables, and the `while` loop of
`_MIR_restore_func_insns` pops exactly those.
-/
namespace MirVerif.DupRestore

def varOf (d : RegDesc) : Var := { ty := d.ty, name := d.name }

/-- `f` is `b` plus the registers `added` (and possibly dead descriptors `junk` beyond them) -/
structure Ext (b : Func) (added junk : List RegDesc) (f : Func) : Prop where
  vars : f.vars = b.vars ++ added.map varOf
  descs : f.regDescs = b.regDescs ++ added ++ junk
  n2r : f.name2rdn = b.name2rdn ++ List.range' b.regDescs.length added.length
  r2r : f.reg2rdn = b.reg2rdn ++ List.range' b.regDescs.length added.length
  ng : f.nglobals = b.nglobals

/-- the function record after popping the last of `init ++ [d]` -/
def popped (b : Func) (init : List RegDesc) (f : Func) : Func :=
  { f with vars := b.vars ++ init.map varOf,
           name2rdn := b.name2rdn ++ List.range' b.regDescs.length init.length,
           reg2rdn := b.reg2rdn ++ List.range' b.regDescs.length init.length }

theorem find?_congr' {α : Type} {p q : α → Bool} :
    ∀ {l : List α}, (∀ x ∈ l, p x = q x) → l.find? p = l.find? q := by
  intro l
  induction l with
  | nil => intro _; rfl
  | cons a l ih =>
    intro h
    simp only [List.find?_cons]
    rw [h a (by simp), ih (fun x hx => h x (List.mem_cons_of_mem _ hx))]

theorem find?_snoc_last {α : Type} {p : α → Bool} {xs : List α} {x : α}
    (h1 : ∀ y ∈ xs, ¬ p y = true) (h2 : p x = true) : (xs ++ [x]).find? p = some x := by
  rw [List.find?_append, List.find?_eq_none.mpr h1]
  simp [h2]

theorem eraseP_snoc_last {α : Type} {p : α → Bool} {xs : List α} {x : α}
    (h1 : ∀ y ∈ xs, ¬ p y = true) (h2 : p x = true) : (xs ++ [x]).eraseP p = xs := by
  rw [List.eraseP_append_right _ h1, List.eraseP_cons_of_pos h2]
  simp

theorem nodup_snoc_map {α β : Type} {g : α → β} {xs : List α} {x : α}
    (h : ((xs ++ [x]).map g).Nodup) : (xs.map g).Nodup ∧ ∀ y ∈ xs, g y ≠ g x := by
  rw [List.map_append, List.nodup_append] at h
  refine ⟨h.1, ?_⟩
  intro y hy
  exact h.2.2 (g y) (List.mem_map.mpr ⟨y, hy, rfl⟩) (g x) (by simp)

/-- one round of the pop loop undoes the last added register -/
theorem popVar_ext {b f : Func} {init junk : List RegDesc} {d : RegDesc}
    (ht : TabInv f) (he : Ext b (init ++ [d]) junk f) :
    popVar f = popped b init f := by
  have hv : f.vars = (b.vars ++ init.map varOf) ++ [varOf d] := by
    rw [he.vars]; simp
  have hn : f.name2rdn =
      (b.name2rdn ++ List.range' b.regDescs.length init.length)
        ++ [b.regDescs.length + init.length] := by
    rw [he.n2r]; simp [List.range'_concat]
  have hr : f.reg2rdn =
      (b.reg2rdn ++ List.range' b.regDescs.length init.length)
        ++ [b.regDescs.length + init.length] := by
    rw [he.r2r]; simp [List.range'_concat]
  have hd : f.regDescs[b.regDescs.length + init.length]? = some d := by
    rw [he.descs]
    rw [List.getElem?_append_left (by simp)]
    rw [List.getElem?_append_right (by omega)]
    rw [List.getElem?_append_right (by omega)]
    simp
  have hnd1 := ht.namesNodup
  rw [hn] at hnd1
  obtain ⟨_, hne1⟩ := nodup_snoc_map hnd1
  have hnd2 := ht.regsNodup
  rw [hr] at hnd2
  obtain ⟨_, hne2⟩ := nodup_snoc_map hnd2
  have hname : rdNameAt f (b.regDescs.length + init.length) = some d.name := by
    simp [rdNameAt, hd]
  have hreg : rdRegAt f (b.regDescs.length + init.length) = some d.reg := by
    simp [rdRegAt, hd]
  unfold popVar
  rw [hv, List.getLast?_concat]
  simp only [List.dropLast_concat]
  have hfind : findByName { f with vars := b.vars ++ init.map varOf } (varOf d).name =
      some (b.regDescs.length + init.length) := by
    unfold findByName
    show List.find? (fun r => rdNameAt f r == some d.name) f.name2rdn = _
    rw [hn]
    apply find?_snoc_last
    · intro y hy hp
      have := hne1 y hy
      rw [hname] at this
      exact this (by simpa using hp)
    · simp [hname]
  rw [hfind]
  simp only
  have e1 : List.eraseP (fun r => rdNameAt f r == rdNameAt f (b.regDescs.length + init.length))
      f.name2rdn = b.name2rdn ++ List.range' b.regDescs.length init.length := by
    rw [hn]
    apply eraseP_snoc_last
    · intro y hy hp
      exact hne1 y hy (by simpa using hp)
    · simp
  have e2 : List.eraseP (fun r => rdRegAt f r == rdRegAt f (b.regDescs.length + init.length))
      f.reg2rdn = b.reg2rdn ++ List.range' b.regDescs.length init.length := by
    rw [hr]
    apply eraseP_snoc_last
    · intro y hy hp
      exact hne2 y hy (by simpa using hp)
    · simp
  show ({ f with vars := b.vars ++ init.map varOf,
                 name2rdn := List.eraseP (fun r => rdNameAt f r ==
                    rdNameAt f (b.regDescs.length + init.length)) f.name2rdn,
                 reg2rdn := List.eraseP (fun r => rdRegAt f r ==
                    rdRegAt f (b.regDescs.length + init.length)) f.reg2rdn } : Func) = _
  rw [e1, e2]
  rfl

theorem popVars_ext {b : Func} :
    ∀ (n : Nat) (added junk : List RegDesc) (f : Func), added.length = n → TabInv f →
      Ext b added junk f →
      popVars n f = { f with vars := b.vars, name2rdn := b.name2rdn, reg2rdn := b.reg2rdn } := by
  intro n
  induction n with
  | zero =>
    intro added junk f hl _ he
    have : added = [] := List.eq_nil_of_length_eq_zero hl
    subst this
    have h1 := he.vars; have h2 := he.n2r; have h3 := he.r2r
    simp at h1 h2 h3
    unfold popVars
    cases f; simp_all
  | succ n ih =>
    intro added junk f hl ht he
    have hne : added ≠ [] := by intro e; subst e; simp at hl
    obtain ⟨init, d, rfl⟩ : ∃ init d, added = init ++ [d] :=
      ⟨added.dropLast, added.getLast hne, (List.dropLast_concat_getLast hne).symm⟩
    have hil : init.length = n := by simp at hl; omega
    unfold popVars
    rw [popVar_ext ht he]
    have hn : f.name2rdn =
        (b.name2rdn ++ List.range' b.regDescs.length init.length)
          ++ [b.regDescs.length + init.length] := by
      rw [he.n2r]; simp [List.range'_concat]
    have hr : f.reg2rdn =
        (b.reg2rdn ++ List.range' b.regDescs.length init.length)
          ++ [b.regDescs.length + init.length] := by
      rw [he.r2r]; simp [List.range'_concat]
    have ht' : TabInv (popped b init f) := by
      constructor
      · intro r hr'
        exact ht.n2rLt r (by rw [hn]; exact List.mem_append_left _ hr')
      · intro r hr'
        exact ht.r2rLt r (by rw [hr]; exact List.mem_append_left _ hr')
      · have := ht.namesNodup
        rw [hn] at this
        exact (nodup_snoc_map this).1
      · have := ht.regsNodup
        rw [hr] at this
        exact (nodup_snoc_map this).1
    have he' : Ext b init ([d] ++ junk)
        (popped b init f) := by
      constructor
      · rfl
      · show f.regDescs = _
        rw [he.descs]; simp
      · rfl
      · rfl
      · exact he.ng
    rw [ih init ([d] ++ junk) _ hil ht' he']
    rfl

/-- lookups do not see dead descriptors beyond the ones the tables point to -/
theorem lookup_agree {b g : Func} {extra : List RegDesc}
    (hd : g.regDescs = b.regDescs ++ extra) (hn : g.name2rdn = b.name2rdn)
    (hr : g.reg2rdn = b.reg2rdn) (ht : TabInv b) :
    (∀ n, findByName g n = findByName b n) ∧ (∀ r, findByReg g r = findByReg b r) ∧
    (∀ n, lookupName g n = lookupName b n) ∧ (∀ r, lookupReg g r = lookupReg b r) := by
  have hget : ∀ r, r < b.regDescs.length → g.regDescs[r]? = b.regDescs[r]? := by
    intro r hr'
    rw [hd, List.getElem?_append_left hr']
  have h1 : ∀ n, findByName g n = findByName b n := by
    intro n
    unfold findByName
    rw [hn]
    apply find?_congr'
    intro r hr'
    simp [rdNameAt, hget r (ht.n2rLt r hr')]
  have h2 : ∀ r, findByReg g r = findByReg b r := by
    intro n
    unfold findByReg
    rw [hr]
    apply find?_congr'
    intro r hr'
    simp [rdRegAt, hget r (ht.r2rLt r hr')]
  refine ⟨h1, h2, ?_, ?_⟩
  · intro n
    unfold lookupName
    rw [h1]
    cases hf : findByName b n with
    | none => rfl
    | some r =>
      have : r ∈ b.name2rdn := List.mem_of_find?_eq_some hf
      simp [hget r (ht.n2rLt r this)]
  · intro n
    unfold lookupReg
    rw [h2]
    cases hf : findByReg b n with
    | none => rfl
    | some r =>
      have : r ∈ b.reg2rdn := List.mem_of_find?_eq_some hf
      simp [hget r (ht.r2rLt r this)]

end MirVerif.DupRestore
