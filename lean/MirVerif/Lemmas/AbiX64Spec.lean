import MirVerif.Lemmas.AbiX64
/-! Well-formedness of the psABI specification `sysvPlace` itself (C05): the locations it hands out
are real argument registers or 8-aligned slots inside the outgoing argument area. -/
namespace MirVerif.AbiX64

/-- a location is a real argument register, or an 8-aligned slot inside the outgoing area -/
def Loc.Valid (limit : Nat) : Loc → Prop
  | .gpr n => n < 6
  | .xmm n => n < 8
  | .stk off => off % 8 = 0 ∧ off + 8 ≤ limit

theorem Loc.Valid.mono {l : Loc} {a b : Nat} (h : l.Valid a) (hab : a ≤ b) : l.Valid b := by
  cases l <;> simp [Loc.Valid] at * <;> omega

theorem assign_valid (lim : Nat) : ∀ (cs : List Cls) (ni nx : Nat), ni + countInt cs ≤ 6 →
    nx + countSse cs ≤ 8 → ∀ l ∈ assign cs ni nx, l.Valid lim := by
  intro cs
  induction cs with
  | nil => intro ni nx _ _ l hl; simp [assign] at hl
  | cons c cs ih =>
    intro ni nx hi hx l hl
    cases c with
    | int =>
      simp [assign] at hl
      simp [countInt, countSse] at hi hx
      rcases hl with rfl | hl
      · simp [Loc.Valid]; omega
      · exact ih (ni + 1) nx (by simp [countInt]; omega) (by simp [countSse]; omega) l hl
    | sse =>
      simp [assign] at hl
      simp [countInt, countSse] at hi hx
      rcases hl with rfl | hl
      · simp [Loc.Valid]; omega
      · exact ih ni (nx + 1) (by simp [countInt]; omega) (by simp [countSse]; omega) l hl

theorem stkWords_valid : ∀ (n off : Nat), off % 8 = 0 → ∀ l ∈ stkWords off n, l.Valid (off + 8 * n) := by
  intro n
  induction n with
  | zero => intro off _ l hl; simp [stkWords] at hl
  | succ n ih =>
    intro off h8 l hl
    simp [stkWords] at hl
    rcases hl with rfl | hl
    · simp [Loc.Valid]; omega
    · have := ih (off + 8) (by omega) l hl
      exact this.mono (by omega)

theorem memAlign_cases (a : ArgTy) : memAlign a = 8 ∨ memAlign a = 16 := by
  cases a <;> simp [memAlign]

def StInv (s : St) : Prop := s.ni ≤ 6 ∧ s.nx ≤ 8 ∧ s.sp % 8 = 0

theorem sysv_step_valid (s : St) (a : ArgTy) (h : StInv s) :
    StInv (sysvStep s a).1 ∧ s.sp ≤ (sysvStep s a).1.sp ∧ ∀ l ∈ (sysvStep s a).2, l.Valid (sysvStep s a).1.sp := by
  obtain ⟨hi, hx, h8⟩ := h
  simp only [sysvStep, refStep]
  split
  · rename_i hc
    refine ⟨⟨hc.2.1, hc.2.2, h8⟩, Nat.le_refl _, ?_⟩
    exact assign_valid _ _ _ _ hc.2.1 hc.2.2
  · simp only [memStep, if_true]
    have hr : roundUp s.sp (memAlign a) % 8 = 0 ∧ s.sp ≤ roundUp s.sp (memAlign a) := by
      rcases memAlign_cases a with h | h <;> simp [roundUp, h] <;> omega
    refine ⟨⟨hi, hx, by show (roundUp s.sp (memAlign a) + 8 * memWords a) % 8 = 0; omega⟩,
      by show s.sp ≤ roundUp s.sp (memAlign a) + 8 * memWords a; omega, ?_⟩
    exact stkWords_valid _ _ hr.1

theorem sysv_run_valid : ∀ (args : List ArgTy) (s : St), StInv s →
    StInv (run sysvStep s args).1 ∧ s.sp ≤ (run sysvStep s args).1.sp ∧
    ∀ ls ∈ (run sysvStep s args).2, ∀ l ∈ ls, l.Valid (run sysvStep s args).1.sp := by
  intro args
  induction args with
  | nil => intro s h; exact ⟨h, Nat.le_refl _, by simp [run]⟩
  | cons a as ih =>
    intro s h
    obtain ⟨h1, h2, h3⟩ := sysv_step_valid s a h
    obtain ⟨i1, i2, i3⟩ := ih _ h1
    refine ⟨i1, Nat.le_trans h2 i2, ?_⟩
    intro ls hls l hl
    simp only [run, List.mem_cons] at hls
    rcases hls with rfl | hls
    · exact (h3 l hl).mono i2
    · exact i3 ls hls l hl

end MirVerif.AbiX64
