import MirVerif.Model.PPMacroUnit
/-! Lemmas about the C11 macro-replacement specification (C09). -/
set_option linter.unusedSimpArgs false
set_option linter.unusedVariables false
namespace MirVerif.PP

theorem unescape_cons_ne (c : Char) (hc : c ≠ '\\') (l : List Char) :
    unescapeChars (c :: l) = c :: unescapeChars l := by
  rw [unescapeChars.eq_def]
  split
  · rename_i heq; cases heq
  · rename_i heq; simp at heq; exact absurd heq.1 hc
  · rename_i heq; simp at heq; obtain ⟨h1, h2⟩ := heq; subst h1 h2; rfl

theorem unescape_bs (c : Char) (l : List Char) :
    unescapeChars ('\\' :: c :: l) = c :: unescapeChars l := by
  rw [unescapeChars.eq_def]
  rfl

theorem unescape_escape (s : List Char) : unescapeChars (escapeChars s) = s := by
  induction s with
  | nil => simp [escapeChars, unescapeChars]
  | cons c cs ih =>
    simp only [escapeChars]
    split
    · rw [unescape_bs, ih]
    · rename_i h
      have hc : c ≠ '\\' := by
        intro hc; subst hc; simp at h
      rw [unescape_cons_ne c hc, ih]

/-- `destringify (stringify s) = s` : the code's string quoting is lossless -/
theorem stringify_roundtrip' (s : List Char) : destringify (stringify s) = s := by
  simp [destringify, stringify, List.dropLast_concat, unescape_escape]

/-- one step of rescanning at a painted token: it is copied, never replaced (6.10.3.4p2) -/
theorem expand_painted (defs : Defs) (dis : List String) (t : Tok) (rest : List Tok)
    (h : t.painted = true) :
    expandList defs dis none (t :: rest) = (expandList defs dis none rest).cons t := by
  rw [expandList]
  simp [h]

/-- a token that is not an identifier is copied -/
theorem expand_nonident (defs : Defs) (dis : List String) (t : Tok) (rest : List Tok)
    (h : isIdent t.sp = false) :
    expandList defs dis none (t :: rest) = (expandList defs dis none rest).cons t := by
  rw [expandList]
  simp [h]

/-- an identifier that is not a macro name is copied unchanged (and unpainted) -/
theorem expand_nonmacro (defs : Defs) (dis : List String) (t : Tok) (rest : List Tok)
    (h : lookup defs t.sp = none) :
    expandList defs dis none (t :: rest) = (expandList defs dis none rest).cons t := by
  rw [expandList]
  by_cases hi : (isIdent t.sp && !t.painted) = true
  · simp only [hi, if_true]
    split
    · rfl
    · rename_i m hl; rw [h] at hl; cases hl
  · simp [hi]

/-- the name of a macro that is being replaced is not replaced again and is painted -/
theorem expand_disabled (defs : Defs) (dis : List String) (t : Tok) (rest : List Tok) (m : Macro)
    (hi : isIdent t.sp = true) (hp : t.painted = false)
    (hl : lookup defs t.sp = some m) (hd : dis.contains t.sp = true) :
    expandList defs dis none (t :: rest) = (expandList defs dis none rest).cons (paint t) := by
  rw [expandList]
  simp only [hi, hp, Bool.not_false, Bool.and_self, if_true]
  split
  · rename_i h; rw [hl] at h; cases h
  · rename_i m' h
    split
    · rfl
    · rename_i hd'; rw [hd] at hd'; cases hd'

end MirVerif.PP
