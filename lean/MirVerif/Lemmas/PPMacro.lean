import MirVerif.Model.PPMacroUnit
/-! Lemmas about the C11 macro-replacement specification (C09). -/
set_option linter.unusedSimpArgs false
set_option linter.unusedVariables false
namespace MirVerif.PP

def headEscd : List Char → Bool
  | d :: _ => isEscd d
  | [] => false

theorem headEscd_escape (cs : List Char) : headEscd (escapeChars cs) = headEscd cs := by
  cases cs with
  | nil => rfl
  | cons d ds =>
    simp only [escapeChars]
    split
    · rename_i h; simp [headEscd, isEscd, h]
    · rename_i h; simp [headEscd, isEscd]

theorem destrLoopOld_cons (c : Char) (l : List Char) (h : (c == '\\' && headEscd l) = false) :
    destrLoopOld (c :: l) = c :: destrLoopOld l := by
  cases l with
  | nil => simp [destrLoopOld]
  | cons d r =>
    simp only [headEscd] at h
    simp [destrLoopOld, h]

theorem destrLoop_cons (c : Char) (l : List Char) (h : (c == '\\') = false) :
    destrLoop (c :: l) = c :: destrLoop l := by
  cases l with
  | nil => simp [destrLoop]
  | cons d r => simp [destrLoop, h]

theorem destrLoop_escape (s : List Char) : destrLoop (escapeChars s) = s := by
  induction s with
  | nil => simp [escapeChars, destrLoop]
  | cons c cs ih =>
    simp only [escapeChars]
    split
    · rename_i h
      have : isEscd c = true := by simpa [isEscd] using h
      simp [destrLoop, this, ih]
    · rename_i h
      have hc : (c == '\\') = false := by
        cases hb : (c == '\\') with
        | false => rfl
        | true => simp [hb] at h
      rw [destrLoop_cons c _ hc, ih]

theorem destrLoopOld_escape (s : List Char) (h : noEscPair s = true) : destrLoopOld (escapeChars s) = s := by
  induction s with
  | nil => simp [escapeChars, destrLoopOld]
  | cons c cs ih =>
    have hcs : noEscPair cs = true := by
      cases cs with
      | nil => rfl
      | cons d ds => simp [noEscPair] at h; exact h.2
    have hpair : (c == '\\' && headEscd cs) = false := by
      cases cs with
      | nil => simp [headEscd]
      | cons d ds =>
        simp [noEscPair] at h
        simp only [headEscd]
        cases hb : (c == '\\') <;> cases hd : isEscd d <;> simp_all
    simp only [escapeChars]
    split
    · rename_i hsp
      have hesc : isEscd c = true := by simpa [isEscd] using hsp
      have h1 : destrLoopOld ('\\' :: c :: escapeChars cs) = destrLoopOld (c :: escapeChars cs) := by
        simp [destrLoopOld, hesc]
      rw [h1, destrLoopOld_cons c _ (by rw [headEscd_escape]; exact hpair), ih hcs]
    · rw [destrLoopOld_cons c _ (by rw [headEscd_escape]; exact hpair), ih hcs]

theorem stripQuotes_stringify (s : List Char) : stripQuotesC (stringify s) = escapeChars s := by
  unfold stringify stripQuotesC
  cases h : escapeChars s with
  | nil => simp
  | cons x xs =>
    have e : x :: (xs ++ ['"']) = (x :: xs) ++ ['"'] := rfl
    simp only [List.nil_append, List.cons_append]
    rw [e, List.getLast?_concat, List.dropLast_concat]
    simp

/-- one step of rescanning at a painted token: it is copied, never replaced (6.10.3.4p2) -/
theorem expand_painted (defs : Defs) (dis : List String) (t : Tok) (rest : List Tok)
    (h : t.painted = true) :
    expandList defs dis none (t :: rest) = (expandList defs dis none rest).cons t := by
  rw [expandList]
  simp [h]

/-- a token that is not an identifier is copied -/
theorem expand_nonident (defs : Defs) (dis : List String) (t : Tok) (rest : List Tok)
    (h : isIdent t.sp = false) :
    expandList defs dis none (t :: rest) = (expandList defs dis none rest).cons t := by
  rw [expandList]
  simp [h]

/-- an identifier that is not a macro name is copied unchanged (and unpainted) -/
theorem expand_nonmacro (defs : Defs) (dis : List String) (t : Tok) (rest : List Tok)
    (h : lookup defs t.sp = none) :
    expandList defs dis none (t :: rest) = (expandList defs dis none rest).cons t := by
  rw [expandList]
  by_cases hi : (isIdent t.sp && !t.painted) = true
  · simp only [hi, if_true]
    split
    · rfl
    · rename_i m hl; rw [h] at hl; cases hl
  · simp [hi]

/-- the name of a macro that is being replaced is not replaced again and is painted -/
theorem expand_disabled (defs : Defs) (dis : List String) (t : Tok) (rest : List Tok) (m : Macro)
    (hi : isIdent t.sp = true) (hp : t.painted = false)
    (hl : lookup defs t.sp = some m) (hd : dis.contains t.sp = true) :
    expandList defs dis none (t :: rest) = (expandList defs dis none rest).cons (paint t) := by
  rw [expandList]
  simp only [hi, hp, Bool.not_false, Bool.and_self, if_true]
  split
  · rename_i h; rw [hl] at h; cases h
  · rename_i m' h
    split
    · rfl
    · rename_i hd'; rw [hd] at hd'; cases hd'

theorem subst_param_cases (raw exp : List (List Tok)) (i : Nat) (w : Ws) :
    substItems raw exp false [.param i w] = insertArg w (exp.getD i []) ∧
    substItems raw exp false [.str i w] = [.tok (stringifyArg w (raw.getD i []))] ∧
    substItems raw exp false [.param i w, .paste, .tok ⟨"x", .none, false⟩] =
      (if (raw.getD i []).isEmpty then [PItem.placemarker w] else insertArg w (raw.getD i [])) ++
        [.pasteOp, .tok ⟨"x", .none, false⟩] := by
  refine ⟨?_, ?_, ?_⟩
  · simp [substItems, afterArg]
  · simp [substItems]
  · simp [substItems, afterArg]


end MirVerif.PP
