import MirVerif.Gen.C12_Consts
import MirVerif.Model.Reduce
/-! Bridge for C12: the constants the model uses are the constants of the current `mir-reduce.h` /
`mir-hash.h` (`Gen/C12_Consts.lean` is regenerated from the source on every run).  Also the extents
of the C arrays are the capacities the model's bounds-checked accessors enforce. -/
namespace MirVerif.Reduce.Bridge
open MirVerif.Gen

theorem bridge_bufLen : C12.bufLen = mirCfg.bufLen := by decide
theorem bridge_tableSize : C12.tableSize = mirCfg.tableSize := by decide
theorem bridge_maxSymbLen : C12.maxSymbLen = maxSymbLen := by decide
theorem bridge_startLen : C12.startLen = startLen := by decide
theorem bridge_symbTagLen : C12.symbTagLen = symbTagLen := by decide
theorem bridge_symbTagLong : C12.symbTagLong = symbTagLong := by decide
theorem bridge_refTagLong : C12.refTagLong = refTagLong := by decide
/-- the tag split `tag >> _REDUCE_REF_TAG_LEN`, `tag & _REDUCE_REF_TAG_LONG` is the model's `/ 32`, `% 32` -/
theorem bridge_tagSplit : 2 ^ C12.refTagLen = 32 ∧ C12.refTagLong + 1 = 32 ∧
    C12.symbTagLen + C12.refTagLen = 8 ∧ C12.symbTagLong + 1 = 2 ^ C12.symbTagLen := by decide
theorem bridge_checkHashSeed : C12.checkHashSeed = checkHashSeed.toNat := by decide
theorem bridge_dictHashSeed : C12.dictHashSeed = dictHashSeed.toNat := by decide
theorem bridge_dataPrefix : C12.dataPrefix = dataPrefix := by decide
theorem bridge_hashP : C12.hashP1 = Hash.p1.toNat ∧ C12.hashP2 = Hash.p2.toNat := by decide
/-- `buf[_REDUCE_BUF_LEN]`, `ind2pos[_REDUCE_BUF_LEN]`, `curr_symb[_REDUCE_MAX_SYMB_LEN]`,
`table[_REDUCE_TABLE_SIZE]`: the capacities of the C arrays are the model's bounds -/
theorem bridge_extents : C12.bufBytes = mirCfg.bufLen ∧ C12.ind2posLen = mirCfg.bufLen ∧
    C12.currSymbBytes = maxSymbLen ∧ C12.tableLen = mirCfg.tableSize := by decide
/-- every dictionary index fits below `UINT32_MAX`, so `NIL` is never a valid index -/
theorem bridge_nil : C12.tableSize < NIL ∧ C12.bufLen < NIL := by decide

end MirVerif.Reduce.Bridge
