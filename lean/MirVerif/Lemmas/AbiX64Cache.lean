import MirVerif.Model.AbiX64
set_option linter.unusedSimpArgs false
/-! C05: the key of the interpreter's trampoline cache (`ff_interface_eq`) identifies the signature. -/
namespace MirVerif.AbiX64

/-- inverse of (`tyCode`, `tySize`) -/
def argOfKey (code size : Nat) : Option ArgTy :=
  match code with
  | 0 => some .i8 | 1 => some .u8 | 2 => some .i16 | 3 => some .u16 | 4 => some .i32 | 5 => some .u32
  | 6 => some .i64 | 7 => some .u64 | 8 => some .f | 9 => some .d | 10 => some .ld | 11 => some .p
  | 12 => some (.blk .b0 size) | 13 => some (.blk .b1 size) | 14 => some (.blk .b2 size)
  | 15 => some (.blk .b3 size) | 16 => some (.blk .b4 size) | 17 => some (.rblk size)
  | _ => none

theorem argOfKey_key (a : ArgTy) : argOfKey (tyCode a) (tySize a) = some a := by
  cases a with
  | blk k s => cases k <;> rfl
  | _ => rfl

theorem tySize_of_not_blk {a : ArgTy} (h : isAllBlk a = false) : tySize a = 0 := by
  cases a <;> simp_all [isAllBlk, tySize]

theorem isAllBlk_of_code {a b : ArgTy} (h : tyCode a = tyCode b) : isAllBlk a = isAllBlk b := by
  cases a with
  | blk k s => cases k <;> (cases b with | blk k' s' => cases k' <;> simp_all [tyCode, isAllBlk] | _ => simp_all [tyCode, isAllBlk])
  | _ => (cases b with | blk k' s' => cases k' <;> simp_all [tyCode, isAllBlk] | _ => simp_all [tyCode, isAllBlk])

/-- one iteration of the argument loop of `ff_interface_eq` accepts only identical descriptors -/
theorem arg_key_eq {a b : ArgTy} (hc : tyCode a = tyCode b) (hs : isAllBlk a = true → tySize a = tySize b) :
    a = b := by
  have hsz : tySize a = tySize b := by
    cases hb : isAllBlk a with
    | true => exact hs hb
    | false =>
      have hb' : isAllBlk b = false := by rw [← isAllBlk_of_code hc]; exact hb
      rw [tySize_of_not_blk hb, tySize_of_not_blk hb']
  have := argOfKey_key a
  rw [hc, hsz, argOfKey_key b] at this
  exact (Option.some.inj this).symm

theorem argsKeyEq_iff : ∀ (l1 l2 : List ArgTy), argsKeyEq l1 l2 = true ↔ l1 = l2 := by
  intro l1
  induction l1 with
  | nil => intro l2; cases l2 <;> simp [argsKeyEq]
  | cons a as ih =>
    intro l2
    cases l2 with
    | nil => simp [argsKeyEq]
    | cons b bs =>
      simp only [argsKeyEq, Bool.and_eq_true, beq_iff_eq, Bool.or_eq_true, Bool.not_eq_true', ih bs,
        List.cons.injEq]
      constructor
      · rintro ⟨⟨hc, hs⟩, rfl⟩
        refine ⟨arg_key_eq hc ?_, rfl⟩
        intro hb
        rcases hs with h | h
        · rw [hb] at h; cases h
        · exact h
      · rintro ⟨rfl, rfl⟩
        exact ⟨⟨rfl, Or.inr rfl⟩, rfl⟩

def resOfCode : Nat → Option ResTy
  | 0 => some .i8 | 1 => some .u8 | 2 => some .i16 | 3 => some .u16 | 4 => some .i32 | 5 => some .u32
  | 6 => some .i64 | 7 => some .u64 | 8 => some .f | 9 => some .d | 10 => some .ld | 11 => some .p
  | _ => none

theorem resOfCode_code (r : ResTy) : resOfCode (resCode r) = some r := by cases r <;> rfl

theorem resCode_inj : Function.Injective resCode := by
  intro a b h
  have := resOfCode_code a
  rw [h, resOfCode_code b] at this
  exact (Option.some.inj this).symm

theorem map_resCode_inj : ∀ {l1 l2 : List ResTy}, l1.map resCode = l2.map resCode → l1 = l2 := by
  intro l1
  induction l1 with
  | nil => intro l2 h; cases l2 <;> simp_all
  | cons a as ih =>
    intro l2 h
    cases l2 with
    | nil => simp at h
    | cons b bs =>
      simp only [List.map_cons, List.cons.injEq] at h
      rw [resCode_inj h.1, ih h.2]

end MirVerif.AbiX64
