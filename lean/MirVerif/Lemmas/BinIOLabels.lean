import MirVerif.Model.BinIOLabels
/-!
# C11 lemmas: label objects (`to_lab` is a function of the label number inside one function)
-/
namespace BinIO

/-- the table never holds an object that is not yet allocated, and no object under two numbers -/
structure LabInv (s : LabState) : Prop where
  fresh : ∀ n o : Nat, s.tab.lookup n = some o → o < s.next
  inj : ∀ n m o : Nat, s.tab.lookup n = some o → s.tab.lookup m = some o → n = m

theorem LabInv.empty (k : Nat) : LabInv { next := k, tab := [] } :=
  ⟨fun n o h => by simp at h, fun n m o h => by simp at h⟩

theorem lookup_cons_eq (n o : Nat) (t : List (Nat × Nat)) : List.lookup n ((n, o) :: t) = some o := by
  simp [List.lookup_cons]

theorem lookup_cons_ne (m n o : Nat) (t : List (Nat × Nat)) (h : m ≠ n) :
    List.lookup m ((n, o) :: t) = List.lookup m t := by
  have : (m == n) = false := by simpa using h
  simp [List.lookup_cons, this]

theorem toLab_lookup_self (s : LabState) (n : Nat) :
    (toLab s n).2.tab.lookup n = some (toLab s n).1 := by
  unfold toLab
  cases h : s.tab.lookup n with
  | some o => simp [h]
  | none => simp [lookup_cons_eq]

theorem toLab_lookup_mono (s : LabState) (n m o : Nat) (h : s.tab.lookup m = some o) :
    (toLab s n).2.tab.lookup m = some o := by
  unfold toLab
  cases hn : s.tab.lookup n with
  | some o' => simpa [hn] using h
  | none =>
    have hne : m ≠ n := by intro e; subst e; rw [hn] at h; cases h
    simp [lookup_cons_ne _ _ _ _ hne, h]

theorem toLab_next_le (s : LabState) (n : Nat) : s.next ≤ (toLab s n).2.next := by
  unfold toLab; split <;> simp

theorem toLab_inv (s : LabState) (n : Nat) (h : LabInv s) : LabInv (toLab s n).2 := by
  unfold toLab
  cases hn : s.tab.lookup n with
  | some o => simpa [hn] using h
  | none =>
    refine ⟨?_, ?_⟩
    · intro a o ha
      simp only at ha ⊢
      by_cases e : a = n
      · subst e; rw [lookup_cons_eq] at ha; cases ha; omega
      · rw [lookup_cons_ne _ _ _ _ e] at ha
        have := h.fresh a o ha
        omega
    · intro a b o ha hb
      simp only at ha hb
      by_cases ea : a = n <;> by_cases eb : b = n
      · omega
      · subst ea
        rw [lookup_cons_eq] at ha; cases ha
        rw [lookup_cons_ne _ _ _ _ eb] at hb
        have := h.fresh b _ hb
        omega
      · subst eb
        rw [lookup_cons_eq] at hb; cases hb
        rw [lookup_cons_ne _ _ _ _ ea] at ha
        have := h.fresh a _ ha
        omega
      · rw [lookup_cons_ne _ _ _ _ ea] at ha
        rw [lookup_cons_ne _ _ _ _ eb] at hb
        exact h.inj a b o ha hb

/-- after resolving a list of numbers every occurrence agrees with the final table -/
theorem resolveNums_spec (nums : List Nat) :
    ∀ s : LabState, LabInv s →
      LabInv (resolveNums s nums).2
      ∧ (∀ m o : Nat, s.tab.lookup m = some o → (resolveNums s nums).2.tab.lookup m = some o)
      ∧ (∀ a : Occ, a ∈ (resolveNums s nums).1 → (resolveNums s nums).2.tab.lookup a.num = some a.obj)
      ∧ s.next ≤ (resolveNums s nums).2.next := by
  induction nums with
  | nil => intro s h; simp [resolveNums, h]
  | cons n r ih =>
    intro s h
    have h1 := toLab_inv s n h
    obtain ⟨i1, i2, i3, i4⟩ := ih (toLab s n).2 h1
    simp only [resolveNums]
    refine ⟨i1, ?_, ?_, ?_⟩
    · intro m o hm
      exact i2 m o (toLab_lookup_mono s n m o hm)
    · intro a ha
      simp only [List.mem_cons] at ha
      rcases ha with rfl | ha
      · exact i2 _ _ (toLab_lookup_self s n)
      · exact i3 a ha
    · have := toLab_next_le s n
      omega

/-- inside one function: same number ⇔ same object -/
theorem resolveNums_identity (nums : List Nat) (s : LabState) (h : LabInv s) (a b : Occ)
    (ha : a ∈ (resolveNums s nums).1) (hb : b ∈ (resolveNums s nums).1) :
    a.num = b.num ↔ a.obj = b.obj := by
  obtain ⟨i1, _, i3, _⟩ := resolveNums_spec nums s h
  have la := i3 a ha
  have lb := i3 b hb
  constructor
  · intro e
    rw [e, lb] at la
    exact (Option.some.inj la).symm
  · intro e
    rw [e] at la
    exact i1.inj _ _ _ la lb

theorem resolveNums_nums (nums : List Nat) (s : LabState) :
    (resolveNums s nums).1.map Occ.num = nums := by
  induction nums generalizing s with
  | nil => rfl
  | cons n r ih => simp [resolveNums, ih]

end BinIO
