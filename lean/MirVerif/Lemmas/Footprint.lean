import MirVerif.Model.Footprint
/-! Helper lemmas for C18 (footprint model). -/
namespace MirVerif.Footprint

theorem run_frame (o : Op) (m : Mem) (l : Loc) (h : o.writes l = false) : o.run m l = m l := by
  simp [Op.run, h]

theorem run_written (o : Op) (m : Mem) (l : Loc) (h : o.writes l = true) : o.run m l = o.eff m l := by
  simp [Op.run, h]

theorem isCtx_ne {i j : Nat} (hij : i ≠ j) (l : Loc) (h : l.isCtx i = true) : l.visible j = false := by
  cases l with
  | ctx c a =>
    simp [Loc.isCtx] at h
    simp [Loc.visible, Loc.isCtx, Loc.isShared]
    omega
  | shared o a => simp [Loc.isCtx] at h

/-- operations confined to different contexts have disjoint footprints -/
theorem confined_disjoint {i j : Nat} (hij : i ≠ j) {a b : Op}
    (ha : a.Confined i) (hb : b.Confined j) : Disjoint a b := by
  intro l
  constructor
  · intro hw
    have hv := isCtx_ne hij l (ha.1 l hw)
    constructor
    · cases hr : b.reads l with
      | false => rfl
      | true => have := hb.2 l hr; simp [hv] at this
    · cases hw' : b.writes l with
      | false => rfl
      | true =>
        have h1 := hb.1 l hw'
        have : l.visible j = true := by simp [Loc.visible, h1]
        simp [hv] at this
  · intro hw
    have hv := isCtx_ne (Ne.symm hij) l (hb.1 l hw)
    constructor
    · cases hr : a.reads l with
      | false => rfl
      | true => have := ha.2 l hr; simp [hv] at this
    · cases hw' : a.writes l with
      | false => rfl
      | true =>
        have h1 := ha.1 l hw'
        have : l.visible i = true := by simp [Loc.visible, h1]
        simp [hv] at this

/-- an operation confined to another context is invisible to context `i` -/
theorem run_agree_other {i j : Nat} (hij : j ≠ i) {o : Op} (ho : o.Confined j) (m : Mem) :
    AgreeOn i (o.run m) m := by
  intro l hv
  cases hw : o.writes l with
  | false => exact run_frame o m l hw
  | true =>
    have := isCtx_ne hij l (ho.1 l hw)
    simp [hv] at this

/-- an operation of context `i` maps memories that look the same to `i` to such memories -/
theorem run_agree_same {i : Nat} {o : Op} (hr : o.Respects) (ho : o.Confined i) {m m' : Mem}
    (h : AgreeOn i m m') : AgreeOn i (o.run m) (o.run m') ∧ o.res m = o.res m' := by
  have hrd : ∀ l, o.reads l = true → m l = m' l := fun l hl => h l (ho.2 l hl)
  have := hr m m' hrd
  refine ⟨?_, this.1⟩
  intro l hv
  cases hw : o.writes l with
  | false => rw [run_frame o m l hw, run_frame o m' l hw]; exact h l hv
  | true => rw [run_written o m l hw, run_written o m' l hw]; exact this.2 l hw

theorem agreeOn_trans {i : Nat} {a b c : Mem} (h1 : AgreeOn i a b) (h2 : AgreeOn i b c) : AgreeOn i a c :=
  fun l hv => (h1 l hv).trans (h2 l hv)

theorem agreeOn_refl (i : Nat) (m : Mem) : AgreeOn i m m := fun _ _ => rfl

theorem own_cons_same (i : Nat) (o : Op) (tr : Trace) : own i ((i, o) :: tr) = (i, o) :: own i tr := by
  simp [own, List.filter]

theorem own_cons_other {i j : Nat} (h : j ≠ i) (o : Op) (tr : Trace) : own i ((j, o) :: tr) = own i tr := by
  have : (j == i) = false := by simp [h]
  simp [own, List.filter, this]

theorem resultsOf_cons_same (i : Nat) (v : Val) (log : List (Nat × Val)) :
    resultsOf i ((i, v) :: log) = v :: resultsOf i log := by
  simp [resultsOf, List.filter]

theorem resultsOf_cons_other {i j : Nat} (h : j ≠ i) (v : Val) (log : List (Nat × Val)) :
    resultsOf i ((j, v) :: log) = resultsOf i log := by
  have : (j == i) = false := by simp [h]
  simp [resultsOf, List.filter, this]

/-- the generalised simulation: an arbitrary interleaving started in `m` and thread `i`'s own
operations started in any `m'` that looks the same to `i` stay in step -/
theorem exec_sim (i : Nat) :
    ∀ (tr : Trace), (∀ e ∈ tr, e.2.Respects ∧ e.2.Confined e.1) →
    ∀ m m' : Mem, AgreeOn i m m' →
      AgreeOn i (exec tr m).1 (exec (own i tr) m').1 ∧
      resultsOf i (exec tr m).2 = resultsOf i (exec (own i tr) m').2 := by
  intro tr
  induction tr with
  | nil => intro _ m m' h; exact ⟨h, rfl⟩
  | cons e tr ih =>
    intro hall m m' h
    obtain ⟨j, o⟩ := e
    have ho := hall (j, o) (List.mem_cons_self ..)
    have hrest : ∀ e ∈ tr, e.2.Respects ∧ e.2.Confined e.1 :=
      fun e he => hall e (List.mem_cons_of_mem _ he)
    by_cases hji : j = i
    · subst hji
      rw [own_cons_same]
      have hs := run_agree_same ho.1 ho.2 h
      have := ih hrest (o.run m) (o.run m') hs.1
      simp only [exec]
      refine ⟨this.1, ?_⟩
      rw [resultsOf_cons_same, resultsOf_cons_same, this.2, hs.2]
    · rw [own_cons_other hji]
      have hs : AgreeOn i (o.run m) m' := agreeOn_trans (run_agree_other hji ho.2 m) h
      have := ih hrest (o.run m) m' hs
      simp only [exec]
      refine ⟨this.1, ?_⟩
      rw [resultsOf_cons_other hji]; exact this.2

/-- in a run of thread `i`'s own operations every logged result is `i`'s -/
theorem resultsOf_own (i : Nat) : ∀ (tr : Trace) (m : Mem),
    resultsOf i (exec (own i tr) m).2 = (exec (own i tr) m).2.map (·.2) := by
  intro tr
  induction tr with
  | nil => intro m; rfl
  | cons e tr ih =>
    intro m
    obtain ⟨j, o⟩ := e
    by_cases hji : j = i
    · subst hji
      rw [own_cons_same]
      simp only [exec, resultsOf_cons_same, List.map_cons, ih]
    · rw [own_cons_other hji]; exact ih m

/-- shared locations are never modified by confined operations -/
theorem exec_shared_unchanged :
    ∀ (tr : Trace), (∀ e ∈ tr, e.2.Confined e.1) →
    ∀ (m : Mem) (l : Loc), l.isShared = true → (exec tr m).1 l = m l := by
  intro tr
  induction tr with
  | nil => intro _ m l _; rfl
  | cons e tr ih =>
    intro hall m l hl
    obtain ⟨j, o⟩ := e
    have ho := hall (j, o) (List.mem_cons_self ..)
    simp only [exec]
    rw [ih (fun e he => hall e (List.mem_cons_of_mem _ he)) (o.run m) l hl]
    cases hw : o.writes l with
    | false => exact run_frame o m l hw
    | true =>
      have := ho.1 l hw
      cases l with
      | ctx c a => simp [Loc.isShared] at hl
      | shared o' a => simp [Loc.isCtx] at this

theorem exec_append (t1 t2 : Trace) (m : Mem) :
    exec (t1 ++ t2) m = ((exec t2 (exec t1 m).1).1, (exec t1 m).2 ++ (exec t2 (exec t1 m).1).2) := by
  induction t1 generalizing m with
  | nil => simp [exec]
  | cons e t1 ih =>
    obtain ⟨j, o⟩ := e
    simp only [List.cons_append, exec, ih]

theorem resultsOf_swap (k i j : Nat) (hij : i ≠ j) (x y : Val) (l : List (Nat × Val)) :
    resultsOf k ((i, x) :: (j, y) :: l) = resultsOf k ((j, y) :: (i, x) :: l) := by
  by_cases hi : i = k
  · subst hi
    rw [resultsOf_cons_same, resultsOf_cons_other (Ne.symm hij), resultsOf_cons_other (Ne.symm hij),
      resultsOf_cons_same]
  · rw [resultsOf_cons_other hi]
    by_cases hj : j = k
    · subst hj; rw [resultsOf_cons_same, resultsOf_cons_same, resultsOf_cons_other hi]
    · rw [resultsOf_cons_other hj, resultsOf_cons_other hj, resultsOf_cons_other hi]

theorem resultsOf_append (k : Nat) (l1 l2 : List (Nat × Val)) :
    resultsOf k (l1 ++ l2) = resultsOf k l1 ++ resultsOf k l2 := by
  simp [resultsOf, List.filter_append]

/-- finite-footprint operations built by `mkOp` respect their declared read footprint -/
theorem mkOp_respects (id : Nat) (rs ws : List Loc) (c : Option Nat) : (mkOp id rs ws c).Respects := by
  intro m m' h
  have hmap : rs.map m = rs.map m' := by
    apply List.map_congr_left
    intro l hl
    exact h l (by simp [mkOp, hl])
  constructor
  · simp [mkOp, hmap]
  · intro l _
    cases c with
    | some v => simp [mkOp]
    | none => simp [mkOp, hmap]

theorem mkOp_confined (i id : Nat) (rs ws : List Loc) (c : Option Nat) (h : confinedB i rs ws = true) :
    (mkOp id rs ws c).Confined i := by
  simp [confinedB, List.all_eq_true] at h
  constructor
  · intro l hl
    have : l ∈ ws := by simpa [mkOp] using hl
    exact h.1 l this
  · intro l hl
    have : l ∈ rs := by simpa [mkOp] using hl
    exact h.2 l this

theorem lookup_map_self (g : Loc → Val) (l : Loc) (ws : List Loc) :
    (ws.map (fun x => (x, g x))).lookup l = if ws.contains l then some (g l) else none := by
  induction ws with
  | nil => simp
  | cons w ws ih =>
    simp only [List.map_cons, List.lookup_cons, List.contains_cons]
    by_cases h : l = w
    · subst h; simp
    · have h1 : (l == w) = false := by simp [h]
      simp [h1, ih]

/-- one tabulated step is one model step -/
theorem tabMem_stepTab (base : Mem) (f : FOp) (t : Tab) :
    tabMem base (stepTab base f t) = f.op.run (tabMem base t) := by
  funext l
  have hw : f.op.writes l = f.ws.contains l := rfl
  unfold Op.run
  rw [hw]
  unfold tabMem stepTab
  rw [List.lookup_append, lookup_map_self]
  cases h : f.ws.contains l <;> simp <;> rfl

/-- the tabulated execution run by the driver computes exactly `exec` -/
theorem execTab_eq (base : Mem) : ∀ (tr : List (Nat × FOp)) (t : Tab),
    tabMem base (execTab base tr t).1 = (exec (toTrace tr) (tabMem base t)).1 ∧
    (execTab base tr t).2 = (exec (toTrace tr) (tabMem base t)).2 := by
  intro tr
  induction tr with
  | nil => intro t; exact ⟨rfl, rfl⟩
  | cons e tr ih =>
    intro t
    obtain ⟨i, f⟩ := e
    have := ih (stepTab base f t)
    rw [tabMem_stepTab] at this
    simp only [execTab, toTrace, List.map_cons, exec]
    exact ⟨this.1, by rw [this.2]; rfl⟩

/-- thread `i`'s program can be selected before or after turning descriptions into operations -/
theorem own_toTrace (i : Nat) (tr : List (Nat × FOp)) :
    own i (toTrace tr) = toTrace (tr.filter (fun e => e.1 == i)) := by
  induction tr with
  | nil => rfl
  | cons e tr ih =>
    obtain ⟨j, f⟩ := e
    by_cases h : j = i
    · subst h
      simp only [toTrace, List.map_cons] at ih ⊢
      rw [own_cons_same, ih]
      simp [List.filter]
    · have hb : (j == i) = false := by simp [h]
      simp only [toTrace, List.map_cons] at ih ⊢
      rw [own_cons_other h, ih]
      simp [List.filter, hb]

end MirVerif.Footprint
