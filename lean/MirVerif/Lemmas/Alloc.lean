/-
C17 helper lemmas: lawfulness of the two live-map implementations, `run` over appended traces,
page arithmetic for arbitrary page size.
-/
import MirVerif.Model.Alloc

namespace MirVerif.Alloc

/-! ### association lists -/

theorem lookup_filter_ne {β : Type} (l : List (Nat × β)) (k a : Nat) :
    (l.filter (fun p => p.1 != k)).lookup a = if a = k then none else l.lookup a := by
  induction l with
  | nil => simp [List.lookup]
  | cons x xs ih =>
    obtain ⟨x1, x2⟩ := x
    by_cases hx : x1 = k
    · subst hx
      simp only [List.filter_cons, bne_self_eq_false, Bool.false_eq_true, ↓reduceIte, ih, List.lookup]
      by_cases ha : a = x1
      · simp [ha]
      · have : (a == x1) = false := by simp [ha]
        simp [ha, this]
    · have h1 : (x1 != k) = true := by simp [hx]
      simp only [List.filter_cons, h1, ↓reduceIte, List.lookup, ih]
      by_cases ha : a = x1
      · subst ha; simp [hx]
      · have : (a == x1) = false := by simp [ha]
        simp [this]

theorem lookup_set {β : Type} (l : List (Nat × β)) (k a : Nat) (v : β) :
    ((k, v) :: l.filter (fun p => p.1 != k)).lookup a = if a = k then some v else l.lookup a := by
  by_cases ha : a = k
  · subst ha; simp [List.lookup]
  · have : (a == k) = false := by simp [ha]
    simp [List.lookup, this, lookup_filter_ne, ha]

instance : LawfulLiveMap AList where
  get?_empty k := by simp [LiveMap.get?, LiveMap.empty]
  get?_insert m k v a := by
    simp only [LiveMap.get?, LiveMap.insert, AList.erase]
    exact lookup_set m k a v
  get?_erase m k a := by
    simp only [LiveMap.get?, LiveMap.erase, AList.erase]
    exact lookup_filter_ne m k a
  isEmpty_iff m := by
    simp only [LiveMap.isEmpty, LiveMap.get?]
    cases m with
    | nil => simp [List.lookup]
    | cons x xs =>
      simp only [List.isEmpty_cons, Bool.false_eq_true, false_iff]
      intro h
      have := h x.1
      simp [List.lookup] at this

instance : LawfulLiveMap (Std.HashMap Nat Nat) where
  get?_empty k := by simp [LiveMap.get?, LiveMap.empty]
  get?_insert m k v a := by
    simp only [LiveMap.get?, LiveMap.insert, Std.HashMap.getElem?_insert, beq_iff_eq]
    by_cases h : a = k
    · simp [h]
    · have : ¬ k = a := fun e => h e.symm
      simp [h, this]
  get?_erase m k a := by
    simp only [LiveMap.get?, LiveMap.erase, Std.HashMap.getElem?_erase, beq_iff_eq]
    by_cases h : a = k
    · simp [h]
    · have : ¬ k = a := fun e => h e.symm
      simp [h, this]
  isEmpty_iff m := by
    simp only [LiveMap.isEmpty, LiveMap.get?, Std.HashMap.isEmpty_iff_forall_not_mem]
    constructor
    · intro h k; exact Std.HashMap.getElem?_eq_none (h k)
    · intro h k hk
      have := Std.HashMap.mem_iff_isSome_getElem?.mp hk
      simp [h k] at this

/-! ### running traces -/

variable {M : Type} [LiveMap M]

theorem run_append (L : Ledger M) (a b : List Ev) :
    run L (a ++ b) = match run L a with
      | .ok L' => run L' b
      | .error v => .error v := by
  induction a generalizing L with
  | nil => simp [run]
  | cons e es ih =>
    simp only [List.cons_append, run]
    cases step L e with
    | ok L' => simp [ih]
    | error v => simp

theorem run_append_ok {L L' L'' : Ledger M} {a b : List Ev}
    (h1 : run L a = .ok L') (h2 : run L' b = .ok L'') : run L (a ++ b) = .ok L'' := by
  rw [run_append, h1]; exact h2

theorem run_nil (L : Ledger M) : run L [] = .ok L := rfl

theorem run_cons_ok {L L' L'' : Ledger M} {e : Ev} {es : List Ev}
    (h1 : step L e = .ok L') (h2 : run L' es = .ok L'') : run L (e :: es) = .ok L'' := by
  simp [run, h1, h2]

theorem run_single {L L' : Ledger M} {e : Ev} (h : step L e = .ok L') : run L [e] = .ok L' := by
  simp [run, h]

/-- the realloc contract is what `step` enforces: an accepted `realloc` of a non-NULL block reports
exactly the size the ledger holds for it -/
theorem step_realloc_ok {L L' : Ledger M} {ptr old new ret : Nat}
    (h : step L (.realloc ptr old new ret) = .ok L') (hp : ptr ≠ 0) :
    LiveMap.get? L.live ptr = some old := by
  simp only [step, hp, ↓reduceIte] at h
  cases hg : LiveMap.get? L.live ptr with
  | none => simp [hg] at h
  | some sz =>
    simp only [hg] at h
    by_cases hs : sz = old
    · simp [hs]
    · simp [hs] at h


/-! ### the in-place formulation used by the native monitor equals `step` -/

theorem allocNew_eq (L : Ledger M) (ret size : Nat) :
    allocNew L ret size = match checkNew L ret with
      | none => .ok { L with live := LiveMap.insert L.live ret size }
      | some v => .error v := by
  unfold allocNew checkNew
  by_cases h : ret = 0
  · simp [h]
  · simp only [h, ↓reduceIte]
    cases LiveMap.get? L.live ret <;> rfl

theorem step_eq_check_apply [LawfulLiveMap M] (L : Ledger M) (e : Ev) :
    step L e = match check L e with
      | none => .ok (applyEv L e)
      | some v => .error v := by
  cases e with
  | malloc size ret => simp only [step, check, applyEv, allocNew_eq]
  | calloc num size ret => simp only [step, check, applyEv, allocNew_eq]
  | realloc ptr old new ret =>
    simp only [step, check, applyEv]
    by_cases hp : ptr = 0
    · simp only [hp, ↓reduceIte]
      by_cases ho : old = 0
      · simp only [ho, ↓reduceIte, allocNew_eq]
      · simp [ho]
    · simp only [hp, ↓reduceIte]
      cases hg : LiveMap.get? L.live ptr with
      | none => rfl
      | some sz =>
        simp only
        by_cases hs : sz = old
        · simp only [hs, ↓reduceIte, allocNew, LawfulLiveMap.get?_erase]
          by_cases hr : ret = 0
          · simp [hr]
          · simp only [hr, ↓reduceIte]
            by_cases hrp : ret = ptr
            · simp [hrp]
            · simp only [hrp, ↓reduceIte]
              cases LiveMap.get? L.live ret <;> rfl
        · simp [hs]
  | free ptr =>
    simp only [step, check, applyEv]
    by_cases hp : ptr = 0
    · simp [hp]
    · simp only [hp, ↓reduceIte]
      cases LiveMap.get? L.live ptr <;> rfl
  | raw fn ptr size caller =>
    simp only [step, check]
    cases LiveMap.get? L.live ptr with
    | none => rfl
    | some _ => simp only; split <;> rfl
  | map len ret =>
    simp only [step, check, applyEv]
    split
    · rfl
    · split
      · rfl
      · split <;> rfl
  | unmap ptr len =>
    simp only [step, check, applyEv]
    split
    · split <;> rfl
    · rfl
  | protect ptr len p =>
    simp only [step, check, applyEv]
    split
    · rfl
    · split
      · rfl
      · split
        · cases p <;> rfl
        · rfl
  | write ptr len =>
    simp only [step, check, applyEv]
    split <;> rfl
  | quiesce =>
    simp only [step, check, applyEv]
    cases L.wr <;> rfl
  | fin =>
    simp only [step, check, applyEv]
    cases L.wr with
    | cons p ps => rfl
    | nil =>
      cases L.maps with
      | cons r rs => rfl
      | nil => simp only; split <;> rfl

/-- the monitor reports exactly `step`'s verdicts -/
theorem stepLenient_spec [LawfulLiveMap M] (L : Ledger M) (e : Ev) :
    stepLenient L e = match step L e with
      | .ok L' => (L', none)
      | .error v => (recover L e, some v) := by
  rw [step_eq_check_apply]
  unfold stepLenient
  cases check L e <;> rfl

/-! ### page arithmetic (any page size `ps > 0`) -/

theorem roundDown_le (ps x : Nat) : x / ps * ps ≤ x := Nat.div_mul_le_self x ps

theorem roundDown_mod (ps x : Nat) : x / ps * ps % ps = 0 := Nat.mul_mod_left _ _

theorem le_roundUp {ps : Nat} (h : 0 < ps) (x : Nat) : x ≤ roundUp ps x := by
  unfold roundUp
  have h1 := Nat.div_add_mod (x + ps - 1) ps
  have h2 := Nat.mod_lt (x + ps - 1) h
  have h3 : (x + ps - 1) / ps * ps = ps * ((x + ps - 1) / ps) := Nat.mul_comm _ _
  omega

theorem roundUp_mod (ps x : Nat) : roundUp ps x % ps = 0 := Nat.mul_mod_left _ _

theorem roundUp_of_mod {ps x : Nat} (h : 0 < ps) (hx : x % ps = 0) : roundUp ps x = x := by
  unfold roundUp
  obtain ⟨k, rfl⟩ := Nat.dvd_of_mod_eq_zero hx
  have : (ps * k + ps - 1) / ps = k := by
    rw [show ps * k + ps - 1 = (ps - 1) + ps * k by omega, Nat.add_mul_div_left _ _ h]
    rw [Nat.div_eq_of_lt (by omega)]; simp
  rw [this, Nat.mul_comm]

theorem roundUp_mono {ps x y : Nat} (h : x ≤ y) : roundUp ps x ≤ roundUp ps y := by
  unfold roundUp
  exact Nat.mul_le_mul_right _ (Nat.div_le_div_right (by omega))

/-- a multiple of `ps` below `a` is below `a` rounded down -/
theorem le_roundDown_of_mod {ps s a : Nat} (hs : s % ps = 0) (h : s ≤ a) : s ≤ a / ps * ps := by
  by_cases hps : ps = 0
  · subst hps; simp at hs; omega
  obtain ⟨k, rfl⟩ := Nat.dvd_of_mod_eq_zero hs
  have : k ≤ a / ps := by
    rw [Nat.le_div_iff_mul_le (by omega)]; rw [Nat.mul_comm]; exact h
  calc ps * k = k * ps := Nat.mul_comm _ _
    _ ≤ a / ps * ps := Nat.mul_le_mul_right _ this

theorem roundUp_le_of_mod {ps x y : Nat} (hps : 0 < ps) (hy : y % ps = 0) (h : x ≤ y) : roundUp ps x ≤ y := by
  have := roundUp_mono (ps := ps) h
  rwa [roundUp_of_mod hps hy] at this

theorem mem_pagesOf {ps ptr len p : Nat} :
    p ∈ pagesOf ps ptr len ↔ 0 < len ∧ ptr / ps ≤ p ∧ p ≤ (ptr + len - 1) / ps := by
  unfold pagesOf
  by_cases hl : len = 0
  · simp [hl]
  · simp only [hl, ↓reduceIte, List.mem_range'_1]
    have : ptr / ps ≤ (ptr + len - 1) / ps := Nat.div_le_div_right (by omega)
    omega

/-- pages of a byte range inside another byte range are pages of the latter -/
theorem pagesOf_subset {ps a n s l p : Nat} (hs : s ≤ a) (he : a + n ≤ s + l)
    (hp : p ∈ pagesOf ps a n) : p ∈ pagesOf ps s l := by
  rw [mem_pagesOf] at hp ⊢
  obtain ⟨hn, h1, h2⟩ := hp
  refine ⟨by omega, Nat.le_trans (Nat.div_le_div_right hs) h1, Nat.le_trans h2 (Nat.div_le_div_right (by omega))⟩

end MirVerif.Alloc
