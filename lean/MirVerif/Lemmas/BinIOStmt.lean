import MirVerif.Lemmas.BinIOOp
/-!
# C11 lemmas, part 4: statements (`write_item`, `write_insn`, … / one iteration of the reader loop)
-/
namespace BinIO

/-! ### sizes: every token takes at least one byte (fuel of the reader loops) -/

theorem encTok_length_pos (tab : List Str) (t : STok) : 1 ≤ (encTok tab t).length := by
  cases t <;> simp [encTok, writeUint, writeInt, writeFloat, writeDouble, writeLdouble, writeIdx]
  · split <;> simp

theorem length_le_flatMap {α β : Type} (l : List α) (f : α → List β)
    (h : ∀ x : α, x ∈ l → 1 ≤ (f x).length) : l.length ≤ (l.flatMap f).length := by
  induction l with
  | nil => simp
  | cons a l ih =>
    have h1 := h a List.mem_cons_self
    have h2 := ih (fun x hx => h x (List.mem_cons_of_mem _ hx))
    simp only [List.length_cons, List.flatMap_cons, List.length_append]
    omega

theorem toks_length_le (tab : List Str) (toks : List STok) :
    toks.length ≤ (toks.flatMap (encTok tab)).length :=
  length_le_flatMap _ _ (fun t _ => encTok_length_pos tab t)

/-! ### keywords -/

theorem kwOf_bytes (k : Kw) : kwOf k.bytes = some k := by
  cases k <;> decide

theorem Kw.bytes_ne_zero (k : Kw) : ∀ b : Nat, b ∈ k.bytes → b ≠ 0 := by
  cases k <;> decide

theorem kwOf_cstr (k : Kw) : kwOf (cstr (k.bytes ++ [0])) = some k := by
  rw [cstr_name _ (Kw.bytes_ne_zero k), kwOf_bytes]

/-! ### operand lists -/

theorem readOpsFixed_enc (tab : List Str) (ops : List Op) (rest : List Byte)
    (hw : ∀ o : Op, o ∈ ops → OpOK o) (hin : InTab tab (ops.flatMap toksOp)) (hl : tab.length ≤ 2 ^ 32) :
    readOpsFixed tab ops.length ((ops.flatMap toksOp).flatMap (encTok tab) ++ rest) = .ok (ops, rest) := by
  induction ops with
  | nil => simp [readOpsFixed]
  | cons o ops ih =>
    have h1 := hw o List.mem_cons_self
    have hin1 : InTab tab (toksOp o) := by
      simp only [List.flatMap_cons] at hin; exact hin.append_left
    have hin2 : InTab tab (ops.flatMap toksOp) := by
      simp only [List.flatMap_cons] at hin; exact hin.append_right
    have ih' := ih (fun x hx => hw x (List.mem_cons_of_mem _ hx)) hin2
    simp only [List.length_cons, readOpsFixed, List.flatMap_cons, List.flatMap_append,
      List.append_assoc, P.bind_apply, readOperand_enc tab o _ h1 hin1 hl, ih', P.pure_apply]

theorem readOperand_eoi (tab : List Str) (rest : List Byte) :
    readOperand tab (61 :: rest) = .ok (none, rest) := by
  simp [readOperand, operandOfTok]

theorem readOpsVar_enc (tab : List Str) (ops : List Op) (fuel : Nat) (rest : List Byte)
    (hw : ∀ o : Op, o ∈ ops → OpOK o) (hin : InTab tab (ops.flatMap toksOp)) (hl : tab.length ≤ 2 ^ 32)
    (hf : ops.length < fuel) :
    readOpsVar tab fuel ((ops.flatMap toksOp).flatMap (encTok tab) ++ 61 :: rest) = .ok (ops, rest) := by
  induction ops generalizing fuel with
  | nil =>
    cases fuel with
    | zero => omega
    | succ f => simp [readOpsVar, readOperand_eoi]
  | cons o ops ih =>
    cases fuel with
    | zero => simp at hf
    | succ f =>
      have h1 := hw o List.mem_cons_self
      have hin1 : InTab tab (toksOp o) := by
        simp only [List.flatMap_cons] at hin; exact hin.append_left
      have hin2 : InTab tab (ops.flatMap toksOp) := by
        simp only [List.flatMap_cons] at hin; exact hin.append_right
      have ih' := ih f (fun x hx => hw x (List.mem_cons_of_mem _ hx)) hin2 (by simp at hf; omega)
      simp only [readOpsVar, List.flatMap_cons, List.flatMap_append, List.append_assoc, P.bind_apply,
        readOperand_enc tab o _ h1 hin1 hl, ih', P.pure_apply]

/-! ### labels in front of a statement -/

theorem readLabs_enc (labs : List Nat) (fuel : Nat) (x : List Byte) (t : Tok) (r : List Byte)
    (hw : ∀ l : Nat, l ∈ labs → l < 2 ^ 32) (hx : readToken x = .ok (t, r))
    (ht : ∀ n, t ≠ .lab n) (hf : labs.length < fuel) :
    readLabs fuel (labs.flatMap (writeIdx Tag.lab1) ++ x) = .ok ((labs, t), r) := by
  induction labs generalizing fuel with
  | nil =>
    cases fuel with
    | zero => omega
    | succ f =>
      simp only [readLabs, List.flatMap_nil, List.nil_append, P.bind_apply, hx]
      cases t <;> simp_all
  | cons l labs ih =>
    cases fuel with
    | zero => simp at hf
    | succ f =>
      have h1 := hw l List.mem_cons_self
      have ih' := ih f (fun x hx => hw x (List.mem_cons_of_mem _ hx)) (by simp at hf; omega)
      simp only [readLabs, List.flatMap_cons, List.append_assoc, P.bind_apply,
        readToken_writeIdx_lab l _ h1, ih', P.pure_apply]

/-! ### prototypes -/

theorem readResTypes_enc (res : List Nat) (rest : List Byte) (hw : ∀ t : Nat, t ∈ res → t ≤ 17) :
    readResTypes res.length ((res.map (fun t => STok.raw (Tag.ti8 + t))).flatMap (encTok tab) ++ rest)
      = .ok (res, rest) := by
  induction res with
  | nil => simp [readResTypes]
  | cons t res ih =>
    have h1 := hw t List.mem_cons_self
    have ih' := ih (fun x hx => hw x (List.mem_cons_of_mem _ hx))
    simp only [List.length_cons, readResTypes, List.map_cons, List.flatMap_cons, encTok_raw,
      List.cons_append, List.nil_append, P.bind_apply, readToken_type t _ h1, ih', P.pure_apply]

theorem readArgs_enc (tab : List Str) (args : List Var) (fuel : Nat) (rest : List Byte)
    (hw : ∀ v : Var, v ∈ args → VarOK v) (hin : InTab tab (args.flatMap toksVar))
    (hl : tab.length ≤ 2 ^ 32) (hf : args.length < fuel) :
    readArgs tab fuel ((args.flatMap toksVar).flatMap (encTok tab) ++ 61 :: rest) = .ok (args, rest) := by
  induction args generalizing fuel with
  | nil =>
    cases fuel with
    | zero => omega
    | succ f => simp [readArgs]
  | cons v args ih =>
    cases fuel with
    | zero => simp at hf
    | succ f =>
      obtain ⟨hty, hnm, hsz, hblk⟩ := hw v List.mem_cons_self
      have hin1 : InTab tab (toksVar v) := by
        simp only [List.flatMap_cons] at hin; exact hin.append_left
      have hin2 : InTab tab (args.flatMap toksVar) := by
        simp only [List.flatMap_cons] at hin; exact hin.append_right
      have hn : v.name ++ [0] ∈ tab := hin1 (.name v.name) (by simp [toksVar]) _ rfl
      have ih' := ih f (fun x hx => hw x (List.mem_cons_of_mem _ hx)) hin2 (by simp at hf; omega)
      rcases v with ⟨ty, nm, sz⟩
      simp only at hty hnm hsz hblk hn
      cases hb : isBlkTy ty
      · have : sz = 0 := hblk hb
        subst this
        simp [readArgs, toksVar, hb, readToken_type ty _ hty,
          readName_enc tab _ nm _ hn hl hnm.ne_zero, ih']
      · simp [readArgs, toksVar, hb, readToken_type ty _ hty,
          readName_enc tab _ nm _ hn hl hnm.ne_zero, readUint_writeUint _ sz _ hsz, ih']

theorem readProto_enc (tab : List Str) (va : Bool) (res : List Nat) (args : List Var) (rest : List Byte)
    (hr : res.length < 2 ^ 64) (hrt : ∀ t : Nat, t ∈ res → t ≤ 17)
    (hw : ∀ v : Var, v ∈ args → VarOK v) (hin : InTab tab (toksProto va res args))
    (hl : tab.length ≤ 2 ^ 32) :
    readProto tab ((toksProto va res args).flatMap (encTok tab) ++ rest) = .ok ((va, res, args), rest) := by
  have hin2 : InTab tab (args.flatMap toksVar) :=
    hin.of_subset (fun t ht => by simp [toksProto]; right; right; right; left; simpa using ht)
  have hlen : args.length <
      (((toksProto va res args).flatMap (encTok tab) ++ rest).length) + 1 := by
    have h1 := toks_length_le tab (toksProto va res args)
    have h2 := length_le_flatMap args toksVar (fun v _ => by simp [toksVar])
    have h3 : (args.flatMap toksVar).length ≤ (toksProto va res args).length := by
      simp only [toksProto, List.length_append, List.length_cons, List.length_nil, List.length_map]
      omega
    simp only [List.length_append]
    omega
  unfold readProto
  have hva : (if va = true then 1 else 0) < 2 ^ 64 := by split <;> omega
  simp only [toksProto, List.flatMap_append, List.flatMap_cons, List.flatMap_nil, List.append_nil,
    List.append_assoc, encTok_uint, encTok_raw, List.cons_append, List.nil_append, P.bind_apply,
    readUint_writeUint _ _ _ hva, readUint_writeUint _ _ _ hr, readResTypes_enc res _ hrt]
  simp only [toksProto, List.flatMap_append, List.flatMap_cons, List.flatMap_nil, List.append_nil,
    List.append_assoc, encTok_uint, encTok_raw, List.cons_append, List.nil_append] at hlen
  rw [readArgs_enc tab args _ rest hw hin2 hl hlen]
  cases va <;> simp

/-! ### data elements -/

theorem sext_lt (w v : Nat) (hw : w = 8 ∨ w = 16 ∨ w = 32) (hv : v < 2 ^ w) : sext w v < 2 ^ 64 := by
  unfold sext
  rcases hw with rfl | rfl | rfl <;> split <;> omega

theorem sext_mod (w v : Nat) (hw : w = 8 ∨ w = 16 ∨ w = 32) (hv : v < 2 ^ w) : sext w v % 2 ^ w = v := by
  unfold sext
  rcases hw with rfl | rfl | rfl <;> split <;> omega

theorem readDataEls_enc (cfg : Cfg) (tab : List Str) (ty : Nat) (els : List Nat) (fuel : Nat)
    (rest : List Byte) (hw : DataOK cfg ty els) (hf : els.length < fuel) :
    readDataEls cfg ty fuel ((els.map (toksDataEl ty)).flatMap (encTok tab) ++ 61 :: rest)
      = .ok (els, rest) := by
  obtain ⟨hty, hels⟩ := hw
  induction els generalizing fuel with
  | nil =>
    cases fuel with
    | zero => omega
    | succ f => simp [readDataEls]
  | cons v els ih =>
    cases fuel with
    | zero => simp at hf
    | succ f =>
      have hv := hels v List.mem_cons_self
      have ih' := ih f (by simp at hf; omega) (fun x hx => hels x (List.mem_cons_of_mem _ hx))
      have hc : ty = 0 ∨ ty = 1 ∨ ty = 2 ∨ ty = 3 ∨ ty = 4 ∨ ty = 5 ∨ ty = 6 ∨ ty = 7 ∨ ty = 8 ∨ ty = 9
          ∨ ty = 10 ∨ (ty = 11 ∧ cfg.dataPtr = true) := by
        rcases hty with h | h
        · have h' : (ty : Nat) ≤ (10 : Nat) := h
          have : ty = 0 ∨ ty = 1 ∨ ty = 2 ∨ ty = 3 ∨ ty = 4 ∨ ty = 5 ∨ ty = 6 ∨ ty = 7 ∨ ty = 8 ∨ ty = 9
              ∨ ty = 10 := by omega
          rcases this with h | h | h | h | h | h | h | h | h | h | h <;> simp [h]
        · simp [h]
      rcases hc with rfl | rfl | rfl | rfl | rfl | rfl | rfl | rfl | rfl | rfl | rfl | ⟨rfl, hp⟩
      · have h1 := sext_lt 8 v (by simp) hv
        have h2 := sext_mod 8 v (by simp) hv
        simp_all [readDataEls, toksDataEl, tyBits, readToken_writeInt]
      · have h1 : v < 2 ^ 64 := by simp [tyBits] at hv; omega
        have h2 : v % 2 ^ 8 = v := by simp [tyBits] at hv; omega
        simp_all [readDataEls, toksDataEl, tyBits, readToken_writeUint]
      · have h1 := sext_lt 16 v (by simp) hv
        have h2 := sext_mod 16 v (by simp) hv
        simp_all [readDataEls, toksDataEl, tyBits, readToken_writeInt]
      · have h1 : v < 2 ^ 64 := by simp [tyBits] at hv; omega
        have h2 : v % 2 ^ 16 = v := by simp [tyBits] at hv; omega
        simp_all [readDataEls, toksDataEl, tyBits, readToken_writeUint]
      · have h1 := sext_lt 32 v (by simp) hv
        have h2 := sext_mod 32 v (by simp) hv
        simp_all [readDataEls, toksDataEl, tyBits, readToken_writeInt]
      · have h1 : v < 2 ^ 64 := by simp [tyBits] at hv; omega
        have h2 : v % 2 ^ 32 = v := by simp [tyBits] at hv; omega
        simp_all [readDataEls, toksDataEl, tyBits, readToken_writeUint]
      · have h1 : v < 2 ^ 64 := by simpa [tyBits] using hv
        have h2 : v % 2 ^ 64 = v := Nat.mod_eq_of_lt h1
        simp_all [readDataEls, toksDataEl, tyBits, readToken_writeInt]
      · have h1 : v < 2 ^ 64 := by simpa [tyBits] using hv
        have h2 : v % 2 ^ 64 = v := Nat.mod_eq_of_lt h1
        simp_all [readDataEls, toksDataEl, tyBits, readToken_writeUint]
      · have h1 : v < 2 ^ 32 := by simpa [tyBits] using hv
        simp_all [readDataEls, toksDataEl, tyBits, readToken_writeFloat]
      · have h1 : v < 2 ^ 64 := by simpa [tyBits] using hv
        simp_all [readDataEls, toksDataEl, tyBits, readToken_writeDouble]
      · have h1 : v < 2 ^ 80 := by simpa [tyBits] using hv
        simp_all [readDataEls, toksDataEl, tyBits, readToken_writeLdouble]
      · have h1 : v < 2 ^ 64 := by simpa [tyBits] using hv
        have h2 : v % 2 ^ 64 = v := Nat.mod_eq_of_lt h1
        simp_all [readDataEls, toksDataEl, tyBits, readToken_writeUint]

/-! ### `local` / `global` -/

def localToks (vs : List (Nat × Name)) : List STok :=
  vs.flatMap (fun v => [STok.raw (Tag.ti8 + v.1), STok.name v.2]) ++ [STok.raw Tag.eoi]
def globalToks (vs : List (Nat × Name × Name)) : List STok :=
  vs.flatMap (fun v => [STok.raw (Tag.ti8 + v.1), STok.name v.2.1, STok.name v.2.2]) ++ [STok.raw Tag.eoi]

theorem readVars_local_enc (cfg : Cfg) (tab : List Str) (vs : List (Nat × Name)) (fuel : Nat)
    (rest : List Byte) (hw : ∀ v : Nat × Name, v ∈ vs → v.1 ≤ 17 ∧ NameOK v.2)
    (hin : InTab tab (localToks vs)) (hl : tab.length ≤ 2 ^ 32) (hf : vs.length < fuel) :
    ∃ t r, readToken ((localToks vs).flatMap (encTok tab) ++ rest) = .ok (t, r)
      ∧ readVars cfg tab false fuel t r = .ok (vs.map (fun v => (v.1, v.2, none)), rest) := by
  induction vs generalizing fuel with
  | nil =>
    cases fuel with
    | zero => omega
    | succ f => exact ⟨.eoi, rest, by simp [localToks], by simp [readVars]⟩
  | cons v vs ih =>
    cases fuel with
    | zero => simp at hf
    | succ f =>
      obtain ⟨hty, hnm⟩ := hw v List.mem_cons_self
      have hn : v.2 ++ [0] ∈ tab := hin (.name v.2) (by simp [localToks]) _ rfl
      have hin2 : InTab tab (localToks vs) :=
        hin.of_subset (fun t ht => by
          simp only [localToks, List.flatMap_cons, List.mem_append, List.mem_cons] at ht ⊢
          rcases ht with h | h | h <;> simp_all)
      obtain ⟨t, r, h1, h2⟩ := ih f (fun x hx => hw x (List.mem_cons_of_mem _ hx)) hin2
        (by simp at hf; omega)
      refine ⟨.ty v.1, encTok tab (.name v.2) ++ ((localToks vs).flatMap (encTok tab) ++ rest), ?_, ?_⟩
      · simp only [localToks, List.flatMap_cons, List.flatMap_append, List.flatMap_nil, List.append_nil,
          List.append_assoc, encTok_raw, List.cons_append, List.nil_append]
        exact readToken_type v.1 _ hty
      · simp only [readVars, P.bind_apply, readName_enc tab _ v.2 _ hn hl hnm.ne_zero, List.flatMap_append,
          List.flatMap_cons, List.flatMap_nil, List.append_nil, List.append_assoc, h1, h2, P.pure_apply,
          List.map_cons, Bool.false_eq_true, if_false]

theorem readVars_global_enc (cfg : Cfg) (tab : List Str) (vs : List (Nat × Name × Name)) (fuel : Nat)
    (rest : List Byte) (hq : cfg.globalDoubleRead = false)
    (hw : ∀ v : Nat × Name × Name, v ∈ vs → v.1 ≤ 17 ∧ NameOK v.2.1 ∧ NameOK v.2.2)
    (hin : InTab tab (globalToks vs)) (hl : tab.length ≤ 2 ^ 32) (hf : vs.length < fuel) :
    ∃ t r, readToken ((globalToks vs).flatMap (encTok tab) ++ rest) = .ok (t, r)
      ∧ readVars cfg tab true fuel t r = .ok (vs.map (fun v => (v.1, v.2.1, some v.2.2)), rest) := by
  induction vs generalizing fuel with
  | nil =>
    cases fuel with
    | zero => omega
    | succ f => exact ⟨.eoi, rest, by simp [globalToks], by simp [readVars]⟩
  | cons v vs ih =>
    cases fuel with
    | zero => simp at hf
    | succ f =>
      obtain ⟨hty, hnm, hhr⟩ := hw v List.mem_cons_self
      have hn : v.2.1 ++ [0] ∈ tab := hin (.name v.2.1) (by simp [globalToks]) _ rfl
      have hh : v.2.2 ++ [0] ∈ tab := hin (.name v.2.2) (by simp [globalToks]) _ rfl
      have hin2 : InTab tab (globalToks vs) :=
        hin.of_subset (fun t ht => by
          simp only [globalToks, List.flatMap_cons, List.mem_append, List.mem_cons] at ht ⊢
          rcases ht with h | h | h <;> simp_all)
      obtain ⟨t, r, h1, h2⟩ := ih f (fun x hx => hw x (List.mem_cons_of_mem _ hx)) hin2
        (by simp at hf; omega)
      refine ⟨.ty v.1, encTok tab (.name v.2.1) ++ (encTok tab (.name v.2.2)
          ++ ((globalToks vs).flatMap (encTok tab) ++ rest)), ?_, ?_⟩
      · simp only [globalToks, List.flatMap_cons, List.flatMap_append, List.flatMap_nil, List.append_nil,
          List.append_assoc, encTok_raw, List.cons_append, List.nil_append]
        exact readToken_type v.1 _ hty
      · simp only [readVars, P.bind_apply, readName_enc tab _ v.2.1 _ hn hl hnm.ne_zero,
          List.flatMap_append, List.flatMap_cons, List.flatMap_nil, List.append_nil, List.append_assoc,
          readToken_name tab v.2.2 _ hh hl, hq, Bool.false_eq_true, if_false, if_true, P.pure_apply,
          toStr_idxOf tab _ hh, P.lift_ok, cstr_name v.2.2 hhr.ne_zero, h1, h2, List.map_cons]

/-! ### one statement -/

/-- a statement that starts with a reserved name (and no labels) is dispatched to `readKwStmt` -/
theorem readStmt_kw (cfg : Cfg) (tab : List Str) (k : Kw) (r : List Byte)
    (hin : k.bytes ++ [0] ∈ tab) (hl : tab.length ≤ 2 ^ 32) :
    readStmt cfg tab (encTok tab (.name k.bytes) ++ r) = readKwStmt cfg tab [] k r := by
  unfold readStmt
  simp only [readLabs, P.bind_apply, readToken_name tab k.bytes r hin hl, P.pure_apply,
    toStr_idxOf tab _ hin, P.lift_ok, kwOf_cstr]

theorem optName_enc (tab : List Str) (nm : Name) (msg : String) (r : List Byte)
    (hin : nm ++ [0] ∈ tab) (hl : tab.length ≤ 2 ^ 32) (hn : NameOK nm) :
    optName tab true msg (encTok tab (.name nm) ++ r) = .ok (some nm, r) := by
  simp [optName, readName_enc tab msg nm r hin hl hn.ne_zero]

/-- what the reader makes of a non-function item -/
def stmtOfItem : Item → Stmt
  | .import_ n => .import_ n
  | .export_ n => .export_ n
  | .forward_ n => .forward_ n
  | .bss nm len => .bss nm len
  | .ref nm it d => .ref nm it d
  | .lref nm l1 l2 d => .lref nm l1 (match l2 with | some l => l | none => 2 ^ 64 - 1) d
  | .expr nm fn => .expr nm fn
  | .data nm ty els => .data nm ty els
  | .proto n va res args => .proto n va res args
  | .func f => .funcBegin f.name f.vararg f.res f.args

theorem noLabs_nil (r : List Byte) : noLabs [] r = .ok ((), r) := by simp [noLabs]

theorem readStmt_item (cfg : Cfg) (tab : List Str) (it : Item) (rest : List Byte)
    (hf : ∀ f, it ≠ .func f) (hw : ItemOK cfg it) (hin : InTab tab (toksItem cfg it))
    (hl : tab.length ≤ 2 ^ 32) :
    readStmt cfg tab ((toksItem cfg it).flatMap (encTok tab) ++ rest) = .ok (stmtOfItem it, rest) := by
  cases it with
  | import_ n =>
    have h1 : Kw.import_.bytes ++ [0] ∈ tab := hin (.name _) (by simp [toksItem]) _ rfl
    have h2 : n ++ [0] ∈ tab := hin (.name n) (by simp [toksItem]) _ rfl
    simp only [toksItem, List.flatMap_cons, List.flatMap_nil, List.append_nil, List.append_assoc,
      readStmt_kw cfg tab _ _ h1 hl]
    simp [readKwStmt, readName_enc tab _ n _ h2 hl (NameOK.ne_zero hw), noLabs_nil, stmtOfItem]
  | export_ n =>
    have h1 : Kw.export_.bytes ++ [0] ∈ tab := hin (.name _) (by simp [toksItem]) _ rfl
    have h2 : n ++ [0] ∈ tab := hin (.name n) (by simp [toksItem]) _ rfl
    simp only [toksItem, List.flatMap_cons, List.flatMap_nil, List.append_nil, List.append_assoc,
      readStmt_kw cfg tab _ _ h1 hl]
    simp [readKwStmt, readName_enc tab _ n _ h2 hl (NameOK.ne_zero hw), noLabs_nil, stmtOfItem]
  | forward_ n =>
    have h1 : Kw.forward.bytes ++ [0] ∈ tab := hin (.name _) (by simp [toksItem]) _ rfl
    have h2 : n ++ [0] ∈ tab := hin (.name n) (by simp [toksItem]) _ rfl
    simp only [toksItem, List.flatMap_cons, List.flatMap_nil, List.append_nil, List.append_assoc,
      readStmt_kw cfg tab _ _ h1 hl]
    simp [readKwStmt, readName_enc tab _ n _ h2 hl (NameOK.ne_zero hw), noLabs_nil, stmtOfItem]
  | bss nm len =>
    obtain ⟨hnm, hlen⟩ := hw
    cases nm with
    | none =>
      have h1 : Kw.bss.bytes ++ [0] ∈ tab := hin (.name _) (by simp [toksItem, toksNamed]) _ rfl
      simp only [toksItem, toksNamed, List.cons_append, List.nil_append, List.flatMap_cons,
        List.flatMap_nil, List.append_nil, List.append_assoc, readStmt_kw cfg tab _ _ h1 hl]
      simp [readKwStmt, noLabs_nil, readUint_writeUint _ len _ hlen, stmtOfItem]
    | some n =>
      have h1 : Kw.nbss.bytes ++ [0] ∈ tab := hin (.name _) (by simp [toksItem, toksNamed]) _ rfl
      have h2 : n ++ [0] ∈ tab := hin (.name n) (by simp [toksItem, toksNamed]) _ rfl
      simp only [toksItem, toksNamed, List.cons_append, List.nil_append, List.flatMap_cons,
        List.flatMap_nil, List.append_nil, List.append_assoc, readStmt_kw cfg tab _ _ h1 hl]
      simp [readKwStmt, optName_enc tab n _ _ h2 hl hnm, noLabs_nil, readUint_writeUint _ len _ hlen,
        stmtOfItem]
  | ref nm it d =>
    obtain ⟨hnm, hit, hd⟩ := hw
    cases nm with
    | none =>
      have h1 : Kw.ref.bytes ++ [0] ∈ tab := hin (.name _) (by simp [toksItem, toksNamed]) _ rfl
      have h3 : it ++ [0] ∈ tab := hin (.name it) (by simp [toksItem, toksNamed]) _ rfl
      simp only [toksItem, toksNamed, List.cons_append, List.nil_append, List.flatMap_cons,
        List.flatMap_nil, List.append_nil, List.append_assoc, readStmt_kw cfg tab _ _ h1 hl]
      simp [readKwStmt, noLabs_nil, readName_enc tab _ it _ h3 hl hit.ne_zero, readInt_writeInt _ d _ hd,
        stmtOfItem]
    | some n =>
      have h1 : Kw.nref.bytes ++ [0] ∈ tab := hin (.name _) (by simp [toksItem, toksNamed]) _ rfl
      have h2 : n ++ [0] ∈ tab := hin (.name n) (by simp [toksItem, toksNamed]) _ rfl
      have h3 : it ++ [0] ∈ tab := hin (.name it) (by simp [toksItem, toksNamed]) _ rfl
      simp only [toksItem, toksNamed, List.cons_append, List.nil_append, List.flatMap_cons,
        List.flatMap_nil, List.append_nil, List.append_assoc, readStmt_kw cfg tab _ _ h1 hl]
      simp [readKwStmt, optName_enc tab n _ _ h2 hl hnm, noLabs_nil,
        readName_enc tab _ it _ h3 hl hit.ne_zero, readInt_writeInt _ d _ hd, stmtOfItem]
  | lref nm l1 l2 d =>
    obtain ⟨hnm, hl1, hl2, hd⟩ := hw
    have hmax := fun msg r => readInt_writeInt msg 18446744073709551615 r (by omega)
    cases l2 with
    | none =>
      cases nm with
      | none =>
        have h1 : Kw.lref.bytes ++ [0] ∈ tab := hin (.name _) (by simp [toksItem, toksNamed]) _ rfl
        simp only [toksItem, toksNamed, stmtOfItem, List.cons_append, List.nil_append, List.flatMap_cons,
          List.flatMap_nil, List.append_nil, List.append_assoc, readStmt_kw cfg tab _ _ h1 hl]
        simp [readKwStmt, noLabs_nil, readInt_writeInt _ l1 _ hl1, hmax, readInt_writeInt _ d _ hd]
      | some n =>
        have h1 : Kw.nlref.bytes ++ [0] ∈ tab := hin (.name _) (by simp [toksItem, toksNamed]) _ rfl
        have h2 : n ++ [0] ∈ tab := hin (.name n) (by simp [toksItem, toksNamed]) _ rfl
        simp only [toksItem, toksNamed, stmtOfItem, List.cons_append, List.nil_append, List.flatMap_cons,
          List.flatMap_nil, List.append_nil, List.append_assoc, readStmt_kw cfg tab _ _ h1 hl]
        simp [readKwStmt, optName_enc tab n _ _ h2 hl hnm, noLabs_nil, readInt_writeInt _ l1 _ hl1,
          hmax, readInt_writeInt _ d _ hd]
    | some v =>
      have hv2 : v < 2 ^ 64 := by have := (hl2 v rfl).1; omega
      cases nm with
      | none =>
        have h1 : Kw.lref.bytes ++ [0] ∈ tab := hin (.name _) (by simp [toksItem, toksNamed]) _ rfl
        simp only [toksItem, toksNamed, stmtOfItem, List.cons_append, List.nil_append, List.flatMap_cons,
          List.flatMap_nil, List.append_nil, List.append_assoc, readStmt_kw cfg tab _ _ h1 hl]
        simp [readKwStmt, noLabs_nil, readInt_writeInt _ l1 _ hl1, readInt_writeInt _ v _ hv2,
          readInt_writeInt _ d _ hd]
      | some n =>
        have h1 : Kw.nlref.bytes ++ [0] ∈ tab := hin (.name _) (by simp [toksItem, toksNamed]) _ rfl
        have h2 : n ++ [0] ∈ tab := hin (.name n) (by simp [toksItem, toksNamed]) _ rfl
        simp only [toksItem, toksNamed, stmtOfItem, List.cons_append, List.nil_append, List.flatMap_cons,
          List.flatMap_nil, List.append_nil, List.append_assoc, readStmt_kw cfg tab _ _ h1 hl]
        simp [readKwStmt, optName_enc tab n _ _ h2 hl hnm, noLabs_nil, readInt_writeInt _ l1 _ hl1,
          readInt_writeInt _ v _ hv2, readInt_writeInt _ d _ hd]
  | expr nm fn =>
    obtain ⟨hnm, hfn⟩ := hw
    cases nm with
    | none =>
      have h1 : Kw.expr.bytes ++ [0] ∈ tab := hin (.name _) (by simp [toksItem, toksNamed]) _ rfl
      have h3 : fn ++ [0] ∈ tab := hin (.name fn) (by simp [toksItem, toksNamed]) _ rfl
      simp only [toksItem, toksNamed, List.cons_append, List.nil_append, List.flatMap_cons,
        List.flatMap_nil, List.append_nil, List.append_assoc, readStmt_kw cfg tab _ _ h1 hl]
      simp [readKwStmt, noLabs_nil, readName_enc tab _ fn _ h3 hl hfn.ne_zero, stmtOfItem]
    | some n =>
      have h1 : Kw.nexpr.bytes ++ [0] ∈ tab := hin (.name _) (by simp [toksItem, toksNamed]) _ rfl
      have h2 : n ++ [0] ∈ tab := hin (.name n) (by simp [toksItem, toksNamed]) _ rfl
      have h3 : fn ++ [0] ∈ tab := hin (.name fn) (by simp [toksItem, toksNamed]) _ rfl
      simp only [toksItem, toksNamed, List.cons_append, List.nil_append, List.flatMap_cons,
        List.flatMap_nil, List.append_nil, List.append_assoc, readStmt_kw cfg tab _ _ h1 hl]
      simp [readKwStmt, optName_enc tab n _ _ h2 hl hnm, noLabs_nil,
        readName_enc tab _ fn _ h3 hl hfn.ne_zero, stmtOfItem]
  | data nm ty els =>
    obtain ⟨hnm, hdata⟩ := hw
    have hty : (ty : Nat) ≤ 17 := by
      rcases hdata.1 with h | h
      · have h' : (ty : Nat) ≤ (10 : Nat) := h
        omega
      · have h' : (ty : Nat) = (11 : Nat) := h.1
        omega
    have hlen := toks_length_le tab (els.map (toksDataEl ty))
    simp only [List.length_map] at hlen
    cases nm with
    | none =>
      have h1 : Kw.data.bytes ++ [0] ∈ tab := hin (.name _) (by simp [toksItem, toksNamed]) _ rfl
      simp only [toksItem, toksNamed, stmtOfItem, List.cons_append, List.nil_append, List.flatMap_cons,
        List.flatMap_nil, List.flatMap_append, List.append_nil, List.append_assoc, encTok_raw,
        readStmt_kw cfg tab _ _ h1 hl]
      simp only [readKwStmt, P.bind_apply, noLabs_nil, readToken_type ty _ hty]
      rw [readDataEls_enc cfg tab ty els _ rest hdata
        (by simp only [List.length_append, List.length_cons]; omega)]
      rfl
    | some n =>
      have h1 : Kw.ndata.bytes ++ [0] ∈ tab := hin (.name _) (by simp [toksItem, toksNamed]) _ rfl
      have h2 : n ++ [0] ∈ tab := hin (.name n) (by simp [toksItem, toksNamed]) _ rfl
      simp only [toksItem, toksNamed, stmtOfItem, List.cons_append, List.nil_append, List.flatMap_cons,
        List.flatMap_nil, List.flatMap_append, List.append_nil, List.append_assoc, encTok_raw,
        readStmt_kw cfg tab _ _ h1 hl]
      simp only [readKwStmt, P.bind_apply, optName_enc tab n _ _ h2 hl hnm, noLabs_nil,
        readToken_type ty _ hty]
      rw [readDataEls_enc cfg tab ty els _ rest hdata
        (by simp only [List.length_append, List.length_cons]; omega)]
      rfl
  | proto n va res args =>
    obtain ⟨hn, hr, hrt, hargs⟩ := hw
    have h1 : Kw.proto.bytes ++ [0] ∈ tab := hin (.name _) (by simp [toksItem]) _ rfl
    have h2 : n ++ [0] ∈ tab := hin (.name n) (by simp [toksItem]) _ rfl
    have hin3 : InTab tab (toksProto va res args) :=
      hin.of_subset (fun t ht => by simp [toksItem]; right; right; exact ht)
    simp only [toksItem, List.cons_append, List.nil_append, List.flatMap_cons, List.append_assoc,
      readStmt_kw cfg tab _ _ h1 hl]
    simp [readKwStmt, readName_enc tab _ n _ h2 hl hn.ne_zero, noLabs_nil,
      readProto_enc tab va res args rest hr hrt hargs hin3 hl, stmtOfItem]
  | func f => exact absurd rfl (hf f)

end BinIO
