import MirVerif.Model.Sem
/-! Extension chains rewritten by `copy_prop` (mir-gen.c): all width/sign combinations. Generated once by a script, kept as source. -/
namespace MirVerif

theorem ext_8s_of_8s (x : W64) : macroExt 8 true (macroExt 8 true x) = macroExt 8 true x := by
  simp only [macroExt, if_true, if_false, Bool.false_eq_true]
  ext i hi
  simp [BitVec.getElem_signExtend, BitVec.getLsbD_signExtend, BitVec.getLsbD_setWidth, BitVec.msb_eq_getLsbD_last]
  all_goals (try (split <;> simp_all [BitVec.getLsbD_signExtend, BitVec.getLsbD_setWidth, BitVec.msb_eq_getLsbD_last, BitVec.getLsbD_eq_getElem]))
  all_goals (try omega)
  all_goals (try grind)

theorem ext_8s_of_8u (x : W64) : macroExt 8 true (macroExt 8 false x) = macroExt 8 true x := by
  simp only [macroExt, if_true, if_false, Bool.false_eq_true]
  ext i hi
  simp [BitVec.getElem_signExtend, BitVec.getLsbD_signExtend, BitVec.getLsbD_setWidth, BitVec.msb_eq_getLsbD_last]
  all_goals (try (split <;> simp_all [BitVec.getLsbD_signExtend, BitVec.getLsbD_setWidth, BitVec.msb_eq_getLsbD_last, BitVec.getLsbD_eq_getElem]))
  all_goals (try omega)
  all_goals (try grind)

theorem ext_8s_of_16s (x : W64) : macroExt 8 true (macroExt 16 true x) = macroExt 8 true x := by
  simp only [macroExt, if_true, if_false, Bool.false_eq_true]
  ext i hi
  simp [BitVec.getElem_signExtend, BitVec.getLsbD_signExtend, BitVec.getLsbD_setWidth, BitVec.msb_eq_getLsbD_last]
  all_goals (try (split <;> simp_all [BitVec.getLsbD_signExtend, BitVec.getLsbD_setWidth, BitVec.msb_eq_getLsbD_last, BitVec.getLsbD_eq_getElem]))
  all_goals (try omega)
  all_goals (try grind)

theorem ext_8s_of_16u (x : W64) : macroExt 8 true (macroExt 16 false x) = macroExt 8 true x := by
  simp only [macroExt, if_true, if_false, Bool.false_eq_true]
  ext i hi
  simp [BitVec.getElem_signExtend, BitVec.getLsbD_signExtend, BitVec.getLsbD_setWidth, BitVec.msb_eq_getLsbD_last]
  all_goals (try (split <;> simp_all [BitVec.getLsbD_signExtend, BitVec.getLsbD_setWidth, BitVec.msb_eq_getLsbD_last, BitVec.getLsbD_eq_getElem]))
  all_goals (try omega)
  all_goals (try grind)

theorem ext_8s_of_32s (x : W64) : macroExt 8 true (macroExt 32 true x) = macroExt 8 true x := by
  simp only [macroExt, if_true, if_false, Bool.false_eq_true]
  ext i hi
  simp [BitVec.getElem_signExtend, BitVec.getLsbD_signExtend, BitVec.getLsbD_setWidth, BitVec.msb_eq_getLsbD_last]
  all_goals (try (split <;> simp_all [BitVec.getLsbD_signExtend, BitVec.getLsbD_setWidth, BitVec.msb_eq_getLsbD_last, BitVec.getLsbD_eq_getElem]))
  all_goals (try omega)
  all_goals (try grind)

theorem ext_8s_of_32u (x : W64) : macroExt 8 true (macroExt 32 false x) = macroExt 8 true x := by
  simp only [macroExt, if_true, if_false, Bool.false_eq_true]
  ext i hi
  simp [BitVec.getElem_signExtend, BitVec.getLsbD_signExtend, BitVec.getLsbD_setWidth, BitVec.msb_eq_getLsbD_last]
  all_goals (try (split <;> simp_all [BitVec.getLsbD_signExtend, BitVec.getLsbD_setWidth, BitVec.msb_eq_getLsbD_last, BitVec.getLsbD_eq_getElem]))
  all_goals (try omega)
  all_goals (try grind)

theorem ext_8u_of_8s (x : W64) : macroExt 8 false (macroExt 8 true x) = macroExt 8 false x := by
  simp only [macroExt, if_true, if_false, Bool.false_eq_true]
  ext i hi
  simp [BitVec.getElem_signExtend, BitVec.getLsbD_signExtend, BitVec.getLsbD_setWidth, BitVec.msb_eq_getLsbD_last]
  all_goals (try (split <;> simp_all [BitVec.getLsbD_signExtend, BitVec.getLsbD_setWidth, BitVec.msb_eq_getLsbD_last, BitVec.getLsbD_eq_getElem]))
  all_goals (try omega)
  all_goals (try grind)

theorem ext_8u_of_8u (x : W64) : macroExt 8 false (macroExt 8 false x) = macroExt 8 false x := by
  simp only [macroExt, if_true, if_false, Bool.false_eq_true]
  ext i hi
  simp [BitVec.getElem_signExtend, BitVec.getLsbD_signExtend, BitVec.getLsbD_setWidth, BitVec.msb_eq_getLsbD_last]
  all_goals (try (split <;> simp_all [BitVec.getLsbD_signExtend, BitVec.getLsbD_setWidth, BitVec.msb_eq_getLsbD_last, BitVec.getLsbD_eq_getElem]))
  all_goals (try omega)
  all_goals (try grind)

theorem ext_8u_of_16s (x : W64) : macroExt 8 false (macroExt 16 true x) = macroExt 8 false x := by
  simp only [macroExt, if_true, if_false, Bool.false_eq_true]
  ext i hi
  simp [BitVec.getElem_signExtend, BitVec.getLsbD_signExtend, BitVec.getLsbD_setWidth, BitVec.msb_eq_getLsbD_last]
  all_goals (try (split <;> simp_all [BitVec.getLsbD_signExtend, BitVec.getLsbD_setWidth, BitVec.msb_eq_getLsbD_last, BitVec.getLsbD_eq_getElem]))
  all_goals (try omega)
  all_goals (try grind)

theorem ext_8u_of_16u (x : W64) : macroExt 8 false (macroExt 16 false x) = macroExt 8 false x := by
  simp only [macroExt, if_true, if_false, Bool.false_eq_true]
  ext i hi
  simp [BitVec.getElem_signExtend, BitVec.getLsbD_signExtend, BitVec.getLsbD_setWidth, BitVec.msb_eq_getLsbD_last]
  all_goals (try (split <;> simp_all [BitVec.getLsbD_signExtend, BitVec.getLsbD_setWidth, BitVec.msb_eq_getLsbD_last, BitVec.getLsbD_eq_getElem]))
  all_goals (try omega)
  all_goals (try grind)

theorem ext_8u_of_32s (x : W64) : macroExt 8 false (macroExt 32 true x) = macroExt 8 false x := by
  simp only [macroExt, if_true, if_false, Bool.false_eq_true]
  ext i hi
  simp [BitVec.getElem_signExtend, BitVec.getLsbD_signExtend, BitVec.getLsbD_setWidth, BitVec.msb_eq_getLsbD_last]
  all_goals (try (split <;> simp_all [BitVec.getLsbD_signExtend, BitVec.getLsbD_setWidth, BitVec.msb_eq_getLsbD_last, BitVec.getLsbD_eq_getElem]))
  all_goals (try omega)
  all_goals (try grind)

theorem ext_8u_of_32u (x : W64) : macroExt 8 false (macroExt 32 false x) = macroExt 8 false x := by
  simp only [macroExt, if_true, if_false, Bool.false_eq_true]
  ext i hi
  simp [BitVec.getElem_signExtend, BitVec.getLsbD_signExtend, BitVec.getLsbD_setWidth, BitVec.msb_eq_getLsbD_last]
  all_goals (try (split <;> simp_all [BitVec.getLsbD_signExtend, BitVec.getLsbD_setWidth, BitVec.msb_eq_getLsbD_last, BitVec.getLsbD_eq_getElem]))
  all_goals (try omega)
  all_goals (try grind)

theorem ext_16s_of_8s (x : W64) : macroExt 16 true (macroExt 8 true x) = macroExt 8 true x := by
  simp only [macroExt, if_true, if_false, Bool.false_eq_true]
  ext i hi
  simp [BitVec.getElem_signExtend, BitVec.getLsbD_signExtend, BitVec.getLsbD_setWidth, BitVec.msb_eq_getLsbD_last]
  all_goals (try (split <;> simp_all [BitVec.getLsbD_signExtend, BitVec.getLsbD_setWidth, BitVec.msb_eq_getLsbD_last, BitVec.getLsbD_eq_getElem]))
  all_goals (try omega)
  all_goals (try grind)

theorem ext_16s_of_8u (x : W64) : macroExt 16 true (macroExt 8 false x) = macroExt 8 false x := by
  simp only [macroExt, if_true, if_false, Bool.false_eq_true]
  ext i hi
  simp [BitVec.getElem_signExtend, BitVec.getLsbD_signExtend, BitVec.getLsbD_setWidth, BitVec.msb_eq_getLsbD_last]
  all_goals (try (split <;> simp_all [BitVec.getLsbD_signExtend, BitVec.getLsbD_setWidth, BitVec.msb_eq_getLsbD_last, BitVec.getLsbD_eq_getElem]))
  all_goals (try omega)
  all_goals (try grind)

theorem ext_16s_of_16s (x : W64) : macroExt 16 true (macroExt 16 true x) = macroExt 16 true x := by
  simp only [macroExt, if_true, if_false, Bool.false_eq_true]
  ext i hi
  simp [BitVec.getElem_signExtend, BitVec.getLsbD_signExtend, BitVec.getLsbD_setWidth, BitVec.msb_eq_getLsbD_last]
  all_goals (try (split <;> simp_all [BitVec.getLsbD_signExtend, BitVec.getLsbD_setWidth, BitVec.msb_eq_getLsbD_last, BitVec.getLsbD_eq_getElem]))
  all_goals (try omega)
  all_goals (try grind)

theorem ext_16s_of_16u (x : W64) : macroExt 16 true (macroExt 16 false x) = macroExt 16 true x := by
  simp only [macroExt, if_true, if_false, Bool.false_eq_true]
  ext i hi
  simp [BitVec.getElem_signExtend, BitVec.getLsbD_signExtend, BitVec.getLsbD_setWidth, BitVec.msb_eq_getLsbD_last]
  all_goals (try (split <;> simp_all [BitVec.getLsbD_signExtend, BitVec.getLsbD_setWidth, BitVec.msb_eq_getLsbD_last, BitVec.getLsbD_eq_getElem]))
  all_goals (try omega)
  all_goals (try grind)

theorem ext_16s_of_32s (x : W64) : macroExt 16 true (macroExt 32 true x) = macroExt 16 true x := by
  simp only [macroExt, if_true, if_false, Bool.false_eq_true]
  ext i hi
  simp [BitVec.getElem_signExtend, BitVec.getLsbD_signExtend, BitVec.getLsbD_setWidth, BitVec.msb_eq_getLsbD_last]
  all_goals (try (split <;> simp_all [BitVec.getLsbD_signExtend, BitVec.getLsbD_setWidth, BitVec.msb_eq_getLsbD_last, BitVec.getLsbD_eq_getElem]))
  all_goals (try omega)
  all_goals (try grind)

theorem ext_16s_of_32u (x : W64) : macroExt 16 true (macroExt 32 false x) = macroExt 16 true x := by
  simp only [macroExt, if_true, if_false, Bool.false_eq_true]
  ext i hi
  simp [BitVec.getElem_signExtend, BitVec.getLsbD_signExtend, BitVec.getLsbD_setWidth, BitVec.msb_eq_getLsbD_last]
  all_goals (try (split <;> simp_all [BitVec.getLsbD_signExtend, BitVec.getLsbD_setWidth, BitVec.msb_eq_getLsbD_last, BitVec.getLsbD_eq_getElem]))
  all_goals (try omega)
  all_goals (try grind)

theorem ext_16u_of_8u (x : W64) : macroExt 16 false (macroExt 8 false x) = macroExt 8 false x := by
  simp only [macroExt, if_true, if_false, Bool.false_eq_true]
  ext i hi
  simp [BitVec.getElem_signExtend, BitVec.getLsbD_signExtend, BitVec.getLsbD_setWidth, BitVec.msb_eq_getLsbD_last]
  all_goals (try (split <;> simp_all [BitVec.getLsbD_signExtend, BitVec.getLsbD_setWidth, BitVec.msb_eq_getLsbD_last, BitVec.getLsbD_eq_getElem]))
  all_goals (try omega)
  all_goals (try grind)

theorem ext_16u_of_16s (x : W64) : macroExt 16 false (macroExt 16 true x) = macroExt 16 false x := by
  simp only [macroExt, if_true, if_false, Bool.false_eq_true]
  ext i hi
  simp [BitVec.getElem_signExtend, BitVec.getLsbD_signExtend, BitVec.getLsbD_setWidth, BitVec.msb_eq_getLsbD_last]
  all_goals (try (split <;> simp_all [BitVec.getLsbD_signExtend, BitVec.getLsbD_setWidth, BitVec.msb_eq_getLsbD_last, BitVec.getLsbD_eq_getElem]))
  all_goals (try omega)
  all_goals (try grind)

theorem ext_16u_of_16u (x : W64) : macroExt 16 false (macroExt 16 false x) = macroExt 16 false x := by
  simp only [macroExt, if_true, if_false, Bool.false_eq_true]
  ext i hi
  simp [BitVec.getElem_signExtend, BitVec.getLsbD_signExtend, BitVec.getLsbD_setWidth, BitVec.msb_eq_getLsbD_last]
  all_goals (try (split <;> simp_all [BitVec.getLsbD_signExtend, BitVec.getLsbD_setWidth, BitVec.msb_eq_getLsbD_last, BitVec.getLsbD_eq_getElem]))
  all_goals (try omega)
  all_goals (try grind)

theorem ext_16u_of_32s (x : W64) : macroExt 16 false (macroExt 32 true x) = macroExt 16 false x := by
  simp only [macroExt, if_true, if_false, Bool.false_eq_true]
  ext i hi
  simp [BitVec.getElem_signExtend, BitVec.getLsbD_signExtend, BitVec.getLsbD_setWidth, BitVec.msb_eq_getLsbD_last]
  all_goals (try (split <;> simp_all [BitVec.getLsbD_signExtend, BitVec.getLsbD_setWidth, BitVec.msb_eq_getLsbD_last, BitVec.getLsbD_eq_getElem]))
  all_goals (try omega)
  all_goals (try grind)

theorem ext_16u_of_32u (x : W64) : macroExt 16 false (macroExt 32 false x) = macroExt 16 false x := by
  simp only [macroExt, if_true, if_false, Bool.false_eq_true]
  ext i hi
  simp [BitVec.getElem_signExtend, BitVec.getLsbD_signExtend, BitVec.getLsbD_setWidth, BitVec.msb_eq_getLsbD_last]
  all_goals (try (split <;> simp_all [BitVec.getLsbD_signExtend, BitVec.getLsbD_setWidth, BitVec.msb_eq_getLsbD_last, BitVec.getLsbD_eq_getElem]))
  all_goals (try omega)
  all_goals (try grind)

theorem ext_32s_of_8s (x : W64) : macroExt 32 true (macroExt 8 true x) = macroExt 8 true x := by
  simp only [macroExt, if_true, if_false, Bool.false_eq_true]
  ext i hi
  simp [BitVec.getElem_signExtend, BitVec.getLsbD_signExtend, BitVec.getLsbD_setWidth, BitVec.msb_eq_getLsbD_last]
  all_goals (try (split <;> simp_all [BitVec.getLsbD_signExtend, BitVec.getLsbD_setWidth, BitVec.msb_eq_getLsbD_last, BitVec.getLsbD_eq_getElem]))
  all_goals (try omega)
  all_goals (try grind)

theorem ext_32s_of_8u (x : W64) : macroExt 32 true (macroExt 8 false x) = macroExt 8 false x := by
  simp only [macroExt, if_true, if_false, Bool.false_eq_true]
  ext i hi
  simp [BitVec.getElem_signExtend, BitVec.getLsbD_signExtend, BitVec.getLsbD_setWidth, BitVec.msb_eq_getLsbD_last]
  all_goals (try (split <;> simp_all [BitVec.getLsbD_signExtend, BitVec.getLsbD_setWidth, BitVec.msb_eq_getLsbD_last, BitVec.getLsbD_eq_getElem]))
  all_goals (try omega)
  all_goals (try grind)

theorem ext_32s_of_16s (x : W64) : macroExt 32 true (macroExt 16 true x) = macroExt 16 true x := by
  simp only [macroExt, if_true, if_false, Bool.false_eq_true]
  ext i hi
  simp [BitVec.getElem_signExtend, BitVec.getLsbD_signExtend, BitVec.getLsbD_setWidth, BitVec.msb_eq_getLsbD_last]
  all_goals (try (split <;> simp_all [BitVec.getLsbD_signExtend, BitVec.getLsbD_setWidth, BitVec.msb_eq_getLsbD_last, BitVec.getLsbD_eq_getElem]))
  all_goals (try omega)
  all_goals (try grind)

theorem ext_32s_of_16u (x : W64) : macroExt 32 true (macroExt 16 false x) = macroExt 16 false x := by
  simp only [macroExt, if_true, if_false, Bool.false_eq_true]
  ext i hi
  simp [BitVec.getElem_signExtend, BitVec.getLsbD_signExtend, BitVec.getLsbD_setWidth, BitVec.msb_eq_getLsbD_last]
  all_goals (try (split <;> simp_all [BitVec.getLsbD_signExtend, BitVec.getLsbD_setWidth, BitVec.msb_eq_getLsbD_last, BitVec.getLsbD_eq_getElem]))
  all_goals (try omega)
  all_goals (try grind)

theorem ext_32s_of_32s (x : W64) : macroExt 32 true (macroExt 32 true x) = macroExt 32 true x := by
  simp only [macroExt, if_true, if_false, Bool.false_eq_true]
  ext i hi
  simp [BitVec.getElem_signExtend, BitVec.getLsbD_signExtend, BitVec.getLsbD_setWidth, BitVec.msb_eq_getLsbD_last]
  all_goals (try (split <;> simp_all [BitVec.getLsbD_signExtend, BitVec.getLsbD_setWidth, BitVec.msb_eq_getLsbD_last, BitVec.getLsbD_eq_getElem]))
  all_goals (try omega)
  all_goals (try grind)

theorem ext_32s_of_32u (x : W64) : macroExt 32 true (macroExt 32 false x) = macroExt 32 true x := by
  simp only [macroExt, if_true, if_false, Bool.false_eq_true]
  ext i hi
  simp [BitVec.getElem_signExtend, BitVec.getLsbD_signExtend, BitVec.getLsbD_setWidth, BitVec.msb_eq_getLsbD_last]
  all_goals (try (split <;> simp_all [BitVec.getLsbD_signExtend, BitVec.getLsbD_setWidth, BitVec.msb_eq_getLsbD_last, BitVec.getLsbD_eq_getElem]))
  all_goals (try omega)
  all_goals (try grind)

theorem ext_32u_of_8u (x : W64) : macroExt 32 false (macroExt 8 false x) = macroExt 8 false x := by
  simp only [macroExt, if_true, if_false, Bool.false_eq_true]
  ext i hi
  simp [BitVec.getElem_signExtend, BitVec.getLsbD_signExtend, BitVec.getLsbD_setWidth, BitVec.msb_eq_getLsbD_last]
  all_goals (try (split <;> simp_all [BitVec.getLsbD_signExtend, BitVec.getLsbD_setWidth, BitVec.msb_eq_getLsbD_last, BitVec.getLsbD_eq_getElem]))
  all_goals (try omega)
  all_goals (try grind)

theorem ext_32u_of_16u (x : W64) : macroExt 32 false (macroExt 16 false x) = macroExt 16 false x := by
  simp only [macroExt, if_true, if_false, Bool.false_eq_true]
  ext i hi
  simp [BitVec.getElem_signExtend, BitVec.getLsbD_signExtend, BitVec.getLsbD_setWidth, BitVec.msb_eq_getLsbD_last]
  all_goals (try (split <;> simp_all [BitVec.getLsbD_signExtend, BitVec.getLsbD_setWidth, BitVec.msb_eq_getLsbD_last, BitVec.getLsbD_eq_getElem]))
  all_goals (try omega)
  all_goals (try grind)

theorem ext_32u_of_32s (x : W64) : macroExt 32 false (macroExt 32 true x) = macroExt 32 false x := by
  simp only [macroExt, if_true, if_false, Bool.false_eq_true]
  ext i hi
  simp [BitVec.getElem_signExtend, BitVec.getLsbD_signExtend, BitVec.getLsbD_setWidth, BitVec.msb_eq_getLsbD_last]
  all_goals (try (split <;> simp_all [BitVec.getLsbD_signExtend, BitVec.getLsbD_setWidth, BitVec.msb_eq_getLsbD_last, BitVec.getLsbD_eq_getElem]))
  all_goals (try omega)
  all_goals (try grind)

theorem ext_32u_of_32u (x : W64) : macroExt 32 false (macroExt 32 false x) = macroExt 32 false x := by
  simp only [macroExt, if_true, if_false, Bool.false_eq_true]
  ext i hi
  simp [BitVec.getElem_signExtend, BitVec.getLsbD_signExtend, BitVec.getLsbD_setWidth, BitVec.msb_eq_getLsbD_last]
  all_goals (try (split <;> simp_all [BitVec.getLsbD_signExtend, BitVec.getLsbD_setWidth, BitVec.msb_eq_getLsbD_last, BitVec.getLsbD_eq_getElem]))
  all_goals (try omega)
  all_goals (try grind)

end MirVerif
