import MirVerif.Model.BinIORead
/-!
# C11 lemmas, part 1: byte-level token codec

`getUint (putUint u nb) = u mod 256^nb`, the canonical length functions, and for every writer
token `readToken (write… v ++ rest) = ok (token v, rest)`.
-/
namespace BinIO

/-! ### the parser monad -/
@[simp] theorem P.pure_apply {α} (a : α) (bs : List Byte) : (pure a : P α) bs = .ok (a, bs) := rfl
@[simp] theorem P.bind_apply {α β} (p : P α) (f : α → P β) (bs : List Byte) :
    (p >>= f) bs = match p bs with
      | .ok (a, r) => f a r
      | .error e => .error e := rfl
@[simp] theorem P.fail_apply {α} (m : String) (bs : List Byte) : (P.fail m : P α) bs = .error m := rfl
@[simp] theorem P.lift_ok {α} (a : α) (bs : List Byte) : (P.lift (.ok a) : P α) bs = .ok (a, bs) := rfl
@[simp] theorem P.lift_error {α} (m : String) (bs : List Byte) :
    (P.lift (.error m) : P α) bs = .error m := rfl
@[simp] theorem getByte_cons (b : Byte) (r : List Byte) : getByte (b :: r) = .ok (b, r) := rfl
@[simp] theorem getByte_nil : getByte [] = .error "unfinished binary MIR" := rfl

/-! ### put_uint / get_uint -/

@[simp] theorem putUint_length (u nb : Nat) : (putUint u nb).length = nb := by
  induction nb generalizing u with
  | zero => rfl
  | succ n ih => simp [putUint, ih]

theorem putUint_lt (u nb : Nat) : ∀ b : Nat, b ∈ putUint u nb → b < 256 := by
  induction nb generalizing u with
  | zero => simp [putUint]
  | succ n ih =>
    intro b hb
    simp only [putUint, List.mem_cons] at hb
    rcases hb with h | h
    · omega
    · exact ih _ _ h

theorem mod_pow_succ' (u n : Nat) : u % 256 ^ (n + 1) = u % 256 + 256 * (u / 256 % 256 ^ n) := by
  rw [Nat.pow_succ, Nat.mul_comm, Nat.mod_mul]

theorem getUint_putUint (nb u : Nat) (rest : List Byte) :
    getUint nb (putUint u nb ++ rest) = .ok (u % 256 ^ nb, rest) := by
  induction nb generalizing u with
  | zero => simp [getUint, putUint, Nat.mod_one]
  | succ n ih =>
    simp only [getUint, putUint, List.cons_append, P.bind_apply, getByte_cons, ih, P.pure_apply,
      mod_pow_succ']

/-- reading fewer bytes than were written drops the high part, reading the written number gives
the value back when it fits -/
theorem getUint_putUint_of_lt (nb u : Nat) (rest : List Byte) (h : u < 256 ^ nb) :
    getUint nb (putUint u nb ++ rest) = .ok (u, rest) := by
  rw [getUint_putUint, Nat.mod_eq_of_lt h]

/-! ### length functions -/

theorem nbytes_le (u : Nat) : nbytes u ≤ 8 := by
  unfold nbytes; repeat' split
  all_goals omega

theorem lt_pow_nbytes (u : Nat) (h : u < 2 ^ 64) : u < 256 ^ nbytes u := by
  unfold nbytes; repeat' split
  all_goals omega

theorem nbytes_pos (u : Nat) (h : u ≠ 0) : 1 ≤ nbytes u := by
  unfold nbytes; repeat' split
  all_goals omega

/-- `nbytes` is the least number of bytes that can hold the value -/
theorem nbytes_minimal (u k : Nat) (h : u < 256 ^ k) : nbytes u ≤ k ∨ 8 ≤ k := by
  unfold nbytes
  rcases Nat.lt_or_ge k 8 with hk | hk
  · left
    have : k = 0 ∨ k = 1 ∨ k = 2 ∨ k = 3 ∨ k = 4 ∨ k = 5 ∨ k = 6 ∨ k = 7 := by omega
    rcases this with rfl | rfl | rfl | rfl | rfl | rfl | rfl | rfl <;> (repeat' split) <;> omega
  · right; exact hk

theorem intLength_range (i : Nat) : 1 ≤ intLength i ∧ intLength i ≤ 8 := by
  unfold intLength
  have := nbytes_le i
  split <;> omega

theorem lt_pow_intLength (i : Nat) (h : i < 2 ^ 64) : i < 256 ^ intLength i := by
  unfold intLength
  split
  · rename_i h0
    have := lt_pow_nbytes i h
    rw [h0] at this
    omega
  · exact lt_pow_nbytes i h

theorem idxLen_range (i : Nat) (h : i < 2 ^ 32) : 1 ≤ idxLen i ∧ idxLen i ≤ 4 ∧ i < 256 ^ idxLen i := by
  unfold idxLen uintLength nbytes
  repeat' split
  all_goals omega

/-! ### tokens -/

theorem readToken_writeUint (u : Nat) (rest : List Byte) (h : u < 2 ^ 64) :
    readToken (writeUint u ++ rest) = .ok (.uint u, rest) := by
  unfold writeUint
  split
  · rename_i hs
    have h1 : 128 ≤ 128 + u := by omega
    have h2 : (128 + u) % 128 = u := by omega
    simp [readToken, h1, h2]
  · rename_i hs
    have hp := nbytes_pos u (by omega)
    have hl := nbytes_le u
    have hv := lt_pow_nbytes u h
    generalize nbytes u = nb at *
    have hc : nb = 1 ∨ nb = 2 ∨ nb = 3 ∨ nb = 4 ∨ nb = 5 ∨ nb = 6 ∨ nb = 7 ∨ nb = 8 := by omega
    rcases hc with rfl | rfl | rfl | rfl | rfl | rfl | rfl | rfl <;>
      simp [readToken, getUint_putUint_of_lt _ _ _ hv]

theorem readToken_writeInt (i : Nat) (rest : List Byte) (h : i < 2 ^ 64) :
    readToken (writeInt i ++ rest) = .ok (.int i, rest) := by
  unfold writeInt
  have ⟨hp, hl⟩ := intLength_range i
  have hv := lt_pow_intLength i h
  generalize intLength i = nb at *
  have hc : nb = 1 ∨ nb = 2 ∨ nb = 3 ∨ nb = 4 ∨ nb = 5 ∨ nb = 6 ∨ nb = 7 ∨ nb = 8 := by omega
  rcases hc with rfl | rfl | rfl | rfl | rfl | rfl | rfl | rfl <;>
    simp [readToken, getUint_putUint_of_lt _ _ _ hv]

theorem readToken_writeFloat (b : Nat) (rest : List Byte) (h : b < 2 ^ 32) :
    readToken (writeFloat b ++ rest) = .ok (.flt b, rest) := by
  have hv : b < 256 ^ 4 := by omega
  simp [writeFloat, readToken, getUint_putUint_of_lt _ _ _ hv]

theorem readToken_writeDouble (b : Nat) (rest : List Byte) (h : b < 2 ^ 64) :
    readToken (writeDouble b ++ rest) = .ok (.dbl b, rest) := by
  have hv : b < 256 ^ 8 := by omega
  simp [writeDouble, readToken, getUint_putUint_of_lt _ _ _ hv]

theorem readToken_writeLdouble (v : Nat) (rest : List Byte) (h : v < 2 ^ 80) :
    readToken (writeLdouble v ++ rest) = .ok (.ldbl v, rest) := by
  have h1 : v % 2 ^ 64 < 256 ^ 8 := by omega
  have h2 : v / 2 ^ 64 < 256 ^ 8 := by omega
  have h3 : v % 2 ^ 64 + 2 ^ 64 * (v / 2 ^ 64 % 2 ^ 16) = v := by omega
  simp only [writeLdouble, readToken, Tag.ld, List.cons_append, List.append_assoc, P.bind_apply,
    getByte_cons]
  simp [getUint_putUint_of_lt _ _ _ h1, getUint_putUint_of_lt _ _ _ h2, h3]

theorem readToken_type (t : Nat) (rest : List Byte) (h : t ≤ 17) :
    readToken ((Tag.ti8 + t) :: rest) = .ok (.ty t, rest) := by
  have hc : t = 0 ∨ t = 1 ∨ t = 2 ∨ t = 3 ∨ t = 4 ∨ t = 5 ∨ t = 6 ∨ t = 7 ∨ t = 8 ∨ t = 9 ∨ t = 10
      ∨ t = 11 ∨ t = 12 ∨ t = 13 ∨ t = 14 ∨ t = 15 ∨ t = 16 ∨ t = 17 := by omega
  rcases hc with rfl | rfl | rfl | rfl | rfl | rfl | rfl | rfl | rfl | rfl | rfl | rfl | rfl | rfl | rfl
      | rfl | rfl | rfl <;> simp [readToken]

@[simp] theorem readToken_eoi (rest : List Byte) : readToken (61 :: rest) = .ok (.eoi, rest) := by
  simp [readToken]

@[simp] theorem readToken_eof (rest : List Byte) : readToken (62 :: rest) = .ok (.eof, rest) := by
  simp [readToken]

/-- the four index-carrying token classes (`TAG_REG1`, `TAG_NAME1`, `TAG_STR1`, `TAG_LAB1`) -/
theorem readToken_writeIdx_reg (i : Nat) (rest : List Byte) (h : i < 2 ^ 32) :
    readToken (writeIdx Tag.reg1 i ++ rest) = .ok (.reg i, rest) := by
  unfold writeIdx
  have ⟨hp, hl, hv⟩ := idxLen_range i h
  generalize idxLen i = nb at *
  have hc : nb = 1 ∨ nb = 2 ∨ nb = 3 ∨ nb = 4 := by omega
  rcases hc with rfl | rfl | rfl | rfl <;>
    simp [readToken, getUint_putUint_of_lt _ _ _ hv]

theorem readToken_writeIdx_name (i : Nat) (rest : List Byte) (h : i < 2 ^ 32) :
    readToken (writeIdx Tag.name1 i ++ rest) = .ok (.name i (idxLen i), rest) := by
  unfold writeIdx
  have ⟨hp, hl, hv⟩ := idxLen_range i h
  generalize idxLen i = nb at *
  have hc : nb = 1 ∨ nb = 2 ∨ nb = 3 ∨ nb = 4 := by omega
  rcases hc with rfl | rfl | rfl | rfl <;>
    simp [readToken, getUint_putUint_of_lt _ _ _ hv]

theorem readToken_writeIdx_str (i : Nat) (rest : List Byte) (h : i < 2 ^ 32) :
    readToken (writeIdx Tag.str1 i ++ rest) = .ok (.str i, rest) := by
  unfold writeIdx
  have ⟨hp, hl, hv⟩ := idxLen_range i h
  generalize idxLen i = nb at *
  have hc : nb = 1 ∨ nb = 2 ∨ nb = 3 ∨ nb = 4 := by omega
  rcases hc with rfl | rfl | rfl | rfl <;>
    simp [readToken, getUint_putUint_of_lt _ _ _ hv]

theorem readToken_writeIdx_lab (i : Nat) (rest : List Byte) (h : i < 2 ^ 32) :
    readToken (writeIdx Tag.lab1 i ++ rest) = .ok (.lab i, rest) := by
  unfold writeIdx
  have ⟨hp, hl, hv⟩ := idxLen_range i h
  generalize idxLen i = nb at *
  have hc : nb = 1 ∨ nb = 2 ∨ nb = 3 ∨ nb = 4 := by omega
  rcases hc with rfl | rfl | rfl | rfl <;>
    simp [readToken, getUint_putUint_of_lt _ _ _ hv]

/-- memory tags: 36..42 and 63..69 -/
theorem readToken_mem (c : Nat) (rest : List Byte) (h : (36 ≤ c ∧ c ≤ 42) ∨ (63 ≤ c ∧ c ≤ 69)) :
    readToken (c :: rest) = .ok (.mem c, rest) := by
  have hc : c = 36 ∨ c = 37 ∨ c = 38 ∨ c = 39 ∨ c = 40 ∨ c = 41 ∨ c = 42 ∨ c = 63 ∨ c = 64 ∨ c = 65
      ∨ c = 66 ∨ c = 67 ∨ c = 68 ∨ c = 69 := by omega
  rcases hc with rfl | rfl | rfl | rfl | rfl | rfl | rfl | rfl | rfl | rfl | rfl | rfl | rfl | rfl <;>
    simp [readToken]

/-! ### the direct readers (`read_uint`, `read_int`, `read_type`, `read_name`) -/

theorem readUint_writeUint (msg : String) (u : Nat) (rest : List Byte) (h : u < 2 ^ 64) :
    readUint msg (writeUint u ++ rest) = .ok (u, rest) := by
  unfold writeUint
  split
  · have h1 : 128 ≤ 128 + u := by omega
    have h2 : (128 + u) % 128 = u := by omega
    simp [readUint, h1, h2]
  · rename_i hs
    have hp := nbytes_pos u (by omega)
    have hl := nbytes_le u
    have hv := lt_pow_nbytes u h
    generalize nbytes u = nb at *
    have hc : nb = 1 ∨ nb = 2 ∨ nb = 3 ∨ nb = 4 ∨ nb = 5 ∨ nb = 6 ∨ nb = 7 ∨ nb = 8 := by omega
    rcases hc with rfl | rfl | rfl | rfl | rfl | rfl | rfl | rfl <;>
      simp [readUint, getUint_putUint_of_lt _ _ _ hv]

theorem readInt_writeInt (msg : String) (i : Nat) (rest : List Byte) (h : i < 2 ^ 64) :
    readInt msg (writeInt i ++ rest) = .ok (i, rest) := by
  unfold writeInt
  have ⟨hp, hl⟩ := intLength_range i
  have hv := lt_pow_intLength i h
  generalize intLength i = nb at *
  have hc : nb = 1 ∨ nb = 2 ∨ nb = 3 ∨ nb = 4 ∨ nb = 5 ∨ nb = 6 ∨ nb = 7 ∨ nb = 8 := by omega
  rcases hc with rfl | rfl | rfl | rfl | rfl | rfl | rfl | rfl <;>
    simp [readInt, getUint_putUint_of_lt _ _ _ hv]

theorem readType_type (msg : String) (t : Nat) (rest : List Byte) (h : t ≤ 17) :
    readType msg ((Tag.ti8 + t) :: rest) = .ok (t, rest) := by
  have c1 : 43 ≤ 43 + t := by omega
  have c2 : 43 + t ≤ 60 := by omega
  simp [readType, c1, c2]

end BinIO
