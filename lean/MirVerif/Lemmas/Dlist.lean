import MirVerif.Model.Dlist
/-! Link chains: the generic facts behind every `mir-dlist.h` operation. -/
namespace MirVerif.Dlist

/-- head of `l`, or `nx` when `l` is empty -/
def hdOr (l : List Nat) (nx : Option Nat) : Option Nat :=
  match l with
  | [] => nx
  | y :: _ => some y

@[simp] theorem hdOr_nil (nx : Option Nat) : hdOr [] nx = nx := rfl
@[simp] theorem hdOr_cons (y : Nat) (r : List Nat) (nx : Option Nat) : hdOr (y :: r) nx = some y := rfl
theorem hdOr_none (l : List Nat) : hdOr l none = l.head? := by cases l <;> rfl
theorem hdOr_append (l1 l2 : List Nat) (nx : Option Nat) :
    hdOr (l1 ++ l2) nx = hdOr l1 (hdOr l2 nx) := by cases l1 <;> rfl

/-- every element's `F`-link is the following element; the last one's is `nx` -/
def Chain (F : Nat → Option Nat) : List Nat → Option Nat → Prop
  | [], _ => True
  | x :: r, nx => F x = hdOr r nx ∧ Chain F r nx

theorem chain_append (F : Nat → Option Nat) (l1 l2 : List Nat) (nx : Option Nat) :
    Chain F (l1 ++ l2) nx ↔ Chain F l1 (hdOr l2 nx) ∧ Chain F l2 nx := by
  induction l1 with
  | nil => simp [Chain]
  | cons x r ih =>
    simp only [List.cons_append, Chain, ih, hdOr_append]
    exact ⟨fun ⟨a, b, c⟩ => ⟨⟨a, b⟩, c⟩, fun ⟨⟨a, b⟩, c⟩ => ⟨a, b, c⟩⟩

theorem chain_congr (F F' : Nat → Option Nat) (l : List Nat) (nx : Option Nat)
    (h : ∀ x ∈ l, F' x = F x) (hc : Chain F l nx) : Chain F' l nx := by
  induction l with
  | nil => trivial
  | cons x r ih =>
    exact ⟨by rw [h x (List.mem_cons_self)]; exact hc.1,
      ih (fun y hy => h y (List.mem_cons_of_mem _ hy)) hc.2⟩

theorem chain_at (F : Nat → Option Nat) (m1 m2 : List Nat) (b : Nat) (nx : Option Nat)
    (hc : Chain F (m1 ++ b :: m2) nx) : F b = hdOr m2 nx :=
  ((chain_append F m1 (b :: m2) nx).1 hc).2.1

theorem reverse_head_concat (t : List Nat) (p : Nat) : (t ++ [p]).reverse.head? = some p := by simp

/-- insert `e` between `m1` and `m2` -/
theorem splice (F F' : Nat → Option Nat) (m1 m2 : List Nat) (e : Nat) (nx : Option Nat)
    (hnd : (m1 ++ m2).Nodup) (hc : Chain F (m1 ++ m2) nx) (hFe : F' e = hdOr m2 nx)
    (hF : ∀ x ∈ m1 ++ m2, F' x = if m1.reverse.head? = some x then some e else F x) :
    Chain F' (m1 ++ e :: m2) nx := by
  obtain ⟨n1, n2, n3⟩ := List.nodup_append.1 hnd
  obtain ⟨c1, c2⟩ := (chain_append F m1 m2 nx).1 hc
  rw [chain_append]
  have hm2 : Chain F' m2 nx := by
    apply chain_congr F F' m2 nx _ c2
    intro x hx
    rw [hF x (List.mem_append_right _ hx), if_neg]
    intro hh
    have : x ∈ m1 := by
      have := List.mem_of_mem_head? hh
      simpa using this
    exact n3 x this x hx rfl
  refine ⟨?_, hFe, hm2⟩
  rcases List.eq_nil_or_concat m1 with rfl | ⟨t, p, rfl⟩
  · trivial
  · rw [List.concat_eq_append] at *
    rw [chain_append] at c1 ⊢
    obtain ⟨nt, _, ntp⟩ := List.nodup_append.1 n1
    refine ⟨?_, ?_, trivial⟩
    · apply chain_congr F F' t _ _ c1.1
      intro x hx
      rw [hF x (List.mem_append_left _ (List.mem_append_left _ hx)), reverse_head_concat, if_neg]
      intro hh
      exact ntp x hx p (by simp) (Option.some.inj hh).symm
    · rw [hF p (List.mem_append_left _ (by simp)), reverse_head_concat, if_pos rfl]
      rfl

/-- take `e` out from between `m1` and `m2` -/
theorem unsplice (F F' : Nat → Option Nat) (m1 m2 : List Nat) (e : Nat) (nx : Option Nat)
    (hnd : (m1 ++ e :: m2).Nodup) (hc : Chain F (m1 ++ e :: m2) nx)
    (hF : ∀ x ∈ m1 ++ m2, F' x = if m1.reverse.head? = some x then F e else F x) :
    Chain F' (m1 ++ m2) nx := by
  obtain ⟨n1, n2, n3⟩ := List.nodup_append.1 hnd
  obtain ⟨c1, c2, c3⟩ := (chain_append F m1 (e :: m2) nx).1 hc
  rw [chain_append]
  have hm2 : Chain F' m2 nx := by
    apply chain_congr F F' m2 nx _ c3
    intro x hx
    rw [hF x (List.mem_append_right _ hx), if_neg]
    intro hh
    have : x ∈ m1 := by
      have := List.mem_of_mem_head? hh
      simpa using this
    exact n3 x this x (List.mem_cons_of_mem _ hx) rfl
  refine ⟨?_, hm2⟩
  rcases List.eq_nil_or_concat m1 with rfl | ⟨t, p, rfl⟩
  · trivial
  · rw [List.concat_eq_append] at *
    rw [chain_append] at c1 ⊢
    obtain ⟨nt, _, ntp⟩ := List.nodup_append.1 n1
    refine ⟨?_, ?_, trivial⟩
    · apply chain_congr F F' t _ _ c1.1
      intro x hx
      rw [hF x (List.mem_append_left _ (List.mem_append_left _ hx)), reverse_head_concat, if_neg]
      intro hh
      exact ntp x hx p (by simp) (Option.some.inj hh).symm
    · rw [hF p (List.mem_append_left _ (by simp)), reverse_head_concat, if_pos rfl]
      exact c2

/-! ### field access after updates -/

theorem getD_set (l : List (Option Nat)) (e x : Nat) (v : Option Nat) :
    (l.set e v).getD x none = if x = e ∧ e < l.length then v else l.getD x none := by
  simp only [List.getD_eq_getElem?_getD, List.getElem?_set]
  by_cases h1 : e = x
  · subst h1
    by_cases h2 : e < l.length
    · simp [h2]
    · simp [h2]
  · have : ¬ x = e := fun c => h1 c.symm
    simp [h1, this]

@[simp] theorem prv_setPrev (s : St) (e x : Nat) (v : Option Nat) :
    prv (setPrev s e v) x = if x = e ∧ e < s.prev.length then v else prv s x := by
  unfold prv setPrev; exact getD_set _ _ _ _
@[simp] theorem nxt_setNext (s : St) (e x : Nat) (v : Option Nat) :
    nxt (setNext s e v) x = if x = e ∧ e < s.next.length then v else nxt s x := by
  unfold nxt setNext; exact getD_set _ _ _ _
@[simp] theorem prv_setNext (s : St) (e x : Nat) (v : Option Nat) : prv (setNext s e v) x = prv s x := rfl
@[simp] theorem nxt_setPrev (s : St) (e x : Nat) (v : Option Nat) : nxt (setPrev s e v) x = nxt s x := rfl
@[simp] theorem head_setPrev (s : St) (e : Nat) (v : Option Nat) : (setPrev s e v).head = s.head := rfl
@[simp] theorem head_setNext (s : St) (e : Nat) (v : Option Nat) : (setNext s e v).head = s.head := rfl
@[simp] theorem tail_setPrev (s : St) (e : Nat) (v : Option Nat) : (setPrev s e v).tail = s.tail := rfl
@[simp] theorem tail_setNext (s : St) (e : Nat) (v : Option Nat) : (setNext s e v).tail = s.tail := rfl
@[simp] theorem plen_setPrev (s : St) (e : Nat) (v : Option Nat) :
    (setPrev s e v).prev.length = s.prev.length := by simp [setPrev]
@[simp] theorem plen_setNext (s : St) (e : Nat) (v : Option Nat) :
    (setNext s e v).prev.length = s.prev.length := rfl
@[simp] theorem nlen_setPrev (s : St) (e : Nat) (v : Option Nat) :
    (setPrev s e v).next.length = s.next.length := rfl
@[simp] theorem nlen_setNext (s : St) (e : Nat) (v : Option Nat) :
    (setNext s e v).next.length = s.next.length := by simp [setNext]
@[simp] theorem prv_setHead (s : St) (h : Option Nat) (x : Nat) : prv (setHead s h) x = prv s x := rfl
@[simp] theorem nxt_setHead (s : St) (h : Option Nat) (x : Nat) : nxt (setHead s h) x = nxt s x := rfl
@[simp] theorem prv_setTail (s : St) (h : Option Nat) (x : Nat) : prv (setTail s h) x = prv s x := rfl
@[simp] theorem nxt_setTail (s : St) (h : Option Nat) (x : Nat) : nxt (setTail s h) x = nxt s x := rfl
@[simp] theorem head_setHead (s : St) (h : Option Nat) : (setHead s h).head = h := rfl
@[simp] theorem tail_setHead (s : St) (h : Option Nat) : (setHead s h).tail = s.tail := rfl
@[simp] theorem head_setTail (s : St) (h : Option Nat) : (setTail s h).head = s.head := rfl
@[simp] theorem tail_setTail (s : St) (h : Option Nat) : (setTail s h).tail = h := rfl
@[simp] theorem plen_setHead (s : St) (h : Option Nat) : (setHead s h).prev.length = s.prev.length := rfl
@[simp] theorem nlen_setHead (s : St) (h : Option Nat) : (setHead s h).next.length = s.next.length := rfl
@[simp] theorem plen_setTail (s : St) (h : Option Nat) : (setTail s h).prev.length = s.prev.length := rfl
@[simp] theorem nlen_setTail (s : St) (h : Option Nat) : (setTail s h).next.length = s.next.length := rfl

/-! ### the representation relation -/

/-- state `s` represents the sequence `l` -/
structure Rep (s : St) (l : List Nat) : Prop where
  nodup : l.Nodup
  bound : ∀ x ∈ l, x < s.next.length
  lens : s.prev.length = s.next.length
  head : s.head = l.head?
  tail : s.tail = l.reverse.head?
  cx : Chain (nxt s) l none
  cp : Chain (prv s) l.reverse none

theorem nodup_reverse (l : List Nat) (h : l.Nodup) : l.reverse.Nodup := by
  unfold List.Nodup at *
  rw [List.pairwise_reverse]
  exact h.imp (fun h => h.symm)

theorem insBefore_split (l1 l2 : List Nat) (b e : Nat) (h : b ∉ l1) :
    insBefore (l1 ++ b :: l2) b e = l1 ++ e :: b :: l2 := by
  induction l1 with
  | nil => simp [insBefore]
  | cons x r ih =>
    have hx : ¬ x = b := fun c => h (by simp [c])
    simp only [List.cons_append, insBefore, hx, if_false]
    rw [ih (fun c => h (List.mem_cons_of_mem _ c))]

theorem insAfter_split (l1 l2 : List Nat) (a e : Nat) (h : a ∉ l1) :
    insAfter (l1 ++ a :: l2) a e = l1 ++ a :: e :: l2 := by
  induction l1 with
  | nil => simp [insAfter]
  | cons x r ih =>
    have hx : ¬ x = a := fun c => h (by simp [c])
    simp only [List.cons_append, insAfter, hx, if_false]
    rw [ih (fun c => h (List.mem_cons_of_mem _ c))]

theorem erase_split (l1 l2 : List Nat) (e : Nat) (h : e ∉ l1) :
    (l1 ++ e :: l2).erase e = l1 ++ l2 := by
  rw [List.erase_append_right _ h, List.erase_cons_head]

end MirVerif.Dlist
