import MirVerif.Model.HtabArr
/-!
The Array-backed twin executed by the driver is the list model seen through `TabA.toTab`.
-/
namespace MirVerif.Htab

variable {α : Type}

theorem ent_toTab (t : TabA α) (p : Nat) : ent t.toTab p = entA t p := by
  simp [ent, entA, TabA.toTab, List.getD_eq_getElem?_getD, Array.getD_eq_getD_getElem?]

theorem scanA_eq (eq : α → α → Bool) (t : TabA α) (h : Nat) (x : α) (fuel ind pb : Nat)
    (ld : Option Nat) (c : Nat) :
    scan eq t.toTab h x fuel ind pb ld c = scanA eq t h x fuel ind pb ld c := by
  induction fuel generalizing ind pb ld c with
  | zero => rfl
  | succ n ih =>
    have hlen : t.toTab.entries.length = t.entries.size := by simp [TabA.toTab]
    have hel : ∀ i : Nat, t.toTab.els[i]? = t.els[i]? := by intro i; simp [TabA.toTab]
    simp only [scan, scanA, ih, ent_toTab, hlen, hel]
    cases entA t ind with
    | empty => rfl
    | deleted => rfl
    | idx i => cases t.els[i]? <;> rfl

theorem lookupA_eq (hf : α → Nat) (eq : α → α → Bool) (t : TabA α) (x : α) :
    lookup hf eq t.toTab x = lookupA hf eq t x := by
  have hlen : t.toTab.entries.length = t.entries.size := by simp [TabA.toTab]
  simp only [lookup, lookupA, fuelFor, scanA_eq, hlen]

theorem coreA_eq (hf : α → Nat) (eq : α → α → Bool) (t : TabA α) (x : α) (a : Action) :
    core hf eq t.toTab x a = ((coreA hf eq t x a).1.toTab, (coreA hf eq t x a).2) := by
  unfold core coreA
  rw [lookupA_eq]
  cases lookupA hf eq t x with
  | found p i e c =>
    cases a <;> simp [TabA.toTab, addColl, addCollA]
  | absent p ld c =>
    cases a <;> simp [TabA.toTab, addColl, addCollA]
  | noFuel => rfl

theorem foldl_toTab {β : Type} (f : Tab α → β → Tab α) (g : TabA α → β → TabA α)
    (h : ∀ acc e, (g acc e).toTab = f acc.toTab e) :
    ∀ (l : List β) (a : TabA α), (l.foldl g a).toTab = l.foldl f a.toTab := by
  intro l
  induction l with
  | nil => intro a; rfl
  | cons e l ih => intro a; simp only [List.foldl_cons]; rw [ih, h]

theorem rebuildA_eq (hf : α → Nat) (eq : α → α → Bool) (t : TabA α) :
    rebuild hf eq t.toTab = (rebuildA hf eq t).toTab := by
  unfold rebuild rebuildA
  rw [List.foldl_filter, ← Array.foldl_toList]
  have hfresh : (fresh (2 * t.toTab.entries.length) (2 * t.toTab.cap) t.toTab.coll : Tab α) =
      (freshA (2 * t.entries.size) (2 * t.cap) t.coll : TabA α).toTab := by
    simp [fresh, freshA, TabA.toTab]
  rw [hfresh]
  symm
  apply foldl_toTab
  intro acc e
  split
  · rw [coreA_eq]
  · rfl

theorem doOpA_eq (hf : α → Nat) (eq : α → α → Bool) (t : TabA α) (x : α) (a : Action) :
    doOp hf eq t.toTab x a = ((doOpA hf eq t x a).1.toTab, (doOpA hf eq t x a).2) := by
  unfold doOp doOpA
  have hlen : t.toTab.els.length = t.els.size := by simp [TabA.toTab]
  have hcap : t.toTab.cap = t.cap := rfl
  rw [hlen, hcap]
  split
  · rw [rebuildA_eq, coreA_eq]
  · rw [coreA_eq]

theorem contentsA_eq (t : TabA α) : contents t.toTab = contentsA t := rfl

theorem clearA_eq (t : TabA α) : clear t.toTab = ((clearA t).1.toTab, (clearA t).2) := by
  simp [clear, clearA, TabA.toTab, contentsA, contents]

theorem createA_eq (minSize : Nat) : (create minSize : Tab α) = (createA minSize : TabA α).toTab := by
  simp [create, createA, fresh, freshA, TabA.toTab]

/-- one driver step = one model step -/
theorem stepA_toTab (hf : α → Nat) (eq : α → α → Bool) (t : TabA α) (o : Op α) :
    step hf eq t.toTab o = ((stepA hf eq t o).1.toTab, (stepA hf eq t o).2) := by
  cases o with
  | act a x => simp only [step, stepA, doOpA_eq, contentsA_eq]; rfl
  | clear => simp only [step, stepA, clearA_eq, contentsA_eq]; rfl

/-- a driver run = a model run -/
theorem runA_toTab (hf : α → Nat) (eq : α → α → Bool) : ∀ (ops : List (Op α)) (t : TabA α),
    run hf eq t.toTab ops = ((runA hf eq t ops).1.toTab, (runA hf eq t ops).2) := by
  intro ops
  induction ops with
  | nil => intro t; rfl
  | cons o os ih =>
    intro t
    simp only [run, runA, stepA_toTab, ih]

end MirVerif.Htab
