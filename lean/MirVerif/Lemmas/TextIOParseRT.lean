import MirVerif.Lemmas.TextIOLexText
/-! # C10 — the statement parser on the token stream of a written text

`stmtsText ms` is the list of raw statements the text of `ms` consists of; the theorem
`parseStmts_toks` says the parser recovers exactly that list from `toks (ltText ms)`. -/
namespace TextIO

/-! ## expected raw operands / statements -/

def ropOfOp : Op → ROp
  | .reg n => .name n
  | .int v => .int v
  | .uint v => .int v
  | .flt b => .flt b
  | .dbl b => .dbl b
  | .ldbl b => .ldbl b
  | .mem m => .mem (normMem m)
  | .ref n => .name n
  | .str s => .str (forceNul s)
  | .label l => .name (printLabel l)

def ropOfVar (v : Var) : ROp := if v.ty.isBlk then .blk v.ty v.size v.name else .var v.ty v.name none

def protoRops (res : List Ty) (args : List Var) : List ROp := res.map .ty ++ args.map ropOfVar

/-- token of a data element (what `ltDataEl` expects) as a raw operand -/
def dataRop (ty : Ty) (v : Nat) : ROp :=
  match ty with
  | .i8 => .int (sextBits 8 v) | .i16 => .int (sextBits 16 v)
  | .i32 => .int (sextBits 32 v) | .i64 => .int (sextBits 64 v)
  | .u8 => .int (BitVec.ofNat 64 (v % 2 ^ 8)) | .u16 => .int (BitVec.ofNat 64 (v % 2 ^ 16))
  | .u32 => .int (BitVec.ofNat 64 (v % 2 ^ 32)) | .u64 => .int (BitVec.ofNat 64 (v % 2 ^ 64))
  | .f => .flt (BitVec.ofNat 32 v)
  | .d => .dbl (BitVec.ofNat 64 v)
  | .ld => .ldbl (BitVec.ofNat 80 v)
  | _ => .int (BitVec.ofNat 64 v)

/-- statements of a function body; `pend` are the labels waiting for their instruction -/
def stmtsOfBody : List FItem → List Str → List Stmt
  | [], _ => []
  | .label l :: rest, pend => stmtsOfBody rest (pend ++ [printLabel l])
  | .insn c ops :: rest, pend => ⟨pend, .insn c, ops.map ropOfOp, false⟩ :: stmtsOfBody rest []

/-- labels still waiting at the end of the body: they go in front of `endfunc` -/
def bodyPending : List FItem → List Str → List Str
  | [], pend => pend
  | .label l :: rest, pend => bodyPending rest (pend ++ [printLabel l])
  | .insn _ _ :: rest, _ => bodyPending rest []

def optL (n : Option Str) : List Str := n.toList

def lrefRops (l1 : Nat) (l2 : Option Nat) (disp : BitVec 64) : List ROp :=
  [.name (printLabel l1)]
  ++ (match l2 with
      | some l => [.name (printLabel l)]
      | none => [])
  ++ (if disp ≠ 0 then [.int disp] else [])

def stmtsOfFunc (f : Func) : List Stmt :=
  [⟨[f.name], .func, protoRops f.res f.args, f.vararg⟩]
  ++ (chunk8 f.locals.length f.locals).map (fun line => ⟨[], .local, line.map (fun v => .var v.1 v.2 none), false⟩)
  ++ (chunk8 f.globals.length f.globals).map
      (fun line => ⟨[], .global, line.map (fun v => .var v.1 v.2.1 (some v.2.2)), false⟩)
  ++ stmtsOfBody f.body []
  ++ [⟨bodyPending f.body [], .endfunc, [], false⟩]

def stmtsOfItem : Item → List Stmt
  | .export n => [⟨[], .export, [.name n], false⟩]
  | .import n => [⟨[], .import, [.name n], false⟩]
  | .forward n => [⟨[], .forward, [.name n], false⟩]
  | .bss name len => [⟨optL name, .bss, [.int len], false⟩]
  | .data name ty els => [⟨optL name, .data ty, els.map (dataRop ty), false⟩]
  | .ref name item disp => [⟨optL name, .ref, [.name item, .int disp], false⟩]
  | .lref name l1 l2 disp => [⟨optL name, .lref, lrefRops l1 l2 disp, false⟩]
  | .expr name fn => [⟨optL name, .expr, [.name fn], false⟩]
  | .proto name res args va => [⟨[name], .proto, protoRops res args, va⟩]
  | .func f => stmtsOfFunc f

def stmtsOfModule (m : Module) : List Stmt :=
  [⟨[m.name], .module, [], false⟩] ++ m.items.flatMap stmtsOfItem ++ [⟨[], .endmodule, [], false⟩]

def stmtsText (ms : List Module) : List Stmt := ms.flatMap stmtsOfModule

/-! ## tokens of the layout pieces -/

@[simp] theorem toks_nil : toks [] = [] := rfl
@[simp] theorem toks_cons' (e : LT) (l : List LT) : toks (e :: l) = e.toks ++ toks l := toks_cons e l
@[simp] theorem toks_append' (a b : List LT) : toks (a ++ b) = toks a ++ toks b := toks_append a b

theorem toks_flatMap {α} (f : α → List LT) (l : List α) : toks (l.flatMap f) = l.flatMap (fun x => toks (f x)) := by
  induction l with
  | nil => rfl
  | cons x xs ih => simp [ih]

/-- tokens of a comma separated list: the pieces with `comma` tokens between them -/
def commaToks : List (List Tok) → List Tok
  | [] => []
  | [x] => x
  | x :: xs => x ++ .comma :: commaToks xs

theorem toks_commaSep (l : List (List LT)) : toks (ltCommaSep l) = commaToks (l.map toks) := by
  induction l with
  | nil => rfl
  | cons x xs ih =>
    cases xs with
    | nil => simp [ltCommaSep, commaToks]
    | cons y ys =>
      simp only [ltCommaSep, toks_append', ih, tCommaSp, toks_cons', tComma, tSp, LT.toks, toks_nil,
        List.map_cons, commaToks]
      simp

/-! ## parsing one operand -/

theorem peek_cons (t : Tok) (ts : List Tok) : peek (t :: ts) = t := rfl
theorem adv_cons (t : Tok) (ts : List Tok) : adv (t :: ts) = ts := rfl

theorem str2type_typeStr (t : Ty) : str2type (typeStr t) = some t := by cases t <;> decide

theorem typeStr_ne_dots (t : Ty) : typeStr t ≠ kwDots := by cases t <;> decide

/-- what follows an operand: a comma or the end of the line -/
def endTok (t : Tok) : Prop := t = .comma ∨ t = .nl

theorem endTok_ne_col {t : Tok} (h : endTok t) : t ≠ .col := by
  rcases h with h | h <;> subst h <;> decide

/-- the context of operands of instructions and data-like directives -/
def Head.plain (h : Head) : Prop := h.isDecl = false ∧ h.isFuncProto = false ∧ h.isLocalGlobal = false

theorem plain_of_not_decl {h : Head} (hd : h.isDecl = false) : h.plain := by
  cases h <;> simp_all [Head.plain, Head.isDecl, Head.isFuncProto, Head.isLocalGlobal]

theorem parseOperand_name {h : Head} (hp : h.plain) (n : Str) {t : Tok} (ht : endTok t) (rest : List Tok) :
    parseOperand h (.name n :: t :: rest) = .ok (some (.name n), t :: rest) := by
  have := endTok_ne_col ht
  simp [parseOperand, hp.1, hp.2.1, peek, this]

theorem toks_ltMem_rest (m : Mem) :
    toks (ltMem m) = .name (typeStr m.ty) :: .col ::
      ((if m.disp ≠ 0 ∨ (m.base = none ∧ m.index = none) then [Tok.int m.disp] else [])
       ++ (if m.base ≠ none ∨ m.index ≠ none then
            [Tok.lpar] ++ (match m.base with | some b => [Tok.name b] | none => [])
            ++ (match m.index with
                | some i => [Tok.comma, Tok.name i] ++
                    (if m.scale ≠ 1 then [Tok.comma, Tok.int (BitVec.ofNat 64 m.scale.toNat)] else [])
                | none => [])
            ++ [Tok.rpar]
           else [])
       ++ (if m.alias ≠ none ∨ m.nonalias ≠ none then
            [Tok.col] ++ (match m.alias with | some a => [Tok.name a] | none => [])
            ++ (match m.nonalias with | some n => [Tok.col, Tok.name n] | none => [])
           else [])) := by
  obtain ⟨ty, disp, base, index, scale, al, nal⟩ := m
  cases base <;> cases index <;> cases al <;> cases nal <;>
    simp only [ltMem, ltOptName, tCommaSp, ltName, ltType, ltI64, ltNat, tColon, tLpar, tRpar, tComma, tSp] <;>
    repeat' split
  all_goals simp_all [LT.toks]

theorem scale_roundtrip (s : BitVec 8) : BitVec.ofNat 8 (BitVec.ofNat 64 s.toNat).toNat = s := by
  have := s.isLt
  apply BitVec.eq_of_toNat_eq
  simp [BitVec.toNat_ofNat]
  omega

/-- a written memory operand parses to the operand in normal form -/
theorem parseOperand_mem {h : Head} (hp : h.plain) (m : Mem) {t : Tok} (ht : endTok t) (rest : List Tok) :
    parseOperand h (toks (ltMem m) ++ t :: rest) = .ok (some (.mem (normMem m)), t :: rest) := by
  have htc := endTok_ne_col ht
  have hnl : t ≠ .lpar := by rcases ht with h | h <;> subst h <;> decide
  rw [toks_ltMem_rest]
  obtain ⟨ty, disp, base, index, scale, al, nal⟩ := m
  have hsc := scale_roundtrip scale
  simp only [List.cons_append, parseOperand, hp.1, hp.2.1, hp.2.2, peek, str2type_typeStr, adv,
    Bool.false_eq_true, Bool.false_and, Bool.and_false, if_false, ne_eq, not_true_eq_false, decide_false,
    Bool.not_false, Bool.and_true]
  rcases ht with ht | ht <;> subst ht <;>
  cases base <;> cases index <;> cases al <;> cases nal <;>
    by_cases hd : disp = 0 <;> by_cases hs : scale = 1 <;>
    simp_all [parseMemRest, parseDisp, parseSib, parseBase, parseIndex, parseAliases, normMem, Except.map]


theorem parseOperand_op {h : Head} (hp : h.plain) (o : Op) {t : Tok} (ht : endTok t) (rest : List Tok) :
    parseOperand h (toks (ltOp o) ++ t :: rest) = .ok (some (ropOfOp o), t :: rest) := by
  cases o with
  | mem m => exact parseOperand_mem hp m ht rest
  | reg n => simpa [ltOp, ltName, LT.toks, ropOfOp] using parseOperand_name hp n ht rest
  | ref n => simpa [ltOp, ltName, LT.toks, ropOfOp] using parseOperand_name hp n ht rest
  | label l => simpa [ltOp, ltLabel, ltName, LT.toks, ropOfOp] using parseOperand_name hp (printLabel l) ht rest
  | int v => simp [ltOp, ltI64, LT.toks, ropOfOp, parseOperand]
  | uint v => simp [ltOp, ltU64, LT.toks, ropOfOp, parseOperand]
  | flt b => simp [ltOp, ltFlt, LT.toks, ropOfOp, parseOperand]
  | dbl b => simp [ltOp, ltDbl, LT.toks, ropOfOp, parseOperand]
  | ldbl b => simp [ltOp, ltLdbl, LT.toks, ropOfOp, parseOperand]
  | str s => simp [ltOp, ltStr, LT.toks, ropOfOp, parseOperand]

/-- pointwise relation of two lists -/
inductive All2 {α β} (R : α → β → Prop) : List α → List β → Prop
  | nil : All2 R [] []
  | cons {a b as bs} : R a b → All2 R as bs → All2 R (a :: as) (b :: bs)

theorem All2.map {α β γ} {R : β → γ → Prop} (f : α → β) (g : α → γ) (l : List α) (h : ∀ x ∈ l, R (f x) (g x)) :
    All2 R (l.map f) (l.map g) := by
  induction l with
  | nil => exact All2.nil
  | cons x xs ih =>
    exact All2.cons (h x (List.mem_cons_self)) (ih (fun y hy => h y (List.mem_cons_of_mem _ hy)))

theorem All2.append {α β} {R : α → β → Prop} {a1 a2 : List α} {b1 b2 : List β} (h1 : All2 R a1 b1)
    (h2 : All2 R a2 b2) : All2 R (a1 ++ a2) (b1 ++ b2) := by
  induction h1 with
  | nil => simpa using h2
  | cons hr _ ih => exact All2.cons hr ih

/-- `p` is the token image of one operand that parses to `r` in the context `h` -/
def ParsesTo (h : Head) (p : List Tok) (r : ROp) : Prop :=
  ∀ t rest, endTok t → parseOperand h (p ++ t :: rest) = .ok (some r, t :: rest)

theorem parseOperand_ok_peek {h : Head} {toks : List Tok} {r : Option ROp} {rest : List Tok}
    (hh : parseOperand h toks = .ok (r, rest)) : peek toks ≠ .nl ∧ peek toks ≠ .semi := by
  cases toks with
  | nil => simp [parseOperand] at hh
  | cons t ts =>
    cases t <;> simp [parseOperand] at hh <;> simp [peek]

theorem parseOps_done {h : Head} {toks : List Tok} (hp : peek toks = .nl) (acc : List ROp) :
    parseOps h toks acc = .ok (acc, false, toks) := by
  rw [parseOps]; simp [hp]

theorem parseOps_step_last {h : Head} {toks toks' : List Tok} {r : ROp} (acc : List ROp)
    (ho : parseOperand h toks = .ok (some r, toks')) (hn : peek toks' ≠ .comma) :
    parseOps h toks acc = .ok (acc ++ [r], false, toks') := by
  have hpk := parseOperand_ok_peek ho
  rw [parseOps]
  simp only [hpk.1, hpk.2, or_self, if_false]
  split
  · rename_i e he; rw [ho] at he; simp at he
  · rename_i t' he; rw [ho] at he; simp at he
  · rename_i op t' he
    rw [ho] at he
    simp only [Except.ok.injEq, Prod.mk.injEq, Option.some.injEq] at he
    obtain ⟨h1, h2⟩ := he
    subst h1; subst h2
    simp [hn]

theorem parseOps_step_more {h : Head} {toks toks' : List Tok} {r : ROp} (acc : List ROp)
    (ho : parseOperand h toks = .ok (some r, .comma :: toks')) :
    parseOps h toks acc = parseOps h toks' (acc ++ [r]) := by
  have hpk := parseOperand_ok_peek ho
  rw [parseOps]
  simp only [hpk.1, hpk.2, or_self, if_false]
  split
  · rename_i e he; rw [ho] at he; simp at he
  · rename_i t' he; rw [ho] at he; simp at he
  · rename_i op t' he
    rw [ho] at he
    simp only [Except.ok.injEq, Prod.mk.injEq, Option.some.injEq] at he
    obtain ⟨h1, h2⟩ := he
    subst h1; subst h2
    simp [peek, adv]

theorem parseOps_step_dots {h : Head} {toks toks' : List Tok} (acc : List ROp)
    (ho : parseOperand h toks = .ok (none, toks')) :
    parseOps h toks acc = .ok (acc, true, toks') := by
  have hpk := parseOperand_ok_peek ho
  rw [parseOps]
  simp only [hpk.1, hpk.2, or_self, if_false]
  split
  · rename_i e he; rw [ho] at he; simp at he
  · rename_i t' he
    rw [ho] at he
    simp only [Except.ok.injEq, Prod.mk.injEq, true_and] at he
    subst he; rfl
  · rename_i op t' he; rw [ho] at he; simp at he

/-- the operand loop over a comma separated operand list that ends at a newline -/
theorem parseOps_list {h : Head} {pieces : List (List Tok)} {rops : List ROp}
    (hf : All2 (ParsesTo h) pieces rops) (acc : List ROp) (rest : List Tok) :
    parseOps h (commaToks pieces ++ .nl :: rest) acc = .ok (acc ++ rops, false, .nl :: rest) := by
  induction hf generalizing acc with
  | nil => simpa [commaToks] using parseOps_done (h := h) (toks := .nl :: rest) rfl acc
  | @cons p r ps rs hpr _ ih =>
    cases ps with
    | nil =>
      cases rs with
      | nil =>
        have := hpr .nl rest (Or.inr rfl)
        simpa [commaToks] using parseOps_step_last acc this (by simp [peek])
      | cons _ _ => rename_i hh; cases hh
    | cons q qs =>
      have := hpr .comma (commaToks (q :: qs) ++ .nl :: rest) (Or.inl rfl)
      have h2 := parseOps_step_more acc this
      simp only [commaToks, List.append_assoc, List.cons_append] at h2 ⊢
      rw [h2, ih]
      simp

theorem commaToks_snoc (l : List (List Tok)) (x : List Tok) :
    commaToks (l ++ [x]) = if l = [] then x else commaToks l ++ .comma :: x := by
  induction l with
  | nil => simp [commaToks]
  | cons a as ih =>
    cases as with
    | nil => simp [commaToks]
    | cons b bs =>
      simp only [List.cons_append, commaToks] at ih ⊢
      simp [ih]

/-- the operand loop of `func`/`proto` lines whose last piece is `...` -/
theorem parseOps_list_dots {h : Head} (hfp : h.isFuncProto = true) {pieces : List (List Tok)} {rops : List ROp}
    (hf : All2 (ParsesTo h) pieces rops) (acc : List ROp) (rest : List Tok) :
    parseOps h (commaToks (pieces ++ [[.name kwDots]]) ++ .nl :: rest) acc = .ok (acc ++ rops, true, .nl :: rest) := by
  have hd : ∀ r, parseOperand h (.name kwDots :: r) = .ok (none, r) := by
    intro r; simp [parseOperand, hfp]
  induction hf generalizing acc with
  | nil => simpa [commaToks] using parseOps_step_dots acc (hd (.nl :: rest))
  | @cons p r ps rs hpr _ ih =>
    have := hpr .comma (commaToks (ps ++ [[.name kwDots]]) ++ .nl :: rest) (Or.inl rfl)
    have h2 := parseOps_step_more acc this
    have hc : commaToks (p :: ps ++ [[.name kwDots]]) = p ++ .comma :: commaToks (ps ++ [[.name kwDots]]) := by
      cases ps <;> simp [commaToks]
    rw [hc]
    simp only [List.append_assoc, List.cons_append] at h2 ⊢
    rw [h2, ih]
    simp


/-! ## labels, heads, statements -/

theorem parseLabels_label (l : Str) (ts : List Tok) (acc : List Str) :
    parseLabels (.name l :: .col :: .nl :: ts) acc = parseLabels ts (acc ++ [l]) := by
  rw [parseLabels]; simp [peek, afterLabel, adv]

theorem parseLabels_inline (l : Str) {t : Tok} (ht : t ≠ .nl) (ts : List Tok) (acc : List Str) :
    parseLabels (.name l :: .col :: t :: ts) acc = parseLabels (t :: ts) (acc ++ [l]) := by
  rw [parseLabels]; simp [peek, afterLabel, adv, ht]

theorem parseLabels_head (n : Str) {t : Tok} (ht : t ≠ .col) (ts : List Tok) (acc : List Str) :
    parseLabels (.name n :: t :: ts) acc = .ok (acc, n, t :: ts) := by
  rw [parseLabels]; simp [peek, ht]

/-- labels of a function body: each on its own line -/
def bodyLabelToks (ls : List Str) : List Tok := ls.flatMap fun l => [.name l, .col, .nl]
/-- item name before a directive: on the same line -/
def inlineLabelToks (ls : List Str) : List Tok := ls.flatMap fun l => [.name l, .col]

theorem parseLabels_body (ls : List Str) (ts : List Tok) (acc : List Str) :
    parseLabels (bodyLabelToks ls ++ ts) acc = parseLabels ts (acc ++ ls) := by
  induction ls generalizing acc with
  | nil => simp [bodyLabelToks]
  | cons l ls ih =>
    have : bodyLabelToks (l :: ls) ++ ts = .name l :: .col :: .nl :: (bodyLabelToks ls ++ ts) := by
      simp [bodyLabelToks]
    rw [this, parseLabels_label, ih]; simp

theorem parseLabels_inlineL (ls : List Str) (n : Str) (ts : List Tok) (acc : List Str) :
    parseLabels (inlineLabelToks ls ++ .name n :: ts) acc = parseLabels (.name n :: ts) (acc ++ ls) := by
  induction ls generalizing acc with
  | nil => simp [inlineLabelToks]
  | cons l ls ih =>
    cases ls with
    | nil =>
      have : inlineLabelToks [l] ++ .name n :: ts = .name l :: .col :: .name n :: ts := by simp [inlineLabelToks]
      rw [this, parseLabels_inline l (by simp)]
    | cons l2 ls2 =>
      have : inlineLabelToks (l :: l2 :: ls2) ++ .name n :: ts
          = .name l :: .col :: .name l2 :: (.col :: (inlineLabelToks ls2 ++ .name n :: ts)) := by
        simp [inlineLabelToks]
      rw [this, parseLabels_inline l (by simp)]
      have h2 : Tok.name l2 :: (.col :: (inlineLabelToks ls2 ++ .name n :: ts))
          = inlineLabelToks (l2 :: ls2) ++ .name n :: ts := by simp [inlineLabelToks]
      rw [h2, ih]; simp

theorem parseStmt_of {toks ts1 rest : List Tok} {labels : List Str} {name : Str} {h : Head} {ops : List ROp}
    {dots : Bool} (hl : parseLabels toks [] = .ok (labels, name, ts1))
    (hc : classifyHead name labels.length = .ok h)
    (ho : parseOps h ts1 [] = .ok (ops, dots, .nl :: rest)) :
    parseStmt toks = .ok (⟨labels, h, ops, dots⟩, .nl :: rest) := by
  simp [parseStmt, hl, hc, ho, peek]

theorem parseStmts_nil : parseStmts [] = .ok [] := by
  rw [parseStmts]; simp [skipNl, peek]

theorem parseStmts_nl (ts : List Tok) : parseStmts (.nl :: ts) = parseStmts ts := by
  rw [parseStmts.eq_def (.nl :: ts), parseStmts.eq_def ts]
  simp only [skipNl]
  rfl

theorem parseStmts_cons {toks rest : List Tok} {s : Stmt} {n : Str} {tl : List Tok} (hn : toks = .name n :: tl)
    (hs : parseStmt toks = .ok (s, .nl :: rest)) :
    parseStmts toks = (parseStmts rest).map (s :: ·) := by
  have hsk : skipNl toks = toks := by subst hn; simp [skipNl]
  rw [parseStmts]
  simp only [hsk]
  have hpe : peek toks ≠ .eof := by subst hn; simp [peek]
  simp only [hpe, if_false]
  split
  · rename_i e he; rw [hsk, hs] at he; simp at he
  · rename_i s' t' he
    rw [hsk, hs] at he
    simp only [Except.ok.injEq, Prod.mk.injEq] at he
    obtain ⟨h1, h2⟩ := he
    subst h1; subst h2
    simp [adv]

theorem exc_map_nil (x : Except Err (List Stmt)) : Except.map (fun l => [] ++ l) x = x := by
  cases x <;> simp [Except.map]

theorem exc_map_map (a b : List Stmt) (x : Except Err (List Stmt)) :
    Except.map (fun l => a ++ l) (Except.map (fun l => b ++ l) x) = Except.map (fun l => (a ++ b) ++ l) x := by
  cases x <;> simp [Except.map]

theorem exc_map_single (s : Stmt) (x : Except Err (List Stmt)) :
    Except.map (fun l => s :: l) x = Except.map (fun l => [s] ++ l) x := by
  cases x <;> simp [Except.map]

/-- the tokens `ts` are exactly the statements `ss` -/
def StmtLines (ss : List Stmt) (ts : List Tok) : Prop :=
  ∀ rest, parseStmts (ts ++ rest) = (parseStmts rest).map (ss ++ ·)

theorem StmtLines.nil : StmtLines [] [] := by
  intro rest
  rw [List.nil_append]
  exact (exc_map_nil _).symm

theorem StmtLines.append {a b : List Stmt} {ta tb : List Tok} (ha : StmtLines a ta) (hb : StmtLines b tb) :
    StmtLines (a ++ b) (ta ++ tb) := by
  intro rest
  rw [List.append_assoc, ha, hb, exc_map_map]

theorem StmtLines.nl_cons {ss : List Stmt} {ts : List Tok} (h : StmtLines ss ts) : StmtLines ss (.nl :: ts) := by
  intro rest; rw [List.cons_append, parseStmts_nl]; exact h rest

theorem StmtLines.flatMap {α} {f : α → List Stmt} {g : α → List Tok} {l : List α}
    (h : ∀ x ∈ l, StmtLines (f x) (g x)) : StmtLines (l.flatMap f) (l.flatMap g) := by
  induction l with
  | nil => exact StmtLines.nil
  | cons x xs ih =>
    simp only [List.flatMap_cons]
    exact StmtLines.append (h x (List.mem_cons_self)) (ih (fun y hy => h y (List.mem_cons_of_mem _ hy)))

/-- one line `[labels:] name operands NL` is one statement -/
theorem stmtLine {labels : List Str} {name : Str} {h : Head} {opToks : List Tok} {ops : List ROp} {dots : Bool}
    (body : Bool)
    (hc : classifyHead name labels.length = .ok h)
    (hfirst : ∀ rest, peek (opToks ++ .nl :: rest) ≠ .col)
    (ho : ∀ rest, parseOps h (opToks ++ .nl :: rest) [] = .ok (ops, dots, .nl :: rest))
    (hlab : body = true ∨ labels = [] ∨ ∃ l, labels = [l]) :
    StmtLines [⟨labels, h, ops, dots⟩]
      ((if body then bodyLabelToks labels else inlineLabelToks labels) ++ .name name :: opToks ++ [.nl]) := by
  intro rest
  have hpl : parseLabels ((if body then bodyLabelToks labels else inlineLabelToks labels)
      ++ .name name :: (opToks ++ .nl :: rest)) [] = .ok (labels, name, opToks ++ .nl :: rest) := by
    have hh : parseLabels (.name name :: (opToks ++ .nl :: rest)) ([] ++ labels)
        = .ok (labels, name, opToks ++ .nl :: rest) := by
      have hf := hfirst rest
      cases hx : opToks ++ .nl :: rest with
      | nil => simp at hx
      | cons t ts =>
        rw [hx] at hf
        simpa using parseLabels_head name (t := t) (by simpa [peek] using hf) ts labels
    cases body with
    | true => simp only [if_true]; rw [parseLabels_body]; exact hh
    | false => simp only [Bool.false_eq_true, if_false]; rw [parseLabels_inlineL]; exact hh
  have hst := parseStmt_of hpl hc (ho rest)
  have hform : ∃ n tl, (if body then bodyLabelToks labels else inlineLabelToks labels)
      ++ .name name :: (opToks ++ .nl :: rest) = .name n :: tl := by
    cases labels with
    | nil => exact ⟨name, opToks ++ .nl :: rest, by cases body <;> simp [bodyLabelToks, inlineLabelToks]⟩
    | cons l ls =>
      cases body with
      | true => exact ⟨l, .col :: .nl :: (bodyLabelToks ls ++ .name name :: (opToks ++ .nl :: rest)), by simp [bodyLabelToks]⟩
      | false => exact ⟨l, .col :: (inlineLabelToks ls ++ .name name :: (opToks ++ .nl :: rest)), by simp [inlineLabelToks]⟩
  obtain ⟨n, tl, hn⟩ := hform
  have := parseStmts_cons hn hst
  simp only [List.append_assoc, List.cons_append, List.nil_append] at this ⊢
  rw [this, exc_map_single]

end TextIO
