import MirVerif.Model.Classify
/-! C08: `process_aggregate_arg` / `get_blk_type` / `process_ret_type` against the psABI register
assignment, given the classes of the aggregate. -/
set_option linter.unusedSimpArgs false
namespace MirVerif.Classify
open MirVerif.Layout

/-- what is assumed about one aggregate type: c2mir classifies it as the psABI does, and the result
is one of the legal patterns (checked at run time for every generated aggregate) -/
def ClassOK (L : CTy → Lay) (t : CTy) : Prop :=
  (c2mClassify t).getD [.mem] = sysvClass L t ∧ ∀ cs, c2mClassify t = some cs → validCls cs = true

/-- the psABI register counters are c2mir's counters, saturated -/
def Sat (ai : ArgInfo) (av : Avail) : Prop := av.nI = min ai.nI 6 ∧ av.nF = min ai.nF 8

theorem validCls_cases {cs : List Cls} (h : validCls cs = true) :
    cs = [.int] ∨ cs = [.sse] ∨ cs = [.int, .int] ∨ cs = [.int, .sse] ∨ cs = [.sse, .int]
    ∨ cs = [.sse, .sse] ∨ cs = [.x87, .x87up] := by
  simp [validCls] at h
  rcases h with ((((((h | h) | h) | h) | h) | h) | h) <;> simp [h]

/-- `target_add_arg_proto` for an aggregate whose qword types (after `update_last_qword_type`) are `q` -/
def c2mAggArgQ' (q : List QT) (ai : ArgInfo) : ArgLoc × ArgInfo :=
  let r : Nat × List QT × ArgInfo :=
    if q.any (fun x => x == .x87up || x == .ld) then (0, q, ai)
    else
      let nI := (q.filter QT.isI).length
      let nF := (q.filter QT.isF).length
      if (nI > 0 ∧ ai.nI + nI > 6) ∨ (nF > 0 ∧ ai.nF + nF > 8) then (0, q, ai)
      else (q.length, q, { nI := ai.nI + nI, nF := ai.nF + nF })
  ((getBlkType r.1 r.2.1).loc r.1, r.2.2)

/-- … whose qword types before `update_last_qword_type` are `q0` -/
def c2mAggArgQ (q0 : List QT) (size : Nat) (ai : ArgInfo) : ArgLoc × ArgInfo :=
  c2mAggArgQ' (updateLastQword size q0) ai

/-- … as a function of the result of `classify_arg` -/
def c2mAggArg (oc : Option (List Cls)) (size : Nat) (ai : ArgInfo) : ArgLoc × ArgInfo :=
  match oc with
  | none => (.stack, ai)
  | some cs => c2mAggArgQ (cs.map QT.ofCls) size ai

theorem c2mArg_agg (ai : ArgInfo) (u : Bool) (ms : Mems) :
    c2mArg ai (.agg u ms) = c2mAggArg (c2mClassify (.agg u ms)) (c2mLay (.agg u ms)).size ai := by
  unfold c2mArg processAggregateArg c2mAggArg c2mAggArgQ c2mAggArgQ'
  cases c2mClassify (.agg u ms) <;> simp [isAgg, getBlkType, Blk.loc]

theorem ulq_pair (size : Nat) (a b : QT) : updateLastQword size [a, b] = [a, b] := by
  simp [updateLastQword]

theorem ulq_int (size : Nat) :
    updateLastQword size [.i64] ∈ [[QT.i64], [QT.i8], [QT.i16], [QT.i32]] := by
  by_cases h0 : size % 8 = 0
  · simp [updateLastQword, h0]
  · by_cases h4 : size % 8 ≤ 4
    · by_cases h1 : size % 8 ≤ 1
      · simp [updateLastQword, h0, h4, h1]
      · by_cases h2 : size % 8 ≤ 2
        · simp [updateLastQword, h0, h4, h1, h2]
        · simp [updateLastQword, h0, h4, h1, h2]
    · simp [updateLastQword, h0, h4]

theorem ulq_sse (size : Nat) : updateLastQword size [.d] ∈ [[QT.d], [QT.f]] := by
  by_cases h0 : size % 8 = 0
  · simp [updateLastQword, h0]
  · by_cases h4 : size % 8 ≤ 4
    · simp [updateLastQword, h0, h4]
    · simp [updateLastQword, h0, h4]

/-- the qword types `update_last_qword_type` can produce for a legal class pattern -/
def imagesOf (cs : List Cls) : List (List QT) :=
  if cs = [.int] then [[.i64], [.i8], [.i16], [.i32]]
  else if cs = [.sse] then [[.d], [.f]]
  else [cs.map QT.ofCls]

theorem ulq_mem (cs : List Cls) (hv : validCls cs = true) (size : Nat) :
    updateLastQword size (cs.map QT.ofCls) ∈ imagesOf cs := by
  rcases validCls_cases hv with h | h | h | h | h | h | h <;> subst h
  · exact ulq_int size
  · exact ulq_sse size
  all_goals simp [imagesOf, QT.ofCls, ulq_pair]

/-- psABI "Passing" for an aggregate with classes `cs` -/
def sysvAggArg (cs : List Cls) (av : Avail) : ArgLoc × Avail :=
  if cs.any (fun c => c != .int && c != .sse) then (.stack, av)
  else if av.nI + cnt .int cs ≤ 6 ∧ av.nF + cnt .sse cs ≤ 8 then
    (.regs cs, { nI := av.nI + cnt .int cs, nF := av.nF + cnt .sse cs })
  else (.stack, av)

theorem sysvArg_agg (L : CTy → Lay) (av : Avail) (u : Bool) (ms : Mems) :
    sysvArg L av (.agg u ms) = sysvAggArg (sysvClass L (.agg u ms)) av := by
  unfold sysvArg sysvAggArg
  rfl

def validList : List (List Cls) :=
  [[.int], [.sse], [.int, .int], [.int, .sse], [.sse, .int], [.sse, .sse], [.x87, .x87up]]

/-- what `c2mAggArgQ'` looks at -/
theorem aggQ_shape (q : List QT) (ai : ArgInfo) :
    c2mAggArgQ' q ai =
      if q.any (fun x => x == .x87up || x == .ld) = true
          ∨ ((q.filter QT.isI).length > 0 ∧ ai.nI + (q.filter QT.isI).length > 6)
          ∨ ((q.filter QT.isF).length > 0 ∧ ai.nF + (q.filter QT.isF).length > 8) then (.stack, ai)
      else ((getBlkType q.length q).loc q.length,
            { nI := ai.nI + (q.filter QT.isI).length, nF := ai.nF + (q.filter QT.isF).length }) := by
  simp only [c2mAggArgQ']
  by_cases h1 : q.any (fun x => x == .x87up || x == .ld) = true
  · rw [if_pos h1]; simp [h1, getBlkType, Blk.loc]
  · rw [if_neg h1]
    by_cases h2 : ((q.filter QT.isI).length > 0 ∧ ai.nI + (q.filter QT.isI).length > 6)
        ∨ ((q.filter QT.isF).length > 0 ∧ ai.nF + (q.filter QT.isF).length > 8)
    · rw [if_pos h2, if_pos (Or.inr h2)]; simp [getBlkType, Blk.loc]
    · rw [if_neg h2, if_neg (by rintro (h | h); exact h1 h; exact h2 h)]

/-- qword types `q` carry the same information as the classes `cs` -/
def qMatches (cs : List Cls) (q : List QT) : Bool :=
  cs.any (fun c => c != .int && c != .sse) == q.any (fun x => x == .x87up || x == .ld)
  && cnt .int cs == (q.filter QT.isI).length && cnt .sse cs == (q.filter QT.isF).length
  && (q.any (fun x => x == .x87up || x == .ld) || (getBlkType q.length q).loc q.length == .regs cs)

/-- the finite part, evaluated: 7 class patterns × the qword types `update_last_qword_type` can make -/
theorem qMatches_fin : ∀ cs ∈ validList, ∀ q ∈ imagesOf cs, qMatches cs q = true := by
  decide +kernel

/-- the core, for any counters (c2mir's counters also count scalars that went to the stack; the
psABI's are those counters saturated) -/
theorem aggArg_sat (cs : List Cls) (q : List QT) (hm : qMatches cs q = true)
    (ai : ArgInfo) (av : Avail) (hs : Sat ai av) :
    (c2mAggArgQ' q ai).1 = (sysvAggArg cs av).1 ∧ Sat (c2mAggArgQ' q ai).2 (sysvAggArg cs av).2 := by
  simp only [qMatches, Bool.and_eq_true, beq_iff_eq, Bool.or_eq_true] at hm
  obtain ⟨⟨⟨hx, hI⟩, hF⟩, hl⟩ := hm
  rw [aggQ_shape q ai]
  unfold sysvAggArg
  rw [hx, hI, hF]
  obtain ⟨a, c⟩ := ai
  obtain ⟨a', c'⟩ := av
  obtain ⟨h1, h2⟩ := hs
  simp only at h1 h2
  subst h1 h2
  cases hq : q.any (fun x => x == .x87up || x == .ld) with
  | true => simp [Sat]
  | false =>
    have hl' : (getBlkType q.length q).loc q.length = .regs cs := by
      rcases hl with h | h
      · rw [hq] at h; cases h
      · exact h
    simp only [hl', Bool.false_eq_true, false_or, if_false]
    clear hx hI hF hl hl' hq
    generalize (List.filter QT.isI q).length = nI
    generalize (List.filter QT.isF q).length = nF
    unfold Sat
    split <;> split <;> simp_all <;> omega

theorem aggArg_core (cs : List Cls) (hv : validCls cs = true) (size : Nat) (ai : ArgInfo) (av : Avail)
    (hs : Sat ai av) :
    (c2mAggArg (some cs) size ai).1 = (sysvAggArg cs av).1
    ∧ Sat (c2mAggArg (some cs) size ai).2 (sysvAggArg cs av).2 := by
  have hmem : cs ∈ validList := by
    rcases validCls_cases hv with h | h | h | h | h | h | h <;> subst h <;> simp [validList]
  exact aggArg_sat cs _ (qMatches_fin cs hmem _ (ulq_mem cs hv size)) ai av hs

/-- one aggregate parameter: `get_blk_type` names exactly the registers the psABI assigns (and
memory exactly when the psABI says memory), and the counters stay related -/
theorem arg_agg (L : CTy → Lay) (u : Bool) (ms : Mems) (ai : ArgInfo) (av : Avail)
    (hok : ClassOK L (.agg u ms)) (hs : Sat ai av) :
    (c2mArg ai (.agg u ms)).1 = (sysvArg L av (.agg u ms)).1
    ∧ Sat (c2mArg ai (.agg u ms)).2 (sysvArg L av (.agg u ms)).2 := by
  obtain ⟨hcls, hval⟩ := hok
  rw [c2mArg_agg, sysvArg_agg, ← hcls]
  cases hc : c2mClassify (.agg u ms) with
  | none => simpa [c2mAggArg, sysvAggArg] using hs
  | some cs =>
    simp only [Option.getD_some]
    exact aggArg_core cs (hval cs hc) _ ai av hs

theorem c2mArg_sc (ai : ArgInfo) (s : Sc) :
    c2mArg ai (.sc s) =
      match scCls s with
      | .sse => ((if ai.nF < 8 then .regs [.sse] else .stack), { ai with nF := ai.nF + 1 })
      | .x87 => (.stack, ai)
      | _ => ((if ai.nI < 6 then .regs [.int] else .stack), { ai with nI := ai.nI + 1 }) := by
  cases s <;> rfl

/-- `proto_meets_sysv_partial`, parameters -/
theorem args_eq (L : CTy → Lay) : ∀ (ts : List CTy) (ai : ArgInfo) (av : Avail), Sat ai av →
    (∀ t ∈ ts, isParamTy t = true ∧ (isAgg t = true → ClassOK L t)) →
    c2mArgsFrom ai ts = sysvArgsFrom L av ts
  | [], _, _, _, _ => rfl
  | t :: ts, ai, av, hsat, hts => by
    have ht := hts t (by simp)
    have hrest : ∀ t' ∈ ts, isParamTy t' = true ∧ (isAgg t' = true → ClassOK L t') :=
      fun t' h => hts t' (by simp [h])
    unfold c2mArgsFrom sysvArgsFrom
    cases t with
    | arr n e => simp [isParamTy] at ht
    | sc s =>
      obtain ⟨hs1, hs2⟩ := hsat
      have hstep : (c2mArg ai (.sc s)).1 = (sysvArg L av (.sc s)).1
          ∧ Sat (c2mArg ai (.sc s)).2 (sysvArg L av (.sc s)).2 := by
        rw [c2mArg_sc]
        obtain ⟨aI, aF⟩ := av
        simp only at hs1 hs2
        subst hs1 hs2
        unfold sysvArg Sat
        cases s <;> simp [scCls] <;> (repeat' split) <;> simp_all <;> omega
      simp only [hstep.1]
      rw [args_eq L ts _ _ hstep.2 hrest]
    | agg u ms =>
      obtain ⟨h1, h2⟩ := arg_agg L u ms ai av (ht.2 (by simp [isAgg])) hsat
      simp only [h1]
      rw [args_eq L ts _ _ h2 hrest]

/-! ### return values -/

/-- `process_ret_type` + `target_add_res_proto` on qword types `q` (after `update_last_qword_type`) -/
def c2mRetQ (q : List QT) : RetLoc :=
  let q := q.filter (· != .x87up)
  if (q.filter QT.isI).length > 2 ∨ (q.filter QT.isF).length > 2 ∨ (q.filter (· == .ld)).length > 1
  then .sret else .regs (q.map QT.cls)

theorem c2mRet_agg (u : Bool) (ms : Mems) :
    c2mRet (.agg u ms) =
      match c2mClassify (.agg u ms) with
      | none => .sret
      | some cs => c2mRetQ (updateLastQword (c2mLay (.agg u ms)).size (cs.map QT.ofCls)) := by
  unfold c2mRet processRetType c2mRetQ
  cases c2mClassify (.agg u ms) with
  | none => simp [isAgg]
  | some cs =>
    simp only [isAgg, Bool.not_true, Bool.false_eq_true, if_false]
    generalize List.filter (fun x => x != QT.x87up)
      (updateLastQword (c2mLay (CTy.agg u ms)).size (List.map QT.ofCls cs)) = q
    by_cases h : (List.filter QT.isI q).length > 2 ∨ (List.filter QT.isF q).length > 2
        ∨ (List.filter (fun x => x == QT.ld) q).length > 1
    · simp only [h, if_true]
    · simp only [h, if_false]

def sysvRetCls (cs : List Cls) : RetLoc :=
  if cs.any (· == Cls.mem) then .sret else .regs (cs.filter (· != Cls.x87up))

theorem sysvRet_agg (L : CTy → Lay) (u : Bool) (ms : Mems) :
    sysvRet L (.agg u ms) = sysvRetCls (sysvClass L (.agg u ms)) := rfl

theorem ret_fin : ∀ cs ∈ validList, ∀ q ∈ imagesOf cs, c2mRetQ q = sysvRetCls cs := by
  decide +kernel

/-- an aggregate is returned in the registers (or through the hidden pointer) the psABI names -/
theorem ret_agg (L : CTy → Lay) (u : Bool) (ms : Mems) (hok : ClassOK L (.agg u ms)) :
    c2mRet (.agg u ms) = sysvRet L (.agg u ms) := by
  obtain ⟨hcls, hval⟩ := hok
  rw [c2mRet_agg, sysvRet_agg, ← hcls]
  cases hc : c2mClassify (.agg u ms) with
  | none => rfl
  | some cs =>
    have hv := hval cs hc
    have hmem : cs ∈ validList := by
      rcases validCls_cases hv with h | h | h | h | h | h | h <;> subst h <;> simp [validList]
    simp only [Option.getD_some]
    exact ret_fin cs hmem _ (ulq_mem cs hv _)

theorem ret_sc (L : CTy → Lay) (s : Sc) : c2mRet (.sc s) = sysvRet L (.sc s) := by
  cases s <;> rfl

/-- `proto_meets_sysv_partial` -/
theorem proto_eq (L : CTy → Lay) (ret : Option CTy) (ps : List CTy)
    (hret : ∀ t, ret = some t → isParamTy t = true ∧ (isAgg t = true → ClassOK L t))
    (hps : ∀ t ∈ ps, isParamTy t = true ∧ (isAgg t = true → ClassOK L t)) :
    c2mProto ret ps = sysvProto L ret ps := by
  have hr : ret.map c2mRet = ret.map (sysvRet L) := by
    cases ret with
    | none => rfl
    | some t =>
      have h := hret t rfl
      cases t with
      | sc s => simp [ret_sc L s]
      | arr n e => simp [isParamTy] at h
      | agg u ms => simp [ret_agg L u ms (h.2 (by simp [isAgg]))]
  unfold c2mProto sysvProto
  simp only [← hr]
  congr 1
  apply args_eq L ps _ _ _ hps
  unfold Sat
  split <;> simp

end MirVerif.Classify
