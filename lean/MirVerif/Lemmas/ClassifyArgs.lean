import MirVerif.Model.Classify
/-! C08: `process_aggregate_arg` / `get_blk_type` / `process_ret_type` against the psABI register
assignment, given the classes of the aggregate. -/
set_option linter.unusedSimpArgs false
namespace MirVerif.Classify
open MirVerif.Layout

/-- what is assumed about one aggregate type: c2mir classifies it as the psABI does, and the result
is one of the legal patterns (checked at run time for every generated aggregate) -/
def ClassOK (L : CTy → Lay) (t : CTy) : Prop :=
  (c2mClassify t).getD [.mem] = sysvClass L t ∧ ∀ cs, c2mClassify t = some cs → validCls cs = true

/-- the psABI register counters are c2mir's counters, saturated -/
def Sat (ai : ArgInfo) (av : Avail) : Prop := av.nI = min ai.nI 6 ∧ av.nF = min ai.nF 8

theorem validCls_cases {cs : List Cls} (h : validCls cs = true) :
    cs = [.int] ∨ cs = [.sse] ∨ cs = [.int, .int] ∨ cs = [.int, .sse] ∨ cs = [.sse, .int]
    ∨ cs = [.sse, .sse] ∨ cs = [.x87, .x87up] := by
  simp [validCls] at h
  rcases h with ((((((h | h) | h) | h) | h) | h) | h) <;> simp [h]

/-- `target_add_arg_proto` for an aggregate whose qword types (after `update_last_qword_type`) are `q` -/
def c2mAggArgQ' (q : List QT) (ai : ArgInfo) : ArgLoc × ArgInfo :=
  let r : Nat × List QT × ArgInfo :=
    if q.any (fun x => x == .x87up || x == .ld) then (0, q, ai)
    else
      let nI := (q.filter QT.isI).length
      let nF := (q.filter QT.isF).length
      if ai.nI + nI > 6 ∨ ai.nF + nF > 8 then (0, q, ai)
      else (q.length, q, { nI := ai.nI + nI, nF := ai.nF + nF })
  ((getBlkType r.1 r.2.1).loc r.1, r.2.2)

/-- … whose qword types before `update_last_qword_type` are `q0` -/
def c2mAggArgQ (q0 : List QT) (size : Nat) (ai : ArgInfo) : ArgLoc × ArgInfo :=
  c2mAggArgQ' (updateLastQword size q0) ai

/-- … as a function of the result of `classify_arg` -/
def c2mAggArg (oc : Option (List Cls)) (size : Nat) (ai : ArgInfo) : ArgLoc × ArgInfo :=
  match oc with
  | none => (.stack, ai)
  | some cs => c2mAggArgQ (cs.map QT.ofCls) size ai

theorem c2mArg_agg (ai : ArgInfo) (u : Bool) (ms : Mems) :
    c2mArg ai (.agg u ms) = c2mAggArg (c2mClassify (.agg u ms)) (c2mLay (.agg u ms)).size ai := by
  unfold c2mArg processAggregateArg c2mAggArg c2mAggArgQ c2mAggArgQ'
  cases c2mClassify (.agg u ms) <;> simp [isAgg, getBlkType, Blk.loc]

theorem ulq_pair (size : Nat) (a b : QT) : updateLastQword size [a, b] = [a, b] := by
  simp [updateLastQword]

theorem ulq_int (size : Nat) :
    updateLastQword size [.i64] ∈ [[QT.i64], [QT.i8], [QT.i16], [QT.i32]] := by
  by_cases h0 : size % 8 = 0
  · simp [updateLastQword, h0]
  · by_cases h4 : size % 8 ≤ 4
    · by_cases h1 : size % 8 ≤ 1
      · simp [updateLastQword, h0, h4, h1]
      · by_cases h2 : size % 8 ≤ 2
        · simp [updateLastQword, h0, h4, h1, h2]
        · simp [updateLastQword, h0, h4, h1, h2]
    · simp [updateLastQword, h0, h4]

theorem ulq_sse (size : Nat) : updateLastQword size [.d] ∈ [[QT.d], [QT.f]] := by
  by_cases h0 : size % 8 = 0
  · simp [updateLastQword, h0]
  · by_cases h4 : size % 8 ≤ 4
    · simp [updateLastQword, h0, h4]
    · simp [updateLastQword, h0, h4]

/-- the qword types `update_last_qword_type` can produce for a legal class pattern -/
def imagesOf (cs : List Cls) : List (List QT) :=
  if cs = [.int] then [[.i64], [.i8], [.i16], [.i32]]
  else if cs = [.sse] then [[.d], [.f]]
  else [cs.map QT.ofCls]

theorem ulq_mem (cs : List Cls) (hv : validCls cs = true) (size : Nat) :
    updateLastQword size (cs.map QT.ofCls) ∈ imagesOf cs := by
  rcases validCls_cases hv with h | h | h | h | h | h | h <;> subst h
  · exact ulq_int size
  · exact ulq_sse size
  all_goals simp [imagesOf, QT.ofCls, ulq_pair]

/-- psABI "Passing" for an aggregate with classes `cs` -/
def sysvAggArg (cs : List Cls) (av : Avail) : ArgLoc × Avail :=
  if cs.any (fun c => c != .int && c != .sse) then (.stack, av)
  else if av.nI + cnt .int cs ≤ 6 ∧ av.nF + cnt .sse cs ≤ 8 then
    (.regs cs, { nI := av.nI + cnt .int cs, nF := av.nF + cnt .sse cs })
  else (.stack, av)

theorem sysvArg_agg (L : CTy → Lay) (av : Avail) (u : Bool) (ms : Mems) :
    sysvArg L av (.agg u ms) = sysvAggArg (sysvClass L (.agg u ms)) av := by
  unfold sysvArg sysvAggArg
  rfl

def validList : List (List Cls) :=
  [[.int], [.sse], [.int, .int], [.int, .sse], [.sse, .int], [.sse, .sse], [.x87, .x87up]]

/-- the finite core, evaluated: 7 class patterns × possible qword types × all unsaturated counters -/
theorem aggArg_fin : ∀ cs ∈ validList, ∀ q ∈ imagesOf cs, ∀ nI, nI < 7 → ∀ nF, nF < 9 →
    (c2mAggArgQ' q ⟨nI, nF⟩).1 = (sysvAggArg cs ⟨nI, nF⟩).1
    ∧ (c2mAggArgQ' q ⟨nI, nF⟩).2.nI = (sysvAggArg cs ⟨nI, nF⟩).2.nI
    ∧ (c2mAggArgQ' q ⟨nI, nF⟩).2.nF = (sysvAggArg cs ⟨nI, nF⟩).2.nF := by
  decide +kernel

theorem aggArg_core (cs : List Cls) (hv : validCls cs = true) (size : Nat) (ai : ArgInfo)
    (hI : ai.nI ≤ 6) (hF : ai.nF ≤ 8) :
    (c2mAggArg (some cs) size ai).1 = (sysvAggArg cs ⟨ai.nI, ai.nF⟩).1
    ∧ (c2mAggArg (some cs) size ai).2.nI = (sysvAggArg cs ⟨ai.nI, ai.nF⟩).2.nI
    ∧ (c2mAggArg (some cs) size ai).2.nF = (sysvAggArg cs ⟨ai.nI, ai.nF⟩).2.nF := by
  have hmem : cs ∈ validList := by
    rcases validCls_cases hv with h | h | h | h | h | h | h <;> subst h <;> simp [validList]
  exact aggArg_fin cs hmem _ (ulq_mem cs hv size) ai.nI (by omega) ai.nF (by omega)

theorem aggArg_mem (size : Nat) (ai : ArgInfo) :
    (c2mAggArg none size ai).1 = (sysvAggArg [.mem] ⟨ai.nI, ai.nF⟩).1
    ∧ (c2mAggArg none size ai).2 = ai ∧ (sysvAggArg [.mem] ⟨ai.nI, ai.nF⟩).2 = ⟨ai.nI, ai.nF⟩ := by
  simp [c2mAggArg, sysvAggArg]

/-- one aggregate parameter: with unsaturated counters `get_blk_type` names exactly the registers
the psABI assigns (and memory exactly when the psABI says memory) -/
theorem arg_agg (L : CTy → Lay) (u : Bool) (ms : Mems) (ai : ArgInfo) (hok : ClassOK L (.agg u ms))
    (hI : ai.nI ≤ 6) (hF : ai.nF ≤ 8) :
    (c2mArg ai (.agg u ms)).1 = (sysvArg L ⟨ai.nI, ai.nF⟩ (.agg u ms)).1
    ∧ (c2mArg ai (.agg u ms)).2.nI = (sysvArg L ⟨ai.nI, ai.nF⟩ (.agg u ms)).2.nI
    ∧ (c2mArg ai (.agg u ms)).2.nF = (sysvArg L ⟨ai.nI, ai.nF⟩ (.agg u ms)).2.nF := by
  obtain ⟨hcls, hval⟩ := hok
  rw [c2mArg_agg, sysvArg_agg, ← hcls]
  cases hc : c2mClassify (.agg u ms) with
  | none =>
    have := aggArg_mem (c2mLay (.agg u ms)).size ai
    simp only [Option.getD_none]
    refine ⟨this.1, ?_, ?_⟩ <;> simp [this.2.1, this.2.2]
  | some cs =>
    simp only [Option.getD_some]
    exact aggArg_core cs (hval cs hc) _ ai hI hF

theorem sysvAggArg_bound (cs : List Cls) (av : Avail) (hI : av.nI ≤ 6) (hF : av.nF ≤ 8) :
    (sysvAggArg cs av).2.nI ≤ 6 ∧ (sysvAggArg cs av).2.nF ≤ 8 := by
  unfold sysvAggArg
  repeat' split
  all_goals simp_all

theorem c2mArg_sc (ai : ArgInfo) (s : Sc) :
    c2mArg ai (.sc s) =
      match scCls s with
      | .sse => ((if ai.nF < 8 then .regs [.sse] else .stack), { ai with nF := ai.nF + 1 })
      | .x87 => (.stack, ai)
      | _ => ((if ai.nI < 6 then .regs [.int] else .stack), { ai with nI := ai.nI + 1 }) := by
  cases s <;> rfl

/-- `proto_meets_sysv_partial`, parameters -/
theorem args_eq (L : CTy → Lay) : ∀ (ts : List CTy) (ai : ArgInfo) (av : Avail), Sat ai av →
    (∀ t ∈ ts, isParamTy t = true ∧ (isAgg t = true → ClassOK L t)) → countersOk ai ts = true →
    c2mArgsFrom ai ts = sysvArgsFrom L av ts
  | [], _, _, _, _, _ => rfl
  | t :: ts, ai, av, hsat, hts, hc => by
    obtain ⟨hs1, hs2⟩ := hsat
    simp only [countersOk, Bool.and_eq_true] at hc
    have ht := hts t (by simp)
    have hrest : ∀ t' ∈ ts, isParamTy t' = true ∧ (isAgg t' = true → ClassOK L t') :=
      fun t' h => hts t' (by simp [h])
    unfold c2mArgsFrom sysvArgsFrom
    cases t with
    | arr n e => simp [isParamTy] at ht
    | sc s =>
      have hstep : (c2mArg ai (.sc s)).1 = (sysvArg L av (.sc s)).1
          ∧ Sat (c2mArg ai (.sc s)).2 (sysvArg L av (.sc s)).2 := by
        rw [c2mArg_sc]
        obtain ⟨aI, aF⟩ := av
        simp only at hs1 hs2
        subst hs1 hs2
        unfold sysvArg Sat
        cases s <;> simp [scCls] <;> (repeat' split) <;> simp_all <;> omega
      simp only [hstep.1]
      rw [args_eq L ts _ _ hstep.2 hrest hc.2]
    | agg u ms =>
      simp [isAgg] at hc
      have hav : av = ⟨ai.nI, ai.nF⟩ := by
        obtain ⟨aI, aF⟩ := av
        simp only at hs1 hs2
        simp [hs1, hs2]; omega
      subst hav
      obtain ⟨h1, h2, h3⟩ := arg_agg L u ms ai (ht.2 (by simp [isAgg])) hc.1.1 hc.1.2
      have hb := sysvAggArg_bound (sysvClass L (.agg u ms)) ⟨ai.nI, ai.nF⟩ hc.1.1 hc.1.2
      rw [← sysvArg_agg] at hb
      have hsat' : Sat (c2mArg ai (.agg u ms)).2 (sysvArg L ⟨ai.nI, ai.nF⟩ (.agg u ms)).2 := by
        unfold Sat; omega
      simp only [h1]
      rw [args_eq L ts _ _ hsat' hrest hc.2]

/-! ### return values -/

/-- `process_ret_type` + `target_add_res_proto` on qword types `q` (after `update_last_qword_type`) -/
def c2mRetQ (q : List QT) : RetLoc :=
  let q := q.filter (· != .x87up)
  if (q.filter QT.isI).length > 2 ∨ (q.filter QT.isF).length > 2 ∨ (q.filter (· == .ld)).length > 1
  then .sret else .regs (q.map QT.cls)

theorem c2mRet_agg (u : Bool) (ms : Mems) :
    c2mRet (.agg u ms) =
      match c2mClassify (.agg u ms) with
      | none => .sret
      | some cs => c2mRetQ (updateLastQword (c2mLay (.agg u ms)).size (cs.map QT.ofCls)) := by
  unfold c2mRet processRetType c2mRetQ
  cases c2mClassify (.agg u ms) with
  | none => simp [isAgg]
  | some cs =>
    simp only [isAgg, Bool.not_true, Bool.false_eq_true, if_false]
    generalize List.filter (fun x => x != QT.x87up)
      (updateLastQword (c2mLay (CTy.agg u ms)).size (List.map QT.ofCls cs)) = q
    by_cases h : (List.filter QT.isI q).length > 2 ∨ (List.filter QT.isF q).length > 2
        ∨ (List.filter (fun x => x == QT.ld) q).length > 1
    · simp only [h, if_true]
    · simp only [h, if_false]

def sysvRetCls (cs : List Cls) : RetLoc :=
  if cs.any (· == Cls.mem) then .sret else .regs (cs.filter (· != Cls.x87up))

theorem sysvRet_agg (L : CTy → Lay) (u : Bool) (ms : Mems) :
    sysvRet L (.agg u ms) = sysvRetCls (sysvClass L (.agg u ms)) := rfl

theorem ret_fin : ∀ cs ∈ validList, ∀ q ∈ imagesOf cs, c2mRetQ q = sysvRetCls cs := by
  decide +kernel

/-- an aggregate is returned in the registers (or through the hidden pointer) the psABI names -/
theorem ret_agg (L : CTy → Lay) (u : Bool) (ms : Mems) (hok : ClassOK L (.agg u ms)) :
    c2mRet (.agg u ms) = sysvRet L (.agg u ms) := by
  obtain ⟨hcls, hval⟩ := hok
  rw [c2mRet_agg, sysvRet_agg, ← hcls]
  cases hc : c2mClassify (.agg u ms) with
  | none => rfl
  | some cs =>
    have hv := hval cs hc
    have hmem : cs ∈ validList := by
      rcases validCls_cases hv with h | h | h | h | h | h | h <;> subst h <;> simp [validList]
    simp only [Option.getD_some]
    exact ret_fin cs hmem _ (ulq_mem cs hv _)

theorem ret_sc (L : CTy → Lay) (s : Sc) : c2mRet (.sc s) = sysvRet L (.sc s) := by
  cases s <;> rfl

/-- `proto_meets_sysv_partial` -/
theorem proto_eq (L : CTy → Lay) (ret : Option CTy) (ps : List CTy)
    (hret : ∀ t, ret = some t → isParamTy t = true ∧ (isAgg t = true → ClassOK L t))
    (hps : ∀ t ∈ ps, isParamTy t = true ∧ (isAgg t = true → ClassOK L t))
    (hc : countersOk { nI := if ret.map c2mRet = some .sret then 1 else 0 } ps = true) :
    c2mProto ret ps = sysvProto L ret ps := by
  have hr : ret.map c2mRet = ret.map (sysvRet L) := by
    cases ret with
    | none => rfl
    | some t =>
      have h := hret t rfl
      cases t with
      | sc s => simp [ret_sc L s]
      | arr n e => simp [isParamTy] at h
      | agg u ms => simp [ret_agg L u ms (h.2 (by simp [isAgg]))]
  unfold c2mProto sysvProto
  simp only [← hr]
  congr 1
  apply args_eq L ps _ _ _ hps hc
  unfold Sat
  split <;> simp

end MirVerif.Classify
