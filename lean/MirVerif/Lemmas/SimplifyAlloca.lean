import MirVerif.Model.Simplify
/-! Consolidation of adjacent constant `alloca`s (`simplify_func`, mir.c:3732-3755): layout facts
of `consolidateLoop` for every list of sizes. -/
namespace MirVerif.Simplify

theorem naturalAlignment_cases (s : Int) (h : 1 ≤ s) :
    (naturalAlignment s = 1 ∧ s = 1) ∨ (naturalAlignment s = 2 ∧ s = 2) ∨
    (naturalAlignment s = 4 ∧ 3 ≤ s ∧ s ≤ 4) ∨ (naturalAlignment s = 8 ∧ 5 ≤ s ∧ s ≤ 8) ∨
    (naturalAlignment s = 16 ∧ 9 ≤ s) := by
  unfold naturalAlignment
  by_cases h2 : s ≤ 2
  · rw [if_pos h2]; omega
  · by_cases h4 : s ≤ 4
    · rw [if_neg h2, if_pos h4]; omega
    · by_cases h8 : s ≤ 8
      · rw [if_neg h2, if_neg h4, if_pos h8]; omega
      · rw [if_neg h2, if_neg h4, if_neg h8]; omega

/-- `get_alloca_size_align`: the alignment is 1, 2, 4, 8 or 16 and divides the rounded size, which
covers the request (at least one byte) and exceeds it by less than the alignment -/
theorem allocaSizeAlign_spec (s : Int) :
    let r := allocaSizeAlign s
    (r.2 = 1 ∨ r.2 = 2 ∨ r.2 = 4 ∨ r.2 = 8 ∨ r.2 = 16) ∧ r.2 ∣ r.1 ∧
    1 ≤ r.1 ∧ s ≤ r.1 ∧ r.1 < max s 1 + r.2 := by
  simp only [allocaSizeAlign]
  by_cases h0 : s ≤ 0
  · simp only [h0, if_true]
    have : naturalAlignment 1 = 1 := by decide
    rw [this]; refine ⟨Or.inl rfl, ?_, ?_, ?_, ?_⟩ <;> simp <;> omega
  · simp only [h0, if_false]
    rcases naturalAlignment_cases s (by omega) with ⟨e, h⟩ | ⟨e, h⟩ | ⟨e, h⟩ | ⟨e, h⟩ | ⟨e, h⟩ <;> rw [e]
    · subst h; refine ⟨by simp, ?_, ?_, ?_, ?_⟩ <;> first | omega | simp
    · subst h; refine ⟨by simp, ?_, ?_, ?_, ?_⟩ <;> first | omega | simp
    · refine ⟨by simp, Int.dvd_mul_left _ _, ?_, ?_, ?_⟩ <;> omega
    · refine ⟨by simp, Int.dvd_mul_left _ _, ?_, ?_, ?_⟩ <;> omega
    · refine ⟨by simp, Int.dvd_mul_left _ _, ?_, ?_, ?_⟩ <;> omega

/-- rounding `x` up to a multiple of the alignment `a ∈ {1,2,4,8,16}` -/
theorem roundUp_spec (x a : Int) (ha : a = 1 ∨ a = 2 ∨ a = 4 ∨ a = 8 ∨ a = 16) :
    x ≤ (x + a - 1) / a * a ∧ a ∣ (x + a - 1) / a * a := by
  refine ⟨?_, Int.dvd_mul_left _ _⟩
  rcases ha with rfl | rfl | rfl | rfl | rfl <;> omega

/-- blocks laid out from left to right: each offset is at or after the end of what precedes it,
the last end is at or before `fin` -/
def Chain (start : Int) : List Int → List Int → Int → Prop
  | [], [], fin => start ≤ fin
  | o :: os, s :: ss, fin => start ≤ o ∧ Chain (o + s) os ss fin
  | _, _, _ => False

def sizesOf (l : List Int) : List Int := l.map fun s => (allocaSizeAlign s).1
def alignsOf (l : List Int) : List Int := l.map fun s => (allocaSizeAlign s).2

theorem consolidateLoop_chain (always : Bool) (sizes : List Int) :
    ∀ overall maxAlign, Chain overall (consolidateLoop always overall maxAlign sizes).1 (sizesOf sizes)
      (consolidateLoop always overall maxAlign sizes).2 := by
  induction sizes with
  | nil => intro o m; simp [consolidateLoop, Chain, sizesOf]
  | cons s tl ih =>
    intro overall maxAlign
    have hs := allocaSizeAlign_spec s
    simp only [consolidateLoop, sizesOf, List.map_cons, Chain]
    refine ⟨?_, ?_⟩
    · split
      · exact (roundUp_spec overall _ hs.1).1
      · exact Int.le_refl _
    · exact ih _ _

/-- every offset is a multiple of its block's alignment -/
def AlignedAt : List Int → List Int → Prop
  | o :: os, a :: as => a ∣ o ∧ AlignedAt os as
  | _, _ => True

/-- with the rounding applied before every block (the candidate fix) all offsets are aligned -/
theorem consolidateLoop_aligned_always (sizes : List Int) :
    ∀ overall maxAlign, AlignedAt (consolidateLoop true overall maxAlign sizes).1 (alignsOf sizes) := by
  induction sizes with
  | nil => intro o m; simp [consolidateLoop, AlignedAt, alignsOf]
  | cons s tl ih =>
    intro overall maxAlign
    have hs := allocaSizeAlign_spec s
    simp only [consolidateLoop, alignsOf, List.map_cons, AlignedAt, Bool.or_true, if_true]
    exact ⟨(roundUp_spec overall _ hs.1).2, ih _ _⟩

/-- the alignments never decrease along the list (relative to the running maximum) -/
def Ascending (maxAlign : Int) : List Int → Prop
  | [] => True
  | s :: tl => maxAlign ≤ (allocaSizeAlign s).2 ∧ Ascending (allocaSizeAlign s).2 tl

/-- the loop as it is in mir.c (rounding only when the alignment grows): offsets are aligned when
the alignments do not decrease along the list … -/
theorem consolidateLoop_aligned_partial (sizes : List Int) :
    ∀ overall maxAlign, maxAlign ∣ overall → Ascending maxAlign sizes →
      AlignedAt (consolidateLoop false overall maxAlign sizes).1 (alignsOf sizes) := by
  induction sizes with
  | nil => intro o m _ _; simp [consolidateLoop, AlignedAt, alignsOf]
  | cons s tl ih =>
    intro overall maxAlign hdvd hasc
    have hs := allocaSizeAlign_spec s
    obtain ⟨hle, htl⟩ := hasc
    simp only [consolidateLoop, alignsOf, List.map_cons, AlignedAt, Bool.or_false]
    by_cases hg : maxAlign < (allocaSizeAlign s).2
    · simp only [hg, decide_true, if_true]
      have hr := roundUp_spec overall _ hs.1
      exact ⟨hr.2, ih _ _ (Int.dvd_add hr.2 hs.2.1) htl⟩
    · have he : maxAlign = (allocaSizeAlign s).2 := by omega
      simp only [hg, decide_false, if_false, Bool.false_eq_true]
      rw [he] at hdvd
      refine ⟨hdvd, ?_⟩
      have := ih (overall + (allocaSizeAlign s).1) maxAlign (by rw [he]; exact Int.dvd_add hdvd hs.2.1) (by rw [he]; exact htl)
      exact this

/-- … and are NOT in general: `alloca 16; alloca 3; alloca 17` puts the third block (alignment 16)
at offset 20 -/
theorem consolidate_misaligned_witness :
    consolidate false 16 [3, 17] = ([16, 20], 52) ∧ alignsOf [3, 17] = [4, 16] ∧ ¬ ((16 : Int) ∣ 20) := by
  decide

theorem consolidate_fixed_witness : consolidate true 16 [3, 17] = ([16, 32], 64) := by decide

/-! ## consequences of `Chain`: inside `[start, fin)` and pairwise disjoint -/

theorem chain_bounds : ∀ (offs sizes : List Int) (start fin : Int), Chain start offs sizes fin →
    (∀ s ∈ sizes, 0 ≤ s) → start ≤ fin ∧ ∀ p ∈ offs.zip sizes, start ≤ p.1 ∧ p.1 + p.2 ≤ fin
  | [], [], start, fin, h, _ => ⟨h, by simp⟩
  | [], _ :: _, _, _, h, _ => by simp [Chain] at h
  | _ :: _, [], _, _, h, _ => by simp [Chain] at h
  | o :: os, s :: ss, start, fin, h, hpos => by
    obtain ⟨h1, h2⟩ := h
    have hs : 0 ≤ s := hpos s (by simp)
    obtain ⟨h3, h4⟩ := chain_bounds os ss (o + s) fin h2 (fun x hx => hpos x (by simp [hx]))
    refine ⟨by omega, ?_⟩
    intro p hp
    simp only [List.zip_cons_cons, List.mem_cons] at hp
    rcases hp with rfl | hp
    · exact ⟨h1, h3⟩
    · have := h4 p hp; omega

theorem chain_pairwise : ∀ (offs sizes : List Int) (start fin : Int), Chain start offs sizes fin →
    (∀ s ∈ sizes, 0 ≤ s) → (offs.zip sizes).Pairwise (fun a b => a.1 + a.2 ≤ b.1)
  | [], [], _, _, _, _ => by simp
  | [], _ :: _, _, _, h, _ => by simp [Chain] at h
  | _ :: _, [], _, _, h, _ => by simp [Chain] at h
  | o :: os, s :: ss, start, fin, h, hpos => by
    obtain ⟨_, h2⟩ := h
    have hp' : ∀ x ∈ ss, 0 ≤ x := fun x hx => hpos x (by simp [hx])
    simp only [List.zip_cons_cons, List.pairwise_cons]
    exact ⟨fun p hp => ((chain_bounds os ss (o + s) fin h2 hp').2 p hp).1, chain_pairwise os ss (o + s) fin h2 hp'⟩

theorem sizesOf_pos (l : List Int) : ∀ s ∈ sizesOf l, 0 ≤ s := by
  intro s hs
  simp only [sizesOf, List.mem_map] at hs
  obtain ⟨x, _, rfl⟩ := hs
  have := (allocaSizeAlign_spec x).2.2.1
  omega

end MirVerif.Simplify
