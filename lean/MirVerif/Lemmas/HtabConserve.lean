import MirVerif.Model.HtabSpec
/-!
Conservation law of the abstract map: what was stored = what is still there + what was freed
(as multisets).  Together with the refinement theorem this is "free_func is called exactly once per
dropped element" for the hash table.
-/
namespace MirVerif.Htab

variable {α : Type}

/-- the element an operation stores into the table, judged from the operation and its observation:
INSERT of an absent element and every REPLACE store their argument -/
def stored1 : Op α → Obs α → List α
  | .act .insert x, o => if o.out.found then [] else [x]
  | .act .replace x, _ => [x]
  | _, _ => []

/-- all elements stored during a history (`obs` = the observations of `ops`) -/
def storedBy : List (Obs α) → List (Op α) → List α
  | o :: os, op :: ops => stored1 op o ++ storedBy os ops
  | _, _ => []

/-- all arguments of `free_func` calls during a history -/
def freedBy : List (Obs α) → List α
  | [] => []
  | o :: os => o.out.freed ++ freedBy os

theorem repl_perm (P : α → Bool) (x y : α) : ∀ (l : List α), l.find? P = some y →
    (Spec.repl P x l ++ [y]).Perm (l ++ [x]) := by
  intro l
  induction l with
  | nil => intro h; simp at h
  | cons a l ih =>
    intro h
    simp only [List.find?_cons] at h
    simp only [Spec.repl]
    cases hp : P a with
    | true =>
      simp only [hp, Option.some.injEq] at h
      subst h
      simp only [if_true, List.cons_append]
      exact ((List.perm_append_singleton a l).cons x).trans
        ((List.Perm.swap a x l).trans ((List.perm_append_singleton x l).symm.cons a))
    | false =>
      simp only [hp] at h
      simp only [Bool.false_eq_true, if_false, List.cons_append]
      exact (ih h).cons a

theorem eraseP_perm (P : α → Bool) (y : α) : ∀ (l : List α), l.find? P = some y →
    (l.eraseP P ++ [y]).Perm l := by
  intro l
  induction l with
  | nil => intro h; simp at h
  | cons a l ih =>
    intro h
    simp only [List.find?_cons] at h
    cases hp : P a with
    | true =>
      simp only [hp, Option.some.injEq] at h
      subst h
      simp only [List.eraseP_cons, hp]
      exact List.perm_append_singleton a l
    | false =>
      simp only [hp] at h
      simp only [List.eraseP_cons, hp]
      exact (ih h).cons a

theorem spec_step_conserve (eq : α → α → Bool) (l : List α) (op : Op α) :
    (l ++ stored1 op (Spec.step eq l op).2).Perm
      ((Spec.step eq l op).1 ++ (Spec.step eq l op).2.out.freed) := by
  cases op with
  | clear => simp [Spec.step, stored1]
  | act a x =>
    simp only [Spec.step, Spec.doOp]
    cases hfind : l.find? (fun y => eq y x) with
    | none => cases a <;> simp [stored1]
    | some y =>
      cases a with
      | find => simp [stored1]
      | insert => simp [stored1]
      | replace => simpa [stored1] using (repl_perm (fun y => eq y x) x y l hfind).symm
      | delete => simpa [stored1] using (eraseP_perm (fun y => eq y x) y l hfind).symm

/-- over any history of the abstract map: initial content + stored = final content + freed -/
theorem spec_conservation (eq : α → α → Bool) : ∀ (ops : List (Op α)) (l : List α),
    (l ++ storedBy (Spec.run eq l ops).2 ops).Perm
      ((Spec.run eq l ops).1 ++ freedBy (Spec.run eq l ops).2) := by
  intro ops
  induction ops with
  | nil => intro l; simp [Spec.run, storedBy, freedBy]
  | cons op ops ih =>
    intro l
    simp only [Spec.run, storedBy, freedBy]
    have h1 := spec_step_conserve eq l op
    have h2 := ih (Spec.step eq l op).1
    -- l ++ (s1 ++ S) ~ (l ++ s1) ++ S ~ (l' ++ f1) ++ S ~ f1 ++ (l' ++ S) ~ f1 ++ (L ++ F) ~ L ++ (f1 ++ F)
    refine (List.append_assoc _ _ _ ▸ (h1.append_right _)).trans ?_
    refine (List.perm_append_comm.append_right _).trans ?_
    rw [List.append_assoc]
    refine (h2.append_left _).trans ?_
    rw [← List.append_assoc, ← List.append_assoc]
    exact List.perm_append_comm.append_right _

end MirVerif.Htab
