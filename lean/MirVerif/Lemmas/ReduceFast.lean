import MirVerif.Model.ReduceFast
import MirVerif.Lemmas.ReduceDecode
/-! The Array-based decoder of `Model/ReduceFast.lean` computes the same function as the list
model the C12 theorems are about. -/
namespace MirVerif.Reduce

theorem decChunksF_eq (c : Cfg) (n : Nat) :
    ∀ (inp : List UInt8), inp.length ≤ n → ∀ (h : UInt64) (st : FSt) (acc : List UInt8),
      decChunksF c h st acc inp = decChunks c h st.toD acc inp := by
  induction n with
  | zero =>
    intro inp hl h st acc
    have : inp = [] := List.length_eq_zero_iff.mp (by omega)
    subst this
    rw [decChunksF, decChunks_nil]
  | succ n ih =>
    intro inp hl h st acc
    match inp, hl with
    | [], _ => rw [decChunksF, decChunks_nil]
    | tag :: rest, hl =>
      by_cases ht : tag = 0
      · subst ht
        rw [decChunksF, decChunks_trailer]
        simp only [if_true, FSt.toD, Array.length_toList]
        rfl
      · have heq := decodeElF_eq c st tag rest
        rw [decChunksF]
        simp only [ht, if_false]
        split
        · rename_i e he
          rw [he] at heq
          exact (decChunks_el_err c h st.toD acc rest tag ht e heq.symm).symm
        · rename_i st' rest' he
          rw [he] at heq
          rw [decChunks_el_ok c h st.toD st'.toD acc rest rest' tag ht heq.symm]
          have hl' : rest'.length ≤ n := by
            have := decodeElF_len he
            simp only [List.length_cons] at hl; omega
          have hsz : st'.toD.buf.length = st'.buf.size := by simp [FSt.toD]
          by_cases hb : st'.buf.size ≥ c.bufLen
          · have hb' : st'.toD.buf.length ≥ c.bufLen := by omega
            rw [if_pos hb, if_pos hb', ih rest' hl']; rfl
          · have hb' : ¬ st'.toD.buf.length ≥ c.bufLen := by omega
            rw [if_neg hb, if_neg hb', ih rest' hl']

/-- the driver's fast decoder is the decoder of the theorems -/
theorem decodeF_eq (c : Cfg) (s : List UInt8) : decodeF c s = decode c s := by
  unfold decodeF decode
  rw [decChunksF_eq c _ _ (Nat.le_refl _)]
  rfl

end MirVerif.Reduce
