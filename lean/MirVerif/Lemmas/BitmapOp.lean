import MirVerif.Lemmas.Bitmap
/-! `bitmap_op2` / `bitmap_op3`: value-level semantics (`opV`) and refinement of the in-place heap
loop (`opH`) to it, for arbitrary (also coinciding) object ids. -/
namespace MirVerif.Bitmap

/-! ### lengths -/

theorem maxLen_foldl (srcs : List Bm) : ∀ m,
    m ≤ srcs.foldl (fun m s => if m < s.length then s.length else m) m ∧
    ∀ s ∈ srcs, s.length ≤ srcs.foldl (fun m s => if m < s.length then s.length else m) m := by
  induction srcs with
  | nil => intro m; simp
  | cons a r ih =>
    intro m
    rw [List.foldl_cons]
    obtain ⟨h1, h2⟩ := ih (if m < a.length then a.length else m)
    by_cases hm : m < a.length
    · simp only [hm, if_true] at h1 h2 ⊢
      refine ⟨by omega, ?_⟩
      intro s hs
      rcases List.mem_cons.1 hs with rfl | hs
      · exact h1
      · exact h2 s hs
    · simp only [hm, if_false] at h1 h2 ⊢
      refine ⟨h1, ?_⟩
      intro s hs
      rcases List.mem_cons.1 hs with rfl | hs
      · omega
      · exact h2 s hs

theorem le_maxLen (srcs : List Bm) (s : Bm) (h : s ∈ srcs) : s.length ≤ maxLen srcs :=
  (maxLen_foldl srcs 0).2 s h

/-! ### the truncation bound -/

theorem wget_of_ge_boundOf : ∀ (l : List Word) (k : Nat), boundOf l ≤ k → wget l k = 0#64
  | [], k, _ => by simp
  | w :: r, k, h => by
    have ih := wget_of_ge_boundOf r
    unfold boundOf at h
    by_cases hr : boundOf r = 0
    · simp only [hr, if_true] at h
      cases k with
      | zero =>
        by_cases hw : w = 0#64
        · simpa using hw
        · simp [hw] at h
      | succ k => simpa using ih k (by omega)
    · simp only [hr, if_false] at h
      cases k with
      | zero => omega
      | succ k => simpa using ih k (by omega)

theorem boundOf_le : ∀ (l : List Word), boundOf l ≤ l.length
  | [] => by simp [boundOf]
  | w :: r => by
    have := boundOf_le r
    unfold boundOf
    split
    · split <;> simp
    · simp; omega

theorem boundOf_concat : ∀ (l : List Word) (v : Word),
    boundOf (l ++ [v]) = if v = 0#64 then boundOf l else l.length + 1
  | [], v => by simp [boundOf]
  | w :: r, v => by
    have ih := boundOf_concat r v
    rw [List.cons_append]
    unfold boundOf
    rw [ih]
    by_cases hv : v = 0#64
    · simp [hv]
    · simp [hv]

theorem wget_trim (l : List Word) (k : Nat) : wget (l.take (boundOf l)) k = wget l k := by
  rw [wget_take]
  split
  · rfl
  · exact (wget_of_ge_boundOf l k (by omega)).symm

theorem wget_map_range (g : Nat → Word) (len k : Nat) :
    wget ((List.range len).map g) k = if k < len then g k else 0#64 := by
  simp only [wget, List.getD_eq_getElem?_getD, List.getElem?_map]
  split <;> simp [*]

/-! ### value level -/

theorem opV_wget (fix : Bool) (f : List Word → Word) (dst : Bm) (srcs : List Bm) (k : Nat) :
    wget (opV fix f dst srcs).1 k =
      if k < maxLen srcs then f (srcs.map (wget · k)) else 0#64 := by
  simp only [opV, wget_trim, wget_map_range]

theorem opV_fst_fix (fix : Bool) (f : List Word → Word) (dst : Bm) (srcs : List Bm) :
    (opV fix f dst srcs).1 = (opV false f dst srcs).1 := rfl

/-- `f` acts bitwise as `fb`, and `fb` of all-false is false (so zero padding is sound) -/
structure Bitwise (f : List Word → Word) (fb : List Bool → Bool) : Prop where
  bit : ∀ ws j, (f ws).getLsbD j = fb (ws.map (·.getLsbD j))
  zero : ∀ n, fb (List.replicate n false) = false

theorem opV_mem (fix : Bool) (f : List Word → Word) (fb : List Bool → Bool) (hf : Bitwise f fb)
    (dst : Bm) (srcs : List Bm) (i : Nat) :
    mem (opV fix f dst srcs).1 i = fb (srcs.map (mem · i)) := by
  unfold mem
  rw [opV_wget]
  split
  · rw [hf.bit, List.map_map]; rfl
  · rename_i hk
    have : srcs.map (fun s => (wget s (i / 64)).getLsbD (i % 64)) = List.replicate srcs.length false := by
      rw [List.eq_replicate_iff]
      refine ⟨by simp, ?_⟩
      intro b hb
      obtain ⟨s, hs, rfl⟩ := List.mem_map.1 hb
      rw [wget_of_ge s _ (by have := le_maxLen srcs s hs; omega)]
      simp
    rw [this, hf.zero]; simp

theorem changed_iff_word (a b : Bm) : (∃ i, mem a i ≠ mem b i) ↔ ∃ k, wget a k ≠ wget b k := by
  have := mem_ext_iff a b
  constructor
  · intro h
    apply Classical.byContradiction; intro hc
    have hall : ∀ k, wget a k = wget b k := fun k => Classical.byContradiction fun hk => hc ⟨k, hk⟩
    obtain ⟨i, hi⟩ := h
    exact hi (this.2 hall i)
  · intro h
    apply Classical.byContradiction; intro hc
    have hall : ∀ i, mem a i = mem b i := fun i => Classical.byContradiction fun hi => hc ⟨i, hi⟩
    obtain ⟨k, hk⟩ := h
    exact hk (this.1 hall k)

theorem opV_chg_iff (f : List Word → Word) (dst : Bm) (srcs : List Bm) :
    (opV false f dst srcs).2 = true ↔
      ∃ k, k < maxLen srcs ∧ wget (opV false f dst srcs).1 k ≠ wget dst k := by
  simp only [opV, List.any_eq_true, List.mem_range, bne_iff_ne, ne_eq, wget_expand, wget_trim,
    Bool.false_eq_true, if_false]
  constructor
  · rintro ⟨k, hk, hne⟩; exact ⟨k, hk, fun h => hne h.symm⟩
  · rintro ⟨k, hk, hne⟩; exact ⟨k, hk, fun h => hne h.symm⟩

theorem opV_dropped_iff (f : List Word → Word) (dst : Bm) (srcs : List Bm) :
    ((expand dst (maxLen srcs * 64)).drop (maxLen srcs)).any (· != 0#64) = true ↔
      ∃ k, maxLen srcs ≤ k ∧ wget (opV false f dst srcs).1 k ≠ wget dst k := by
  rw [any_ne_zero_iff]
  simp only [wget_drop, wget_expand]
  constructor
  · rintro ⟨k, hk⟩
    refine ⟨maxLen srcs + k, by omega, ?_⟩
    rw [opV_wget, if_neg (by omega)]
    exact fun h => hk h.symm
  · rintro ⟨k, hk, hne⟩
    refine ⟨k - maxLen srcs, ?_⟩
    rw [show maxLen srcs + (k - maxLen srcs) = k by omega]
    rw [opV_wget, if_neg (by omega)] at hne
    exact fun h => hne h.symm

theorem opV_flag_fixed_unfold (f : List Word → Word) (dst : Bm) (srcs : List Bm) :
    (opV true f dst srcs).2 =
      ((opV false f dst srcs).2 ||
        ((expand dst (maxLen srcs * 64)).drop (maxLen srcs)).any (· != 0#64)) := rfl

/-- patched flag: exact -/
theorem opV_flag_fixed (f : List Word → Word) (dst : Bm) (srcs : List Bm) :
    (opV true f dst srcs).2 = true ↔ ∃ i, mem (opV true f dst srcs).1 i ≠ mem dst i := by
  rw [changed_iff_word, opV_flag_fixed_unfold, Bool.or_eq_true, opV_chg_iff, opV_dropped_iff,
    opV_fst_fix]
  constructor
  · rintro (⟨k, _, h⟩ | ⟨k, _, h⟩) <;> exact ⟨k, h⟩
  · rintro ⟨k, h⟩
    by_cases hk : k < maxLen srcs
    · exact Or.inl ⟨k, hk, h⟩
    · exact Or.inr ⟨k, by omega, h⟩

/-- current flag: exact only when `dst` has no non-zero word beyond the longest source -/
theorem opV_flag_current (f : List Word → Word) (dst : Bm) (srcs : List Bm)
    (hz : ∀ k, maxLen srcs ≤ k → wget dst k = 0#64) :
    (opV false f dst srcs).2 = true ↔ ∃ i, mem (opV false f dst srcs).1 i ≠ mem dst i := by
  rw [changed_iff_word, opV_chg_iff]
  constructor
  · rintro ⟨k, _, h⟩; exact ⟨k, h⟩
  · rintro ⟨k, h⟩
    by_cases hk : k < maxLen srcs
    · exact ⟨k, hk, h⟩
    · exfalso; apply h
      rw [opV_wget, if_neg hk, hz k (by omega)]

/-- the current flag never reports a change that did not happen (only the converse can fail) -/
theorem opV_flag_current_sound (f : List Word → Word) (dst : Bm) (srcs : List Bm)
    (h : (opV false f dst srcs).2 = true) : ∃ i, mem (opV false f dst srcs).1 i ≠ mem dst i := by
  rw [changed_iff_word]
  obtain ⟨k, _, hk⟩ := (opV_chg_iff f dst srcs).1 h
  exact ⟨k, hk⟩

/-! ### heap level -/

theorem any_congr_mem {α : Type} (p q : α → Bool) : ∀ (l : List α), (∀ x ∈ l, p x = q x) →
    l.any p = l.any q
  | [], _ => rfl
  | a :: r, h => by
    rw [List.any_cons, List.any_cons, h a (List.mem_cons_self),
      any_congr_mem p q r (fun x hx => h x (List.mem_cons_of_mem _ hx))]

theorem hget_set (h : Heap) (d x : Nat) (v : Bm) :
    hget (h.set d v) x = if x = d ∧ d < h.length then v else hget h x := by
  simp only [hget, List.getD_eq_getElem?_getD, List.getElem?_set]
  by_cases h1 : d = x
  · subst h1
    by_cases h2 : d < h.length
    · simp [h2]
    · simp [h2]
  · have : ¬ x = d := fun e => h1 e.symm
    simp [h1, this]

theorem heap_ext (a b : Heap) (hl : a.length = b.length) (h : ∀ x, hget a x = hget b x) : a = b := by
  apply List.ext_getElem hl
  intro i h1 h2
  have := h i
  simpa [hget, List.getD_eq_getElem?_getD, List.getElem?_eq_getElem h1,
    List.getElem?_eq_getElem h2] using this

/-- loop invariant after `i` iterations: only `dst` differs from the initial heap, its words below
`i` are the new ones, the others still the (expanded) old ones -/
structure Inv (h0 : Heap) (d : Nat) (D0 : Bm) (g : Nat → Word) (i : Nat) (h : Heap) : Prop where
  len : h.length = h0.length
  frame : ∀ x, x ≠ d → hget h x = hget h0 x
  dlen : (hget h d).length = D0.length
  words : ∀ k, wget (hget h d) k = if k < i then g k else wget D0 k

theorem opLoop_spec (f : List Word → Word) (h0 : Heap) (d : Nat) (hd : d < h0.length)
    (srcs : List Nat) (D0 : Bm) (hD0 : ∀ k, wget D0 k = wget (hget h0 d) k) :
    let ss := srcs.map (fun s => (s, (hget h0 s).length))
    let g := fun k => f ((srcs.map (hget h0)).map (wget · k))
    ∀ (n i : Nat) (h : Heap) (bound : Nat) (chg : Bool),
      Inv h0 d D0 g i h → i + n ≤ D0.length → bound = boundOf ((List.range i).map g) →
      Inv h0 d D0 g (i + n) (opLoop f d ss n i h bound chg).1 ∧
      (opLoop f d ss n i h bound chg).2.1 = boundOf ((List.range (i + n)).map g) ∧
      (opLoop f d ss n i h bound chg).2.2 =
        (chg || (List.range' i n).any (fun k => wget D0 k != g k)) := by
  intro ss g n
  induction n with
  | zero =>
    intro i h bound chg inv _ hb
    simp [opLoop, inv, hb]
  | succ n ih =>
    intro i h bound chg inv hle hb
    unfold opLoop
    -- the reads see the original source words
    have hread : ss.map (rd h i) = (srcs.map (hget h0)).map (wget · i) := by
      simp only [ss, List.map_map]
      apply List.map_congr_left
      intro s _
      simp only [Function.comp, rd]
      by_cases hs : s = d
      · subst hs
        rw [inv.words i, if_neg (Nat.lt_irrefl i), hD0]
        split
        · rename_i hge; exact (wget_of_ge _ _ hge).symm
        · rfl
      · rw [inv.frame s hs]
        split
        · rename_i hge; exact (wget_of_ge _ _ hge).symm
        · rfl
    have hv : f (ss.map (rd h i)) = g i := by rw [hread]
    have hold : wget (hget h d) i = wget D0 i := by rw [inv.words i, if_neg (Nat.lt_irrefl i)]
    have hdl : d < h.length := by rw [inv.len]; exact hd
    have hil : i < (hget h d).length := by rw [inv.dlen]; omega
    have inv' : Inv h0 d D0 g (i + 1) (h.set d ((hget h d).set i (g i))) := by
      refine ⟨by simp [inv.len], ?_, ?_, ?_⟩
      · intro x hx
        rw [hget_set, if_neg (fun c => hx c.1), inv.frame x hx]
      · rw [hget_set, if_pos ⟨rfl, hdl⟩, List.length_set, inv.dlen]
      · intro k
        rw [hget_set, if_pos ⟨rfl, hdl⟩, wget_set, inv.words k]
        by_cases hk : k = i
        · subst hk; simp [hil]
        · have : ¬ (k = i ∧ i < (hget h d).length) := fun c => hk c.1
          rw [if_neg this]
          by_cases hlt : k < i
          · rw [if_pos hlt, if_pos (by omega)]
          · rw [if_neg hlt, if_neg (by omega)]
    simp only [hv, hold]
    obtain ⟨r1, r2, r3⟩ := ih (i + 1) (h.set d ((hget h d).set i (g i)))
      (if g i = 0#64 then bound else i + 1) (chg || wget D0 i != g i) inv' (by omega)
      (by rw [List.range_succ, List.map_append, List.map_singleton, boundOf_concat, hb]; simp)
    refine ⟨by rwa [show i + (n + 1) = i + 1 + n by omega], ?_, ?_⟩
    · rw [r2]; congr 3; omega
    · rw [r3, List.range'_succ, List.any_cons, Bool.or_assoc]

/-- **refinement**: the in-place loop on heap objects computes the value-level operation on the
*original* contents of the sources, whatever ids coincide -/
theorem opH_eq (fix : Bool) (f : List Word → Word) (h : Heap) (d : Nat) (hd : d < h.length)
    (srcs : List Nat) :
    opH fix f h d srcs =
      (h.set d (opV fix f (hget h d) (srcs.map (hget h))).1,
       (opV fix f (hget h d) (srcs.map (hget h))).2) := by
  let len := maxLen (srcs.map (hget h))
  let D0 := expand (hget h d) (len * 64)
  let g := fun k => f ((srcs.map (hget h)).map (wget · k))
  let h1 := h.set d D0
  have hD0len : len ≤ D0.length := by simp [D0]; omega
  have inv0 : Inv h d D0 g 0 h1 := by
    refine ⟨by simp [h1], ?_, ?_, ?_⟩
    · intro x hx; simp only [h1]; rw [hget_set, if_neg (fun c => hx c.1)]
    · simp only [h1]; rw [hget_set, if_pos ⟨rfl, hd⟩]
    · intro k; simp only [h1]; rw [hget_set, if_pos ⟨rfl, hd⟩]; simp
  obtain ⟨r1, r2, r3⟩ := opLoop_spec f h d hd srcs D0 (by intro k; simp [D0]) len 0 h1 0 false inv0
    (by omega) (by simp [boundOf])
  simp only [Nat.zero_add] at r1 r2 r3
  -- name the loop result
  have hnew : (List.range len).map g = (List.range len).map (fun i => f ((srcs.map (hget h)).map (wget · i))) := rfl
  unfold opH
  simp only
  rw [show (opLoop f d (srcs.map fun s => (s, (hget h s).length)) (maxLen (srcs.map (hget h))) 0
        (h.set d (expand (hget h d) (maxLen (srcs.map (hget h)) * 64))) 0 false) =
      (opLoop f d (srcs.map fun s => (s, (hget h s).length)) len 0 h1 0 false) from rfl]
  generalize opLoop f d (srcs.map fun s => (s, (hget h s).length)) len 0 h1 0 false = r at r1 r2 r3
  change Inv h d D0 g len r.1 at r1
  change r.2.1 = boundOf ((List.range len).map g) at r2
  change r.2.2 = (false || (List.range' 0 len).any fun k => wget D0 k != g k) at r3
  have hdl : d < r.1.length := by rw [r1.len]; exact hd
  -- the destination words after the loop
  have hA : ∀ k, wget (hget r.1 d) k = if k < len then g k else wget D0 k := r1.words
  have hdrop : (hget r.1 d).drop len = D0.drop len := by
    apply bm_ext
    · simp [r1.dlen]
    · intro k
      rw [wget_drop, wget_drop, hA, if_neg (by omega)]
  have htake : (hget r.1 d).take r.2.1 = ((List.range len).map g).take (boundOf ((List.range len).map g)) := by
    have hb := boundOf_le ((List.range len).map g)
    simp only [List.length_map, List.length_range] at hb
    apply bm_ext
    · rw [r2]
      simp only [List.length_take, List.length_map, List.length_range, r1.dlen]
      omega
    · intro k
      rw [r2, wget_take, wget_take, hA, wget_map_range]
      by_cases hk : k < boundOf ((List.range len).map g)
      · have : k < len := by omega
        simp only [hk, this, if_true]
      · simp only [hk, if_false]
  have hflag : r.2.2 = (List.range len).any (fun i => wget D0 i != wget ((List.range len).map g) i) := by
    rw [r3, Bool.false_or, ← List.range_eq_range']
    apply any_congr_mem
    intro k hk
    have : k < len := by simpa using hk
    rw [wget_map_range, if_pos this]
  refine Prod.ext ?_ ?_
  · simp only [opV]
    apply heap_ext
    · simp [r1.len]
    · intro x
      rw [hget_set, hget_set]
      by_cases hx : x = d
      · rw [if_pos ⟨hx, hdl⟩, if_pos ⟨hx, hd⟩, htake]
      · rw [if_neg (fun c => hx c.1), if_neg (fun c => hx c.1), r1.frame x hx]
  · simp only [opV]
    rw [hdrop, hflag]

end MirVerif.Bitmap
