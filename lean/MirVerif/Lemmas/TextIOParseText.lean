import MirVerif.Lemmas.TextIOParseRT
/-! # C10 — `parseStmts (toks (ltText ms)) = stmtsText ms` for modules that satisfy the parse-level
conditions (`parseModule`): block sizes below 2^32, `i64/f/d/ld` variables, scannable instruction
codes, no label at the end of a function body -/
namespace TextIO

/-! ## classification of head words -/

theorem classify_kws :
    classifyHead kwModule 1 = .ok .module ∧ classifyHead kwEndmodule 0 = .ok .endmodule
    ∧ classifyHead kwProto 1 = .ok .proto ∧ classifyHead kwFunc 1 = .ok .func
    ∧ (∀ k, classifyHead kwEndfunc k = .ok .endfunc) ∧ classifyHead kwExport 0 = .ok .export
    ∧ classifyHead kwImport 0 = .ok .import ∧ classifyHead kwForward 0 = .ok .forward
    ∧ classifyHead kwLocal 0 = .ok .local ∧ classifyHead kwGlobal 0 = .ok .global := by
  refine ⟨rfl, rfl, rfl, rfl, fun _ => rfl, rfl, rfl, rfl, rfl, rfl⟩

theorem classify_opt (k : Nat) (hk : k ≤ 1) :
    classifyHead kwBss k = .ok .bss ∧ classifyHead kwRef k = .ok .ref ∧ classifyHead kwLref k = .ok .lref
    ∧ classifyHead kwExpr k = .ok .expr := by
  have : k = 0 ∨ k = 1 := by omega
  rcases this with h | h <;> subst h <;> exact ⟨rfl, rfl, rfl, rfl⟩

theorem classify_data (t : Ty) (k : Nat) (hk : k ≤ 1) : classifyHead (typeStr t) k = .ok (.data t) := by
  have : k = 0 ∨ k = 1 := by omega
  rcases this with h | h <;> subst h <;> cases t <;> rfl

def kwList : List Str :=
  [kwModule, kwEndmodule, kwProto, kwFunc, kwEndfunc, kwExport, kwImport, kwForward, kwBss, kwRef, kwLref, kwExpr,
   kwString, kwLocal, kwGlobal]

/-- every scannable instruction spelling is not a directive, not a type, and is found at its own index -/
theorem insnTable_ok :
    (List.range insnTable.length).all (fun c =>
      !codeOK c || (!kwList.contains (insnName c) && (str2type (insnName c)).isNone
        && findInsn (insnName c) == some c)) = true := by
  decide +kernel

theorem classify_insn {c : Nat} (h : codeOK c = true) (k : Nat) : classifyHead (insnName c) k = .ok (.insn c) := by
  have hc : c < insnTable.length := by
    simp only [codeOK, Bool.and_eq_true, decide_eq_true_eq] at h; exact h.1.1.1.1.1
  have := List.all_eq_true.mp insnTable_ok c (List.mem_range.mpr hc)
  simp only [h, Bool.not_true, Bool.false_or, Bool.and_eq_true, Bool.not_eq_true', beq_iff_eq,
    Option.isNone_iff_eq_none] at this
  obtain ⟨⟨hk, ht⟩, hf⟩ := this
  simp only [kwList, List.contains_cons, List.contains_nil, Bool.or_false, Bool.or_eq_false_iff, beq_eq_false_iff_ne,
    ne_eq] at hk
  obtain ⟨h1, h2, h3, h4, h5, h6, h7, h8, h9, h10, h11, h12, h13, h14, h15⟩ := hk
  simp only [codeOK, Bool.and_eq_true, decide_eq_true_eq] at h
  obtain ⟨⟨⟨⟨⟨_, hu⟩, hus⟩, hp⟩, _⟩, _⟩ := h
  simp [classifyHead, h1, h2, h3, h4, h5, h6, h7, h8, h9, h10, h11, h12, h13, h14, h15, ht, hf, hu, hus, hp]

/-! ## declaration operands -/

theorem parsesTo_type {h : Head} (hfp : h.isFuncProto = true) (t : Ty) : ParsesTo h [.name (typeStr t)] (.ty t) := by
  intro tk rest ht
  have hc := endTok_ne_col ht
  have hd : h.isDecl = true := by cases h <;> simp_all [Head.isFuncProto, Head.isDecl]
  have hlg : h.isLocalGlobal = false := by cases h <;> simp_all [Head.isFuncProto, Head.isLocalGlobal]
  have hnd := typeStr_ne_dots t
  rcases ht with ht | ht <;> subst ht <;>
    simp [parseOperand, hfp, hd, hlg, hnd, str2type_typeStr, parseDeclRest, Except.map]

def pVar (v : Var) : Bool := !v.ty.isBlk || decide (v.size < 2 ^ 63)

theorem toks_ltVar (v : Var) :
    toks (ltVar v) = if v.ty.isBlk then
        [.name (typeStr v.ty), .col, .int (BitVec.ofNat 64 v.size), .lpar, .name v.name, .rpar]
      else [.name (typeStr v.ty), .col, .name v.name] := by
  unfold ltVar; split <;> simp [ltType, ltName, ltNat, tColon, tLpar, tRpar, LT.toks]

theorem parsesTo_var {h : Head} (hfp : h.isFuncProto = true) {v : Var} (hv : pVar v = true) :
    ParsesTo h (toks (ltVar v)) (ropOfVar v) := by
  intro tk rest ht
  have hd : h.isDecl = true := by cases h <;> simp_all [Head.isFuncProto, Head.isDecl]
  have hlg : h.isLocalGlobal = false := by cases h <;> simp_all [Head.isFuncProto, Head.isLocalGlobal]
  have hg : h ≠ .global := by intro e; subst e; simp [Head.isFuncProto] at hfp
  have hnd := typeStr_ne_dots v.ty
  rw [toks_ltVar]
  unfold ropOfVar
  cases hb : v.ty.isBlk
  · simp [parseOperand, hfp, hd, hlg, hnd, str2type_typeStr, parseDeclRest, Except.map, hg]
  · simp only [pVar, hb, Bool.not_true, Bool.false_or, decide_eq_true_eq] at hv
    have h64 : v.size < 2 ^ 64 := by omega
    have hsz : (BitVec.ofNat 64 v.size).toNat = v.size := by simp [BitVec.toNat_ofNat]; omega
    have hlt : ¬ (v.size ≥ 2 ^ 63) := by omega
    simp [parseOperand, hfp, hd, hlg, hnd, str2type_typeStr, parseDeclRest, Except.map, hb, hsz, hlt]

theorem parsesTo_local {v : Ty × Str} (hv : okVarType v.1 = true) :
    ParsesTo .local (toks (ltLocal v)) (.var v.1 v.2 none) := by
  intro tk rest ht
  simp [ltLocal, ltType, ltName, tColon, LT.toks, parseOperand, Head.isFuncProto, Head.isDecl, Head.isLocalGlobal,
    str2type_typeStr, hv, parseDeclRest, Except.map]

theorem parsesTo_global {v : Ty × Str × Str} (hv : okVarType v.1 = true) :
    ParsesTo .global (toks (ltGlobal v)) (.var v.1 v.2.1 (some v.2.2)) := by
  intro tk rest ht
  simp [ltGlobal, ltType, ltName, tColon, LT.toks, parseOperand, Head.isFuncProto, Head.isDecl, Head.isLocalGlobal,
    str2type_typeStr, hv, parseDeclRest, Except.map]

/-! ## parse-level well-formedness -/

def pFItem : FItem → Bool
  | .insn c _ => codeOK c
  | .label _ => true

def pFunc (f : Func) : Bool :=
  f.args.all pVar && f.locals.all (fun v => okVarType v.1) && f.globals.all (fun v => okVarType v.1)
  && f.body.all pFItem

def pItem : Item → Bool
  | .proto _ _ args _ => args.all pVar
  | .func f => pFunc f
  | .data _ t _ => !t.isBlk
  | _ => true

def pModule (m : Module) : Bool := m.items.all pItem


/-! ## lines -/

theorem parseOperand_ok_first {h : Head} {toks : List Tok} {r : Option ROp} {rest : List Tok}
    (hh : parseOperand h toks = .ok (r, rest)) : ∃ t ts, toks = t :: ts ∧ t ≠ .col ∧ t ≠ .comma ∧ t ≠ .nl := by
  cases toks with
  | nil => simp [parseOperand] at hh
  | cons t ts =>
    refine ⟨t, ts, rfl, ?_⟩
    cases t <;> simp [parseOperand] at hh <;> simp

theorem parsesTo_first {h : Head} {p : List Tok} {r : ROp} (hp : ParsesTo h p r) :
    ∃ t ts, p = t :: ts ∧ t ≠ .col := by
  have h1 := hp .comma [] (Or.inl rfl)
  obtain ⟨t, ts, he, hc, hcm, _⟩ := parseOperand_ok_first h1
  cases p with
  | nil => simp at he; exact absurd he.1.symm hcm
  | cons a as => simp at he; exact ⟨a, as, rfl, by rw [he.1]; exact hc⟩

theorem commaToks_first {h : Head} {pieces : List (List Tok)} {rops : List ROp} (hall : All2 (ParsesTo h) pieces rops)
    (rest : List Tok) : peek (commaToks pieces ++ .nl :: rest) ≠ .col := by
  cases hall with
  | nil => simp [commaToks, peek]
  | @cons p r ps rs hpr _ =>
    obtain ⟨t, ts, he, hc⟩ := parsesTo_first hpr
    subst he
    cases ps <;> simpa [commaToks, peek] using hc

/-- a directive/instruction line without `...` -/
theorem line_of {labels : List Str} {name : Str} {h : Head} {pieces : List (List Tok)} {rops : List ROp}
    (body : Bool) (hc : classifyHead name labels.length = .ok h) (hall : All2 (ParsesTo h) pieces rops)
    (hlab : body = true ∨ labels = [] ∨ ∃ l, labels = [l]) :
    StmtLines [⟨labels, h, rops, false⟩]
      ((if body then bodyLabelToks labels else inlineLabelToks labels) ++ .name name :: commaToks pieces ++ [.nl]) :=
  stmtLine body hc (commaToks_first hall) (fun rest => by simpa using parseOps_list hall [] rest) hlab

theorem toks_ltOps (ops : List Op) : toks (ltOps ops) = commaToks (ops.map fun o => toks (ltOp o)) := by
  cases ops with
  | nil => rfl
  | cons o os => simp [ltOps, tTab, LT.toks, toks_commaSep, List.map_map, Function.comp_def]

theorem optL_cases (n : Option Str) : optL n = [] ∨ ∃ l, optL n = [l] := by
  cases n <;> simp [optL]

theorem toks_nameColon (n : Option Str) : toks (ltNameColon n) = inlineLabelToks (optL n) := by
  cases n <;> simp [ltNameColon, optL, inlineLabelToks, ltName, tColon, LT.toks]

theorem plain_heads : Head.export.plain ∧ Head.import.plain ∧ Head.forward.plain ∧ Head.bss.plain ∧ Head.ref.plain
    ∧ Head.lref.plain ∧ Head.expr.plain ∧ (∀ t, (Head.data t).plain) ∧ (∀ c, (Head.insn c).plain) := by
  refine ⟨?_, ?_, ?_, ?_, ?_, ?_, ?_, fun _ => ?_, fun _ => ?_⟩ <;> exact ⟨rfl, rfl, rfl⟩

theorem parsesTo_nameTok {h : Head} (hp : h.plain) (n : Str) : ParsesTo h [.name n] (.name n) :=
  fun t rest ht => by simpa using parseOperand_name hp n ht rest

theorem parsesTo_intTok {h : Head} (v : BitVec 64) : ParsesTo h [.int v] (.int v) :=
  fun t rest _ => by simp [parseOperand]

theorem toks_dataEl {ty : Ty} (hb : ty.isBlk = false) (v : Nat) :
    ParsesTo (.data ty) (toks [ltDataEl ty v]) (dataRop ty v) := by
  intro t rest _
  cases ty <;> simp [Ty.isBlk] at hb <;>
    simp [ltDataEl, dataRop, ltNat, ltFlt, ltDbl, ltLdbl, LT.toks, parseOperand]

theorem toks_ltDataEnd (ty : Ty) (els : List Nat) : toks (ltDataEnd ty els) = [.nl] := by
  unfold ltDataEnd; split <;> simp [tSp, tNl, LT.toks]

/-! ## function bodies -/

/-- the instruction lines of a body followed by the `endfunc` line (which takes the labels that are
still pending) -/
theorem body_lines (body : List FItem) (pend : List Str) (hp : body.all pFItem = true) :
    StmtLines (stmtsOfBody body pend ++ [⟨bodyPending body pend, .endfunc, [], false⟩])
      (bodyLabelToks pend ++ toks (body.flatMap ltFItem) ++ [.name kwEndfunc, .nl]) := by
  induction body generalizing pend with
  | nil =>
    have := line_of (labels := pend) (name := kwEndfunc) (h := .endfunc) (pieces := []) (rops := []) true
      (classify_kws.2.2.2.2.1 pend.length) All2.nil (Or.inl rfl)
    simpa [stmtsOfBody, bodyPending, commaToks] using this
  | cons x xs ih =>
    simp only [List.all_cons, Bool.and_eq_true] at hp
    cases x with
    | label l =>
      have := ih (pend ++ [printLabel l]) hp.2
      simpa [stmtsOfBody, bodyPending, bodyLabelToks, ltFItem, ltLabel, ltName, tColon, tNl, LT.toks] using this
    | insn c ops =>
      have hcode : codeOK c = true := by simpa [pFItem] using hp.1
      have hall : All2 (ParsesTo (.insn c)) (ops.map fun o => toks (ltOp o)) (ops.map ropOfOp) :=
        All2.map _ _ ops (fun o _ t rest ht => parseOperand_op (plain_heads.2.2.2.2.2.2.2.2 c) o ht rest)
      have hline := line_of (labels := pend) true (classify_insn hcode pend.length) hall (Or.inl rfl)
      have hrest := ih [] hp.2
      have := StmtLines.append hline hrest
      simpa [stmtsOfBody, bodyPending, bodyLabelToks, ltFItem, ltName, tTab, tNl, LT.toks, toks_ltOps, List.append_assoc]
        using this

/-! ## variable declaration lines -/

theorem chunk8_map {α β} (f : α → β) (n : Nat) (l : List α) : chunk8 n (l.map f) = (chunk8 n l).map (List.map f) := by
  induction n generalizing l with
  | zero => cases l <;> simp [chunk8]
  | succ k ih =>
    cases l with
    | nil => simp [chunk8]
    | cons a as =>
      simp only [chunk8, List.map_cons, List.length_cons, List.length_map]
      split
      · simp
      · simp only [List.map_cons, List.cons.injEq]
        refine ⟨by simp [List.map_take], ?_⟩
        rw [← ih]
        congr 1
        simp [List.map_drop]

theorem map_eq_flatMap_single {α β} (f : α → β) (l : List α) : l.map f = l.flatMap (fun x => [f x]) := by
  induction l with
  | nil => rfl
  | cons x xs ih => simp [ih]

theorem varLines {α} (kw : Str) (h : Head) (hc : classifyHead kw 0 = .ok h) (lt : α → List LT) (rop : α → ROp)
    (vars : List α) (hp : ∀ v ∈ vars, ParsesTo h (toks (lt v)) (rop v)) :
    StmtLines ((chunk8 vars.length vars).map fun line => ⟨[], h, line.map rop, false⟩)
      (toks (ltVarLines kw (vars.map lt))) := by
  unfold ltVarLines
  rw [List.length_map, chunk8_map, toks_flatMap, List.flatMap_map]
  rw [map_eq_flatMap_single]
  apply StmtLines.flatMap
  intro line hl
  have hall : All2 (ParsesTo h) ((line.map lt).map toks) (line.map rop) := by
    rw [List.map_map]
    exact All2.map _ _ line (fun v hv => hp v (chunk8_mem _ _ line hl v hv))
  have := line_of (labels := []) (name := kw) false hc hall (Or.inr (Or.inl rfl))
  simpa [inlineLabelToks, tTab, tNl, ltName, LT.toks, toks_commaSep] using this


/-! ## `func` / `proto` header lines -/

def protoPieces (res : List Ty) (args : List Var) : List (List Tok) :=
  res.map (fun t => [Tok.name (typeStr t)]) ++ args.map (fun v => toks (ltVar v))

theorem toks_protoBody (res : List Ty) (args : List Var) (va : Bool) :
    toks (ltProtoBody res args va) =
      if va then commaToks (protoPieces res args ++ [[.name kwDots]]) else commaToks (protoPieces res args) := by
  have hp : (res.map (fun t => [ltType t]) ++ args.map ltVar).map toks = protoPieces res args := by
    simp [protoPieces, List.map_map, Function.comp_def, ltType, ltName, LT.toks]
  unfold ltProtoBody
  rw [toks_append', toks_commaSep, hp]
  cases va with
  | false => simp
  | true =>
    simp only [if_true]
    rw [commaToks_snoc]
    by_cases he : args.isEmpty = true ∧ res.isEmpty = true
    · have : protoPieces res args = [] := by
        simp only [List.isEmpty_iff] at he; simp [protoPieces, he.1, he.2]
      simp [he, this, commaToks, ltName, LT.toks]
    · have : protoPieces res args ≠ [] := by
        intro h
        simp only [protoPieces, List.append_eq_nil_iff, List.map_eq_nil_iff] at h
        exact he ⟨by simp [h.2], by simp [h.1]⟩
      have he' : ¬(args = [] ∧ res = []) := by simpa [List.isEmpty_iff] using he
      simp [he', this, tCommaSp, tComma, tSp, ltName, LT.toks]

theorem protoLine (n kw : Str) (h : Head) (hfp : h.isFuncProto = true) (hc : classifyHead kw 1 = .ok h)
    (res : List Ty) (args : List Var) (va : Bool) (hv : args.all pVar = true) :
    StmtLines [⟨[n], h, protoRops res args, va⟩]
      (.name n :: .col :: .name kw :: (toks (ltProtoBody res args va) ++ [.nl])) := by
  have hall : All2 (ParsesTo h) (protoPieces res args) (protoRops res args) := by
    unfold protoPieces protoRops
    exact All2.append (All2.map _ _ res (fun t _ => parsesTo_type hfp t))
      (All2.map _ _ args (fun v hvv => parsesTo_var hfp (List.all_eq_true.mp hv v hvv)))
  rw [toks_protoBody]
  cases va with
  | false =>
    have := line_of (labels := [n]) (name := kw) false hc hall (Or.inr (Or.inr ⟨n, rfl⟩))
    simpa [inlineLabelToks] using this
  | true =>
    have hfirst : ∀ rest, peek (commaToks (protoPieces res args ++ [[.name kwDots]]) ++ .nl :: rest) ≠ .col := by
      intro rest
      generalize protoPieces res args = pcs at hall
      generalize protoRops res args = rps at hall
      cases hall with
      | nil => simp [commaToks, peek]
      | @cons p r ps rs hpr _ =>
        obtain ⟨t, ts, he, hcc⟩ := parsesTo_first hpr
        subst he
        cases ps <;> simpa [commaToks, peek] using hcc
    have := stmtLine (labels := [n]) (name := kw) (h := h) (ops := protoRops res args) (dots := true) false hc hfirst
      (fun rest => by simpa using parseOps_list_dots hfp hall [] rest) (Or.inr (Or.inr ⟨n, rfl⟩))
    simpa [inlineLabelToks] using this

theorem emptyLine (kw : Str) (h : Head) (hc : classifyHead kw 0 = .ok h) :
    StmtLines [⟨[], h, [], false⟩] [.name kw, .nl] := by
  have := line_of (labels := []) (name := kw) (h := h) (pieces := []) (rops := []) false hc All2.nil
    (Or.inr (Or.inl rfl))
  simpa [inlineLabelToks, commaToks] using this

theorem func_lines {f : Func} (hp : pFunc f = true) : StmtLines (stmtsOfFunc f) (toks (ltFunc f)) := by
  simp only [pFunc, Bool.and_eq_true] at hp
  obtain ⟨⟨⟨ha, hl⟩, hg⟩, hb⟩ := hp
  have kc := classify_kws
  have hhead := protoLine f.name kwFunc .func rfl kc.2.2.2.1 f.res f.args f.vararg ha
  have hloc := varLines kwLocal .local kc.2.2.2.2.2.2.2.2.1 ltLocal (fun v => ROp.var v.1 v.2 none) f.locals
    (fun v hv => parsesTo_local (List.all_eq_true.mp hl v hv))
  have hglob := varLines kwGlobal .global kc.2.2.2.2.2.2.2.2.2 ltGlobal (fun v => ROp.var v.1 v.2.1 (some v.2.2)) f.globals
    (fun v hv => parsesTo_global (List.all_eq_true.mp hg v hv))
  have hbody := body_lines f.body [] hb
  have hbody' : StmtLines (stmtsOfBody f.body [] ++ [⟨bodyPending f.body [], .endfunc, [], false⟩])
      (.nl :: .nl :: (toks (f.body.flatMap ltFItem) ++ [.name kwEndfunc, .nl])) := by
    have : bodyLabelToks [] ++ toks (f.body.flatMap ltFItem) ++ [.name kwEndfunc, .nl]
        = toks (f.body.flatMap ltFItem) ++ [.name kwEndfunc, .nl] := by simp [bodyLabelToks]
    rw [this] at hbody
    exact StmtLines.nl_cons (StmtLines.nl_cons hbody)
  have := StmtLines.append (StmtLines.append (StmtLines.append hhead hloc) hglob) hbody'
  simpa [stmtsOfFunc, ltFunc, ltName, tColon, tTab, tNl, LT.toks, List.append_assoc] using this

/-! ## items, modules -/

theorem item_lines {it : Item} (hp : pItem it = true) : StmtLines (stmtsOfItem it) (toks (ltItem it)) := by
  have kc := classify_kws
  have ph := plain_heads
  cases it with
  | «export» n =>
    have := line_of (labels := []) (name := kwExport) false kc.2.2.2.2.2.1
      (All2.cons (parsesTo_nameTok ph.1 n) All2.nil) (Or.inr (Or.inl rfl))
    simpa [stmtsOfItem, ltItem, inlineLabelToks, commaToks, ltName, tTab, tNl, LT.toks] using this
  | «import» n =>
    have := line_of (labels := []) (name := kwImport) false kc.2.2.2.2.2.2.1
      (All2.cons (parsesTo_nameTok ph.2.1 n) All2.nil) (Or.inr (Or.inl rfl))
    simpa [stmtsOfItem, ltItem, inlineLabelToks, commaToks, ltName, tTab, tNl, LT.toks] using this
  | forward n =>
    have := line_of (labels := []) (name := kwForward) false kc.2.2.2.2.2.2.2.1
      (All2.cons (parsesTo_nameTok ph.2.2.1 n) All2.nil) (Or.inr (Or.inl rfl))
    simpa [stmtsOfItem, ltItem, inlineLabelToks, commaToks, ltName, tTab, tNl, LT.toks] using this
  | bss name len =>
    have hk : (optL name).length ≤ 1 := by cases name <;> simp [optL]
    have := line_of (labels := optL name) (name := kwBss) false (classify_opt _ hk).1
      (All2.cons (parsesTo_intTok (h := .bss) len) All2.nil) (Or.inr (optL_cases name))
    simpa [stmtsOfItem, ltItem, toks_nameColon, commaToks, ltName, ltU64, tTab, tNl, LT.toks] using this
  | ref name item disp =>
    have hk : (optL name).length ≤ 1 := by cases name <;> simp [optL]
    have := line_of (labels := optL name) (name := kwRef) false (classify_opt _ hk).2.1
      (All2.cons (parsesTo_nameTok ph.2.2.2.2.1 item) (All2.cons (parsesTo_intTok (h := .ref) disp) All2.nil))
      (Or.inr (optL_cases name))
    simpa [stmtsOfItem, ltItem, toks_nameColon, commaToks, ltName, ltI64, tCommaSp, tComma, tSp, tTab, tNl, LT.toks]
      using this
  | lref name l1 l2 disp =>
    have hk : (optL name).length ≤ 1 := by cases name <;> simp [optL]
    have hcl := (classify_opt _ hk).2.2.1
    have hL : ∀ l, ParsesTo .lref [.name (printLabel l)] (.name (printLabel l)) :=
      fun l => parsesTo_nameTok ph.2.2.2.2.2.1 _
    cases l2 with
    | none =>
      by_cases hd : disp = 0#64
      · have := line_of (labels := optL name) (name := kwLref) false hcl (All2.cons (hL l1) All2.nil)
          (by rcases optL_cases name with h | h <;> simp [h])
        simpa [stmtsOfItem, ltItem, ltLrefOps, lrefRops, hd, toks_nameColon, commaToks, ltName, ltLabel, tTab, tNl,
          LT.toks] using this
      · have := line_of (labels := optL name) (name := kwLref) false hcl
          (All2.cons (hL l1) (All2.cons (parsesTo_intTok (h := .lref) disp) All2.nil))
          (by rcases optL_cases name with h | h <;> simp [h])
        simpa [stmtsOfItem, ltItem, ltLrefOps, lrefRops, hd, toks_nameColon, commaToks, ltName, ltLabel, ltI64, tCommaSp,
          tComma, tSp, tTab, tNl, LT.toks] using this
    | some l =>
      by_cases hd : disp = 0#64
      · have := line_of (labels := optL name) (name := kwLref) false hcl (All2.cons (hL l1) (All2.cons (hL l) All2.nil))
          (by rcases optL_cases name with h | h <;> simp [h])
        simpa [stmtsOfItem, ltItem, ltLrefOps, lrefRops, hd, toks_nameColon, commaToks, ltName, ltLabel, tCommaSp,
          tComma, tSp, tTab, tNl, LT.toks] using this
      · have := line_of (labels := optL name) (name := kwLref) false hcl
          (All2.cons (hL l1) (All2.cons (hL l) (All2.cons (parsesTo_intTok (h := .lref) disp) All2.nil)))
          (by rcases optL_cases name with h | h <;> simp [h])
        simpa [stmtsOfItem, ltItem, ltLrefOps, lrefRops, hd, toks_nameColon, commaToks, ltName, ltLabel, ltI64, tCommaSp,
          tComma, tSp, tTab, tNl, LT.toks] using this
  | expr name fn =>
    have hk : (optL name).length ≤ 1 := by cases name <;> simp [optL]
    have := line_of (labels := optL name) (name := kwExpr) false (classify_opt _ hk).2.2.2
      (All2.cons (parsesTo_nameTok ph.2.2.2.2.2.2.1 fn) All2.nil) (Or.inr (optL_cases name))
    simpa [stmtsOfItem, ltItem, toks_nameColon, commaToks, ltName, tTab, tNl, LT.toks] using this
  | data name ty els =>
    have hk : (optL name).length ≤ 1 := by cases name <;> simp [optL]
    have hb : ty.isBlk = false := by simpa [pItem] using hp
    have hall : All2 (ParsesTo (.data ty)) (els.map fun v => toks [ltDataEl ty v]) (els.map (dataRop ty)) :=
      All2.map _ _ els (fun v _ => toks_dataEl hb v)
    have := line_of (labels := optL name) (name := typeStr ty) false (classify_data ty _ hk) hall
      (Or.inr (optL_cases name))
    simpa [stmtsOfItem, ltItem, toks_nameColon, toks_commaSep, toks_ltDataEnd, List.map_map, Function.comp_def, ltType,
      ltName, tTab, LT.toks] using this
  | proto name res args va =>
    have := protoLine name kwProto .proto rfl kc.2.2.1 res args va (by simpa [pItem] using hp)
    simpa [stmtsOfItem, ltItem, ltName, tColon, tTab, tNl, LT.toks] using this
  | func f => exact func_lines (by simpa [pItem] using hp)

theorem module_lines {m : Module} (hp : pModule m = true) : StmtLines (stmtsOfModule m) (toks (ltModule m)) := by
  have kc := classify_kws
  have hhead : StmtLines [⟨[m.name], .module, [], false⟩] [.name m.name, .col, .name kwModule, .nl] := by
    have := line_of (labels := [m.name]) (name := kwModule) (h := .module) (pieces := []) (rops := []) false kc.1
      All2.nil (Or.inr (Or.inr ⟨_, rfl⟩))
    simpa [inlineLabelToks, commaToks] using this
  have hitems : StmtLines (m.items.flatMap stmtsOfItem) (m.items.flatMap fun it => toks (ltItem it)) :=
    StmtLines.flatMap (fun it hit => item_lines (List.all_eq_true.mp hp it hit))
  have hend := emptyLine kwEndmodule .endmodule kc.2.1
  have := StmtLines.append (StmtLines.append hhead hitems) hend
  simpa [stmtsOfModule, ltModule, toks_flatMap, ltName, tColon, tTab, tNl, LT.toks, List.append_assoc] using this

/-- **parser round trip** -/
theorem parseStmts_text (ms : List Module) (hp : ms.all pModule = true) :
    parseStmts (toks (ltText ms)) = .ok (stmtsText ms) := by
  have h : StmtLines (ms.flatMap stmtsOfModule) (ms.flatMap fun m => toks (ltModule m)) :=
    StmtLines.flatMap (fun m hm => module_lines (List.all_eq_true.mp hp m hm))
  have := h []
  simp only [List.append_nil, parseStmts_nil] at this
  simpa [ltText, toks_flatMap, stmtsText, Except.map] using this

end TextIO
