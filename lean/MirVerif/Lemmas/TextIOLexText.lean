import MirVerif.Lemmas.TextIOLexRT
import MirVerif.Lemmas.TextIOLexHex
/-! # C10 — every piece the writer model emits for a well-formed module is individually readable and
properly delimited; hence `lexAll (printText ms) = toks (ltText ms)` -/
namespace TextIO

/-! ## simp set for `okLT` / validity over explicit lists -/

@[simp] theorem okLT_nil : okLT [] = true := rfl
@[simp] theorem okLT_word (cs : Str) (t : Tok) (r : List LT) :
    okLT (.word cs t :: r) = (startsDelim r && okLT r) := rfl
@[simp] theorem okLT_lit (cs : Str) (t : Tok) (r : List LT) : okLT (.lit cs t :: r) = okLT r := rfl
@[simp] theorem okLT_p (c : Char) (t : Tok) (r : List LT) : okLT (.p c t :: r) = okLT r := rfl
@[simp] theorem okLT_blank (c : Char) (r : List LT) : okLT (.blank c :: r) = (!r.isEmpty && okLT r) := rfl
@[simp] theorem okLT_comment (b : Str) (r : List LT) : okLT (.comment b :: r) = okLT r := rfl
@[simp] theorem startsDelim_nil : startsDelim [] = false := rfl
@[simp] theorem startsDelim_cons (e : LT) (r : List LT) : startsDelim (e :: r) = e.isDelimStart := rfl

@[simp] theorem isDelimStart_tComma : tComma.isDelimStart = true := by decide
@[simp] theorem isDelimStart_tColon : tColon.isDelimStart = true := by decide
@[simp] theorem isDelimStart_tLpar : tLpar.isDelimStart = true := by decide
@[simp] theorem isDelimStart_tRpar : tRpar.isDelimStart = true := by decide
@[simp] theorem isDelimStart_tNl : tNl.isDelimStart = true := by decide
@[simp] theorem isDelimStart_tTab : tTab.isDelimStart = true := by decide
@[simp] theorem isDelimStart_tSp : tSp.isDelimStart = true := by decide

/-- fragment that may end in a word: fine before anything that starts with a delimiter -/
def OkD (a : List LT) : Prop := ∀ b, startsDelim b = true → okLT b = true → okLT (a ++ b) = true
/-- fragment that ends in punctuation -/
def OkC (a : List LT) : Prop := ∀ b, okLT b = true → okLT (a ++ b) = true

theorem OkC.toD {a : List LT} (h : OkC a) : OkD a := fun b _ hb => h b hb

theorem OkC.append {a b : List LT} (ha : OkC a) (hb : OkC b) : OkC (a ++ b) := by
  intro c hc; rw [List.append_assoc]; exact ha _ (hb c hc)

theorem OkC.appendD {a b : List LT} (ha : OkC a) (hb : OkD b) : OkD (a ++ b) := by
  intro c hs hc; rw [List.append_assoc]; exact ha _ (hb c hs hc)

theorem startsDelim_append {a : List LT} (h : startsDelim a = true) (b : List LT) :
    startsDelim (a ++ b) = true := by
  cases a with
  | nil => simp at h
  | cons e r => simpa using h

/-- word-ended fragment followed by a delimiter-started closed fragment -/
theorem OkD.appendC {a b : List LT} (ha : OkD a) (hs : startsDelim b = true) (hb : OkC b) : OkC (a ++ b) := by
  intro c hc; rw [List.append_assoc]; exact ha _ (startsDelim_append hs c) (hb c hc)

theorem OkD.appendD {a b : List LT} (ha : OkD a) (hs : startsDelim b = true) (hb : OkD b) : OkD (a ++ b) := by
  intro c hsc hc; rw [List.append_assoc]; exact ha _ (startsDelim_append hs c) (hb c hsc hc)

theorem OkC.nil : OkC [] := fun _ h => h
theorem OkD.nil : OkD [] := fun _ _ h => h

theorem OkD.word (cs : Str) (t : Tok) : OkD [.word cs t] := by
  intro b hs hb; simp [hs, hb]

theorem OkC.p (c : Char) (t : Tok) : OkC [.p c t] := by
  intro b hb; simpa using hb

theorem OkC.lit (cs : Str) (t : Tok) : OkC [.lit cs t] := by
  intro b hb; simpa using hb

theorem OkC.comment (body : Str) : OkC [.comment body] := by
  intro b hb; simpa using hb

/-- a blank needs something after it; every use has a word or punctuation right behind -/
theorem OkD.blank_cons {c : Char} {a : List LT} (hne : a ≠ []) (ha : OkD a) : OkD (.blank c :: a) := by
  intro b hs hb
  have := ha b hs hb
  cases a with
  | nil => exact absurd rfl hne
  | cons e r => simp at this ⊢; exact this

theorem OkC.blank_cons {c : Char} {a : List LT} (hne : a ≠ []) (ha : OkC a) : OkC (.blank c :: a) := by
  intro b hb
  have := ha b hb
  cases a with
  | nil => exact absurd rfl hne
  | cons e r => simp at this ⊢; exact this

theorem OkC.word_cons {cs : Str} {t : Tok} {a : List LT} (hs : startsDelim a = true) (ha : OkC a) :
    OkC (.word cs t :: a) := by
  intro b hb
  have h1 := ha b hb
  have h2 := startsDelim_append hs b
  simp [h1, h2]

theorem OkD.word_cons {cs : Str} {t : Tok} {a : List LT} (hs : startsDelim a = true) (ha : OkD a) :
    OkD (.word cs t :: a) := by
  intro b hsb hb
  have h1 := ha b hsb hb
  have h2 := startsDelim_append hs b
  simp [h1, h2]

theorem OkC.p_cons {c : Char} {t : Tok} {a : List LT} (ha : OkC a) : OkC (.p c t :: a) := by
  intro b hb; simpa using ha b hb

theorem OkD.p_cons {c : Char} {t : Tok} {a : List LT} (ha : OkD a) : OkD (.p c t :: a) := by
  intro b hs hb; simpa using ha b hs hb

theorem OkC.okLT {a : List LT} (h : OkC a) : okLT a = true := by
  simpa using h [] rfl

/-! ## validity of the individual pieces -/

def AllValid (l : List LT) : Prop := ∀ e ∈ l, ValidLT e

theorem AllValid.nil : AllValid [] := by intro e h; simp at h
theorem AllValid.cons {e : LT} {l : List LT} (he : ValidLT e) (hl : AllValid l) : AllValid (e :: l) := by
  intro x hx; simp only [List.mem_cons] at hx; rcases hx with h | h
  · subst h; exact he
  · exact hl x h
theorem AllValid.append {a b : List LT} (ha : AllValid a) (hb : AllValid b) : AllValid (a ++ b) := by
  intro x hx; simp only [List.mem_append] at hx; rcases hx with h | h
  · exact ha x h
  · exact hb x h
theorem AllValid.flatMap {α} {f : α → List LT} {l : List α} (h : ∀ x ∈ l, AllValid (f x)) :
    AllValid (l.flatMap f) := by
  intro e he; simp only [List.mem_flatMap] at he
  obtain ⟨x, hx, hex⟩ := he
  exact h x hx e hex

theorem valid_p {c : Char} {t : Tok} (hc : ∀ rest, lexOne (c :: rest) = .ok (t, rest)) (ht : t ≠ .eof)
    (h0 : c.toNat ≠ 0) : ValidLT (.p c t) := ⟨hc, ht, h0⟩

theorem valid_tComma : ValidLT tComma := valid_p (fun r => by simp [lexOne, show charClass ',' = .comma by decide]) (by decide) (by decide)
theorem valid_tColon : ValidLT tColon := valid_p (fun r => by simp [lexOne, show charClass ':' = .col by decide]) (by decide) (by decide)
theorem valid_tLpar : ValidLT tLpar := valid_p (fun r => by simp [lexOne, show charClass '(' = .lpar by decide]) (by decide) (by decide)
theorem valid_tRpar : ValidLT tRpar := valid_p (fun r => by simp [lexOne, show charClass ')' = .rpar by decide]) (by decide) (by decide)
theorem valid_tNl : ValidLT tNl := valid_p (fun r => by simp [lexOne, show charClass '\n' = .nl by decide]) (by decide) (by decide)
theorem valid_tTab : ValidLT tTab := by show charClass '\t' = .blank; decide
theorem valid_tSp : ValidLT tSp := by show charClass ' ' = .blank; decide

theorem nameOK_startOK {n : Str} (h : nameOK n = true) : startOK n := by
  cases n with
  | nil => simp [nameOK] at h
  | cons c cs =>
    simp only [nameOK, Bool.and_eq_true] at h
    have := isNameChar_iff.mp h.1
    simp only [startOK]; omega

theorem valid_name {n : Str} (h : nameOK n = true) : ValidLT (ltName n) :=
  ⟨wordOK_name h, by simp, nameOK_startOK h⟩

theorem natDec_startOK (n : Nat) : startOK (natDec n) := by
  obtain ⟨c, t, hc, _, hd⟩ := natDec_head n
  rw [hc]; have := isDigit_iff.mp hd; simp only [startOK]; omega

theorem valid_nat {n : Nat} (h : n < 2 ^ 64) : ValidLT (ltNat n) :=
  ⟨wordOK_nat h, by simp, natDec_startOK n⟩

theorem printI64_startOK (v : BitVec 64) : startOK (printI64 v) := by
  unfold printI64; split
  · exact natDec_startOK _
  · simp [startOK]

theorem valid_i64 (v : BitVec 64) : ValidLT (ltI64 v) := ⟨wordOK_i64 v, by simp, printI64_startOK v⟩
theorem valid_u64 (v : BitVec 64) : ValidLT (ltU64 v) := ⟨wordOK_u64 v, by simp, natDec_startOK _⟩

theorem valid_str {s : Str} (h : ∀ c ∈ s, c.toNat < 256) : ValidLT (ltStr s) :=
  ⟨fun rest => lexOne_printStr s h rest, by simp, by simp [printStr, startOK]⟩

theorem sciShape_startOK {s : Str} (h : sciShape s = true) (suf : Str) : startOK (s ++ suf) := by
  obtain ⟨p, hp, rfl⟩ := sciShape_parts h
  have := isDigit_iff.mp hp.hd
  cases hn : p.neg <;> simp [SciParts.str, SciParts.sign, SciParts.body, hn, startOK] <;> omega

theorem valid_flt {b : BitVec 32} (h : floatRT fmtF b.toNat = true) : ValidLT (ltFlt b) := by
  obtain ⟨s, h1, h2, _⟩ := floatRT_parts h
  refine ⟨wordOK_flt h, by simp, ?_⟩
  simpa [printFlt, printFloatLit, h1] using sciShape_startOK h2 ['f']

theorem valid_dbl {b : BitVec 64} (h : floatRT fmtD b.toNat = true) : ValidLT (ltDbl b) := by
  obtain ⟨s, h1, h2, _⟩ := floatRT_parts h
  refine ⟨wordOK_dbl h, by simp, ?_⟩
  simpa [printDbl, printFloatLit, h1] using sciShape_startOK h2 []

theorem valid_ldbl {b : BitVec 80} (h : floatRT fmtLD b.toNat = true) : ValidLT (ltLdbl b) := by
  obtain ⟨s, h1, h2, _⟩ := floatRT_parts h
  refine ⟨wordOK_ldbl h, by simp, ?_⟩
  simpa [printLdbl, printFloatLit, h1] using sciShape_startOK h2 ['L']

/-! ## names the writer prints by itself -/

theorem nameOK_typeStr (t : Ty) : nameOK (typeStr t) = true := by cases t <;> decide

theorem isNameChar_digit {c : Char} (h : isDigit c = true) : isNameChar c false = true := by
  have := isDigit_iff.mp h
  exact isNameChar_iff.mpr (Or.inr (Or.inr (Or.inr (Or.inr (Or.inr (Or.inr ⟨rfl, this.1, this.2⟩))))))

theorem nameOK_printLabel (l : Nat) : nameOK (printLabel l) = true := by
  simp only [printLabel, nameOK, Bool.and_eq_true, List.all_eq_true]
  exact ⟨by decide, fun c hc => isNameChar_digit (natDec_all_digits l c hc)⟩

theorem nameOK_insnName_all :
    (List.range insnTable.length).all (fun c => c == opINVALIDINSN || nameOK (insnName c)) = true := by
  decide +kernel

theorem nameOK_insnName {c : Nat} (h : c < insnTable.length) (hn : c ≠ opINVALIDINSN) :
    nameOK (insnName c) = true := by
  have := List.all_eq_true.mp nameOK_insnName_all c (List.mem_range.mpr h)
  simpa [hn] using this

theorem nameOK_kw : nameOK kwModule = true ∧ nameOK kwEndmodule = true ∧ nameOK kwProto = true ∧ nameOK kwFunc = true
    ∧ nameOK kwEndfunc = true ∧ nameOK kwExport = true ∧ nameOK kwImport = true ∧ nameOK kwForward = true
    ∧ nameOK kwBss = true ∧ nameOK kwRef = true ∧ nameOK kwLref = true ∧ nameOK kwExpr = true
    ∧ nameOK kwLocal = true ∧ nameOK kwGlobal = true ∧ nameOK kwDots = true := by decide


/-! ## lexical well-formedness of the syntax (what the token scanner needs; implied by `WF`) -/

def lexMem (m : Mem) : Bool := optNameOK m.base && optNameOK m.index && optNameOK m.alias && optNameOK m.nonalias

def lexOp : Op → Bool
  | .reg n => nameOK n
  | .ref n => nameOK n
  | .flt b => floatRT fmtF b.toNat
  | .dbl b => floatRT fmtD b.toNat
  | .ldbl b => floatRT fmtLD b.toNat
  | .mem m => lexMem m
  | .str s => s.all (·.toNat < 256)
  | _ => true

def lexFItem : FItem → Bool
  | .insn c ops => decide (c < insnTable.length) && decide (c ≠ opINVALIDINSN) && ops.all lexOp
  | .label _ => true

def lexVar (v : Var) : Bool := nameOK v.name && (!v.ty.isBlk || decide (v.size < 2 ^ 64))

def lexFunc (f : Func) : Bool :=
  nameOK f.name && f.args.all lexVar && f.locals.all (fun v => nameOK v.2)
  && f.globals.all (fun v => nameOK v.2.1 && nameOK v.2.2) && f.body.all lexFItem

def lexDataEl (t : Ty) (v : Nat) : Bool :=
  match t with
  | .f => floatRT fmtF (v % 2 ^ 32)
  | .d => floatRT fmtD (v % 2 ^ 64)
  | .ld => floatRT fmtLD (v % 2 ^ 80)
  | .blk0 | .blk1 | .blk2 | .blk3 | .blk4 | .rblk => false
  | _ => true

def lexItem : Item → Bool
  | .export n | .import n | .forward n => nameOK n
  | .bss n _ => optNameOK n
  | .data n t els => optNameOK n && els.all (lexDataEl t)
  | .ref n r _ => optNameOK n && nameOK r
  | .lref n _ _ _ => optNameOK n
  | .expr n f => optNameOK n && nameOK f
  | .proto n _ args _ => nameOK n && args.all lexVar
  | .func f => lexFunc f

def lexModule (m : Module) : Bool := nameOK m.name && m.items.all lexItem

/-! ## `OkD`/`OkC` and validity of each printer -/

theorem okD_ltMem (m : Mem) : OkD (ltMem m) := by
  intro b hs hb
  obtain ⟨ty, disp, base, index, scale, al, nal⟩ := m
  cases base <;> cases index <;> cases al <;> cases nal <;>
    simp only [ltMem, ltOptName, tCommaSp, ltName, ltType, ltI64, ltNat, tColon, tLpar, tRpar, tComma, tSp] <;>
    repeat' split
  all_goals simp_all [LT.isDelimStart, isDelim]

theorem valid_type (t : Ty) : ValidLT (ltType t) := valid_name (nameOK_typeStr t)

theorem allValid_optName {n : Option Str} (h : optNameOK n = true) : AllValid (ltOptName n) := by
  cases n with
  | none => exact AllValid.nil
  | some x => exact AllValid.cons (valid_name h) AllValid.nil

theorem allValid_ltMem {m : Mem} (h : lexMem m = true) : AllValid (ltMem m) := by
  simp only [lexMem, Bool.and_eq_true] at h
  obtain ⟨⟨⟨hb, hi⟩, ha⟩, hn⟩ := h
  unfold ltMem
  refine AllValid.append (AllValid.append (AllValid.append ?_ ?_) ?_) ?_
  · exact AllValid.cons (valid_type _) (AllValid.cons valid_tColon AllValid.nil)
  · split
    · exact AllValid.cons (valid_i64 _) AllValid.nil
    · exact AllValid.nil
  · split
    · refine AllValid.append (AllValid.append (AllValid.append (AllValid.cons valid_tLpar AllValid.nil)
        (allValid_optName hb)) ?_) (AllValid.cons valid_tRpar AllValid.nil)
      split
      · rename_i i hidx
        rw [hidx] at hi
        refine AllValid.append (AllValid.append (AllValid.cons valid_tComma (AllValid.cons valid_tSp AllValid.nil))
          (AllValid.cons (valid_name hi) AllValid.nil)) ?_
        split
        · exact AllValid.append (AllValid.cons valid_tComma (AllValid.cons valid_tSp AllValid.nil))
            (AllValid.cons (valid_nat (by have := m.scale.isLt; omega)) AllValid.nil)
        · exact AllValid.nil
      · exact AllValid.nil
    · exact AllValid.nil
  · split
    · refine AllValid.append (AllValid.append (AllValid.cons valid_tColon AllValid.nil) (allValid_optName ha)) ?_
      split
      · rename_i n hnal
        rw [hnal] at hn
        exact AllValid.cons valid_tColon (AllValid.cons (valid_name hn) AllValid.nil)
      · exact AllValid.nil
    · exact AllValid.nil

theorem okD_ltOp (o : Op) : OkD (ltOp o) := by
  cases o with
  | mem m => exact okD_ltMem m
  | str s => exact (OkC.lit _ _).toD
  | _ => exact OkD.word _ _

theorem ltOp_ne_nil (o : Op) : ltOp o ≠ [] := by
  cases o with
  | mem m => simp [ltOp, ltMem]
  | _ => simp [ltOp]

theorem allValid_ltOp {o : Op} (h : lexOp o = true) : AllValid (ltOp o) := by
  cases o with
  | reg n => exact AllValid.cons (valid_name h) AllValid.nil
  | ref n => exact AllValid.cons (valid_name h) AllValid.nil
  | int v => exact AllValid.cons (valid_i64 v) AllValid.nil
  | uint v => exact AllValid.cons (valid_u64 v) AllValid.nil
  | flt b => exact AllValid.cons (valid_flt h) AllValid.nil
  | dbl b => exact AllValid.cons (valid_dbl h) AllValid.nil
  | ldbl b => exact AllValid.cons (valid_ldbl h) AllValid.nil
  | mem m => exact allValid_ltMem h
  | str s => exact AllValid.cons (valid_str (by simpa [lexOp] using h)) AllValid.nil
  | label l => exact AllValid.cons (valid_name (nameOK_printLabel l)) AllValid.nil

/-- comma separated non-empty word-ended pieces -/
theorem okD_commaSep {l : List (List LT)} (hd : ∀ x ∈ l, OkD x) (hne : ∀ x ∈ l, x ≠ []) : OkD (ltCommaSep l) := by
  induction l with
  | nil => exact OkD.nil
  | cons x xs ih =>
    cases xs with
    | nil => simpa [ltCommaSep] using hd x (List.mem_cons_self)
    | cons y ys =>
      have ihh := ih (fun z hz => hd z (List.mem_cons_of_mem _ hz)) (fun z hz => hne z (List.mem_cons_of_mem _ hz))
      have hyne : ltCommaSep (y :: ys) ≠ [] := by
        have := hne y (List.mem_cons_of_mem _ (List.mem_cons_self))
        cases ys <;> simp [ltCommaSep, this]
      have h1 : OkD (tComma :: tSp :: ltCommaSep (y :: ys)) := OkD.p_cons (OkD.blank_cons hyne ihh)
      have := OkD.appendD (hd x (List.mem_cons_self)) (by simp) h1
      simpa [ltCommaSep, tCommaSp] using this

theorem commaSep_ne_nil {l : List (List LT)} (hl : l ≠ []) (hne : ∀ x ∈ l, x ≠ []) : ltCommaSep l ≠ [] := by
  cases l with
  | nil => exact absurd rfl hl
  | cons x xs =>
    have := hne x (List.mem_cons_self)
    cases xs <;> simp [ltCommaSep, this]

theorem allValid_commaSep {l : List (List LT)} (h : ∀ x ∈ l, AllValid x) : AllValid (ltCommaSep l) := by
  induction l with
  | nil => exact AllValid.nil
  | cons x xs ih =>
    cases xs with
    | nil => simpa [ltCommaSep] using h x (List.mem_cons_self)
    | cons y ys =>
      have ihh := ih (fun z hz => h z (List.mem_cons_of_mem _ hz))
      simp only [ltCommaSep, tCommaSp]
      exact AllValid.append (AllValid.append (h x (List.mem_cons_self))
        (AllValid.cons valid_tComma (AllValid.cons valid_tSp AllValid.nil))) ihh

theorem okD_ltOps (ops : List Op) : OkD (ltOps ops) := by
  cases ops with
  | nil => exact OkD.nil
  | cons o os =>
    have hne : ∀ x ∈ (o :: os).map ltOp, x ≠ [] := by
      intro x hx; simp only [List.mem_map] at hx; obtain ⟨y, _, rfl⟩ := hx; exact ltOp_ne_nil y
    have hd : ∀ x ∈ (o :: os).map ltOp, OkD x := by
      intro x hx; simp only [List.mem_map] at hx; obtain ⟨y, _, rfl⟩ := hx; exact okD_ltOp y
    exact OkD.blank_cons (commaSep_ne_nil (by simp) hne) (okD_commaSep hd hne)

theorem allValid_ltOps {ops : List Op} (h : ops.all lexOp = true) : AllValid (ltOps ops) := by
  cases ops with
  | nil => exact AllValid.nil
  | cons o os =>
    refine AllValid.cons valid_tTab (allValid_commaSep ?_)
    intro x hx; simp only [List.mem_map] at hx; obtain ⟨y, hy, rfl⟩ := hx
    exact allValid_ltOp (List.all_eq_true.mp h y hy)

theorem okC_ltFItem (i : FItem) : OkC (ltFItem i) := by
  cases i with
  | label l => exact OkC.word_cons (by simp) (OkC.p_cons (OkC.p _ _))
  | insn c ops =>
    have h1 : OkC (ltOps ops ++ [tNl]) := OkD.appendC (okD_ltOps ops) (by simp) (OkC.p _ _)
    have h2 : startsDelim (ltOps ops ++ [tNl]) = true := by
      cases ops <;> simp [ltOps]
    have : OkC (tTab :: ltName (insnName c) :: (ltOps ops ++ [tNl])) :=
      OkC.blank_cons (by simp) (OkC.word_cons h2 h1)
    simpa [ltFItem] using this

theorem allValid_ltFItem {i : FItem} (h : lexFItem i = true) : AllValid (ltFItem i) := by
  cases i with
  | label l => exact AllValid.cons (valid_name (nameOK_printLabel l)) (AllValid.cons valid_tColon (AllValid.cons valid_tNl AllValid.nil))
  | insn c ops =>
    simp only [lexFItem, Bool.and_eq_true, decide_eq_true_eq] at h
    obtain ⟨⟨h1, h2⟩, h3⟩ := h
    simp only [ltFItem]
    exact AllValid.append (AllValid.append (AllValid.cons valid_tTab (AllValid.cons (valid_name (nameOK_insnName h1 h2)) AllValid.nil))
      (allValid_ltOps h3)) (AllValid.cons valid_tNl AllValid.nil)

theorem okD_ltVar (v : Var) : OkD (ltVar v) := by
  intro b hs hb
  unfold ltVar
  split <;> simp_all [ltType, ltName, ltNat, tColon, tLpar, tRpar, LT.isDelimStart, isDelim]

theorem ltVar_ne_nil (v : Var) : ltVar v ≠ [] := by
  unfold ltVar; split <;> simp

theorem allValid_ltVar {v : Var} (h : lexVar v = true) : AllValid (ltVar v) := by
  simp only [lexVar, Bool.and_eq_true, Bool.or_eq_true, Bool.not_eq_true', decide_eq_true_eq] at h
  unfold ltVar
  split
  · rename_i hb
    have hsz : v.size < 2 ^ 64 := by
      rcases h.2 with h2 | h2
      · rw [hb] at h2; cases h2
      · exact h2
    exact AllValid.cons (valid_type _) (AllValid.cons valid_tColon (AllValid.cons (valid_nat hsz)
      (AllValid.cons valid_tLpar (AllValid.cons (valid_name h.1) (AllValid.cons valid_tRpar AllValid.nil)))))
  · exact AllValid.cons (valid_type _) (AllValid.cons valid_tColon (AllValid.cons (valid_name h.1) AllValid.nil))

theorem okD_ltProtoBody (res : List Ty) (args : List Var) (va : Bool) : OkD (ltProtoBody res args va) := by
  have hne : ∀ x ∈ res.map (fun t => [ltType t]) ++ args.map ltVar, x ≠ [] := by
    intro x hx
    simp only [List.mem_append, List.mem_map] at hx
    rcases hx with ⟨t, _, rfl⟩ | ⟨v, _, rfl⟩
    · simp
    · exact ltVar_ne_nil v
  have hd : ∀ x ∈ res.map (fun t => [ltType t]) ++ args.map ltVar, OkD x := by
    intro x hx
    simp only [List.mem_append, List.mem_map] at hx
    rcases hx with ⟨t, _, rfl⟩ | ⟨v, _, rfl⟩
    · exact OkD.word _ _
    · exact okD_ltVar v
  have hsep := okD_commaSep hd hne
  unfold ltProtoBody
  split
  · split
    · rename_i h
      have : res.map (fun t => [ltType t]) ++ args.map ltVar = [] := by
        obtain ⟨ha, hr⟩ := h
        simp only [List.isEmpty_iff] at ha hr
        simp [ha, hr]
      rw [this]
      simpa [ltCommaSep, ltName] using OkD.word kwDots (.name kwDots)
    · have h2 : OkD (tCommaSp ++ [ltName kwDots]) :=
        OkD.p_cons (OkD.blank_cons (by simp) (OkD.word _ _))
      exact OkD.appendD hsep (by simp [tCommaSp]) h2
  · simpa using hsep

theorem allValid_ltProtoBody {res : List Ty} {args : List Var} (va : Bool) (h : args.all lexVar = true) :
    AllValid (ltProtoBody res args va) := by
  have hv : ∀ x ∈ res.map (fun t => [ltType t]) ++ args.map ltVar, AllValid x := by
    intro x hx
    simp only [List.mem_append, List.mem_map] at hx
    rcases hx with ⟨t, _, rfl⟩ | ⟨v, hv, rfl⟩
    · exact AllValid.cons (valid_type t) AllValid.nil
    · exact allValid_ltVar (List.all_eq_true.mp h v hv)
  unfold ltProtoBody
  refine AllValid.append (allValid_commaSep hv) ?_
  split
  · split
    · exact AllValid.cons (valid_name nameOK_kw.2.2.2.2.2.2.2.2.2.2.2.2.2.2) AllValid.nil
    · exact AllValid.cons valid_tComma (AllValid.cons valid_tSp
        (AllValid.cons (valid_name nameOK_kw.2.2.2.2.2.2.2.2.2.2.2.2.2.2) AllValid.nil))
  · exact AllValid.nil


theorem okC_flatMap {α} {f : α → List LT} {l : List α} (h : ∀ x ∈ l, OkC (f x)) : OkC (l.flatMap f) := by
  induction l with
  | nil => exact OkC.nil
  | cons x xs ih =>
    simp only [List.flatMap_cons]
    exact OkC.append (h x (List.mem_cons_self)) (ih (fun y hy => h y (List.mem_cons_of_mem _ hy)))

theorem chunk8_mem {α} (n : Nat) (l : List α) : ∀ line ∈ chunk8 n l, ∀ x ∈ line, x ∈ l := by
  induction n generalizing l with
  | zero =>
    cases l with
    | nil => simp [chunk8]
    | cons a as => simp [chunk8]
  | succ k ih =>
    cases l with
    | nil => simp [chunk8]
    | cons a as =>
      intro line hl x hx
      simp only [chunk8] at hl
      split at hl
      · simp only [List.mem_singleton] at hl; subst hl; exact hx
      · simp only [List.mem_cons] at hl
        rcases hl with hl | hl
        · subst hl; exact List.mem_of_mem_take hx
        · exact List.mem_of_mem_drop (ih _ line hl x hx)

theorem okC_varLine (kw : Str) {line : List (List LT)} (hd : ∀ x ∈ line, OkD x) (hne : ∀ x ∈ line, x ≠ []) :
    OkC ([tTab, ltName kw, tTab] ++ ltCommaSep line ++ [tNl]) := by
  have h1 : OkC (ltCommaSep line ++ [tNl]) := OkD.appendC (okD_commaSep hd hne) (by simp) (OkC.p _ _)
  have h2 : OkC (tTab :: (ltCommaSep line ++ [tNl])) := OkC.blank_cons (by simp) h1
  have h3 : OkC (tTab :: ltName kw :: tTab :: (ltCommaSep line ++ [tNl])) :=
    OkC.blank_cons (by simp) (OkC.word_cons (by simp) h2)
  simpa using h3

theorem okC_ltVarLines (kw : Str) {vars : List (List LT)} (hd : ∀ x ∈ vars, OkD x) (hne : ∀ x ∈ vars, x ≠ []) :
    OkC (ltVarLines kw vars) := by
  unfold ltVarLines
  apply okC_flatMap
  intro line hl
  exact okC_varLine kw (fun x hx => hd x (chunk8_mem _ _ line hl x hx)) (fun x hx => hne x (chunk8_mem _ _ line hl x hx))

theorem allValid_ltVarLines {kw : Str} (hk : nameOK kw = true) {vars : List (List LT)} (hv : ∀ x ∈ vars, AllValid x) :
    AllValid (ltVarLines kw vars) := by
  unfold ltVarLines
  apply AllValid.flatMap
  intro line hl
  exact AllValid.append (AllValid.append (AllValid.cons valid_tTab (AllValid.cons (valid_name hk) (AllValid.cons valid_tTab AllValid.nil)))
    (allValid_commaSep (fun x hx => hv x (chunk8_mem _ _ line hl x hx)))) (AllValid.cons valid_tNl AllValid.nil)

theorem okD_ltLocal (v : Ty × Str) : OkD (ltLocal v) := by
  intro b hs hb; simp_all [ltLocal, ltType, ltName, tColon, LT.isDelimStart, isDelim]

theorem okD_ltGlobal (v : Ty × Str × Str) : OkD (ltGlobal v) := by
  intro b hs hb; simp_all [ltGlobal, ltType, ltName, tColon, LT.isDelimStart, isDelim]

/-- characters allowed inside a `#` comment -/
def CB (l : List Char) : Prop := ∀ c ∈ l, c.toNat ≠ 10 ∧ c.toNat ≠ 0 ∧ c.toNat ≠ 255

theorem CB.append {a b : List Char} (ha : CB a) (hb : CB b) : CB (a ++ b) := by
  intro c hc; simp only [List.mem_append] at hc; rcases hc with h | h
  · exact ha c h
  · exact hb c h

theorem CB.natDec (n : Nat) : CB (natDec n) := by
  intro c hc
  have := isDigit_iff.mp (natDec_all_digits n c hc)
  omega

theorem CB.plural (n : Nat) : CB (plural n) := by
  intro c hc
  unfold TextIO.plural at hc
  split at hc
  · simp at hc
  · simp only [List.mem_singleton] at hc; subst hc; decide

theorem funcCommentBody_ok (f : Func) : CB (funcCommentBody f) := by
  unfold funcCommentBody
  repeat' apply CB.append
  all_goals first
    | exact CB.natDec _
    | exact CB.plural _
    | (intro c hc; simp only [List.mem_cons, List.not_mem_nil, or_false] at hc
       rcases hc with h | h | h | h | h | h | h <;> subst h <;> decide)
    | (intro c hc; simp only [List.mem_cons, List.not_mem_nil, or_false] at hc
       rcases hc with h | h | h | h | h | h <;> subst h <;> decide)
    | (intro c hc; simp only [List.mem_cons, List.not_mem_nil, or_false] at hc
       rcases hc with h | h | h | h <;> subst h <;> decide)
    | (intro c hc; simp only [List.mem_cons, List.not_mem_nil, or_false] at hc
       rcases hc with h | h <;> subst h <;> decide)
    | (intro c hc; simp only [List.mem_cons, List.not_mem_nil, or_false] at hc; subst hc; decide)

theorem printStrChar_printable (c : Char) : ∀ x ∈ printStrChar c, 32 ≤ x.toNat ∧ x.toNat ≤ 126 := by
  intro x hx
  unfold printStrChar at hx
  have ho : ∀ n, 32 ≤ (octDigit n).toNat ∧ (octDigit n).toNat ≤ 126 := by
    intro n; rw [octDigit_toNat]; omega
  repeat' split at hx
  all_goals simp only [List.mem_cons, List.mem_singleton, List.not_mem_nil, or_false] at hx
  all_goals first
    | (rcases hx with hx | hx <;> subst hx <;> decide)
    | (subst hx; rename_i hp; simpa [isPrint] using hp)
    | (rcases hx with hx | hx | hx | hx <;> subst hx <;> first | decide | exact ho _)

theorem printStr_ok (s : Str) : CB (printStr s) := by
  intro c hc
  simp only [printStr, List.mem_cons, List.mem_append, List.mem_flatMap, List.not_mem_nil, or_false] at hc
  rcases hc with (hc | ⟨y, _, hy⟩) | hc
  · subst hc; decide
  · have := printStrChar_printable y c hy; omega
  · subst hc; decide

theorem okC_ltFunc (f : Func) : OkC (ltFunc f) := by
  have hbody : OkC (f.body.flatMap ltFItem) := okC_flatMap (fun i _ => okC_ltFItem i)
  have hloc : OkC (ltVarLines kwLocal (f.locals.map ltLocal)) := by
    apply okC_ltVarLines
    · intro x hx; simp only [List.mem_map] at hx; obtain ⟨v, _, rfl⟩ := hx; exact okD_ltLocal v
    · intro x hx; simp only [List.mem_map] at hx; obtain ⟨v, _, rfl⟩ := hx; simp [ltLocal]
  have hglob : OkC (ltVarLines kwGlobal (f.globals.map ltGlobal)) := by
    apply okC_ltVarLines
    · intro x hx; simp only [List.mem_map] at hx; obtain ⟨v, _, rfl⟩ := hx; exact okD_ltGlobal v
    · intro x hx; simp only [List.mem_map] at hx; obtain ⟨v, _, rfl⟩ := hx; simp [ltGlobal]
  have hend : OkC [tTab, ltName kwEndfunc, tNl] :=
    OkC.blank_cons (by simp) (OkC.word_cons (by simp) (OkC.p _ _))
  have hcom : OkC [tNl, .comment (funcCommentBody f)] := OkC.p_cons (OkC.comment _)
  have hproto : OkC (ltProtoBody f.res f.args f.vararg ++ [tNl]) :=
    OkD.appendC (okD_ltProtoBody _ _ _) (by simp) (OkC.p _ _)
  have hhead : OkC ([ltName f.name, tColon, tTab, ltName kwFunc, tTab] ++ (ltProtoBody f.res f.args f.vararg ++ [tNl])) := by
    have : OkC (ltName f.name :: tColon :: tTab :: ltName kwFunc :: tTab :: (ltProtoBody f.res f.args f.vararg ++ [tNl])) :=
      OkC.word_cons (by simp) (OkC.p_cons (OkC.blank_cons (by simp)
        (OkC.word_cons (by simp) (OkC.blank_cons (by simp) hproto))))
    simpa using this
  have := OkC.append (OkC.append (OkC.append (OkC.append (OkC.append hhead hloc) hglob) hcom) hbody) hend
  simpa [ltFunc, List.append_assoc] using this

theorem allValid_ltFunc {f : Func} (h : lexFunc f = true) : AllValid (ltFunc f) := by
  simp only [lexFunc, Bool.and_eq_true] at h
  obtain ⟨⟨⟨⟨hn, ha⟩, hl⟩, hg⟩, hb⟩ := h
  have kw := nameOK_kw
  unfold ltFunc
  refine AllValid.append (AllValid.append (AllValid.append (AllValid.append (AllValid.append (AllValid.append (AllValid.append ?_ ?_) ?_) ?_) ?_) ?_) ?_) ?_
  · exact AllValid.cons (valid_name hn) (AllValid.cons valid_tColon (AllValid.cons valid_tTab
      (AllValid.cons (valid_name kw.2.2.2.1) (AllValid.cons valid_tTab AllValid.nil))))
  · exact allValid_ltProtoBody _ ha
  · exact AllValid.cons valid_tNl AllValid.nil
  · apply allValid_ltVarLines kw.2.2.2.2.2.2.2.2.2.2.2.2.1
    intro x hx; simp only [List.mem_map] at hx; obtain ⟨v, hv, rfl⟩ := hx
    have := List.all_eq_true.mp hl v hv
    exact AllValid.cons (valid_type _) (AllValid.cons valid_tColon (AllValid.cons (valid_name this) AllValid.nil))
  · apply allValid_ltVarLines kw.2.2.2.2.2.2.2.2.2.2.2.2.2.1
    intro x hx; simp only [List.mem_map] at hx; obtain ⟨v, hv, rfl⟩ := hx
    have := List.all_eq_true.mp hg v hv
    simp only [Bool.and_eq_true] at this
    exact AllValid.cons (valid_type _) (AllValid.cons valid_tColon (AllValid.cons (valid_name this.1)
      (AllValid.cons valid_tColon (AllValid.cons (valid_name this.2) AllValid.nil))))
  · exact AllValid.cons valid_tNl (AllValid.cons (funcCommentBody_ok f) AllValid.nil)
  · exact AllValid.flatMap (fun i hi => allValid_ltFItem (List.all_eq_true.mp hb i hi))
  · exact AllValid.cons valid_tTab (AllValid.cons (valid_name kw.2.2.2.2.1) (AllValid.cons valid_tNl AllValid.nil))

theorem valid_signedBits {w : Nat} (hw1 : 1 ≤ w) (hw : w ≤ 64) (v : Nat) :
    ValidLT (.word (printSignedBits w v) (.int (sextBits w v))) := by
  refine ⟨wordOK_signedBits hw1 hw v, by simp, ?_⟩
  unfold printSignedBits
  simp only
  split
  · exact natDec_startOK _
  · simp [startOK]

theorem valid_ltDataEl {t : Ty} {v : Nat} (h : lexDataEl t v = true) : ValidLT (ltDataEl t v) := by
  have hm : ∀ k, v % 2 ^ k < 2 ^ k := fun k => Nat.mod_lt _ (Nat.two_pow_pos k)
  cases t <;> simp only [lexDataEl, ltDataEl] at h ⊢
  · exact valid_signedBits (by omega) (by omega) v
  · exact valid_nat (by have := hm 8; omega)
  · exact valid_signedBits (by omega) (by omega) v
  · exact valid_nat (by have := hm 16; omega)
  · exact valid_signedBits (by omega) (by omega) v
  · exact valid_nat (by have := hm 32; omega)
  · exact valid_signedBits (by omega) (by omega) v
  · exact valid_nat (hm 64)
  · exact valid_flt (by simpa [BitVec.toNat_ofNat] using h)
  · exact valid_dbl (by simpa [BitVec.toNat_ofNat] using h)
  · exact valid_ldbl (by simpa [BitVec.toNat_ofNat] using h)
  · refine ⟨?_, by simp, by simp [startOK]⟩
    have := wordOK_hex (n := v % 2 ^ 64) (hm 64)
    have he : BitVec.ofNat 64 (v % 2 ^ 64) = BitVec.ofNat 64 v := by
      apply BitVec.eq_of_toNat_eq; simp [BitVec.toNat_ofNat]
    rw [he] at this
    exact this
  all_goals simp at h

theorem okC_ltDataEnd (t : Ty) (els : List Nat) : OkC (ltDataEnd t els) ∧ startsDelim (ltDataEnd t els) = true := by
  unfold ltDataEnd
  split
  · exact ⟨OkC.blank_cons (by simp) (OkC.comment _), by simp⟩
  · exact ⟨OkC.p _ _, by simp⟩

theorem allValid_ltDataEnd (t : Ty) (els : List Nat) : AllValid (ltDataEnd t els) := by
  unfold ltDataEnd
  split
  · refine AllValid.cons valid_tSp (AllValid.cons ?_ AllValid.nil)
    intro c hc
    simp only [List.mem_cons] at hc
    rcases hc with hc | hc
    · subst hc; decide
    · exact printStr_ok _ c hc
  · exact AllValid.cons valid_tNl AllValid.nil

theorem okC_nameColon_append {n : Option Str} {a : List LT} (hs : a ≠ []) (ha : OkC a) : OkC (ltNameColon n ++ a) := by
  cases n with
  | none => simpa [ltNameColon] using ha
  | some x =>
    have : OkC (ltName x :: tColon :: a) := OkC.word_cons (by simp) (OkC.p_cons ha)
    simpa [ltNameColon] using this

theorem allValid_nameColon {n : Option Str} (h : optNameOK n = true) : AllValid (ltNameColon n) := by
  cases n with
  | none => exact AllValid.nil
  | some x => exact AllValid.cons (valid_name h) (AllValid.cons valid_tColon AllValid.nil)

/-- `\t kw \t w1 … ` : a directive line whose operands `a` end in a word and which ends with `tail` -/
theorem okC_directive (kw : Str) {a tail : List LT} (ha : OkD a) (hane : a ≠ []) (hs : startsDelim tail = true)
    (ht : OkC tail) : OkC ([tTab, ltName kw, tTab] ++ a ++ tail) := by
  have h1 : OkC (a ++ tail) := OkD.appendC ha hs ht
  have hne : a ++ tail ≠ [] := by simp [hane]
  have : OkC (tTab :: ltName kw :: tTab :: (a ++ tail)) :=
    OkC.blank_cons (by simp) (OkC.word_cons (by simp) (OkC.blank_cons hne h1))
  simpa using this

theorem okC_ltItem (it : Item) : OkC (ltItem it) := by
  have hnl : OkC [tNl] := OkC.p _ _
  cases it with
  | «export» n => exact okC_directive kwExport (a := [ltName n]) (OkD.word _ _) (by simp) (by simp) hnl
  | «import» n => exact okC_directive kwImport (a := [ltName n]) (OkD.word _ _) (by simp) (by simp) hnl
  | forward n => exact okC_directive kwForward (a := [ltName n]) (OkD.word _ _) (by simp) (by simp) hnl
  | bss name len =>
    have := okC_directive kwBss (a := [ltU64 len]) (OkD.word _ _) (by simp) (by simp) hnl
    exact okC_nameColon_append (by simp) (by simpa using this)
  | ref name item disp =>
    have ha : OkD ([ltName item] ++ tCommaSp ++ [ltI64 disp]) := by
      intro b hs hb; simp_all [ltName, ltI64, tCommaSp, tComma, tSp, LT.isDelimStart, isDelim]
    have := okC_directive kwRef ha (by simp) (by simp) hnl
    have h2 := okC_nameColon_append (n := name) (by simp) this
    simpa [ltItem, List.append_assoc] using h2
  | lref name l1 l2 disp =>
    have ha : OkD (ltLrefOps l1 l2 disp) := by
      intro b hs hb
      unfold ltLrefOps
      cases l2 <;> by_cases hd : disp = 0 <;>
        simp_all [ltLabel, ltName, ltI64, tCommaSp, tComma, tSp, LT.isDelimStart, isDelim]
    have := okC_directive kwLref ha (by simp [ltLrefOps]) (by simp) hnl
    have h2 := okC_nameColon_append (n := name) (by simp) this
    simpa [ltItem, List.append_assoc] using h2
  | expr name fn =>
    have := okC_directive kwExpr (a := [ltName fn]) (OkD.word _ _) (by simp) (by simp) hnl
    exact okC_nameColon_append (by simp) (by simpa using this)
  | data name ty els =>
    have hd : ∀ x ∈ els.map (fun v => [ltDataEl ty v]), OkD x := by
      intro x hx; simp only [List.mem_map] at hx; obtain ⟨v, _, rfl⟩ := hx
      cases ty <;> exact OkD.word _ _
    have hne : ∀ x ∈ els.map (fun v => [ltDataEl ty v]), x ≠ [] := by
      intro x hx; simp only [List.mem_map] at hx; obtain ⟨v, _, rfl⟩ := hx; simp
    obtain ⟨he, hes⟩ := okC_ltDataEnd ty els
    have h1 : OkC (ltCommaSep (els.map fun v => [ltDataEl ty v]) ++ ltDataEnd ty els) :=
      OkD.appendC (okD_commaSep hd hne) hes he
    have hne2 : ltCommaSep (els.map fun v => [ltDataEl ty v]) ++ ltDataEnd ty els ≠ [] := by
      unfold ltDataEnd; split <;> simp
    have : OkC (tTab :: ltType ty :: tTab :: (ltCommaSep (els.map fun v => [ltDataEl ty v]) ++ ltDataEnd ty els)) :=
      OkC.blank_cons (by simp) (OkC.word_cons (by simp) (OkC.blank_cons hne2 h1))
    have h2 := okC_nameColon_append (n := name) (by simp) this
    simpa [ltItem, List.append_assoc] using h2
  | proto name res args va =>
    have hproto : OkC (ltProtoBody res args va ++ [tNl]) :=
      OkD.appendC (okD_ltProtoBody _ _ _) (by simp) hnl
    have : OkC (ltName name :: tColon :: tTab :: ltName kwProto :: tTab :: (ltProtoBody res args va ++ [tNl])) :=
      OkC.word_cons (by simp) (OkC.p_cons (OkC.blank_cons (by simp)
        (OkC.word_cons (by simp) (OkC.blank_cons (by simp) hproto))))
    simpa [ltItem] using this
  | func f => exact okC_ltFunc f

theorem allValid_ltItem {it : Item} (h : lexItem it = true) : AllValid (ltItem it) := by
  have kw := nameOK_kw
  have dir : ∀ k, nameOK k = true → AllValid [tTab, ltName k, tTab] := fun k hk =>
    AllValid.cons valid_tTab (AllValid.cons (valid_name hk) (AllValid.cons valid_tTab AllValid.nil))
  have nl : AllValid [tNl] := AllValid.cons valid_tNl AllValid.nil
  have csp : AllValid tCommaSp := AllValid.cons valid_tComma (AllValid.cons valid_tSp AllValid.nil)
  cases it with
  | «export» n =>
    exact AllValid.append (dir _ kw.2.2.2.2.2.1) (AllValid.cons (valid_name h) nl)
  | «import» n =>
    exact AllValid.append (dir _ kw.2.2.2.2.2.2.1) (AllValid.cons (valid_name h) nl)
  | forward n =>
    exact AllValid.append (dir _ kw.2.2.2.2.2.2.2.1) (AllValid.cons (valid_name h) nl)
  | bss name len =>
    exact AllValid.append (allValid_nameColon h) (AllValid.append (dir _ kw.2.2.2.2.2.2.2.2.1) (AllValid.cons (valid_u64 _) nl))
  | ref name item disp =>
    simp only [lexItem, Bool.and_eq_true] at h
    simp only [ltItem]
    exact AllValid.append (AllValid.append (AllValid.append (allValid_nameColon h.1)
      (AllValid.append (dir _ kw.2.2.2.2.2.2.2.2.2.1) (AllValid.cons (valid_name h.2) AllValid.nil))) csp)
      (AllValid.cons (valid_i64 _) nl)
  | lref name l1 l2 disp =>
    simp only [ltItem, ltLrefOps]
    refine AllValid.append (AllValid.append (AllValid.append (allValid_nameColon h) (dir _ kw.2.2.2.2.2.2.2.2.2.2.1))
      (AllValid.append (AllValid.append (AllValid.cons (valid_name (nameOK_printLabel _)) AllValid.nil) ?_) ?_)) nl
    · cases l2 with
      | none => exact AllValid.nil
      | some l => exact AllValid.append csp (AllValid.cons (valid_name (nameOK_printLabel _)) AllValid.nil)
    · split
      · exact AllValid.append csp (AllValid.cons (valid_i64 _) AllValid.nil)
      · exact AllValid.nil
  | expr name fn =>
    simp only [lexItem, Bool.and_eq_true] at h
    exact AllValid.append (allValid_nameColon h.1) (AllValid.append (dir _ kw.2.2.2.2.2.2.2.2.2.2.2.1) (AllValid.cons (valid_name h.2) nl))
  | data name ty els =>
    simp only [lexItem, Bool.and_eq_true] at h
    simp only [ltItem]
    refine AllValid.append (AllValid.append (AllValid.append (allValid_nameColon h.1)
      (AllValid.cons valid_tTab (AllValid.cons (valid_type _) (AllValid.cons valid_tTab AllValid.nil)))) ?_)
      (allValid_ltDataEnd _ _)
    apply allValid_commaSep
    intro x hx; simp only [List.mem_map] at hx; obtain ⟨v, hv, rfl⟩ := hx
    exact AllValid.cons (valid_ltDataEl (List.all_eq_true.mp h.2 v hv)) AllValid.nil
  | proto name res args va =>
    simp only [lexItem, Bool.and_eq_true] at h
    simp only [ltItem]
    exact AllValid.append (AllValid.append (AllValid.cons (valid_name h.1) (AllValid.cons valid_tColon
      (AllValid.cons valid_tTab (AllValid.cons (valid_name kw.2.2.1) (AllValid.cons valid_tTab AllValid.nil)))))
      (allValid_ltProtoBody _ h.2)) nl
  | func f => exact allValid_ltFunc h

theorem okC_ltModule (m : Module) : OkC (ltModule m) := by
  have hitems : OkC (m.items.flatMap ltItem) := okC_flatMap (fun i _ => okC_ltItem i)
  have hhead : OkC [ltName m.name, tColon, tTab, ltName kwModule, tNl] :=
    OkC.word_cons (by simp) (OkC.p_cons (OkC.blank_cons (by simp) (OkC.word_cons (by simp) (OkC.p _ _))))
  have hend : OkC [tTab, ltName kwEndmodule, tNl] :=
    OkC.blank_cons (by simp) (OkC.word_cons (by simp) (OkC.p _ _))
  exact OkC.append (OkC.append hhead hitems) hend

theorem allValid_ltModule {m : Module} (h : lexModule m = true) : AllValid (ltModule m) := by
  simp only [lexModule, Bool.and_eq_true] at h
  have kw := nameOK_kw
  unfold ltModule
  refine AllValid.append (AllValid.append ?_ ?_) ?_
  · exact AllValid.cons (valid_name h.1) (AllValid.cons valid_tColon (AllValid.cons valid_tTab
      (AllValid.cons (valid_name kw.1) (AllValid.cons valid_tNl AllValid.nil))))
  · exact AllValid.flatMap (fun i hi => allValid_ltItem (List.all_eq_true.mp h.2 i hi))
  · exact AllValid.cons valid_tTab (AllValid.cons (valid_name kw.2.1) (AllValid.cons valid_tNl AllValid.nil))

/-- **lexer round trip**: the token scanner turns the text written for lexically well-formed modules
into exactly the token stream the layout describes -/
theorem lexAll_printText (ms : List Module) (h : ms.all lexModule = true) :
    lexAll (printText ms) = .ok (toks (ltText ms)) := by
  apply lexAll_flatten
  · exact AllValid.flatMap (fun m hm => allValid_ltModule (List.all_eq_true.mp h m hm))
  · exact (okC_flatMap (fun m _ => okC_ltModule m)).okLT

end TextIO
