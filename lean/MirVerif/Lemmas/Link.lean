import MirVerif.Model.LinkSpec
/-! helper lemmas for C13: what `add_item`, `MIR_load_module` and the first loop of `MIR_link`
compute, in closed form -/
namespace MirVerif.Link
set_option linter.unusedSimpArgs false
set_option linter.unusedVariables false

/-! ## `add_item`: per-name summary of the module table -/

/-- (an `export n` was seen, kind of the definition of `n` seen) -/
def summ : Option Ent → Bool × Option Bool
  | some (.defn k e) => (e, some k)
  | some .exp => (true, none)
  | _ => (false, none)

def declKind (d : Decl) (n : Name) : Option Bool :=
  match d with
  | .func m => if m = n then some true else none
  | .data m => if m = n then some false else none
  | _ => none

def declIsExp (d : Decl) (n : Name) : Bool :=
  match d with
  | .exp m => m == n
  | _ => false

theorem lookup_cons_eq {α} (n m : Name) (e : α) (l : List (Name × α)) :
    List.lookup n ((m, e) :: l) = if n = m then some e else List.lookup n l := by
  simp only [List.lookup]
  by_cases h : n = m
  · subst h; simp
  · have : (n == m) = false := by simpa using h
    simp [this, h]

theorem lookup_append_of_some {α} {l1 l2 : List (Name × α)} {n : Name} {v : α}
    (h : l1.lookup n = some v) : (l1 ++ l2).lookup n = some v := by
  induction l1 with
  | nil => cases h
  | cons p rest ih =>
    obtain ⟨m, e⟩ := p
    rw [List.cons_append, lookup_cons_eq]
    rw [lookup_cons_eq] at h
    split
    · simpa [*] using h
    · rename_i hne; rw [if_neg hne] at h; exact ih h

theorem lookup_append_of_none {α} {l1 l2 : List (Name × α)} {n : Name}
    (h : l1.lookup n = none) : (l1 ++ l2).lookup n = l2.lookup n := by
  induction l1 with
  | nil => rfl
  | cons p rest ih =>
    obtain ⟨m, e⟩ := p
    rw [List.cons_append, lookup_cons_eq]
    rw [lookup_cons_eq] at h
    split
    · rename_i heq; rw [if_pos heq] at h; cases h
    · rename_i hne; rw [if_neg hne] at h; exact ih h

theorem addItem_summ {b b' : Build} {d : Decl} (h : addItem b d = .ok b') (n : Name) :
    summ (b'.tab.lookup n) =
      ((summ (b.tab.lookup n)).1 || declIsExp d n, (summ (b.tab.lookup n)).2 <|> declKind d n) := by
  unfold addItem at h
  by_cases hn : d.name = n
  · subst hn
    generalize hl : b.tab.lookup d.name = e at h ⊢
    cases d <;> rcases e with _ | (_ | _ | _ | ⟨k, ex⟩) <;>
      simp only [Build.setTab, Decl.name, reduceCtorEq] at h hl ⊢ <;>
      first
        | (injection h with h; subst h; simp [lookup_cons_eq, summ, declKind, declIsExp, hl])
        | exact absurd h (by simp)
  · have hne : declIsExp d n = false := by
      cases d <;> simp_all [Decl.name, declIsExp]
    have hk : declKind d n = none := by
      cases d <;> simp_all [Decl.name, declKind]
    rw [hne, hk]
    have : b'.tab.lookup n = b.tab.lookup n := by
      generalize b.tab.lookup d.name = e at h
      cases d <;> rcases e with _ | (_ | _ | _ | ⟨k, ex⟩) <;>
        simp only [Build.setTab, Decl.name, reduceCtorEq] at h hn <;>
        first
          | (injection h with h; subst h; simp [lookup_cons_eq, Ne.symm hn])
          | exact absurd h (by simp)
    rw [this]; simp

/-- `defs` lists exactly the names whose table entry is a definition -/
def DefsInv (b : Build) : Prop :=
  ∀ n k, (n, k) ∈ b.defs ↔ ∃ e, b.tab.lookup n = some (.defn k e)

/-- `imps` lists exactly the names whose table entry is an import -/
def ImpsInv (b : Build) : Prop :=
  ∀ n, n ∈ b.imps.map (·.1) ↔ b.tab.lookup n = some .imp

theorem addItem_defsInv {b b' : Build} {d : Decl} (h : addItem b d = .ok b') (J : DefsInv b) :
    DefsInv b' := by
  unfold addItem at h
  intro n k
  have Jn := J n k
  have Jd := J d.name k
  generalize hl : b.tab.lookup d.name = e at h Jd
  by_cases hn : n = d.name
  · subst hn
    cases d <;> simp only [Decl.name] at hl Jd Jn <;>
    rcases e with _ | (_ | _ | _ | ⟨k', ex⟩) <;>
      simp only [Build.setTab, Decl.name, reduceCtorEq] at h ⊢ <;>
      first
        | (injection h with h; subst h; simp_all [lookup_cons_eq])
        | exact absurd h (by simp)
  · cases d <;> simp only [Decl.name] at hl Jd Jn hn <;>
    rcases e with _ | (_ | _ | _ | ⟨k', ex⟩) <;>
      simp only [Build.setTab, Decl.name, reduceCtorEq] at h ⊢ <;>
      first
        | (injection h with h; subst h; simp_all [lookup_cons_eq])
        | exact absurd h (by simp)

theorem addItem_impsInv {b b' : Build} {d : Decl} (h : addItem b d = .ok b') (J : ImpsInv b) :
    ImpsInv b' := by
  unfold addItem at h
  intro n
  have Jn := J n
  have Jd := J d.name
  generalize hl : b.tab.lookup d.name = e at h Jd
  by_cases hn : n = d.name
  · subst hn
    cases d <;> simp only [Decl.name] at hl Jd Jn <;>
    rcases e with _ | (_ | _ | _ | ⟨k', ex⟩) <;>
      simp only [Build.setTab, Decl.name, reduceCtorEq] at h ⊢ <;>
      first
        | (injection h with h; subst h; simp_all [lookup_cons_eq])
        | exact absurd h (by simp)
  · cases d <;> simp only [Decl.name] at hl Jd Jn hn <;>
    rcases e with _ | (_ | _ | _ | ⟨k', ex⟩) <;>
      simp only [Build.setTab, Decl.name, reduceCtorEq] at h ⊢ <;>
      first
        | (injection h with h; subst h; simp_all [lookup_cons_eq])
        | exact absurd h (by simp)

/-- the table entry of `n` is an import after the step iff it was one or the step imports `n` -/
theorem addItem_imp {b b' : Build} {d : Decl} (h : addItem b d = .ok b') (n : Name) :
    b'.tab.lookup n = some .imp ↔ (b.tab.lookup n = some .imp ∨ ∃ u, d = .imp n u) := by
  unfold addItem at h
  generalize hl : b.tab.lookup d.name = e at h
  by_cases hn : n = d.name
  · subst hn
    cases d <;> simp only [Decl.name] at hl <;>
    rcases e with _ | (_ | _ | _ | ⟨k', ex⟩) <;>
      simp only [Build.setTab, Decl.name, reduceCtorEq] at h ⊢ <;>
      first
        | (injection h with h; subst h; simp [lookup_cons_eq, hl])
        | exact absurd h (by simp)
  · cases d <;> simp only [Decl.name] at hl hn <;>
    rcases e with _ | (_ | _ | _ | ⟨k', ex⟩) <;>
      simp only [Build.setTab, Decl.name, reduceCtorEq] at h ⊢ <;>
      first
        | (injection h with h; subst h; simp [lookup_cons_eq, hn]
           try (intro h'; exact absurd h'.symm hn))
        | exact absurd h (by simp)

theorem declHasExp_cons (d : Decl) (ds : List Decl) (n : Name) :
    declHasExp (d :: ds) n = (declIsExp d n || declHasExp ds n) := by
  cases d <;> simp [declHasExp, declIsExp]

theorem declDefKind_cons (d : Decl) (ds : List Decl) (n : Name) :
    declDefKind (d :: ds) n = (declKind d n <|> declDefKind ds n) := by
  cases d <;> simp [declDefKind, declKind] <;> split <;> simp

theorem buildFrom_summ {b0 b : Build} {ds : List Decl} (h : buildFrom b0 ds = .ok b) (n : Name) :
    summ (b.tab.lookup n) = ((summ (b0.tab.lookup n)).1 || declHasExp ds n,
                             (summ (b0.tab.lookup n)).2 <|> declDefKind ds n) := by
  induction ds generalizing b0 with
  | nil => simp [buildFrom] at h; subst h; simp [declHasExp, declDefKind]
  | cons d ds ih =>
    simp only [buildFrom] at h
    split at h
    · rename_i b1 h1
      rw [ih h, addItem_summ h1 n, declHasExp_cons, declDefKind_cons]
      simp [Bool.or_assoc, Option.or_assoc]
    · exact absurd h (by simp)

theorem buildFrom_defsInv {b0 b : Build} {ds : List Decl} (h : buildFrom b0 ds = .ok b)
    (J : DefsInv b0) : DefsInv b := by
  induction ds generalizing b0 with
  | nil => simp [buildFrom] at h; subst h; exact J
  | cons d ds ih =>
    simp only [buildFrom] at h
    split at h
    · rename_i b1 h1; exact ih h (addItem_defsInv h1 J)
    · exact absurd h (by simp)

theorem buildFrom_impsInv {b0 b : Build} {ds : List Decl} (h : buildFrom b0 ds = .ok b)
    (J : ImpsInv b0) : ImpsInv b := by
  induction ds generalizing b0 with
  | nil => simp [buildFrom] at h; subst h; exact J
  | cons d ds ih =>
    simp only [buildFrom] at h
    split at h
    · rename_i b1 h1; exact ih h (addItem_impsInv h1 J)
    · exact absurd h (by simp)

theorem mem_declImports (ds : List Decl) (n : Name) :
    n ∈ declImports ds ↔ ∃ u, Decl.imp n u ∈ ds := by
  induction ds with
  | nil => simp [declImports]
  | cons d ds ih =>
    cases d <;> simp [declImports, ih]
    rename_i m u
    constructor
    · rintro (h | ⟨u', h⟩)
      · exact ⟨u, Or.inl ⟨h, rfl⟩⟩
      · exact ⟨u', Or.inr h⟩
    · rintro ⟨u', h | h⟩
      · exact Or.inl h.1
      · exact Or.inr ⟨u', h⟩

theorem buildFrom_imp {b0 b : Build} {ds : List Decl} (h : buildFrom b0 ds = .ok b) (n : Name) :
    b.tab.lookup n = some .imp ↔ (b0.tab.lookup n = some .imp ∨ n ∈ declImports ds) := by
  induction ds generalizing b0 with
  | nil => simp [buildFrom] at h; subst h; simp [declImports]
  | cons d ds ih =>
    simp only [buildFrom] at h
    split at h
    · rename_i b1 h1
      rw [ih h, addItem_imp h1 n, mem_declImports, mem_declImports]
      simp only [List.mem_cons]
      constructor
      · rintro ((h2 | ⟨u, rfl⟩) | ⟨u, h2⟩)
        · exact Or.inl h2
        · exact Or.inr ⟨u, Or.inl rfl⟩
        · exact Or.inr ⟨u, Or.inr h2⟩
      · rintro (h2 | ⟨u, h2 | h2⟩)
        · exact Or.inl (Or.inl h2)
        · exact Or.inl (Or.inr ⟨u, h2.symm⟩)
        · exact Or.inr ⟨u, h2⟩
    · exact absurd h (by simp)

/-- closed form of a successfully built module -/
theorem build_spec {ds : List Decl} {b : Build} (h : build ds = .ok b) :
    (∀ n, b.exported n = true ↔ (declHasExp ds n = true ∧ (declDefKind ds n).isSome)) ∧
    (∀ n k, (n, k) ∈ b.defs ↔ declDefKind ds n = some k) ∧
    (∀ n, n ∈ b.imps.map (·.1) ↔ n ∈ declImports ds) := by
  unfold build at h
  have hs := buildFrom_summ h
  have hd := buildFrom_defsInv h (by intro n k; simp)
  have hi := buildFrom_impsInv h (by intro n; simp)
  have him := buildFrom_imp h
  refine ⟨?_, ?_, ?_⟩
  · intro n
    have := hs n
    simp only [List.lookup, summ, Bool.false_or, Option.none_or, Option.orElse_eq_or, Option.or_eq_orElse] at this
    unfold Build.exported
    generalize b.tab.lookup n = e at this
    rcases e with _ | (_ | _ | _ | ⟨k, ex⟩) <;> simp [summ] at this <;>
      (obtain ⟨h1, h2⟩ := this; simp [← h1, ← h2])
    cases ex <;> simp
  · intro n k
    rw [hd n k]
    have := hs n
    simp only [List.lookup, summ, Bool.false_or, Option.none_or, Option.orElse_eq_or, Option.or_eq_orElse] at this
    generalize b.tab.lookup n = e at this
    rcases e with _ | (_ | _ | _ | ⟨k', ex⟩) <;> simp [summ] at this <;>
      (obtain ⟨h1, h2⟩ := this; simp [← h2])
  · intro n
    rw [hi n, him n]; simp

/-! ## `MIR_load_module` -/


theorem loadDefs_cons (id : Nat) (ok : Bool) (b : Build) (m : Name) (k : Bool)
    (rest : List (Name × Bool)) (env : Env) :
    loadDefs id ok b ((m, k) :: rest) env =
      if b.exported m = true then
        if ((env.lookup m).isSome && k && !ok) = true then ((m, mkDef id k) :: env, some .repeatedDecl)
        else loadDefs id ok b rest ((m, mkDef id k) :: env)
      else loadDefs id ok b rest env := by
  simp only [loadDefs, setupGlobal]
  split <;> rfl

theorem loadDefs_env {id : Nat} {ok : Bool} {b : Build} {defs : List (Name × Bool)} {env env' : Env}
    (h : loadDefs id ok b defs env = (env', none)) (n : Name) (kn : Bool)
    (huniq : ∀ k, (n, k) ∈ defs → k = kn) :
    env'.lookup n = if b.exported n = true ∧ (∃ k, (n, k) ∈ defs) then some (mkDef id kn)
                    else env.lookup n := by
  induction defs generalizing env with
  | nil => simp [loadDefs] at h; simp [h]
  | cons p rest ih =>
    obtain ⟨m, k⟩ := p
    have hu' : ∀ k, (n, k) ∈ rest → k = kn := fun k hk => huniq k (List.mem_cons_of_mem _ hk)
    rw [loadDefs_cons] at h
    by_cases hx : b.exported m = true
    · rw [if_pos hx] at h
      by_cases hc : ((env.lookup m).isSome && k && !ok) = true
      · rw [if_pos hc] at h; exact absurd h (by simp)
      · rw [if_neg hc] at h
        rw [ih h hu']
        by_cases hnm : n = m
        · subst hnm
          have hk : k = kn := huniq k (List.mem_cons_self ..)
          subst hk
          have h1 : ∃ k', (n, k') ∈ (n, k) :: rest := ⟨k, List.mem_cons_self ..⟩
          by_cases hr : ∃ k', (n, k') ∈ rest
          · rw [if_pos ⟨hx, hr⟩, if_pos ⟨hx, h1⟩]
          · rw [if_neg (fun h => hr h.2), if_pos ⟨hx, h1⟩, lookup_cons_eq, if_pos rfl]
        · have h1 : (∃ k', (n, k') ∈ (m, k) :: rest) ↔ ∃ k', (n, k') ∈ rest := by
            simp [hnm]
          simp only [h1, lookup_cons_eq, if_neg hnm]
    · rw [if_neg hx] at h
      rw [ih h hu']
      by_cases hnm : n = m
      · subst hnm
        rw [if_neg (fun h => hx h.1), if_neg (fun h => hx h.1)]
      · have h1 : (∃ k', (n, k') ∈ (m, k) :: rest) ↔ ∃ k', (n, k') ∈ rest := by
          simp [hnm]
        simp only [h1]

theorem loadDefs_err {id : Nat} {ok : Bool} {b : Build} {defs : List (Name × Bool)} {env env' : Env}
    {e : Err} (h : loadDefs id ok b defs env = (env', some e)) : e = .repeatedDecl ∧ ok = false := by
  induction defs generalizing env with
  | nil => simp [loadDefs] at h
  | cons p rest ih =>
    obtain ⟨m, k⟩ := p
    rw [loadDefs_cons] at h
    by_cases hx : b.exported m = true
    · rw [if_pos hx] at h
      by_cases hc : ((env.lookup m).isSome && k && !ok) = true
      · rw [if_pos hc] at h
        simp at h hc
        exact ⟨h.2.symm, hc.2⟩
      · rw [if_neg hc] at h; exact ih h
    · rw [if_neg hx] at h; exact ih h

theorem loadDefs_rejects {id : Nat} {b : Build} {defs : List (Name × Bool)} {env : Env} {n : Name}
    (hm : (n, true) ∈ defs) (hx : b.exported n = true) (hd : (env.lookup n).isSome = true) :
    (loadDefs id false b defs env).2 = some .repeatedDecl := by
  induction defs generalizing env with
  | nil => simp at hm
  | cons p rest ih =>
    obtain ⟨m, k⟩ := p
    rw [loadDefs_cons]
    by_cases hnm : (n, true) = (m, k)
    · cases hnm
      simp [hx, hd]
    · have hm' : (n, true) ∈ rest := by
        rcases List.mem_cons.1 hm with h | h
        · exact absurd h hnm
        · exact h
      by_cases hxm : b.exported m = true
      · rw [if_pos hxm]
        by_cases hc : ((env.lookup m).isSome && k && !false) = true
        · rw [if_pos hc]
        · rw [if_neg hc]
          apply ih hm'
          rw [lookup_cons_eq]; split <;> simp [hd]
      · rw [if_neg hxm]; exact ih hm' hd

theorem loadDefs_data_ok {id : Nat} {ok : Bool} {b : Build} {defs : List (Name × Bool)} {env : Env}
    (hno : ∀ n, (n, true) ∈ defs → b.exported n = false) :
    (loadDefs id ok b defs env).2 = none := by
  induction defs generalizing env with
  | nil => simp [loadDefs]
  | cons p rest ih =>
    obtain ⟨m, k⟩ := p
    have hno' : ∀ n, (n, true) ∈ rest → b.exported n = false :=
      fun n hn => hno n (List.mem_cons_of_mem _ hn)
    rw [loadDefs_cons]
    by_cases hxm : b.exported m = true
    · rw [if_pos hxm]
      cases k
      · simp; exact ih hno'
      · have := hno m (List.mem_cons_self ..)
        rw [this] at hxm; exact absurd hxm (by simp)
    · rw [if_neg hxm]; exact ih hno'

theorem loadDefs_perm_ok {id : Nat} {b : Build} {defs : List (Name × Bool)} {env : Env} :
    (loadDefs id true b defs env).2 = none := by
  induction defs generalizing env with
  | nil => simp [loadDefs]
  | cons p rest ih =>
    obtain ⟨m, k⟩ := p
    rw [loadDefs_cons]
    by_cases hxm : b.exported m = true
    · rw [if_pos hxm]; simp; exact ih
    · rw [if_neg hxm]; exact ih

/-! ## first loop of `MIR_link` -/

/-- `env'` is `env` plus what the resolver answers for the undefined names among `ns` -/
def Extended (res : Resolver) (ns : List Name) (env env' : Env) : Prop :=
  ∀ n, env'.lookup n = match env.lookup n with
                        | some d => some d
                        | none => if n ∈ ns then (res n).map Def.ext else none

theorem Extended.mono {res ns env env'} (h : Extended res ns env env') {n : Name} {d : Def}
    (hd : env.lookup n = some d) : env'.lookup n = some d := by
  rw [h n, hd]

theorem Extended.refl (res : Resolver) (env : Env) : Extended res [] env env := by
  intro n; cases env.lookup n <;> simp

theorem Extended.trans {res a b env env1 env2} (h1 : Extended res a env env1)
    (h2 : Extended res b env1 env2) : Extended res (a ++ b) env env2 := by
  intro n
  rw [h2 n, h1 n]
  cases hl : env.lookup n with
  | some d => simp
  | none =>
    simp only [List.mem_append]
    by_cases ha : n ∈ a
    · simp only [ha, if_true, true_or]
      cases res n <;> simp
    · simp [ha]

theorem lookup_of_forall {α} {bs : List (Name × α)} {f : Name → Option α} {n : Name}
    (hn : n ∈ bs.map (·.1)) (hf : ∀ p ∈ bs, f p.1 = some p.2) : bs.lookup n = f n := by
  induction bs with
  | nil => simp at hn
  | cons p rest ih =>
    obtain ⟨m, d⟩ := p
    rw [lookup_cons_eq]
    by_cases hnm : n = m
    · subst hnm; simp [hf (n, d) (List.mem_cons_self ..)]
    · rw [if_neg hnm]
      apply ih
      · simpa [hnm] using hn
      · exact fun p hp => hf p (List.mem_cons_of_mem _ hp)

theorem resolveImps_ok {res : Resolver} {imps : List (Name × Use)} {env env' : Env}
    {acc bs : List (Name × Def)} (h : resolveImps res imps env acc = (env', bs, none)) :
    Extended res (imps.map (·.1)) env env' ∧
    ∃ bs0, bs = acc ++ bs0 ∧ bs0.map (·.1) = imps.map (·.1) ∧
      ∀ p ∈ bs0, env'.lookup p.1 = some p.2 := by
  induction imps generalizing env acc with
  | nil =>
    simp [resolveImps] at h
    obtain ⟨rfl, rfl⟩ := h
    exact ⟨Extended.refl res env, [], by simp⟩
  | cons p rest ih =>
    obtain ⟨n, u⟩ := p
    simp only [resolveImps] at h
    cases hl : env.lookup n with
    | some d =>
      rw [hl] at h
      obtain ⟨hext, bs0, hbs, hnames, hall⟩ := ih h
      refine ⟨?_, (n, d) :: bs0, by simp [hbs], by simp [hnames], ?_⟩
      · intro m
        rw [hext m]
        cases hm : env.lookup m with
        | some d' => rfl
        | none =>
          have hmn : m ≠ n := by intro e; subst e; rw [hl] at hm; cases hm
          have : m ∈ List.map (·.1) ((n, u) :: rest) ↔ m ∈ List.map (·.1) rest := by simp [hmn]
          simp only [this]
      · intro p hp
        rcases List.mem_cons.1 hp with rfl | hp
        · exact hext.mono hl
        · exact hall p hp
    | none =>
      rw [hl] at h
      cases hr : res n with
      | none => rw [hr] at h; simp at h
      | some a =>
        rw [hr] at h
        obtain ⟨hext, bs0, hbs, hnames, hall⟩ := ih h
        have hn1 : List.lookup n ((n, Def.ext a) :: env) = some (Def.ext a) := by
          rw [lookup_cons_eq, if_pos rfl]
        refine ⟨?_, (n, .ext a) :: bs0, by simp [hbs], by simp [hnames], ?_⟩
        · intro m
          rw [hext m, lookup_cons_eq]
          by_cases hmn : m = n
          · subst hmn; simp [hl, hr]
          · rw [if_neg hmn]
            have : m ∈ List.map (·.1) ((n, u) :: rest) ↔ m ∈ List.map (·.1) rest := by simp [hmn]
            cases env.lookup m <;> simp only [this]
        · intro p hp
          rcases List.mem_cons.1 hp with rfl | hp
          · exact hext.mono hn1
          · exact hall p hp

theorem resolveImps_err {res : Resolver} {imps : List (Name × Use)} {env env' : Env}
    {acc bs : List (Name × Def)} {e : Err} (h : resolveImps res imps env acc = (env', bs, some e)) :
    e = .undeclaredOpRef := by
  induction imps generalizing env acc with
  | nil => simp [resolveImps] at h
  | cons p rest ih =>
    obtain ⟨n, u⟩ := p
    simp only [resolveImps] at h
    cases hl : env.lookup n with
    | some d => rw [hl] at h; exact ih h
    | none =>
      rw [hl] at h
      cases hr : res n with
      | none => rw [hr] at h; simp at h; exact h.2.2.symm
      | some a => rw [hr] at h; exact ih h

theorem resolveImps_fails {res : Resolver} {imps : List (Name × Use)} {env : Env}
    {acc : List (Name × Def)} {n : Name} (hn : n ∈ imps.map (·.1)) (he : env.lookup n = none)
    (hr : res n = none) : (resolveImps res imps env acc).2.2 = some .undeclaredOpRef := by
  induction imps generalizing env acc with
  | nil => simp at hn
  | cons p rest ih =>
    obtain ⟨m, u⟩ := p
    simp only [resolveImps]
    cases hl : env.lookup m with
    | some d =>
      have hmn : n ≠ m := by intro e; subst e; rw [he] at hl; cases hl
      exact ih (by simpa [hmn] using hn) he
    | none =>
      cases hrm : res m with
      | none => rfl
      | some a =>
        have hmn : n ≠ m := by intro e; subst e; rw [hr] at hrm; cases hrm
        apply ih (by simpa [hmn] using hn)
        rw [lookup_cons_eq, if_neg hmn]; exact he

/-- pointwise relation of two lists of the same length (core has no `List.Forall₂`) -/
inductive Forall2 {α β} (R : α → β → Prop) : List α → List β → Prop
  | nil : Forall2 R [] []
  | cons {a b as bs} : R a b → Forall2 R as bs → Forall2 R (a :: as) (b :: bs)

theorem Forall2.imp {α β} {R S : α → β → Prop} (h : ∀ a b, R a b → S a b) {as bs}
    (hf : Forall2 R as bs) : Forall2 S as bs := by
  induction hf with
  | nil => exact .nil
  | cons hr _ ih => exact .cons (h _ _ hr) ih

theorem Forall2.imp_mem {α β} {R S : α → β → Prop} {as bs}
    (hf : Forall2 R as bs) (h : ∀ a b, a ∈ as → b ∈ bs → R a b → S a b) : Forall2 S as bs := by
  induction hf with
  | nil => exact .nil
  | cons hr _ ih =>
    refine .cons (h _ _ (List.mem_cons_self ..) (List.mem_cons_self ..) hr) (ih ?_)
    exact fun a b ha hb => h a b (List.mem_cons_of_mem _ ha) (List.mem_cons_of_mem _ hb)

theorem Forall2.length_eq {α β} {R : α → β → Prop} {as bs} (hf : Forall2 R as bs) :
    as.length = bs.length := by
  induction hf with
  | nil => rfl
  | cons _ _ ih => simp [ih]

theorem Forall2.left {α β} {R : α → β → Prop} {as bs} (hf : Forall2 R as bs) :
    ∀ a ∈ as, ∃ b ∈ bs, R a b := by
  induction hf with
  | nil => simp
  | cons hr _ ih =>
    intro a ha
    rcases List.mem_cons.1 ha with rfl | ha
    · exact ⟨_, List.mem_cons_self .., hr⟩
    · obtain ⟨b, hb, hrb⟩ := ih a ha
      exact ⟨b, List.mem_cons_of_mem _ hb, hrb⟩

theorem Forall2.right {α β} {R : α → β → Prop} {as bs} (hf : Forall2 R as bs) :
    ∀ b ∈ bs, ∃ a ∈ as, R a b := by
  induction hf with
  | nil => simp
  | cons hr _ ih =>
    intro b hb
    rcases List.mem_cons.1 hb with rfl | hb
    · exact ⟨_, List.mem_cons_self .., hr⟩
    · obtain ⟨a, ha, hra⟩ := ih b hb
      exact ⟨a, List.mem_cons_of_mem _ ha, hra⟩

theorem Forall2.map_right {α β γ} {R : α → β → Prop} {S : α → γ → Prop} (f : β → γ)
    (h : ∀ a b, R a b → S a (f b)) {as bs} (hf : Forall2 R as bs) : Forall2 S as (bs.map f) := by
  induction hf with
  | nil => exact .nil
  | cons hr _ ih => exact .cons (h _ _ hr) ih

/-- relation between a queued module before and after the first loop of `MIR_link` -/
def Bound (env' : Env) (m m' : Mod) : Prop :=
  m' = { m with binds := m'.binds } ∧
  ∀ n ∈ m.importNames, m'.binds.lookup n = env'.lookup n ∧ (env'.lookup n).isSome = true

theorem resolveQueue_ok {res : Resolver} {q q' : List Mod} {env env' : Env}
    (h : resolveQueue res q env = (env', q', none)) :
    Extended res (q.flatMap Mod.importNames) env env' ∧ Forall2 (Bound env') q q' := by
  induction q generalizing env q' with
  | nil =>
    simp [resolveQueue] at h
    obtain ⟨rfl, rfl⟩ := h
    exact ⟨Extended.refl res env, Forall2.nil⟩
  | cons m ms ih =>
    simp only [resolveQueue] at h
    generalize hri : resolveImps res m.imps env [] = r at h
    obtain ⟨env1, bs, e1⟩ := r
    cases e1 with
    | some e => simp at h
    | none =>
      simp only at h
      generalize hrq : resolveQueue res ms env1 = r2 at h
      obtain ⟨env2, ms', e2⟩ := r2
      simp only [Prod.mk.injEq] at h
      obtain ⟨rfl, rfl, rfl⟩ := h
      obtain ⟨hext1, bs0, hbs, hnames, hall⟩ := resolveImps_ok hri
      obtain ⟨hext2, hf⟩ := ih hrq
      refine ⟨?_, Forall2.cons ⟨rfl, ?_⟩ hf⟩
      · simpa [List.flatMap_cons, Mod.importNames] using hext1.trans hext2
      · intro n hn
        simp only [List.nil_append] at hbs
        subst hbs
        have hall' : ∀ p ∈ bs, env2.lookup p.1 = some p.2 := fun p hp => hext2.mono (hall p hp)
        have hmem : n ∈ bs.map (·.1) := by rw [hnames]; exact hn
        refine ⟨lookup_of_forall (f := fun n => env2.lookup n) hmem hall', ?_⟩
        obtain ⟨p, hp, rfl⟩ := List.mem_map.1 hmem
        rw [hall' p hp]; rfl

theorem resolveQueue_err {res : Resolver} {q q' : List Mod} {env env' : Env} {e : Err}
    (h : resolveQueue res q env = (env', q', some e)) : e = .undeclaredOpRef := by
  induction q generalizing env q' with
  | nil => simp [resolveQueue] at h
  | cons m ms ih =>
    simp only [resolveQueue] at h
    generalize hri : resolveImps res m.imps env [] = r at h
    obtain ⟨env1, bs, e1⟩ := r
    cases e1 with
    | some e' =>
      simp at h
      rw [← h.2.2]; exact resolveImps_err hri
    | none =>
      simp only at h
      generalize hrq : resolveQueue res ms env1 = r2 at h
      obtain ⟨env2, ms', e2⟩ := r2
      simp only [Prod.mk.injEq] at h
      obtain ⟨rfl, _, rfl⟩ := h
      exact ih hrq

theorem resolveQueue_fails {res : Resolver} {q : List Mod} {env : Env} {m : Mod} {n : Name}
    (hm : m ∈ q) (hn : n ∈ m.importNames) (he : env.lookup n = none) (hr : res n = none) :
    (resolveQueue res q env).2.2 = some .undeclaredOpRef := by
  induction q generalizing env with
  | nil => simp at hm
  | cons m0 ms ih =>
    simp only [resolveQueue]
    generalize hri : resolveImps res m0.imps env [] = r
    obtain ⟨env1, bs, e1⟩ := r
    cases e1 with
    | some e' => simp; exact resolveImps_err hri
    | none =>
      simp only
      have hext := (resolveImps_ok hri).1
      have hn0 : n ∉ m0.imps.map (·.1) := by
        intro hmem
        have := resolveImps_fails (acc := []) hmem he hr
        rw [hri] at this; cases this
      have hm' : m ∈ ms := by
        rcases List.mem_cons.1 hm with rfl | h
        · exact absurd hn hn0
        · exact h
      have he1 : env1.lookup n = none := by rw [hext n, he]; simp [hn0]
      have := ih hm' he1
      generalize resolveQueue res ms env1 = r2 at this ⊢
      obtain ⟨env2, ms', e2⟩ := r2
      exact this

/-! ## what ANY run of the first loop of `MIR_link` (successful or not) may do to the environment -/

/-- `env'` differs from `env` only by names that were undefined and that the resolver resolves -/
def Grows (res : Resolver) (env env' : Env) : Prop :=
  ∀ n, env'.lookup n = env.lookup n ∨
       (env.lookup n = none ∧ ∃ a, res n = some a ∧ env'.lookup n = some (.ext a))

theorem Grows.refl (res : Resolver) (env : Env) : Grows res env env := fun _ => Or.inl rfl

theorem Grows.trans {res : Resolver} {e1 e2 e3 : Env} (h1 : Grows res e1 e2) (h2 : Grows res e2 e3) :
    Grows res e1 e3 := by
  intro n
  rcases h2 n with h | ⟨hn, a, ha, h3⟩
  · rw [h]; exact h1 n
  · rcases h1 n with h | ⟨hn1, a1, ha1, h21⟩
    · exact Or.inr ⟨by rw [← h]; exact hn, a, ha, h3⟩
    · rw [h21] at hn; cases hn

theorem resolveImps_grows (res : Resolver) (imps : List (Name × Use)) (env : Env)
    (acc : List (Name × Def)) : Grows res env (resolveImps res imps env acc).1 := by
  induction imps generalizing env acc with
  | nil => exact Grows.refl res env
  | cons p rest ih =>
    obtain ⟨n, u⟩ := p
    simp only [resolveImps]
    cases hl : env.lookup n with
    | some d => exact ih env _
    | none =>
      cases hr : res n with
      | none => exact Grows.refl res env
      | some a =>
        refine Grows.trans ?_ (ih _ _)
        intro m
        rw [lookup_cons_eq]
        by_cases hmn : m = n
        · subst hmn; exact Or.inr ⟨hl, a, hr, by simp⟩
        · exact Or.inl (by rw [if_neg hmn])

theorem resolveQueue_grows (res : Resolver) (q : List Mod) (env : Env) :
    Grows res env (resolveQueue res q env).1 := by
  induction q generalizing env with
  | nil => exact Grows.refl res env
  | cons m ms ih =>
    simp only [resolveQueue]
    have h1 := resolveImps_grows res m.imps env []
    generalize resolveImps res m.imps env [] = r at h1
    obtain ⟨env1, bs, e1⟩ := r
    cases e1 with
    | some e => exact h1
    | none =>
      simp only
      have h2 := ih env1
      generalize resolveQueue res ms env1 = r2 at h2
      obtain ⟨env2, ms', e2⟩ := r2
      exact Grows.trans h1 h2

/-- the first loop only writes `binds`: identity, imports, inlined bodies, interface stay -/
def sameButBinds (m m' : Mod) : Prop :=
  m'.id = m.id ∧ m'.imps = m.imps ∧ m'.inl = m.inl ∧ m'.iface = m.iface ∧ m'.coded = m.coded

theorem forall2_refl {α} {R : α → α → Prop} (h : ∀ a, R a a) (l : List α) : Forall2 R l l := by
  induction l with
  | nil => exact .nil
  | cons a as ih => exact .cons (h a) ih

theorem resolveQueue_shape (res : Resolver) (q : List Mod) (env : Env) :
    Forall2 sameButBinds q (resolveQueue res q env).2.1 := by
  induction q generalizing env with
  | nil => exact .nil
  | cons m ms ih =>
    simp only [resolveQueue]
    generalize resolveImps res m.imps env [] = r
    obtain ⟨env1, bs, e1⟩ := r
    cases e1 with
    | some e => exact forall2_refl (fun a => ⟨rfl, rfl, rfl, rfl, rfl⟩) _
    | none =>
      simp only
      have h2 := ih env1
      generalize resolveQueue res ms env1 = r2 at h2
      obtain ⟨env2, ms', e2⟩ := r2
      exact .cons ⟨rfl, rfl, rfl, rfl, rfl⟩ h2

/-! bounded TEST (not a theorem about all inputs): `declsOk`, used by `mirdrv_c13 spec` to mark module
texts on which the property statement is silent, agrees with `build` succeeding on all 585 texts of
length ≤ 3 over this alphabet -/
def testAlpha : List Decl :=
  [.exp 0, .fwd 0, .func 0, .data 0, .imp 0 .call, .exp 1, .func 1, .imp 1 .ref]
def testLists : Nat → List (List Decl)
  | 0 => [[]]
  | k + 1 => testLists k ++ (testLists k).flatMap fun l => testAlpha.map (· :: l)
def buildOk (ds : List Decl) : Bool := match build ds with | .ok _ => true | .error _ => false
example : (testLists 3).all (fun ds => buildOk ds == declsOk ds) = true := by decide +kernel

end MirVerif.Link
