import MirVerif.Model.Section
/-! Section-level lemmas about the two loops of `load_bss_data_section` (`sizeLoop`, `placeLoop`). -/

namespace MirVerif.Section

theorem Item.szSize_eq_plSize (it : Item) : it.szSize = it.plSize := by cases it <;> rfl

theorem sizeLoop_acc (acc : Nat) (f : Bool) (l : List Item) :
    sizeLoop acc f l = acc + sizeLoop 0 f l := by
  induction l generalizing acc f with
  | nil => simp [sizeLoop]
  | cons it rest ih =>
    simp only [sizeLoop]
    split
    · rw [ih (acc + it.szSize), ih (0 + it.szSize)]; omega
    · omega

/-- the placement pass ends exactly where the size pass says (before rounding) -/
theorem placeLoop_endAddr (a : Nat) (m : Mem) (f : Bool) (l : List Item) :
    (placeLoop a m f l).endAddr = a + sizeLoop 0 f l := by
  induction l generalizing a m f with
  | nil => simp [placeLoop, sizeLoop]
  | cons it rest ih =>
    simp only [placeLoop, sizeLoop]
    split
    · simp only []
      rw [ih, sizeLoop_acc (0 + it.szSize), Item.szSize_eq_plSize]; omega
    · simp

/-- sum of the sizes of a run of items -/
def extent : List Item → Nat
  | [] => 0
  | it :: l => it.plSize + extent l

theorem extent_append (l₁ l₂ : List Item) : extent (l₁ ++ l₂) = extent l₁ + extent l₂ := by
  induction l₁ with
  | nil => simp [extent]
  | cons it l ih => simp only [List.cons_append, extent, ih]; omega

theorem extent_take_succ (l : List Item) (j : Nat) (it : Item) (h : l[j]? = some it) :
    extent (l.take (j + 1)) = extent (l.take j) + it.plSize := by
  induction l generalizing j with
  | nil => simp at h
  | cons x l ih =>
    cases j with
    | zero => simp at h; subst h; simp [extent]
    | succ j =>
      simp only [List.getElem?_cons_succ] at h
      simp only [List.take_succ_cons, extent, ih j h]; omega

/-- every consumed item is put at `start + sizes of its predecessors` -/
theorem placeLoop_offs (a : Nat) (m : Mem) (f : Bool) (l : List Item) (j o : Nat)
    (h : (placeLoop a m f l).offs[j]? = some o) : o = a + extent (l.take j) := by
  induction l generalizing a m f j with
  | nil => simp [placeLoop] at h
  | cons it rest ih =>
    simp only [placeLoop] at h
    split at h
    · cases j with
      | zero => simp at h; simp [extent, h]
      | succ j =>
        simp only [List.getElem?_cons_succ] at h
        have := ih _ _ _ _ h
        simp only [List.take_succ_cons, extent]; omega
    · simp at h

theorem placeLoop_rest (a : Nat) (m : Mem) (f : Bool) (l : List Item) :
    (placeLoop a m f l).rest = l.drop (placeLoop a m f l).offs.length := by
  induction l generalizing a m f with
  | nil => simp [placeLoop]
  | cons it rest ih =>
    simp only [placeLoop]
    split
    · simp only [List.length_cons, List.drop_succ_cons]; exact ih _ _ _
    · simp

/-- every consumed item passed the guard (`first` only for the very first one) -/
theorem placeLoop_accepted (a : Nat) (m : Mem) (f : Bool) (l : List Item) (j : Nat)
    (h : j < (placeLoop a m f l).offs.length) :
    ∃ it, l[j]? = some it ∧ it.accepted (if j = 0 then f else false) = true := by
  induction l generalizing a m f j with
  | nil => simp [placeLoop] at h
  | cons it rest ih =>
    simp only [placeLoop] at h
    split at h
    · rename_i hacc
      cases j with
      | zero => exact ⟨it, by simp, by simpa using hacc⟩
      | succ j =>
        simp only [List.length_cons] at h
        obtain ⟨it', h1, h2⟩ := ih (a + it.plSize) (writeCells m a (loadCells it)) false j (by omega)
        refine ⟨it', by simpa using h1, ?_⟩
        cases j <;> simpa using h2
    · simp at h

/-- the loop stops only at the end of the list or at an item that fails the guard -/
theorem placeLoop_stop (a : Nat) (m : Mem) (f : Bool) (l : List Item) (it : Item)
    (h : (placeLoop a m f l).rest.head? = some it) :
    it.accepted (if (placeLoop a m f l).offs.length = 0 then f else false) = false := by
  induction l generalizing a m f with
  | nil => simp [placeLoop] at h
  | cons x rest ih =>
    simp only [placeLoop] at h ⊢
    split
    · rename_i hacc
      simp only [hacc, if_true] at h
      have := ih (a + x.plSize) (writeCells m a (loadCells x)) false h
      simp only [List.length_cons]
      split at this <;> simpa using this
    · rename_i hacc
      simp only [hacc] at h
      simp at h
      subst h
      simpa using hacc

theorem loadCells_length (it : Item) : (loadCells it).length = it.plSize ∨ loadCells it = [] := by
  cases it <;> simp [loadCells, dataCells, Item.plSize]

theorem loadCells_length_le (it : Item) : (loadCells it).length ≤ it.plSize := by
  rcases loadCells_length it with h | h <;> simp [h]

/-- the placement pass never writes below its starting address -/
theorem placeLoop_mem_below (a : Nat) (m : Mem) (f : Bool) (l : List Item) (x : Nat) (hx : x < a) :
    (placeLoop a m f l).mem x = m x := by
  induction l generalizing a m f with
  | nil => simp [placeLoop]
  | cons it rest ih =>
    simp only [placeLoop]
    split
    · simp only []
      rw [ih (a + it.plSize) _ false (by omega)]
      simp only [writeCells]
      split
      · omega
      · rfl
    · rfl

/-- … nor at or above its final address -/
theorem placeLoop_mem_above (a : Nat) (m : Mem) (f : Bool) (l : List Item) (x : Nat)
    (hx : (placeLoop a m f l).endAddr ≤ x) : (placeLoop a m f l).mem x = m x := by
  induction l generalizing a m f with
  | nil => simp [placeLoop]
  | cons it rest ih =>
    simp only [placeLoop] at hx ⊢
    split
    · rename_i hacc
      simp only [hacc, if_true] at hx
      simp only []
      rw [ih (a + it.plSize) _ false hx]
      have := placeLoop_endAddr (a + it.plSize) (writeCells m a (loadCells it)) false rest
      have := loadCells_length_le it
      simp only [writeCells]
      split
      · omega
      · rfl
    · rfl

/-- the bytes in the range of a consumed item after the pass: what was written for it (`data`/`bss`),
otherwise untouched -/
theorem placeLoop_mem_item (a : Nat) (m : Mem) (f : Bool) (l : List Item) (j o : Nat) (it : Item)
    (hit : l[j]? = some it) (ho : (placeLoop a m f l).offs[j]? = some o) (i : Nat) (hi : i < it.plSize) :
    (placeLoop a m f l).mem (o + i)
      = if i < (loadCells it).length then (loadCells it).getD i .undef else m (o + i) := by
  induction l generalizing a m f j with
  | nil => simp at hit
  | cons x rest ih =>
    simp only [placeLoop] at ho ⊢
    split
    · rename_i hacc
      simp only [hacc, if_true] at ho
      simp only []
      cases j with
      | zero =>
        simp at hit ho; subst hit; subst ho
        rw [placeLoop_mem_below _ _ _ _ _ (by omega)]
        simp only [writeCells]
        split
        · rename_i h; rw [if_pos (by omega)]; congr 1; omega
        · rename_i h; rw [if_neg (by omega)]
      | succ j =>
        simp only [List.getElem?_cons_succ] at hit ho
        rw [ih _ _ _ _ hit ho]
        have ho' := placeLoop_offs _ _ _ _ _ _ ho
        have := loadCells_length_le x
        split
        · rfl
        · simp only [writeCells]
          split
          · omega
          · rfl
    · rename_i hacc
      simp [hacc] at ho

theorem extent_take_mono (l : List Item) (n n' : Nat) (h : n ≤ n') :
    extent (l.take n) ≤ extent (l.take n') := by
  induction l generalizing n n' with
  | nil => simp [extent]
  | cons x l ih =>
    cases n with
    | zero => simp [extent]
    | succ n =>
      cases n' with
      | zero => omega
      | succ n' =>
        simp only [List.take_succ_cons, extent]
        have := ih n n' (by omega)
        omega

/-- the final address is the start plus the sizes of all consumed items -/
theorem placeLoop_extent (a : Nat) (m : Mem) (f : Bool) (l : List Item) :
    (placeLoop a m f l).endAddr = a + extent (l.take (placeLoop a m f l).offs.length) := by
  induction l generalizing a m f with
  | nil => simp [placeLoop, extent]
  | cons it rest ih =>
    simp only [placeLoop]
    split
    · simp only [List.length_cons, List.take_succ_cons, extent]
      rw [ih]; omega
    · simp [extent]

/-! rounding -/

theorem le_round8 (s : Nat) : s ≤ round8 s := by
  unfold round8; split <;> omega

theorem round8_mod (s : Nat) : round8 s % 8 = 0 := by
  unfold round8; split
  · rename_i h; simp at h; omega
  · rename_i h; simp at h; omega

theorem round8_lt (s : Nat) : round8 s < s + 8 := by
  unfold round8; split
  · rename_i h; simp at h; omega
  · omega

end MirVerif.Section
