import MirVerif.Lemmas.TextIOChars
/-! # C10 — `scan_token` on one written word (name, integer) followed by a delimiter -/
namespace TextIO

/-- `cs` is read back as the single token `t` whenever a delimiter follows -/
def WordOK (cs : Str) (t : Tok) : Prop :=
  ∀ d rest, isDelim d = true → lexOne (cs ++ d :: rest) = .ok (t, d :: rest)

theorem isDelim_cases {d : Char} (h : isDelim d = true) :
    d.toNat = 44 ∨ d.toNat = 10 ∨ d.toNat = 9 ∨ d.toNat = 32 ∨ d.toNat = 58 ∨ d.toNat = 40 ∨ d.toNat = 41 := by
  simp only [isDelim, Bool.or_eq_true, decide_eq_true_eq] at h
  omega

theorem isDigit_iff {c : Char} : isDigit c = true ↔ 48 ≤ c.toNat ∧ c.toNat ≤ 57 := by
  simp [isDigit]

theorem isAlpha_iff {c : Char} : isAlpha c = true ↔ (65 ≤ c.toNat ∧ c.toNat ≤ 90) ∨ (97 ≤ c.toNat ∧ c.toNat ≤ 122) := by
  simp [isAlpha]

theorem isNameChar_iff {c : Char} {first : Bool} : isNameChar c first = true ↔
    ((65 ≤ c.toNat ∧ c.toNat ≤ 90) ∨ (97 ≤ c.toNat ∧ c.toNat ≤ 122) ∨ c.toNat = 95 ∨ c.toNat = 36
      ∨ c.toNat = 37 ∨ c.toNat = 46 ∨ (first = false ∧ 48 ≤ c.toNat ∧ c.toNat ≤ 57)) := by
  cases first <;> simp [isNameChar, isAlpha, isDigit] <;> omega

/-! ## `charClass` of the characters that start a word -/

theorem charClass_of_punct1_none_punct2_none {c : Char} (h1 : punctClass1 c.toNat = none)
    (h2 : punctClass2 c.toNat = none) :
    charClass c = if isNameChar c true then .nameStart
      else if c.toNat = 43 ∨ c.toNat = 45 then .sign else if isDigit c then .digit else .other := by
  simp [charClass, h1, h2]

theorem punct_none_of {c : Char}
    (h : c.toNat ≠ 0 ∧ c.toNat ≠ 255 ∧ c.toNat ≠ 32 ∧ c.toNat ≠ 9 ∧ c.toNat ≠ 35 ∧ c.toNat ≠ 10 ∧ c.toNat ≠ 40
      ∧ c.toNat ≠ 41 ∧ c.toNat ≠ 44 ∧ c.toNat ≠ 59 ∧ c.toNat ≠ 58 ∧ c.toNat ≠ 34) :
    punctClass1 c.toNat = none ∧ punctClass2 c.toNat = none := by
  obtain ⟨a1, a2, a3, a4, a5, a6, a7, a8, a9, a10, a11, a12⟩ := h
  constructor
  · simp [punctClass1, a1, a2, a3, a4, a5, a6]
  · simp [punctClass2, a7, a8, a9, a10, a11, a12]

theorem charClass_nameStart {c : Char} (h : isNameChar c true = true) : charClass c = .nameStart := by
  have hc := isNameChar_iff.mp h
  have hp := punct_none_of (c := c) (by omega)
  rw [charClass_of_punct1_none_punct2_none hp.1 hp.2, if_pos h]

theorem charClass_digit {c : Char} (h : isDigit c = true) : charClass c = .digit := by
  have hc := isDigit_iff.mp h
  have hp := punct_none_of (c := c) (by omega)
  have hn : isNameChar c true = false := by
    cases hh : isNameChar c true
    · rfl
    · have := isNameChar_iff.mp hh; simp at this; omega
  have h43 : ¬(c.toNat = 43 ∨ c.toNat = 45) := by omega
  rw [charClass_of_punct1_none_punct2_none hp.1 hp.2]
  simp [hn, h43, h]

theorem charClass_minus {c : Char} (h : c.toNat = 45) : charClass c = .sign := by
  have hp := punct_none_of (c := c) (by omega)
  have hn : isNameChar c true = false := by
    cases hh : isNameChar c true
    · rfl
    · have := isNameChar_iff.mp hh; simp at this; omega
  rw [charClass_of_punct1_none_punct2_none hp.1 hp.2]
  simp [hn, h]

/-! ## names -/

theorem spanName_all {cs : List Char} (h : ∀ c ∈ cs, isNameChar c false = true) {d : Char}
    (hd : isNameChar d false = false) (rest : List Char) :
    spanName (cs ++ d :: rest) = (cs, d :: rest) := by
  induction cs with
  | nil => simp [spanName, hd]
  | cons c cs ih =>
    have hc := h c (List.mem_cons_self)
    have := ih (fun x hx => h x (List.mem_cons_of_mem _ hx))
    simp [spanName, hc, this]

theorem delim_not_nameChar {d : Char} (h : isDelim d = true) : isNameChar d false = false := by
  have := isDelim_cases h
  cases hh : isNameChar d false
  · rfl
  · have := isNameChar_iff.mp hh; omega

theorem ungetPeek_delim {d : Char} (h : isDelim d = true) (rest : List Char) :
    ungetPeek (d :: rest) = d :: rest := by
  have := isDelim_cases h
  simp [ungetPeek]; omega

theorem wordOK_name {n : Str} (h : nameOK n = true) : WordOK n (.name n) := by
  intro d rest hd
  cases n with
  | nil => simp [nameOK] at h
  | cons c cs =>
    simp only [nameOK, Bool.and_eq_true, List.all_eq_true] at h
    obtain ⟨hc, hcs⟩ := h
    simp only [List.cons_append, lexOne, charClass_nameStart hc]
    rw [spanName_all hcs (delim_not_nameChar hd), ungetPeek_delim hd]

/-! ## integers -/

theorem pushUnless_digit {c : Char} (h : isDigit c = true) : pushUnlessUnderscore c = [c] := by
  have := isDigit_iff.mp h
  simp only [pushUnlessUnderscore]
  rw [if_neg]
  intro hc; subst hc; simp at this

/-- the digit loop over a run of digits stops at the first character that cannot continue a number -/
theorem numLoop_run (ch : Char) (hch : ch ≠ '_') (tl : List Char)
    (htl : ∀ c ∈ tl, isDigit c = true) (d : Char)
    (hd : d.toNat ≠ 0 ∧ d.toNat ≠ 255 ∧ d.toNat ≠ 95 ∧ isDigit d = false) (rest : List Char) :
    (numLoop false ch (tl ++ d :: rest)).1 = ch :: tl ∧
    (numLoop false ch (tl ++ d :: rest)).2.2 = (some d, rest) := by
  have hpush : pushUnlessUnderscore ch = [ch] := by simp [pushUnlessUnderscore, hch]
  induction tl generalizing ch with
  | nil =>
    obtain ⟨h0, h255, h95, hdig⟩ := hd
    have hne : d ≠ '_' := by intro h; subst h; simp at h95
    simp [numLoop, h0, h255, hne, hdig, hpush]
  | cons c cs ih =>
    have hc := htl c (List.mem_cons_self)
    have hcd := isDigit_iff.mp hc
    have hne : c ≠ '_' := by intro h; subst h; simp at hcd
    have := ih c hne (fun x hx => htl x (List.mem_cons_of_mem _ hx)) (by simp [pushUnlessUnderscore, hne])
    have h0 : c.toNat ≠ 0 := by omega
    have h255 : c.toNat ≠ 255 := by omega
    simp only [List.cons_append, numLoop, h0, h255, if_false, hc, Bool.not_true, Bool.and_false,
      Bool.false_and, hpush]
    simp only [Bool.false_eq_true, if_false]
    refine ⟨by rw [this.1]; rfl, ?_⟩
    have e := this.2
    rw [Prod.ext_iff] at e
    simp only at e
    simp only [e.1, e.2]

theorem numLoop_digits (ch : Char) (hch : isDigit ch = true) (tl : List Char)
    (htl : ∀ c ∈ tl, isDigit c = true) (d : Char)
    (hd : d.toNat ≠ 0 ∧ d.toNat ≠ 255 ∧ d.toNat ≠ 95 ∧ isDigit d = false) (rest : List Char) :
    (numLoop false ch (tl ++ d :: rest)).1 = ch :: tl ∧
    (numLoop false ch (tl ++ d :: rest)).2.2 = (some d, rest) := by
  have hcd := isDigit_iff.mp hch
  exact numLoop_run ch (by intro h; subst h; simp at hcd) tl htl d hd rest

theorem delim_stops_number {d : Char} (h : isDelim d = true) :
    d.toNat ≠ 0 ∧ d.toNat ≠ 255 ∧ d.toNat ≠ 95 ∧ isDigit d = false := by
  have := isDelim_cases h
  refine ⟨by omega, by omega, by omega, ?_⟩
  cases hh : isDigit d
  · rfl
  · have := isDigit_iff.mp hh; omega

theorem getc_of_ok {c : Char} (h : c.toNat ≠ 0 ∧ c.toNat ≠ 255) (rest : List Char) :
    getc (c :: rest) = (some c, rest) := by
  simp [getc, h.1, h.2]

theorem strtoulSign_digit {c : Char} (hc : isDigit c = true) (tl : List Char) :
    strtoulSign (c :: tl) = (false, c :: tl) := by
  have hcd := isDigit_iff.mp hc
  have hm : c ≠ '-' := by intro h; subst h; simp at hcd
  have hp : c ≠ '+' := by intro h; subst h; simp at hcd
  unfold strtoulSign
  split
  · rename_i t heq; injection heq with h1 h2; exact absurd h1 hm
  · rename_i t heq; injection heq with h1 h2; exact absurd h1 hp
  · rfl

theorem validDigits10 {c : Char} {tl : List Char} (hc : isDigit c = true)
    (htl : ∀ x ∈ tl, isDigit x = true) : ∀ x ∈ c :: tl, validDigit 10 x = true := by
  intro x hx
  simp only [List.mem_cons] at hx
  rcases hx with hx | hx
  · subst hx; exact validDigit10_of_isDigit hc
  · exact validDigit10_of_isDigit (htl x hx)

theorem strtoul_digits10 {c : Char} {tl : List Char} (hc : isDigit c = true)
    (htl : ∀ x ∈ tl, isDigit x = true) :
    strtoul (c :: tl) 10 =
      if accDigits 10 (c :: tl) 0 ≥ 2 ^ 64 then BitVec.ofNat 64 (2 ^ 64 - 1)
      else BitVec.ofNat 64 (accDigits 10 (c :: tl) 0) := by
  simp only [strtoul, strtoulSign_digit hc, takeWhile_all _ _ (validDigits10 hc htl), Bool.false_eq_true,
    if_false]

theorem strtoul_neg_digits10 {c : Char} {tl : List Char} (hc : isDigit c = true)
    (htl : ∀ x ∈ tl, isDigit x = true) :
    strtoul ('-' :: c :: tl) 10 =
      if accDigits 10 (c :: tl) 0 ≥ 2 ^ 64 then BitVec.ofNat 64 (2 ^ 64 - 1)
      else BitVec.ofNat 64 (2 ^ 64 - accDigits 10 (c :: tl) 0) := by
  simp only [strtoul, strtoulSign, takeWhile_all _ _ (validDigits10 hc htl), if_true]

/-- the stages after the integer part leave a number alone when a delimiter follows -/
theorem stages_int (base : Nat) (temp : Str) {d : Char} (hd : isDelim d = true) (rest : List Char) :
    stageSuffix base (stageExp (stageFrac ⟨temp, some d, rest, false⟩)) =
      ⟨temp, base, false, false, false, d :: rest⟩ := by
  have := isDelim_cases hd
  have h1 : (some d = some '.') = False := by
    simp; intro h; subst h; simp at this
  have h2 : (some d = some 'e') = False := by
    simp; intro h; subst h; simp at this
  have h3 : (some d = some 'E') = False := by
    simp; intro h; subst h; simp at this
  simp [stageFrac, stageExp, stageSuffix, h1, h2, h3, NumSt.pos, ungetc]

theorem lexNumber_int {n : NumLex} {c : Char} {cs : List Char} (h : scanNumber c cs = .ok n)
    (hf : n.isFloat = false) (hd : n.isDouble = false) (hl : n.isLdouble = false) :
    lexNumber c cs = .ok (.int (strtoul n.repr n.base), n.rest) := by
  simp [lexNumber, h, hf, hd, hl]

end TextIO
