import MirVerif.Lemmas.LinkInv
/-! what later operations can do to a module whose interface is installed (C13, `bindings_frozen`) -/
namespace MirVerif.Link
set_option linter.unusedSimpArgs false
set_option linter.unusedVariables false

theorem codeMod_coded {env : Env} {m : Mod} (h : m.coded = true) : codeMod env m = m := by
  simp [codeMod, h]

theorem codeMod_fields (env : Env) (m : Mod) :
    (codeMod env m).id = m.id ∧ (codeMod env m).imps = m.imps ∧ (codeMod env m).inl = m.inl ∧
    (codeMod env m).iface = m.iface ∧ (codeMod env m).coded = true := by
  unfold codeMod
  split
  · simp_all
  · split <;> simp_all

/-- no call of the list loads an existing module object again -/
def NoReload (h : List Op) : Prop := ∀ op ∈ h, ∀ k, op ≠ .reload k

/-- a step leaves every module of `done` in place; only `call` may touch it, through `codeMod` -/
theorem step_done_get {s : State} {op : Op} {i : Nat} {m : Mod} (hm : s.done[i]? = some m)
    (hop : ∀ k, op ≠ .reload k) :
    (step s op).done[i]? = some m ∨ (step s op).done[i]? = some (codeMod s.env m) := by
  unfold step
  split
  · exact Or.inl hm
  · cases op with
    | loadModule id ds =>
      left
      simp only [loadModule]
      split
      · exact hm
      · split <;> exact hm
    | loadExternal n a => exact Or.inl hm
    | setRedef b => exact Or.inl hm
    | link ifc res =>
      left
      simp only [link]
      split
      · exact hm
      · cases ifc with
        | none => exact hm
        | some i' =>
          simp only
          rw [List.getElem?_append_left]
          · exact hm
          · exact (List.getElem?_eq_some_iff.1 hm).1
    | call =>
      right
      simp only [callAll_done, List.getElem?_map, hm, Option.map_some]
    | reload k => exact absurd rfl (hop k)

theorem step_done_coded {s : State} {op : Op} {i : Nat} {m : Mod} (hm : s.done[i]? = some m)
    (hc : m.coded = true) (hop : ∀ k, op ≠ .reload k) : (step s op).done[i]? = some m := by
  rcases step_done_get (op := op) hm hop with h | h
  · exact h
  · rw [h, codeMod_coded hc]

theorem runFrom_done_coded {s : State} (h : List Op) {i : Nat} {m : Mod} (hm : s.done[i]? = some m)
    (hc : m.coded = true) (hno : NoReload h) : (runFrom s h).done[i]? = some m := by
  induction h generalizing s with
  | nil => exact hm
  | cons op t ih =>
    rw [runFrom_cons]
    exact ih (step_done_coded hm hc (hno op (List.mem_cons_self ..)))
      (fun o ho => hno o (List.mem_cons_of_mem _ ho))

/-! `funcLinked` only grows -/

theorem step_done_ids {s : State} {op : Op} {id : Nat} (h : funcLinked s id = true)
    (hop : ∀ k, op ≠ .reload k) : funcLinked (step s op) id = true := by
  simp only [funcLinked, List.any_eq_true] at h ⊢
  obtain ⟨m, hm, hid⟩ := h
  obtain ⟨i, hi, hget⟩ := List.mem_iff_getElem.1 hm
  have hm' : s.done[i]? = some m := by rw [List.getElem?_eq_getElem hi, hget]
  rcases step_done_get (op := op) hm' hop with h | h
  · exact ⟨m, List.mem_of_getElem? h, hid⟩
  · exact ⟨codeMod s.env m, List.mem_of_getElem? h, by rw [(codeMod_fields s.env m).1]; exact hid⟩

theorem runFrom_done_ids {s : State} (h : List Op) {id : Nat} (hl : funcLinked s id = true)
    (hno : NoReload h) : funcLinked (runFrom s h) id = true := by
  induction h generalizing s with
  | nil => exact hl
  | cons op t ih =>
    rw [runFrom_cons]
    exact ih (step_done_ids hl (hno op (List.mem_cons_self ..)))
      (fun o ho => hno o (List.mem_cons_of_mem _ ho))

theorem observeImp_mono {s s' : State} (hmono : ∀ id, funcLinked s id = true → funcLinked s' id = true)
    (m : Mod) (p : Name × Use) {v : Nat} (h : observeImp s m p = some v) :
    observeImp s' m p = some v := by
  unfold observeImp at h ⊢
  split at h <;> try exact h
  · rename_i id _ _ _
    split at h
    · rename_i hl
      split
      all_goals first | exact h | skip
      all_goals simp_all
    · cases h
  all_goals simp_all

end MirVerif.Link
