import MirVerif.Lemmas.Section
/-! Module-level lemmas: the driving loop of `MIR_load_module` (`loadModule`). -/

namespace MirVerif.Section

/-- the call `load_bss_data_section (ctx, item, FALSE)` on a fresh block, for the section starting at
position `h` of `items` -/
def secRun (items : List Item) (h : Nat) : PlaceRes :=
  placeLoop 0 (fun _ => Cell.undef) true (items.drop h)

theorem loadModule_length (idx : Nat) (g : GMem) (items : List Item) :
    (loadModule idx g items).pl.length = items.length := by
  fun_induction loadModule idx g items
  · simp
  · rename_i idx g it rest h r res ih
    have := placeLoop_length 0 (fun _ => Cell.undef) true (it :: rest)
    simp +zetaDelta only [List.length_append, List.length_map, List.length_cons] at ih this ⊢
    omega
  · rename_i ih
    simp +zetaDelta only [List.length_cons] at ih ⊢
    omega

/-- loading later sections does not touch the blocks of earlier ones -/
theorem loadModule_g_below (idx : Nat) (g : GMem) (items : List Item) (s : Nat) (hs : s < idx) :
    (loadModule idx g items).g s = g s := by
  fun_induction loadModule idx g items
  · rfl
  · rename_i idx g it rest h r res ih
    have := ih (by omega)
    simp +zetaDelta only [] at this ⊢
    rw [this]; simp only [setSec]; rw [if_neg (by omega)]
  · rename_i ih
    exact ih (by omega)

theorem head_consumed (m : Mem) (it : Item) (rest : List Item) (h : it.isSec = true) :
    0 < (placeLoop 0 m true (it :: rest)).offs.length := by
  simp [placeLoop, Item.accepted, h]

/-- every placed item belongs to the run of `load_bss_data_section` started at its section head -/
theorem loadModule_mem (idx : Nat) (g : GMem) (items : List Item) (i : Nat) (p : Placement)
    (hp : (loadModule idx g items).pl[i]? = some (some p)) :
    idx ≤ p.sec ∧ p.sec ≤ idx + i ∧
    (secRun items (p.sec - idx)).offs[i - (p.sec - idx)]? = some p.off ∧
    (loadModule idx g items).g p.sec = (secRun items (p.sec - idx)).mem ∧
    (∃ it, items[p.sec - idx]? = some it ∧ it.isSec = true) ∧
    ⟨p.sec, sectionSize (items.drop (p.sec - idx)), (secRun items (p.sec - idx)).offs.length⟩
      ∈ (loadModule idx g items).secs ∧
    (loadModule idx g items).pl[p.sec - idx]? = some (some ⟨p.sec, 0⟩) := by
  fun_induction loadModule idx g items generalizing i
  · simp at hp
  · rename_i idx g it rest h r res ih
    have hk := head_consumed (fun _ => Cell.undef) it rest h
    simp +zetaDelta only [] at hp ih ⊢
    rw [List.getElem?_append] at hp
    simp only [List.length_map] at hp
    split at hp
    · -- inside the section that starts here
      rename_i hlt
      simp only [List.getElem?_map, Option.map_eq_some_iff] at hp
      obtain ⟨o, ho, hpo⟩ := hp
      simp only [Option.some.injEq] at hpo
      subst hpo
      refine ⟨Nat.le_refl _, by simp, ?_, ?_, ?_, ?_, ?_⟩
      · simpa [secRun] using ho
      · simp only [Nat.sub_self, secRun, List.drop_zero]
        rw [loadModule_g_below _ _ _ _ (by omega)]
        simp [setSec]
      · exact ⟨it, by simp, h⟩
      · simp [secRun]
      · have hacc : it.accepted true = true := by simp [Item.accepted, h]
        simp [placeLoop, hacc]
    · -- in a later section
      rename_i hge
      obtain ⟨h1, h2, h3, h4, h5, h6, h7⟩ := ih _ hp
      have hdrop : (it :: rest).drop (p.sec - idx)
          = (placeLoop 0 (fun _ => Cell.undef) true (it :: rest)).rest.drop
              (p.sec - (idx + (placeLoop 0 (fun _ => Cell.undef) true (it :: rest)).offs.length)) := by
        rw [placeLoop_rest, List.drop_drop]; congr 1; omega
      have hidx : i - (p.sec - idx)
          = i - (placeLoop 0 (fun _ => Cell.undef) true (it :: rest)).offs.length
            - (p.sec - (idx + (placeLoop 0 (fun _ => Cell.undef) true (it :: rest)).offs.length)) := by
        omega
      refine ⟨by omega, by omega, ?_, ?_, ?_, ?_, ?_⟩
      · simp only [secRun] at h3 ⊢; rw [hdrop, hidx]; exact h3
      · simp only [secRun] at h4 ⊢; rw [hdrop]; exact h4
      · obtain ⟨it', hit', hs'⟩ := h5
        refine ⟨it', ?_, hs'⟩
        rw [placeLoop_rest, List.getElem?_drop] at hit'
        rw [← hit']; congr 1; omega
      · simp only [secRun] at h6 ⊢; rw [hdrop]
        exact List.mem_cons_of_mem _ h6
      · rw [List.getElem?_append_right (by simp only [List.length_map]; omega)]
        simp only [List.length_map]
        rw [← h7]; congr 1; omega
  · rename_i idx g it rest h res ih
    simp +zetaDelta only [] at hp ih ⊢
    cases i with
    | zero => simp at hp
    | succ i =>
      simp only [List.getElem?_cons_succ] at hp
      obtain ⟨h1, h2, h3, h4, h5, h6, h7⟩ := ih _ hp
      have hdrop : (it :: rest).drop (p.sec - idx) = rest.drop (p.sec - (idx + 1)) := by
        have : p.sec - idx = (p.sec - (idx + 1)) + 1 := by omega
        rw [this, List.drop_succ_cons]
      have hidx : i + 1 - (p.sec - idx) = i - (p.sec - (idx + 1)) := by omega
      refine ⟨by omega, by omega, ?_, ?_, ?_, ?_, ?_⟩
      · simp only [secRun] at h3 ⊢; rw [hdrop, hidx]; exact h3
      · simp only [secRun] at h4 ⊢; rw [hdrop]; exact h4
      · obtain ⟨it', hit', hs'⟩ := h5
        refine ⟨it', ?_, hs'⟩
        have : p.sec - idx = (p.sec - (idx + 1)) + 1 := by omega
        rw [this, List.getElem?_cons_succ]; exact hit'
      · simp only [secRun] at h6 ⊢; rw [hdrop]; exact h6
      · have : p.sec - idx = (p.sec - (idx + 1)) + 1 := by omega
        rw [this, List.getElem?_cons_succ]; exact h7

/-- `loadModule_mem` for a whole module -/
theorem load_mem (items : List Item) (i : Nat) (p : Placement)
    (hp : (load items).pl[i]? = some (some p)) :
    p.sec ≤ i ∧
    (secRun items p.sec).offs[i - p.sec]? = some p.off ∧
    (load items).g p.sec = (secRun items p.sec).mem ∧
    (∃ it, items[p.sec]? = some it ∧ it.isSec = true) ∧
    ⟨p.sec, sectionSize (items.drop p.sec), (secRun items p.sec).offs.length⟩ ∈ (load items).secs ∧
    (load items).pl[p.sec]? = some (some ⟨p.sec, 0⟩) := by
  have := loadModule_mem 0 (fun _ _ => Cell.undef) items i p hp
  simpa [load] using this.2

/-! ## one-pass specification of the placements and its equivalence with the two nested loops -/

/-- left-to-right description: `cur` = (head index, next free offset) of the section that is still
open, `none` after a non-data item -/
def placeSpec (cur : Option (Nat × Nat)) (idx : Nat) : List Item → List (Option Placement)
  | [] => []
  | it :: tl =>
    if it.isSec then
      match cur with
      | some (h, o) =>
        if it.name.isNone then some ⟨h, o⟩ :: placeSpec (some (h, o + it.plSize)) (idx + 1) tl
        else some ⟨idx, 0⟩ :: placeSpec (some (idx, it.plSize)) (idx + 1) tl
      | none => some ⟨idx, 0⟩ :: placeSpec (some (idx, it.plSize)) (idx + 1) tl
    else none :: placeSpec none (idx + 1) tl

theorem placeSpec_continue (h a : Nat) (m : Mem) (idx : Nat) (l : List Item) :
    placeSpec (some (h, a)) idx l
      = (placeLoop a m false l).offs.map (fun o => some ⟨h, o⟩)
        ++ placeSpec none (idx + (placeLoop a m false l).offs.length) (placeLoop a m false l).rest := by
  induction l generalizing a m idx with
  | nil => simp [placeSpec, placeLoop]
  | cons it tl ih =>
    by_cases hacc : it.accepted false = true
    · have hs : it.isSec = true := by simp [Item.accepted] at hacc; exact hacc.1
      have hn : it.name.isNone = true := by simp [Item.accepted] at hacc; simpa using hacc.2
      simp only [placeSpec, placeLoop, hacc, hs, hn, if_true, List.map_cons, List.cons_append,
        List.length_cons]
      rw [ih (a + it.plSize) (writeCells m a (loadCells it)) (idx + 1)]
      congr 3; omega
    · simp only [placeLoop, hacc]
      by_cases hs : it.isSec = true
      · have hn : it.name.isNone = false := by
          cases hnm : it.name with
          | none => simp [Item.accepted, hs, hnm] at hacc
          | some _ => rfl
        simp [placeSpec, hs, hn]
      · simp [placeSpec, hs]

theorem loadModule_pl_eq_spec (idx : Nat) (g : GMem) (items : List Item) :
    (loadModule idx g items).pl = placeSpec none idx items := by
  fun_induction loadModule idx g items
  · simp [placeSpec]
  · rename_i idx g it rest h r res ih
    simp +zetaDelta only [] at ih ⊢
    rw [ih]
    have hacc : it.accepted true = true := by simp [Item.accepted, h]
    simp only [placeSpec, h, if_true, placeLoop, hacc, List.map_cons, List.cons_append, List.length_cons]
    simp only [Nat.zero_add]
    rw [placeSpec_continue idx it.plSize (writeCells (fun _ => Cell.undef) 0 (loadCells it)) (idx + 1) rest]
    congr 3; omega
  · rename_i idx g it rest h res ih
    simp +zetaDelta only [] at ih ⊢
    simp [placeSpec, h, ih]

/-- state of the one-pass description after an item -/
def curAfter (p : Option Placement) (it : Item) : Option (Nat × Nat) :=
  p.map fun p => (p.sec, p.off + it.plSize)

theorem placeSpec_head_cur (cur : Option (Nat × Nat)) (idx : Nat) (it : Item) (tl : List Item) :
    ∃ p, placeSpec cur idx (it :: tl) = p :: placeSpec (curAfter p it) (idx + 1) tl := by
  simp only [placeSpec]
  split
  · split
    · split
      · exact ⟨_, rfl⟩
      · refine ⟨some ⟨idx, 0⟩, ?_⟩; simp [curAfter]
    · refine ⟨some ⟨idx, 0⟩, ?_⟩; simp [curAfter]
  · exact ⟨none, rfl⟩

/-- what the one-pass description does after position `i` depends only on the placement of item `i` -/
theorem placeSpec_drop (cur : Option (Nat × Nat)) (idx : Nat) (l : List Item) (i : Nat) (it : Item)
    (p : Option Placement) (hit : l[i]? = some it) (hp : (placeSpec cur idx l)[i]? = some p) :
    (placeSpec cur idx l).drop (i + 1) = placeSpec (curAfter p it) (idx + i + 1) (l.drop (i + 1)) := by
  induction l generalizing cur idx i with
  | nil => simp at hit
  | cons x tl ih =>
    obtain ⟨q, hq⟩ := placeSpec_head_cur cur idx x tl
    rw [hq] at hp ⊢
    cases i with
    | zero =>
      simp at hit hp; subst hit; subst hp
      simp
    | succ i =>
      simp only [List.getElem?_cons_succ] at hit hp
      simp only [List.drop_succ_cons]
      rw [ih _ _ _ hit hp]
      congr 1; omega

end MirVerif.Section
