import MirVerif.Lemmas.TextIOElabFunc
/-! # C10 — elaboration of the items of a module, modules, whole texts -/
namespace TextIO

/-- scanner state between two items of a module -/
structure AtItem (st : St) (done : List Module) (mn : Str) (items : List Item) (tab : List TabEnt) (li : Nat) :
    Prop where
  done : st.done = done
  cur : st.cur = some ⟨mn, items⟩
  tab : st.tab = tab
  func : st.func = none
  li : st.lastInsn = li

theorem elabStmts_nil (st : St) : elabStmts st [] = .ok st := rfl

/-! ## function items -/

theorem normVar_name (v : Var) : (normVar v).name = v.name := by
  unfold normVar; split <;> rfl

theorem regNames_norm (f : Func) (body : List FItem) :
    (⟨f.name, f.res, f.args.map normVar, f.vararg, f.locals, f.globals, body⟩ : Func).regNames = f.regNames := by
  simp [Func.regNames, List.map_map, Function.comp_def, normVar_name]

theorem elab_local_lines (lines : List (List (Ty × Str))) :
    ∀ (st : St) (f : Func), st.func = some f → f.globals = [] →
      (∀ v ∈ lines.flatten, reservedName v.2 = false) →
      distinct (f.regNames ++ lines.flatten.map (·.2)) = true →
      elabStmts st (lines.map fun line => ⟨[], .local, line.map (fun v => ROp.var v.1 v.2 none), false⟩)
        = .ok { st with func := some { f with locals := f.locals ++ lines.flatten } } := by
  induction lines with
  | nil => intro st f hf _ _ _; simp [elabStmts, ← hf]
  | cons line rest ih =>
    intro st f hf hg hres hd
    have hd1 : distinct (f.regNames ++ line.map (·.2)) = true := by
      have : f.regNames ++ (line :: rest).flatten.map (·.2) = (f.regNames ++ line.map (·.2)) ++ rest.flatten.map (·.2) := by
        simp [List.append_assoc]
      rw [this] at hd
      exact (distinct_append hd).1
    have h1 := declRegs_locals line f hg (fun v hv => hres v (by simp [hv])) hd1
    have hreg : ({ f with locals := f.locals ++ line } : Func).regNames = f.regNames ++ line.map (·.2) := by
      simp [Func.regNames, hg]
    have := ih { st with func := some { f with locals := f.locals ++ line } } { f with locals := f.locals ++ line } rfl hg
      (fun v hv => hres v (by simp only [List.flatten_cons, List.mem_append]; exact Or.inr hv))
      (by rw [hreg]; simpa [List.append_assoc] using hd)
    simp only [List.map_cons, elabStmts_cons, elabStmt, hf, h1]
    simpa [List.append_assoc] using this

theorem elab_global_lines (lines : List (List (Ty × Str × Str))) :
    ∀ (st : St) (f : Func), st.func = some f →
      (∀ v ∈ lines.flatten, reservedName v.2.1 = false) →
      distinct (f.regNames ++ lines.flatten.map (·.2.1)) = true →
      distinct (f.globals.map (·.2.2) ++ lines.flatten.map (·.2.2)) = true →
      elabStmts st (lines.map fun line => ⟨[], .global, line.map (fun v => ROp.var v.1 v.2.1 (some v.2.2)), false⟩)
        = .ok { st with func := some { f with globals := f.globals ++ lines.flatten } } := by
  induction lines with
  | nil => intro st f hf _ _ _; simp [elabStmts, ← hf]
  | cons line rest ih =>
    intro st f hf hres hd hh
    have hd1 : distinct (f.regNames ++ line.map (·.2.1)) = true := by
      have : f.regNames ++ (line :: rest).flatten.map (·.2.1)
          = (f.regNames ++ line.map (·.2.1)) ++ rest.flatten.map (·.2.1) := by simp [List.append_assoc]
      rw [this] at hd
      exact (distinct_append hd).1
    have hh1 : distinct (f.globals.map (·.2.2) ++ line.map (·.2.2)) = true := by
      have : f.globals.map (·.2.2) ++ (line :: rest).flatten.map (·.2.2)
          = (f.globals.map (·.2.2) ++ line.map (·.2.2)) ++ rest.flatten.map (·.2.2) := by simp [List.append_assoc]
      rw [this] at hh
      exact (distinct_append hh).1
    have h1 := declRegs_globals line f (fun v hv => hres v (by simp [hv])) hd1 hh1
    have hreg : ({ f with globals := f.globals ++ line } : Func).regNames = f.regNames ++ line.map (·.2.1) := by
      simp [Func.regNames, List.append_assoc]
    have := ih { st with func := some { f with globals := f.globals ++ line } } { f with globals := f.globals ++ line } rfl
      (fun v hv => hres v (by simp only [List.flatten_cons, List.mem_append]; exact Or.inr hv))
      (by rw [hreg]; simpa [List.append_assoc] using hd)
      (by simpa [List.append_assoc] using hh)
    simp only [List.map_cons, elabStmts_cons, elabStmt, hf, h1]
    simpa [List.append_assoc] using this

theorem any_isRetLike_norm (body : List FItem) : (body.map normFItem).any isRetLike = body.any isRetLike := by
  induction body with
  | nil => rfl
  | cons x xs ih => cases x <;> simp [normFItem, isRetLike, ih]

theorem lastIsJmp_norm (body : List FItem) : lastIsJmp (body.map normFItem) = lastIsJmp body := by
  unfold lastIsJmp
  rw [List.getLast?_map]
  cases body.getLast? with
  | none => rfl
  | some x => cases x <;> simp [normFItem]

theorem declare_func {tab tab' : List TabEnt} {f : Func} (h : declare tab (.func f) = some tab') :
    ∃ b, addItem tab f.name .func = .ok (tab', b) := by
  simp only [declare, itemName, itemKind] at h
  split at h
  · rename_i t hh; simp only [Option.some.injEq] at h; subst h; exact ⟨true, hh⟩
  · simp at h

/-- a whole function item -/
theorem elab_func_item {st : St} {D : List Module} {mn : Str} {items : List Item} {tab tab' : List TabEnt} {li : Nat}
    (hat : AtItem st D mn items tab li) {k0 k k' : Nat} {defs : List Nat} (hk0 : k0 ≤ k)
    (hinv : LabInv st.labels k0 k defs) (hn : st.nlab = k) (f : Func)
    (hdecl : declare tab (.func f) = some tab') (hok : funcOK tab' f = true)
    (hcan : canonLabels k0 k (f.body.flatMap fitemLabels) = some k')
    (hnd : noDup (defs ++ f.body.flatMap fitemDefs) = true) :
    ∃ st', elabStmts st (stmtsOfFunc f) = .ok st' ∧
      AtItem st' D mn (items ++ [.func (normFunc f)]) tab' (lastInsnOf f.body li) ∧
      LabInv st'.labels k0 k' (defs ++ f.body.flatMap fitemDefs) ∧ st'.nlab = k' ∧ k0 ≤ k' := by
  simp only [funcOK, Bool.and_eq_true, Bool.not_eq_true', List.all_eq_true] at hok
  obtain ⟨⟨⟨⟨⟨⟨⟨⟨⟨⟨_, hres⟩, _⟩, hva⟩, _⟩, _⟩, hnres⟩, hdist⟩, hhard⟩, hbody⟩, hfin⟩ := hok
  obtain ⟨b, hadd⟩ := declare_func hdecl
  -- header
  let f0 : Func := ⟨f.name, f.res, f.args.map normVar, f.vararg, [], [], []⟩
  let st1 : St := { st with tab := tab', func := some f0 }
  have hargsd : distinct (f.args.map (·.name) ++ (f.locals.map (·.2) ++ f.globals.map (·.2.1))) = true := by
    simpa [Func.regNames, List.append_assoc] using hdist
  have hchk : checkArgNames (f.args.map normVar) [] = .ok () := by
    apply checkArgNames_ok
    · intro v hv
      simp only [List.mem_map] at hv
      obtain ⟨w, hw, rfl⟩ := hv
      have := hnres w.name (by simp [Func.regNames]; exact Or.inl ⟨w, hw, rfl⟩)
      simpa [normVar_name] using this
    · have := (distinct_append hargsd).1
      simpa [List.map_map, Function.comp_def, normVar_name] using this
  have hhdr : elabStmt st ⟨[f.name], .func, protoRops f.res f.args, f.vararg⟩ = .ok st1 := by
    have hva' : (((f.args.map normVar).isEmpty && f.vararg) = false) := by
      cases hv : f.vararg
      · simp
      · cases ha : f.args with
        | nil => simp [hv, ha] at hva
        | cons a as => simp
    simp only [elabStmt, hat.cur, hat.func, Option.isNone_some, Option.isSome_none, readProto_rops, hva', hres,
      List.headD_cons, hat.tab, hadd, hchk]
    simp [st1, f0, hat.cur]
  -- local / global lines
  have hregs0 : f0.regNames = f.args.map (·.name) := by
    simp [f0, Func.regNames, List.map_map, Function.comp_def, normVar_name]
  have hfl : (chunk8 f.locals.length f.locals).flatten = f.locals := chunk8_flatten _ _ (Nat.le_refl _)
  have hfg : (chunk8 f.globals.length f.globals).flatten = f.globals := chunk8_flatten _ _ (Nat.le_refl _)
  have hloc := elab_local_lines (chunk8 f.locals.length f.locals) st1 f0 rfl rfl
    (by rw [hfl]; intro v hv; exact hnres v.2 (by simp [Func.regNames]; exact Or.inr (Or.inl ⟨v.1, by simpa using hv⟩)))
    (by rw [hfl, hregs0]
        have : f.args.map (·.name) ++ (f.locals.map (·.2) ++ f.globals.map (·.2.1))
            = (f.args.map (·.name) ++ f.locals.map (·.2)) ++ f.globals.map (·.2.1) := by simp
        rw [this] at hargsd
        exact (distinct_append hargsd).1)
  rw [hfl] at hloc
  let f1 : Func := { f0 with locals := f0.locals ++ f.locals }
  let st2 : St := { st1 with func := some f1 }
  have hregs1 : f1.regNames = f.args.map (·.name) ++ f.locals.map (·.2) := by
    simp [f1, f0, Func.regNames, List.map_map, Function.comp_def, normVar_name]
  have hglob := elab_global_lines (chunk8 f.globals.length f.globals) st2 f1 rfl
    (by rw [hfg]; intro v hv
        exact hnres v.2.1 (by simp [Func.regNames]; exact Or.inr (Or.inr ⟨v.1, v.2.2, by simpa using hv⟩)))
    (by rw [hfg, hregs1]; simpa [List.append_assoc] using hargsd)
    (by rw [hfg]; simpa [f1, f0] using hhard)
  rw [hfg] at hglob
  let f2 : Func := { f1 with globals := f1.globals ++ f.globals }
  let st3 : St := { st2 with func := some f2 }
  have hf2 : f2 = ⟨f.name, f.res, f.args.map normVar, f.vararg, f.locals, f.globals, []⟩ := by
    simp [f2, f1, f0]
  have hregs2 : f2.regNames = f.regNames := by rw [hf2]; exact regNames_norm f []
  -- body and endfunc
  have hin3 : InFunc st3 st3 f2 := ⟨rfl, rfl, rfl, rfl⟩
  have hcur3 : st3.cur = some ⟨mn, items⟩ := hat.cur
  obtain ⟨st4, hb4, hd4, ht4, hf4, hc4, hli4, hinv4, hn4, hk4⟩ :=
    elab_body (m := ⟨mn, items⟩) f.body st3 st3 f2 [] k0 k k' defs hin3 hcur3 hk0 hinv hn
      (by rw [hregs2]; simpa [List.all_eq_true, st3, st2, st1] using hbody)
      (by simpa using hcan) (by simpa using hnd)
  let ffin : Func := { f2 with body := f2.body ++ ([] : List Nat).map FItem.label ++ f.body.map normFItem }
  have hffin : ffin = normFunc f := by
    simp [ffin, hf2, normFunc]
  have hfinish : finishFunc ffin = ffin := by
    unfold finishFunc
    have : (ffin.body.any isRetLike || lastIsJmp ffin.body) = true := by
      rw [hffin]
      simp only [normFunc]
      rw [any_isRetLike_norm, lastIsJmp_norm]
      exact hfin
    simp [this]
  refine ⟨st4, ?_, ⟨hd4.trans hat.done, ?_, ht4, hf4, ?_⟩, by simpa using hinv4, hn4, hk4⟩
  · have hb4' : elabStmts st3 (stmtsOfBody f.body [] ++ [⟨bodyPending f.body [], .endfunc, [], false⟩]) = .ok st4 := by
      simpa using hb4
    have hloc' : elabStmts st1 ((chunk8 f.locals.length f.locals).map
        fun line => ⟨[], .local, line.map (fun v => ROp.var v.1 v.2 none), false⟩) = .ok st2 := hloc
    have hglob' : elabStmts st2 ((chunk8 f.globals.length f.globals).map
        fun line => ⟨[], .global, line.map (fun v => ROp.var v.1 v.2.1 (some v.2.2)), false⟩) = .ok st3 := hglob
    simp only [stmtsOfFunc, List.append_assoc, elabStmts_append, elabStmts_cons, elabStmts_nil, hhdr, hloc', hglob']
    simpa [elabStmts_append, elabStmts_cons, elabStmts_nil] using hb4'
  · rw [hc4]
    have hff : ({ f2 with body := f2.body ++ f.body.map normFItem } : Func) = ffin := by simp [ffin]
    have : finishFunc ffin = normFunc f := by rw [hfinish, hffin]
    simp only [List.map_nil, List.append_nil]
    rw [hff, this]
  · simpa [st3, st2, st1, hat.li] using hli4

/-! ## single-line items -/

theorem newItem_ok {st : St} {D : List Module} {mn : Str} {items : List Item} {tab tab' : List TabEnt} {li : Nat}
    (hat : AtItem st D mn items tab li) (it itN : Item) (hn : itemName itN = itemName it) (hk : itemKind itN = itemKind it)
    (hd : declare tab it = some tab') :
    newItem st (itemName itN) (itemKind itN) itN = .ok { st with tab := tab', cur := some ⟨mn, items ++ [itN]⟩ } := by
  rw [hn, hk]
  simp only [declare] at hd
  unfold newItem
  simp only [hat.cur, hat.func, Option.isSome_none, Bool.false_eq_true, if_false]
  cases hnm : itemName it with
  | none =>
    simp only [hnm, Option.some.injEq] at hd
    subst hd
    simp [← hat.tab]
  | some n =>
    simp only [hnm] at hd
    split at hd
    · rename_i t hh
      simp only [Option.some.injEq] at hd; subst hd
      simp [hat.tab, hh]
    · simp at hd

theorem atItem_after {st : St} {D : List Module} {mn : Str} {items : List Item} {tab tab' : List TabEnt} {li : Nat}
    (hat : AtItem st D mn items tab li) (itN : Item) :
    AtItem { st with tab := tab', cur := some ⟨mn, items ++ [itN]⟩ } D mn (items ++ [itN]) tab' li :=
  ⟨hat.done, rfl, rfl, hat.func, hat.li⟩

theorem sextBits_mod (w : Nat) (hw : w = 8 ∨ w = 16 ∨ w = 32) (v : Nat) :
    (sextBits w v).toNat % 2 ^ w = v % 2 ^ w := by
  rcases hw with h | h | h <;> subst h <;> simp only [sextBits] <;> split <;>
    simp [BitVec.toNat_ofNat] <;> omega

theorem sextBits8 (v : Nat) : (sextBits 8 v).toNat % 256 = v % 256 := by
  simpa using sextBits_mod 8 (Or.inl rfl) v
theorem sextBits16 (v : Nat) : (sextBits 16 v).toNat % 65536 = v % 65536 := by
  simpa using sextBits_mod 16 (Or.inr (Or.inl rfl)) v
theorem sextBits32 (v : Nat) : (sextBits 32 v).toNat % 4294967296 = v % 4294967296 := by
  simpa using sextBits_mod 32 (Or.inr (Or.inr rfl)) v

theorem sextBits64 (v : Nat) : (sextBits 64 v).toNat = v % 2 ^ 64 := by
  simp only [sextBits]; split <;> simp [BitVec.toNat_ofNat] <;> omega

/-- operand the scanner builds for a data element token -/
def dataOp (ty : Ty) (v : Nat) : Op :=
  match dataRop ty v with
  | .int x => .int x
  | .flt x => .flt x
  | .dbl x => .dbl x
  | .ldbl x => .ldbl x
  | _ => .int 0

theorem elabOps_data (st : St) (ty : Ty) (els : List Nat) (acc : List Op) :
    elabOps st (.data ty) (els.map (dataRop ty)) acc = .ok (st, acc ++ els.map (dataOp ty)) := by
  induction els generalizing acc with
  | nil => simp [elabOps]
  | cons v vs ih =>
    have : elabOps st (.data ty) (dataRop ty v :: vs.map (dataRop ty)) acc
        = elabOps st (.data ty) (vs.map (dataRop ty)) (acc ++ [dataOp ty v]) := by
      cases ty <;> simp [dataRop, dataOp, elabOps]
    simp only [List.map_cons, this, ih, List.append_assoc, List.singleton_append]

theorem dataEls_ok {ty : Ty} (hb : ty.isBlk = false) (els : List Nat) :
    dataEls ty (els.map (dataOp ty)) = .ok (els.map (· % 2 ^ ty.bits)) := by
  induction els with
  | nil => rfl
  | cons v vs ih =>
    have h1 : dataEl ty (dataOp ty v) = .ok (v % 2 ^ ty.bits) := by
      cases ty <;> simp [Ty.isBlk] at hb <;>
        simp [dataOp, dataRop, dataEl, Ty.bits, sextBits8, sextBits16, sextBits32, sextBits64, BitVec.toNat_ofNat]
    simp only [List.map_cons, dataEls, h1, ih, Except.map]


theorem findFunc_map_norm (items : List Item) (n : Str) :
    findFunc (items.map normItem) n = (findFunc items n).map normFunc := by
  induction items with
  | nil => rfl
  | cons it rest ih =>
    cases it <;> simp only [List.map_cons, normItem, findFunc, ih]
    rename_i f
    by_cases h : f.name = n
    · simp [normFunc, h]
    · simp [normFunc, h, ih]

theorem itemOK_declare {w : WSt} {prev : List Item} {it : Item} (h : itemOK w prev it = true) :
    ∃ tab', declare w.tab it = some tab' := by
  unfold itemOK at h
  simp only [Bool.and_eq_true] at h
  cases hd : declare w.tab it with
  | none => simp [hd] at h
  | some t => exact ⟨t, rfl⟩

/-- one item of a module -/
theorem elab_item {st : St} {D : List Module} {mn : Str} {prev : List Item} {tab : List TabEnt} {li : Nat}
    (hat : AtItem st D mn (prev.map normItem) tab li) {k0 k k' : Nat} {defs : List Nat} (hk0 : k0 ≤ k)
    (hinv : LabInv st.labels k0 k defs) (hn : st.nlab = k) (it : Item)
    (hok : itemOK ⟨tab, li⟩ prev it = true)
    (hcan : canonLabels k0 k (itemLabels it) = some k')
    (hnd : noDup (defs ++ itemDefs it) = true) :
    ∃ st', elabStmts st (stmtsOfItem it) = .ok st' ∧
      AtItem st' D mn ((prev ++ [it]).map normItem) (stepW ⟨tab, li⟩ it).tab (stepW ⟨tab, li⟩ it).lastInsn ∧
      LabInv st'.labels k0 k' (defs ++ itemDefs it) ∧ st'.nlab = k' ∧ k0 ≤ k' := by
  obtain ⟨tab', hdecl⟩ := itemOK_declare hok
  have hdecl' : declare tab it = some tab' := hdecl
  have hstepTab : (stepW ⟨tab, li⟩ it).tab = tab' := by simp [stepW, hdecl']
  unfold itemOK at hok
  simp only [hdecl', Bool.and_eq_true] at hok
  obtain ⟨_, hok⟩ := hok
  have hmap : (prev ++ [it]).map normItem = prev.map normItem ++ [normItem it] := by simp
  -- the common end of all single-line items: `newItem` of the normalised item
  have fin : ∀ (stA : St), AtItem stA D mn (prev.map normItem) tab li → stA.labels = st.labels → stA.nlab = st.nlab →
      itemDefs it = [] → itemLabels it = [] → (stepW ⟨tab, li⟩ it).lastInsn = li →
      newItem stA (itemName (normItem it)) (itemKind (normItem it)) (normItem it)
        = .ok { stA with tab := tab', cur := some ⟨mn, prev.map normItem ++ [normItem it]⟩ } ∧
      AtItem { stA with tab := tab', cur := some ⟨mn, prev.map normItem ++ [normItem it]⟩ } D mn
        ((prev ++ [it]).map normItem) (stepW ⟨tab, li⟩ it).tab (stepW ⟨tab, li⟩ it).lastInsn ∧
      LabInv st.labels k0 k' (defs ++ itemDefs it) ∧ st.nlab = k' ∧ k0 ≤ k' := by
    intro stA hA hl hnl hdefs hlabs hli
    have hnm : itemName (normItem it) = itemName it := by cases it <;> simp [normItem, itemName, normFunc]
    have hkd : itemKind (normItem it) = itemKind it := by cases it <;> simp [normItem, itemKind]
    have hk' : k' = k := by simpa [hlabs, canonLabels] using hcan.symm
    refine ⟨newItem_ok hA it (normItem it) hnm hkd hdecl', ?_, ?_, ?_, ?_⟩
    · rw [hmap, hstepTab, hli]; exact atItem_after hA _
    · rw [hdefs, hk']; simpa using hinv
    · rw [hk']; exact hn
    · rw [hk']; exact hk0
  cases it with
  | func f =>
    have hf : funcOK tab' f = true := by simpa using hok
    obtain ⟨st', h1, h2, h3, h4, h5⟩ := elab_func_item hat hk0 hinv hn f hdecl' hf
      (by simpa [itemLabels] using hcan) (by simpa [itemDefs] using hnd)
    refine ⟨st', by simpa [stmtsOfItem] using h1, ?_, by simpa [itemDefs] using h3, h4, h5⟩
    rw [hmap, hstepTab]
    simpa [stepW, normItem] using h2
  | «export» n =>
    obtain ⟨h1, h2, h3, h4, h5⟩ := fin st hat rfl rfl rfl rfl (by simp [stepW])
    refine ⟨_, ?_, h2, h3, h4, h5⟩
    simp only [stmtsOfItem, elabStmts_cons, elabStmts_nil, elabStmt, elabOps, elabName]
    simp only [normItem, itemName, itemKind] at h1
    simp [h1, Except.map, normItem]
  | «import» n =>
    obtain ⟨h1, h2, h3, h4, h5⟩ := fin st hat rfl rfl rfl rfl (by simp [stepW])
    refine ⟨_, ?_, h2, h3, h4, h5⟩
    simp only [stmtsOfItem, elabStmts_cons, elabStmts_nil, elabStmt, elabOps, elabName]
    simp only [normItem, itemName, itemKind] at h1
    simp [h1, Except.map, normItem]
  | forward n =>
    obtain ⟨h1, h2, h3, h4, h5⟩ := fin st hat rfl rfl rfl rfl (by simp [stepW])
    refine ⟨_, ?_, h2, h3, h4, h5⟩
    simp only [stmtsOfItem, elabStmts_cons, elabStmts_nil, elabStmt, elabOps, elabName]
    simp only [normItem, itemName, itemKind] at h1
    simp [h1, Except.map, normItem]
  | bss name len =>
    obtain ⟨h1, h2, h3, h4, h5⟩ := fin st hat rfl rfl rfl rfl (by simp [stepW])
    have hlt : len.toNat < 2 ^ 63 := by simpa using hok
    have hlen : ¬ (len.toNat ≥ 2 ^ 63) := by omega
    refine ⟨_, ?_, h2, h3, h4, h5⟩
    simp only [stmtsOfItem, elabStmts_cons, elabStmts_nil, elabStmt, elabOps]
    simp only [normItem, itemName, itemKind] at h1
    have hname : optLabel (optL name) = name := by cases name <;> rfl
    simp [hlen, hname, h1, normItem]
  | data name ty els =>
    obtain ⟨h1, h2, h3, h4, h5⟩ := fin st hat rfl rfl rfl rfl (by simp [stepW])
    simp only [dataOK, Bool.and_eq_true, Bool.not_eq_true'] at hok
    obtain ⟨hb, _⟩ := hok
    refine ⟨_, ?_, h2, h3, h4, h5⟩
    simp only [stmtsOfItem, elabStmts_cons, elabStmts_nil, elabStmt, elabOps_data, List.nil_append]
    simp only [normItem, itemName, itemKind] at h1
    have hname : optLabel (optL name) = name := by cases name <;> rfl
    have hde := dataEls_ok hb els
    simp [hde, hb, hname, h1, normItem]
  | ref name item disp =>
    obtain ⟨h1, h2, h3, h4, h5⟩ := fin st hat rfl rfl rfl rfl (by simp [stepW])
    simp only [Bool.and_eq_true] at hok
    obtain ⟨_, htf⟩ := hok
    have hstale : labelPos (headCode .ref) 0 = false := by decide +kernel
    refine ⟨_, ?_, h2, h3, h4, h5⟩
    simp only [normItem, itemName, itemKind] at h1
    have hname : optLabel (optL name) = name := by cases name <;> rfl
    simp only [stmtsOfItem, elabStmts_cons, elabStmts_nil, elabStmt, elabOps, elabName, List.length_nil, hstale]
    simp [hat.cur, hat.tab, htf, hname, h1, normItem]
  | expr name fn =>
    obtain ⟨h1, h2, h3, h4, h5⟩ := fin st hat rfl rfl rfl rfl (by simp [stepW])
    simp only [Bool.and_eq_true] at hok
    obtain ⟨⟨_, htab⟩, hfun⟩ := hok
    have hstale : labelPos (headCode .expr) 0 = false := by decide +kernel
    refine ⟨_, ?_, h2, h3, h4, h5⟩
    simp only [normItem, itemName, itemKind] at h1
    have hname : optLabel (optL name) = name := by cases name <;> rfl
    cases hte : tabFind tab fn with
    | none => simp [hte] at htab
    | some e =>
      have hek : e.kind = .func := by simpa [hte] using htab
      cases hff : findFunc prev fn with
      | none => simp [hff] at hfun
      | some f0 =>
        simp only [hff, Bool.and_eq_true, Bool.not_eq_true', decide_eq_true_eq] at hfun
        obtain ⟨⟨hva, hae⟩, hrl⟩ := hfun
        have hfn : findFunc (prev.map normItem) fn = some (normFunc f0) := by rw [findFunc_map_norm, hff]; rfl
        have hae' : f0.args = [] := by simpa [List.isEmpty_iff] using hae
        simp only [stmtsOfItem, elabStmts_cons, elabStmts_nil, elabStmt, elabOps, elabName, List.length_nil, hstale]
        simp [hat.cur, hat.tab, hte, hek, hfn, hname, h1, normItem, normFunc, hva, hrl, hae']
  | proto name res args va =>
    obtain ⟨h1, h2, h3, h4, h5⟩ := fin st hat rfl rfl rfl rfl (by simp [stepW])
    simp only [Bool.and_eq_true, Bool.not_eq_true'] at hok
    refine ⟨_, ?_, h2, h3, h4, h5⟩
    simp only [normItem, itemName, itemKind] at h1
    simp only [stmtsOfItem, elabStmts_cons, elabStmts_nil, elabStmt, hat.cur, readProto_rops, hok.1]
    simp [h1, normItem]
  | lref name l1 l2 disp =>
    have hname : optLabel (optL name) = name := by cases name <;> rfl
    have hnm : itemName (normItem (.lref name l1 l2 disp)) = itemName (.lref name l1 l2 disp) := rfl
    have hdefs : itemDefs (.lref name l1 l2 disp) = [] := rfl
    cases l2 with
    | none =>
      have hcan1 : canonLabels k0 k [l1] = some k' := by simpa [itemLabels] using hcan
      obtain ⟨k1, hs1, hs2⟩ := canonLabels_cons_some hcan1
      obtain ⟨st1, hc1, hsame1, hinv1, hn1, hk1⟩ := createLabel_use hk0 hinv hn hs1
      have hat1 : AtItem st1 D mn (prev.map normItem) tab li :=
        ⟨hsame1.1.trans hat.done, hsame1.2.1.trans hat.cur, hsame1.2.2.1.trans hat.tab, hsame1.2.2.2.1.trans hat.func,
          hsame1.2.2.2.2.trans hat.li⟩
      simp only [canonLabels, Option.some.injEq] at hs2
      subst hs2
      have hni := newItem_ok hat1 (.lref name l1 none disp) (.lref name l1 none disp) rfl rfl hdecl'
      simp only [itemName, itemKind] at hni
      refine ⟨{ st1 with tab := tab', cur := some ⟨mn, prev.map normItem ++ [.lref name l1 none disp]⟩ }, ?_, ?_,
        by simpa [hdefs] using hinv1, hn1, hk1⟩
      · by_cases hd : disp = 0#64
        · subst hd
          simp [stmtsOfItem, lrefRops, elabStmts_cons, elabStmts_nil, elabStmt, elabOps, elabName, hc1, Except.map,
            hname, hni]
        · simp [stmtsOfItem, lrefRops, hd, elabStmts_cons, elabStmts_nil, elabStmt, elabOps, elabName, hc1,
            Except.map, hname, hni]
      · rw [hmap, hstepTab]
        have : (stepW ⟨tab, li⟩ (.lref name l1 none disp)).lastInsn = li := rfl
        rw [this]
        exact atItem_after hat1 _
    | some l =>
      have hcan1 : canonLabels k0 k [l1, l] = some k' := by simpa [itemLabels] using hcan
      obtain ⟨k1, hs1, hs2⟩ := canonLabels_cons_some hcan1
      obtain ⟨st1, hc1, hsame1, hinv1, hn1, hk1⟩ := createLabel_use hk0 hinv hn hs1
      have hat1 : AtItem st1 D mn (prev.map normItem) tab li :=
        ⟨hsame1.1.trans hat.done, hsame1.2.1.trans hat.cur, hsame1.2.2.1.trans hat.tab, hsame1.2.2.2.1.trans hat.func,
          hsame1.2.2.2.2.trans hat.li⟩
      obtain ⟨k2, hs3, hs4⟩ := canonLabels_cons_some hs2
      simp only [canonLabels, Option.some.injEq] at hs4
      subst hs4
      obtain ⟨st2, hc2, hsame2, hinv2, hn2, hk2⟩ := createLabel_use hk1 hinv1 hn1 hs3
      have hat2 : AtItem st2 D mn (prev.map normItem) tab li :=
        ⟨hsame2.1.trans hat1.done, hsame2.2.1.trans hat1.cur, hsame2.2.2.1.trans hat1.tab,
          hsame2.2.2.2.1.trans hat1.func, hsame2.2.2.2.2.trans hat1.li⟩
      have hni := newItem_ok hat2 (.lref name l1 (some l) disp) (.lref name l1 (some l) disp) rfl rfl hdecl'
      simp only [itemName, itemKind] at hni
      refine ⟨{ st2 with tab := tab', cur := some ⟨mn, prev.map normItem ++ [.lref name l1 (some l) disp]⟩ }, ?_, ?_,
        by simpa [hdefs] using hinv2, hn2, hk2⟩
      · by_cases hd : disp = 0#64
        · subst hd
          simp [stmtsOfItem, lrefRops, elabStmts_cons, elabStmts_nil, elabStmt, elabOps, elabName, hc1, hc2, Except.map,
            hname, hni]
        · simp [stmtsOfItem, lrefRops, hd, elabStmts_cons, elabStmts_nil, elabStmt, elabOps, elabName, hc1, hc2,
            Except.map, hname, hni]
      · rw [hmap, hstepTab]
        have : (stepW ⟨tab, li⟩ (.lref name l1 (some l) disp)).lastInsn = li := rfl
        rw [this]
        exact atItem_after hat2 _

end TextIO
