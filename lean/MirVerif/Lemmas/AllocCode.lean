/-
C17 — the code-page model is accepted by the ledger: `_MIR_set_code` writes only inside its own
write window and closes it; the ranges computed by `add_code`, `_MIR_change_code`,
`_MIR_update_code_arr` are page aligned, inside the mapped holder and cover every written byte —
for every page size, address and length.
-/
import MirVerif.Lemmas.Alloc
import MirVerif.Model.AllocCode

namespace MirVerif.AllocCode
open MirVerif.Alloc

variable {M : Type} [LiveMap M]

/-- `L'` has the same blocks, regions and (closed) write windows as `L` -/
structure Same (L L' : Ledger M) : Prop where
  ps : L'.ps = L.ps
  maps : L'.maps = L.maps
  wr : L'.wr = []
  live : L'.live = L.live

theorem mod_sub_of_mod {ps a b : Nat} (ha : a % ps = 0) (hb : b % ps = 0) : (b - a) % ps = 0 := by
  by_cases h : a ≤ b
  · exact Nat.sub_mod_eq_zero_of_mod_eq (by rw [ha, hb])
  · have : b - a = 0 := by omega
    simp [this]

/-- the W request of `_MIR_set_code`: afterwards exactly the pages of the range are write-enabled -/
theorem protect_w_step {L : Ledger M} {s l start len : Nat} (hps : 0 < L.ps) (hwr : L.wr = [])
    (hr : (s, l) ∈ L.maps) (hs : s % L.ps = 0) (hl : l % L.ps = 0)
    (ha : start % L.ps = 0) (h1 : s ≤ start) (h2 : start + len ≤ s + l) :
    step L (.protect start len .writeExec) = .ok { L with wr := pagesOf L.ps start len } := by
  simp only [step, ha, ne_eq, not_true_eq_false, ↓reduceIte]
  by_cases h0 : len = 0
  · subst h0
    simp only [↓reduceIte, pagesOf]
    cases L; simp only at hwr; subst hwr; rfl
  · simp only [h0, ↓reduceIte]
    have hin : L.maps.any (insideRegion L.ps start len) = true := by
      rw [List.any_eq_true]
      refine ⟨(s, l), hr, ?_⟩
      simp only [insideRegion, Bool.and_eq_true, decide_eq_true_eq]
      refine ⟨h1, ?_⟩
      rw [roundUp_of_mod hps hl]
      apply roundUp_le_of_mod hps _ h2
      rw [Nat.add_mod, hs, hl]; simp
    simp [hin, hwr]

/-- the X request closes the window opened by the matching W request -/
theorem protect_x_step {L : Ledger M} {s l start len : Nat} (hps : 0 < L.ps)
    (hwr : L.wr = pagesOf L.ps start len)
    (hr : (s, l) ∈ L.maps) (hs : s % L.ps = 0) (hl : l % L.ps = 0)
    (ha : start % L.ps = 0) (h1 : s ≤ start) (h2 : start + len ≤ s + l) :
    step L (.protect start len .readExec) = .ok { L with wr := [] } := by
  simp only [step, ha, ne_eq, not_true_eq_false, ↓reduceIte]
  by_cases h0 : len = 0
  · subst h0
    simp only [↓reduceIte]
    simp only [pagesOf, ↓reduceIte] at hwr
    cases L; simp only at hwr; subst hwr; rfl
  · simp only [h0, ↓reduceIte]
    have hin : L.maps.any (insideRegion L.ps start len) = true := by
      rw [List.any_eq_true]
      refine ⟨(s, l), hr, ?_⟩
      simp only [insideRegion, Bool.and_eq_true, decide_eq_true_eq]
      refine ⟨h1, ?_⟩
      rw [roundUp_of_mod hps hl]
      apply roundUp_le_of_mod hps _ h2
      rw [Nat.add_mod, hs, hl]; simp
    simp only [hin, ↓reduceIte]
    congr 2
    rw [List.filter_eq_nil_iff]
    intro q hq
    rw [hwr] at hq
    simp [hq]

theorem writes_run {L : Ledger M} {start len : Nat} (hwr : L.wr = pagesOf L.ps start len)
    (writes : List (Nat × Nat))
    (hw : ∀ x ∈ writes, start ≤ x.1 ∧ x.1 + x.2 ≤ start + len) :
    run L (writes.map (fun x => Ev.write x.1 x.2)) = .ok L := by
  induction writes with
  | nil => rfl
  | cons x xs ih =>
    have hx := hw x (List.mem_cons_self)
    have : step L (.write x.1 x.2) = .ok L := by
      have : (pagesOf L.ps x.1 x.2).all (fun p => L.wr.contains p) = true := by
        rw [List.all_eq_true]
        intro p hp
        rw [hwr]
        simp only [List.contains_eq_mem, decide_eq_true_eq]
        exact pagesOf_subset hx.1 hx.2 hp
      simp only [step, this, ↓reduceIte]
    simp only [List.map_cons, run, this]
    exact ih (fun y hy => hw y (List.mem_cons_of_mem _ hy))

/-- **`_MIR_set_code` is accepted and leaves no window open** whenever its protected range is page
aligned, lies in a mapped (page aligned) region and covers every write -/
theorem setCode_ok {L : Ledger M} {s l start len : Nat} (writes : List (Nat × Nat))
    (hps : 0 < L.ps) (hwr : L.wr = [])
    (hr : (s, l) ∈ L.maps) (hs : s % L.ps = 0) (hl : l % L.ps = 0)
    (ha : start % L.ps = 0) (h1 : s ≤ start) (h2 : start + len ≤ s + l)
    (hw : ∀ x ∈ writes, start ≤ x.1 ∧ x.1 + x.2 ≤ start + len) :
    ∃ L', run L (setCode start len writes) = .ok L' ∧ Same L L' := by
  have e1 := protect_w_step (len := len) hps hwr hr hs hl ha h1 h2
  let L1 : Ledger M := { L with wr := pagesOf L.ps start len }
  have e2 : run L1 (writes.map (fun x => Ev.write x.1 x.2)) = .ok L1 := writes_run (L := L1) rfl writes hw
  have e3 : step L1 (.protect start len .readExec) = .ok { L1 with wr := [] } :=
    protect_x_step (L := L1) hps rfl hr hs hl ha h1 h2
  refine ⟨{ L1 with wr := [] }, ?_, ⟨rfl, rfl, rfl, rfl⟩⟩
  show run L (Ev.protect start len .writeExec :: (writes.map (fun x => Ev.write x.1 x.2)
    ++ [Ev.protect start len .readExec])) = _
  exact run_cons_ok e1 (run_append_ok e2 (run_single e3))

/-! ### the ranges computed by the callers of `_MIR_set_code` -/

/-- `_MIR_change_code`: the protected range is page aligned and covers the written bytes -/
theorem changeRange_covers (ps addr codeLen : Nat) :
    (changeRange ps addr codeLen).1 % ps = 0 ∧ (changeRange ps addr codeLen).1 ≤ addr
      ∧ addr + codeLen = (changeRange ps addr codeLen).1 + (changeRange ps addr codeLen).2 := by
  simp only [changeRange]
  have := roundDown_le ps addr
  exact ⟨roundDown_mod ps addr, this, by omega⟩

theorem le_maxOffset_aux (offs : List Nat) (m o : Nat) (h : o ∈ offs ∨ o ≤ m) :
    o ≤ offs.foldl (fun m o => if m < o then o else m) m := by
  induction offs generalizing m with
  | nil => simpa using h
  | cons x xs ih =>
    simp only [List.foldl_cons]
    apply ih
    rcases h with h | h
    · rcases List.mem_cons.mp h with e | e
      · right; subst e; split <;> omega
      · left; exact e
    · right; split <;> omega

theorem le_maxOffset {offs : List Nat} {o : Nat} (h : o ∈ offs) : o ≤ maxOffset offs :=
  le_maxOffset_aux offs 0 o (Or.inl h)

/-- `_MIR_update_code_arr`: aligned, and every pointer-sized store is inside -/
theorem updateRange_covers (ps base : Nat) (offs : List Nat) :
    (updateRange ps base offs).1 % ps = 0 ∧ (updateRange ps base offs).1 ≤ base
      ∧ base + maxOffset offs + ptrSize = (updateRange ps base offs).1 + (updateRange ps base offs).2
      ∧ ∀ o ∈ offs, (updateRange ps base offs).1 ≤ base + o
          ∧ base + o + ptrSize ≤ (updateRange ps base offs).1 + (updateRange ps base offs).2 := by
  simp only [updateRange]
  have := roundDown_le ps base
  refine ⟨roundDown_mod ps base, this, by omega, ?_⟩
  intro o ho
  have := le_maxOffset ho
  omega

/-! ### invariant of the code context against the ledger -/

def region (h : Holder) : Nat × Nat := (h.start, h.bound - h.start)

structure HolderOk (ps : Nat) (h : Holder) : Prop where
  start_ne : h.start ≠ 0
  start_al : h.start % ps = 0
  bound_al : h.bound % ps = 0
  le1 : h.start ≤ h.free
  le2 : h.free ≤ h.bound

structure CodeOk (L : Ledger M) (C : CodeCtx) : Prop where
  ps_pos : 0 < C.ps
  ps16 : C.ps % 16 = 0
  ps_eq : L.ps = C.ps
  wr : L.wr = []
  maps : L.maps = C.holders.map region
  hok : ∀ h ∈ C.holders, HolderOk C.ps h

/-- what a correct `mem_map` may answer for a request of `len` bytes -/
def MapFresh (L : Ledger M) (len ret : Nat) : Prop :=
  ret ≠ 0 ∧ ret % L.ps = 0 ∧ ∀ r ∈ L.maps, ret + roundUp L.ps len ≤ r.1 ∨ r.1 + roundUp L.ps r.2 ≤ ret

/-- length `get_last_code_holder` maps for a request of `size` bytes -/
def mapLen (ps size : Nat) : Nat := ps * ((size + ps) / ps)

theorem lt_mapLen {ps : Nat} (h : 0 < ps) (size : Nat) : size < mapLen ps size := by
  unfold mapLen
  have := Nat.lt_mul_div_succ (size + ps) h
  rw [Nat.mul_add] at this
  omega

theorem align16_le {x b : Nat} (h : x ≤ b) (hb : b % 16 = 0) : align16 x ≤ b := by
  unfold align16; omega

theorem le_align16 (x : Nat) : x ≤ align16 x := by unfold align16; omega

theorem mod16_of_mod {ps b : Nat} (h16 : ps % 16 = 0) (hb : b % ps = 0) : b % 16 = 0 :=
  Nat.mod_eq_zero_of_dvd (Nat.dvd_trans (Nat.dvd_of_mod_eq_zero h16) (Nat.dvd_of_mod_eq_zero hb))

omit [LiveMap M] in
theorem Same.codeOk {L L' : Ledger M} {C : CodeCtx} (s : Same L L') (h : CodeOk L C) : CodeOk L' C :=
  ⟨h.ps_pos, h.ps16, by rw [s.ps]; exact h.ps_eq, s.wr, by rw [s.maps]; exact h.maps, h.hok⟩

/-- `get_last_code_holder`: accepted; afterwards the newest holder has room for `size` bytes -/
theorem getLastHolder_ok {L : Ledger M} {C : CodeCtx} (size mapRet : Nat) (h : CodeOk L C)
    (hf : MapFresh L (mapLen C.ps size) mapRet) :
    ∃ L', run L (getLastHolder C size mapRet).2 = .ok L' ∧ CodeOk L' (getLastHolder C size mapRet).1
      ∧ L'.live = L.live
      ∧ ∃ ch rest, (getLastHolder C size mapRet).1.holders = ch :: rest ∧ ch.free + size ≤ ch.bound := by
  -- mapping a fresh holder in front of any list `hs` of good holders whose regions are `L.maps`
  have fresh : ∀ hs : List Holder, L.maps = hs.map region → (∀ x ∈ hs, HolderOk C.ps x) →
      ∃ L', run L [.map (mapLen C.ps size) mapRet] = .ok L'
        ∧ CodeOk L' { C with holders := { start := mapRet, free := mapRet, bound := mapRet + mapLen C.ps size } :: hs }
        ∧ L'.live = L.live := by
    intro hs hm hk
    obtain ⟨f1, f2, f3⟩ := hf
    refine ⟨{ L with maps := (mapRet, mapLen C.ps size) :: L.maps }, ?_, ⟨h.ps_pos, h.ps16, h.ps_eq, h.wr, ?_, ?_⟩, rfl⟩
    · apply run_single
      simp only [step, f1, ↓reduceIte, f2, ne_eq, not_true_eq_false]
      have : L.maps.all (fun r => decide (mapRet + roundUp L.ps (mapLen C.ps size) ≤ r.1)
          || decide (r.1 + roundUp L.ps r.2 ≤ mapRet)) = true := by
        rw [List.all_eq_true]
        intro r hr
        rcases f3 r hr with e | e <;> simp [e]
      simp [this]
    · simp only [List.map_cons, region, hm, Nat.add_sub_cancel_left]
    · intro x hx
      rcases List.mem_cons.mp hx with e | e
      · subst e
        rw [h.ps_eq] at f2
        refine ⟨f1, f2, ?_, Nat.le_refl _, Nat.le_add_right _ _⟩
        show (mapRet + C.ps * ((size + C.ps) / C.ps)) % C.ps = 0
        rw [Nat.add_mul_mod_self_left]; exact f2
      · exact hk x e
  unfold getLastHolder
  cases hh : C.holders with
  | nil =>
    simp only
    obtain ⟨L', r, ok, lv⟩ := fresh [] (by rw [h.maps, hh]) (by simp)
    refine ⟨L', r, ok, lv, _, _, rfl, ?_⟩
    have := lt_mapLen h.ps_pos size
    simp only [mapLen] at this ⊢
    omega
  | cons ch rest =>
    simp only
    have hch : HolderOk C.ps ch := h.hok ch (by rw [hh]; exact List.mem_cons_self)
    have hch' : HolderOk C.ps { ch with free := align16 ch.free } :=
      ⟨hch.start_ne, hch.start_al, hch.bound_al, Nat.le_trans hch.le1 (le_align16 _),
       align16_le hch.le2 (mod16_of_mod h.ps16 hch.bound_al)⟩
    have hk : ∀ x ∈ ({ ch with free := align16 ch.free } :: rest), HolderOk C.ps x := by
      intro x hx
      rcases List.mem_cons.mp hx with e | e
      · rw [e]; exact hch'
      · exact h.hok x (by rw [hh]; exact List.mem_cons_of_mem _ e)
    have hm : L.maps = ({ ch with free := align16 ch.free } :: rest).map region := by
      rw [h.maps, hh]; rfl
    by_cases hfit : align16 ch.free + size ≤ ch.bound
    · rw [if_pos hfit]
      exact ⟨L, rfl, ⟨h.ps_pos, h.ps16, h.ps_eq, h.wr, hm, hk⟩, rfl, _, _, rfl, hfit⟩
    · rw [if_neg hfit]
      obtain ⟨L', r, ok, lv⟩ := fresh _ hm hk
      refine ⟨L', r, ok, lv, _, _, rfl, ?_⟩
      have := lt_mapLen h.ps_pos size
      simp only [mapLen] at this ⊢
      omega

theorem wlen_pos {n : Nat} (h : 0 < n) : wlen n = n := by
  unfold wlen; rw [if_neg (by omega)]

/-- `add_code` on a newest holder with room for the code -/
theorem addCode_ok {L : Ledger M} {C : CodeCtx} {ch : Holder} {rest : List Holder} (codeLen : Nat)
    (hpos : 0 < codeLen)
    (h : CodeOk L C) (hh : C.holders = ch :: rest) (hfit : ch.free + codeLen ≤ ch.bound) :
    ∃ L', run L (addCode C codeLen).2 = .ok L' ∧ CodeOk L' (addCode C codeLen).1 ∧ L'.live = L.live := by
  have hch : HolderOk C.ps ch := h.hok ch (by rw [hh]; exact List.mem_cons_self)
  have hr : (ch.start, ch.bound - ch.start) ∈ L.maps := by
    rw [h.maps, hh]; exact List.mem_cons_self
  have hps : 0 < L.ps := by rw [h.ps_eq]; exact h.ps_pos
  have := hch.le1
  have := hch.le2
  obtain ⟨L', r, same⟩ := setCode_ok (L := L) (s := ch.start) (l := ch.bound - ch.start)
    (start := ch.start) (len := ch.bound - ch.start) [(ch.free, wlen codeLen)] hps h.wr hr
    (by rw [h.ps_eq]; exact hch.start_al)
    (by rw [h.ps_eq]; exact mod_sub_of_mod hch.start_al hch.bound_al)
    (by rw [h.ps_eq]; exact hch.start_al) (Nat.le_refl _) (Nat.le_refl _)
    (by intro x hx; simp only [List.mem_singleton] at hx; subst hx; rw [wlen_pos hpos]; simp only; omega)
  refine ⟨L', by simp only [addCode, hh]; exact r, ?_, same.live⟩
  simp only [addCode, hh]
  refine ⟨h.ps_pos, h.ps16, by rw [same.ps]; exact h.ps_eq, same.wr, ?_, ?_⟩
  · rw [same.maps, h.maps, hh]; rfl
  · intro x hx
    rcases List.mem_cons.mp hx with e | e
    · rw [e]; exact ⟨hch.start_ne, hch.start_al, hch.bound_al, by simp only; omega, hfit⟩
    · exact h.hok x (by rw [hh]; exact List.mem_cons_of_mem _ e)

/-- the operation is legal: `mem_map` answers correctly; patched code lies in a holder -/
def CodeValid (L : Ledger M) (C : CodeCtx) : CodeOp → Prop
  | .publish codeLen mapRet => 0 < codeLen ∧ MapFresh L (mapLen C.ps codeLen) mapRet
  | .publishByAddr _ codeLen mapRet => 0 < codeLen ∧ MapFresh L (mapLen C.ps 0) mapRet
  | .getNewAddr size mapRet => MapFresh L (mapLen C.ps size) mapRet
  | .change addr codeLen => 0 < codeLen ∧ ∃ h ∈ C.holders, h.start ≤ addr ∧ addr + codeLen ≤ h.bound
  | .update base offs => ∃ h ∈ C.holders, h.start ≤ base ∧ base + maxOffset offs + ptrSize ≤ h.bound

omit [LiveMap M] in
theorem holder_region {L : Ledger M} {C : CodeCtx} (h : CodeOk L C) {ch : Holder} (hc : ch ∈ C.holders) :
    (ch.start, ch.bound - ch.start) ∈ L.maps ∧ ch.start % L.ps = 0 ∧ (ch.bound - ch.start) % L.ps = 0
      ∧ ch.start ≤ ch.bound := by
  have hch := h.hok ch hc
  refine ⟨?_, by rw [h.ps_eq]; exact hch.start_al, by rw [h.ps_eq]; exact mod_sub_of_mod hch.start_al hch.bound_al,
          Nat.le_trans hch.le1 hch.le2⟩
  rw [h.maps]; exact List.mem_map.mpr ⟨ch, hc, rfl⟩

theorem code_step_ok {L : Ledger M} {C : CodeCtx} (o : CodeOp) (h : CodeOk L C) (hv : CodeValid L C o) :
    ∃ L', run L (codeStep C o).2 = .ok L' ∧ CodeOk L' (codeStep C o).1 ∧ L'.live = L.live := by
  have hps : 0 < L.ps := by rw [h.ps_eq]; exact h.ps_pos
  cases o with
  | publish codeLen mapRet =>
    obtain ⟨hpos, hv⟩ := hv
    obtain ⟨L1, r1, ok1, lv1, ch, rest, hh, hfit⟩ := getLastHolder_ok codeLen mapRet h hv
    obtain ⟨L2, r2, ok2, lv2⟩ := addCode_ok codeLen hpos ok1 hh hfit
    exact ⟨L2, run_append_ok r1 r2, ok2, lv2.trans lv1⟩
  | publishByAddr addr codeLen mapRet =>
    obtain ⟨hpos, hv⟩ := hv
    obtain ⟨L1, r1, ok1, lv1, ch, rest, hh, _⟩ := getLastHolder_ok 0 mapRet h hv
    simp only [codeStep, hh]
    by_cases hc : ch.free = addr ∧ ch.free + codeLen ≤ ch.bound
    · rw [if_pos hc]
      obtain ⟨L2, r2, ok2, lv2⟩ := addCode_ok codeLen hpos ok1 hh hc.2
      exact ⟨L2, run_append_ok r1 r2, ok2, lv2.trans lv1⟩
    · rw [if_neg hc]
      exact ⟨L1, r1, ok1, lv1⟩
  | getNewAddr size mapRet =>
    obtain ⟨L1, r1, ok1, lv1, _⟩ := getLastHolder_ok size mapRet h hv
    exact ⟨L1, r1, ok1, lv1⟩
  | change addr codeLen =>
    obtain ⟨hpos, ch, hc, h1, h2⟩ := hv
    obtain ⟨hr, hs, hl, hle⟩ := holder_region h hc
    obtain ⟨c1, c2, c3⟩ := changeRange_covers L.ps addr codeLen
    have hch := h.hok ch hc
    obtain ⟨L', r, same⟩ := setCode_ok (L := L) [(addr, wlen codeLen)] hps h.wr hr hs hl c1
      (le_roundDown_of_mod hs h1) (by rw [← c3]; omega)
      (by intro x hx; simp only [List.mem_singleton] at hx; subst hx; rw [wlen_pos hpos]; simp only; omega)
    refine ⟨L', ?_, same.codeOk h, same.live⟩
    simp only [codeStep, changeCode, ← h.ps_eq]; exact r
  | update base offs =>
    obtain ⟨ch, hc, h1, h2⟩ := hv
    obtain ⟨hr, hs, hl, hle⟩ := holder_region h hc
    obtain ⟨c1, c2, c3, c4⟩ := updateRange_covers L.ps base offs
    obtain ⟨L', r, same⟩ := setCode_ok (L := L) (offs.map (fun o => (base + o, ptrSize))) hps h.wr hr hs hl c1
      (le_roundDown_of_mod hs h1) (by rw [← c3]; omega)
      (by
        intro x hx
        obtain ⟨o, ho, rfl⟩ := List.mem_map.mp hx
        exact c4 o ho)
    refine ⟨L', ?_, same.codeOk h, same.live⟩
    simp only [codeStep, updateCodeArr, ← h.ps_eq]; exact r

def CodeHistValid (L : Ledger M) (C : CodeCtx) : List CodeOp → Prop
  | [] => True
  | o :: os => CodeValid L C o ∧
      match run L (codeStep C o).2 with
      | .ok L' => CodeHistValid L' (codeStep C o).1 os
      | .error _ => True

theorem code_hist_ok {L : Ledger M} {C : CodeCtx} (ops : List CodeOp) (h : CodeOk L C)
    (hv : CodeHistValid L C ops) :
    ∃ L', run L (codeTrace C ops) = .ok L' ∧ CodeOk L' (codeFinal C ops) ∧ L'.live = L.live := by
  induction ops generalizing L C with
  | nil => exact ⟨L, rfl, h, rfl⟩
  | cons o os ih =>
    obtain ⟨hv1, hv2⟩ := hv
    obtain ⟨L1, r1, ok1, lv1⟩ := code_step_ok o h hv1
    rw [r1] at hv2
    obtain ⟨L2, r2, ok2, lv2⟩ := ih ok1 hv2
    exact ⟨L2, by simp only [codeTrace]; exact run_append_ok r1 r2, by simpa [codeFinal] using ok2, lv2.trans lv1⟩

/-! ### executable admissibility check -/

def mapFreshB (L : Ledger M) (len ret : Nat) : Bool :=
  ret != 0 && ret % L.ps == 0 &&
    L.maps.all (fun r => decide (ret + roundUp L.ps len ≤ r.1) || decide (r.1 + roundUp L.ps r.2 ≤ ret))

omit [LiveMap M] in
theorem mapFreshB_sound {L : Ledger M} {len ret : Nat} (h : mapFreshB L len ret = true) :
    MapFresh L len ret := by
  simp only [mapFreshB, Bool.and_eq_true, bne_iff_ne, ne_eq, beq_iff_eq, List.all_eq_true,
    Bool.or_eq_true, decide_eq_true_eq] at h
  exact ⟨h.1.1, h.1.2, fun r hr => h.2 r hr⟩

def codeValidB (L : Ledger M) (C : CodeCtx) : CodeOp → Bool
  | .publish codeLen mapRet => decide (0 < codeLen) && mapFreshB L (mapLen C.ps codeLen) mapRet
  | .publishByAddr _ codeLen mapRet => decide (0 < codeLen) && mapFreshB L (mapLen C.ps 0) mapRet
  | .getNewAddr size mapRet => mapFreshB L (mapLen C.ps size) mapRet
  | .change addr codeLen =>
      decide (0 < codeLen) && C.holders.any (fun h => decide (h.start ≤ addr) && decide (addr + codeLen ≤ h.bound))
  | .update base offs =>
      C.holders.any (fun h => decide (h.start ≤ base) && decide (base + maxOffset offs + ptrSize ≤ h.bound))

omit [LiveMap M] in
theorem codeValidB_sound {L : Ledger M} {C : CodeCtx} {o : CodeOp} (h : codeValidB L C o = true) :
    CodeValid L C o := by
  cases o with
  | publish codeLen mapRet =>
    simp only [codeValidB, Bool.and_eq_true, decide_eq_true_eq] at h
    exact ⟨h.1, mapFreshB_sound h.2⟩
  | publishByAddr addr codeLen mapRet =>
    simp only [codeValidB, Bool.and_eq_true, decide_eq_true_eq] at h
    exact ⟨h.1, mapFreshB_sound h.2⟩
  | getNewAddr size mapRet => exact mapFreshB_sound h
  | change addr codeLen =>
    simp only [codeValidB, List.any_eq_true, Bool.and_eq_true, decide_eq_true_eq] at h
    obtain ⟨hp, x, hx, h1, h2⟩ := h
    exact ⟨hp, x, hx, h1, h2⟩
  | update base offs =>
    simp only [codeValidB, List.any_eq_true, Bool.and_eq_true, decide_eq_true_eq] at h
    obtain ⟨x, hx, h1, h2⟩ := h
    exact ⟨x, hx, h1, h2⟩

def codeHistValidB (L : Ledger M) (C : CodeCtx) : List CodeOp → Bool
  | [] => true
  | o :: os => codeValidB L C o &&
      match run L (codeStep C o).2 with
      | .ok L' => codeHistValidB L' (codeStep C o).1 os
      | .error _ => true

theorem codeHistValidB_sound {L : Ledger M} {C : CodeCtx} {ops : List CodeOp}
    (h : codeHistValidB L C ops = true) : CodeHistValid L C ops := by
  induction ops generalizing L C with
  | nil => trivial
  | cons o os ih =>
    simp only [codeHistValidB, Bool.and_eq_true] at h
    refine ⟨codeValidB_sound h.1, ?_⟩
    have h2 := h.2
    cases hr : run L (codeStep C o).2 with
    | error v => trivial
    | ok L' =>
      simp only [hr] at h2
      exact ih h2

/-- `code_finish` returns every mapped region -/
theorem codeFinish_ok {L : Ledger M} {C : CodeCtx} (h : CodeOk L C) :
    ∃ L', run L (codeFinish C) = .ok L' ∧ L'.maps = [] ∧ L'.wr = [] ∧ L'.live = L.live := by
  obtain ⟨ps, hs⟩ := C
  have hm := h.maps
  have hw := h.wr
  simp only at hm
  clear h
  unfold codeFinish
  simp only
  induction hs generalizing L with
  | nil => exact ⟨L, rfl, by simpa using hm, hw, rfl⟩
  | cons x xs ih =>
    have st : step L (.unmap x.start (x.bound - x.start)) = .ok { L with maps := xs.map region } := by
      simp only [step, hm, List.map_cons, region, List.contains_cons, BEq.rfl, Bool.true_or, ↓reduceIte, hw,
        List.contains_nil, List.any_eq_true, Bool.false_eq_true, and_false, exists_false, List.erase_cons_head]
    obtain ⟨L', r, m, w', l⟩ := ih (L := { L with maps := xs.map region }) rfl hw
    exact ⟨L', by simp only [List.map_cons]; exact run_cons_ok st r, m, w', l⟩

end MirVerif.AllocCode
