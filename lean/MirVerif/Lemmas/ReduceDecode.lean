import MirVerif.Lemmas.ReduceCodec
/-! Decoder lemmas for C12: the byte-level decoder on serialised elements (element view),
monotonicity in the input (prefix-freeness), the state invariant (no out-of-bounds access),
and the hash chain. -/
namespace MirVerif.Reduce

@[simp] theorem litStarts_length (b n : Nat) : (litStarts b n).length = n := by simp [litStarts]

@[simp] theorem litStarts_zero (b : Nat) : litStarts b 0 = [] := by simp [litStarts]

theorem litStarts_succ (b n : Nat) : litStarts b (n + 1) = litStarts b n ++ [n + b] := by
  simp [litStarts, List.range_succ]

theorem litStarts_one (b : Nat) : litStarts b 1 = [b] := by simp [litStarts_succ]

/-- decoder state invariant: `curr_ind ≤ pos ≤ _REDUCE_BUF_LEN` -/
structure DInv (c : Cfg) (st : DSt) : Prop where
  starts_le : st.starts.length ≤ st.buf.length
  buf_le : st.buf.length ≤ c.bufLen

theorem DInv.init (c : Cfg) : DInv c DSt.init := ⟨Nat.le_refl _, Nat.zero_le _⟩

/-! ### element view -/

theorem decodeSym_ser (c : Cfg) (st : DSt) (lits rest : List UInt8)
    (h1 : lits.length ≤ maxSymbLen) (h2 : st.buf.length + lits.length ≤ c.bufLen)
    (h3 : st.starts.length ≤ st.buf.length) :
    decodeSym c st (if lits.length < symbTagLong then lits.length else symbTagLong)
      ((if lits.length ≥ symbTagLong then uintWrite lits.length else []) ++ lits ++ rest)
    = .ok (⟨st.buf ++ lits, st.starts ++ litStarts st.buf.length lits.length⟩, rest) := by
  unfold decodeSym
  delta symbTagLong maxSymbLen at *
  by_cases h0 : lits.length = 0
  · have : lits = [] := List.length_eq_zero_iff.mp h0
    subst this
    cases st
    simp
  · have ht : List.take lits.length (lits ++ rest) = lits := by simp
    have hd : List.drop lits.length (lits ++ rest) = rest := by simp
    have hw : writeBytes c.bufLen st.buf lits = .ok (st.buf ++ lits) := by
      simp only [writeBytes]; rw [if_pos h2]
    have hp : pushStarts c.bufLen st.starts st.buf.length lits.length
        = .ok (st.starts ++ litStarts st.buf.length lits.length) := by
      simp only [pushStarts]; rw [if_pos (by omega)]
    have hc1 : ¬ (lits.length > 2047 ∨ st.buf.length + lits.length > c.bufLen) := by omega
    have hc2 : ¬ (lits.length < lits.length) := by omega
    by_cases h7 : lits.length < 7
    · have e1 : (if lits.length < 7 then lits.length else 7) = lits.length := by rw [if_pos h7]
      have e2 : (if lits.length ≥ 7 then uintWrite lits.length else []) = [] := by
        rw [if_neg (by omega)]
      have e3 : ¬ lits.length = 7 := by omega
      simp only [e1, e2, List.nil_append, h0, e3, if_false, ht, hd, hw, hp, hc1, hc2]
    · have e1 : (if lits.length < 7 then lits.length else 7) = 7 := by rw [if_neg h7]
      have e2 : (if lits.length ≥ 7 then uintWrite lits.length else []) = uintWrite lits.length := by
        rw [if_pos (by omega)]
      have hu := uintRead_uintWrite lits.length (lits ++ rest) (by omega)
      simp only [e1, e2, List.append_assoc, hu, if_true, if_false, ht, hd, hw, hp, hc1, hc2,
        show ¬ (7 = 0) by omega]

theorem decodeRef_none (c : Cfg) (st : DSt) (rest : List UInt8) :
    decodeRef c st 0 rest = .ok (st, rest) := by
  unfold decodeRef; rfl

theorem decodeRef_ser (c : Cfg) (hc : c.Ok) (st : DSt) (len off sp : Nat) (rest : List UInt8)
    (hl : startLen ≤ len) (hl2 : len ≤ c.bufLen) (ho : 0 < off) (hoff : off ≤ st.starts.length)
    (hsp : st.starts[st.starts.length - off]? = some sp)
    (hsrc : sp + len ≤ st.buf.length) (hdst : st.buf.length + len ≤ c.bufLen)
    (hinv : st.starts.length ≤ st.buf.length) :
    decodeRef c st (if len - (startLen - 1) < refTagLong then len - (startLen - 1) else refTagLong)
      ((if len - (startLen - 1) ≥ refTagLong then uintWrite (len - (startLen - 1)) else [])
        ++ uintWrite off ++ rest)
    = .ok (⟨st.buf ++ (st.buf.drop sp).take len, st.starts ++ [st.buf.length]⟩, rest) := by
  have hlt := hc.lt
  unfold decodeRef
  delta startLen refTagLong at *
  have hoffu := uintRead_uintWrite off rest (by omega)
  have hc0 : ¬ (off = 0 ∨ st.starts.length < off) := by omega
  have hrs : readStart st.starts (st.starts.length - off) = .ok sp := by
    simp only [readStart, hsp]
  have hrb : readBytes st.buf sp len = .ok ((st.buf.drop sp).take len) := by
    simp only [readBytes]; rw [if_pos hsrc]
  have hwl : ((st.buf.drop sp).take len).length = len := by
    simp only [List.length_take, List.length_drop]; omega
  have hw : writeBytes c.bufLen st.buf ((st.buf.drop sp).take len)
      = .ok (st.buf ++ (st.buf.drop sp).take len) := by
    simp only [writeBytes]; rw [if_pos (by omega)]
  have hp : pushStarts c.bufLen st.starts st.buf.length 1 = .ok (st.starts ++ [st.buf.length]) := by
    simp only [pushStarts, litStarts_one]; rw [if_pos (by omega)]
  by_cases h31 : len - (4 - 1) < 31
  · have e1 : (if len - (4 - 1) < 31 then len - (4 - 1) else 31) = len - (4 - 1) := by rw [if_pos h31]
    have e2 : (if len - (4 - 1) ≥ 31 then uintWrite (len - (4 - 1)) else []) = [] := by
      rw [if_neg (by omega)]
    have e3 : ¬ (len - (4 - 1) = 0) := by omega
    have e4 : ¬ (len - (4 - 1) = 31) := by omega
    have e5 : len - (4 - 1) + (4 - 1) = len := by omega
    have hc1 : ¬ (sp + len > st.buf.length ∨ st.buf.length + len > c.bufLen) := by omega
    simp only [e1, e2, e3, e4, e5, if_false, List.nil_append, hoffu, hc0, hrs, hc1, hrb, hw, hp]
  · have e1 : (if len - (4 - 1) < 31 then len - (4 - 1) else 31) = 31 := by rw [if_neg h31]
    have e2 : (if len - (4 - 1) ≥ 31 then uintWrite (len - (4 - 1)) else [])
        = uintWrite (len - (4 - 1)) := by rw [if_pos (by omega)]
    have hu := uintRead_uintWrite (len - (4 - 1)) (uintWrite off ++ rest) (by omega)
    have e5 : len - (4 - 1) + (4 - 1) = len := by omega
    have hc1 : ¬ (sp + len > st.buf.length ∨ st.buf.length + len > c.bufLen) := by omega
    simp only [e1, e2, List.append_assoc, hu, e5, if_true, if_false, hoffu, hc0, hrs, hc1, hrb, hw, hp,
      show ¬ (31 = 0) by omega]

theorem elTag_toNat (e : El) :
    (elTag e).toNat =
      (if e.lits.length < symbTagLong then e.lits.length else symbTagLong) * 32 +
      (match e.ref with
        | none => 0
        | some (len, _) =>
          if len - (startLen - 1) < refTagLong then len - (startLen - 1) else refTagLong) := by
  unfold elTag
  simp only [UInt8.toNat_ofNat']
  apply Nat.mod_eq_of_lt
  delta symbTagLong refTagLong startLen
  have h1 : (if e.lits.length < 7 then e.lits.length else 7) ≤ 7 := by split <;> omega
  cases e.ref with
  | none => simp only; omega
  | some r =>
    obtain ⟨len, off⟩ := r
    simp only
    have h2 : (if len - (4 - 1) < 31 then len - (4 - 1) else 31) ≤ 31 := by split <;> omega
    omega

theorem elTag_ne_zero (c : Cfg) (e : El) (hok : ElOk c e) : elTag e ≠ 0 := by
  intro h
  have h2 := elTag_toNat e
  rw [h] at h2
  have hne := hok.nonempty
  have hr := hok.ref_ok
  delta symbTagLong refTagLong startLen at *
  simp only [UInt8.toNat_zero] at h2
  have hl : e.lits.length = 0 := by
    by_cases h7 : e.lits.length < 7
    · rw [if_pos h7] at h2; omega
    · rw [if_neg h7] at h2; omega
  have hl' : e.lits = [] := List.length_eq_zero_iff.mp hl
  rcases hne with hne | hne
  · exact hne hl'
  · cases hre : e.ref with
    | none => exact hne hre
    | some r =>
      obtain ⟨len, off⟩ := r
      have : 4 ≤ len := (hr len off hre).1
      rw [hre] at h2
      simp only at h2
      by_cases h31 : len - (4 - 1) < 31
      · rw [if_pos h31] at h2; omega
      · rw [if_neg h31] at h2; omega

theorem decodeEl_serEl (c : Cfg) (hc : c.Ok) (st st' : DSt) (e : El) (rest : List UInt8)
    (hok : ElOk c e) (happ : applyEl st e = some st') (hlen : st'.buf.length ≤ c.bufLen)
    (hinv : st.starts.length ≤ st.buf.length) :
    decodeEl c st (elTag e) (elBody e ++ rest) = .ok (st', rest) := by
  have hT := elTag_toNat e
  have hs7 : (if e.lits.length < symbTagLong then e.lits.length else symbTagLong) ≤ 7 := by
    delta symbTagLong; split <;> omega
  unfold decodeEl
  obtain ⟨lits, ref⟩ := e
  cases ref with
  | none =>
    simp only [applyEl, Option.some.injEq] at happ
    subst happ
    simp only at hT hlen hs7
    have hd : (elTag ⟨lits, none⟩).toNat / 32
        = (if lits.length < symbTagLong then lits.length else symbTagLong) := by rw [hT]; omega
    have hm : (elTag ⟨lits, none⟩).toNat % 32 = 0 := by rw [hT]; omega
    rw [hd, hm]
    simp only [elBody, List.append_nil]
    rw [decodeSym_ser c st lits rest hok.lits_le (by simpa using hlen) hinv]
    simp only [decodeRef_none]
  | some r =>
    obtain ⟨len, off⟩ := r
    have hr := hok.ref_ok len off rfl
    simp only at hT hs7
    have hr31 : (if len - (startLen - 1) < refTagLong then len - (startLen - 1) else refTagLong) ≤ 31 := by
      delta refTagLong; split <;> omega
    have hd : (elTag ⟨lits, some (len, off)⟩).toNat / 32
        = (if lits.length < symbTagLong then lits.length else symbTagLong) := by rw [hT]; omega
    have hm : (elTag ⟨lits, some (len, off)⟩).toNat % 32
        = (if len - (startLen - 1) < refTagLong then len - (startLen - 1) else refTagLong) := by
      rw [hT]; omega
    rw [hd, hm]
    simp only [applyEl] at happ
    split at happ
    · cases happ
    · rename_i hc0
      split at happ
      · cases happ
      · rename_i sp hsp
        split at happ
        · cases happ
        · rename_i hsrc
          simp only [Option.some.injEq] at happ
          subst happ
          simp only [List.length_append, List.length_take, List.length_drop, litStarts_length] at *
          simp only [elBody, List.append_assoc]
          have hsym := decodeSym_ser c st lits
            ((if len - (startLen - 1) ≥ refTagLong then uintWrite (len - (startLen - 1)) else [])
              ++ (uintWrite off ++ rest)) hok.lits_le (by omega) hinv
          simp only [List.append_assoc] at hsym
          rw [hsym]
          simp only
          have := decodeRef_ser c hc
            ⟨st.buf ++ lits, st.starts ++ litStarts st.buf.length lits.length⟩ len off sp rest
            hr.1 hr.2.1 hr.2.2.1 (by simp; omega) (by simpa using hsp) (by simp; omega)
            (by simp; omega) (by simp; omega)
          simp only [List.append_assoc, List.length_append] at this
          exact this

/-! ### one step of the stream loop -/

theorem decChunks_nil (c : Cfg) (h : UInt64) (st : DSt) (acc : List UInt8) :
    decChunks c h st acc [] = .error .reject := by
  rw [decChunks]

theorem decChunks_trailer (c : Cfg) (h : UInt64) (st : DSt) (acc rest : List UInt8) :
    decChunks c h st acc (0 :: rest) =
      if rest.length ≠ 8 then .error .reject else
      if leVal rest = (if st.buf.length ≠ 0 then c.H st.buf h else h).toNat then .ok (acc ++ st.buf)
      else .error .reject := by
  rw [decChunks]
  simp only [if_true]

theorem decChunks_el_ok (c : Cfg) (h : UInt64) (st st' : DSt) (acc rest rest' : List UInt8)
    (tag : UInt8) (ht : tag ≠ 0) (hd : decodeEl c st tag rest = .ok (st', rest')) :
    decChunks c h st acc (tag :: rest) =
      if st'.buf.length ≥ c.bufLen then
        decChunks c (c.H st'.buf h) DSt.init (acc ++ st'.buf) rest'
      else decChunks c h st' acc rest' := by
  rw [decChunks]
  simp only [ht, if_false]
  split
  · rename_i e he; rw [hd] at he; cases he
  · rename_i s r he; rw [hd] at he; cases he; rfl

theorem decChunks_el_err (c : Cfg) (h : UInt64) (st : DSt) (acc rest : List UInt8)
    (tag : UInt8) (ht : tag ≠ 0) (e : Err) (hd : decodeEl c st tag rest = .error e) :
    decChunks c h st acc (tag :: rest) = .error e := by
  rw [decChunks]
  simp only [ht, if_false]
  split
  · rename_i e' he; rw [hd] at he; cases he; rfl
  · rename_i s r he; rw [hd] at he; cases he

/-! ### valid parses -/

theorem applyEl_lens {st st' : DSt} {e : El} (h : applyEl st e = some st') :
    st'.buf.length = st.buf.length + e.lits.length +
        (match e.ref with | none => 0 | some (len, _) => len) ∧
    st'.starts.length = st.starts.length + e.lits.length +
        (match e.ref with | none => 0 | some _ => 1) := by
  obtain ⟨lits, ref⟩ := e
  cases ref with
  | none =>
    simp only [applyEl, Option.some.injEq] at h
    subst h
    simp
  | some r =>
    obtain ⟨len, off⟩ := r
    simp only [applyEl] at h
    split at h
    · cases h
    · split at h
      · cases h
      · split at h
        · cases h
        · rename_i hsrc
          simp only [Option.some.injEq] at h
          subst h
          simp only [List.length_append, List.length_take, List.length_drop, litStarts_length,
            List.length_cons, List.length_nil] at *
          constructor
          · omega
          · first | omega | simp

theorem applyEl_grow {c : Cfg} {st st' : DSt} {e : El} (h : applyEl st e = some st') (hok : ElOk c e) :
    st.buf.length < st'.buf.length ∧
    (st.starts.length ≤ st.buf.length → st'.starts.length ≤ st'.buf.length) := by
  have ⟨h1, h2⟩ := applyEl_lens h
  have hne := hok.nonempty
  have hr := hok.ref_ok
  cases hre : e.ref with
  | none =>
    rw [hre] at h1 h2
    simp only at h1 h2
    have : e.lits.length ≠ 0 := by
      intro h0
      rcases hne with hne | hne
      · exact hne (List.length_eq_zero_iff.mp h0)
      · exact hne hre
    omega
  | some r =>
    obtain ⟨len, off⟩ := r
    rw [hre] at h1 h2
    simp only at h1 h2
    have : 4 ≤ len := (hr len off hre).1
    omega

theorem applyEls_mono {c : Cfg} {es : List El} {st st' : DSt} (h : applyEls st es = some st')
    (hall : ∀ e ∈ es, ElOk c e) :
    st.buf.length + es.length ≤ st'.buf.length := by
  induction es generalizing st with
  | nil => simp only [applyEls, Option.some.injEq] at h; subst h; simp
  | cons e es ih =>
    simp only [applyEls] at h
    cases h1 : applyEl st e with
    | none => rw [h1] at h; cases h
    | some s1 =>
      rw [h1] at h
      simp only [Option.bind_some] at h
      have := ih h (fun e he => hall e (List.mem_cons_of_mem _ he))
      have := (applyEl_grow h1 (hall e List.mem_cons_self)).1
      simp only [List.length_cons]; omega

theorem serEls_cons (e : El) (es : List El) : serEls (e :: es) = elTag e :: (elBody e ++ serEls es) := by
  simp [serEls, serEl]

/-- a parse that stays below `bufLen` leaves the decoder inside the same buffer -/
theorem decChunks_serEls_partial (c : Cfg) (hc : c.Ok) (es : List El) (st st' : DSt) (h : UInt64)
    (acc rest : List UInt8) (hall : ∀ e ∈ es, ElOk c e) (happ : applyEls st es = some st')
    (hinv : st.starts.length ≤ st.buf.length) (hlen : st'.buf.length < c.bufLen) :
    decChunks c h st acc (serEls es ++ rest) = decChunks c h st' acc rest := by
  induction es generalizing st with
  | nil => simp only [applyEls, Option.some.injEq] at happ; subst happ; simp [serEls]
  | cons e es ih =>
    simp only [applyEls] at happ
    cases h1 : applyEl st e with
    | none => rw [h1] at happ; cases happ
    | some s1 =>
      rw [h1] at happ
      simp only [Option.bind_some] at happ
      have hall' : ∀ e ∈ es, ElOk c e := fun e he => hall e (List.mem_cons_of_mem _ he)
      have hoke := hall e List.mem_cons_self
      have hm := applyEls_mono happ hall'
      have hg := applyEl_grow h1 hoke
      rw [serEls_cons, List.cons_append, List.append_assoc]
      rw [decChunks_el_ok c h st s1 acc _ _ (elTag e) (elTag_ne_zero c e hoke)
        (decodeEl_serEl c hc st s1 e _ hoke h1 (by omega) hinv)]
      rw [if_neg (by omega)]
      exact ih s1 hall' happ (hg.2 hinv)

/-- a parse that reaches exactly `bufLen` makes the decoder deliver the buffer and start afresh -/
theorem decChunks_serEls_full (c : Cfg) (hc : c.Ok) (es : List El) (st st' : DSt) (h : UInt64)
    (acc rest : List UInt8) (hall : ∀ e ∈ es, ElOk c e) (happ : applyEls st es = some st')
    (hne : es ≠ []) (hinv : st.starts.length ≤ st.buf.length) (hlen : st'.buf.length = c.bufLen) :
    decChunks c h st acc (serEls es ++ rest)
      = decChunks c (c.H st'.buf h) DSt.init (acc ++ st'.buf) rest := by
  induction es generalizing st with
  | nil => exact absurd rfl hne
  | cons e es ih =>
    simp only [applyEls] at happ
    cases h1 : applyEl st e with
    | none => rw [h1] at happ; cases happ
    | some s1 =>
      rw [h1] at happ
      simp only [Option.bind_some] at happ
      have hall' : ∀ e ∈ es, ElOk c e := fun e he => hall e (List.mem_cons_of_mem _ he)
      have hoke := hall e List.mem_cons_self
      have hm := applyEls_mono happ hall'
      have hg := applyEl_grow h1 hoke
      rw [serEls_cons, List.cons_append, List.append_assoc]
      rw [decChunks_el_ok c h st s1 acc _ _ (elTag e) (elTag_ne_zero c e hoke)
        (decodeEl_serEl c hc st s1 e _ hoke h1 (by omega) hinv)]
      cases es with
      | nil =>
        simp only [applyEls, Option.some.injEq] at happ
        subst happ
        rw [if_pos (by omega)]
        simp [serEls]
      | cons e2 es2 =>
        simp only [List.length_cons] at hm
        rw [if_neg (by omega)]
        exact ih s1 hall' happ (by simp) (hg.2 hinv)

/-! ### the decoder is monotone in its input (a successful step ignores what follows) -/

theorem decodeSym_append {c : Cfg} {st st' : DSt} {t : Nat} {inp r : List UInt8} (x : List UInt8)
    (h : decodeSym c st t inp = .ok (st', r)) : decodeSym c st t (inp ++ x) = .ok (st', r ++ x) := by
  unfold decodeSym at h ⊢
  split at h
  · rename_i ht; rw [if_pos ht]; cases h; rfl
  · rename_i ht; rw [if_neg ht]
    split at h
    · cases h
    · rename_i symLen inp1 hu
      have hu' : (if t = symbTagLong then uintRead (inp ++ x) else some (t, inp ++ x))
          = some (symLen, inp1 ++ x) := by
        split at hu
        · rename_i h7; rw [if_pos h7]; exact uintRead_append x hu
        · rename_i h7; rw [if_neg h7]; cases hu; rfl
      simp only [hu']
      dsimp only at h
      split at h
      · cases h
      · rename_i hc1
        rw [if_neg hc1]
        split at h
        · cases h
        · rename_i hc2
          have hle : symLen ≤ inp1.length := by
            simp only [List.length_take] at hc2; omega
          have ht : List.take symLen (inp1 ++ x) = List.take symLen inp1 :=
            List.take_append_of_le_length hle
          have hd : List.drop symLen (inp1 ++ x) = List.drop symLen inp1 ++ x :=
            List.drop_append_of_le_length hle
          rw [ht, hd, if_neg hc2]
          split at h
          · cases h
          · split at h
            · cases h
            · cases h; rfl

theorem decodeRef_append {c : Cfg} {st st' : DSt} {t : Nat} {inp r : List UInt8} (x : List UInt8)
    (h : decodeRef c st t inp = .ok (st', r)) : decodeRef c st t (inp ++ x) = .ok (st', r ++ x) := by
  unfold decodeRef at h ⊢
  split at h
  · rename_i ht; rw [if_pos ht]; cases h; rfl
  · rename_i ht; rw [if_neg ht]
    split at h
    · cases h
    · rename_i l0 inp1 hu
      have hu' : (if t = refTagLong then uintRead (inp ++ x) else some (t, inp ++ x))
          = some (l0, inp1 ++ x) := by
        split at hu
        · rename_i h7; rw [if_pos h7]; exact uintRead_append x hu
        · rename_i h7; rw [if_neg h7]; cases hu; rfl
      simp only [hu']
      dsimp only at h
      split at h
      · cases h
      · rename_i refInd inp2 hu2
        rw [uintRead_append x hu2]
        dsimp only
        split at h
        · cases h
        · rename_i hc0
          rw [if_neg hc0]
          split at h
          · cases h
          · rename_i symPos hrs
            try simp only [hrs]
            split at h
            · cases h
            · rename_i hc1
              rw [if_neg hc1]
              split at h
              · cases h
              · rename_i bs hrb
                try simp only [hrb]
                split at h
                · cases h
                · rename_i buf' hw
                  try simp only [hw]
                  split at h
                  · cases h
                  · cases h; rfl

theorem decodeEl_append {c : Cfg} {st st' : DSt} {tag : UInt8} {inp r : List UInt8} (x : List UInt8)
    (h : decodeEl c st tag inp = .ok (st', r)) : decodeEl c st tag (inp ++ x) = .ok (st', r ++ x) := by
  unfold decodeEl at h ⊢
  split at h
  · cases h
  · rename_i st1 inp1 hs
    rw [decodeSym_append x hs]
    exact decodeRef_append x h

theorem decChunks_prefix_free (c : Cfg) (n : Nat) :
    ∀ (inp : List UInt8), inp.length ≤ n → ∀ (h : UInt64) (st : DSt) (acc x d d' : List UInt8),
      decChunks c h st acc inp = .ok d → decChunks c h st acc (inp ++ x) = .ok d' → x = [] := by
  induction n with
  | zero =>
    intro inp hl h st acc x d d' h1 _
    have : inp = [] := List.length_eq_zero_iff.mp (by omega)
    subst this
    rw [decChunks_nil] at h1; cases h1
  | succ n ih =>
    intro inp hl h st acc x d d' h1 h2
    match inp, hl, h1, h2 with
    | [], _, h1, _ => rw [decChunks_nil] at h1; cases h1
    | tag :: rest, hl, h1, h2 =>
      by_cases ht : tag = 0
      · subst ht
        rw [decChunks_trailer] at h1
        rw [List.cons_append, decChunks_trailer] at h2
        split at h1
        · cases h1
        · rename_i h8
          split at h2
          · cases h2
          · rename_i h8'
            simp only [List.length_append] at h8'
            exact List.length_eq_zero_iff.mp (by omega)
      · cases hd : decodeEl c st tag rest with
        | error e => rw [decChunks_el_err c h st acc rest tag ht e hd] at h1; cases h1
        | ok p =>
          obtain ⟨st', rest'⟩ := p
          rw [decChunks_el_ok c h st st' acc rest rest' tag ht hd] at h1
          rw [List.cons_append,
            decChunks_el_ok c h st st' acc (rest ++ x) (rest' ++ x) tag ht (decodeEl_append x hd)] at h2
          have hl' : rest'.length ≤ n := by
            have := decodeEl_len hd
            simp only [List.length_cons] at hl; omega
          split at h1
          · rename_i hb; rw [if_pos hb] at h2; exact ih rest' hl' _ _ _ x d d' h1 h2
          · rename_i hb; rw [if_neg hb] at h2; exact ih rest' hl' _ _ _ x d d' h1 h2

/-! ### memory safety: under `DInv` no accessor fails, and `DInv` is preserved -/

theorem decodeSym_no_oob {c : Cfg} {st : DSt} {t : Nat} {inp : List UInt8} (hi : DInv c st) :
    decodeSym c st t inp ≠ .error .oob := by
  intro h
  have ⟨hi1, hi2⟩ := hi
  unfold decodeSym at h
  split at h
  · cases h
  · split at h
    · cases h
    · rename_i symLen inp1 hu
      dsimp only at h
      split at h
      · cases h
      · rename_i hc1
        split at h
        · cases h
        · rename_i hc2
          simp only [List.length_take] at hc2
          have hw : writeBytes c.bufLen st.buf (List.take symLen inp1)
              = .ok (st.buf ++ List.take symLen inp1) := by
            simp only [writeBytes, List.length_take]; rw [if_pos (by omega)]
          have hp : pushStarts c.bufLen st.starts st.buf.length symLen
              = .ok (st.starts ++ litStarts st.buf.length symLen) := by
            simp only [pushStarts]; rw [if_pos (by omega)]
          simp only [hw, hp] at h
          cases h

theorem decodeSym_inv {c : Cfg} {st st' : DSt} {t : Nat} {inp r : List UInt8} (hi : DInv c st)
    (h : decodeSym c st t inp = .ok (st', r)) : DInv c st' ∧ st.buf <+: st'.buf := by
  have ⟨hi1, hi2⟩ := hi
  unfold decodeSym at h
  split at h
  · cases h; exact ⟨hi, List.prefix_refl _⟩
  · split at h
    · cases h
    · rename_i symLen inp1 hu
      dsimp only at h
      split at h
      · cases h
      · rename_i hc1
        split at h
        · cases h
        · rename_i hc2
          simp only [List.length_take] at hc2
          have hw : writeBytes c.bufLen st.buf (List.take symLen inp1)
              = .ok (st.buf ++ List.take symLen inp1) := by
            simp only [writeBytes, List.length_take]; rw [if_pos (by omega)]
          have hp : pushStarts c.bufLen st.starts st.buf.length symLen
              = .ok (st.starts ++ litStarts st.buf.length symLen) := by
            simp only [pushStarts]; rw [if_pos (by omega)]
          simp only [hw, hp] at h
          cases h
          refine ⟨⟨?_, ?_⟩, List.prefix_append _ _⟩
          · simp only [List.length_append, litStarts_length, List.length_take]; omega
          · simp only [List.length_append, List.length_take]; omega

theorem decodeRef_no_oob {c : Cfg} {st : DSt} {t : Nat} {inp : List UInt8} (hi : DInv c st) :
    decodeRef c st t inp ≠ .error .oob := by
  intro h
  have ⟨hi1, hi2⟩ := hi
  unfold decodeRef at h
  split at h
  · cases h
  · split at h
    · cases h
    · rename_i l0 inp1 hu
      dsimp only at h
      split at h
      · cases h
      · rename_i refInd inp2 hu2
        split at h
        · cases h
        · rename_i hc0
          have hlt : st.starts.length - refInd < st.starts.length := by omega
          obtain ⟨sp, hsp⟩ : ∃ sp, st.starts[st.starts.length - refInd]? = some sp :=
            ⟨_, List.getElem?_eq_getElem hlt⟩
          have hrs : readStart st.starts (st.starts.length - refInd) = .ok sp := by
            simp only [readStart, hsp]
          simp only [hrs] at h
          split at h
          · cases h
          · rename_i hc1
            have hrb : readBytes st.buf sp (l0 + (startLen - 1))
                = .ok ((st.buf.drop sp).take (l0 + (startLen - 1))) := by
              simp only [readBytes]; rw [if_pos (by omega)]
            have hw : writeBytes c.bufLen st.buf ((st.buf.drop sp).take (l0 + (startLen - 1)))
                = .ok (st.buf ++ (st.buf.drop sp).take (l0 + (startLen - 1))) := by
              simp only [writeBytes, List.length_take, List.length_drop]; rw [if_pos (by omega)]
            have hp : pushStarts c.bufLen st.starts st.buf.length 1
                = .ok (st.starts ++ litStarts st.buf.length 1) := by
              have : 0 < startLen - 1 := by decide
              simp only [pushStarts]; rw [if_pos (by omega)]
            simp only [hrb, hw, hp] at h
            cases h

theorem decodeRef_inv {c : Cfg} {st st' : DSt} {t : Nat} {inp r : List UInt8} (hi : DInv c st)
    (h : decodeRef c st t inp = .ok (st', r)) : DInv c st' ∧ st.buf <+: st'.buf := by
  have ⟨hi1, hi2⟩ := hi
  unfold decodeRef at h
  split at h
  · cases h; exact ⟨hi, List.prefix_refl _⟩
  · split at h
    · cases h
    · rename_i l0 inp1 hu
      dsimp only at h
      split at h
      · cases h
      · rename_i refInd inp2 hu2
        split at h
        · cases h
        · rename_i hc0
          have hlt : st.starts.length - refInd < st.starts.length := by omega
          obtain ⟨sp, hsp⟩ : ∃ sp, st.starts[st.starts.length - refInd]? = some sp :=
            ⟨_, List.getElem?_eq_getElem hlt⟩
          have hrs : readStart st.starts (st.starts.length - refInd) = .ok sp := by
            simp only [readStart, hsp]
          simp only [hrs] at h
          split at h
          · cases h
          · rename_i hc1
            have h3 : 0 < startLen - 1 := by decide
            have hrb : readBytes st.buf sp (l0 + (startLen - 1))
                = .ok ((st.buf.drop sp).take (l0 + (startLen - 1))) := by
              simp only [readBytes]; rw [if_pos (by omega)]
            have hw : writeBytes c.bufLen st.buf ((st.buf.drop sp).take (l0 + (startLen - 1)))
                = .ok (st.buf ++ (st.buf.drop sp).take (l0 + (startLen - 1))) := by
              simp only [writeBytes, List.length_take, List.length_drop]; rw [if_pos (by omega)]
            have hp : pushStarts c.bufLen st.starts st.buf.length 1
                = .ok (st.starts ++ litStarts st.buf.length 1) := by
              simp only [pushStarts]; rw [if_pos (by omega)]
            simp only [hrb, hw, hp] at h
            cases h
            refine ⟨⟨?_, ?_⟩, List.prefix_append _ _⟩
            · simp only [List.length_append, litStarts_length, List.length_take, List.length_drop]; omega
            · simp only [List.length_append, List.length_take, List.length_drop]; omega

theorem decodeEl_no_oob {c : Cfg} {st : DSt} {tag : UInt8} {inp : List UInt8} (hi : DInv c st) :
    decodeEl c st tag inp ≠ .error .oob := by
  intro h
  unfold decodeEl at h
  split at h
  · rename_i e he; cases h; exact decodeSym_no_oob hi he
  · rename_i st1 inp1 hs
    exact decodeRef_no_oob (decodeSym_inv hi hs).1 h

theorem decodeEl_inv {c : Cfg} {st st' : DSt} {tag : UInt8} {inp r : List UInt8} (hi : DInv c st)
    (h : decodeEl c st tag inp = .ok (st', r)) : DInv c st' ∧ st.buf <+: st'.buf := by
  unfold decodeEl at h
  split at h
  · cases h
  · rename_i st1 inp1 hs
    have h1 := decodeSym_inv hi hs
    have h2 := decodeRef_inv h1.1 h
    exact ⟨h2.1, h1.2.trans h2.2⟩

theorem decChunks_no_oob (c : Cfg) (n : Nat) :
    ∀ (inp : List UInt8), inp.length ≤ n → ∀ (h : UInt64) (st : DSt) (acc : List UInt8),
      DInv c st → decChunks c h st acc inp ≠ .error .oob := by
  induction n with
  | zero =>
    intro inp hl h st acc _ h1
    have : inp = [] := List.length_eq_zero_iff.mp (by omega)
    subst this
    rw [decChunks_nil] at h1; cases h1
  | succ n ih =>
    intro inp hl h st acc hi h1
    match inp, hl, h1 with
    | [], _, h1 => rw [decChunks_nil] at h1; cases h1
    | tag :: rest, hl, h1 =>
      by_cases ht : tag = 0
      · subst ht
        rw [decChunks_trailer] at h1
        repeat' split at h1
        all_goals cases h1
      · cases hd : decodeEl c st tag rest with
        | error e =>
          rw [decChunks_el_err c h st acc rest tag ht e hd] at h1
          cases h1
          exact decodeEl_no_oob hi hd
        | ok p =>
          obtain ⟨st', rest'⟩ := p
          rw [decChunks_el_ok c h st st' acc rest rest' tag ht hd] at h1
          have hl' : rest'.length ≤ n := by
            have := decodeEl_len hd
            simp only [List.length_cons] at hl; omega
          split at h1
          · exact ih rest' hl' _ _ _ (DInv.init c) h1
          · exact ih rest' hl' _ _ _ (decodeEl_inv hi hd).1 h1

/-! ### the hash chain -/

theorem chainHash_nil (c : Cfg) (h : UInt64) : chainHash c h [] = h := by
  rw [chainHash]; simp

theorem chainHash_full (c : Cfg) (hc : c.Ok) (h : UInt64) (ch d : List UInt8)
    (hl : ch.length = c.bufLen) : chainHash c h (ch ++ d) = chainHash c (c.H ch h) d := by
  have hp := hc.pos
  rw [chainHash]
  have hne : ¬ (c.bufLen = 0 ∨ ch ++ d = []) := by
    intro hh
    rcases hh with hh | hh
    · omega
    · have := congrArg List.length hh
      simp only [List.length_append, List.length_nil] at this
      omega
  rw [if_neg hne]
  have ht : List.take c.bufLen (ch ++ d) = ch := by
    rw [← hl]; simp
  have hd : List.drop c.bufLen (ch ++ d) = d := by
    rw [← hl]; simp
  rw [ht, hd]

theorem chainHash_short (c : Cfg) (hc : c.Ok) (h : UInt64) (d : List UInt8)
    (h2 : d.length ≤ c.bufLen) :
    chainHash c h d = if d.length ≠ 0 then c.H d h else h := by
  have hp := hc.pos
  by_cases h0 : d.length = 0
  · have : d = [] := List.length_eq_zero_iff.mp h0
    subst this
    rw [chainHash_nil]; simp
  · rw [if_pos h0, chainHash]
    have hne : ¬ (c.bufLen = 0 ∨ d = []) := by
      intro hh
      rcases hh with hh | hh
      · omega
      · subst hh; exact h0 rfl
    rw [if_neg hne, List.take_of_length_le h2, List.drop_eq_nil_of_le h2, chainHash_nil]

theorem decChunks_hash (c : Cfg) (hc : c.Ok) (n : Nat) :
    ∀ (inp : List UInt8), inp.length ≤ n → ∀ (h : UInt64) (st : DSt) (acc d : List UInt8),
      DInv c st → st.buf.length < c.bufLen → decChunks c h st acc inp = .ok d →
      ∃ tail body, d = acc ++ tail ∧ st.buf <+: tail ∧
        inp = body ++ 0 :: leBytes 8 (chainHash c h tail).toNat := by
  induction n with
  | zero =>
    intro inp hl h st acc d _ _ h1
    have : inp = [] := List.length_eq_zero_iff.mp (by omega)
    subst this
    rw [decChunks_nil] at h1; cases h1
  | succ n ih =>
    intro inp hl h st acc d hi hlt h1
    match inp, hl, h1 with
    | [], _, h1 => rw [decChunks_nil] at h1; cases h1
    | tag :: rest, hl, h1 =>
      by_cases ht : tag = 0
      · subst ht
        rw [decChunks_trailer] at h1
        split at h1
        · cases h1
        · rename_i h8
          by_cases hv : leVal rest = (if st.buf.length ≠ 0 then c.H st.buf h else h).toNat
          · rw [if_pos hv] at h1
            cases h1
            refine ⟨st.buf, [], rfl, List.prefix_refl _, ?_⟩
            rw [chainHash_short c hc h st.buf (by omega), ← hv]
            have h8' : rest.length = 8 := by omega
            rw [← h8', leBytes_leVal]
            rfl
          · rw [if_neg hv] at h1; cases h1
      · cases hd : decodeEl c st tag rest with
        | error e => rw [decChunks_el_err c h st acc rest tag ht e hd] at h1; cases h1
        | ok p =>
          obtain ⟨st', rest'⟩ := p
          rw [decChunks_el_ok c h st st' acc rest rest' tag ht hd] at h1
          have hl' : rest'.length ≤ n := by
            have := decodeEl_len hd
            simp only [List.length_cons] at hl; omega
          have ⟨hi', hpre⟩ := decodeEl_inv hi hd
          obtain ⟨pre, hpre2⟩ := decodeEl_suffix hd
          split at h1
          · rename_i hb
            have hfull : st'.buf.length = c.bufLen := by have := hi'.buf_le; omega
            obtain ⟨tail, body, hd1, _, hd3⟩ :=
              ih rest' hl' _ _ _ d (DInv.init c) (by simpa [DSt.init] using hc.pos) h1
            refine ⟨st'.buf ++ tail, tag :: pre ++ body, ?_, ?_, ?_⟩
            · rw [hd1, List.append_assoc]
            · exact hpre.trans (List.prefix_append _ _)
            · rw [chainHash_full c hc h st'.buf tail hfull, ← hpre2, hd3]
              simp
          · rename_i hb
            obtain ⟨tail, body, hd1, hd2, hd3⟩ := ih rest' hl' _ _ _ d hi' (by omega) h1
            refine ⟨tail, tag :: pre ++ body, hd1, hpre.trans hd2, ?_⟩
            rw [← hpre2, hd3]
            simp

end MirVerif.Reduce
