import MirVerif.Lemmas.TextIOLexWord
/-! # C10 — `scan_string` reads back what `MIR_output_str` writes, for arbitrary byte strings -/
namespace TextIO

theorem isOct_iff {c : Char} : isOct c = true ↔ 48 ≤ c.toNat ∧ c.toNat ≤ 55 := by
  simp [isOct]

/-- a character that stands for itself inside a string literal -/
theorem scanStr_plain {c : Char} (h : c.toNat ≠ 0 ∧ c.toNat ≠ 255 ∧ c.toNat ≠ 10 ∧ c.toNat ≠ 34 ∧ c.toNat ≠ 92)
    (tail : List Char) : scanStrBody (c :: tail) = pushC c (scanStrBody tail) := by
  obtain ⟨h0, h255, h10, h34, h92⟩ := h
  have hnl : c ≠ '\n' := by intro e; subst e; simp at h10
  have hq : c ≠ '"' := by intro e; subst e; simp at h34
  have hb : c ≠ '\\' := by intro e; subst e; simp at h92
  rw [scanStrBody.eq_def]
  simp [h0, h255, hnl, hq, hb]

theorem scanStr_close (tail : List Char) : scanStrBody ('"' :: tail) = .ok ([], tail) := by
  rw [scanStrBody.eq_def]; simp

theorem scanStr_esc_backslash (tail : List Char) :
    scanStrBody ('\\' :: '\\' :: tail) = pushC '\\' (scanStrBody tail) := by
  rw [scanStrBody.eq_def]; simp [isOct]

theorem scanStr_esc_quote (tail : List Char) :
    scanStrBody ('\\' :: '"' :: tail) = pushC '"' (scanStrBody tail) := by
  rw [scanStrBody.eq_def]; simp [isOct]

theorem scanStr_esc_n (tail : List Char) : scanStrBody ('\\' :: 'n' :: tail) = pushC '\n' (scanStrBody tail) := by
  rw [scanStrBody.eq_def]; simp

theorem scanStr_esc_t (tail : List Char) : scanStrBody ('\\' :: 't' :: tail) = pushC '\t' (scanStrBody tail) := by
  rw [scanStrBody.eq_def]; simp

theorem scanStr_esc_v (tail : List Char) :
    scanStrBody ('\\' :: 'v' :: tail) = pushC (Char.ofNat 11) (scanStrBody tail) := by
  rw [scanStrBody.eq_def]; simp

theorem scanStr_esc_a (tail : List Char) :
    scanStrBody ('\\' :: 'a' :: tail) = pushC (Char.ofNat 7) (scanStrBody tail) := by
  rw [scanStrBody.eq_def]; simp

theorem scanStr_esc_b (tail : List Char) :
    scanStrBody ('\\' :: 'b' :: tail) = pushC (Char.ofNat 8) (scanStrBody tail) := by
  rw [scanStrBody.eq_def]; simp

theorem scanStr_esc_f (tail : List Char) :
    scanStrBody ('\\' :: 'f' :: tail) = pushC (Char.ofNat 12) (scanStrBody tail) := by
  rw [scanStrBody.eq_def]; simp

/-- three octal digits -/
theorem scanStr_oct3 {a b c : Char} (ha : isOct a = true) (hb : isOct b = true) (hc : isOct c = true)
    (tail : List Char) :
    scanStrBody ('\\' :: a :: b :: c :: tail) =
      pushC (byteChar ((octVal a * 8 + octVal b) * 8 + octVal c)) (scanStrBody tail) := by
  have ha' := isOct_iff.mp ha
  have h0 : a.toNat ≠ 0 := by omega
  have e1 : a ≠ 'n' := by intro e; subst e; simp at ha'
  have e2 : a ≠ 't' := by intro e; subst e; simp at ha'
  have e3 : a ≠ 'v' := by intro e; subst e; simp at ha'
  have e4 : a ≠ 'a' := by intro e; subst e; simp at ha'
  have e5 : a ≠ 'b' := by intro e; subst e; simp at ha'
  have e6 : a ≠ 'r' := by intro e; subst e; simp at ha'
  have e7 : a ≠ 'f' := by intro e; subst e; simp at ha'
  have e8 : a ≠ '\n' := by intro e; subst e; simp at ha'
  rw [scanStrBody.eq_def]
  simp [h0, e1, e2, e3, e4, e5, e6, e7, e8, ha, hb, hc]

theorem octDigit_toNat (n : Nat) : (octDigit n).toNat = 48 + n % 8 := by
  unfold octDigit; exact toNat_ofNat_small (by omega)

theorem isOct_octDigit (n : Nat) : isOct (octDigit n) = true := by
  simp [isOct, octDigit_toNat]; omega

theorem octVal_octDigit (n : Nat) : octVal (octDigit n) = n % 8 := by
  simp [octVal, octDigit_toNat]

theorem byteChar_toNat {c : Char} (h : c.toNat < 256) : byteChar c.toNat = c := by
  unfold byteChar
  rw [Nat.mod_eq_of_lt h]
  exact Char.ofNat_toNat c

/-- one byte: what `MIR_output_str` writes for it is read back as that byte -/
theorem scanStr_char {c : Char} (hc : c.toNat < 256) (tail : List Char) :
    scanStrBody (printStrChar c ++ tail) = pushC c (scanStrBody tail) := by
  unfold printStrChar
  split
  · rename_i h
    have : c = '\\' := char_eq_of_toNat (by simpa using h)
    subst this; exact scanStr_esc_backslash tail
  split
  · rename_i h
    have : c = '"' := char_eq_of_toNat (by simpa using h)
    subst this; exact scanStr_esc_quote tail
  split
  · rename_i h92 h34 hp
    simp only [isPrint, Bool.and_eq_true, decide_eq_true_eq] at hp
    exact scanStr_plain ⟨by omega, by omega, by omega, h34, h92⟩ tail
  split
  · rename_i h
    have : c = '\n' := char_eq_of_toNat (by simpa using h)
    subst this; exact scanStr_esc_n tail
  split
  · rename_i h
    have : c = '\t' := char_eq_of_toNat (by simpa using h)
    subst this; exact scanStr_esc_t tail
  split
  · rename_i h
    have : c = Char.ofNat 11 := char_eq_of_toNat (by rw [h]; decide)
    subst this; exact scanStr_esc_v tail
  split
  · rename_i h
    have : c = Char.ofNat 7 := char_eq_of_toNat (by rw [h]; decide)
    subst this; exact scanStr_esc_a tail
  split
  · rename_i h
    have : c = Char.ofNat 8 := char_eq_of_toNat (by rw [h]; decide)
    subst this; exact scanStr_esc_b tail
  split
  · rename_i h
    have : c = Char.ofNat 12 := char_eq_of_toNat (by rw [h]; decide)
    subst this; exact scanStr_esc_f tail
  · have h := scanStr_oct3 (isOct_octDigit (c.toNat / 64)) (isOct_octDigit (c.toNat / 8))
      (isOct_octDigit c.toNat) tail
    simp only [List.cons_append, List.nil_append]
    rw [h]
    simp only [octVal_octDigit]
    have hv : (c.toNat / 64 % 8 * 8 + c.toNat / 8 % 8) * 8 + c.toNat % 8 = c.toNat := by omega
    rw [hv, byteChar_toNat hc]

/-- `scan_string` after the opening quote returns exactly the bytes that were written -/
theorem scanStrBody_print (s : Str) (hs : ∀ c ∈ s, c.toNat < 256) (rest : List Char) :
    scanStrBody (s.flatMap printStrChar ++ '"' :: rest) = .ok (s, rest) := by
  induction s with
  | nil => simpa using scanStr_close rest
  | cons c cs ih =>
    have hc := hs c (List.mem_cons_self)
    have := ih (fun x hx => hs x (List.mem_cons_of_mem _ hx))
    simp only [List.flatMap_cons, List.append_assoc]
    rw [scanStr_char hc, this]
    rfl

/-- `scan_token` on a written string literal: the string with the forced final NUL; no condition on
what follows -/
theorem lexOne_printStr (s : Str) (hs : ∀ c ∈ s, c.toNat < 256) (rest : List Char) :
    lexOne (printStr s ++ rest) = .ok (.str (forceNul s), rest) := by
  have hq : charClass '"' = .quote := by decide
  simp only [printStr, List.cons_append, List.append_assoc, lexOne, hq]
  have := scanStrBody_print s hs rest
  simp only [List.nil_append, this]

theorem forceNul_eq_self {s : Str} (h : strOK s = true) : forceNul s = s := by
  simp only [strOK, Bool.and_eq_true, Bool.or_eq_true, List.isEmpty_iff] at h
  unfold forceNul
  rcases h.2 with h | h
  · subst h; simp
  · rw [if_neg]
    intro hh
    simp at h
    exact hh.2 h

end TextIO
