import MirVerif.Model.SemTable
import MirVerif.Model.SemCanon
import MirVerif.Gen.C02_Tables
/-! Per-run bridge: the tables regenerated from mir-interp.c equal the reviewed canonical ones, and
the canonical rows are the ones the documentation calls for. -/
namespace MirVerif

theorem gen_intRows : Gen.C02.intRows = Canon.C02.intRows := by decide +kernel
theorem gen_brRows : Gen.C02.brRows = Canon.C02.brRows := by decide +kernel
theorem gen_extRows : Gen.C02.extRows = Canon.C02.extRows := by decide +kernel
theorem gen_negRows : Gen.C02.negRows = Canon.C02.negRows := by decide +kernel
theorem gen_pinned : Gen.C02.pinned = Canon.C02.pinned := by decide +kernel

theorem canon_int_complete :
    (AOp.all.all fun a => [false, true].all fun s =>
      Canon.C02.intRows.contains (opName a s, canonKind a s)) = true := by decide +kernel
theorem canon_int_functional : (Canon.C02.intRows.map (·.1)).Nodup := by decide +kernel
theorem canon_br_complete :
    (AOp.cmps.all fun a => [false, true].all fun s =>
      Canon.C02.brRows.contains (brName a s, canonKind a s)) = true := by decide +kernel
theorem canon_br_functional : (Canon.C02.brRows.map (·.1)).Nodup := by decide +kernel
theorem canon_ext_complete :
    ([8, 16, 32].all fun k => [false, true].all fun s =>
      Canon.C02.extRows.contains (extName k s, k, s)) = true := by decide +kernel
theorem canon_neg_complete :
    Canon.C02.negRows.contains ("NEG", false) ∧ Canon.C02.negRows.contains ("NEGS", true) := by
  decide +kernel

end MirVerif
