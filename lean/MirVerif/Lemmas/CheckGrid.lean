import MirVerif.Lemmas.CheckEnum
/-!
# C15 — the verdict grid, proved in two levels

Level A: every documented (opcode, position) is mapped to a *key*
`(positional check of MIR_new_insn_arr, what MIR_finish_func does there according to the generated
table, documented class, listed deviations applying there)`; the distinct keys are collected.
Level B: for every distinct key and every abstract operand kind (139) the implementation verdict
equals the documented verdict exactly when no listed deviation covers the operand kind.
Both levels are one `decide +kernel` over the generated table.
-/
namespace MirVerif.Check
open MirVerif.Gen.C15

structure Key where
  newK : NewK
  finK : FinK
  doc : DocPos
  devs : List Deviation
  deriving DecidableEq, Repr

def devsAt (c i : Nat) : List Deviation := knownDeviations.filter (fun d => d.at c i)

def keyOf (descs : Descs) (c i : Nat) (dp : DocPos) : Key :=
  ⟨newKind c i, fixedPos descs c i, dp, devsAt c i⟩

def keyImpl (k : Key) (o : OpA) : Verdict := seq (newKindCheck k.newK o) (finKCheck k.finK o)

def keyOk (k : Key) : Bool :=
  OpA.all.all fun o => decide (keyImpl k o = docOperandA k.doc false o) == !(k.devs.any fun d => d.ops o)

def dedup {α} [DecidableEq α] : List α → List α
  | [] => []
  | a :: as => let r := dedup as; if r.contains a then r else a :: r

/-- positions of a signature with their index -/
def withIdx {α} : Nat → List α → List (Nat × α)
  | _, [] => []
  | i, a :: as => (i, a) :: withIdx (i + 1) as

theorem mem_withIdx {α} (l : List α) (n i : Nat) (a : α) (h : l[i]? = some a) :
    (n + i, a) ∈ withIdx n l := by
  induction l generalizing n i with
  | nil => simp at h
  | cons x xs ih =>
    cases i with
    | zero =>
      have h' : x = a := by simpa using h
      subst h'
      exact List.mem_cons_self
    | succ j =>
      have h' : xs[j]? = some a := by simpa using h
      have := ih (n + 1) j h'
      have e : n + 1 + j = n + (j + 1) := by omega
      rw [e] at this
      exact List.mem_cons_of_mem _ this

def groupKeys (descs : Descs) (g : List Nat × List DocPos) : List Key :=
  g.1.flatMap fun c => (withIdx 0 g.2).map fun p => keyOf descs c p.1 p.2

def allKeys (descs : Descs) : List Key := dedup (docFixed.flatMap (groupKeys descs))

/-- Level A (every key of a documented cell is collected) and Level B (every collected key is fine) -/
def keysGood (descs : Descs) (ks : List Key) : Bool :=
  (docFixed.all fun g => (groupKeys descs g).all fun k => ks.contains k) && ks.all keyOk

theorem keys_good : keysGood insnDescs (allKeys insnDescs) = true := by decide +kernel

theorem cell_key (descs : Descs) (c i : Nat) (dp : DocPos) (o : OpS) :
    cellVerdict descs c i o = keyImpl (keyOf descs c i dp) o.abs := rfl

theorem deviates_key (descs : Descs) (c i : Nat) (dp : DocPos) (o : OpS) :
    deviates c i o = (keyOf descs c i dp).devs.any (fun d => d.ops o.absDoc) := by
  simp [deviates, keyOf, devsAt, List.any_filter]

theorem docSig_group (c : Nat) (sig : List DocPos) (h : docSig c = some sig) :
    ∃ g ∈ docFixed, c ∈ g.1 ∧ g.2 = sig := by
  unfold docSig at h
  cases hf : docFixed.find? (fun e => e.1.contains c) with
  | none => rw [hf] at h; simp at h
  | some g =>
    rw [hf] at h
    have hs : g.2 = sig := by simpa using h
    refine ⟨g, List.mem_of_find?_eq_some hf, ?_, hs⟩
    have := List.find?_some hf
    exact List.contains_iff_mem.mp this

/-- the grid, exact form: on every position MIR.md documents for a fixed-arity opcode, the verdict
computed from the generated `insn_descs` equals the documented verdict iff no listed deviation
covers the cell -/
theorem grid_exact (c i : Nat) (o : OpS) (sig : List DocPos) (dp : DocPos)
    (hsig : docSig c = some sig) (hdp : sig[i]? = some dp) :
    (cellVerdict insnDescs c i o = docOperand dp false o) ↔ deviates c i o = false := by
  obtain ⟨g, hg, hc, hgs⟩ := docSig_group c sig hsig
  have hgood := keys_good
  unfold keysGood at hgood
  rw [Bool.and_eq_true] at hgood
  obtain ⟨hA, hB⟩ := hgood
  have hkg : keyOf insnDescs c i dp ∈ groupKeys insnDescs g := by
    unfold groupKeys
    rw [List.mem_flatMap]
    refine ⟨c, hc, ?_⟩
    rw [List.mem_map]
    refine ⟨(i, dp), ?_, rfl⟩
    have := mem_withIdx g.2 0 i dp (by rw [hgs]; exact hdp)
    simpa using this
  have h1 := List.all_eq_true.mp (List.all_eq_true.mp hA g hg) _ hkg
  have hmem : keyOf insnDescs c i dp ∈ allKeys insnDescs := List.contains_iff_mem.mp h1
  have hK := List.all_eq_true.mp hB _ hmem
  unfold keyOk at hK
  have hO := OpA.forall_of_all hK o.abs
  rw [cell_key insnDescs c i dp, deviates_key insnDescs c i dp, docOperand, ← abs_agree]
  have hdoc : (keyOf insnDescs c i dp).doc = dp := rfl
  rw [hdoc] at hO
  cases hd : ((keyOf insnDescs c i dp).devs.any fun d => d.ops o.abs) <;> simp [hd] at hO ⊢ <;> exact hO

/-- arity: the generated table gives every documented fixed-arity opcode its documented operand count -/
theorem nops_agree_all :
    (docFixed.all fun g => g.1.all fun c => nopsOf insnDescs c == g.2.length) = true := by
  decide +kernel

/-- every opcode of the enum is documented as fixed-arity, variadic, or internal — and only once -/
theorem doc_partition :
    ((List.range C_INSN_BOUND).all fun c =>
      ((docFixed.filter fun g => g.1.contains c).length
        + (if docVariadic.contains c then 1 else 0) + (if docInternal.contains c then 1 else 0)) == 1) = true := by
  decide +kernel

end MirVerif.Check
