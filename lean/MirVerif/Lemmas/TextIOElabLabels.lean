import MirVerif.Lemmas.TextIOParseText
/-! # C10 — label numbering of the scanner (`create_label_desc`, `curr_label_num`) on labels that are
numbered in order of first occurrence -/
namespace TextIO

theorem natDec_inj {a b : Nat} (h : natDec a = natDec b) : a = b := by
  have := congrArg (fun s => accDigits 10 s 0) h
  simpa [accDigits_natDec] using this

theorem printLabel_inj {a b : Nat} (h : printLabel a = printLabel b) : a = b := by
  simp only [printLabel, List.cons.injEq, true_and] at h
  exact natDec_inj h

theorem labelFind_append (tab : List (Str × Nat × Bool)) (n : Str) (v : Nat) (d : Bool) (name : Str) :
    labelFind (tab ++ [(n, v, d)]) name =
      match labelFind tab name with
      | some x => some x
      | none => if n = name then some (v, d) else none := by
  induction tab with
  | nil => simp [labelFind]
  | cons e es ih =>
    obtain ⟨n', v', d'⟩ := e
    simp only [List.cons_append, labelFind]
    split
    · rfl
    · exact ih

theorem labelFind_setDef (tab : List (Str × Nat × Bool)) (n name : Str) :
    labelFind (labelSetDef tab n) name =
      if name = n then (labelFind tab n).map (fun p => (p.1, true)) else labelFind tab name := by
  induction tab with
  | nil => simp [labelSetDef, labelFind]
  | cons e es ih =>
    obtain ⟨n', v', d'⟩ := e
    simp only [labelSetDef, labelFind]
    by_cases h1 : n' = n
    · subst h1
      simp only [if_true, labelFind]
      by_cases h2 : n' = name
      · subst h2; simp
      · have : ¬ name = n' := fun h => h2 h.symm
        simp [h2, this]
    · simp only [h1, if_false, labelFind]
      by_cases h2 : n' = name
      · subst h2; simp [h1]
      · simp only [h2, if_false]; exact ih

/-- the scanner's label table knows exactly the labels `k0+1 … k` of the module, by their written
names, with their own numbers; `defs` are those already defined -/
def LabInv (tab : List (Str × Nat × Bool)) (k0 k : Nat) (defs : List Nat) : Prop :=
  (∀ l, k0 < l → l ≤ k → labelFind tab (printLabel l) = some (l, decide (l ∈ defs))) ∧
  (∀ name, (∀ l, k0 < l → l ≤ k → name ≠ printLabel l) → labelFind tab name = none) ∧
  (∀ l ∈ defs, k0 < l ∧ l ≤ k)

theorem LabInv.empty (k : Nat) : LabInv [] k k [] :=
  ⟨fun l h1 h2 => by omega, fun _ _ => rfl, fun l h => by simp at h⟩

/-- fields of the scanner state that label handling does not touch -/
def SameBut (st st' : St) : Prop :=
  st'.done = st.done ∧ st'.cur = st.cur ∧ st'.tab = st.tab ∧ st'.func = st.func ∧ st'.lastInsn = st.lastInsn

theorem SameBut.refl (st : St) : SameBut st st := ⟨rfl, rfl, rfl, rfl, rfl⟩

theorem SameBut.trans {a b c : St} (h1 : SameBut a b) (h2 : SameBut b c) : SameBut a c :=
  ⟨h2.1.trans h1.1, h2.2.1.trans h1.2.1, h2.2.2.1.trans h1.2.2.1, h2.2.2.2.1.trans h1.2.2.2.1,
    h2.2.2.2.2.trans h1.2.2.2.2⟩

/-- one step of `canonLabels` -/
def canonStep (k0 k l : Nat) : Option Nat :=
  if k0 < l && l ≤ k then some k else if l = k + 1 then some (k + 1) else none

theorem canonLabels_cons (k0 k l : Nat) (ls : List Nat) :
    canonLabels k0 k (l :: ls) = (canonStep k0 k l).bind (fun k' => canonLabels k0 k' ls) := by
  simp only [canonLabels, canonStep]
  split
  · rfl
  · split <;> rfl

theorem canonLabels_append (k0 k : Nat) (a b : List Nat) :
    canonLabels k0 k (a ++ b) = (canonLabels k0 k a).bind (fun k' => canonLabels k0 k' b) := by
  induction a generalizing k with
  | nil => simp [canonLabels]
  | cons l ls ih =>
    simp only [List.cons_append, canonLabels_cons]
    cases h : canonStep k0 k l with
    | none => rfl
    | some k' => simp [ih]

theorem canonStep_ge {k0 k l k' : Nat} (h : canonStep k0 k l = some k') : k ≤ k' ∧ k0 < l ∨ (k ≤ k' ∧ l = k + 1) := by
  simp only [canonStep] at h
  split at h
  · rename_i hh; simp only [Bool.and_eq_true, decide_eq_true_eq] at hh
    simp at h; subst h; exact Or.inl ⟨Nat.le_refl _, hh.1⟩
  · split at h
    · simp at h; subst h; exact Or.inr ⟨by omega, by assumption⟩
    · simp at h

/-- `create_label_desc (name, def_p = FALSE)` on the written name of label `l` returns `l` -/
theorem createLabel_use {st : St} {k0 k k' l : Nat} {defs : List Nat} (hk0 : k0 ≤ k)
    (hinv : LabInv st.labels k0 k defs) (hn : st.nlab = k) (hc : canonStep k0 k l = some k') :
    ∃ st', createLabel st (printLabel l) false = .ok (st', l) ∧ SameBut st st' ∧
      LabInv st'.labels k0 k' defs ∧ st'.nlab = k' ∧ k0 ≤ k' := by
  simp only [canonStep] at hc
  split at hc
  · rename_i hh
    simp only [Bool.and_eq_true, decide_eq_true_eq] at hh
    simp only [Option.some.injEq] at hc; subst hc
    refine ⟨st, ?_, SameBut.refl st, hinv, hn, hk0⟩
    simp [createLabel, hinv.1 l hh.1 hh.2]
  · split at hc
    · rename_i hh hl
      simp only [Option.some.injEq] at hc; subst hc
      have hnone : labelFind st.labels (printLabel l) = none :=
        hinv.2.1 _ (fun l' h1 h2 he => by have := printLabel_inj he; omega)
      have hnd : l ∉ defs := fun hm => by have := hinv.2.2 l hm; omega
      have hnone' := hnone
      have hnd' := hnd
      rw [hl] at hnone' hnd'
      refine ⟨{ st with labels := st.labels ++ [(printLabel l, st.nlab + 1, false)], nlab := st.nlab + 1 },
        ?_, ⟨rfl, rfl, rfl, rfl, rfl⟩, ?_, by simp [hn], by omega⟩
      · simp [createLabel, hnone, hnone', hn, hl]
      · refine ⟨?_, ?_, fun l' hm => by have := hinv.2.2 l' hm; omega⟩
        · intro l' h1 h2
          simp only [labelFind_append]
          by_cases hle : l' ≤ k
          · simp [hinv.1 l' h1 hle]
          · have : l' = l := by omega
            subst this
            simp [hnone, hnone', hn, hl, hnd, hnd']
        · intro name hname
          simp only [labelFind_append]
          have h1 := hinv.2.1 name (fun l' a b => hname l' a (by omega))
          have h2 : printLabel l ≠ name := fun he => hname l (by omega) (by omega) he.symm
          simp [h1, h2]
    · simp at hc


/-- `create_label_desc (name, def_p = TRUE)` for a label not defined before in the module -/
theorem createLabel_def {st : St} {k0 k k' l : Nat} {defs : List Nat} (hk0 : k0 ≤ k)
    (hinv : LabInv st.labels k0 k defs) (hn : st.nlab = k) (hc : canonStep k0 k l = some k') (hnd : l ∉ defs) :
    ∃ st', createLabel st (printLabel l) true = .ok (st', l) ∧ SameBut st st' ∧
      LabInv st'.labels k0 k' (defs ++ [l]) ∧ st'.nlab = k' ∧ k0 ≤ k' := by
  simp only [canonStep] at hc
  split at hc
  · rename_i hh
    simp only [Bool.and_eq_true, decide_eq_true_eq] at hh
    simp only [Option.some.injEq] at hc; subst hc
    have hf := hinv.1 l hh.1 hh.2
    refine ⟨{ st with labels := labelSetDef st.labels (printLabel l) }, ?_, ⟨rfl, rfl, rfl, rfl, rfl⟩, ?_, hn, hk0⟩
    · simp [createLabel, hf, hnd]
    · refine ⟨?_, ?_, ?_⟩
      · intro l' h1 h2
        simp only [labelFind_setDef]
        by_cases he : l' = l
        · subst he; simp [hf]
        · have : printLabel l' ≠ printLabel l := fun h => he (printLabel_inj h)
          simp [this, hinv.1 l' h1 h2, he]
      · intro name hname
        simp only [labelFind_setDef]
        have : name ≠ printLabel l := hname l hh.1 hh.2
        simp [this, hinv.2.1 name hname]
      · intro l' hm
        simp only [List.mem_append, List.mem_singleton] at hm
        rcases hm with hm | hm
        · exact hinv.2.2 l' hm
        · subst hm; exact hh
  · split at hc
    · rename_i hh hl
      simp only [Option.some.injEq] at hc; subst hc
      have hnone : labelFind st.labels (printLabel l) = none :=
        hinv.2.1 _ (fun l' h1 h2 he => by have := printLabel_inj he; omega)
      have hnone' := hnone
      rw [hl] at hnone'
      refine ⟨{ st with labels := st.labels ++ [(printLabel l, st.nlab + 1, true)], nlab := st.nlab + 1 },
        ?_, ⟨rfl, rfl, rfl, rfl, rfl⟩, ?_, by simp [hn], by omega⟩
      · simp [createLabel, hnone, hnone', hn, hl]
      · refine ⟨?_, ?_, ?_⟩
        · intro l' h1 h2
          simp only [labelFind_append]
          by_cases hle : l' ≤ k
          · have hne : l' ≠ l := by omega
            simp [hinv.1 l' h1 hle, hne]
          · have : l' = l := by omega
            subst this
            simp [hnone, hnone', hn, hl]
        · intro name hname
          simp only [labelFind_append]
          have h1 := hinv.2.1 name (fun l' a b => hname l' a (by omega))
          have h2 : printLabel l ≠ name := fun he => hname l (by omega) (by omega) he.symm
          simp [h1, h2]
        · intro l' hm
          simp only [List.mem_append, List.mem_singleton] at hm
          rcases hm with hm | hm
          · have := hinv.2.2 l' hm; omega
          · subst hm; omega
    · simp at hc

end TextIO
