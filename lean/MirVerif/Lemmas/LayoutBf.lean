import MirVerif.Lemmas.Layout
/-! C08: the search loop of `update_field_layout` when bit-fields are involved, under the side
condition of `layout_meets_sysv_partial` (all bit-fields of one struct/union have declared types of
one size `S`, are named and of non-zero width). -/
set_option linter.unusedSimpArgs false
namespace MirVerif.Layout

theorem succ_mul_sub (d S : Nat) : (d + 1) * S - S = d * S := by
  rw [Nat.add_mul]; omega

/-- bit-field then regular field: walk down to the least multiple of the alignment not below the
last used byte of the bit-field -/
theorem ufLoop_bf_plain (pO pS fs al b : Nat) (hal : 0 < al) :
    ∀ k, pO + (b + 7) / 8 ≤ k * al →
      ufLoop true pO pS fs al none (k * al) (k * al) b = (roundUp (pO + (b + 7) / 8) al, b) := by
  intro k
  induction k with
  | zero =>
    intro h
    have hP : pO + (b + 7) / 8 = 0 := by omega
    unfold ufLoop
    simp [hal, hP, roundUp_zero]
  | succ k ih =>
    intro h
    unfold ufLoop
    have h1 : ¬ ((k + 1) * al < al) := by rw [Nat.add_mul]; omega
    have h2 : al ≠ 0 := by omega
    simp only [h1, h2, if_false, succ_mul_sub]
    by_cases hc : k * al < pO + (b + 7) / 8
    · simp [hc]
      exact (roundUp_eq_of_bounds hal h (by rw [Nat.add_mul]; omega)).symm
    · simp [hc]
      exact ih (by omega)

/-- bit-field then bit-field of the same unit size, and it still fits into the unit at `pO` -/
theorem ufLoop_bf_bf_fit (pO pS S b w : Nat) (hS : 0 < S) (hw : 0 < w) (hfit : b + w ≤ 8 * S) :
    ∀ d, ufLoop true pO pS S S (some w) (pO + d * S) (pO + d * S) b = (pO, b + w) := by
  intro d
  induction d with
  | zero =>
    unfold ufLoop
    by_cases h1 : pO < S
    · simp [h1]
    · have h2 : S ≠ 0 := by omega
      have h3 : (pO - S + S) * 8 < pO * 8 + b + w := by omega
      simp [h1, h2, h3]
      split <;> omega
  | succ d ih =>
    unfold ufLoop
    have h1 : ¬ (pO + (d + 1) * S < S) := by rw [Nat.add_mul]; omega
    have h2 : S ≠ 0 := by omega
    have h3 : pO + (d + 1) * S - S = pO + d * S := by rw [Nat.add_mul]; omega
    have h4 : ¬ ((pO + d * S + S) * 8 < pO * 8 + b + w) := by omega
    simp only [h1, h2, if_false, h3, h4]
    simpa using ih

/-- bit-field then bit-field of the same unit size that does not fit any more: next unit -/
theorem ufLoop_bf_bf_nofit (pO pS S b w : Nat) (hS : 0 < S) (hb : b ≤ 8 * S) (hw : w ≤ 8 * S)
    (hno : 8 * S < b + w) :
    ∀ d, ufLoop true pO pS S S (some w) (pO + S + d * S) (pO + S + d * S) b = (pO + S, w) := by
  intro d
  induction d with
  | zero =>
    simp only [Nat.zero_mul, Nat.add_zero]
    unfold ufLoop
    have h1 : ¬ (pO + S < S) := by omega
    have h2 : S ≠ 0 := by omega
    have h0 : pO + S - S = pO := by omega
    have h3 : (pO + S) * 8 < pO * 8 + b + w := by omega
    simp only [h1, h2, h0, h3, if_false, if_true, Bool.not_true, Bool.false_eq_true]
    congr 1
    split <;> omega
  | succ d ih =>
    unfold ufLoop
    have h1 : ¬ (pO + S + (d + 1) * S < S) := by rw [Nat.add_mul]; omega
    have h2 : S ≠ 0 := by omega
    have h3 : pO + S + (d + 1) * S - S = pO + S + d * S := by rw [Nat.add_mul]; omega
    have h4 : ¬ ((pO + S + d * S + S) * 8 < pO * 8 + b + w) := by omega
    simp only [h1, h2, if_false, h3, h4]
    simpa using ih

/-- regular field (ending at byte `U + r`, `0 < r`) then a bit-field that fits into the rest of the
unit `[U, U+S)` -/
theorem ufLoop_plain_bf_fit (pO pS S U r w : Nat) (hP : pO + pS = U + r) (hr : 0 < r)
    (hfit : 8 * r + w ≤ 8 * S) (hw : 0 < w) :
    ∀ d b, ufLoop false pO pS S S (some w) (U + S + d * S) (U + S + d * S) b = (U, 8 * r + w) := by
  have hS : 0 < S := by omega
  have h2 : S ≠ 0 := by omega
  intro d
  induction d with
  | zero =>
    intro b
    unfold ufLoop
    have h1 : ¬ (U + S < S) := by omega
    have h3 : U + S - S = U := by omega
    have h4 : U < pO + pS := by omega
    have h5 : (pO + pS - U) * 8 + w ≤ S * 8 := by omega
    simp only [h1, h2, if_false, h3, h4, if_true, Nat.zero_mul, Nat.add_zero, Bool.not_false, h5]
    -- second round, from `U`
    unfold ufLoop
    by_cases h6 : U < S
    · simp [h6]; omega
    · have h7 : U - S < pO + pS := by omega
      have h8 : ¬ ((pO + pS - (U - S)) * 8 + w ≤ S * 8) := by omega
      have h9 : pO + pS > U := by omega
      simp [h6, h2, h7, h8, h9]
      omega
  | succ d ih =>
    intro b
    unfold ufLoop
    have h1 : ¬ (U + S + (d + 1) * S < S) := by rw [Nat.add_mul]; omega
    have h3 : U + S + (d + 1) * S - S = U + S + d * S := by rw [Nat.add_mul]; omega
    have h4 : ¬ (U + S + d * S < pO + pS) := by omega
    simp only [h1, h2, if_false, h3, h4, Bool.not_false, if_true]
    exact ih b

/-- regular field (ending at byte `U + r`, `0 < r < S`) then a bit-field that does not fit into the
rest of the unit: next unit -/
theorem ufLoop_plain_bf_nofit (pO pS S U r w : Nat) (hP : pO + pS = U + r) (hr : 0 < r) (hrS : r < S)
    (hno : 8 * S < 8 * r + w) :
    ∀ d b, ufLoop false pO pS S S (some w) (U + S + d * S) (U + S + d * S) b = (U + S, w) := by
  have hS : 0 < S := by omega
  have h2 : S ≠ 0 := by omega
  intro d
  induction d with
  | zero =>
    intro b
    unfold ufLoop
    have h1 : ¬ (U + S < S) := by omega
    have h3 : U + S - S = U := by omega
    have h4 : U < pO + pS := by omega
    have h5 : ¬ ((pO + pS - U) * 8 + w ≤ S * 8) := by omega
    have h6 : ¬ (pO + pS > U + S) := by omega
    simp [h1, h2, h3, h4, h5, h6]
  | succ d ih =>
    intro b
    unfold ufLoop
    have h1 : ¬ (U + S + (d + 1) * S < S) := by rw [Nat.add_mul]; omega
    have h3 : U + S + (d + 1) * S - S = U + S + d * S := by rw [Nat.add_mul]; omega
    have h4 : ¬ (U + S + d * S < pO + pS) := by omega
    simp only [h1, h2, if_false, h3, h4, Bool.not_false, if_true]
    exact ih b

/-- regular field ending exactly on a unit boundary `U` (or nothing before: `U = 0`, bound 0) then
a bit-field: it starts the unit at `U` -/
theorem ufLoop_plain_bf_boundary (pO pS S U w : Nat) (hP : pO + pS = U) (hS : 0 < S) (hw : 0 < w) :
    ∀ d b, (S ≤ U ∨ (U = 0 ∧ b = 0)) →
      ufLoop false pO pS S S (some w) (U + d * S) (U + d * S) b = (U, w) := by
  have h2 : S ≠ 0 := by omega
  intro d
  induction d with
  | zero =>
    intro b hU
    unfold ufLoop
    rcases hU with hU | ⟨hU, hb⟩
    · have h1 : ¬ (U < S) := by omega
      have h4 : U - S < pO + pS := by omega
      have h5 : ¬ ((pO + pS - (U - S)) * 8 + w ≤ S * 8) := by omega
      have h6 : ¬ (pO + pS > U) := by omega
      simp [h1, h2, h4, h5, h6]
    · subst hU hb
      simp [hS]
  | succ d ih =>
    intro b hU
    unfold ufLoop
    have h1 : ¬ (U + (d + 1) * S < S) := by rw [Nat.add_mul]; omega
    have h3 : U + (d + 1) * S - S = U + d * S := by rw [Nat.add_mul]; omega
    have h4 : ¬ (U + d * S < pO + pS) := by omega
    simp only [h1, h2, if_false, h3, h4, Bool.not_false, if_true]
    exact ih b hU

/-! ### arithmetic of storage units -/

theorem roundUp_mono {x y : Nat} (a : Nat) (h : x ≤ y) : roundUp x a ≤ roundUp y a := by
  unfold roundUp
  exact Nat.mul_le_mul_right _ (Nat.div_le_div_right (by omega))

/-- `roundUp c S` is the least multiple of `S` not below `c` -/
theorem roundUp_le_of_dvd {c y S : Nat} (hS : 0 < S) (hd : S ∣ y) (hc : c ≤ y) : roundUp c S ≤ y := by
  obtain ⟨j, rfl⟩ := hd
  unfold roundUp
  have : (c + S - 1) / S ≤ j := by
    apply Nat.le_of_lt_succ
    rw [Nat.div_lt_iff_lt_mul hS, Nat.succ_mul, Nat.mul_comm j S]
    omega
  calc (c + S - 1) / S * S ≤ j * S := Nat.mul_le_mul_right _ this
    _ = S * j := Nat.mul_comm _ _

theorem roundUp_ge_unit {x S : Nat} (hS : 0 < S) (hx : 0 < x) : S ≤ roundUp x S := by
  have h1 := roundUp_ge (x := x) hS
  obtain ⟨j, hj⟩ := roundUp_dvd x S
  rw [hj] at h1 ⊢
  cases j with
  | zero => omega
  | succ j => rw [Nat.mul_add]; omega

/-- a multiple of `S` above the multiple `x` is at least `x + S` -/
theorem dvd_step {x y S : Nat} (hx : S ∣ x) (hy : S ∣ y) (h : x < y) : x + S ≤ y := by
  obtain ⟨i, rfl⟩ := hx
  obtain ⟨j, rfl⟩ := hy
  have hS : 0 < S := by
    cases S with
    | zero => simp at h
    | succ n => omega
  have : i < j := by
    apply Nat.lt_of_mul_lt_mul_left (a := S); exact h
  have : S * (i + 1) ≤ S * j := Nat.mul_le_mul_left _ this
  rw [Nat.mul_add] at this
  omega

theorem exists_steps {x y S : Nat} (hx : S ∣ x) (hy : S ∣ y) (h : x ≤ y) : ∃ d, y = x + d * S := by
  obtain ⟨d, hd⟩ := Nat.dvd_sub hy hx
  exact ⟨d, by rw [Nat.mul_comm d S, ← hd]; omega⟩

theorem unit_mod {pO S b : Nat} (hd : S ∣ pO) (hb : b < 8 * S) : (8 * pO + b) % (8 * S) = b := by
  obtain ⟨m, rfl⟩ := hd
  have : 8 * (S * m) + b = (8 * S) * m + b := by rw [Nat.mul_assoc]
  rw [this, Nat.mul_add_mod, Nat.mod_eq_of_lt hb]

theorem unit_div {pO S b : Nat} (hd : S ∣ pO) (hb : b < 8 * S) : (8 * pO + b) / (8 * S) * S = pO := by
  obtain ⟨m, rfl⟩ := hd
  have hS : 0 < 8 * S := by omega
  have : 8 * (S * m) + b = (8 * S) * m + b := by rw [Nat.mul_assoc]
  rw [this, Nat.mul_add_div hS, Nat.div_eq_of_lt hb, Nat.add_zero, Nat.mul_comm]

theorem unit_roundUp {pO S b : Nat} (hd : S ∣ pO) (hb0 : 0 < b) (hb : b ≤ 8 * S) :
    roundUp (8 * pO + b) (8 * S) = 8 * (pO + S) := by
  obtain ⟨m, rfl⟩ := hd
  have hS : 0 < 8 * S := by omega
  have h := roundUp_eq_of_bounds (x := 8 * (S * m) + b) (a := 8 * S) (k := m + 1) hS
    (by rw [Nat.add_mul, Nat.mul_comm m, Nat.mul_assoc]; omega)
    (by rw [Nat.add_mul, Nat.mul_comm m, Nat.mul_assoc]; omega)
  rw [h, Nat.add_mul, Nat.mul_comm m, Nat.mul_assoc]
  omega

/-- final size: the code rounds `overall_size`, the psABI the last used byte -/
theorem roundUp_final {c o S A : Nat} (hS : 0 < S) (hA : 0 < A) (hSA : S ∣ A) (h1 : c ≤ o)
    (h2 : o ≤ roundUp c S) : roundUp o A = roundUp c A := by
  have hle : roundUp c S ≤ roundUp c A :=
    roundUp_le_of_dvd hS (Nat.dvd_trans hSA (roundUp_dvd c A)) (roundUp_ge hA)
  have hlt : (c + A - 1) / A * A < c + A := by
    have := Nat.div_mul_le_self (c + A - 1) A
    omega
  unfold roundUp at hle ⊢
  exact roundUp_eq_of_bounds hA (by unfold roundUp at h2; omega) (by omega)

/-- powers of two (all alignments are) -/
def isPow2 (n : Nat) : Prop := ∃ k, n = 2 ^ k

theorem isPow2_max {a b : Nat} (ha : isPow2 a) (hb : isPow2 b) : isPow2 (max a b) := by
  rw [Nat.max_def]; split <;> assumption

theorem isPow2_dvd {a b : Nat} (ha : isPow2 a) (hb : isPow2 b) (h : a ≤ b) : a ∣ b := by
  obtain ⟨i, rfl⟩ := ha
  obtain ⟨j, rfl⟩ := hb
  apply Nat.pow_dvd_pow
  by_cases hij : i ≤ j
  · exact hij
  · exfalso
    have : 2 ^ j < 2 ^ i := Nat.pow_lt_pow_right (by omega) (by omega)
    omega

theorem Sc.align_pow2 (s : Sc) : isPow2 s.align := by
  cases s
  all_goals first | exact ⟨0, rfl⟩ | exact ⟨1, rfl⟩ | exact ⟨2, rfl⟩ | exact ⟨3, rfl⟩ | exact ⟨4, rfl⟩

/-! ### `update_field_layout` in the bit-field modes -/

theorem ufl_bf_plain (st : FL) (pS fs al : Nat) (hbf : st.bf = true) (hal : 0 < al)
    (hP : st.offset + (st.bound + 7) / 8 ≤ st.overall) :
    updateFieldLayout st pS fs al none
      = { bf := false, offset := roundUp (st.offset + (st.bound + 7) / 8) al, bound := st.bound,
          overall := if st.overall < roundUp (st.offset + (st.bound + 7) / 8) al + fs
                     then roundUp (st.offset + (st.bound + 7) / 8) al + fs else st.overall } := by
  unfold updateFieldLayout
  have hge : st.overall ≤ (st.overall + al - 1) / al * al := roundUp_ge (x := st.overall) hal
  have hl := ufLoop_bf_plain st.offset pS fs al st.bound hal ((st.overall + al - 1) / al) (by omega)
  simp [hbf, hl]

theorem s0_ge (ov S : Nat) (hS : 0 < S) : ov ≤ (ov + S - 1) / S * S := roundUp_ge (x := ov) hS
theorem s0_dvd (ov S : Nat) : S ∣ (ov + S - 1) / S * S := Nat.dvd_mul_left _ _

theorem ufl_bf_bf_fit (st : FL) (pS S w : Nat) (hbf : st.bf = true) (hS : 0 < S)
    (hd : S ∣ st.offset) (hov : st.offset + S ≤ st.overall) (hw : 0 < w)
    (hfit : st.bound + w ≤ 8 * S) :
    updateFieldLayout st pS S S (some w)
      = { bf := true, offset := st.offset, bound := st.bound + w, overall := st.overall } := by
  unfold updateFieldLayout
  have hge := s0_ge st.overall S hS
  obtain ⟨d, hs0⟩ := exists_steps hd (s0_dvd st.overall S) (by omega)
  have hb0 : ¬ ((st.overall + S - 1) / S * S < S ∧ (some w).isSome = true) := by
    intro h; omega
  simp only [hb0, if_false]
  rw [hs0, hbf, ufLoop_bf_bf_fit st.offset pS S st.bound w hS hw hfit d]
  have : ¬ (st.overall < st.offset + S) := by omega
  simp [this]

theorem ufl_bf_bf_nofit (st : FL) (pS S w : Nat) (hbf : st.bf = true) (hS : 0 < S)
    (hd : S ∣ st.offset) (hov : st.offset + S ≤ st.overall) (hb : st.bound ≤ 8 * S)
    (hw : w ≤ 8 * S) (hno : 8 * S < st.bound + w) :
    updateFieldLayout st pS S S (some w)
      = { bf := true, offset := st.offset + S, bound := w,
          overall := if st.overall < st.offset + S + S then st.offset + S + S else st.overall } := by
  unfold updateFieldLayout
  have hge := s0_ge st.overall S hS
  obtain ⟨d, hs0⟩ := exists_steps (Nat.dvd_add hd (Nat.dvd_refl S)) (s0_dvd st.overall S) (by omega)
  have hb0 : ¬ ((st.overall + S - 1) / S * S < S ∧ (some w).isSome = true) := by
    intro h; omega
  simp only [hb0, if_false]
  rw [hs0, hbf, ufLoop_bf_bf_nofit st.offset pS S st.bound w hS hb hw hno d]
  simp

theorem ufl_plain_bf_boundary (st : FL) (pS S U w : Nat) (hbf : st.bf = false) (hS : 0 < S)
    (hP : st.offset + pS = U) (hd : S ∣ U) (hov : U ≤ st.overall) (hw : 0 < w)
    (h0 : U = 0 → st.overall = 0 ∨ st.bound = 0) :
    updateFieldLayout st pS S S (some w)
      = { bf := true, offset := U, bound := w,
          overall := if st.overall < U + S then U + S else st.overall } := by
  unfold updateFieldLayout
  have hge := s0_ge st.overall S hS
  obtain ⟨d, hs0⟩ := exists_steps hd (s0_dvd st.overall S) (by omega)
  have hcond : S ≤ U ∨ (U = 0 ∧
      (if (st.overall + S - 1) / S * S < S ∧ (some w).isSome = true then 0 else st.bound) = 0) := by
    by_cases hU : U = 0
    · right
      refine ⟨hU, ?_⟩
      rcases h0 hU with h | h
      · have : (st.overall + S - 1) / S * S < S := by
          rw [h]; simp
          have : (S - 1) / S = 0 := Nat.div_eq_of_lt (by omega)
          rw [this]; omega
        simp [this]
      · split <;> simp [h]
    · left
      obtain ⟨j, hj⟩ := hd
      cases j with
      | zero => omega
      | succ j => rw [hj, Nat.mul_add]; omega
  rw [hbf]
  simp only []
  rw [hs0]
  rw [ufLoop_plain_bf_boundary st.offset pS S U w hP hS hw d _ (by rw [← hs0]; exact hcond)]
  simp

theorem ufl_plain_bf_fit (st : FL) (pS S U r w : Nat) (hbf : st.bf = false)
    (hP : st.offset + pS = U + r) (hd : S ∣ U) (hov : U + r ≤ st.overall) (hr : 0 < r) (hw : 0 < w)
    (hfit : 8 * r + w ≤ 8 * S) :
    updateFieldLayout st pS S S (some w)
      = { bf := true, offset := U, bound := 8 * r + w,
          overall := if st.overall < U + S then U + S else st.overall } := by
  have hS : 0 < S := by omega
  unfold updateFieldLayout
  have hge := s0_ge st.overall S hS
  have hstep := dvd_step hd (s0_dvd st.overall S) (by omega)
  obtain ⟨d, hs0⟩ := exists_steps (Nat.dvd_add hd (Nat.dvd_refl S)) (s0_dvd st.overall S) hstep
  rw [hbf]
  simp only []
  rw [hs0]
  rw [ufLoop_plain_bf_fit st.offset pS S U r w hP hr hfit hw d _]
  simp

theorem ufl_plain_bf_nofit (st : FL) (pS S U r w : Nat) (hbf : st.bf = false)
    (hP : st.offset + pS = U + r) (hd : S ∣ U) (hov : U + r ≤ st.overall) (hr : 0 < r) (hrS : r < S)
    (hno : 8 * S < 8 * r + w) :
    updateFieldLayout st pS S S (some w)
      = { bf := true, offset := U + S, bound := w,
          overall := if st.overall < U + S + S then U + S + S else st.overall } := by
  have hS : 0 < S := by omega
  unfold updateFieldLayout
  have hge := s0_ge st.overall S hS
  have hstep := dvd_step hd (s0_dvd st.overall S) (by omega)
  obtain ⟨d, hs0⟩ := exists_steps (Nat.dvd_add hd (Nat.dvd_refl S)) (s0_dvd st.overall S) hstep
  rw [hbf]
  simp only []
  rw [hs0]
  rw [ufLoop_plain_bf_nofit st.offset pS S U r w hP hr hrS hno d _]
  simp

/-! ### simulation relation with bit-fields -/

/-- relation between the locals of `set_type_layout` and the specification state for an aggregate
whose bit-fields all have declared types of size `S` (`S = 1` if there are none) -/
structure RelB (u : Bool) (S : Nat) (c : MSt) (s : SSt) : Prop where
  out : c.out = s.out
  lo : (s.bitpos + 7) / 8 ≤ c.overall
  hi : c.overall ≤ roundUp ((s.bitpos + 7) / 8) S
  st : if u then (c.bf = false ∧ c.offset = 0 ∧ c.prevSize = 0 ∧ c.bound = 0)
       else if c.bf then (S ∣ c.offset ∧ s.bitpos = 8 * c.offset + c.bound ∧ 0 < c.bound
                          ∧ c.bound ≤ 8 * S ∧ c.offset + S ≤ c.overall)
       else s.bitpos = 8 * (c.offset + c.prevSize)

theorem RelB.init (u : Bool) (S : Nat) : RelB u S {} {} := by
  constructor <;> simp [roundUp_zero]

theorem div8a (x : Nat) : (8 * x + 7) / 8 = x := by omega
theorem div8b (x : Nat) : (x * 8 + 7) / 8 = x := by omega

/-- a regular member keeps the relation -/
theorem stepB_plain {u : Bool} {S : Nat} {c : MSt} {s : SSt} {k : MK} {sz al : Nat}
    (hr : RelB u S c s) (hS : 0 < S) (hsz : 0 < sz) (hal : 0 < al) (hk : ∀ w nm, k ≠ .bf w nm) :
    RelB u S (c2mMember u c k sz al) (sysvMember u s k sz al) := by
  have hbits := MK.bits_none_of_not_bf hk
  obtain ⟨cbf, cov, coff, cbound, cps, cout⟩ := c
  obtain ⟨sbit, sout⟩ := s
  obtain ⟨hout, hlo, hhi, hst⟩ := hr
  simp only at hout hlo hhi hst
  subst hout
  have hsz' : sz ≠ 0 := by omega
  cases u with
  | true =>
    simp at hst
    obtain ⟨h1, h2, h3, h4⟩ := hst
    subst h1 h2 h3 h4
    have hufl := ufl_plain ⟨false, cov, 0, 0⟩ 0 sz al rfl hal (by simp)
    simp only [Nat.add_zero, roundUp_zero, Nat.zero_add] at hufl
    have hm1 := roundUp_mono S (show (sbit + 7) / 8 ≤ (max sbit (8 * sz) + 7) / 8 by omega)
    have hm2 := roundUp_ge (x := (max sbit (8 * sz) + 7) / 8) hS
    cases k with
    | bf w nm => exact absurd rfl (hk w nm)
    | plain =>
      simp only [c2mMember, sysvMember, hsz', MK.bits, hufl, if_true, if_false]
      constructor <;> simp <;> (try split) <;> omega
    | anon =>
      simp only [c2mMember, sysvMember, hsz', MK.bits, hufl, if_true, if_false]
      constructor <;> simp <;> (try split) <;> omega
  | false =>
    cases cbf with
    | false =>
      simp at hst
      subst hst
      simp only [div8a] at hlo hhi
      have hufl := ufl_plain ⟨false, cov, coff, cbound⟩ cps sz al rfl hal hlo
      have hge := roundUp_ge (x := coff + cps) hal
      have hm1 := roundUp_mono S (show coff + cps ≤ roundUp (coff + cps) al + sz by omega)
      have hm2 := roundUp_ge (x := roundUp (coff + cps) al + sz) hS
      cases k with
      | bf w nm => exact absurd rfl (hk w nm)
      | plain =>
        simp only [c2mMember, sysvMember, hsz', MK.bits, hufl, if_false, div8a, div8b]
        constructor <;> simp [div8a, div8b] <;> (try split) <;> omega
      | anon =>
        simp only [c2mMember, sysvMember, hsz', MK.bits, hufl, if_false, div8a, div8b]
        constructor <;> simp [div8a, div8b] <;> (try split) <;> omega
    | true =>
      simp at hst
      obtain ⟨h1, h2, h3, h4, h5⟩ := hst
      subst h2
      have hP : (8 * coff + cbound + 7) / 8 = coff + (cbound + 7) / 8 := by omega
      rw [hP] at hlo hhi
      have hufl := ufl_bf_plain ⟨true, cov, coff, cbound⟩ cps sz al rfl hal hlo
      have hge := roundUp_ge (x := coff + (cbound + 7) / 8) hal
      have hm1 := roundUp_mono S
        (show coff + (cbound + 7) / 8 ≤ roundUp (coff + (cbound + 7) / 8) al + sz by omega)
      have hm2 := roundUp_ge (x := roundUp (coff + (cbound + 7) / 8) al + sz) hS
      cases k with
      | bf w nm => exact absurd rfl (hk w nm)
      | plain =>
        simp only [c2mMember, sysvMember, hsz', MK.bits, hufl, if_false, hP]
        constructor <;> simp [div8a, div8b] <;> (try split) <;> omega
      | anon =>
        simp only [c2mMember, sysvMember, hsz', MK.bits, hufl, if_false, hP]
        constructor <;> simp [div8a, div8b] <;> (try split) <;> omega

theorem unit_mod0 {pO S : Nat} (hd : S ∣ pO) (hS : 0 < S) : (8 * pO) % (8 * S) = 0 := by
  simpa using unit_mod (b := 0) hd (by omega)
theorem unit_div0 {pO S : Nat} (hd : S ∣ pO) (hS : 0 < S) : (8 * pO) / (8 * S) * S = pO := by
  simpa using unit_div (b := 0) hd (by omega)

/-- a named bit-field of width `0 < w ≤ 8 S` whose declared type has size `S` keeps the relation -/
theorem stepB_bf {u : Bool} {S : Nat} {c : MSt} {s : SSt} {w : Nat} {nm : Bool}
    (hr : RelB u S c s) (hS : 0 < S) (hw : 0 < w) (hw8 : w ≤ 8 * S) :
    RelB u S (c2mMember u c (.bf w nm) S S) (sysvMember u s (.bf w nm) S S) := by
  obtain ⟨cbf, cov, coff, cbound, cps, cout⟩ := c
  obtain ⟨sbit, sout⟩ := s
  obtain ⟨hout, hlo, hhi, hst⟩ := hr
  simp only at hout hlo hhi hst
  subst hout
  have hS' : S ≠ 0 := by omega
  have hw0 : w ≠ 0 := by omega
  have hsome : ¬ (some w = some 0) := by simp [hw0]
  cases u with
  | true =>
    simp at hst
    obtain ⟨h1, h2, h3, h4⟩ := hst
    subst h1 h2 h3 h4
    have hufl := ufl_plain_bf_boundary ⟨false, cov, 0, 0⟩ 0 S 0 w rfl hS rfl (Nat.dvd_zero S)
      (Nat.zero_le _) hw (fun _ => Or.inr rfl)
    have hm1 := roundUp_mono S (show (sbit + 7) / 8 ≤ (max sbit w + 7) / 8 by omega)
    have hm2 := roundUp_ge_unit (x := (max sbit w + 7) / 8) hS (by omega)
    simp only [c2mMember, sysvMember, hS', MK.bits, hufl, if_true, if_false]
    constructor <;> simp <;> (try split) <;> omega
  | false =>
    cases cbf with
    | false =>
      simp at hst
      subst hst
      simp only [div8a] at hlo hhi
      -- P = U + r
      have hdm := Nat.div_add_mod (coff + cps) S
      have hrS := Nat.mod_lt (coff + cps) hS
      have hdU : S ∣ S * ((coff + cps) / S) := Nat.dvd_mul_right _ _
      generalize hU : S * ((coff + cps) / S) = U at hdm hdU
      generalize hr : (coff + cps) % S = r at hdm hrS
      have hP : coff + cps = U + r := by omega
      rw [hP] at hlo hhi ⊢
      by_cases hr0 : r = 0
      · subst hr0
        simp only [Nat.add_zero] at hP hlo hhi ⊢
        have hufl := ufl_plain_bf_boundary ⟨false, cov, coff, cbound⟩ cps S U w rfl hS hP hdU hlo hw
          (fun h => Or.inl (by subst h; simpa [roundUp_zero] using hhi))
        have hmod := unit_mod0 hdU hS
        have hdiv := unit_div0 hdU hS
        have hc : ¬ (0 + w > 8 * S) := by omega
        have hm1 := roundUp_mono S (show U ≤ (8 * U + w + 7) / 8 by omega)
        have hm2 := roundUp_ge (x := (8 * U + w + 7) / 8) hS
        have hm3 := dvd_step hdU (roundUp_dvd ((8 * U + w + 7) / 8) S) (by omega)
        simp only [c2mMember, sysvMember, hS', MK.bits, hufl, if_false, hw0, hsome, hmod, hc, hdiv,
          Bool.false_eq_true]
        constructor <;> simp <;> (try split) <;> omega
      · have hr1 : 0 < r := by omega
        have h8 : 8 * (U + r) = 8 * U + 8 * r := by omega
        by_cases hfit : 8 * r + w ≤ 8 * S
        · have hufl := ufl_plain_bf_fit ⟨false, cov, coff, cbound⟩ cps S U r w rfl hP hdU hlo hr1 hw hfit
          have hmod := unit_mod (b := 8 * r) hdU (by omega)
          have hdiv := unit_div (b := 8 * r) hdU (by omega)
          have hc : ¬ (8 * r + w > 8 * S) := by omega
          have hm1 := roundUp_mono S (show U + r ≤ (8 * U + 8 * r + w + 7) / 8 by omega)
          have hm2 := roundUp_ge (x := (8 * U + 8 * r + w + 7) / 8) hS
          have hm3 := dvd_step hdU (roundUp_dvd ((8 * U + 8 * r + w + 7) / 8) S) (by omega)
          simp only [c2mMember, sysvMember, hS', MK.bits, hufl, if_false, hw0, hsome, h8, hmod, hc,
            hdiv, Bool.false_eq_true]
          constructor <;> simp <;> (try split) <;> omega
        · have hufl := ufl_plain_bf_nofit ⟨false, cov, coff, cbound⟩ cps S U r w rfl hP hdU hlo hr1
            hrS (by omega)
          have hmod := unit_mod (b := 8 * r) hdU (by omega)
          have hru := unit_roundUp (b := 8 * r) hdU (by omega) (by omega)
          have hdU2 : S ∣ U + S := Nat.dvd_add hdU (Nat.dvd_refl S)
          have hdiv := unit_div0 hdU2 hS
          have hc : 8 * r + w > 8 * S := by omega
          have hm1 := roundUp_mono S (show U + r ≤ (8 * (U + S) + w + 7) / 8 by omega)
          have hm2 := roundUp_ge (x := (8 * (U + S) + w + 7) / 8) hS
          have hm3 := dvd_step hdU2 (roundUp_dvd ((8 * (U + S) + w + 7) / 8) S) (by omega)
          simp only [c2mMember, sysvMember, hS', MK.bits, hufl, if_false, hw0, hsome, h8, hmod, hc,
            hru, hdiv, if_true, Bool.false_eq_true]
          constructor <;> simp <;> (try split) <;> omega
    | true =>
      simp at hst
      obtain ⟨hd, h2, hb0, hb8, hov⟩ := hst
      subst h2
      have hceil : (8 * coff + cbound + 7) / 8 ≤ coff + S := by omega
      by_cases hfit : cbound + w ≤ 8 * S
      · have hufl := ufl_bf_bf_fit ⟨true, cov, coff, cbound⟩ cps S w rfl hS hd hov hw hfit
        have hmod := unit_mod (b := cbound) hd (by omega)
        have hdiv := unit_div (b := cbound) hd (by omega)
        have hc : ¬ (cbound + w > 8 * S) := by omega
        have hm1 := roundUp_mono S
          (show (8 * coff + cbound + 7) / 8 ≤ (8 * coff + cbound + w + 7) / 8 by omega)
        simp only [c2mMember, sysvMember, hS', MK.bits, hufl, if_false, hw0, hsome, hmod, hc, hdiv,
          Bool.false_eq_true]
        constructor <;> simp <;> (try split) <;> omega
      · have hufl := ufl_bf_bf_nofit ⟨true, cov, coff, cbound⟩ cps S w rfl hS hd hov hb8 hw8
          (show 8 * S < cbound + w by omega)
        have hdU2 : S ∣ coff + S := Nat.dvd_add hd (Nat.dvd_refl S)
        have hdiv := unit_div0 hdU2 hS
        have hm1 := roundUp_mono S
          (show (8 * coff + cbound + 7) / 8 ≤ (8 * (coff + S) + w + 7) / 8 by omega)
        have hm2 := roundUp_ge (x := (8 * (coff + S) + w + 7) / 8) hS
        have hm3 := dvd_step hdU2 (roundUp_dvd ((8 * (coff + S) + w + 7) / 8) S) (by omega)
        by_cases hfull : cbound = 8 * S
        · subst hfull
          have h8 : 8 * coff + 8 * S = 8 * (coff + S) := by omega
          have hmod := unit_mod0 hdU2 hS
          have hc : ¬ (0 + w > 8 * S) := by omega
          simp only [c2mMember, sysvMember, hS', MK.bits, hufl, if_false, hw0, hsome, h8, hmod, hc,
            hdiv, Bool.false_eq_true]
          constructor <;> simp <;> (try split) <;> omega
        · have hmod := unit_mod (b := cbound) hd (by omega)
          have hru := unit_roundUp (b := cbound) hd hb0 hb8
          have hc : cbound + w > 8 * S := by omega
          simp only [c2mMember, sysvMember, hS', MK.bits, hufl, if_false, hw0, hsome, hmod, hc, hru,
            hdiv, if_true, Bool.false_eq_true]
          constructor <;> simp <;> (try split) <;> omega

theorem isPow2_one : isPow2 1 := ⟨0, rfl⟩

theorem Sc.size_eq_align (s : Sc) : s.size = s.align := rfl

/-- the first bit-field's declared size is positive and a power of two -/
theorem bfSizes_head : ∀ ms : Mems, ms.wf = true → 0 < ms.bfSizes.headD 1 ∧ isPow2 (ms.bfSizes.headD 1)
  | .nil, _ => by simp [Mems.bfSizes, isPow2_one]
  | .cons k t r, hw => by
    simp [Mems.wf] at hw
    cases k with
    | bf w nm =>
      cases t with
      | sc sc => simp [Mems.bfSizes, Sc.size_pos]; exact Sc.align_pow2 sc
      | arr n e => simpa [Mems.bfSizes] using bfSizes_head r hw.2
      | agg u ms => simpa [Mems.bfSizes] using bfSizes_head r hw.2
    | plain => cases t <;> simpa [Mems.bfSizes] using bfSizes_head r hw.2
    | anon => cases t <;> simpa [Mems.bfSizes] using bfSizes_head r hw.2


mutual
/-- `layout_meets_sysv_partial` (with size positivity and power-of-two alignment as by-products) -/
theorem lay_eq_simple : ∀ t : CTy, t.wf = true → t.bfSimple = true →
    c2mLay t = sysvLay t ∧ 0 < (sysvLay t).size ∧ isPow2 (sysvLay t).align
  | .sc s, _, _ => by
    simp [c2mLay, sysvLay, c2mBasicSize_eq, c2mBasicAlign_eq, Sc.size_pos, Sc.align_pow2]
  | .arr n t, hw, hs => by
    simp [CTy.wf] at hw
    simp [CTy.bfSimple] at hs
    obtain ⟨ih, hpos, hp2⟩ := lay_eq_simple t hw.2 hs
    have hal := sysvLay_align_pos t
    have hmul : roundUp ((sysvLay t).size * n) (sysvLay t).align = (sysvLay t).size * n := by
      obtain ⟨q, hq⟩ := sysvLay_size_dvd t
      have : (sysvLay t).size * n = (q * n) * (sysvLay t).align := by
        rw [hq, Nat.mul_comm (sysvLay t).align q, Nat.mul_assoc, Nat.mul_assoc, Nat.mul_comm n]
      rw [this]
      exact roundUp_of_mul _ _ hal
    simp [c2mLay, sysvLay, ih, roundSize_eq_roundUp hal, hmul, hp2]
    exact Nat.mul_pos hpos hw.1
  | .agg u ms, hw, hs => by
    simp [CTy.wf] at hw
    simp [CTy.bfSimple] at hs
    obtain ⟨⟨hnamed, hall⟩, hsimple⟩ := hs
    -- the common size of the declared types of the bit-fields (1 if there are none)
    have hS : 0 < ms.bfSizes.headD 1 ∧ isPow2 (ms.bfSizes.headD 1) := bfSizes_head ms hw.2
    have hall' : ∀ x ∈ ms.bfSizes, x = ms.bfSizes.headD 1 := by
      cases hb : ms.bfSizes with
      | nil => simp
      | cons y ys => simpa [hb] using hall
    obtain ⟨hrel, hal, _, hne, hp2, hSA⟩ :=
      fold_eq_simple u (ms.bfSizes.headD 1) ms {} {} hw.2 hnamed hall' hsimple hS.1 (RelB.init u _)
    obtain ⟨hout, hlo, hhi, _⟩ := hrel
    have hms : ms ≠ .nil := by
      intro h; subst h; simp [Mems.nonempty] at hw
    have hov := hne hms
    have halpos : 0 < sysvAlignFold ms 1 := le_sysvAlignFold ms 1
    have hp2A := hp2 1 isPow2_one
    have hdvd : ms.bfSizes.headD 1 ∣ sysvAlignFold ms 1 := by
      by_cases he : ms.bfSizes = []
      · simp [he]
      · exact isPow2_dvd hS.2 hp2A (hSA 1 he)
    have hfin := roundUp_final hS.1 halpos hdvd hlo hhi
    have hcpos : 0 < ((sysvFold u ms {}).bitpos + 7) / 8 := by
      apply Nat.pos_of_ne_zero
      intro h0
      rw [h0, roundUp_zero] at hhi
      omega
    have hge := roundUp_ge (x := ((sysvFold u ms {}).bitpos + 7) / 8) halpos
    simp [c2mLay, sysvLay, hal, hout, roundSize_eq_roundUp halpos, hfin, hp2A]
    omega
theorem fold_eq_simple : ∀ (u : Bool) (S : Nat) (ms : Mems) (c : MSt) (s : SSt), ms.wf = true →
    ms.bfNamed = true → (∀ x ∈ ms.bfSizes, x = S) → ms.bfSimple = true → 0 < S → RelB u S c s →
    RelB u S (c2mFold u ms c) (sysvFold u ms s) ∧ (∀ a, c2mAlignFold u ms a = sysvAlignFold ms a)
      ∧ c.overall ≤ (c2mFold u ms c).overall ∧ (ms ≠ .nil → 0 < (c2mFold u ms c).overall)
      ∧ (∀ a, isPow2 a → isPow2 (sysvAlignFold ms a))
      ∧ (∀ a, ms.bfSizes ≠ [] → S ≤ sysvAlignFold ms a)
  | u, S, .nil, c, s, _, _, _, _, _, hr => by
    simp [c2mFold, sysvFold, c2mAlignFold, sysvAlignFold, hr, Mems.bfSizes]
  | u, S, .cons k t r, c, s, hw, hnm, hsz, hsimple, hS, hr => by
    simp [Mems.wf] at hw
    simp [Mems.bfSimple] at hsimple
    obtain ⟨ih, hpos, hp2t⟩ := lay_eq_simple t hw.1.1 hsimple.1
    have hal := sysvLay_align_pos t
    cases k with
    | bf w nm =>
      -- the member's type is an integer scalar of size S
      cases t with
      | arr n e => simp [memOk] at hw
      | agg u' ms' => simp [memOk] at hw
      | sc sc =>
        simp [memOk] at hw
        simp [Mems.bfNamed] at hnm
        obtain ⟨⟨hnmt, hwpos⟩, hnmr⟩ := hnm
        subst hnmt
        simp [Mems.bfSizes] at hsz
        obtain ⟨hszS, hszr⟩ := hsz
        have hstep : RelB u S (c2mMember u c (.bf w true) (sysvLay (.sc sc)).size (sysvLay (.sc sc)).align)
            (sysvMember u s (.bf w true) (sysvLay (.sc sc)).size (sysvLay (.sc sc)).align) := by
          simp only [sysvLay, ← Sc.size_eq_align, hszS]
          exact stepB_bf hr hS hwpos (by rw [← hszS]; exact hw.1.2.1.2)
        obtain ⟨pl, _, _, hp3, hp4⟩ := c2mMember_out u c (.bf w true) (sysvLay (.sc sc)).size
          (sysvLay (.sc sc)).align hpos
        obtain ⟨h1, h2, h3, h4, h5, h6⟩ := fold_eq_simple u S r _ _ hw.2 hnmr hszr hsimple.2 hS hstep
        have hskip : c2mAlignSkip u (.bf w true) = false := by
          cases w with
          | zero => omega
          | succ w => simp [c2mAlignSkip]
        simp only [c2mFold, sysvFold, c2mAlignFold, sysvAlignFold, ih, hskip, sysvAlignContrib,
          if_true, if_false, Bool.false_eq_true]
        refine ⟨h1, ?_, ?_, ?_, ?_, ?_⟩
        · intro a; exact h2 _
        · omega
        · intro _; omega
        · intro a ha; exact h5 _ (isPow2_max ha hp2t)
        · intro a _
          have := le_sysvAlignFold r (max a (sysvLay (.sc sc)).align)
          simp only [sysvLay, ← Sc.size_eq_align, hszS] at this ⊢
          have := Nat.le_max_right a S
          omega
    | plain =>
      have hk : ∀ w nm, MK.plain ≠ .bf w nm := by intro w nm h; cases h
      have hstep := stepB_plain (k := .plain) hr hS hpos hal hk
      obtain ⟨pl, _, _, hp3, hp4⟩ := c2mMember_out u c .plain (sysvLay t).size (sysvLay t).align hpos
      have hsz' : ∀ x ∈ r.bfSizes, x = S := by
        intro x hx; apply hsz; cases t <;> simpa [Mems.bfSizes] using hx
      have hnm' : r.bfNamed = true := by simpa [Mems.bfNamed] using hnm
      obtain ⟨h1, h2, h3, h4, h5, h6⟩ := fold_eq_simple u S r _ _ hw.2 hnm' hsz' hsimple.2 hS hstep
      simp only [c2mFold, sysvFold, c2mAlignFold, sysvAlignFold, ih, c2mAlignSkip, sysvAlignContrib]
      refine ⟨h1, ?_, ?_, ?_, ?_, ?_⟩
      · intro a; exact h2 _
      · omega
      · intro _; omega
      · intro a ha; exact h5 _ (isPow2_max ha hp2t)
      · intro a hne
        apply h6
        intro he; apply hne; cases t <;> simpa [Mems.bfSizes] using he
    | anon =>
      have hk : ∀ w nm, MK.anon ≠ .bf w nm := by intro w nm h; cases h
      have hstep := stepB_plain (k := .anon) hr hS hpos hal hk
      obtain ⟨pl, _, _, hp3, hp4⟩ := c2mMember_out u c .anon (sysvLay t).size (sysvLay t).align hpos
      have hsz' : ∀ x ∈ r.bfSizes, x = S := by
        intro x hx; apply hsz; cases t <;> simpa [Mems.bfSizes] using hx
      have hnm' : r.bfNamed = true := by simpa [Mems.bfNamed] using hnm
      obtain ⟨h1, h2, h3, h4, h5, h6⟩ := fold_eq_simple u S r _ _ hw.2 hnm' hsz' hsimple.2 hS hstep
      simp only [c2mFold, sysvFold, c2mAlignFold, sysvAlignFold, ih, c2mAlignSkip, sysvAlignContrib]
      refine ⟨h1, ?_, ?_, ?_, ?_, ?_⟩
      · intro a; exact h2 _
      · omega
      · intro _; omega
      · intro a ha; exact h5 _ (isPow2_max ha hp2t)
      · intro a hne
        apply h6
        intro he; apply hne; cases t <;> simpa [Mems.bfSizes] using he
end

end MirVerif.Layout
