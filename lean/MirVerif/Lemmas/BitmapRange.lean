import MirVerif.Lemmas.Bitmap
/-! `bitmap_set_or_clear_bit_range_p`: mask arithmetic and the loop. -/
namespace MirVerif.Bitmap

/-- number of bits handled by one iteration -/
theorem rangeRl (nb len : Nat) (h : 0 < len) :
    64 - rangeRsh nb len - nb % 64 = min len (64 - nb % 64) := by
  unfold rangeRsh
  split <;> omega

theorem rangeMask_getLsbD (nb len j : Nat) (h : 0 < len) (hj : j < 64) :
    (rangeMask nb len).getLsbD j = decide (nb % 64 ≤ j ∧ j < nb % 64 + min len (64 - nb % 64)) := by
  have hrl := rangeRl nb len h
  simp only [rangeMask, BitVec.getLsbD_shiftLeft, BitVec.getLsbD_ushiftRight, BitVec.getLsbD_allOnes, hj,
    decide_true, Bool.true_and]
  rw [Bool.eq_iff_iff]
  simp only [Bool.and_eq_true, Bool.not_eq_true', decide_eq_false_iff_not, decide_eq_true_eq]
  unfold rangeRsh at *
  by_cases hc : len ≥ 64 - nb % 64
  · simp only [hc, if_true] at hrl ⊢; omega
  · simp only [hc, if_false] at hrl ⊢; omega

theorem range_step_mem (setP : Bool) (bm : Bm) (nb len i : Nat) (h : 0 < len)
    (hw : nb / 64 < bm.length) :
    let w := wget bm (nb / 64)
    let mask := rangeMask nb len
    mem (bm.set (nb / 64) (if setP then w ||| mask else w &&& ~~~mask)) i =
      if nb ≤ i ∧ i < nb + min len (64 - nb % 64) then setP else mem bm i := by
  intro w mask
  have h4 : i % 64 < 64 := by omega
  simp only [mem, wget_set, hw, and_true]
  by_cases h2 : i / 64 = nb / 64
  · simp only [h2, ite_true]
    have hm := rangeMask_getLsbD nb len (i % 64) h h4
    have hiff : (nb ≤ i ∧ i < nb + min len (64 - nb % 64)) ↔
        (nb % 64 ≤ i % 64 ∧ i % 64 < nb % 64 + min len (64 - nb % 64)) := by omega
    cases setP
    · simp only [Bool.false_eq_true, ite_false, BitVec.getLsbD_and, BitVec.getLsbD_not, h4, decide_true,
        Bool.true_and]
      show (w.getLsbD (i % 64) && !(rangeMask nb len).getLsbD (i % 64)) = _
      rw [hm]
      by_cases hc : nb ≤ i ∧ i < nb + min len (64 - nb % 64)
      · simp [hc, hiff.1 hc]
      · have : ¬ (nb % 64 ≤ i % 64 ∧ i % 64 < nb % 64 + min len (64 - nb % 64)) := fun x => hc (hiff.2 x)
        simp only [hc, this, decide_false, Bool.not_false, Bool.and_true, ite_false]
        rfl
    · simp only [ite_true, BitVec.getLsbD_or]
      show (w.getLsbD (i % 64) || (rangeMask nb len).getLsbD (i % 64)) = _
      rw [hm]
      by_cases hc : nb ≤ i ∧ i < nb + min len (64 - nb % 64)
      · simp [hc, hiff.1 hc]
      · have : ¬ (nb % 64 ≤ i % 64 ∧ i % 64 < nb % 64 + min len (64 - nb % 64)) := fun x => hc (hiff.2 x)
        simp only [hc, this, decide_false, Bool.or_false, ite_false]
        rfl
  · have : ¬ (nb ≤ i ∧ i < nb + min len (64 - nb % 64)) := by omega
    simp [h2, this]

theorem range_step_flag (setP : Bool) (bm : Bm) (nb len : Nat) (h : 0 < len) :
    let w := wget bm (nb / 64)
    let mask := rangeMask nb len
    ((if setP then (~~~w &&& mask) != 0#64 else (w &&& mask) != 0#64) = true) ↔
      ∃ i, nb ≤ i ∧ i < nb + min len (64 - nb % 64) ∧ mem bm i ≠ setP := by
  intro w mask
  have key : ∀ j, j < 64 →
      ((nb % 64 ≤ j ∧ j < nb % 64 + min len (64 - nb % 64)) ↔
       (nb ≤ 64 * (nb / 64) + j ∧ 64 * (nb / 64) + j < nb + min len (64 - nb % 64))) := by
    intro j hj; omega
  have memj : ∀ j, j < 64 → mem bm (64 * (nb / 64) + j) = w.getLsbD j := by
    intro j hj
    have h1 : (64 * (nb / 64) + j) / 64 = nb / 64 := by omega
    have h2 : (64 * (nb / 64) + j) % 64 = j := by omega
    simp [mem, h1, h2, w]
  cases setP
  · simp only [Bool.false_eq_true, ite_false, bne_iff_ne, ne_eq]
    rw [← ne_eq, word_ne_zero_iff]
    constructor
    · rintro ⟨j, hj, hb⟩
      simp only [BitVec.getLsbD_and, Bool.and_eq_true] at hb
      have hm := rangeMask_getLsbD nb len j h hj
      rw [show mask = rangeMask nb len from rfl, hm] at hb
      have := (key j hj).1 (by simpa using hb.2)
      exact ⟨64 * (nb / 64) + j, this.1, this.2, by rw [memj j hj, hb.1]; simp⟩
    · rintro ⟨i, h1, h2, h3⟩
      have hi : i / 64 = nb / 64 := by omega
      have hj : i % 64 < 64 := by omega
      refine ⟨i % 64, hj, ?_⟩
      have hm := rangeMask_getLsbD nb len (i % 64) h hj
      simp only [BitVec.getLsbD_and, Bool.and_eq_true]
      constructor
      · have : mem bm i = true := by simpa using h3
        simpa [mem, hi, w] using this
      · rw [show mask = rangeMask nb len from rfl, hm]
        simp; omega
  · simp only [ite_true, bne_iff_ne, ne_eq]
    rw [← ne_eq, word_ne_zero_iff]
    constructor
    · rintro ⟨j, hj, hb⟩
      simp only [BitVec.getLsbD_and, BitVec.getLsbD_not, hj, decide_true, Bool.true_and,
        Bool.and_eq_true, Bool.not_eq_true'] at hb
      have hm := rangeMask_getLsbD nb len j h hj
      rw [show mask = rangeMask nb len from rfl, hm] at hb
      have := (key j hj).1 (by simpa using hb.2)
      exact ⟨64 * (nb / 64) + j, this.1, this.2, by rw [memj j hj, hb.1]; simp⟩
    · rintro ⟨i, h1, h2, h3⟩
      have hi : i / 64 = nb / 64 := by omega
      have hj : i % 64 < 64 := by omega
      refine ⟨i % 64, hj, ?_⟩
      have hm := rangeMask_getLsbD nb len (i % 64) h hj
      simp only [BitVec.getLsbD_and, BitVec.getLsbD_not, hj, decide_true, Bool.true_and,
        Bool.and_eq_true, Bool.not_eq_true']
      constructor
      · have : mem bm i = false := by simpa using h3
        simpa [mem, hi, w] using this
      · rw [show mask = rangeMask nb len from rfl, hm]
        simp; omega

theorem rangeLoop_spec (setP : Bool) : ∀ (fuel : Nat) (bm : Bm) (nb len : Nat) (res : Bool),
    len ≤ fuel → nb + len ≤ 64 * bm.length →
    (∀ i, mem (rangeLoop setP fuel bm nb len res).1 i =
        if nb ≤ i ∧ i < nb + len then setP else mem bm i) ∧
    (rangeLoop setP fuel bm nb len res).1.length = bm.length ∧
    ((rangeLoop setP fuel bm nb len res).2 = true ↔
        res = true ∨ ∃ i, nb ≤ i ∧ i < nb + len ∧ mem bm i ≠ setP) := by
  intro fuel
  induction fuel with
  | zero =>
    intro bm nb len res h1 h2
    have : len = 0 := by omega
    subst this
    simp [rangeLoop]
    exact ⟨fun i a b => by omega, fun x a b => by omega⟩
  | succ f ih =>
    intro bm nb len res h1 h2
    unfold rangeLoop
    by_cases hl : len = 0
    · subst hl; simp
      exact ⟨fun i a b => by omega, fun x a b => by omega⟩
    · have hpos : 0 < len := by omega
      simp only [hl, ite_false]
      rw [rangeRl nb len hpos]
      have hw : nb / 64 < bm.length := by omega
      have hmin : 1 ≤ min len (64 - nb % 64) := by omega
      have hmin2 : min len (64 - nb % 64) ≤ len := by omega
      have hstep := range_step_mem setP bm nb len
      have hflag := range_step_flag setP bm nb len hpos
      simp only at hstep hflag
      obtain ⟨i1, i2, i3⟩ := ih (bm.set (nb / 64)
          (if setP then wget bm (nb / 64) ||| rangeMask nb len else wget bm (nb / 64) &&& ~~~rangeMask nb len))
          (nb + min len (64 - nb % 64)) (len - min len (64 - nb % 64))
          (res || (if setP then (~~~wget bm (nb / 64) &&& rangeMask nb len) != 0#64
                    else (wget bm (nb / 64) &&& rangeMask nb len) != 0#64))
          (by omega) (by simp; omega)
      refine ⟨?_, ?_, ?_⟩
      · intro i
        rw [i1 i, hstep i hpos hw]
        by_cases c1 : nb + min len (64 - nb % 64) ≤ i ∧
            i < nb + min len (64 - nb % 64) + (len - min len (64 - nb % 64))
        · have : nb ≤ i ∧ i < nb + len := by omega
          simp [c1, this]
        · by_cases c2 : nb ≤ i ∧ i < nb + min len (64 - nb % 64)
          · have : nb ≤ i ∧ i < nb + len := by omega
            simp [c1, c2, this]
          · have : ¬ (nb ≤ i ∧ i < nb + len) := by omega
            simp [c1, c2, this]
      · rw [i2]; simp
      · rw [i3, Bool.or_eq_true, hflag]
        constructor
        · rintro (h | ⟨i, a, b, c⟩)
          · rcases h with h | ⟨i, a, b, c⟩
            · exact Or.inl h
            · exact Or.inr ⟨i, a, by omega, c⟩
          · refine Or.inr ⟨i, by omega, by omega, ?_⟩
            rw [hstep i hpos hw] at c
            have : ¬ (nb ≤ i ∧ i < nb + min len (64 - nb % 64)) := by omega
            simpa [this] using c
        · rintro (h | ⟨i, a, b, c⟩)
          · exact Or.inl (Or.inl h)
          · by_cases c2 : i < nb + min len (64 - nb % 64)
            · exact Or.inl (Or.inr ⟨i, a, c2, c⟩)
            · refine Or.inr ⟨i, by omega, by omega, ?_⟩
              rw [hstep i hpos hw]
              have : ¬ (nb ≤ i ∧ i < nb + min len (64 - nb % 64)) := by omega
              simpa [this] using c

/-- contents after `bitmap_set_bit_range_p` / `bitmap_clear_bit_range_p` -/
theorem rangeOp_mem (setP : Bool) (bm : Bm) (nb len i : Nat) :
    mem (rangeOp setP bm nb len).1 i = if nb ≤ i ∧ i < nb + len then setP else mem bm i := by
  have := (rangeLoop_spec setP len (expand bm (nb + len)) nb len false (Nat.le_refl _)
    (by simp; omega)).1 i
  simpa [rangeOp] using this

/-- the returned flag: some bit of the range had the other value -/
theorem rangeOp_flag (setP : Bool) (bm : Bm) (nb len : Nat) :
    (rangeOp setP bm nb len).2 = true ↔ ∃ i, nb ≤ i ∧ i < nb + len ∧ mem bm i ≠ setP := by
  have := (rangeLoop_spec setP len (expand bm (nb + len)) nb len false (Nat.le_refl _)
    (by simp; omega)).2.2
  simpa [rangeOp] using this

end MirVerif.Bitmap
