import MirVerif.Lemmas.SimplifyLower
import MirVerif.Lemmas.SimplifyRules
import MirVerif.Lemmas.SimplifyCfg
import MirVerif.Lemmas.SimplifyAlloca
import MirVerif.Lemmas.SimplifyRename
import MirVerif.Lemmas.SimplifyInline
import MirVerif.Lemmas.BridgeC04
import MirVerif.Lemmas.SemExt
/-! # C04 — link-time simplification and inlining never change what a program computes.
Property theorems only.  They are about `Model/Simplify.lean` (a statement-by-statement model of
`simplify_func`, compared with the real `MIR_link` output on every run), `Model/SimplifyInline.lean`
and the MirCore semantics `Model/MirCore.lean`; tables and the two small C functions are
regenerated from mir.c on every run (`Gen/C04_Tables.lean`) and bridged in `Lemmas/BridgeC04.lean`. -/
namespace MirVerif.Simplify
open MirVerif.MirCore

section
variable {μ : Type} [ByteMem μ]

/-- **lower_mem.**  For every memory operand `(disp, base, index, scale)` over registers of the
program — all shapes: with/without displacement, base, index; `scale` any non-zero value when an
index is present — and every value-numbering state, the instruction sequence `simplify_op` emits
runs without error, leaves `disp + base + index·scale (mod 2^64)` in the register the simplified
operand uses as its address, changes no register of the program and no memory, and keeps the
value-numbering table well formed. -/
theorem lower_mem (st : St) (m : MemOp R) (fr : Frame R) (g : G μ)
    (hwf : VnWF st) (hb : isUser m.base) (hi : isUser m.index)
    (hs : m.index = none ∨ m.scale ≠ 0) :
    ∃ fr', execSeq (lowerAddr st m).1 fr g = .ok (fr', g) ∧
      fr'.regs.get (lowerAddr st m).2.1 = m.addr fr.regs ∧
      (∀ s, fr'.regs.get (.user s) = fr.regs.get (.user s)) ∧
      VnWF (lowerAddr st m).2.2 := by
  obtain ⟨ty, disp, base, index, scale⟩ := m
  cases index with
  | none =>
    cases base with
    | none => exact lower_abs st ty disp scale fr g hwf
    | some b =>
      cases b with
      | user b => exact lower_base_only st ty disp b scale fr g hwf
      | temp k => exact absurd hb (by simp [isUser])
  | some i =>
    have hs' : scale ≠ 0 := by
      rcases hs with h | h
      · cases h
      · exact h
    cases i with
    | temp k => exact absurd hi (by simp [isUser])
    | user i =>
      cases base with
      | none => exact lower_index st ty disp none i scale fr g hwf hs'
      | some b =>
        cases b with
        | user b => exact lower_index st ty disp (some b) i scale fr g hwf hs'
        | temp k => exact absurd hb (by simp [isUser])

/-- non-vacuity: the hypotheses hold for `i32:-8(b, i, 4)` in the initial state, and the sequence
is the five instructions `mov; mov; mul; add; add` -/
example : VnWF {} ∧ isUser (some (R.user "b")) ∧
    (lowerAddr {} { ty := .i32, disp := -8, base := some (.user "b"), index := some (.user "i"), scale := 4 }).1.length = 5 := by
  refine ⟨VnWF_init 0 {}, trivial, by decide⟩

/-- outside MIR.md's domain (`scale` should be 1, 2, 4 or 8): with `scale = 0`, an index and a
non-zero displacement the emitted code computes `disp + base + index`, with displacement 0 it
computes `base` — the two are inconsistent, so the `scale ≠ 0` hypothesis cannot be dropped -/
example :
    (lowerAddr {} { ty := .i64, disp := 8, base := some (.user "b"), index := some (.user "i"), scale := 0 }).1.length = 3 ∧
    (lowerAddr {} { ty := .i64, disp := 0, base := some (.user "b"), index := some (.user "i"), scale := 0 }).1.length = 0 := by
  decide

/-! ## algebraic shortcuts -/

/-- **algebraic_shortcuts.**  Every row `(a, c)` of the shortcut table — `x*1, x/1, x+0, x-0, x|0,
x^0, x<<0, x>>0 (signed and unsigned)` — yields `x` for every `x`, exactly for the 64-bit form and
on the low 32 bits MIR.md defines for the `S` form; the instruction never traps there. -/
theorem algebraic_shortcuts (a : AOp) (c : Int) (h : aopShortcut a = some c) (short : Bool) (x : W64) :
    optRel (agree a short) (docSem a short x (BitVec.ofInt 64 c)) (some x) :=
  shortcut_value a c h short x

/-- as state transformers: the 64-bit row and the `mov` that replaces it coincide, for every
destination/source operand (register or memory), frame and memory -/
theorem algebraic_shortcuts_step (a : AOp) (c : Int) (h : aopShortcut a = some c) (body : List SInsn)
    (d x : Opd R) (fr : Frame R) (g : G μ) :
    stepInsn body (.bin a false d x (.imm (BitVec.ofInt 64 c))) fr g = stepInsn body (.mov d x) fr g :=
  shortcut_step a c h body d x fr g

/-- the table in the current mir.c is the one the theorems are about (plus `MULO`/`MULOS`) -/
theorem algebraic_shortcuts_table :
    (∀ r ∈ Gen.C04.shortcutRows, r ∈ shortcutRowsModel Gen.C04.muloRow) ∧
    (∀ r ∈ shortcutRowsModel Gen.C04.muloRow, r ∈ Gen.C04.shortcutRows) :=
  ⟨gen_shortcut_rows.2.1, gen_shortcut_rows.2.2⟩

example : aopShortcut .div = some 1 ∧ ("DIVS", (1 : Int)) ∈ Gen.C04.shortcutRows := by decide

/-- The rows `MULO x,1` / `MULOS x,1` (in mir.c until commit cbcc0a2f; `Gen.C04.muloRow` tells whether
the current tree has them, the model follows it) are unsound: the value is right, but the
instruction also *clears* the overflow flags, which the replacing `mov` leaves as an earlier
instruction set them (`addo` overflowing; `mulo r,a,1; bo L` — the branch is then taken although
`a*1` does not overflow; finding C04:mulo-by-1-drops-overflow-flag, corpus/C04/kf-mulo-by-1.mir).
Kernel-checked witness: -/
theorem mulo_shortcut_unsound (body : List SInsn) (d x : R) (fr : Frame R) (g : G μ) (hs : fr.sov = true) :
    ∃ f1 f2, stepInsn body (.ovf .mul false (.reg d) (.reg x) (.imm 1)) fr g = .ok (f1, g) ∧
      stepInsn body (.mov (.reg d) (.reg x)) fr g = .ok (f2, g) ∧
      f1.regs = f2.regs ∧ f1.sov = false ∧ f2.sov = true := by
  obtain ⟨h1, h2⟩ := mulo_shortcut_flags body d x fr g
  exact ⟨_, _, h1, h2, rfl, rfl, by simp [next, hs]⟩

/-! ## `bt/bf` of a constant, reversed branches -/

/-- **bt_bf_const.**  `BT|BF[S] L, 0|1` is either `jmp L` or a no-op, as the rewrite decides -/
theorem bt_bf_const (body : List SInsn) (i : SInsn) (b : Bool) (h : btConst i = some b)
    (fr : Frame R) (g : G μ) :
    ∃ l, intBranchTarget i = some l ∧
      stepInsn body i fr g = if b then stepInsn body (.jmp l) fr g else .ok (next fr, g) :=
  bt_bf_const_step body i b h fr g

example : btConst (.bt true false 3 (.imm 0) : SInsn) = some true := by decide

/-- **reverse_branch.**  For every branch `MIR_reverse_branch_code` reverses (bt/bf, the ten integer
compare-and-branch forms in 64 and 32 bit, the four overflow branches) the reversed instruction is
a branch whose condition is the negation, in every state — and the row is in the current mir.c. -/
theorem reverse_branch (i : SInsn) (mk : Lab → SInsn) (h : reverseBranch i = some mk) (l2 : Lab)
    (fr : Frame R) (g : G μ) :
    intBranchTarget (mk l2) = some l2 ∧
    (∃ c, brCond i fr g = some c ∧ brCond (mk l2) fr g = some (c.map (!·))) ∧
    (∃ n n', brCodeName i = some n ∧ brCodeName (mk l2) = some n' ∧ (n, n') ∈ Gen.C04.reverseRows) :=
  ⟨(reverse_branch_cond i mk h l2 fr g).1, (reverse_branch_cond i mk h l2 fr g).2, gen_reverse_row i mk h l2⟩

example : (reverseBranch (.bcmp .ult true 1 (.reg (.user "a")) (.imm 5) : SInsn)).isSome = true := by decide

/-! ### floating-point branches have no reverse -/

/-- outcome of comparing two IEEE values: less, equal, greater, unordered (a NaN operand) -/
inductive FpOrd | lt | eq | gt | un
deriving DecidableEq, Repr

/-- the six floating-point compare-and-branch conditions of MIR.md (`fbeq … dbge`, also `ld`) -/
inductive FpBr | beq | bne | blt | ble | bgt | bge
deriving DecidableEq, Repr

/-- is the branch taken? (IEEE: every comparison with a NaN is false, except `!=`) -/
def FpBr.taken : FpBr → FpOrd → Bool
  | .beq, o => o == .eq
  | .bne, o => o != .eq
  | .blt, o => o == .lt
  | .ble, o => o == .lt || o == .eq
  | .bgt, o => o == .gt
  | .bge, o => o == .gt || o == .eq

/-- **fp_branch_has_no_reverse.**  No floating-point branch is the negation of an ordering branch
(`blt/ble/bgt/bge`): with an unordered pair `dblt` is not taken and neither is `dbge` (nor any
other ordering branch), while `dbne` differs from `¬dblt` on `gt`.  So `BCond L; JMP L2; L:` must be
left alone for them — only `beq`/`bne` are each other's negation. -/
theorem fp_branch_has_no_reverse :
    (∀ c ∈ [FpBr.blt, .ble, .bgt, .bge], ∀ c' : FpBr, ∃ o, c'.taken o ≠ !c.taken o) ∧
    (FpBr.blt.taken .un = false ∧ FpBr.bge.taken .un = false) ∧
    (∀ o, FpBr.bne.taken o = !FpBr.beq.taken o) := by
  refine ⟨?_, ⟨rfl, rfl⟩, fun o => by cases o <;> rfl⟩
  intro c hc c'
  simp only [List.mem_cons, List.not_mem_nil, or_false] at hc
  rcases hc with rfl | rfl | rfl | rfl <;> cases c' <;>
    first
      | exact ⟨.un, by decide⟩
      | exact ⟨.gt, by decide⟩
      | exact ⟨.lt, by decide⟩
      | exact ⟨.eq, by decide⟩

/-- … and `MIR_reverse_branch_code` of the current mir.c has no floating-point row at all -/
theorem reverse_table_has_no_fp_row :
    ∀ r ∈ Gen.C04.reverseRows,
      r.1 ∉ ["FBEQ", "FBNE", "FBLT", "FBLE", "FBGT", "FBGE", "DBEQ", "DBNE", "DBLT", "DBLE", "DBGT", "DBGE",
             "LDBEQ", "LDBNE", "LDBLT", "LDBLE", "LDBGT", "LDBGE"] := by
  decide +kernel

/-! ## CFG-local rewrites -/

/-- **jump_to_next.**  `BR L | JMP L; <labels> L:` — the model's condition (`reaches`) means exactly
this shape, and then the instruction changes nothing and both its successors are the same
instruction once labels are skipped: removing it preserves the successor relation. -/
theorem jump_to_next (pre tl : List SInsn) (i : SInsn) (l : Lab)
    (ht : branchTarget i = some l) (hr : reaches tl l = true) (hp : NoLabel pre l)
    (fr fr' : Frame R) (g g' : G μ) (hpc : fr.pc = pre.length)
    (hs : stepInsn (pre ++ i :: tl) i fr g = .ok (fr', g')) :
    g' = g ∧ fr'.regs = fr.regs ∧ fr'.sov = fr.sov ∧ fr'.uov = fr.uov ∧
      normPc (pre ++ i :: tl) fr'.pc = normPc (pre ++ i :: tl) (pre.length + 1) := by
  obtain ⟨labs, rest, rfl, ha, hl⟩ := reaches_decomp tl l hr
  exact jump_to_next_step pre labs rest i l ht ha hp hl fr fr' g g' hpc hs

example : reaches [(.label 1 : SInsn), .label 2, .ret []] 2 = true := by decide

/-- **br_over_jmp.**  `BCond L; JMP L2; <labels> L:  ⇒  BNCond L2; <labels> L:` preserves the
successor relation: when the condition holds both versions continue at `L`'s instruction, otherwise
both continue at `L2` (whose index moved by the deleted instruction). -/
theorem br_over_jmp (pre tl : List SInsn) (i : SInsn) (mk : Lab → SInsn) (l l2 : Lab) (x : Lab)
    (hrev : reverseBranch i = some mk) (ht : intBranchTarget i = some l)
    (hr : reaches (.label x :: tl) l = true) (hp : NoLabel pre l)
    (fr : Frame R) (g : G μ) (hpc : fr.pc = pre.length) (b : Bool) (hc : brCond i fr g = some (.ok b)) :
    ∃ labs rest, (.label x :: tl : List SInsn) = labs ++ .label l :: rest ∧
    (b = true →
      stepInsn (pre ++ i :: .jmp l2 :: (labs ++ .label l :: rest)) i fr g
        = .ok ({ fr with pc := pre.length + 2 + labs.length }, g) ∧
      stepInsn (pre ++ mk l2 :: (labs ++ .label l :: rest)) (mk l2) fr g = .ok (next fr, g) ∧
      normPc (pre ++ mk l2 :: (labs ++ .label l :: rest)) (pre.length + 1)
        = normPc (pre ++ mk l2 :: (labs ++ .label l :: rest)) (shiftPc pre.length (pre.length + 2 + labs.length))) ∧
    (b = false →
      stepInsn (pre ++ i :: .jmp l2 :: (labs ++ .label l :: rest)) i fr g = .ok (next fr, g) ∧
      stepInsn (pre ++ i :: .jmp l2 :: (labs ++ .label l :: rest)) (.jmp l2) (next fr) g
        = (goto (pre ++ i :: .jmp l2 :: (labs ++ .label l :: rest)) (next fr) l2).map (·, g) ∧
      stepInsn (pre ++ mk l2 :: (labs ++ .label l :: rest)) (mk l2) fr g
        = (goto (pre ++ mk l2 :: (labs ++ .label l :: rest)) fr l2).map (·, g) ∧
      findLabel (pre ++ mk l2 :: (labs ++ .label l :: rest)) l2
        = (findLabel (pre ++ i :: .jmp l2 :: (labs ++ .label l :: rest)) l2).map (shiftPc pre.length)) := by
  obtain ⟨labs, rest, e, ha, hl⟩ := reaches_decomp _ l hr
  exact ⟨labs, rest, e, br_over_jmp_step pre labs rest i mk l l2 hrev ht ha hp hl fr g hpc b hc⟩

end

/-! ## alloca consolidation -/

/-- **alloca_consolidation** (layout part, the code as it is and the candidate fix alike): for
every list of constant `alloca` sizes, the blocks `[offset, offset + rounded size)` produced by the
consolidation loop start at or after 0, are pairwise disjoint (in program order), lie inside
`overall_size`, and each rounded size covers the requested size. -/
theorem alloca_consolidation (always : Bool) (s0 : Int) (rest : List Int) :
    let r := consolidate always s0 rest
    let blocks := (0, (allocaSizeAlign s0).1) :: r.1.zip (sizesOf rest)
    (∀ b ∈ blocks, 0 ≤ b.1 ∧ b.1 + b.2 ≤ r.2) ∧
    blocks.Pairwise (fun a b => a.1 + a.2 ≤ b.1) ∧
    (∀ s ∈ s0 :: rest, s ≤ (allocaSizeAlign s).1 ∧ 1 ≤ (allocaSizeAlign s).1) := by
  intro r blocks
  have hc := consolidateLoop_chain always rest (allocaSizeAlign s0).1 (allocaSizeAlign s0).2
  have hpos := sizesOf_pos rest
  have hb := chain_bounds _ _ _ _ hc hpos
  have h0 := (allocaSizeAlign_spec s0).2.2.1
  refine ⟨?_, ?_, ?_⟩
  · intro b hb'
    simp only [blocks, List.mem_cons] at hb'
    rcases hb' with rfl | hb'
    · exact ⟨Int.le_refl _, by simpa [r, consolidate] using hb.1⟩
    · have := hb.2 b (by simpa [r, consolidate] using hb')
      simp only [r, consolidate]
      omega
  · simp only [blocks, List.pairwise_cons]
    refine ⟨fun p hp => ?_, by simpa [r, consolidate] using chain_pairwise _ _ _ _ hc hpos⟩
    have := hb.2 p (by simpa [r, consolidate] using hp)
    omega
  · intro s _
    have := allocaSizeAlign_spec s
    exact ⟨this.2.2.2.1, this.2.2.1⟩

/-- (alignment part) FALSE on the current code: `alloca 16; alloca 3; alloca 17` places the third
block, whose alignment is 16, at offset 20 (known finding C04:alloca-consolidation-misaligned;
mir.c rounds the running size only when the alignment *grows*). -/
theorem alloca_consolidation_misaligned :
    consolidate false 16 [3, 17] = ([16, 20], 52) ∧ alignsOf [3, 17] = [4, 16] ∧ ¬ ((16 : Int) ∣ 20) :=
  consolidate_misaligned_witness

/-- `alloca_consolidation_partial`: on the current code every offset is a multiple of its block's
alignment provided the alignments do not decrease along the list … -/
theorem alloca_consolidation_partial (s0 : Int) (rest : List Int)
    (h : Ascending (allocaSizeAlign s0).2 rest) :
    AlignedAt (consolidate false s0 rest).1 (alignsOf rest) :=
  consolidateLoop_aligned_partial rest _ _ (allocaSizeAlign_spec s0).2.1 h

/-- … and with the candidate fix (round before every block; `fixes/C04-alloca-consolidation-misaligned.patch`)
for every list -/
theorem alloca_consolidation_fixed (s0 : Int) (rest : List Int) :
    AlignedAt (consolidate true s0 rest).1 (alignsOf rest) :=
  consolidateLoop_aligned_always rest _ _

example : Ascending (allocaSizeAlign 3).2 [8, 17, 100] := by
  refine ⟨by decide, by decide, by decide, trivial⟩
example : (consolidate false 3 [8, 17, 100]).1 = [8, 16, 48] := by decide

/-- the two C functions the loop calls are the model's, for every request below 2^62 bytes -/
theorem alloca_functions_bridge (s : BitVec 64) (h : s.toInt < 2 ^ 62) :
    (Gen.C04.natural_alignment s).toInt = naturalAlignment s.toInt ∧
    (Gen.C04.get_alloca_size_align s).1.toInt = (allocaSizeAlign s.toInt).1 ∧
    (Gen.C04.get_alloca_size_align s).2.toInt = (allocaSizeAlign s.toInt).2 :=
  ⟨gen_natural_alignment s, gen_alloca_size_align s h⟩

/-! ## extension of narrow results and arguments -/

/-- **ret_ext / arg_ext.**  The extension instruction `make_one_ret` puts before the merged `ret`
and `simplify_func` puts at function entry for a value of the narrow type `t` computes the
documented truncation to `t` (MIR.md §MIR_RET, §MIR_CALL) — as documented (`docExt`) and as the
interpreter's `EXT(tp)` macro computes it; wide types get no instruction and need none. -/
theorem ret_ext (t : Ty) (k : Nat) (sg : Bool) (h : extOfTy t = some (k, sg)) (v : W64) :
    docExt k sg v = t.trunc v ∧ macroExt k sg v = t.trunc v := by
  cases t <;> simp [extOfTy] at h <;> obtain ⟨rfl, rfl⟩ := h <;>
    simp [Ty.trunc, Ty.bytes, Ty.signed, ext8, ext16, ext32, uext8, uext16, uext32]

theorem arg_ext (t : Ty) (h : extOfTy t = none) (hb : t.isBlk = false) (v : W64) : t.trunc v = v := by
  cases t <;> simp [extOfTy, Ty.isBlk] at h hb <;> simp [Ty.trunc, Ty.bytes]

/-- both tables in the current mir.c are `extOfTy` -/
theorem ext_tables :
    Gen.C04.retExtRows = Gen.C04.argExtRows ∧
    Gen.C04.retExtRows =
      ([Ty.i8, .u8, .i16, .u16, .i32, .u32].filterMap fun t => (extOfTy t).map fun (k, sg) => (tyCodeName t, extName k sg)) :=
  gen_ext_rows

example : extOfTy .u16 = some (16, false) ∧ Ty.trunc .u16 0x12345 = 0x2345 := by decide

/-! ## renaming of inlined registers -/

/-- **rename_injective.**  The spelling `.c<n>_<name>` determines the inlining instance and the
callee register: registers of different inlined calls, and different registers of one call, never
share a name. -/
theorem rename_injective (n m : Nat) (a b : List Char) (h : inlNameChars n a = inlNameChars m b) :
    n = m ∧ a = b :=
  inlNameChars_inj n m a b h

example : inlNameChars 12 ['x'] = ['.', 'c', '1', '2', '_', 'x'] := by
  simp [inlNameChars, digits, digitsRev, dch]

/-- the hypothesis the code needs and never checks — no register of the caller already has that
spelling — is not implied by anything: `_MIR_name_char_p` admits '.', so `.c1_x` is a legal user
register; `MIR_new_func_reg` then answers "Repeated reg declaration" at link time for a legal
program (known finding C04:inline-rename-collision, replayed by the check). -/
theorem rename_collides_with_user_name :
    inlNameChars 1 ['x'] = ['.', 'c', '1', '_', 'x'] := by
  simp [inlNameChars, digits, digitsRev, dch]

/-! ## inlining -/

section
variable {ρ μ : Type} [DecidableEq ρ] [ByteMem μ]

/-- The full statement (NOT proved; tested on every run through three builds of the library against
MirCore): for every program `P`, caller and call site, `exec` of the caller whose `call` has been
replaced by what `process_inlines` emits (parameter moves, renamed callee body with its labels
duplicated and its `ret` turned into result moves, merged top-level allocas, `bstart/bend` around
dynamic ones, cold code moved to the end) returns the same results, memory and call log as `exec` of
the original caller — for callees with arbitrary control flow, calls, allocas and block arguments.
`inline_sound_partial` proves it for callees whose simplified body is straight-line code. -/
def InlineSoundFull (P P' : Prog ρ) (c : Cfg ρ μ) (init : String → Regs ρ) (caller caller' : Func ρ) : Prop :=
  ∀ n (fr : Frame ρ) (g : G μ) r, exec P c init n caller fr g = .ok r →
    ∃ n', exec P' c init n' caller' fr g = .ok r

/-- **inline_sound_partial.**  Callee: parameters `params` and results all 64-bit (narrow types are
the `ret_ext`/`arg_ext` instructions at the ends of the simplified body), body = straight-line
`body` followed by the single `ret rets` that `make_one_ret` guarantees; no alloca, no va, no label
reference.  Renaming `ren` injective with names no caller-visible register has (`rename_injective`
gives the first, the second is the unchecked hypothesis behind finding C04:inline-rename-collision).
Registers of the new activation other than the parameters start from what the inlined copy finds
under the new names (MIR leaves them unset).  Then, for every caller state:
(1) `exec` at the call performs `callSem` and continues behind the call, and
(2) whenever that call succeeds, the code `process_inlines` puts in its place — parameter moves,
renamed body, result moves — run in the caller's own activation succeeds with the same memory,
alloca pointer and call log and the same contents of every caller-visible register. -/
theorem inline_sound_partial (ren : ρ → ρ) (vis : ρ → Prop)
    (hinj : ∀ a b, ren a = ren b → a = b) (hfresh : ∀ r, ¬ vis (ren r))
    (P : Prog ρ) (c : Cfg ρ μ) (hchk : ∀ i fr, c.chk i fr = true) (init : String → Regs ρ)
    (caller callee : Func ρ) (fn : String) (inl : Bool) (params rets : List ρ) (body : List (Insn ρ))
    (res args : List (Opd ρ)) (fr : Frame ρ) (g : G μ)
    (hf : findFunc P fn = some callee) (hp : callee.params = params.map fun p => (p, Ty.i64))
    (hres : callee.res = rets.map fun _ => Ty.i64) (hbody : callee.body = body ++ [.ret (rets.map Opd.reg)])
    (hn : params.Nodup) (hb : ∀ i ∈ body, Straight i = true)
    (ha : ∀ a ∈ args, OpdVis vis a) (hd : ∀ d ∈ res, OpdVis vis d)
    (hinit : ∀ r, (init fn).get r = fr.regs.get (ren r))
    (hpc : caller.body[fr.pc]? = some (.call inl fn res args)) :
    (∀ n, exec P c init (n + body.length + 2) caller fr g
        = (callSem (init fn) params body rets res args fr g >>= fun p =>
            exec P c init (n + body.length + 1) caller (next { fr with regs := p.1 }) p.2)) ∧
    (∀ rsC gC, callSem (init fn) params body rets res args fr g = .ok (rsC, gC) →
      ∃ fi, execSeq (inlinedCode ren params body rets res args) fr g = .ok (fi, gC) ∧
        AgreeVis vis fi.regs rsC) :=
  ⟨exec_call_straight P c hchk init caller callee fn inl params rets body res args fr g hf hp hres hbody hb hpc,
   fun rsC gC h => inline_straight ren vis hinj hfresh (init fn) params body rets res args fr g hn hb ha hd hinit rsC gC h⟩

end

/-- the stack bracket: a callee with BOTH a constant top alloca and a variable-size alloca
(`alloca c,16; alloca p,n`) needs `bstart/bend` around its inlined copy, a callee with only the
constant one (given directly or as `mov t,16; alloca c,t`) does not; an alloca behind a label does.
`checks/c04.py` (stage `bracket`) compares `inlineBrackets` with the number of `bstart`/`bend` the
real `MIR_link` puts into the caller, for generated callees of all these shapes. -/
example :
    inlineBrackets [.alloca (.reg (.user "c")) (.imm 16), .alloca (.reg (.user "p")) (.reg (.user "n")), .ret []] = 1 ∧
    inlineBrackets [.mov (.reg (.temp 0)) (.imm 16), .alloca (.reg (.user "c")) (.reg (.temp 0)), .ret []] = 0 ∧
    inlineBrackets [.mov (.reg (.user "i")) (.imm 0), .alloca (.reg (.user "p")) (.reg (.user "n")), .ret []] = 1 ∧
    inlineBrackets [.label 1, .alloca (.reg (.user "p")) (.imm 4096), .ret []] = 1 := by decide

/-- non-vacuity: callee `f(a, b) { t = a + b; t = t * a; return t }` inlined as `.c1_*` into a caller
with registers `x, y, r`: the hypotheses hold and both sides compute `(x + y) * x` into `r` -/
example :
    let ren : String → String := fun s => ".c1_" ++ s
    let params := ["a", "b"]
    let body : List (Insn String) := [.bin .add false (.reg "t") (.reg "a") (.reg "b"), .bin .mul false (.reg "t") (.reg "t") (.reg "a")]
    let fr : Frame String := { regs := [("x", 3), ("y", 4)], pc := 0 }
    (∀ i ∈ body, Straight i = true) ∧ params.Nodup ∧
    (inlinedCode ren params body ["t"] [.reg "r"] [.reg "x", .reg "y"]).length = 5 := by
  refine ⟨by decide, by decide, by decide⟩

end MirVerif.Simplify
