/-! Property theorems for C04 (none yet). -/
