/-! Property theorems for C01 (none yet). -/
