import MirVerif.Props.C02
import MirVerif.Lemmas.GenTable
import MirVerif.Lemmas.GenPow2
import MirVerif.Lemmas.BridgeC01
import MirVerif.Lemmas.GenExt
/-! # C01 — generated code behaves like the interpreter: theorems about the optimizer fragments
whose tables/texts are regenerated from mir-gen.c and mir.c on every run.  (The pipeline as a whole —
SSA, LICM, RA, combine, encoder — is decided by the engine correspondence, see DESIGN.md.) -/
namespace MirVerif

/-- the interpreter's `UIOP3[S]` and the folder's `UOP3[S]` macros have the same meaning -/
theorem macroSem_uiop (o : BinOp) (x y : W64) :
    macroSem (.UOP3 o) x y = macroSem (.UIOP3 o) x y ∧ macroSem (.UOP3S o) x y = macroSem (.UIOP3S o) x y :=
  ⟨rfl, rfl⟩

theorem foldSem_canon (a : AOp) (s : Bool) (x y : W64) (r : Option W64)
    (h : foldSem (canonFold a s) x y = some r) : r = macroSem (canonKind a s) x y := by
  cases a <;> cases s <;>
    simp only [canonFold, foldSem, canonKind, if_true, if_false, Bool.false_eq_true,
      Option.some.injEq] at h ⊢ <;>
    first
      | (subst h; rfl)
      | (split at h <;> first | (cases h; rfl) | exact absurd h (by simp))

/-- **GVN constant folding = interpreter arithmetic = documentation.**  For the fold table of the
current mir-gen.c: every integer opcode has exactly one fold row, and whenever the folder replaces
`op a b` by a constant, that constant is what the interpreter's macro computes, which is the
documented result — for all operand values. -/
theorem fold_table_meets_doc (a : AOp) (s : Bool) :
    ∃ f, (opName a s, f) ∈ Gen.C01.foldRows ∧
      (∀ f', (opName a s, f') ∈ Gen.C01.foldRows → f' = f) ∧
      ∀ x y r, foldSem f x y = some r →
        r = macroSem (canonKind a s) x y ∧ optRel (agree a s) r (docSem a s x y) := by
  have hc := canon_fold_complete
  rw [List.all_eq_true] at hc
  have h1 := hc a (AOp.mem_all a)
  rw [List.all_eq_true] at h1
  have h2 := h1 s (by cases s <;> simp)
  have hm : (opName a s, canonFold a s) ∈ Gen.C01.foldRows := by
    rw [gen_foldRows]; simpa using h2
  refine ⟨canonFold a s, hm, ?_, ?_⟩
  · intro f' hf'
    exact nodup_keys_unique _ _ _ _ (by rw [gen_foldRows]; exact canon_fold_functional) hf' hm
  · intro x y r hr
    have e := foldSem_canon a s x y r hr
    exact ⟨e, e ▸ interp_meets_doc a s x y⟩

/-- **The folder never evaluates a trapping division**: when a `div/mod/udiv/umod[s]` row folds,
the C expression it evaluates at compile time is defined (no division by zero, no `MIN / -1`), for
all constant operands. -/
theorem fold_division_defined (a : AOp) (ha : a = .div ∨ a = .mod ∨ a = .udiv ∨ a = .umod) (s : Bool)
    (x y : W64) (r : Option W64) (h : foldSem (canonFold a s) x y = some r) : r ≠ none := by
  rcases ha with rfl | rfl | rfl | rfl <;> cases s <;>
    simp only [canonFold, canonKind, foldSem, if_true, if_false, Bool.false_eq_true] at h <;>
    (generalize hb : foldGuard _ y = g at h
     cases g
     · simp at h
     · simp only [if_true] at h
       cases h
       simp only [foldGuard, Bool.and_eq_true, bne_iff_ne, ne_eq] at hb
       have e64 : (18446744073709551615#64) = BitVec.allOnes 64 := by decide
       have e32 : (4294967295#32) = BitVec.allOnes 32 := by decide
       simp [macroSem, cS, cU, e64, e32]
       first | exact ⟨hb.1, fun _ => hb.2⟩ | exact hb)

/-- `MIR_reverse_branch_code` of the current mir.c: for every integer compare-and-branch opcode
the table gives an opcode that branches exactly when the original does not (used by jump
optimisation and by the combiner), for all operand values. -/
theorem reverse_branch_table (a : AOp) (ha : a ∈ AOp.cmps) (s : Bool) :
    ∃ a', a.neg = some a' ∧ (brName a s, brName a' s) ∈ Gen.C01.reverseRows ∧
      (∀ n', (brName a s, n') ∈ Gen.C01.reverseRows → n' = brName a' s) ∧
      ∀ x y, docBranch a' s x y = !docBranch a s x y := by
  have hc := canon_reverse_complete
  rw [List.all_eq_true] at hc
  have h1 := hc a ha
  rw [List.all_eq_true] at h1
  have h2 := h1 s (by cases s <;> simp)
  cases hn : a.neg with
  | none => simp [hn] at h2
  | some a' =>
    simp only [hn] at h2
    have hm : (brName a s, brName a' s) ∈ Gen.C01.reverseRows := by
      rw [gen_reverseRows]; simpa using h2
    refine ⟨a', rfl, hm, ?_, branch_neg a a' hn s⟩
    intro n' hn'
    exact nodup_keys_unique _ _ _ _ (by rw [gen_reverseRows]; exact canon_reverse_functional) hn' hm

/-- `get_combined_br_code` of the current mir-gen.c: `cmp r,a,b; bt L,r` combines into the branch
with the comparison's own condition, `bf L,r` into its negation. -/
theorem combined_branch_table (a : AOp) (ha : a ∈ AOp.cmps) (s : Bool) :
    ∃ a', a.neg = some a' ∧ (opName a s, brName a s, brName a' s) ∈ Gen.C01.combRows ∧
      (∀ x y, docBranch a s x y = (match docSem a s x y with | some r => r != 0 | none => false)) ∧
      ∀ x y, docBranch a' s x y = !docBranch a s x y := by
  have hc := canon_comb_complete
  rw [List.all_eq_true] at hc
  have h1 := hc a ha
  rw [List.all_eq_true] at h1
  have h2 := h1 s (by cases s <;> simp)
  cases hn : a.neg with
  | none => simp [hn] at h2
  | some a' =>
    simp only [hn] at h2
    exact ⟨a', rfl, by rw [gen_combRows]; simpa using h2, fun _ _ => rfl, branch_neg a a' hn s⟩

/-- `commutative_insn_code` of the current mir-gen.c: an integer opcode is in the table exactly when
exchanging its operands under the table's image preserves the result; opcodes for which no such
image exists (sub, div, mod, shifts) are absent. -/
theorem commutative_table (a : AOp) (s : Bool) :
    (∀ a', a.swap = some a' →
        (opName a s, opName a' s) ∈ Gen.C01.commRows ∧ ∀ x y, docSem a' s y x = docSem a s x y) ∧
    (a.swap = none → ∀ n, (opName a s, n) ∉ Gen.C01.commRows) := by
  have hc := canon_comm_sound
  rw [List.all_eq_true] at hc
  have h1 := hc a (AOp.mem_all a)
  rw [List.all_eq_true] at h1
  have h2 := h1 s (by cases s <;> simp)
  constructor
  · intro a' ha'
    simp only [ha'] at h2
    exact ⟨by rw [gen_commRows]; simpa using h2, sem_swap a a' ha' s⟩
  · intro hnone n hmem
    simp only [hnone] at h2
    rw [gen_commRows] at hmem
    have : opName a s ∈ Canon.C01.commRows.map (·.1) := List.mem_map_of_mem (f := (·.1)) hmem
    simp at h2
    exact absurd this (by simpa using h2)

/-- `transform_mul_div` (text pinned by `pinned_texts_unchanged_c01`): multiplication, unsigned and
signed division by `2^k` are the shift sequences the generator emits — 64-bit forms for every `k` the
code admits (`gen_int_log2` of a positive int64 is ≤ 62), 32-bit forms under the guards
`sh < 32` (muls, udivs) and `sh < 31` (divs) that the code checks. -/
theorem transform_mul_div_sound :
    (∀ (x : BitVec 64) k, x * BitVec.twoPow 64 k = x <<< k) ∧
    (∀ (x : BitVec 64) k, k < 64 → x / BitVec.twoPow 64 k = x >>> k) ∧
    (∀ (x : BitVec 64) k, k ≤ 62 → x.sdiv (BitVec.twoPow 64 k)
        = ((x.sshiftRight 63 &&& (BitVec.twoPow 64 k - 1)) + x).sshiftRight k) ∧
    (∀ (x : BitVec 32) k, x * BitVec.twoPow 32 k = x <<< k) ∧
    (∀ (x : BitVec 32) k, k < 32 → x / BitVec.twoPow 32 k = x >>> k) ∧
    (∀ (x : BitVec 32) k, k ≤ 30 → x.sdiv (BitVec.twoPow 32 k)
        = ((x.sshiftRight 31 &&& (BitVec.twoPow 32 k - 1)) + x).sshiftRight k) :=
  ⟨mul_pow2_64, udiv_pow2_64, sdiv_pow2_64, mul_pow2_32, udiv_pow2_32, sdiv_pow2_32⟩

/-- why the guards are needed: without them the 32-bit rewrites are wrong (the defects repaired by
the `fix:` commit 5b36c439) -/
theorem transform_mul_div_guards_needed :
    (∃ x : BitVec 32, x * (BitVec.ofNat 32 (2 ^ 40)) ≠ x <<< (40 % 32)) ∧
    (∃ x : BitVec 32, x.sdiv (BitVec.twoPow 32 31)
        ≠ ((x.sshiftRight 31 &&& (BitVec.twoPow 32 31 - 1)) + x).sshiftRight 31) :=
  ⟨⟨1, by decide⟩, ⟨BitVec.intMin 32, by decide⟩⟩

/-- store→load forwarding (GVN): replacing `r = T:(a)` after `T:(a) = v` by `r = v` is sound exactly
for the 64-bit memory types; for narrower ones the load yields the documented extension
(`narrow_ls`), which differs from `v` in general. -/
theorem store_load_forward (k : Nat) (hk : k = 8 ∨ k = 16 ∨ k = 32 ∨ k = 64) (signed : Bool) :
    (∀ old v : W64, loadExt k signed (storeTrunc k old v) = v) ↔ k = 64 := by
  constructor
  · intro h
    rcases hk with rfl | rfl | rfl | rfl
    · have := h 0 0x100; cases signed <;> revert this <;> decide
    · have := h 0 0x10000; cases signed <;> revert this <;> decide
    · have := h 0 0x100000000; cases signed <;> revert this <;> decide
    · rfl
  · rintro rfl old v
    simp [loadExt, storeTrunc]

/-- address re-association used by GVN and the combiner: `(r + c1) + c2 = r + (c1 + c2)` in 64-bit
and in low-32-bit arithmetic -/
theorem addr_reassoc (r c1 c2 : W64) :
    (r + c1) + c2 = r + (c1 + c2) ∧ lo32 ((r + c1) + c2) = lo32 (r + (c1 + c2)) := by
  rw [BitVec.add_assoc]; exact ⟨rfl, rfl⟩

/-- `copy_prop`'s extension-chain rewrites (mir-gen.c): for all widths in {8,16,32} and all
sign combinations, `[u]ext<w> ([u]ext<w2> x) = [u]ext<w> x` when `w ≤ w2`, and `= [u]ext<w2> x` when
`w2 < w` unless the inner extension is signed and the outer unsigned — the one pair the code excludes,
and rightly so (`ext_chain_excluded_pair`). -/
theorem ext_chain_narrow (w w2 : Nat) (hw : w = 8 ∨ w = 16 ∨ w = 32) (hw2 : w2 = 8 ∨ w2 = 16 ∨ w2 = 32)
    (h : w ≤ w2) (s s2 : Bool) (x : W64) : macroExt w s (macroExt w2 s2 x) = macroExt w s x := by
  rcases hw with rfl | rfl | rfl <;> rcases hw2 with rfl | rfl | rfl <;> cases s <;> cases s2 <;>
    first
      | (exfalso; omega; done)
      | exact ext_8s_of_8s x
      | exact ext_8s_of_8u x
      | exact ext_8s_of_16s x
      | exact ext_8s_of_16u x
      | exact ext_8s_of_32s x
      | exact ext_8s_of_32u x
      | exact ext_8u_of_8s x
      | exact ext_8u_of_8u x
      | exact ext_8u_of_16s x
      | exact ext_8u_of_16u x
      | exact ext_8u_of_32s x
      | exact ext_8u_of_32u x
      | exact ext_16s_of_16s x
      | exact ext_16s_of_16u x
      | exact ext_16s_of_32s x
      | exact ext_16s_of_32u x
      | exact ext_16u_of_16s x
      | exact ext_16u_of_16u x
      | exact ext_16u_of_32s x
      | exact ext_16u_of_32u x
      | exact ext_32s_of_32s x
      | exact ext_32s_of_32u x
      | exact ext_32u_of_32s x
      | exact ext_32u_of_32u x

theorem ext_chain_widen (w w2 : Nat) (hw : w = 8 ∨ w = 16 ∨ w = 32) (hw2 : w2 = 8 ∨ w2 = 16 ∨ w2 = 32)
    (h : w2 < w) (s s2 : Bool) (hs : s = true ∨ s2 = false) (x : W64) :
    macroExt w s (macroExt w2 s2 x) = macroExt w2 s2 x := by
  rcases hw with rfl | rfl | rfl <;> rcases hw2 with rfl | rfl | rfl <;> cases s <;> cases s2 <;>
    first
      | (exfalso; omega; done)
      | (exfalso; rcases hs with h1 | h1 <;> cases h1 <;> done)
      | exact ext_16s_of_8s x
      | exact ext_16s_of_8u x
      | exact ext_16u_of_8u x
      | exact ext_32s_of_8s x
      | exact ext_32s_of_8u x
      | exact ext_32s_of_16s x
      | exact ext_32s_of_16u x
      | exact ext_32u_of_8u x
      | exact ext_32u_of_16u x

theorem ext_chain_excluded_pair :
    ∃ x : W64, macroExt 16 false (macroExt 8 true x) ≠ macroExt 8 true x ∧
               macroExt 16 false (macroExt 8 true x) ≠ macroExt 16 false x :=
  ⟨0x80, by decide⟩

/-- the pinned source texts (GVN macros and getters, gen_int_log2, power2_int_op,
transform_mul_div, canonic_mem_type) are the reviewed ones -/
theorem pinned_texts_unchanged_c01 : Gen.C01.pinned = Canon.C01.pinned := gen_pinned01

/-- non-vacuity -/
example : foldSem (canonFold .div true) 7 0x1_00000000 = none := by decide
example : foldSem (canonFold .div false) 7 2 = some (some 3) := by decide
example : (AOp.lt).neg = some .ge ∧ AOp.lt ∈ AOp.cmps := by decide

end MirVerif

namespace MirVerif

/-! ## Constant chains: `r1 = r0 ± c1; r2 = r1 ± c2  ⇒  r2 = r0 + (±c1 ± c2)` (gvn_modify; the combining
expressions and the sign convention of `add_sub_const_insn_p` are pinned texts of `Gen.C01.pinned`) -/

/-- 64-bit chain: the combined constant is `(int64_t) ((uint64_t) val + (uint64_t) val2)`, a subtraction
entering as the negated constant; when the sum is 0 the result is a plain move -/
theorem add_chain_combine64 (x c1 c2 : W64) (s1 s2 : Bool) :
    let v1 := if s1 then -c1 else c1
    let v2 := if s2 then -c2 else c2
    (if s2 then (if s1 then x - c1 else x + c1) - c2 else (if s1 then x - c1 else x + c1) + c2) = x + (v1 + v2) ∧
    (v1 + v2 = 0 → (if s2 then (if s1 then x - c1 else x + c1) - c2 else (if s1 then x - c1 else x + c1) + c2) = x) := by
  cases s1 <;> cases s2 <;> simp only [ite_true, ite_false, Bool.false_eq_true] <;> constructor <;>
    first
    | (intro h; bv_omega)
    | bv_omega

/-- 32-bit chain: only the low halves matter: the low half of `(x + c1) + c2` computed in 64 bits (or by
two 32-bit additions) is the low half of `x` plus `(uint32_t) val + (uint32_t) val2`, which an ADDS with the
combined constant `(int32_t) (...)` adds -/
theorem add_chain_combine32 (x c1 c2 : W64) :
    lo32 (x + c1 + c2) = lo32 x + (lo32 c1 + lo32 c2) ∧
    lo32 x + lo32 c1 + lo32 c2 = lo32 x + (lo32 c1 + lo32 c2) ∧
    lo32 (sext32 (lo32 c1 + lo32 c2)) = lo32 c1 + lo32 c2 := by
  refine ⟨?_, ?_, ?_⟩
  · simp [lo32, BitVec.setWidth_add, BitVec.add_assoc]
  · simp [BitVec.add_assoc]
  · simp only [lo32, sext32]
    generalize BitVec.setWidth 32 c1 + BitVec.setWidth 32 c2 = v
    ext i hi
    simp [BitVec.getLsbD_signExtend, hi, BitVec.getLsbD_eq_getElem]
    omega

end MirVerif

namespace MirVerif

/-! ## Two extensions in a row (copy_prop, combine_exts): `[u]ext<w2> b,a; [u]ext<w> c,b`.
The tests on the widths and signs and the opcode kept are pinned texts (`snippet ext merge guards`,
`func get_ext_params`); here is what those tests must guarantee. -/

/-- bits of an extension: below the width the operand's bits, above it the sign bit (signed) or 0 -/
theorem getLsbD_macroExt (w : Nat) (s : Bool) (x : W64) (i : Nat) (hw : 0 < w) (_h64 : w ≤ 64) :
    (macroExt w s x).getLsbD i =
      (decide (i < 64) && if i < w then x.getLsbD i else (s && x.getLsbD (w - 1))) := by
  unfold macroExt
  have e3 : w - 1 < w := by omega
  cases s <;> by_cases a : i < w <;>
    simp [BitVec.getLsbD_signExtend, BitVec.getLsbD_setWidth, BitVec.msb_eq_getLsbD_last, a, e3]
  all_goals first | done | (intro h; omega)

/-- `w <= w2`: the outer extension applied to the inner one's operand gives the same value -/
theorem ext_merge_outer_narrower (w w2 : Nat) (s s2 : Bool) (x : W64) (h0 : 0 < w) (hw : w ≤ w2) (h2 : w2 ≤ 64) :
    macroExt w s (macroExt w2 s2 x) = macroExt w s x := by
  apply BitVec.eq_of_getLsbD_eq
  intro i hi
  have e1 : w - 1 < w2 := by omega
  have e2 : w - 1 < 64 := by omega
  rw [getLsbD_macroExt _ _ _ _ h0 (by omega), getLsbD_macroExt _ _ _ _ h0 (by omega),
      getLsbD_macroExt _ _ _ _ (by omega) h2, getLsbD_macroExt _ _ _ _ (by omega) h2]
  by_cases a : i < w
  · have b : i < w2 := by omega
    simp [a, b, hi, e1]
  · simp [a, hi, e1, e2]

/-- `w2 < w && (sign_p || !sign2_p)`: the inner extension alone already is the result -/
theorem ext_merge_outer_wider (w w2 : Nat) (s s2 : Bool) (x : W64) (hw : w2 < w) (h2 : w ≤ 64) (h0 : 0 < w2)
    (hs : s = true ∨ s2 = false) :
    macroExt w s (macroExt w2 s2 x) = macroExt w2 s2 x := by
  apply BitVec.eq_of_getLsbD_eq
  intro i hi
  have e1 : ¬ (w - 1 < w2) := by omega
  have e2 : w - 1 < 64 := by omega
  rw [getLsbD_macroExt _ _ _ _ (by omega) h2, getLsbD_macroExt _ _ _ _ h0 (by omega),
      getLsbD_macroExt _ _ _ _ h0 (by omega)]
  by_cases a : i < w <;> by_cases b : i < w2
  · simp [a, b, hi]
  · simp [a, b, hi]
  · exfalso; omega
  · rcases hs with rfl | rfl <;> simp [a, b, hi, e1, e2]

/-- the excluded pair (signed narrow inner, unsigned wider outer) really must be excluded -/
theorem ext_merge_excluded_pair_differs :
    macroExt 16 false (macroExt 8 true 0x80) ≠ macroExt 8 true 0x80 ∧
    macroExt 32 false (macroExt 16 true 0x8000) ≠ macroExt 16 true 0x8000 := by decide

/-- the same for the documented semantics of the six opcodes -/
theorem ext_merge_doc (x : W64) :
    (∀ w ∈ [8, 16, 32], ∀ w2 ∈ [8, 16, 32], ∀ s s2 : Bool, w ≤ w2 →
        docExt w s (docExt w2 s2 x) = docExt w s x) ∧
    (∀ w ∈ [8, 16, 32], ∀ w2 ∈ [8, 16, 32], ∀ s s2 : Bool, w2 < w → (s = true ∨ s2 = false) →
        docExt w s (docExt w2 s2 x) = docExt w2 s2 x) := by
  have d : ∀ k ∈ [8, 16, 32], ∀ (s : Bool) (y : W64), docExt k s y = macroExt k s y := by
    intro k hk s y
    simp only [List.mem_cons, List.mem_nil_iff, or_false] at hk
    rcases hk with rfl | rfl | rfl <;> cases s <;>
      first | exact (ext8 y).symm | exact (ext16 y).symm | exact (ext32 y).symm
            | exact (uext8 y).symm | exact (uext16 y).symm | exact (uext32 y).symm
  constructor
  · intro w hw w2 hw2 s s2 hle
    rw [d w hw, d w2 hw2, d w hw]
    have : 0 < w ∧ w2 ≤ 64 := by
      simp only [List.mem_cons, List.mem_nil_iff, or_false] at hw hw2
      omega
    exact ext_merge_outer_narrower w w2 s s2 x this.1 hle this.2
  · intro w hw w2 hw2 s s2 hlt hs
    rw [d w hw, d w2 hw2]
    have : 0 < w2 ∧ w ≤ 64 := by
      simp only [List.mem_cons, List.mem_nil_iff, or_false] at hw hw2
      omega
    exact ext_merge_outer_wider w w2 s s2 x hlt this.2 this.1 hs

end MirVerif
