/-! Property theorems for C11 (none yet). -/
