import MirVerif.Model.BinIOSpec
import MirVerif.Lemmas.BinIOLabels
import MirVerif.Lemmas.BinIOBytes
import MirVerif.Lemmas.BinIOCounters
import MirVerif.Gen.C11_Tables
/-!
# C11 — binary MIR written by MIR_write reads back as the same module, deterministically

Property theorems about the model of the binary writer/reader of `mir.c` (raw token stream; the
compression layer is C12's).  The model (`Model/BinIO*.lean`) is parametric in `Cfg`, the facts
of the reader that `translate/c11_tables.py` reads off the *current* source (`Gen.C11.cfg`); the
theorems hold for every `Cfg`, `bin_roundtrip_current` instantiates them with the generated one.

FULL STATEMENT (false on the pinned source, i.e. for the reader facts `Cfg.today`; the `fix:` commits
that repaired those facts make `Gen.C11.cfg` sound, and then `bin_roundtrip` applies):
    ∀ ms, WFfull ms → readModules Gen.C11.cfg (writeModules Gen.C11.cfg ms) = .ok ms
where `WFfull` has no exclusion for `global` variables, prset/prbeq/prbne, data of type p and
functions that end with a label.
Witnesses of the failure on today's facts (`Cfg.today`): `global_var_not_read_back` (#30),
`property_insn_not_read_back` (#31), `data_p_not_read_back` (#34), `trailing_label_not_read_back`,
and `lref_labels_orphan` (#6)
for `label_identity` of lref items; the check replays each of them on the real code.
What is proved instead: `bin_roundtrip_partial` for every `Cfg` under `WF cfg` (the exclusions are
exactly the conjuncts of `WF` that mention `cfg`), and `bin_roundtrip`: as soon as the three reader
facts are repaired (`Cfg.sound`) the statement holds for the whole vocabulary.
-/
namespace BinIO.Props
open BinIO

/-! ## numbers -/

/-- `get_uint (put_uint u nb)` returns the low `nb` bytes -/
theorem putuint_getuint (nb u : Nat) (rest : List Byte) :
    getUint nb (putUint u nb ++ rest) = .ok (u % 256 ^ nb, rest) := getUint_putUint nb u rest

/-- every unsigned 64-bit value survives `write_uint` / `read_token` -/
theorem uint_tok_roundtrip (u : BitVec 64) (rest : List Byte) :
    readToken (writeUint u.toNat ++ rest) = .ok (.uint u.toNat, rest) :=
  readToken_writeUint u.toNat rest u.isLt

/-- every `int64_t` (carried as its 64-bit pattern: negative values have the top bit set and take
8 bytes, non-negative ones are zero-extended by the reader) survives `write_int` / `read_token` -/
theorem int_tok_roundtrip (i : BitVec 64) (rest : List Byte) :
    readToken (writeInt i.toNat ++ rest) = .ok (.int i.toNat, rest)
    ∧ BitVec.ofNat 64 i.toNat = i :=
  ⟨readToken_writeInt i.toNat rest i.isLt, by simp⟩

/-- the same through `read_uint` / `read_int` (used for bss lengths, ref/lref displacements, …) -/
theorem uint_int_direct_roundtrip (v : BitVec 64) (m : String) (rest : List Byte) :
    readUint m (writeUint v.toNat ++ rest) = .ok (v.toNat, rest)
    ∧ readInt m (writeInt v.toNat ++ rest) = .ok (v.toNat, rest) :=
  ⟨readUint_writeUint m _ rest v.isLt, readInt_writeInt m _ rest v.isLt⟩

/-- a negative `int64_t` is written with all 8 bytes (tag + 8) -/
theorem int_tok_negative_length (i : BitVec 64) (h : 2 ^ 63 ≤ i.toNat) : (writeInt i.toNat).length = 9 := by
  have := i.isLt
  have : intLength i.toNat = 8 := by unfold intLength nbytes; repeat' split
                                     all_goals omega
  simp [writeInt, this]

/-- the length written is minimal: `k` bytes are used only if `k-1` do not suffice -/
theorem int_tok_length_minimal (i k : Nat) (h : i < 256 ^ k) (hk : 1 ≤ k) (hk8 : k < 8) :
    intLength i ≤ k := by
  unfold intLength
  rcases nbytes_minimal i k h with h1 | h1
  · split <;> omega
  · omega

/-- float / double / long double immediates are copied bit for bit (NaN payloads, ±0, …) -/
theorem float_bits_roundtrip (f : BitVec 32) (d : BitVec 64) (ld : BitVec 80) (rest : List Byte) :
    readToken (writeFloat f.toNat ++ rest) = .ok (.flt f.toNat, rest)
    ∧ readToken (writeDouble d.toNat ++ rest) = .ok (.dbl d.toNat, rest)
    ∧ readToken (writeLdouble ld.toNat ++ rest) = .ok (.ldbl ld.toNat, rest) :=
  ⟨readToken_writeFloat _ rest f.isLt, readToken_writeDouble _ rest d.isLt,
   readToken_writeLdouble _ rest ld.isLt⟩

/-- a long double token is 1 + 16 bytes: 10 significant bytes and 6 bytes of padding -/
theorem ldouble_tok_length (v : Nat) : (writeLdouble v).length = 17 := by simp [writeLdouble]

/-- string / register / name / label numbers in 1–4 bytes -/
theorem strtab_index_roundtrip (i : Nat) (h : i < 2 ^ 32) (rest : List Byte) :
    readToken (writeIdx Tag.str1 i ++ rest) = .ok (.str i, rest)
    ∧ readToken (writeIdx Tag.reg1 i ++ rest) = .ok (.reg i, rest)
    ∧ readToken (writeIdx Tag.name1 i ++ rest) = .ok (.name i (idxLen i), rest)
    ∧ readToken (writeIdx Tag.lab1 i ++ rest) = .ok (.lab i, rest)
    ∧ 1 ≤ idxLen i ∧ idxLen i ≤ 4 :=
  ⟨readToken_writeIdx_str i rest h, readToken_writeIdx_reg i rest h, readToken_writeIdx_name i rest h,
   readToken_writeIdx_lab i rest h, (idxLen_range i h).1, (idxLen_range i h).2.1⟩

example : idxLen 255 = 1 ∧ idxLen 256 = 2 ∧ idxLen 65535 = 2 ∧ idxLen 65536 = 3
    ∧ idxLen (2 ^ 24 - 1) = 3 ∧ idxLen (2 ^ 24) = 4 ∧ idxLen (2 ^ 32 - 1) = 4 := by decide

/-! ## unique decodability of the token stream -/

theorem readToken_encRaw (t : Tok) (h : TokWF t) (rest : List Byte) :
    readToken (encRaw t ++ rest) = .ok (t, rest) := by
  cases t with
  | uint v => exact readToken_writeUint v rest h
  | int v => exact readToken_writeInt v rest h
  | flt v => exact readToken_writeFloat v rest h
  | dbl v => exact readToken_writeDouble v rest h
  | ldbl v => exact readToken_writeLdouble v rest h
  | reg i => exact readToken_writeIdx_reg i rest h
  | name i nb => obtain ⟨h1, h2⟩ := h; subst h2; exact readToken_writeIdx_name i rest h1
  | str i => exact readToken_writeIdx_str i rest h
  | lab n => exact readToken_writeIdx_lab n rest h
  | mem t => exact readToken_mem t rest h
  | ty t => exact readToken_type t rest h
  | eoi => exact readToken_eoi rest
  | eof => exact readToken_eof rest

/-- no token encoding is a prefix of a different one -/
theorem token_prefix_free (t1 t2 : Tok) (h1 : TokWF t1) (h2 : TokWF t2) (r1 r2 : List Byte)
    (e : encRaw t1 ++ r1 = encRaw t2 ++ r2) : t1 = t2 ∧ r1 = r2 := by
  have a := readToken_encRaw t1 h1 r1
  have b := readToken_encRaw t2 h2 r2
  rw [e, b] at a
  injection a with a
  injection a with a1 a2
  exact ⟨a1.symm, a2.symm⟩

theorem encRaw_ne_nil (t : Tok) : encRaw t ≠ [] := by
  cases t <;> simp [encRaw, writeUint, writeInt, writeFloat, writeDouble, writeLdouble, writeIdx]
  · split <;> simp

/-- a byte string is the encoding of at most one token sequence -/
theorem tokens_uniquely_decodable (ts1 ts2 : List Tok) (h1 : ∀ t, t ∈ ts1 → TokWF t)
    (h2 : ∀ t, t ∈ ts2 → TokWF t) (e : ts1.flatMap encRaw = ts2.flatMap encRaw) : ts1 = ts2 := by
  induction ts1 generalizing ts2 with
  | nil =>
    cases ts2 with
    | nil => rfl
    | cons t ts =>
      simp only [List.flatMap_nil, List.flatMap_cons] at e
      have := encRaw_ne_nil t
      cases h : encRaw t with
      | nil => exact absurd h this
      | cons a l => rw [h] at e; simp at e
  | cons t ts ih =>
    cases ts2 with
    | nil =>
      simp only [List.flatMap_nil, List.flatMap_cons] at e
      have := encRaw_ne_nil t
      cases h : encRaw t with
      | nil => exact absurd h this
      | cons a l => rw [h] at e; simp at e
    | cons t' ts' =>
      simp only [List.flatMap_cons] at e
      obtain ⟨e1, e2⟩ := token_prefix_free t t' (h1 t List.mem_cons_self) (h2 t' List.mem_cons_self) _ _ e
      subst e1
      rw [ih ts' (fun x hx => h1 x (List.mem_cons_of_mem _ hx)) (fun x hx => h2 x (List.mem_cons_of_mem _ hx)) e2]

/-! ## the string table -/

/-- pass 1 enters every string of the traversal, each once -/
theorem strtab_complete_nodup (toks : List STok) :
    (∀ t s, t ∈ toks → strOf t = some s → s ∈ strTable toks) ∧ (strTable toks).Nodup :=
  ⟨fun t s ht hs => mem_strTable_of_tok toks t s ht hs, strTable_nodup toks⟩

/-- the number written for a string leads back to the string -/
theorem strtab_lookup_roundtrip (tab : List Str) (s : Str) (h : s ∈ tab) :
    toStr tab (tab.idxOf s) = .ok s := toStr_idxOf tab s h

/-! ## items and modules -/

/-- one item of any kind (function included): the reader loop consumes exactly its bytes and
appends the same item to the module under construction -/
theorem item_roundtrip (cfg : Cfg) (tab : List Str) (it : Item) (fuel : Nat) (done : List Module)
    (macc : ModAcc) (X : List Byte) (hw : ItemOK cfg it) (hin : InTab tab (toksItem cfg it))
    (hl : tab.length ≤ 2 ^ 32) (hrefs : itemRefsOK macc.decl it = true) :
    readLoop cfg tab (fuel + nstmtsItem it) { doneRev := done, mod := some macc, func := none }
        ((toksItem cfg it).flatMap (encTok tab) ++ X)
      = readLoop cfg tab fuel
        { doneRev := done,
          mod := some { macc with itemsRev := it :: macc.itemsRev, decl := itemDecl it ++ macc.decl },
          func := none } X :=
  readLoop_item cfg tab it fuel done macc X hw hin hl hrefs

/-- operands of every kind, all 14 memory shapes with and without alias names -/
theorem operand_roundtrip (tab : List Str) (op : Op) (rest : List Byte) (hw : OpOK op)
    (hin : InTab tab (toksOp op)) (hl : tab.length ≤ 2 ^ 32) :
    readOperand tab ((toksOp op).flatMap (encTok tab) ++ rest) = .ok (some op, rest) :=
  readOperand_enc tab op rest hw hin hl

/-- **round trip** for every reader configuration `cfg`, under `WF cfg` -/
theorem bin_roundtrip_partial (cfg : Cfg) (ms : List Module) (h : WF cfg ms) :
    readModules cfg (writeModules cfg ms) = .ok ms := readModules_writeModules cfg ms h

/-- once the reader facts are repaired the round trip holds on the whole vocabulary -/
theorem bin_roundtrip (cfg : Cfg) (_hs : cfg.sound) (ms : List Module)
    (h : WF cfg ms) : readModules cfg (writeModules cfg ms) = .ok ms :=
  bin_roundtrip_partial cfg ms h

/-- … and for a sound `cfg`, `WF cfg` excludes nothing: it follows from `WFfull` -/
theorem wf_of_wffull (cfg : Cfg) (hs : cfg.sound) (hc : cfg.codeLimit = cfg.nops.length) (ms : List Module)
    (h : WFfull cfg ms) : WF cfg ms := by
  obtain ⟨h1, h2, _, h4, h5⟩ := hs
  have e : { cfg with globalDoubleRead := false, dataPtr := true, codeLimit := cfg.nops.length,
                      endfuncLabels := true, lrefZeroIsNone := false } = cfg := by
    cases cfg; simp_all
  have := h.wf
  rwa [e] at this

/-- the theorem for the facts generated from the source under test -/
theorem bin_roundtrip_current (ms : List Module) (h : WF MirVerif.Gen.C11.cfg ms) :
    readModules MirVerif.Gen.C11.cfg (writeModules MirVerif.Gen.C11.cfg ms) = .ok ms :=
  bin_roundtrip_partial _ ms h

/-- the format is injective on well-formed module lists (and `writeModules` is a function of the
module list alone: no hidden state, no hash order — the implementation side of this is tie (b)) -/
theorem write_deterministic (cfg : Cfg) (ms1 ms2 : List Module) (h1 : WF cfg ms1) (h2 : WF cfg ms2)
    (e : writeModules cfg ms1 = writeModules cfg ms2) : ms1 = ms2 := by
  have a := bin_roundtrip_partial cfg ms1 h1
  have b := bin_roundtrip_partial cfg ms2 h2
  rw [e, b] at a
  injection a with a
  exact a.symm

/-- everything the writer emits is a byte: the raw stream can be handed to `reduce_encode` (C12) -/
theorem write_emits_bytes (cfg : Cfg) (ms : List Module) (h : WF cfg ms) :
    ∀ b : Nat, b ∈ writeModules cfg ms → b < 256 := writeModules_bytes cfg ms h

/-! ## temp-name counters restored by the reader -/

/-- after a module has been read, `last_temp_item_num` is at least `N` for every name `.lc<N>` that
went through `read_name`, and `last_temp_num` of a function at least `N` for every register
operand `t<N>`: names generated later cannot collide with names that were read -/
theorem temp_counters_cover (m : Module) (f : Func) (n : Name) (k : Nat) :
    (n ∈ m.items.flatMap itemReadNames → reservedNum lcPrefix n = some k → k ≤ moduleCounter m)
    ∧ (n ∈ f.insns.flatMap insnRegNames → reservedNum tPrefix n = some k → k ≤ funcCounter f) :=
  ⟨fun h hk => foldl_bump_covers lcPrefix _ 0 n k h hk, fun h hk => foldl_bump_covers tPrefix _ 0 n k h hk⟩

example : reservedNum lcPrefix [46, 108, 99, 49, 50] = some 12 ∧ reservedNum tPrefix [116, 55] = some 7
    ∧ reservedNum tPrefix [116, 109, 112] = none ∧ reservedNum lcPrefix [46, 108, 99] = some 0 := by decide

/-! ## labels -/

/-- inside a function of the re-read module two label occurrences (label insns or label operands)
denote the same label object iff they carry the same number -/
theorem label_identity (nums : List Nat) (s : LabState) (h : LabInv s) (a b : Occ)
    (ha : a ∈ (resolveNums s nums).1) (hb : b ∈ (resolveNums s nums).1) :
    a.num = b.num ↔ a.obj = b.obj := resolveNums_identity nums s h a b ha hb

/-- … for every function of a module as `resolveItems` replays the reader
(`func_labels` is emptied at `func`, so the invariant holds whatever came before) -/
theorem label_identity_func (cfg : Cfg) (s : LabState) (f : Func) (r : List Item) (a b : Occ) :
    match resolveItems cfg s (.func f :: r) with
    | .func fl :: _ => a ∈ fl.occs → b ∈ fl.occs → (a.num = b.num ↔ a.obj = b.obj)
    | _ => False := by
  simp only [resolveItems]
  intro ha hb
  exact resolveNums_identity _ _ (LabInv.empty _) a b ha hb

/-! ## today's reader facts and the witnesses of the four findings -/

/-- #30: a function with a `global` variable is not read back by today's reader -/
theorem global_var_not_read_back :
    readModules Cfg.today (writeModules Cfg.today [mG]) = .error "wrong string num" := by decide +kernel

/-- … and is read back once the name is taken from the token -/
example : readModules { Cfg.today with globalDoubleRead := false }
    (writeModules { Cfg.today with globalDoubleRead := false } [mG]) = .ok [mG] := by decide +kernel

/-- #31: prset (code 182 ≥ MIR_LABEL = 180) is rejected -/
theorem property_insn_not_read_back :
    readModules Cfg.today (writeModules Cfg.today [mP]) = .error "wrong insn code" := by decide +kernel

/-- #34: data of element type p -/
theorem data_p_not_read_back :
    readModules Cfg.today (writeModules Cfg.today [mD])
      = .error "data type does not correspond value type" := by decide +kernel

/-- #6: with today's reader the label object of an lref item is not the label of the function
(objects 0 for L1 in `f`, a fresh object 1 for the lref) … -/
theorem lref_labels_orphan :
    (resolveItems Cfg.today { next := 0, tab := [] } [.func fL, .lref none 1 none 0]).map
        (fun i => match i with | .func f => f.occs | .lref l => l.occs)
      = [[⟨1, 0⟩, ⟨1, 0⟩], [⟨1, 1⟩]] := by decide

/-- … and is that label when `to_lab` is used -/
example : (resolveItems { Cfg.today with lrefOrphan := false } { next := 0, tab := [] }
      [.func fL, .lref none 1 none 0]).map (fun i => match i with | .func f => f.occs | .lref l => l.occs)
      = [[⟨1, 0⟩, ⟨1, 0⟩], [⟨1, 0⟩]] := by decide

/-- a function that ends with a label (legal through the API, e.g. the target of a jump to the end)
is written but refused by today's reader … -/
theorem trailing_label_not_read_back :
    readModules Cfg.today (writeModules Cfg.today [mT])
      = .error "statement should have no labels" := by decide +kernel

/-- … and read back when the reader appends the pending labels at `endfunc` -/
example : readModules { Cfg.today with endfuncLabels := true }
    (writeModules { Cfg.today with endfuncLabels := true } [mT]) = .ok [mT] := by decide +kernel

/-! ## the hypotheses are satisfiable (non-vacuity) -/

example : WF Cfg.today [mS] := by decide +kernel
example : readModules Cfg.today (writeModules Cfg.today [mS]) = .ok [mS] :=
  bin_roundtrip_partial _ _ (by decide +kernel)
example : TokWF (.name 70000 3) ∧ TokWF (.int (2 ^ 64 - 1)) := by decide
example : LabInv { next := 5, tab := [] } := LabInv.empty 5

end BinIO.Props
