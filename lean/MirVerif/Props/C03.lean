import MirVerif.Model.Thunk
import MirVerif.Lemmas.Thunk
import MirVerif.Lemmas.ThunkInv
/-! # C03 — behaviour is independent of the execution interface: the redirection bookkeeping

What is proved here (for the model in `Model/Thunk.lean`, tied to the C code on every run by
`checks/c03.py`: thunk bytes, `_MIR_get_thunk_addr`, executed thunks, and API histories replayed on
the real library):

* `redirect_target`   — executing the bytes `_MIR_redirect_thunk (a, to)` writes at `a` arrives at `to`,
  for ALL `a to : BitVec 64` (short `E9 rel32` form and long `movabs/jmp *r11` form);
  `short_boundary` pins the switch between the forms at `disp = 2^31-1 | 2^31` and `-2^31 | -2^31-1`;
* `get_after_redirect` — `_MIR_get_thunk_addr` reads back the last `to`;
* `addr_stable`       — for every history of load / link / set-interface / first call / generation
  events and every allocator behaviour, a public address that exists never changes;
  `addr_is_first_thunk`: it is the thunk allocated by the first load that mentions the function;
* `thunk_decodes`     — in every reachable state the bytes at the public address decode to the last
  redirection target (so "callable" reduces to "the last target is callable");
* `target_progress`   — after `MIR_gen f` the public address leads to `f->machine_code`;
  `lazy_first_call_progress`, `bb_first_call_progress` — the same for the first call through a lazy
  wrapper / bb wrapper; `machine_code_once` — machine code is generated once and never moves;
  `code_target_is_machine_code` — whenever the thunk is in state `code`, it leads to the machine code.

NOT proved (executed and compared only): the machine code of wrappers, shims, bb thunks/stubs and of
the generated functions themselves; that `_MIR_publish_code`/`_MIR_change_code` write what they are
given (C17); that results coincide between interfaces (tested on generated multi-module programs). -/
namespace MirVerif.Thunk

/-! ## the thunk codec -/

/-- **redirect_target**: executing the bytes `_MIR_redirect_thunk (a, to)` writes at `a` arrives at
`to` — both encodings, every pair of addresses. -/
theorem redirect_target (a to : W64) : thunkTarget a (redirect a to) = some to :=
  thunkTarget_redirect a to

example : thunkTarget 0x7f0000001000#64 (redirect 0x7f0000001000#64 0x7f0000001064#64)
    = some 0x7f0000001064#64 ∧ shortP 0x7f0000001000#64 0x7f0000001064#64 = true := by decide
example : thunkTarget 0x7f0000001000#64 (redirect 0x7f0000001000#64 0x55d0c0ffee00#64)
    = some 0x55d0c0ffee00#64 ∧ shortP 0x7f0000001000#64 0x55d0c0ffee00#64 = false := by decide

/-- The short form is chosen exactly for `INT32_MIN ≤ to - (a+5) ≤ INT32_MAX`; the four boundary
displacements, at every thunk address (including addresses where `a + 5 + d` wraps). -/
theorem short_boundary (a : W64) :
    shortP a (a + 5 + 2147483647#64) = true ∧ shortP a (a + 5 + 2147483648#64) = false ∧
    shortP a (a + 5 + 0xffffffff80000000#64) = true ∧ shortP a (a + 5 + 0xffffffff7fffffff#64) = false := by
  simp only [shortP, disp_add]
  decide

/-- **get_after_redirect**: `_MIR_get_thunk_addr` after `_MIR_redirect_thunk` returns the address
given to the latter. -/
theorem get_after_redirect (a to : W64) : getThunkAddr (redirect a to) = to :=
  getThunkAddr_redirect a to

/-- a redirected thunk always occupies exactly the 13 bytes `_MIR_get_thunk` published -/
theorem redirect_length (a to : W64) : (redirect a to).length = 13 := length_redirect a to

example : getThunkAddr (redirect 0x1000#64 0xfffffffffffff000#64) = 0xfffffffffffff000#64 := by decide

/-! ## public addresses -/

/-- **addr_stable**: once a function has a public address, no history of events (loads — including
re-loading the same module —, links under any interface, direct interface switches, first calls,
eager / lazy / bb generation, with any allocator answers) changes it. -/
theorem addr_stable (u : W64) (s : State) (h : List Event) (f : Nat) (a : W64)
    (ha : addr s f = some a) : addr (run u s h) f = some a := by
  induction h generalizing s with
  | nil => exact ha
  | cons e h ih =>
    rw [run_cons]
    apply ih
    exact stepF_addr u e f (s f) a ha

/-- the form asked for: the address after a prefix of the history is the address at the end -/
theorem addr_stable_history (u : W64) (h1 h2 : List Event) (f : Nat) (a : W64)
    (ha : addr (run u init h1) f = some a) : addr (run u init (h1 ++ h2)) f = some a := by
  rw [run_append]; exact addr_stable u _ h2 f a ha

example : addr (run 0x400000#64 init
    [.load [0, 1] (fun f => 0x7f0000001000#64 + BitVec.ofNat 64 (16 * f)),
     .link .lazy (fun f => 0x7f0000002000#64 + BitVec.ofNat 64 (64 * f))]) 1 = some 0x7f0000001010#64 ∧
  addr (run 0x400000#64 init
    ([.load [0, 1] (fun f => 0x7f0000001000#64 + BitVec.ofNat 64 (16 * f)),
      .link .lazy (fun f => 0x7f0000002000#64 + BitVec.ofNat 64 (64 * f))] ++
     [.firstCall 1 0x7f0000003000#64, .load [1] (fun _ => 0x7f0000009000#64),
      .link .interp (fun _ => 0x7f0000004000#64), .gen 1 0x7f0000005000#64])) 1
    = some 0x7f0000001010#64 := by decide

/-- The public address is the thunk `_MIR_get_thunk` returned when the function was first loaded
(`item->addr == NULL`); later loads do not allocate. -/
theorem addr_is_first_thunk (u : W64) (h : List Event) (f : Nat) (a : W64)
    (ha : addr (run u init h) f = some a) :
    ∃ h1 fs t h2, h = h1 ++ .load fs t :: h2 ∧ f ∈ fs ∧ addr (run u init h1) f = none ∧ t f = a := by
  suffices H : ∀ (h : List Event) (s : State), addr s f = none → addr (run u s h) f = some a →
      ∃ h1 fs t h2, h = h1 ++ .load fs t :: h2 ∧ f ∈ fs ∧ addr (run u s h1) f = none ∧ t f = a from
    H h init rfl ha
  intro h
  clear ha
  induction h with
  | nil => intro s hn hs; simp [run, hn] at hs
  | cons e h ih =>
    intro s hn hs
    rw [run_cons] at hs
    cases hp : addr (step u s e) f with
    | none =>
      obtain ⟨h1, fs, t, h2, rfl, hm, hn1, ht⟩ := ih _ hp hs
      exact ⟨e :: h1, fs, t, h2, rfl, hm, by rw [run_cons]; exact hn1, ht⟩
    | some b =>
      have hb := addr_stable u _ h f b hp
      have hab : b = a := by rw [hs] at hb; exact (Option.some.inj hb).symm
      have hne : (stepF u e f (s f)).addr ≠ (s f).addr := by
        have h1 : (stepF u e f (s f)).addr = some b := hp
        have h2 : (s f).addr = none := hn
        rw [h1, h2]; simp
      obtain ⟨fs, t, rfl, hm, hn'⟩ := stepF_addr_none u e f _ hne
      refine ⟨[], fs, t, h, rfl, hm, hn, ?_⟩
      have h1 : (stepF u (.load fs t) f (s f)).addr = some b := hp
      simp only [stepF, hm, if_true] at h1
      rw [load_addr_of_none _ _ _ hn'] at h1
      rw [← hab]; exact Option.some.inj h1

/-! ## the thunk always leads to the last redirection target -/

/-- **thunk_decodes**: in every reachable state, calling the public address of a loaded function
arrives at the last redirection target, and `_MIR_get_thunk_addr` reports it. -/
theorem thunk_decodes (u : W64) (h : List Event) (f : Nat) (a : W64)
    (ha : addr (run u init h) f = some a) :
    target (run u init h) f = some (run u init h f).to ∧
    getThunkAddr (run u init h f).bytes = (run u init h f).to := by
  have hc := consistent_run u init h (fun f a ha => by simp [init] at ha) f a ha
  refine ⟨?_, hc.2.1⟩
  unfold target
  unfold addr at ha
  rw [ha]
  exact hc.1

/-- **code_target_is_machine_code**: in every reachable state, a function whose thunk was last
redirected to generated code is entered at `func->machine_code`. -/
theorem code_target_is_machine_code (u : W64) (h : List Event) (f : Nat) (a : W64)
    (ha : addr (run u init h) f = some a) (hk : (run u init h f).kind = .code) :
    target (run u init h) f = (run u init h f).machineCode := by
  have hc := consistent_run u init h (fun f a ha => by simp [init] at ha) f a ha
  rw [(thunk_decodes u h f a ha).1, hc.2.2.2 hk]

example : target (run 0x400000#64 init
    [.load [0] (fun _ => 0x7f0000001000#64), .link .gen (fun _ => 0x7f00c0000000#64)]) 0
    = some 0x7f00c0000000#64 ∧
    (run 0x400000#64 init
    [.load [0] (fun _ => 0x7f0000001000#64), .link .gen (fun _ => 0x7f00c0000000#64)] 0).kind = .code := by
  decide

/-! ## progress -/

/-- **target_progress**: after `MIR_gen f` (eager interface, or called directly) the public address
of a loaded `f` leads to `f`'s machine code, which exists. -/
theorem target_progress (u : W64) (s : State) (f : Nat) (pub a : W64) (ha : addr s f = some a) :
    target (step u s (.gen f pub)) f = (step u s (.gen f pub) f).machineCode ∧
    (step u s (.gen f pub) f).machineCode.isSome = true := by
  unfold addr at ha
  simp only [target, step, stepF, if_true, genCode_addr, ha]
  unfold FuncSt.genCode
  split
  · rename_i c hc
    simp [FuncSt.redirectTo, ha, redirect_target, hc]
  · simp [FuncSt.redirectTo, ha, redirect_target]

/-- the first call through a lazy wrapper generates the code and retargets the public address to it -/
theorem lazy_first_call_progress (u : W64) (s : State) (f : Nat) (pub a : W64)
    (ha : addr s f = some a) (hk : (s f).kind = .lazyWrapper) :
    target (step u s (.firstCall f pub)) f = (step u s (.firstCall f pub) f).machineCode ∧
    (step u s (.firstCall f pub) f).machineCode.isSome = true ∧
    (step u s (.firstCall f pub) f).kind = .code := by
  have h := target_progress u s f pub a ha
  have e : step u s (.firstCall f pub) f = step u s (.gen f pub) f := by
    simp [step, stepF, hk]
  have e2 : target (step u s (.firstCall f pub)) f = target (step u s (.gen f pub)) f := by
    simp [target, e]
  rw [e2, e]
  refine ⟨h.1, h.2, ?_⟩
  unfold addr at ha
  simp only [step, stepF, if_true]
  unfold FuncSt.genCode
  split <;> simp [FuncSt.redirectTo, ha]

/-- the first call through a bb wrapper of a function without machine code retargets the public
address to the first bb thunk; no whole-function machine code appears -/
theorem bb_first_call_progress (u : W64) (s : State) (f : Nat) (pub a : W64)
    (ha : addr s f = some a) (hk : (s f).kind = .bbWrapper) (hm : (s f).machineCode = none) :
    target (step u s (.firstCall f pub)) f = some pub ∧
    (step u s (.firstCall f pub) f).kind = .bbThunk ∧
    (step u s (.firstCall f pub) f).machineCode = none := by
  unfold addr at ha
  simp [target, step, stepF, hk, hm, FuncSt.genBB, FuncSt.redirectTo, ha, redirect_target]

/-- **relink_bb_after_gen**: the first call through a bb wrapper of a function that already has
whole-function machine code (generated earlier, then linked again under the lazy-bb interface)
leads to that code; nothing is generated. -/
theorem relink_bb_after_gen (u : W64) (s : State) (f : Nat) (pub a c : W64)
    (ha : addr s f = some a) (hk : (s f).kind = .bbWrapper) (hm : (s f).machineCode = some c) :
    target (step u s (.firstCall f pub)) f = some c ∧
    (step u s (.firstCall f pub) f).kind = .code ∧
    (step u s (.firstCall f pub) f).machineCode = some c ∧
    (step u s (.firstCall f pub) f).bbData = (s f).bbData := by
  unfold addr at ha
  simp [target, step, stepF, hk, hm, FuncSt.genBB, FuncSt.redirectTo, ha, redirect_target]

/-- a second call changes nothing: only the first call through a wrapper has an effect -/
theorem second_call_no_effect (u : W64) (s : State) (f : Nat) (p p' a : W64)
    (ha : addr s f = some a) :
    step u (step u s (.firstCall f p)) (.firstCall f p') = step u s (.firstCall f p) := by
  unfold addr at ha
  funext g
  by_cases hg : g = f
  · subst hg
    have h1 : (stepF u (.firstCall g p) g (s g)).kind ≠ .lazyWrapper ∧
        (stepF u (.firstCall g p) g (s g)).kind ≠ .bbWrapper ∧
        ((stepF u (.firstCall g p) g (s g)).kind = .shim →
          (stepF u (.firstCall g p) g (s g)).interpData = true) := by
      simp only [stepF, if_true]
      cases hk : (s g).kind <;> simp [hk, genCode_kind _ _ _ ha]
      rcases genBB_kind (s g) p a ha with h | h <;> simp [h]
    simp only [step]
    generalize stepF u (.firstCall g p) g (s g) = x at h1 ⊢
    simp only [stepF, if_true]
    cases hx : x.kind <;> simp_all
    cases x; simp_all
  · simp [step, stepF, hg]

/-- **machine_code_once**: generated code never moves and is never regenerated (so the direct
calls `target_change_to_direct_calls` patches in stay valid). -/
theorem machine_code_once (u : W64) (s : State) (h : List Event) (f : Nat) (c : W64)
    (hc : (s f).machineCode = some c) : (run u s h f).machineCode = some c := by
  induction h generalizing s with
  | nil => exact hc
  | cons e h ih =>
    rw [run_cons]
    apply ih
    have hg : ∀ (t : FuncSt) p, t.machineCode = some c → (t.genCode p).machineCode = some c := by
      intro t p ht; simp [FuncSt.genCode, ht, redirectTo_machineCode]
    have hb : ∀ (t : FuncSt) p, t.machineCode = some c → (t.genBB p).machineCode = some c := by
      intro t p ht; simp [FuncSt.genBB, ht, redirectTo_machineCode]
    have hi : ∀ (t : FuncSt) i p, t.machineCode = some c → (t.setIface i p).machineCode = some c := by
      intro t i p ht; cases i <;> simp [FuncSt.setIface, redirectTo_machineCode, ht, hg]
    cases e with
    | load fs t => simp only [step, stepF]; split
                   · simp only [FuncSt.load]
                     split <;> simp [redirectTo_machineCode, hc]
                   · exact hc
    | link i p => simp only [step, stepF]; split
                  · exact hi { (s f) with interpData := false } i (p f) hc
                  · exact hc
    | setIface i g p => simp only [step, stepF]; split
                        · exact hi _ i p hc
                        · exact hc
    | firstCall g p => simp only [step, stepF]; split
                       · split
                         · exact hg _ p hc
                         · exact hb _ p hc
                         · exact hc
                         · exact hc
                       · exact hc
    | gen g p => simp only [step, stepF]; split
                 · exact hg _ p hc
                 · exact hc
    | bbgen g p => simp only [step, stepF]; split
                   · exact hb _ p hc
                   · exact hc

example : (run 0x400000#64 init
    [.load [0] (fun _ => 0x7f0000001000#64), .link .lazy (fun _ => 0x7f0000002000#64),
     .firstCall 0 0x7f0000003000#64, .setIface .interp 0 0x7f0000004000#64,
     .setIface .gen 0 0x7f0000005000#64] 0).machineCode = some 0x7f0000003000#64 ∧
  target (run 0x400000#64 init
    [.load [0] (fun _ => 0x7f0000001000#64), .link .lazy (fun _ => 0x7f0000002000#64),
     .firstCall 0 0x7f0000003000#64, .setIface .interp 0 0x7f0000004000#64,
     .setIface .gen 0 0x7f0000005000#64]) 0 = some 0x7f0000003000#64 := by decide

end MirVerif.Thunk
