/-! Property theorems for C03 (none yet). -/
