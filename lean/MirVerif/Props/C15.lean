/-! Property theorems for C15 (none yet). -/
