import MirVerif.Lemmas.CheckGrid
import MirVerif.Lemmas.CheckVar
/-!
# C15 — ill-formed IR is rejected through the error callback; well-formed IR is accepted

Property theorems about the model `MirVerif.Model.Check` of `MIR_new_insn_arr` / `MIR_finish_func` /
`MIR_new_func_reg`, instantiated with the `insn_descs` table and the enums regenerated from /repo
on every run (`MirVerif.Gen.C15`), against the documented operand classes of `Model/DocModes.lean`
(transcribed from MIR.md).  The model is tied to the C code by the exhaustive correspondence of
`checks/c15.py` (every cell through the public API under ASan).

No full statement is false on the current code: `knownDeviations = []`, so `grid` is the full
grid (`grid_full` below: implementation verdict = documented verdict on every documented cell).
The exact form `grid` (equality iff no listed deviation covers the cell) is kept so that a future
finding can be listed in one line of `Model/CheckKnown.lean`.

Restored to their full form after the fixes 6cabb311 (laddr), d055fe2e (addr), 5ff22cdb (va_list),
0147517d (prset), e6c2b500 (ret count), 27244d2d (jcall), 37892d9f (call target):
da63a480 (uint property constants): `ret_count`, `call_matches_proto` / `call_address` (now for jcall too), `call_ref_target`, and the
grid at (laddr,0), (addr*,1), the va_list positions, (prset,0).
-/
namespace MirVerif.Check
open MirVerif.Gen.C15

/-! ## 1. structure: an instruction is judged position by position -/

/-- `per_operand` (accepted case): a fixed-arity instruction with the right operand count passes
creation and the operand loop of `MIR_finish_func` iff every (opcode, position, kind) cell passes;
for every table, every operand list. -/
theorem per_operand (asserts : Bool) (descs : Descs) (protos : List Proto) (fn : Func)
    (code : Nat) (ops : List Operand)
    (hf : fixedArity code = true) (hn : ops.length = nopsOf descs code) :
    insnOperandsVerdict asserts descs protos fn code ops = .ok ↔
      ∀ k (h : k < ops.length), cellVerdict descs code k ops[k].s = .ok :=
  per_operand_ok asserts descs protos fn code ops hf hn

/-- `per_operand` (rejected case): the error reported is the verdict of one of the cells -/
theorem per_operand_rejected (asserts : Bool) (descs : Descs) (protos : List Proto) (fn : Func)
    (code : Nat) (ops : List Operand) (v : Verdict)
    (hf : fixedArity code = true) (hn : ops.length = nopsOf descs code)
    (hv : insnOperandsVerdict asserts descs protos fn code ops = v) (hne : v ≠ .ok) :
    ∃ k, ∃ h : k < ops.length, cellVerdict descs code k ops[k].s = v :=
  per_operand_err asserts descs protos fn code ops v hf hn hv hne

example : fixedArity C_FADD = true ∧ [Operand.reg (.decl .f), .reg (.decl .f), .float].length = nopsOf insnDescs C_FADD
    ∧ insnOperandsVerdict true insnDescs [] ⟨false, []⟩ C_FADD [.reg (.decl .f), .reg (.decl .f), .float] = .ok
    ∧ insnOperandsVerdict true insnDescs [] ⟨false, []⟩ C_FADD [.reg (.decl .f), .reg (.decl .d), .float]
        = .err E_op_mode := by decide

/-! ## 2. the grid -/

/-- `grid`: for every opcode MIR.md documents with a fixed operand count, every position, every
operand kind (register of each type or undeclared, every immediate, memory of every type with
every base/index/displacement-sign combination, label, reference to every item kind, string):
the verdict computed from the generated `insn_descs` table equals the documented verdict exactly
when the cell is not covered by a listed deviation. -/
theorem grid (c i : Nat) (o : OpS) (sig : List DocPos) (dp : DocPos)
    (hsig : docSig c = some sig) (hdp : sig[i]? = some dp) :
    (cellVerdict insnDescs c i o = docOperand dp false o) ↔ deviates c i o = false :=
  grid_exact c i o sig dp hsig hdp

/-- `grid_partial`: outside the listed deviations implementation and documentation agree -/
theorem grid_partial (c i : Nat) (o : OpS) (sig : List DocPos) (dp : DocPos)
    (hsig : docSig c = some sig) (hdp : sig[i]? = some dp) (hdev : deviates c i o = false) :
    cellVerdict insnDescs c i o = docOperand dp false o :=
  (grid c i o sig dp hsig hdp).mpr hdev

/-- a concrete cell for each grid-level deviation -/
def Deviation.witness : Deviation → Option (Nat × Nat × OpS)
  | .propUintRejected => some (C_PRSET, 1, .uint)

theorem witness_covered (d : Deviation) (c i : Nat) (o : OpS) (h : d.witness = some (c, i, o)) :
    (docSig c).isSome = true ∧ ((docSig c).getD [])[i]?.isSome = true ∧ d.at c i = true
      ∧ d.ops o.absDoc = true := by
  cases d <;> simp [Deviation.witness] at h <;> obtain ⟨rfl, rfl, rfl⟩ := h <;> decide

/-- the counter-examples: every listed grid-level deviation is a cell where the current table
contradicts MIR.md (for `propUintRejected`: `prset r, <uint 5>` — rejected with `op_mode`, the
documentation accepts an integer constant) -/
theorem deviation_real (d : Deviation) (hd : d ∈ knownDeviations) (c i : Nat) (o : OpS)
    (hw : d.witness = some (c, i, o)) :
    ∃ sig dp, docSig c = some sig ∧ sig[i]? = some dp ∧
      cellVerdict insnDescs c i o ≠ docOperand dp false o := by
  obtain ⟨h1, h2, h3, h4⟩ := witness_covered d c i o hw
  cases hs : docSig c with
  | none => simp [hs] at h1
  | some sig =>
    simp only [hs, Option.getD_some] at h2
    cases hp : sig[i]? with
    | none => simp [hp] at h2
    | some dp =>
      refine ⟨sig, dp, rfl, hp, ?_⟩
      intro heq
      have := (grid c i o sig dp hs hp).mp heq
      have hdv : deviates c i o = true := by
        unfold deviates
        rw [List.any_eq_true]
        exact ⟨d, hd, by simp [h3, h4]⟩
      rw [hdv] at this
      exact absurd this (by decide)

/-- the full grid statement holds iff no grid-level deviation is listed -/
theorem grid_full_iff :
    (∀ c i o sig dp, docSig c = some sig → sig[i]? = some dp →
        cellVerdict insnDescs c i o = docOperand dp false o)
      ↔ ∀ d ∈ knownDeviations, d.witness = none := by
  constructor
  · intro hfull d hd
    cases hw : d.witness with
    | none => rfl
    | some w =>
      obtain ⟨c, i, o⟩ := w
      obtain ⟨sig, dp, h1, h2, h3⟩ := deviation_real d hd c i o hw
      exact absurd (hfull c i o sig dp h1 h2) h3
  · intro hnone c i o sig dp hs hp
    apply grid_partial c i o sig dp hs hp
    unfold deviates
    rw [List.any_eq_false]
    intro d hd
    have hw := hnone d hd
    cases d <;> simp [Deviation.witness] at hw <;> simp [Deviation.at]

/-- `grid`, full statement: on every position MIR.md documents for a fixed-arity opcode and for
every operand kind, the verdict computed from the generated `insn_descs` is the documented one -/
theorem grid_full (c i : Nat) (o : OpS) (sig : List DocPos) (dp : DocPos)
    (hsig : docSig c = some sig) (hdp : sig[i]? = some dp) :
    cellVerdict insnDescs c i o = docOperand dp false o :=
  grid_full_iff.mpr (by decide) c i o sig dp hsig hdp

/-- cells of defects that were fixed in /repo: implementation = documentation again -/
example : cellVerdict insnDescs C_LADDR 0 .int = .err E_out_op
    ∧ cellVerdict insnDescs C_ADDR 1 .int = .err E_op_mode
    ∧ cellVerdict insnDescs C_PRSET 0 .int = .err E_op_mode
    ∧ cellVerdict insnDescs C_VA_END 0 (.mem ⟨.undef, false, .r (.decl .i64), .none⟩) = .ok
    ∧ cellVerdict insnDescs C_MOV 1 (.mem ⟨.undef, false, .r (.decl .i64), .none⟩) = .err E_wrong_type := by
  decide
/-- the last deviation that was listed (uint property constants), now fixed -/
example : (cellVerdict insnDescs C_PRSET 1 .uint
      = if Deviation.propUintRejected ∈ knownDeviations then .err E_op_mode else .ok)
    ∧ docOperand .propConst false .uint = .ok := by decide
example : deviates C_FADD 2 (.reg (.decl .d)) = false ∧
    cellVerdict insnDescs C_FADD 2 (.reg (.decl .d)) = .err E_op_mode := by decide

/-! ## 3. arity -/

/-- `arity`: a fixed-arity opcode created with the wrong number of operands gives `ops_num` -/
theorem arity (asserts : Bool) (protos : List Proto) (fn : Func) (code : Nat) (ops : List Operand)
    (hf : fixedArity code = true) (hn : ops.length ≠ nopsOf insnDescs code) :
    insnOperandsVerdict asserts insnDescs protos fn code ops = .err E_ops_num :=
  arity_error asserts insnDescs protos fn code ops hf hn

/-- … and the count the table demands is the documented one -/
theorem arity_documented (c : Nat) (sig : List DocPos) (h : docSig c = some sig) :
    nopsOf insnDescs c = sig.length := by
  obtain ⟨g, hg, hc, hs⟩ := docSig_group c sig h
  have h1 := List.all_eq_true.mp nops_agree_all g hg
  have h2 := List.all_eq_true.mp h1 c hc
  rw [← hs]
  exact beq_iff_eq.mp h2

/-- every opcode of `MIR_insn_code_t` is either documented with a fixed signature, documented as
variadic (call/inline/jcall/ret/switch), or internal — exactly one of the three -/
theorem opcodes_partition (c : Nat) (h : c < C_INSN_BOUND) :
    ((docFixed.filter fun g => g.1.contains c).length
      + (if docVariadic.contains c then 1 else 0) + (if docInternal.contains c then 1 else 0)) = 1 :=
  beq_iff_eq.mp (List.all_eq_true.mp doc_partition c (List.mem_range.mpr h))

/-- `switch` needs a selector and at least one label -/
theorem arity_switch (descs : Descs) (protos : List Proto) (ops : List Operand) :
    newInsnCheck descs protos C_SWITCH ops = if ops.length < 2 then .err E_ops_num else .ok := by
  unfold newInsnCheck
  have h1 : fixedArity C_SWITCH = false := by decide
  simp [h1]

example : newInsnCheck insnDescs [] C_SWITCH [.reg (.decl .i64)] = .err E_ops_num
    ∧ newInsnCheck insnDescs [] C_SWITCH [.reg (.decl .i64), .label] = .ok := by decide
example : nopsOf insnDescs C_ADD = 3 ∧ fixedArity C_ADD = true := by decide

/-! ## 4. ret against the function's results -/

/-- `ret_matches_results` (operand classes): operand `i` of `ret` is judged as a value of result
type `i` of the function -/
theorem ret_matches_results (asserts : Bool) (descs : Descs) (protos : List Proto) (fn : Func)
    (ops : List Operand) (i : Nat) (o : OpS)
    (hres : resTyOk (fn.res.getD i .i64) = true) :
    finishPos asserts descs protos fn ⟨C_RET, ops⟩ i o = docOperand (docRetPos fn i) false o := by
  rw [finishPos_ret]
  exact typed_pos _ false false o hres

/-- `ret_count` (`ret_matches_results`, count part): a `ret` whose operand count differs from the
number of results of the function is rejected with `vararg_func`; all functions, all operand lists -/
theorem ret_count (fn : Func) (prevs : List Insn) (ops : List Operand)
    (hn : ops.length ≠ fn.res.length) :
    insnLevel fn prevs true false ⟨C_RET, ops⟩ = .err E_vararg_func := by
  unfold insnLevel
  have h1 : (C_RET == C_PHI || C_RET == C_USE) = false := by decide
  have h2 : (C_RET == C_VA_START) = false := by decide
  have h3 : (C_RET == C_JRET) = false := by decide
  simp [h1, h2, h3, hn]

/-- `ret` and `jret` cannot be mixed; `jret` needs a function without results -/
theorem ret_jret_rules (fn : Func) (prevs : List Insn) (ops : List Operand) :
    insnLevel fn prevs true true ⟨C_RET, ops⟩ = .err E_vararg_func
    ∧ insnLevel fn prevs true true ⟨C_JRET, ops⟩ = .err E_vararg_func
    ∧ (fn.res.length ≠ 0 → ∀ r j, insnLevel fn prevs r j ⟨C_JRET, ops⟩ = .err E_vararg_func) := by
  have h1 : (C_RET == C_PHI || C_RET == C_USE) = false := by decide
  have h2 : (C_RET == C_VA_START) = false := by decide
  have h3 : (C_RET == C_JRET) = false := by decide
  have h4 : (C_JRET == C_PHI || C_JRET == C_USE) = false := by decide
  have h5 : (C_JRET == C_VA_START) = false := by decide
  refine ⟨?_, ?_, ?_⟩
  · unfold insnLevel; simp [h1, h2, h3]
  · unfold insnLevel; simp [h4, h5]
  · intro h r j; unfold insnLevel; simp [h4, h5, h]

example : finishFuncCheck true insnDescs [] ⟨false, [.i64, .d]⟩ [⟨C_RET, [.int, .reg (.decl .d)]⟩] = .ok
    ∧ finishFuncCheck true insnDescs [] ⟨false, [.i64, .d]⟩ [⟨C_RET, [.int, .float]⟩] = .err E_op_mode
    ∧ finishFuncCheck true insnDescs [] ⟨false, [.i64, .d]⟩ [⟨C_RET, [.int]⟩] = .err E_vararg_func := by
  decide

/-! ## 5. calls against their prototype -/

/-- `call_matches_proto` (count): creation of a call-like insn whose first operand is prototype `k` -/
theorem call_count (descs : Descs) (protos : List Proto) (code k : Nat) (rest : List Operand)
    (pr : Proto) (hc : isCall code = true) (hp : protos[k]? = some pr) (hl : 1 ≤ rest.length) :
    newInsnCheck descs protos code (.ref .proto k :: rest) =
      if callCountOk pr (rest.length + 1) then blkArgsCheck pr 0 (rest.drop 1) else .err E_call_op := by
  have hf : fixedArity code = false := by simp [fixedArity, hc]
  have hsw : (code == C_SWITCH) = false := by
    cases h : code == C_SWITCH
    · rfl
    · rw [beq_iff_eq] at h; subst h; exact absurd hc (by decide)
  have hphi : (code == C_PHI) = false := by
    cases h : code == C_PHI
    · rfl
    · rw [beq_iff_eq] at h; subst h; exact absurd hc (by decide)
  have hun : (code == C_UNSPEC) = false := by
    cases h : code == C_UNSPEC
    · rfl
    · rw [beq_iff_eq] at h; subst h; exact absurd hc (by decide)
  unfold newInsnCheck
  have hlt : ¬ (rest.length + 1 < 2) := by omega
  simp [hf, hsw, hphi, hun, hc, hp, hlt]
  split <;> simp_all

/-- the count rule itself: exactly results + parameters + 2 operands, more only for vararg -/
theorem callCountOk_iff (pr : Proto) (n : Nat) :
    callCountOk pr n = true ↔
      (n = pr.res.length + pr.args.length + 2 ∨ (pr.vararg = true ∧ n > pr.res.length + pr.args.length + 2)) := by
  unfold callCountOk
  cases hv : pr.vararg <;> simp [hv] <;> omega

theorem allBlk_eq (t : Ty) : allBlk t = blkTy t := by
  have := Ty.forall_of_all allBlk_iff_blkTy t
  exact beq_iff_eq.mp this

theorem args_cases {α} (l : List α) (i : Nat) (d : α) :
    (∃ a, l[i]? = some a ∧ i < l.length ∧ l.getD i d = a) ∨ (l[i]? = none ∧ ¬ i < l.length) := by
  by_cases h : i < l.length
  · exact Or.inl ⟨l[i], by simp [h], h, by simp [List.getD, h]⟩
  · exact Or.inr ⟨by simp [Nat.le_of_not_lt h], h⟩

/-- `call_matches_proto` (block arguments): the creation-time check is the documented agreement,
and its only error is `wrong_type`; for all prototypes, positions, operands -/
theorem call_blk (pr : Proto) (j : Nat) (op : Operand) :
    blkArgCheck pr j op = if docBlkAgree pr j op then .ok else .err E_wrong_type := by
  by_cases hj : j ≥ pr.res.length
  · have hnj : ¬ j < pr.res.length := by omega
    rcases args_cases pr.args (j - pr.res.length) (.i64, 0) with ⟨⟨t, sz⟩, hsome, hlt, hgd⟩ | ⟨hnone, hnlt⟩
    · have hp : paramAt pr j = some (t, sz) := by simp [paramAt, hj, hsome]
      cases op <;> simp only [blkArgCheck, docBlkAgree, hp, allBlk_eq, hgd, hlt, hj, hnj] <;>
        (try (repeat' split)) <;> simp_all <;> omega
    · have hp : paramAt pr j = none := by simp [paramAt, hj, hnone]
      cases op <;> simp only [blkArgCheck, docBlkAgree, hp, allBlk_eq, hnlt, hj, hnj] <;>
        (try (repeat' split)) <;> simp_all
  · have hlt' : j < pr.res.length := by omega
    have hp : paramAt pr j = none := by simp [paramAt, hj]
    cases op <;> simp only [blkArgCheck, docBlkAgree, hp, allBlk_eq, hj, hlt'] <;>
      (try (repeat' split)) <;> simp_all

/-- prototypes whose result types are scalars and whose parameter types are scalars or blocks -/
def Proto.wf (pr : Proto) : Bool := pr.res.all resTyOk && pr.args.all (fun a => argTyOk a.1)

theorem getD_all {α} (l : List α) (p : α → Bool) (d : α) (i : Nat) (h : l.all p = true) (hi : i < l.length) :
    p (l.getD i d) = true := by
  have : l.getD i d = l[i] := by simp [List.getD, List.getElem?_eq_getElem hi]
  rw [this]
  exact List.all_eq_true.mp h _ (List.getElem_mem hi)

/-- `call_matches_proto` (operand classes), `call`, `inline` and `jcall`: every result position is
an output of the result type, every argument a value of the parameter type (block types as block
memory), extra arguments of a vararg call are only checked for well-formedness; for all
prototypes, all operand lists. -/
theorem call_matches_proto (asserts : Bool) (descs : Descs) (protos : List Proto) (fn : Func)
    (code k : Nat) (rest : List Operand) (pr : Proto) (i : Nat) (o : OpS)
    (hcall : isCall code = true) (hp : protos[k]? = some pr) (hwf : pr.wf = true)
    (hcnt : callCountOk pr (rest.length + 1) = true) (hi2 : 2 ≤ i) (hil : i < rest.length + 1) :
    finishPos asserts descs protos fn ⟨code, .ref .proto k :: rest⟩ i o
      = docOperand (docCallPos pr i) true o := by
  have hun : (code == C_UNSPEC) = false := by
    cases h : code == C_UNSPEC
    · rfl
    · rw [beq_iff_eq] at h; subst h; exact absurd hcall (by decide)
  have hi0 : (i == 0) = false := by simp; omega
  have hi1 : (i == 1) = false := by simp; omega
  simp only [Proto.wf, Bool.and_eq_true] at hwf
  obtain ⟨hres, hargs⟩ := hwf
  unfold finishPos
  simp only [hun, Bool.false_and, Bool.false_eq_true, if_false, hcall, if_true, protoOf, List.head?_cons, hp]
  unfold callPos docCallPos
  simp only [hi0, hi1, Bool.false_and, Bool.false_eq_true, if_false]
  rw [callCountOk_iff] at hcnt
  by_cases hr : i < pr.res.length + 2
  · have hnv : ¬ (i ≥ pr.res.length + 2 + pr.args.length) := by omega
    have hout : (decide (2 ≤ i) && decide (i < pr.res.length + 2)) = true := by simp [hi2, hr]
    rw [hout]
    simp only [hr, if_true, hnv, decide_false, Bool.and_false, Bool.false_eq_true, if_false]
    have hty := getD_all pr.res resTyOk .i64 (i - 2) hres (by omega)
    exact typed_pos (pr.res.getD (i - 2) .i64) true true o (by
      show argTyOk _ = true
      simp only [resTyOk] at hty
      simp only [argTyOk, hty, Bool.true_or])
  · have hout : (decide (2 ≤ i) && decide (i < pr.res.length + 2)) = false := by simp [hr]
    rw [hout]
    by_cases ha : i < pr.res.length + 2 + pr.args.length
    · have hnv : ¬ (i ≥ pr.res.length + 2 + pr.args.length) := by omega
      simp only [hr, if_false, ha, if_true, hnv, decide_false, Bool.and_false, Bool.false_eq_true]
      have hty := getD_all pr.args (fun a => argTyOk a.1) (.i64, 0) (i - 2 - pr.res.length) hargs (by omega)
      exact typed_pos (pr.args.getD (i - 2 - pr.res.length) (.i64, 0)).1 false true o hty
    · have hge : i ≥ pr.res.length + 2 + pr.args.length := Nat.le_of_not_lt ha
      have hv : pr.vararg = true := by
        rcases hcnt with h | h
        · omega
        · exact h.1
      simp only [hr, if_false, ha, hv, hge, decide_true, Bool.and_self, if_true]
      exact (moded_pos true o).2.2

/-- the second operand of a call given as a value (not a reference) must be an integer value -/
theorem call_address (asserts : Bool) (descs : Descs) (protos : List Proto) (fn : Func)
    (code k : Nat) (rest : List Operand) (pr : Proto) (o : OpS)
    (hcall : isCall code = true) (hp : protos[k]? = some pr) (hnr : o.mode ≠ OP_REF) :
    finishPos asserts descs protos fn ⟨code, .ref .proto k :: rest⟩ 1 o
      = docOperand (.val .int false) true o := by
  have hun : (code == C_UNSPEC) = false := by
    cases h : code == C_UNSPEC
    · rfl
    · rw [beq_iff_eq] at h; subst h; exact absurd hcall (by decide)
  have hm : (o.mode == OP_REF) = false := by simpa using hnr
  unfold finishPos
  simp only [hun, Bool.false_and, Bool.false_eq_true, if_false, hcall, if_true, protoOf, List.head?_cons, hp]
  unfold callPos
  have h10 : ((1 : Nat) == 0) = false := by decide
  have hv : ¬ ((1 : Nat) ≥ pr.res.length + 2 + pr.args.length) := by omega
  have h2 : ((decide (2 ≤ (1 : Nat))) && decide ((1 : Nat) < pr.res.length + 2)) = false := by simp
  simp only [h10, Bool.false_eq_true, if_false, hm, Bool.and_false, hv, decide_false, beq_self_eq_true,
    if_true, h2]
  exact (moded_pos true o).1

/-- `call_ref_target`: the second operand given as a reference must name a callable item (function,
import, export, forward); a reference to data, bss or a prototype is rejected with `call_op` -/
theorem call_ref_target (asserts : Bool) (descs : Descs) (protos : List Proto) (fn : Func)
    (code k : Nat) (rest : List Operand) (pr : Proto) (r : RefS)
    (hc : isCall code = true) (hp : protos[k]? = some pr) :
    finishPos asserts descs protos fn ⟨code, .ref .proto k :: rest⟩ 1 (.ref r)
      = if callableRef r then .ok else .err E_call_op := by
  have hun : (code == C_UNSPEC) = false := by
    cases h : code == C_UNSPEC
    · rfl
    · rw [beq_iff_eq] at h; subst h; exact absurd hc (by decide)
  unfold finishPos
  simp only [hun, Bool.false_and, Bool.false_eq_true, if_false, hc, if_true, protoOf, List.head?_cons, hp]
  unfold callPos
  have h10 : ((1 : Nat) == 0) = false := by decide
  have hm : ((OpS.ref r).mode == OP_REF) = true := by simp [OpS.mode]
  simp only [h10, Bool.false_eq_true, if_false, beq_self_eq_true, hm, Bool.and_self, if_true]
  cases hcond : callableRef r <;> simp

/-- `jcall` is judged like `call` (27244d2d): wrong argument class, many arguments, bad target -/
example : let pr : Proto := ⟨false, [], [(.i64, 0), (.i64, 0), (.i64, 0), (.i64, 0), (.i64, 0)]⟩
    let good : List Operand := [.ref .proto 0, .ref .func 0, .int, .int, .int, .int, .reg (.decl .i64)]
    finishFuncCheck true insnDescs [pr] ⟨false, []⟩ [⟨C_JCALL, good⟩] = .ok
    ∧ finishFuncCheck true insnDescs [pr] ⟨false, []⟩
        [⟨C_JCALL, [.ref .proto 0, .ref .func 0, .int, .int, .int, .int, .reg (.decl .f)]⟩] = .err E_op_mode
    ∧ finishFuncCheck true insnDescs [pr] ⟨false, []⟩
        [⟨C_JCALL, [.ref .proto 0, .ref .data 0, .int, .int, .int, .int, .int]⟩] = .err E_call_op := by
  decide

example : let pr : Proto := ⟨true, [.i64], [(.d, 0), (.blk1, 16)]⟩
    pr.wf = true ∧
    finishFuncCheck true insnDescs [pr] ⟨false, []⟩
      [⟨C_CALL, [.ref .proto 0, .ref .import_ 0, .reg (.decl .i64), .double,
                 .mem .blk1 16 (.r (.decl .i64)) .none, .str]⟩] = .ok
    ∧ newInsnCheck insnDescs [pr] C_CALL [.ref .proto 0, .ref .import_ 0, .reg (.decl .i64), .double,
                 .mem .blk1 8 (.r (.decl .i64)) .none] = .err E_wrong_type
    ∧ newInsnCheck insnDescs [pr] C_CALL [.ref .proto 0, .ref .import_ 0, .reg (.decl .i64)] = .err E_call_op
    ∧ finishFuncCheck true insnDescs [pr] ⟨false, []⟩
      [⟨C_CALL, [.ref .proto 0, .ref .import_ 0, .int, .double,
                 .mem .blk1 16 (.r (.decl .i64)) .none]⟩] = .err E_out_op := by decide

/-! ## 6. overflow branches -/

def isOverflowBranchCode (c : Nat) : Prop := c = C_BO ∨ c = C_UBO ∨ c = C_BNO ∨ c = C_UBNO

theorem ob_bool (a u m sg um : Bool) (x y : Verdict) :
    (if (!a) = true then x else if (u && m) = true then x else if (sg && um) = true then x else y)
      = if (a && !(u && m || sg && um)) = true then y else x := by
  cases a <;> cases u <;> cases m <;> cases sg <;> cases um <;> rfl

theorem insnLevel_ob (fn : Func) (prevs : List Insn) (r j : Bool) (c : Nat) (ops : List Operand)
    (h1 : (c == C_PHI || c == C_USE) = false) (h2 : (c == C_VA_START) = false)
    (h3 : (c == C_JRET) = false) (h4 : (c == C_RET) = false) (h5 : isCall c = false)
    (h6 : isOverflowBranch c = true) :
    insnLevel fn prevs r j ⟨c, ops⟩ =
      match overflowProducer prevs with
      | none => .err E_invalid_insn
      | some p => if isOverflowInsn p.code && flagCompatible c p.code then .ok else .err E_invalid_insn := by
  unfold insnLevel
  simp only [h1, h2, h3, h4, h5, h6, Bool.and_false, Bool.false_and, Bool.false_or, Bool.or_false,
    Bool.false_eq_true, if_false, if_true]
  cases overflowProducer prevs with
  | none => rfl
  | some p =>
    simp only [flagCompatible]
    exact ob_bool _ _ _ _ _ _ _

/-- the insns between an overflow branch and the insn whose flag it consumes: `ms` are register
moves / stores of registers, `p` is the first insn that is not -/
def FlagProducer (prevs : List Insn) (p : Insn) : Prop :=
  ∃ ms rest, prevs = ms ++ p :: rest ∧ (∀ m ∈ ms, isRegMove m = true) ∧ isRegMove p = false

/-- `overflow_branch_adjacency`: a branch on overflow is accepted iff, going back over register
moves and stores of registers (`mov x, reg`) only, the first other insn is an overflow insn whose
signedness fits; otherwise `invalid_insn`.  For all insn lists. -/
theorem overflow_branch_adjacency (fn : Func) (prevs : List Insn) (r j : Bool) (c : Nat) (ops : List Operand)
    (hc : isOverflowBranchCode c) :
    ((∃ p, FlagProducer prevs p ∧ isOverflowInsn p.code = true ∧ flagCompatible c p.code = true)
        → insnLevel fn prevs r j ⟨c, ops⟩ = .ok)
    ∧ ((¬ ∃ p, FlagProducer prevs p ∧ isOverflowInsn p.code = true ∧ flagCompatible c p.code = true)
        → insnLevel fn prevs r j ⟨c, ops⟩ = .err E_invalid_insn) := by
  have key : insnLevel fn prevs r j ⟨c, ops⟩ =
      match overflowProducer prevs with
      | none => .err E_invalid_insn
      | some p => if isOverflowInsn p.code && flagCompatible c p.code then .ok else .err E_invalid_insn := by
    rcases hc with rfl | rfl | rfl | rfl <;>
      exact insnLevel_ob fn prevs r j _ ops (by decide) (by decide) (by decide) (by decide) (by decide) (by decide)
  rw [key]
  constructor
  · rintro ⟨p, hp, h1, h2⟩
    have : overflowProducer prevs = some p := (overflowProducer_spec prevs p).mpr hp
    simp [this, h1, h2]
  · intro hno
    cases hop : overflowProducer prevs with
    | none => rfl
    | some p =>
      have hp := (overflowProducer_spec prevs p).mp hop
      by_cases hgood : (isOverflowInsn p.code && flagCompatible c p.code) = true
      · rw [Bool.and_eq_true] at hgood
        exact absurd ⟨p, hp, hgood.1, hgood.2⟩ hno
      · simp [hgood]

example : let addo : Insn := ⟨C_ADDO, [.reg (.decl .i64), .reg (.decl .i64), .int]⟩
    let mv : Insn := ⟨C_MOV, [.mem .i64 0 (.r (.decl .i64)) .none, .reg (.decl .i64)]⟩
    let mvi : Insn := ⟨C_MOV, [.reg (.decl .i64), .int]⟩
    finishFuncCheck true insnDescs [] ⟨false, []⟩ [addo, mv, ⟨C_BO, [.label]⟩] = .ok
    ∧ finishFuncCheck true insnDescs [] ⟨false, []⟩ [addo, mvi, ⟨C_BO, [.label]⟩] = .err E_invalid_insn
    ∧ finishFuncCheck true insnDescs [] ⟨false, []⟩ [⟨C_UMULO, addo.ops⟩, ⟨C_BNO, [.label]⟩] = .err E_invalid_insn := by
  decide

/-! ## 7. declarations and internal opcodes -/

/-- `undeclared_reg`: an operand naming a register that was never declared is reported as
`undeclared_func_reg` whatever the position expects -/
theorem undeclared_reg (ip : ImplPos) : finishOperandAt ip (.reg .undecl) = .err E_undeclared_func_reg := by
  cases ip; rfl

/-- … also as base or index of a memory operand of an acceptable type -/
theorem undeclared_mem_reg (ip : ImplPos) (t : Ty) (x : MemReg) (ht : scalarTy t = true) :
    finishOperandAt ip (.mem ⟨t, false, .r .undecl, x⟩) = .err E_undeclared_func_reg
    ∧ finishOperandAt ip (.mem ⟨t, false, .none, .r .undecl⟩) = .err E_undeclared_func_reg := by
  obtain ⟨e, out, callp, va⟩ := ip
  have hw : wrongType t = false := by
    have := Ty.forall_of_all wrongType_iff_not_scalar t
    rw [ht] at this
    simpa using this
  have hb : allBlk t = false := by
    rw [allBlk_eq]
    cases t <;> simp_all [scalarTy, blkTy]
  constructor <;>
    simp [finishOperandAt, finishOperandA, OpS.abs, OpS.absWith, selfErr, hw, hb, memRegSelf, RV.seq, RV.v, seq]

/-- `repeated_decl`: declaring a name that is already declared (argument or local) -/
theorem repeated_decl (decls : List (List Char)) (t : Ty) (name : List Char)
    (ht : (regTyOfCode t).isSome = true) (hr : reservedName name = false) (hd : name ∈ decls) :
    declReg decls t name = .err E_repeated_decl := by
  unfold declReg createReg
  cases h : regTyOfCode t with
  | none => simp [h] at ht
  | some rt => simp [hr, hd]

/-- `reserved_name`: `.lc…` and `hr<digits>` cannot be declared -/
theorem reserved_name (decls : List (List Char)) (t : Ty) (rest : List Char)
    (ht : (regTyOfCode t).isSome = true) :
    declReg decls t ('.' :: 'l' :: 'c' :: rest) = .err E_reserved_name
    ∧ (rest.all isDigit = true → declReg decls t ('h' :: 'r' :: rest) = .err E_reserved_name) := by
  unfold declReg createReg
  cases h : regTyOfCode t with
  | none => simp [h] at ht
  | some rt =>
    refine ⟨by simp [reservedName], fun hdig => ?_⟩
    simp [reservedName_hr rest hdig]

/-- registers can only be declared `i64`, `f`, `d`, `ld` -/
theorem reg_type (decls : List (List Char)) (t : Ty) (name : List Char) (ht : regTyOfCode t = none) :
    declReg decls t name = .err E_reg_type := by
  unfold declReg; simp [ht]

/-- a fresh, unreserved name of a register type is accepted -/
theorem fresh_decl (decls : List (List Char)) (t : Ty) (name : List Char)
    (ht : (regTyOfCode t).isSome = true) (hr : reservedName name = false) (hd : name ∉ decls) :
    declReg decls t name = .ok := by
  unfold declReg createReg
  cases h : regTyOfCode t with
  | none => simp [h] at ht
  | some rt => simp [hr, hd]

/-! ### global variables tied to hard registers -/

/-- preconditions under which `create_func_reg` reaches its hard-register table: a register type,
an unreserved fresh name, a known, type-compatible, non-fixed hard register -/
def GlobalOk (ds : List RegD) (t : Ty) (rt : RegTy) (name h : List Char) (i : Nat) : Prop :=
  regTyOfCode t = some rt ∧ reservedName name = false ∧ ds.any (fun d => d.name == name) = false
    ∧ hardRegIndex h = some i ∧ hardRegTypeOk i rt = true ∧ hardRegFixed i = false

theorem declRegD_global (ds : List RegD) (t : Ty) (rt : RegTy) (name h : List Char) (i : Nat)
    (hok : GlobalOk ds t rt name h i) :
    declRegD ds t name (some h) =
      match ds.find? (fun d => d.hard == some h) with
      | some d => if d.ty != rt then ⟨.err E_repeated_decl, 0, ds⟩ else ⟨.ok, d.reg, ds⟩
      | none => ⟨.ok, ds.length + 1, ds ++ [⟨name, rt, ds.length + 1, some h⟩]⟩ := by
  obtain ⟨h1, h2, h3, h4, h5, h6⟩ := hok
  unfold declRegD
  simp only [h1, h2, h3, h4, h5, h6, Bool.false_eq_true, if_false, Bool.not_true, Bool.not_false]
  cases ds.find? (fun d => d.hard == some h) <;> rfl

/-- `global_shared`: a second variable tied to a hard register that a variable `d` of the function is
already tied to — whatever the two variable names are — gets the SAME register number when the types
agree (no new register is created, the table is unchanged), … -/
theorem global_shared (ds : List RegD) (t : Ty) (rt : RegTy) (name h : List Char) (i : Nat) (d : RegD)
    (hok : GlobalOk ds t rt name h i) (hd : ds.find? (fun d => d.hard == some h) = some d)
    (hty : d.ty = rt) :
    declRegD ds t name (some h) = ⟨.ok, d.reg, ds⟩ := by
  rw [declRegD_global ds t rt name h i hok, hd]
  simp [hty]

/-- … and `global_type_conflict`: is a repeated declaration when the types differ -/
theorem global_type_conflict (ds : List RegD) (t : Ty) (rt : RegTy) (name h : List Char) (i : Nat) (d : RegD)
    (hok : GlobalOk ds t rt name h i) (hd : ds.find? (fun d => d.hard == some h) = some d)
    (hty : d.ty ≠ rt) :
    (declRegD ds t name (some h)).v = .err E_repeated_decl := by
  rw [declRegD_global ds t rt name h i hok, hd]
  simp [hty]

/-- `global_fresh`: the first variable tied to a hard register gets the next register number -/
theorem global_fresh (ds : List RegD) (t : Ty) (rt : RegTy) (name h : List Char) (i : Nat)
    (hok : GlobalOk ds t rt name h i) (hd : ds.find? (fun d => d.hard == some h) = none) :
    declRegD ds t name (some h) = ⟨.ok, ds.length + 1, ds ++ [⟨name, rt, ds.length + 1, some h⟩]⟩ := by
  rw [declRegD_global ds t rt name h i hok, hd]

/-- `global_hard_reg_error`: unknown, type-incompatible (long double never fits) or fixed hard register -/
theorem global_hard_reg_error (ds : List RegD) (t : Ty) (rt : RegTy) (name h : List Char)
    (h1 : regTyOfCode t = some rt) (h2 : reservedName name = false)
    (h3 : ds.any (fun d => d.name == name) = false)
    (hbad : match hardRegIndex h with
            | none => True
            | some i => hardRegTypeOk i rt = false ∨ hardRegFixed i = true) :
    (declRegD ds t name (some h)).v = .err E_hard_reg := by
  unfold declRegD
  simp only [h1, h2, h3, Bool.false_eq_true, if_false]
  cases hi : hardRegIndex h with
  | none => rfl
  | some i =>
    rw [hi] at hbad
    simp only
    rcases hbad with hb | hb
    · simp [hb]
    · cases hto : hardRegTypeOk i rt <;> simp [hto, hb]

/-- a local declaration through `declRegD` is `declReg` on the declared names -/
theorem declRegD_local (ds : List RegD) (t : Ty) (name : List Char) :
    (declRegD ds t name none).v = declReg (ds.map (·.name)) t name := by
  unfold declRegD declReg createReg
  cases regTyOfCode t with
  | none => rfl
  | some rt =>
    have : ds.any (fun d => d.name == name) = (ds.map (·.name)).contains name := by
      induction ds with
      | nil => rfl
      | cons d ds ih =>
        simp only [List.any_cons, List.map_cons, List.contains_cons, ih]
        rw [show (d.name == name) = (name == d.name) from BEq.comm]
    simp only [this]
    cases reservedName name <;> cases (ds.map (·.name)).contains name <;> simp

example : let ds : List RegD := (declRegD [] .f "ga".toList (some "xmm12".toList)).ds
    GlobalOk ds .f .f "gb".toList "xmm12".toList 28
    ∧ (declRegD ds .f "gb".toList (some "xmm12".toList)).v = .ok
    ∧ (declRegD ds .f "gb".toList (some "xmm12".toList)).reg = 1
    ∧ (declRegD ds .d "gb".toList (some "xmm12".toList)).v = .err E_repeated_decl
    ∧ (declRegD ds .d "gb".toList (some "xmm15".toList)).reg = 2
    ∧ (declRegD ds .ld "gb".toList (some "st0".toList)).v = .err E_hard_reg
    ∧ (declRegD ds .f "gb".toList (some "xmm8".toList)).v = .err E_hard_reg
    ∧ (declRegD ds .f "gb".toList (some "rax".toList)).v = .err E_hard_reg := by
  refine ⟨⟨by decide, by decide, by decide, by decide, by decide, by decide⟩, ?_⟩
  decide

/-- `use`/`phi` ("used only internally") and `va_start` outside a vararg function are rejected -/
theorem internal_rejected (fn : Func) (prevs : List Insn) (r j : Bool) (ops : List Operand) :
    insnLevel fn prevs r j ⟨C_USE, ops⟩ = .err E_vararg_func
    ∧ insnLevel fn prevs r j ⟨C_PHI, ops⟩ = .err E_vararg_func
    ∧ (fn.vararg = false → insnLevel fn prevs r j ⟨C_VA_START, ops⟩ = .err E_vararg_func) := by
  refine ⟨?_, ?_, ?_⟩
  · unfold insnLevel; simp
  · unfold insnLevel; simp
  · intro h
    have h1 : (C_VA_START == C_PHI || C_VA_START == C_USE) = false := by decide
    unfold insnLevel; simp [h1, h]

example : declReg ["x".toList] .i64 "x".toList = .err E_repeated_decl
    ∧ declReg [] .i64 "hr12".toList = .err E_reserved_name
    ∧ declReg [] .u8 "y".toList = .err E_reg_type
    ∧ declReg ["x".toList] .f "y".toList = .ok := by decide

/-! ## 8. the generated table is what the C code assumes -/

/-- `check_and_prepare_insn_descs`: row `i` describes opcode `i`, one row per opcode -/
theorem descs_indexed :
    insnDescs.length = C_INSN_BOUND ∧ insnDescs.map (·.1) = List.range C_INSN_BOUND := by
  decide +kernel

end MirVerif.Check
