/-! Property theorems for C05 (none yet). -/
