import MirVerif.Lemmas.AbiX64Run
import MirVerif.Lemmas.AbiX64Spec
import MirVerif.Lemmas.AbiX64Cache
/-!
# Property C05 — calls from MIR code to native functions follow the x86-64 System V ABI

All statements quantify over **every argument list** (any length, any mix of the MIR argument
vocabulary) and are proved by induction over the list with the allocation counters as invariant
(`Lemmas.run_sim`, relation `Rel`: the psABI state is the code state with counters saturated at the
register-file sizes, stack offsets equal and multiples of 8).

Models (`Model/AbiX64.lean`): `sysvPlace` = psABI specification; `ffPlace cfg` = `_MIR_get_ff_call`
(interpreter FFI); `genPlace cfg` = `machinize_call` (generated code).  `Cfg.current` transcribes the
pinned tree, `Cfg.fixed` the tree with the candidate repairs in `/verif/fixes/C05-*.patch`; the check
detects from pinned witnesses which one the tree under test implements.

Status of the full statements on the pinned tree (`Cfg.current`):
* `∀ args, ffPlace .current args = sysvPlace args`  — **false** (`ff_meets_sysv_false_ld`,
  `ff_meets_sysv_false_blk`): long double after an odd number of stack words; blk1/blk3/blk4 skew the
  xmm counter.  Proved: `ff_meets_sysv_partial` (explicit hypotheses) and `ff_meets_sysv_fixed`.
* `∀ args, genPlace .current args = sysvPlace args` — **false** (`gen_meets_sysv_false`): long double.
  Proved: `gen_meets_sysv_partial`, `gen_meets_sysv_fixed`.
* `∀ args, ffPlace .current args = genPlace .current args` — **false** (`ff_eq_gen_false`).
  Proved: `ff_eq_gen_partial`, `ff_eq_gen_fixed`.
* `∀ args, alOk (genAl .current args) args` — **false** (`gen_al_false`): `%al` ignores blk2/3/4.
  Proved: `gen_al_partial`, `gen_al_fixed`.
-/
namespace MirVerif.AbiX64

-- hypotheses `WellSizedArgs`, `NoBlk134`, `NoBlk234`, `LdAligned` and the list-level simulation
-- lemmas `ff_run`, `gen_run`, `ref_run`, `placement_of_rel` are in `Lemmas/AbiX64Run.lean`

/-! ## argument placement: interpreter FFI (`_MIR_get_ff_call`) -/

/-- **ff_meets_sysv** for the repaired trampoline: every argument's location, the stack size and
the sse-register count agree with the psABI, for every argument list. -/
theorem ff_meets_sysv_fixed (cfg : Cfg) (hl : cfg.ldAlignFF = true) (hb : cfg.ffBlkXmm = true)
    (args : List ArgTy) (hws : WellSizedArgs args) : ffPlace cfg args = sysvPlace args := by
  obtain ⟨h1, h2⟩ := ff_run cfg args hws (Or.inl hb)
  rw [hl] at h1 h2
  exact (placement_of_rel h1 h2).1

/-- **ff_meets_sysv_partial**, the pinned tree: holds when every `long double` stack offset is
already 16-aligned and no blk1/blk3/blk4 argument occurs. -/
theorem ff_meets_sysv_partial (args : List ArgTy) (hws : WellSizedArgs args) (hnb : NoBlk134 args)
    (hld : LdAligned args) : ffPlace Cfg.current args = sysvPlace args := by
  obtain ⟨h1, h2⟩ := ff_run Cfg.current args hws (Or.inr hnb)
  obtain ⟨r1, r2⟩ := ref_run args hld
  have h1' : (run (ffStep Cfg.current) St.init args).2 = (run sysvStep St.init args).2 := h1.trans r1
  have h2' : Rel (run (ffStep Cfg.current) St.init args).1 (run sysvStep St.init args).1 := by
    rw [← r2]; exact h2
  exact (placement_of_rel h1' h2').1

/-- the full statement is false on the pinned tree: `i64 ×7, ld` (DESIGN §6 #11) -/
theorem ff_meets_sysv_false_ld :
    ffPlace Cfg.current [.i64, .i64, .i64, .i64, .i64, .i64, .i64, .ld]
      ≠ sysvPlace [.i64, .i64, .i64, .i64, .i64, .i64, .i64, .ld] := by decide

/-- the full statement is false on the pinned tree: `struct{long}` then `double` -/
theorem ff_meets_sysv_false_blk :
    ffPlace Cfg.current [.blk .b1 8, .d] ≠ sysvPlace [.blk .b1 8, .d] := by decide

/-! ## argument placement: generated code (`machinize_call`) -/

/-- **gen_meets_sysv** for the repaired generator -/
theorem gen_meets_sysv_fixed (cfg : Cfg) (hl : cfg.ldAlignGen = true)
    (args : List ArgTy) (hws : WellSizedArgs args) : genPlace cfg args = sysvPlace args := by
  obtain ⟨h1, h2⟩ := gen_run cfg args hws
  rw [hl] at h1 h2
  exact (placement_of_rel h1 h2).2

/-- **gen_meets_sysv_partial**, the pinned tree: holds when every `long double` stack offset is
already 16-aligned. -/
theorem gen_meets_sysv_partial (args : List ArgTy) (hws : WellSizedArgs args) (hld : LdAligned args) :
    genPlace Cfg.current args = sysvPlace args := by
  obtain ⟨h1, h2⟩ := gen_run Cfg.current args hws
  obtain ⟨r1, r2⟩ := ref_run args hld
  have h1' : (run (genStep Cfg.current) St.init args).2 = (run sysvStep St.init args).2 := h1.trans r1
  have h2' : Rel (run (genStep Cfg.current) St.init args).1 (run sysvStep St.init args).1 := by
    rw [← r2]; exact h2
  exact (placement_of_rel h1' h2').2

theorem gen_meets_sysv_false :
    genPlace Cfg.current [.i64, .i64, .i64, .i64, .i64, .i64, .i64, .ld]
      ≠ sysvPlace [.i64, .i64, .i64, .i64, .i64, .i64, .i64, .ld] := by decide

/-! ## the two engines agree with each other -/

/-- **ff_eq_gen** for the repaired tree -/
theorem ff_eq_gen_fixed (args : List ArgTy) (hws : WellSizedArgs args) :
    ffPlace Cfg.fixed args = genPlace Cfg.fixed args := by
  rw [ff_meets_sysv_fixed Cfg.fixed rfl rfl args hws, gen_meets_sysv_fixed Cfg.fixed rfl args hws]

/-- **ff_eq_gen_partial**, the pinned tree: the interpreter and generated code place every argument
identically when no blk1/blk3/blk4 occurs — *including* the misaligned `long double`s. -/
theorem ff_eq_gen_partial (args : List ArgTy) (hws : WellSizedArgs args) (hnb : NoBlk134 args) :
    ffPlace Cfg.current args = genPlace Cfg.current args := by
  obtain ⟨h1, h2⟩ := ff_run Cfg.current args hws (Or.inr hnb)
  obtain ⟨g1, g2⟩ := gen_run Cfg.current args hws
  have e1 := (placement_of_rel h1 h2).1
  have e2 := (placement_of_rel g1 g2).2
  exact e1.trans e2.symm

theorem ff_eq_gen_false :
    ffPlace Cfg.current [.blk .b1 8, .d] ≠ genPlace Cfg.current [.blk .b1 8, .d] := by decide

/-! ## the specification is well formed -/

/-- every location the psABI specification hands out is one of rdi,rsi,rdx,rcx,r8,r9 / xmm0-7, or an
8-aligned slot that lies inside the outgoing argument area (so the equalities above also bound what
the code models may touch) -/
theorem sysv_wellformed (args : List ArgTy) :
    ∀ ls ∈ (sysvPlace args).locs, ∀ l ∈ ls, l.Valid (sysvPlace args).stackBytes := by
  obtain ⟨_, _, h3⟩ := sysv_run_valid args St.init ⟨by decide, by decide, by decide⟩
  intro ls hls l hl
  have := h3 ls hls l hl
  refine this.mono ?_
  simp only [sysvPlace, finish, St.norm, roundUp]; omega

/-! ## stack size and alignment at the call -/

/-- the outgoing argument area of the psABI placement is a multiple of 16 -/
theorem sysv_stack_aligned (args : List ArgTy) : (sysvPlace args).stackBytes % 16 = 0 := by
  simp only [sysvPlace, finish, roundUp]; omega

/-- trampoline: entered with rsp ≡ 8 (mod 16); after `push r12; push rbx; sub ffFrame, rsp` the
stack pointer at the `call` is 16-byte aligned -/
theorem ff_call_aligned (sp entry : Nat) (h : entry % 16 = 8) (hbig : ffFrame sp + 16 ≤ entry) :
    (entry - 16 - ffFrame sp) % 16 = 0 := by
  simp only [ffFrame] at *; omega

/-- generated code: the frame keeps rsp 16-aligned (C06 `frame_aligned`); the call site subtracts
`genPlace.stackBytes`, a multiple of 16 -/
theorem gen_call_aligned (cfg : Cfg) (args : List ArgTy) : (genPlace cfg args).stackBytes % 16 = 0 := by
  simp only [genPlace]; omega

/-! ## `%al` for variadic callees -/

/-- the trampoline's constant `%al = 8` is always admissible -/
theorem ff_al_ok (args : List ArgTy) : alOk ffAl args := by
  simp only [alOk, ffAl, sysvPlace, finish, St.norm]; omega

/-- repaired generator: `%al` = sse registers used -/
theorem gen_al_fixed (args : List ArgTy) (hws : WellSizedArgs args) : alOk (genAl Cfg.fixed args) args := by
  obtain ⟨_, h2⟩ := gen_run Cfg.fixed args hws
  obtain ⟨hs, _⟩ := h2
  have hs' : (run sysvStep St.init args).1 = (run (genStep Cfg.fixed) St.init args).1.norm := hs
  simp only [alOk, genAl, Cfg.fixed, sysvPlace, finish, hs', St.norm]
  simp only [if_true]; omega

/-- **gen_al_partial**, the pinned tree: `%al` is admissible when no blk2/blk3/blk4 argument occurs -/
theorem gen_al_partial (args : List ArgTy) (hws : WellSizedArgs args) (hnb : NoBlk234 args) :
    alOk (genAl Cfg.current args) args := by
  obtain ⟨_, h2⟩ := gen_run Cfg.fixed args hws
  obtain ⟨hs, _⟩ := h2
  have hs' : (run sysvStep St.init args).1 = (run (genStep Cfg.fixed) St.init args).1.norm := hs
  have hc : (run (genStep Cfg.fixed) St.init args).1.nx = 0 + args.countP isFD :=
    gen_run_nx Cfg.fixed args St.init hnb
  have hx : (sysvPlace args).xmmUsed = min (min (args.countP isFD) 8) 8 := by
    simp only [sysvPlace, finish, hs', St.norm, hc, Nat.zero_add]
  have ha : genAl Cfg.current args = min (args.countP isFD) 8 := by simp [genAl, Cfg.current]
  simp only [alOk, hx, ha]; omega

theorem gen_al_false : ¬ alOk (genAl Cfg.current [.i64, .blk .b2 8]) [.i64, .blk .b2 8] := by decide

/-! ## results -/

/-- whenever the multi-result convention defines a placement (at most two results per class),
the trampoline stores exactly those registers -/
theorem ffRes_meets_sysv (rs : List ResTy) (l : List RLoc) (h : sysvRes rs = some l) : ffRes rs = some l :=
  res_aux ffResStep ffResStep_ok rs [] l h

/-- … and so does generated code -/
theorem genRes_meets_sysv (rs : List ResTy) (l : List RLoc) (h : sysvRes rs = some l) : genRes rs = some l :=
  res_aux genResStep genResStep_ok rs [] l h

theorem ffRes_eq_genRes (rs : List ResTy) (l : List RLoc) (h : sysvRes rs = some l) : ffRes rs = genRes rs := by
  rw [ffRes_meets_sysv rs l h, genRes_meets_sysv rs l h]

/-! ## the interpreter's trampoline cache: one trampoline per signature, whatever was called before -/

/-- **cache key**: `ff_interface_eq` accepts two signatures exactly when they are the same signature
(result types at *every* position, every argument type, every block size, the number of named
parameters) — the key is injective on signatures. -/
theorem ffKeyEq_iff (s1 s2 : Sig) : ffKeyEq s1 s2 = true ↔ s1 = s2 := by
  obtain ⟨r1, a1, n1⟩ := s1
  obtain ⟨r2, a2, n2⟩ := s2
  simp only [ffKeyEq, Bool.and_eq_true, beq_iff_eq, argsKeyEq_iff, Sig.mk.injEq]
  constructor
  · rintro ⟨⟨⟨⟨_, _⟩, hn⟩, hr⟩, ha⟩
    exact ⟨map_resCode_inj hr, ha, hn⟩
  · rintro ⟨rfl, rfl, rfl⟩
    exact ⟨⟨⟨⟨rfl, rfl⟩, rfl⟩, rfl⟩, rfl⟩

/-- whatever calls were executed before in the context, the trampoline the cache hands out for a
call is the one of the call's own signature -/
theorem cacheLookup_own (hist : List Sig) (s : Sig) : cacheLookup ffKeyEq hist s = s := by
  induction hist with
  | nil => rfl
  | cons t ts ih =>
    simp only [cacheLookup]
    split
    · rename_i h; exact (ffKeyEq_iff t s).mp h
    · exact ih

/-- hence argument and result placement of a call do not depend on the call history -/
theorem ff_cache_sound (cfg : Cfg) (hist : List Sig) (s : Sig) :
    ffPlace cfg (cacheLookup ffKeyEq hist s).args = ffPlace cfg s.args ∧
    ffRes (cacheLookup ffKeyEq hist s).res = ffRes s.res := by
  rw [cacheLookup_own]; exact ⟨rfl, rfl⟩

/-! ## narrowing of integer parameters and results -/

/-- two's-complement value of a 64-bit register image -/
def toInt64 (x : Nat) : Int := if x < 2 ^ 63 then (x : Int) else (x : Int) - 2 ^ 64

/-- two's-complement value of the low `w` bits of `v` -/
def sval (w v : Nat) : Int :=
  if v % 2 ^ w < 2 ^ (w - 1) then ((v % 2 ^ w : Nat) : Int) else ((v % 2 ^ w : Nat) : Int) - 2 ^ w

/-- **narrowing**: the receiver of a value passed as type `t` (callee for parameters, MIR code for
results) sees a 64-bit register that is `ext_t` of the low bits: for signed `t` its two's-complement
value is the value of the low bits, for unsigned `t` it *is* the low bits, full-width types pass
unchanged; the image always fits the register. -/
theorem narrowing (t : ResTy) (v : Nat) :
    passInt t v < 2 ^ 64 ∧
    match narrowInfo t with
    | some (w, true) => toInt64 (passInt t v) = sval w v
    | some (w, false) => passInt t v = v % 2 ^ w
    | none => passInt t v = v % 2 ^ 64 := by
  cases t <;> simp [passInt, narrowInfo, extCode, toInt64, sval] <;> (try split) <;> omega

/-- passing is idempotent (an already extended value is unchanged), so the interpreter's C casts
and the generator's `ext` instructions may be applied once or twice without difference -/
theorem narrowing_idem (t : ResTy) (v : Nat) : passInt t (passInt t v) = passInt t v := by
  cases t <;> simp [passInt, narrowInfo, extCode] <;> (try split) <;> (try split) <;> omega

/-! ## non-vacuity: the hypotheses are satisfiable by non-trivial states -/

/-- a 9-argument list using both register files, the stack, a block in registers, an aligned
`long double` -/
example : WellSizedArgs [.i64, .i8, .p, .u32, .i64, .i64, .d, .i64, .i64, .ld, .blk .b2 16, .blk .b0 24] ∧
    NoBlk134 [.i64, .i8, .p, .u32, .i64, .i64, .d, .i64, .i64, .ld, .blk .b2 16, .blk .b0 24] ∧
    LdAligned [.i64, .i8, .p, .u32, .i64, .i64, .d, .i64, .i64, .ld, .blk .b2 16, .blk .b0 24] := by decide

example : (sysvPlace [.i64, .i8, .p, .u32, .i64, .i64, .d, .i64, .i64, .ld, .blk .b2 16, .blk .b0 24]).stackBytes = 64 := by
  decide

/-- with blocks of the mixed kinds (only the repaired trampoline / the generator) -/
example : WellSizedArgs [.blk .b3 16, .f, .blk .b4 12, .blk .b1 3, .i64, .i64, .i64, .i64, .i64, .blk .b1 16, .ld] ∧
    LdAligned [.blk .b3 16, .f, .blk .b4 12, .blk .b1 3, .i64, .i64, .i64, .i64, .i64, .blk .b1 16, .ld] := by decide

example : NoBlk234 [.i64, .d, .f, .blk .b1 8, .d, .d, .d, .d, .d, .d, .d, .d] ∧
    genAl Cfg.current [.i64, .d, .f, .blk .b1 8, .d, .d, .d, .d, .d, .d, .d, .d] = 8 := by decide

example : sysvRes [.i32, .d, .ld, .u8, .f, .ld] = some [.gpr 0, .xmm 0, .st 0, .gpr 1, .xmm 1, .st 1] := by decide
example : sysvRes [.d, .d, .d] = none := by decide

example : passInt .i8 0x1234567890abcd80 = 0xffffffffffffff80 ∧ passInt .u16 0xffffffffffff8001 = 0x8001 := by
  decide

/-- related signatures differing in one later result, one block size, or only the split between named
and variadic arguments are told apart by the key -/
example : ffKeyEq ⟨[.i64, .i64], [.i32], 1⟩ ⟨[.i64, .d], [.i32], 1⟩ = false ∧
    ffKeyEq ⟨[], [.blk .b1 9], 1⟩ ⟨[], [.blk .b1 12], 1⟩ = false ∧
    ffKeyEq ⟨[.d], [.i64, .d], 2⟩ ⟨[.d], [.i64, .d], 1⟩ = false ∧
    cacheLookup ffKeyEq [⟨[.i64, .i64], [.i32], 1⟩, ⟨[.i64, .d], [.i32], 1⟩] ⟨[.i64, .d], [.i32], 1⟩
      = ⟨[.i64, .d], [.i32], 1⟩ := by decide

example : ∃ sp entry, entry % 16 = 8 ∧ ffFrame sp + 16 ≤ entry := ⟨24, 1000, by decide, by decide⟩

end MirVerif.AbiX64
