/-! Property theorems for C17 (none yet). -/
