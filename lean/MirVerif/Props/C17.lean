/-
C17 — All memory goes through the user's allocators and is released at finish.

Property theorems only.  Models: Model/Alloc.lean (ledger = executable statement of the allocator
contract, run natively by `mirdrv_c17` over the event trace of the real library),
Model/VarrAlloc.lean (mir-varr.h), Model/AllocCode.lean (mir.c code holders); the inventory
`Gen/C17_Sites.lean` is regenerated from the C sources on every run.

What is proved (for every lawful live-map `M`, every page size, address, length, history):
  * `varr_trace_ok`           every admissible history of VARR operations on any number of arrays,
                              interleaved with other allocator traffic, is accepted by the ledger;
  * `accepted_realloc_reports_true_size`   acceptance of a trace *means* every `realloc` reported
                              the block's current size; together with
  * `realloc_sites_in_varr`   (inventory) `MIR_realloc` is called from mir-varr.h expand/tailor only,
                              this is the realloc contract for every API history;
  * `protect_bracket`, `change_code_range`, `update_code_range`, `code_trace_ok`,
    `code_finish_unmaps`      code memory is written only inside a W…X window that covers the
                              written bytes, lies in the mapped holder and is closed again; every
                              holder is unmapped by `code_finish`;
  * `code_sites_in_code_page` (inventory) mem_map / mem_unmap / mem_protect have exactly those callers;
  * `raw_alloc_free`          (inventory) no direct libc allocator use anywhere in the library sources.
What is NOT proved: that the rest of the library (everything that is not VARR / code holders) frees
what it allocates — that is monitored on generated API histories by checks/c17.py, not proved.
-/
import MirVerif.Lemmas.AllocVarr
import MirVerif.Lemmas.AllocCode
import MirVerif.Gen.C17_Sites

namespace MirVerif.Props.C17
open MirVerif.Alloc MirVerif.VarrAlloc MirVerif.AllocCode

variable {M : Type} [LiveMap M]

/-! ## 1. what acceptance by the ledger means -/

/-- An accepted trace reports the true size at every `realloc`: wherever `realloc ptr old new ret`
(ptr ≠ NULL) occurs in a trace the ledger accepts, the block `ptr` is live with size `old` in the
ledger state reached by the events before it. -/
theorem accepted_realloc_reports_true_size {L L' : Ledger M} {pre post : List Ev} {ptr old new ret : Nat}
    (h : run L (pre ++ Ev.realloc ptr old new ret :: post) = .ok L') (hp : ptr ≠ 0) :
    ∃ Lm, run L pre = .ok Lm ∧ LiveMap.get? Lm.live ptr = some old := by
  rw [run_append] at h
  cases hpre : run L pre with
  | error v => simp [hpre] at h
  | ok Lm =>
    simp only [hpre, run] at h
    cases hs : step Lm (Ev.realloc ptr old new ret) with
    | error v => simp [hs] at h
    | ok L2 => exact ⟨Lm, rfl, step_realloc_ok hs hp⟩

example : verdict (run (Ledger.init 4096 : Ledger AList)
    [Ev.malloc 16 1000, Ev.realloc 1000 16 32 2000, Ev.free 2000]) = none := by decide

/-- An accepted `free` names a live block (no double free, no foreign pointer); NULL is a no-op. -/
theorem accepted_free_is_live [LawfulLiveMap M] {L L' : Ledger M} {ptr : Nat} (h : step L (.free ptr) = .ok L')
    (hp : ptr ≠ 0) : (∃ sz, LiveMap.get? L.live ptr = some sz) ∧ LiveMap.get? L'.live ptr = none := by
  simp only [step, hp, ↓reduceIte] at h
  cases hg : LiveMap.get? L.live ptr with
  | none => simp [hg] at h
  | some sz =>
    simp only [hg, Except.ok.injEq] at h
    refine ⟨⟨sz, rfl⟩, ?_⟩
    rw [← h]
    simp [LawfulLiveMap.get?_erase]

example : verdict (step (Ledger.init 4096 : Ledger AList) (.free 1000)) = some (.freeNotLive 1000) := by decide

/-- An accepted write touches only write-enabled pages: every byte of `[ptr, ptr+len)` is on a page
for which write access was requested and execute access not yet requested again. -/
theorem accepted_write_in_window {L L' : Ledger M} {ptr len b : Nat}
    (h : step L (.write ptr len) = .ok L') (h1 : ptr ≤ b) (h2 : b < ptr + len) : b / L.ps ∈ L.wr := by
  simp only [step] at h
  split at h
  · rename_i hall
    rw [List.all_eq_true] at hall
    have : b / L.ps ∈ pagesOf L.ps ptr len := by
      rw [mem_pagesOf]
      exact ⟨by omega, Nat.div_le_div_right h1, Nat.div_le_div_right (by omega)⟩
    simpa using hall _ this
  · simp at h

example : verdict (step ({ (Ledger.init 4096 : Ledger AList) with maps := [(8192, 4096)] }) (.write 8200 4))
    = some (.writeOutsideWindow 8200 4) := by decide

/-- Accepting `fin` means: no block live, no region mapped, no write window open. -/
theorem accepted_fin_all_returned [LawfulLiveMap M] {L L' : Ledger M} (h : step L .fin = .ok L') :
    (∀ a, LiveMap.get? L.live a = none) ∧ L.maps = [] ∧ L.wr = [] := by
  cases hw : L.wr with
  | cons p ps => simp [step, hw] at h
  | nil =>
    cases hm : L.maps with
    | cons r rs => simp [step, hw, hm] at h
    | nil =>
      cases he : LiveMap.isEmpty L.live with
      | false => simp [step, hw, hm, he] at h
      | true => exact ⟨(LawfulLiveMap.isEmpty_iff L.live).mp he, rfl, rfl⟩

example : accepts (M := AList) 4096 [.malloc 8 1000, .map 4096 8192, .protect 8192 4096 .writeExec,
    .write 8200 16, .protect 8192 4096 .readExec, .quiesce, .free 1000, .unmap 8192 4096] = true := by decide
example : accepts (M := AList) 4096 [.malloc 8 1000] = false := by decide

/-- The native monitor (`mirdrv_c17 ledger`, which updates its hash map in place) reports exactly the
verdicts of `step`: an accepted event gives `step`'s ledger, a rejected one `step`'s violation. -/
theorem monitor_reports_step_verdicts [LawfulLiveMap M] (L : Ledger M) (e : Ev) :
    stepLenient L e = match step L e with
      | .ok L' => (L', none)
      | .error v => (recover L e, some v) :=
  stepLenient_spec L e

example : (stepLenient (Ledger.init 4096 : Ledger AList) (.free 7)).2 = some (.freeNotLive 7) := by decide

/-! ## 2. mir-varr.h -/

/-- **varr_trace_ok.**  Start from any ledger `L` and system `S` of arrays satisfying the
invariant (`ledger[va.varr] = sizeof (T) * va.size`, `ledger[va] = sizeof (VARR (T))`, arrays
pairwise disjoint) — in particular from the empty ledger.  Every history of
create / expand / tailor / push / push_arr / pop / trunc / destroy on any arrays, interleaved with
arbitrary other malloc/free traffic, in which the allocator answers admissibly (non-NULL, not a live
block; realloc may return the old address) and the `VARR_ASSERT` preconditions hold, produces an
event trace the ledger accepts, and the invariant holds again afterwards. -/
theorem varr_trace_ok [LawfulLiveMap M] {L : Ledger M} {S : Sys} (ops : List SysOp) (hs : SysOk L S)
    (hv : SysValid L S ops) :
    ∃ L', run L (sysTrace S ops) = .ok L' ∧ SysOk L' (sysFinal S ops) :=
  sys_trace_ok ops hs hv

/-- the invariant holds in the initial state (no arrays, empty ledger) -/
theorem varr_init_ok (ps : Nat) : SysOk (Ledger.init ps : Ledger M) [] :=
  ⟨fun _ _ h => by simp [List.lookup] at h, fun _ _ _ _ _ h => by simp [List.lookup] at h⟩

/-- in particular: every `realloc` issued by a VARR history reports the block's current size -/
theorem varr_realloc_old_size [LawfulLiveMap M] {L : Ledger M} {S : Sys} (ops : List SysOp) (hs : SysOk L S)
    (hv : SysValid L S ops) {pre post : List Ev} {ptr old new ret : Nat}
    (he : sysTrace S ops = pre ++ Ev.realloc ptr old new ret :: post) (hp : ptr ≠ 0) :
    ∃ Lm, run L pre = .ok Lm ∧ LiveMap.get? Lm.live ptr = some old := by
  obtain ⟨L', r, _⟩ := varr_trace_ok ops hs hv
  rw [he] at r
  exact accepted_realloc_reports_true_size r hp

/-- `VARR_DESTROY` returns both blocks of the array and touches nothing else -/
theorem varr_destroy_releases [LawfulLiveMap M] {L : Ledger M} {va : Varr} (hv : VarrOk L va) :
    ∃ L', run L (destroy va) = .ok L' ∧ lget L' va.hdr = none ∧ lget L' va.data = none
      ∧ ∀ a, a ≠ va.data → a ≠ va.hdr → lget L' a = lget L a := by
  obtain ⟨L', r, h1, h2, fr⟩ := destroy_ok hv
  exact ⟨L', r, h1, h2, fr.same⟩

/-- non-vacuity: a concrete history (growth by realloc to a new address, realloc in place by
tailor, a second array, foreign traffic, destroy) is admissible from the empty ledger; its trace
has 9 events, 2 of them reallocs, and leaves nothing live -/
def demoOps : List SysOp :=
  [.create 1 8 2 1000 2000, .op 1 (.push 2000), .op 1 (.push 2000), .op 1 (.push 3000),
   .otherMalloc 80 5000, .create 2 1 0 6000 7000, .op 1 (.tailor 3 3000), .op 1 .pop,
   .op 2 (.pushArr 100 7500), .otherFree 5000, .destroy 1, .destroy 2]

example : sysTrace [] demoOps =
    [.malloc 32 1000, .malloc 16 2000, .realloc 2000 16 32 3000, .malloc 80 5000, .malloc 32 6000,
     .malloc 64 7000, .realloc 3000 32 24 3000, .realloc 7000 64 150 7500, .free 5000,
     .free 3000, .free 1000, .free 7500, .free 6000] := by decide

example : SysValid (Ledger.init 4096 : Ledger AList) [] demoOps := sysValidB_sound (by decide)

example : accepts (M := AList) 4096 (sysTrace [] demoOps) = true := by decide

/-- the mutant "expand reports the NEW size" is rejected by the ledger (the monitor is not vacuous) -/
example : verdict (run (Ledger.init 4096 : Ledger AList) [.malloc 32 1000, .malloc 16 2000, .realloc 2000 32 32 3000])
    = some (.reallocOldSize 2000 32 16) := by decide

/-! ## 3. code pages -/

/-- **protect_bracket.**  `_MIR_set_code (prot_start, prot_len, writes)`: if the range is page
aligned, lies inside a mapped page-aligned region and covers the written bytes, then the W request,
all writes and the X request are accepted — i.e. every written byte lies on a page between *its own*
write request and the following execute request — and afterwards no window is open and blocks and
regions are untouched. -/
theorem protect_bracket {L : Ledger M} {s l start len : Nat} (writes : List (Nat × Nat))
    (hps : 0 < L.ps) (hwr : L.wr = [])
    (hr : (s, l) ∈ L.maps) (hs : s % L.ps = 0) (hl : l % L.ps = 0)
    (ha : start % L.ps = 0) (h1 : s ≤ start) (h2 : start + len ≤ s + l)
    (hw : ∀ x ∈ writes, start ≤ x.1 ∧ x.1 + x.2 ≤ start + len) :
    ∃ L', run L (setCode start len writes) = .ok L'
      ∧ L'.wr = [] ∧ L'.maps = L.maps ∧ L'.live = L.live := by
  obtain ⟨L', r, s⟩ := setCode_ok writes hps hwr hr hs hl ha h1 h2 hw
  exact ⟨L', r, s.wr, s.maps, s.live⟩

/-- the shape of what `_MIR_set_code` emits: W first, X last, only writes in between -/
theorem set_code_shape (start len : Nat) (writes : List (Nat × Nat)) :
    setCode start len writes = Ev.protect start len .writeExec ::
      (writes.map (fun x => Ev.write x.1 x.2) ++ [Ev.protect start len .readExec]) := rfl

/-- `_MIR_change_code`'s range arithmetic, all page sizes, addresses and lengths: the start is page
aligned, not above `addr`, and the range ends exactly at `addr + code_len`. -/
theorem change_code_range (ps addr codeLen : Nat) :
    (changeRange ps addr codeLen).1 % ps = 0 ∧ (changeRange ps addr codeLen).1 ≤ addr
      ∧ addr + codeLen = (changeRange ps addr codeLen).1 + (changeRange ps addr codeLen).2 :=
  changeRange_covers ps addr codeLen

/-- `_MIR_update_code_arr`'s range: aligned, and every pointer-sized store `base + off_i` is inside. -/
theorem update_code_range (ps base : Nat) (offs : List Nat) :
    (updateRange ps base offs).1 % ps = 0 ∧
    ∀ o ∈ offs, (updateRange ps base offs).1 ≤ base + o
      ∧ base + o + ptrSize ≤ (updateRange ps base offs).1 + (updateRange ps base offs).2 := by
  obtain ⟨h1, _, _, h4⟩ := updateRange_covers ps base offs
  exact ⟨h1, h4⟩

/- `code_len = 0` is outside the contract of `_MIR_change_code`/`add_code`: `_MIR_set_code` reads
`reloc_size == 0` as "pointer-sized relocations" and stores 8 bytes although the protected range is
empty.  No caller in the library passes 0 (all lengths are positive constants or generated-code
sizes); the theorems below therefore assume `0 < codeLen`. -/
example : changeCode 4096 8192 0 = [.protect 8192 0 .writeExec, .write 8192 8, .protect 8192 0 .readExec] := by
  decide
example : verdict (run ({ (Ledger.init 4096 : Ledger AList) with maps := [(8192, 4096)] })
    (changeCode 4096 8192 0)) = some (.writeOutsideWindow 8192 8) := by decide

example : changeRange 4096 12345 10 = (12288, 67) := by decide
example : updateRange 4096 12345 [3, 100, 7] = (12288, 165) := by decide

/-- **code_trace_ok.**  Every history of publish / publish_by_addr / get_new_code_addr /
change_code / update_code in which `mem_map` answers admissibly and patched code lies inside a holder
is accepted by the ledger (no write outside a window, every window closed, every protect request
aligned and inside a mapped region); general-purpose blocks are not touched. -/
theorem code_trace_ok {L : Ledger M} {C : CodeCtx} (ops : List CodeOp) (h : CodeOk L C)
    (hv : CodeHistValid L C ops) :
    ∃ L', run L (codeTrace C ops) = .ok L' ∧ CodeOk L' (codeFinal C ops) ∧ L'.live = L.live :=
  code_hist_ok ops h hv

/-- `code_init` state satisfies the invariant -/
theorem code_init_ok (ps : Nat) (h : 0 < ps) (h16 : ps % 16 = 0) :
    CodeOk (Ledger.init ps : Ledger M) { ps := ps, holders := [] } :=
  ⟨h, h16, rfl, rfl, rfl, fun _ hx => by simp at hx⟩

/-- **code_finish_unmaps.**  `code_finish` returns every mapped region. -/
theorem code_finish_unmaps {L : Ledger M} {C : CodeCtx} (h : CodeOk L C) :
    ∃ L', run L (codeFinish C) = .ok L' ∧ L'.maps = [] ∧ L'.wr = [] ∧ L'.live = L.live :=
  codeFinish_ok h

def demoCode : List CodeOp :=
  [.publish 100 8192, .publish 5000 16384, .change 16400 5, .update 16384 [8, 64, 16],
   .getNewAddr 10 0x100000, .publishByAddr 21392 10 0x100000, .publish 9000 0x200000]

example : CodeHistValid (Ledger.init 4096 : Ledger AList) { ps := 4096, holders := [] } demoCode :=
  codeHistValidB_sound (by decide)

example : accepts (M := AList) 4096
    (codeTrace { ps := 4096, holders := [] } demoCode
      ++ codeFinish (codeFinal { ps := 4096, holders := [] } demoCode)) = true := by decide

/-- the mutant "`_MIR_set_code` forgets the final PROT_READ_EXEC" is rejected at the next API boundary -/
example : verdict (run ({ (Ledger.init 4096 : Ledger AList) with maps := [(8192, 4096)] })
    [.protect 8192 4096 .writeExec, .write 8200 8, .quiesce]) = some (.windowLeftOpen 2) := by decide

/-! ## 4. inventory obligations (regenerated from the C sources on every run) -/

open MirVerif.Gen.C17 in
/-- `MIR_realloc` is called from `VARR_EXPAND` and `VARR_TAILOR` and nowhere else in the library. -/
theorem realloc_sites_in_varr :
    ∀ s ∈ reallocSites, s.file = "mir-varr.h" ∧ (s.func = "DEF_VARR:expand" ∨ s.func = "DEF_VARR:tailor") := by
  decide

open MirVerif.Gen.C17 in
/-- the code allocator has exactly the callers modelled in Model/AllocCode.lean -/
theorem code_sites_in_code_page :
    (∀ s ∈ memMapSites, s.file = "mir.c" ∧ s.func = "get_last_code_holder")
    ∧ (∀ s ∈ memUnmapSites, s.file = "mir.c" ∧ s.func = "code_finish")
    ∧ (∀ s ∈ memProtectSites, s.file = "mir.c" ∧ s.func = "_MIR_set_code") := by
  decide

example : MirVerif.Gen.C17.reallocSites.length = 2 ∧ MirVerif.Gen.C17.memProtectSites.length = 2
    ∧ 30 ≤ MirVerif.Gen.C17.nMallocSites ∧ 50 ≤ MirVerif.Gen.C17.nFreeSites := by decide

/-- **raw_alloc_free.**  The library sources (include closure of mir.c, mir-gen.c, c2mir/c2mir.c) contain
no direct `malloc/calloc/realloc/free/mmap/munmap/mprotect/…` (call or reference) outside the two
`*-default.c` files.  No site is tolerated: the 12 sites of c2mir.c that made this false (DESIGN §6
#14) were repaired in /repo (3a621bf7) and are replayed from `corpus/C17/c2m-raw-alloc.json`; a new raw
site breaks this theorem and is reported by checks/c17.py as `C17:raw-<callee>:<file>:<function>`
(inventory) and, when executed, by the libc interposition of the harness. -/
theorem raw_alloc_free : MirVerif.Gen.C17.rawAllocSites = [] := by decide

end MirVerif.Props.C17
