import MirVerif.Lemmas.PhiElim
/-! # C01 — out-of-SSA translation (`make_conventional_ssa`): property theorems -/
namespace MirVerif.PhiElim

/-- **Copies + moves after the phis implement the parallel phi assignment** (form A), for every
list of phis with fresh temps — including phis that read each other's results (swap, lost copy). -/
theorem out_of_ssa_formA_sound (ps : List Phi) (σ : St) (hf : Fresh ps)
    (hres : (ps.map (·.res)).Nodup) (x : Reg) (hx : ∀ p ∈ ps, x ≠ p.tmp) :
    lowerA ps σ x = parAssign (phiMoves ps) σ x :=
  lowerA_sound ps σ hf hres x hx

/-- **The rename shortcut (form B) is sound when no phi of the block reads a renamed result** —
the condition the code checks since fix 48a9714b (`se->use->insn->code == MIR_PHI` ends the
shortcut): then the moves at the end of the predecessor read only old values, and every renamed
temp holds what the parallel assignment gives its phi result. -/
theorem out_of_ssa_formB_sound (ren ps : List Phi) (σ : St) (hf : Fresh ps)
    (hnoread : ∀ p ∈ ps, ∀ q ∈ ren, p.arg ≠ q.res) :
    ∀ p ∈ ps, runMoves (predMovesB ren ps) σ p.tmp = σ p.arg := by
  have hid : ∀ p ∈ ps, rn ren p.arg = p.arg := by
    intro p hp
    unfold rn
    have : ren.find? (fun q => q.res = p.arg) = none := by
      rw [List.find?_eq_none]
      intro q hq
      simpa using fun e => hnoread p hp q hq e.symm
    rw [this]
  have hm : predMovesB ren ps = predMoves ps := by
    unfold predMovesB predMoves
    apply List.map_congr_left
    intro p hp
    rw [hid p hp]
  obtain ⟨htn, hfr⟩ := hf
  intro p hp
  rw [hm]
  have := runMoves_fresh_dsts (predMoves ps) σ
    (by simpa [predMoves, List.map_map, Function.comp_def] using htn)
    (by
      intro m hm n hn
      simp only [predMoves, List.mem_map] at hm hn
      obtain ⟨a, ha, rfl⟩ := hm
      obtain ⟨b, hb, rfl⟩ := hn
      exact (hfr a ha b hb).2)
    (p.tmp, p.arg) (by simp only [predMoves, List.mem_map]; exact ⟨p, hp, rfl⟩)
  simpa using this

/-- **Without that condition the shortcut is wrong** (the swap problem; reproduced on the real
generator before the fix: corpus/C01/lost-copy-swap.mir and swap-multi-block-loop.mir):
`a = φ(…, b); b = φ(…, a)` with both results renamed — the second move reads the temp the first
one has just overwritten. -/
theorem out_of_ssa_formB_swap_unsound :
    let a : Phi := ⟨0, 10, 1⟩   -- a = φ(.., b)   (res 0, tmp 10, arg 1)
    let b : Phi := ⟨1, 11, 0⟩   -- b = φ(.., a)
    let σ : St := fun r => if r = 10 then 111 else if r = 11 then 222 else 0   -- a% = 111, b% = 222
    runMoves (predMovesB [a, b] [a, b]) σ 11 ≠ 111 := by
  decide

/-- non-vacuity of the hypotheses: two phis reading outside registers, fresh temps -/
example : Fresh [⟨0, 10, 5⟩, ⟨1, 11, 6⟩] ∧ ([⟨0, 10, 5⟩, ⟨1, 11, 6⟩] : List Phi).map (·.res) = [0, 1] := by
  refine ⟨⟨by decide, ?_⟩, rfl⟩
  intro p hp q hq
  simp only [List.mem_cons, List.not_mem_nil, or_false] at hp hq
  rcases hp with rfl | rfl <;> rcases hq with rfl | rfl <;> decide

end MirVerif.PhiElim
