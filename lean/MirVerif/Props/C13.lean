import MirVerif.Lemmas.LinkObs
/-!
# C13 — imports bind to the most recently loaded export, for any load/link history

All theorems are about `run h`, the state machine of `Model/Link.lean` (a transcription of
`add_item`, `setup_global`, `MIR_load_module`, `MIR_load_external`, `MIR_link` and of the places
where the interpreter/generator read an import's address) applied to an ARBITRARY history `h` of
API calls, and compare it with `lastDef h n`, which is computed from the list `h` alone
(`Model/LinkSpec.lean`).  `(run h).err = none` says that no call of the history reported an error.
Histories end at the first error, except after a failed link, which is survivable (section 3:
`failed_link_leaves_env`, `failed_link_keeps_queue`); the correspondence check follows such
histories on the real code.

What is *not* proved here: that the C code behaves like `run` (that is the correspondence check
`checks/c13.py`).
-/
namespace MirVerif.Link
set_option linter.unusedSimpArgs false
set_option linter.unusedVariables false

/-- what a link with resolver `res` must bind an import of `n` to after history `pre` -/
def wantedAfter (pre : List Op) (res : Resolver) (n : Name) : Option Def :=
  match lastDef pre n with
  | some d => some d
  | none => (res n).map Def.ext

theorem wantedAfter_eq (pre : List Op) (res : Resolver) (n : Name) :
    wantedAfter pre res n = wanted pre.reverse res n := by
  unfold wantedAfter wanted lastDef
  cases lastDefR pre.reverse n <;> rfl

/-! ## 1. the environment is `lastDef` -/

/-- After any error-free history the environment maps every name to the definition loaded last. -/
theorem env_is_last_def (h : List Op) (n : Name) (hok : (run h).err = none) :
    (run h).env.lookup n = lastDef h n :=
  (inv_run hok).env n

/-- the queue holds exactly the modules loaded since the last link that installed an interface
(as far as their imported names are concerned) -/
theorem queue_is_pending (h : List Op) (n : Name) (hok : (run h).err = none) :
    (∃ m ∈ (run h).queue, n ∈ m.importNames) ↔ n ∈ pendingR h.reverse :=
  (inv_run hok).pend n

def exA : List Decl := [.exp 5, .func 5, .exp 3, .data 3]      -- export f, f: func, export d, d: data
def exB : List Decl := [.imp 5 .call, .imp 3 .ref, .imp 6 .ptr] -- import f (called), d (read), g (via reg)
def resG : Resolver := fun n => if n = 6 then some 206 else none
def exH : List Op := [.loadModule 1 exA, .loadModule 2 exB, .setRedef true, .loadExternal 5 101,
                      .loadModule 5 exA, .link (some .interp) resG, .call]

example : (run exH).err = none ∧ (run exH).env.lookup 5 = some (.func 5) ∧
    lastDef exH 5 = some (.func 5) ∧ lastDef exH 6 = some (.ext 206) ∧ lastDef exH 7 = none := by
  decide

/-! ## 2. the property statement -/

theorem take_succ_of_get {h : List Op} {k : Nat} {op : Op} (hk : h[k]? = some op) :
    h.take (k + 1) = h.take k ++ [op] := by
  rw [List.take_add_one, hk]; rfl

/-- **Property C13.**  If call number `k` of the history is a link that succeeds, then every module
that was waiting in `modules_to_link` before it has, right after it, each of its imports `n` bound
to the definition of `n` loaded last before the link — or, if there is none, to the address the
resolver gives.  (`linkedMods` = the same modules in their state after the step.) -/
theorem binding_spec (h : List Op) (k : Nat) (ifc : Option Iface) (res : Resolver)
    (hk : h[k]? = some (.link ifc res)) (hok : (run (h.take (k + 1))).err = none) :
    Forall2 (fun m m' => m'.id = m.id ∧ m'.imps = m.imps ∧
        ∀ n ∈ m.importNames, m'.binds.lookup n = wantedAfter (h.take k) res n ∧
                             (wantedAfter (h.take k) res n).isSome = true)
      (run (h.take k)).queue
      (linkedMods (run (h.take k)) (run (h.take (k + 1))) ifc) := by
  rw [take_succ_of_get hk, run_snoc] at hok ⊢
  have hs : (run (h.take k)).err = none := err_none_of_step hok
  rw [step_of_ok _ hs] at hok ⊢
  have := link_spec (inv_run hs) hs hok
  simpa only [wantedAfter_eq] using this

example : linkedMods (run (exH.take 5)) (run (exH.take 6)) (some .interp) =
    [ { id := 1, imps := [], iface := some .interp, uid := 0 },
      { id := 2, imps := [(5, .call), (3, .ref), (6, .ptr)],
        binds := [(5, .func 5), (3, .data 5), (6, .ext 206)], inl := [(5, 5)],
        iface := some .interp, uid := 1 },
      { id := 5, imps := [], iface := some .interp, uid := 2 } ] := by decide

/-- an external registered with address NULL (`MIR_load_external (ctx, name, NULL)`, withdrawing an
earlier one) IS the last definition: the import is bound to it — not handed to the resolver — and
calling through it kills the process -/
def nullH : List Op :=
  [.loadExternal 5 101, .loadExternal 5 0, .loadModule 3 [.imp 5 .ptr], .link (some .gen) (fun _ => some 205)]

example : lastDef (nullH.take 3) 5 = some (.ext 0) ∧ (run nullH).err = none ∧
    (run nullH).done.map (·.binds) = [[(5, .ext 0)]] ∧
    (run (nullH ++ [.call])).err = some .undefinedInterface := by decide

/-! ## 3. imports without definition -/

/-- a successful link binds an import that has no definition to what the resolver answered -/
theorem unresolved_uses_resolver (h : List Op) (k : Nat) (ifc : Option Iface) (res : Resolver)
    (hk : h[k]? = some (.link ifc res)) (hok : (run (h.take (k + 1))).err = none)
    (m : Mod) (hm : m ∈ (run (h.take k)).queue) (n : Name) (hn : n ∈ m.importNames)
    (hnone : lastDef (h.take k) n = none) :
    ∃ a, res n = some a ∧
      ∃ m' ∈ linkedMods (run (h.take k)) (run (h.take (k + 1))) ifc,
        m'.id = m.id ∧ m'.binds.lookup n = some (.ext a) := by
  obtain ⟨m', hm', hid, _, hb⟩ := (binding_spec h k ifc res hk hok).left m hm
  obtain ⟨hb1, hb2⟩ := hb n hn
  simp only [wantedAfter, hnone] at hb1 hb2
  cases hr : res n with
  | none => rw [hr] at hb2; cases hb2
  | some a => exact ⟨a, rfl, m', hm', hid, by rw [hb1, hr]; rfl⟩

/-- …and if the resolver is absent or answers NULL, the link reports `MIR_undeclared_op_ref_error` -/
theorem unresolved_is_error (h : List Op) (k : Nat) (ifc : Option Iface) (res : Resolver)
    (hk : h[k]? = some (.link ifc res)) (hpre : (run (h.take k)).err = none)
    (m : Mod) (hm : m ∈ (run (h.take k)).queue) (n : Name) (hn : n ∈ m.importNames)
    (hnone : lastDef (h.take k) n = none) (hres : res n = none) :
    (run (h.take (k + 1))).err = some .undeclaredOpRef := by
  rw [take_succ_of_get hk, run_snoc, step_of_ok _ hpre]
  have henv : (run (h.take k)).env.lookup n = none := by
    rw [env_is_last_def _ _ hpre]; exact hnone
  have := resolveQueue_fails hm hn henv hres
  simp only [link]
  generalize resolveQueue res (run (h.take k)).queue (run (h.take k)).env = r at this ⊢
  obtain ⟨env', q', e⟩ := r
  simp only at this
  subst this
  rfl

/-- the only error a link can report is `MIR_undeclared_op_ref_error` -/
theorem link_error_kind (s : State) (ifc : Option Iface) (res : Resolver) (e : Err)
    (hs : s.err = none) (he : (link s ifc res).err = some e) : e = .undeclaredOpRef := by
  unfold link at he
  generalize hr : resolveQueue res s.queue s.env = r at he
  obtain ⟨env', q', e'⟩ := r
  cases e' with
  | some e'' =>
    simp only at he
    cases he
    exact resolveQueue_err hr
  | none =>
    cases ifc <;> simp [hs] at he

example : (run [.loadModule 1 exB, .link (some .gen) resG]).err = some .undeclaredOpRef := by decide
example : (run [.loadModule 1 [.imp 6 .ptr], .link (some .gen) resG]).err = none := by decide

/-! ### a failed link is survivable and defines nothing it did not resolve

`State.fatal` is false after `MIR_undeclared_op_ref_error`: the history goes on (the error function
longjmps out of `MIR_link`; the caller may load the missing name and link again). -/

/-- Whatever its outcome, a link changes the environment only by entering, for names that had NO
definition, the address the resolver answered. -/
theorem link_env_grows (s : State) (ifc : Option Iface) (res : Resolver) (n : Name) :
    (link s ifc res).env.lookup n = s.env.lookup n ∨
    (s.env.lookup n = none ∧ ∃ a, res n = some a ∧ (link s ifc res).env.lookup n = some (.ext a)) := by
  have h := resolveQueue_grows res s.queue s.env n
  unfold link
  generalize resolveQueue res s.queue s.env = r at h ⊢
  obtain ⟨env', q', e⟩ := r
  cases e with
  | some e => exact h
  | none => cases ifc <;> exact h

/-- **A failed link leaves the environment alone**: a name the resolver does not resolve (no resolver,
or it answers NULL) has, after ANY link — in particular one that fails on that very name — exactly
the definition it had before; an undefined name stays undefined (it is not entered with address
NULL), so linking again fails again and the first real definition is not a redefinition. -/
theorem failed_link_leaves_env (s : State) (ifc : Option Iface) (res : Resolver) (n : Name)
    (hres : res n = none) : (link s ifc res).env.lookup n = s.env.lookup n := by
  rcases link_env_grows s ifc res n with h | ⟨_, a, ha, _⟩
  · exact h
  · rw [hres] at ha; cases ha

/-- a failed link is not fatal, moves no module out of the queue, and changes nothing of the queued
modules but their (partial) bindings, which the next link computes again -/
theorem failed_link_keeps_queue (s : State) (ifc : Option Iface) (res : Resolver) (e : Err)
    (hs : s.err = none) (he : (link s ifc res).err = some e) :
    (link s ifc res).fatal = false ∧ (link s ifc res).done = s.done ∧
    (link s ifc res).redefOk = s.redefOk ∧
    Forall2 sameButBinds s.queue (link s ifc res).queue := by
  have hk := link_error_kind s ifc res e hs he
  subst hk
  have hshape := resolveQueue_shape res s.queue s.env
  refine ⟨by simp [State.fatal, he], ?_⟩
  unfold link at he ⊢
  generalize resolveQueue res s.queue s.env = r at he hshape ⊢
  obtain ⟨env', q', e'⟩ := r
  cases e' with
  | some e'' => exact ⟨rfl, rfl, hshape⟩
  | none => cases ifc <;> simp [hs] at he

/-- the round-3 seeded change as a history: failed links (no resolver), then the first real `f` -/
def failH : List Op :=
  [.loadModule 1 [.imp 5 .call], .link (some .interp) (fun _ => none), .link (some .gen) (fun _ => none),
   .loadModule 4 [.exp 5, .func 5], .link (some .interp) (fun _ => none), .call]

example : (run (failH.take 2)).err = some .undeclaredOpRef ∧ (run (failH.take 2)).env.lookup 5 = none ∧
    (step { run (failH.take 2) with err := none } failH[2]).err = some .undeclaredOpRef ∧
    (step { run (failH.take 3) with err := none } failH[3]).err = none ∧
    (run failH).fatal = false ∧ (run failH).env.lookup 5 = some (.func 4) ∧
    (run failH).done.map (fun m => (m.id, m.binds)) = [(1, [(5, .func 4)]), (4, [])] := by decide

/-! ## 4. redefinition -/

/-- Loading a module that exports a *function* `n` while `n` already has a definition (of any kind:
MIR function, data or external address) is rejected with `MIR_repeated_decl_error` unless
redefinition is permitted.  (`hb`: the module text itself is well formed.) -/
theorem redef_rejected (pre : List Op) (id : Nat) (ds : List Decl) (n : Name)
    (hpre : (run pre).err = none) (hb : ∃ b, build ds = .ok b)
    (hexp : declExport id ds n = some (.func id)) (hdef : (lastDef pre n).isSome = true)
    (hperm : redefOkR pre.reverse = false) :
    (run (pre ++ [.loadModule id ds])).err = some .repeatedDecl := by
  obtain ⟨b, hb⟩ := hb
  rw [run_snoc, step_of_ok _ hpre]
  have hinv := inv_run hpre
  obtain ⟨hx, hdefs, _⟩ := build_spec hb
  have hkind : declHasExp ds n = true ∧ declDefKind ds n = some true := by
    unfold declExport at hexp
    cases h1 : declHasExp ds n <;> simp [h1] at hexp
    cases h2 : declDefKind ds n with
    | none => simp [h2] at hexp
    | some k => cases k <;> simp [h2] at hexp ⊢
  have hmem : (n, true) ∈ b.defs := (hdefs n true).2 hkind.2
  have hexported : b.exported n = true := by rw [hx n, hkind.1, hkind.2]; simp
  have henv : ((run pre).env.lookup n).isSome = true := by rw [hinv.env n]; exact hdef
  have hrej := loadDefs_rejects (id := id) hmem hexported henv
  simp only [loadModule, hb, hinv.redef, hperm]
  generalize loadDefs id false b b.defs (run pre).env = r at hrej ⊢
  obtain ⟨env', e⟩ := r
  simp only at hrej
  subst hrej
  rfl

/-- with `MIR_set_func_redef_permission (ctx, TRUE)` every well-formed module is accepted, and its
exports become the last definitions -/
theorem redef_permitted (pre : List Op) (id : Nat) (ds : List Decl)
    (hpre : (run pre).err = none) (hb : ∃ b, build ds = .ok b)
    (hperm : redefOkR pre.reverse = true) :
    (run (pre ++ [.loadModule id ds])).err = none ∧
    ∀ n d, declExport id ds n = some d → (run (pre ++ [.loadModule id ds])).env.lookup n = some d := by
  obtain ⟨b, hb⟩ := hb
  have hinv := inv_run hpre
  have hok : (run (pre ++ [.loadModule id ds])).err = none := by
    rw [run_snoc, step_of_ok _ hpre]
    simp only [loadModule, hb, hinv.redef, hperm]
    have := loadDefs_perm_ok (id := id) (b := b) (defs := b.defs) (env := (run pre).env)
    generalize loadDefs id true b b.defs (run pre).env = r at this ⊢
    obtain ⟨env', e⟩ := r
    simp only at this
    subst this
    exact hpre
  refine ⟨hok, ?_⟩
  intro n d hd
  rw [env_is_last_def _ _ hok]
  simp [lastDef, lastDefR, hd]

/-- a module that exports no function (only data) is never rejected for redefinition -/
theorem redef_data_accepted (pre : List Op) (id : Nat) (ds : List Decl)
    (hpre : (run pre).err = none) (hb : ∃ b, build ds = .ok b)
    (hnof : ∀ n, declExport id ds n ≠ some (.func id)) :
    (run (pre ++ [.loadModule id ds])).err = none := by
  obtain ⟨b, hb⟩ := hb
  obtain ⟨hx, hdefs, _⟩ := build_spec hb
  rw [run_snoc, step_of_ok _ hpre]
  simp only [loadModule, hb]
  have hno : ∀ n, (n, true) ∈ b.defs → b.exported n = false := by
    intro n hn
    have hk := (hdefs n true).1 hn
    cases hxn : b.exported n with
    | false => rfl
    | true =>
      have := (hx n).1 hxn
      exact absurd (by simp [declExport, this.1, hk]) (hnof n)
  have := loadDefs_data_ok (id := id) (ok := (run pre).redefOk) (env := (run pre).env) hno
  generalize loadDefs id (run pre).redefOk b b.defs (run pre).env = r at this ⊢
  obtain ⟨env', e⟩ := r
  simp only at this
  subst this
  exact hpre

example : (run [.loadModule 1 exA, .loadModule 2 exA]).err = some .repeatedDecl := by decide
example : (run [.loadExternal 5 100, .loadModule 2 exA]).err = some .repeatedDecl := by decide
example : (run [.loadModule 1 exA, .setRedef true, .loadModule 3 exA]).err = none := by decide
example : (run [.loadModule 1 [.exp 3, .data 3], .loadModule 2 [.exp 3, .data 3]]).err = none := by
  decide

/-- recorded, not alarmed on (DESIGN §6): `setup_global` runs before the redefinition test, so after a
REJECTED load the environment already names the rejected function -/
example : (run [.loadModule 1 exA, .loadModule 2 exA]).err = some .repeatedDecl ∧
    (run [.loadModule 1 exA, .loadModule 2 exA]).env.lookup 5 = some (.func 2) ∧
    (run [.loadModule 1 exA, .loadModule 2 exA]).queue.map (·.id) = [1] := by decide

/-! ### loading an existing module object again (`reload k`)

`lastDef` treats `MIR_load_module` on the object of the k-th load as a load event like any other
(`LinkSpec.lean`), and `env_is_last_def`, `binding_spec`, `observed_spec` cover histories with
reloads.  Spelled out: -/

/-- after a successful reload the exports of the reloaded module are the last definitions -/
theorem reload_is_load_event (pre : List Op) (k id : Nat) (ds : List Decl)
    (hk : (loadsR pre.reverse)[k]? = some (id, ds))
    (hok : (run (pre ++ [.reload k])).err = none) (n : Name) (d : Def)
    (hd : declExport id ds n = some d) :
    (run (pre ++ [.reload k])).env.lookup n = some d := by
  rw [env_is_last_def _ _ hok]
  simp [lastDef, lastDefR, hk, hd]

/-- the redefinition test runs again: reloading a module that exports a function is rejected without
permission (its own first load already defined the name) -/
theorem reload_rejected (pre : List Op) (k id : Nat) (ds : List Decl) (n : Name)
    (hpre : (run pre).err = none) (hk : (loadsR pre.reverse)[k]? = some (id, ds))
    (hb : ∃ b, build ds = .ok b) (hexp : declExport id ds n = some (.func id))
    (hdef : (lastDef pre n).isSome = true) (hperm : redefOkR pre.reverse = false) :
    (run (pre ++ [.reload k])).err = some .repeatedDecl := by
  obtain ⟨b, hb⟩ := hb
  rw [run_snoc, step_of_ok _ hpre]
  have hinv := inv_run hpre
  have hreg := reg_run hpre
  obtain ⟨hx, hdefs, _⟩ := build_spec hb
  have hkind : declHasExp ds n = true ∧ declDefKind ds n = some true := by
    unfold declExport at hexp
    cases h1 : declHasExp ds n <;> simp [h1] at hexp
    cases h2 : declDefKind ds n with
    | none => simp [h2] at hexp
    | some k => cases k <;> simp [h2] at hexp ⊢
  have hmem : (n, true) ∈ b.defs := (hdefs n true).2 hkind.2
  have hexported : b.exported n = true := by rw [hx n, hkind.1, hkind.2]; simp
  have henv : ((run pre).env.lookup n).isSome = true := by rw [hinv.env n]; exact hdef
  have hrej := loadDefs_rejects (id := id) hmem hexported henv
  have hl : (run pre).loaded[k]? = some (id, ds) := by rw [hreg.loaded]; exact hk
  simp only [reloadModule, hl, hb, hinv.redef, hperm]
  generalize loadDefs id false b b.defs (run pre).env = r at hrej ⊢
  obtain ⟨env', e⟩ := r
  simp only at hrej
  subst hrej
  rfl

/-- the round-6 seeded change as a history: A (f→1), B (f→2), A again, importer -/
def reloadH : List Op :=
  [.loadModule 1 [.exp 5, .func 5], .setRedef true, .loadModule 2 [.exp 5, .func 5], .reload 0,
   .loadModule 5 [.imp 5 .ptr], .link (some .interp) (fun _ => none), .call]

example : lastDef (reloadH.take 3) 5 = some (.func 2) ∧ lastDef (reloadH.take 4) 5 = some (.func 1) ∧
    (run reloadH).err = none ∧
    (run reloadH).done.map (fun m => (m.id, m.binds)) = [(1, []), (2, []), (5, [(5, .func 1)])] ∧
    (run [.loadModule 1 [.exp 5, .func 5], .reload 0]).err = some .repeatedDecl := by decide

/-- reloading an exporter redirects its thunks to `undefined_interface`: a linked caller dies until
the next link (the module is back in the queue, `funcLinked` is false) -/
example : (run [.loadModule 1 [.exp 5, .func 5], .loadModule 2 [.imp 5 .ptr],
                .link (some .gen) (fun _ => none), .call, .setRedef true, .reload 0, .call]).err
            = some .undefinedInterface := by decide

/-! Reloading exposes two more places where what RUNS is not what is BOUND (both replayed on the real
code): a module that is loaded again and linked again has its imports bound to the last definitions
(`binding_spec`), but keeps (a) the bodies inlined at its first link — known finding
`C13:reload-stale-inline` — and (b), under the generator interfaces, the machine code of its first
generation (`MIR_gen` returns the cached code) — `C13:reload-stale-mcode`. -/

def staleMcodeH : List Op :=
  [.loadModule 1 [.exp 5, .func 5], .loadModule 2 [.imp 5 .ptr], .link (some .gen) (fun _ => none),
   .setRedef true, .loadModule 6 [.exp 5, .func 5], .reload 1, .link (some .gen) (fun _ => none), .call]

theorem reload_stale_mcode_witness :
    (run staleMcodeH).err = none ∧ lastDef (staleMcodeH.take 6) 5 = some (.func 6) ∧
    (run staleMcodeH).done.getLast?.map
        (fun m => (m.id, m.binds.lookup 5, observeImp (run staleMcodeH) m (5, .ptr))) =
      some (2, some (.func 6), some 1) := by decide

def staleInlineH : List Op :=
  [.loadModule 1 [.exp 5, .func 5], .loadModule 2 [.imp 5 .call], .link (some .interp) (fun _ => none),
   .setRedef true, .loadModule 6 [.exp 5, .func 5], .reload 1, .link (some .interp) (fun _ => none), .call]

theorem reload_stale_inline_witness :
    (run staleInlineH).err = none ∧ lastDef (staleInlineH.take 6) 5 = some (.func 6) ∧
    (run staleInlineH).done.getLast?.map
        (fun m => (m.id, m.binds.lookup 5, observeImp (run staleInlineH) m (5, .call))) =
      some (2, some (.func 6), some 1) := by decide

/-! ## 5. are bindings frozen?

The full statement — "no later operation changes the import bindings of a module whose interface
is installed" — is FALSE for the code as it is:

  theorem bindings_frozen (s : State) (op : Op) (i : Nat) (m : Mod) (hm : s.done[i]? = some m) :
      ∃ m', (step s op).done[i]? = some m' ∧ m'.binds = m.binds

`generate_icode` (mir-interp.c:220-221) re-reads, at the FIRST execution of an interpreted function,
the address of every import used as a `mov` operand from the environment item, which later loads
have overwritten in place.  Witness below; the check replays it on the real code
(known finding `C13:interp-late-rebinding`). -/

def lateH : List Op :=
  [.loadModule 1 [.exp 3, .data 3], .loadModule 2 [.imp 3 .ref], .link (some .interp) (fun _ => none),
   .loadModule 4 [.exp 3, .data 3]]

theorem bindings_frozen_fails :
    ∃ (h : List Op) (op : Op) (i : Nat) (m m' : Mod), (run h).err = none ∧
      (run h).done[i]? = some m ∧ (step (run h) op).done[i]? = some m' ∧ m'.binds ≠ m.binds :=
  ⟨lateH, .call, 1,
   { id := 2, imps := [(3, .ref)], binds := [(3, .data 1)], iface := some .interp, uid := 1 },
   { id := 2, imps := [(3, .ref)], binds := [(3, .data 4)], iface := some .interp, coded := true, uid := 1 },
   by decide, by decide, by decide, by decide⟩

/-- What does hold: once the entry function of a module has been translated (`coded`: at once for
`MIR_set_gen_interface`, after the first call for the interpreter and the lazy generator), NO later
history that does not load an existing module object again (`NoReload`) changes anything of that
module — bindings, inlined bodies, interface, machine code. -/
theorem bindings_frozen_partial (s : State) (later : List Op) (i : Nat) (m : Mod)
    (hm : s.done[i]? = some m) (hc : m.coded = true) (hno : NoReload later) :
    (runFrom s later).done[i]? = some m :=
  runFrom_done_coded later hm hc hno

def genH : List Op :=
  [.loadModule 1 exA, .loadModule 2 exB, .link (some .gen) resG]
def laterH : List Op :=
  [.setRedef true, .loadModule 5 exA, .loadExternal 6 100, .call, .link (some .interp) resG, .call]

example : (run genH).done[1]?.map (·.coded) = some true ∧
    (runFrom (run genH) laterH).err = none ∧
    (runFrom (run genH) laterH).done[1]? = (run genH).done[1]? ∧
    (run genH).done[1]?.map (·.binds) = some [(5, .func 1), (3, .data 1), (6, .ext 206)] ∧
    lastDef (genH ++ laterH) 5 = some (.func 5) := by decide

/-- …and what its entry function observes stays the same, too -/
theorem observed_frozen (s : State) (later : List Op) (m : Mod) (p : Name × Use) (v : Nat)
    (h : observeImp s m p = some v) (hno : NoReload later) :
    observeImp (runFrom s later) m p = some v :=
  observeImp_mono (fun _ hl => runFrom_done_ids later hl hno) m p h

/-- modules linked with `MIR_set_gen_interface` are translated at once -/
theorem gen_linked_is_coded (m : Mod) : (installIface .gen m).coded = true := by
  simp [installIface]

/-- every module is translated after the first `call` -/
theorem called_is_coded (s : State) (m' : Mod) (hm : m' ∈ (callAll s).done) : m'.coded = true := by
  rw [callAll_done] at hm
  obtain ⟨m, _, rfl⟩ := List.mem_map.1 hm
  exact (codeMod_fields s.env m).2.2.2.2

theorem lookup_map_keep {bs : List (Name × Def)} {f : Name × Def → Name × Def}
    (hf : ∀ p, (f p).1 = p.1) (n : Name) :
    (bs.map f).lookup n = (bs.lookup n).map (fun d => (f (n, d)).2) := by
  induction bs with
  | nil => rfl
  | cons p rest ih =>
    obtain ⟨m, d⟩ := p
    have h1 : f (m, d) = (m, (f (m, d)).2) := by
      have := hf (m, d); exact Prod.ext this rfl
    rw [List.map_cons, h1, lookup_cons_eq, lookup_cons_eq]
    by_cases hnm : n = m
    · subst hnm; simp
    · simp [hnm, ih]

/-- The exact behaviour of the interpreter interface: at the first call after history `h`, an import
of `n` that the entry function uses as a `mov` operand (`.ptr`, `.ref`) is re-bound to the definition
loaded last before the CALL (not before the link). -/
theorem interp_first_call_rebinds (h : List Op) (i : Nat) (m : Mod) (n : Name) (u : Use) (d0 : Def)
    (hok : (run h).err = none) (hm : (run h).done[i]? = some m) (hc : m.coded = false)
    (hi : m.iface = some .interp) (hu : m.imps.lookup n = some u) (hcall : u ≠ .call) (hb : m.binds.lookup n = some d0) :
    ∃ m', (run (h ++ [.call])).done[i]? = some m' ∧
      m'.binds.lookup n = (lastDef h n <|> some d0) := by
  rw [run_snoc, step_of_ok _ hok]
  simp only [callAll_done, List.getElem?_map, hm, Option.map_some]
  refine ⟨_, rfl, ?_⟩
  have hcf : m.coded = false := hc
  simp only [codeMod, hcf, hi, Bool.false_eq_true, ↓reduceIte]
  rw [lookup_map_keep (by intro p; split <;> rfl) n, hb, ← env_is_last_def h n hok]
  simp only [Option.map_some, hu]
  cases u with
  | call => exact absurd rfl hcall
  | ptr => cases (run h).env.lookup n <;> rfl
  | ref => cases (run h).env.lookup n <;> rfl

example : (run lateH).done[1]?.map (·.binds) = some [(3, .data 1)] ∧
          (run (lateH ++ [.call])).done[1]?.map (·.binds) = some [(3, .data 4)] ∧
          lastDef (lateH.take 2) 3 = some (.data 1) ∧ lastDef lateH 3 = some (.data 4) := by decide

/-! ## 6. what runs versus what is bound: a link with a NULL interface

`MIR_link (ctx, NULL, r)` leaves the modules in `modules_to_link`, so the next link binds their
imports again (that is `binding_spec`, it holds) — but `process_inlines` has already replaced the
immediate calls by the body of the function that was last at the time of the FIRST link.  The body
that runs is then not the definition the import is bound to.  Witness (replayed on the real code,
known finding `C13:null-link-stale-inline`): -/

def staleH : List Op :=
  [.loadModule 1 [.exp 5, .func 5], .loadModule 2 [.imp 5 .call], .link none (fun _ => none),
   .setRedef true, .loadModule 5 [.exp 5, .func 5], .link (some .interp) (fun _ => none), .call]

theorem stale_inline_witness :
    (run staleH).err = none ∧ lastDef (staleH.take 5) 5 = some (.func 5) ∧
    (run staleH).done[1]?.map (fun m => (m.binds.lookup 5, observeImp (run staleH) m (5, .call))) =
      some (some (.func 5), some 1) := by decide

/-- For a module linked for the first time (nothing inlined yet) what an immediate call runs right
after the link IS the binding: the inlined body is the body of the function the import is bound to. -/
theorem inline_follows_binding (m : Mod) (n : Name) (id : Nat) (hfresh : m.inl = [])
    (hu : (n, Use.call) ∈ m.imps) (hb : m.binds.lookup n = some (.func id)) :
    (inlineMod m).inl.lookup n = some id :=
  inline_of_func hfresh hu hb

/-- **What runs.**  If call number `k` is a successful link that installs an interface, then calling,
right after it, the entry function of any module that was waiting in the queue and has not been
through a NULL-interface link before (`m.inl = []`) yields, for every import, the value of the
definition loaded last before the link (or of the resolver's address): the version that runs is
the version the property names (`≠ .ext 0`: unless that definition is an external registered with
address NULL, through which nothing can be called or read).  `m2` is the module's state after the
link and the call. -/
theorem observed_spec (h : List Op) (k : Nat) (i : Iface) (res : Resolver)
    (hk : h[k]? = some (.link (some i) res)) (hok : (run (h.take (k + 1))).err = none) :
    Forall2 (fun m m2 => m.inl = [] → m.mcode = none → m2.id = m.id ∧
        ∀ n u, m.imps.lookup n = some u → wantedAfter (h.take k) res n ≠ some (.ext 0) →
          observeImp (callAll (run (h.take (k + 1)))) m2 (n, u) =
            (wantedAfter (h.take k) res n).map Def.value)
      (run (h.take k)).queue
      ((callAll (run (h.take (k + 1)))).done.drop (run (h.take k)).done.length) := by
  have hfl := funcsLoaded_run hok
  rw [take_succ_of_get hk, run_snoc] at hok hfl ⊢
  have hs : (run (h.take k)).err = none := err_none_of_step hok
  rw [step_of_ok _ hs] at hok hfl ⊢
  have := observed_after_link (inv_run hs) hs hok hfl
  simpa only [wantedAfter_eq] using this

example : (callAll (run (exH.take 6))).done[1]?.map
    (fun m2 => observeMod (callAll (run (exH.take 6))) m2) =
    some [(5, some 5), (3, some 5), (6, some 206)] := by decide

end MirVerif.Link
