/-! Property theorems for C13 (none yet). -/
