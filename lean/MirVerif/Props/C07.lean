/-! Property theorems for C07 (none yet). -/
