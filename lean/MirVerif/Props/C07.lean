import MirVerif.Lemmas.CArithFold
import MirVerif.Lemmas.CArithSpec
import MirVerif.Lemmas.CArithBf
import MirVerif.Lemmas.BridgeC07
import MirVerif.Model.CArithExpr
/-! # C07 — C programs compiled by c2mir behave as under the reference compiler.
Property theorems only (the proved fragment: conversions, opcode selection, compile-time folding,
bit-field access, small block moves).  The parser, declaration checker, initialiser flattening and
statement lowering are tested (checks/c07.py), not proved. -/
namespace MirVerif.CArith
open MirVerif MirVerif.Gen.C07

/-- **Integer promotions.**  For every integer type (standard or enumerated) the CURRENT
`integer_promotion` of c2mir.c returns exactly the type C11 6.3.1.1p2 prescribes. -/
theorem promotion_table (t : IType) : ofCTy (integer_promotion t.toCTy) = some (promote t) := by
  have h := gen_promotion_table
  rw [List.all_eq_true] at h
  simpa using h t (IType.mem_all t)

example : promote .ushort = .int ∧ promote .uint = .uint ∧ promote .bool = .int ∧ promote .enumU = .uint := by decide

/-- **Usual arithmetic conversions.**  For every pair of integer types the CURRENT
`arithmetic_conversion` returns a type with the width and signedness of the C11 6.3.1.8 common
real type … -/
theorem usual_arith_table (t1 t2 : IType) :
    ∃ r, ofCTy (arithmetic_conversion t1.toCTy t2.toCTy) = some r ∧ sameRepr r (usualArith t1 t2) := by
  have h := gen_usual_arith_table
  rw [List.all_eq_true] at h
  have h1 := h t1 (IType.mem_all t1)
  rw [List.all_eq_true] at h1
  have h2 := h1 t2 (IType.mem_all t2)
  cases hc : ofCTy (arithmetic_conversion t1.toCTy t2.toCTy) with
  | none => rw [hc] at h2; cases h2
  | some r => rw [hc] at h2; exact ⟨r, rfl, of_decide_eq_true h2⟩

/-- … and it is literally the C type of 6.3.1.8, for every pair of integer types. -/
theorem usual_arith_exact (t1 t2 : IType) :
    ofCTy (arithmetic_conversion t1.toCTy t2.toCTy) = some (usualArith t1 t2) := by
  have h := gen_usual_arith_exact
  rw [List.all_eq_true] at h
  have h1 := h t1 (IType.mem_all t1)
  rw [List.all_eq_true] at h1
  have h2 := h1 t2 (IType.mem_all t2)
  simpa using h2

/-- The rule c2mir used before /repo 584db93a (`arithmetic_conversion`'s last branch kept the
unsigned operand's own type): it answered `unsigned long` for `unsigned long` × `long long`, where
C says `unsigned long long`.  Kept as a named OLD variant; the witness is replayed on the real code
by corpus/C07/kf-ulong-llong-common-type.c (must pass now). -/
def usualArithOld (t1 t2 : IType) : IType :=
  if usualArith t1 t2 = .ullong ∧ (promote t1 = .ulong ∨ promote t2 = .ulong) ∧
     (promote t1 = .llong ∨ promote t2 = .llong) then .ulong else usualArith t1 t2

theorem usual_arith_old_wrong : usualArithOld .ulong .llong ≠ usualArith .ulong .llong ∧
    sameRepr (usualArithOld .ulong .llong) (usualArith .ulong .llong) := by decide

example : usualArith .uint .long = .long ∧ usualArith .int .uint = .uint ∧ usualArith .ulong .llong = .ullong ∧
    usualArith .schar .ushort = .int ∧ ¬ sameRepr .int .uint := by decide

/-- signedness, bit size and MIR data type c2mir assigns to every integer type are those of LP64 -/
theorem type_repr_table (t : IType) :
    ((signed_integer_type_p t.toCTy ≠ 0) = (t.signed = true)) ∧ int_bit_size t.toCTy = (t.width : Int) ∧
    get_mir_type t.toCTy = mirTypeOf t := by
  have h1 := gen_signed_table; have h2 := gen_width_table; have h3 := gen_mir_type_table
  rw [List.all_eq_true] at h1 h2 h3
  exact ⟨of_decide_eq_true (h1 t (IType.mem_all t)), of_decide_eq_true (h2 t (IType.mem_all t)),
    of_decide_eq_true (h3 t (IType.mem_all t))⟩

theorem arith_of_promoted (t : IType) (ht : promote t = t) : t ∈ IType.arith := by
  cases t <;> first | decide | (exact absurd ht (by decide))

/-- **Opcode selection.**  For every binary operator (and its compound-assignment / increment
forms) and every type operands are converted to, the CURRENT `get_mir_type_insn_code` selects the
MIR instruction `insnFor` names (signed vs unsigned division, modulo, right shift; 32- vs 64-bit). -/
theorem insn_table (o : BinOp) (t : IType) (ht : promote t = t) (n : Int) (hn : n ∈ nodesOf o) :
    insnName (get_mir_type_insn_code t.toCTy n) = some (opName (insnFor o t).1 (insnFor o t).2) := by
  have h := gen_insn_table
  rw [List.all_eq_true] at h
  have h1 := h o (BinOp.mem_all o)
  rw [List.all_eq_true] at h1
  have h2 := h1 t (arith_of_promoted t ht)
  rw [List.all_eq_true] at h2
  simpa using h2 n hn

example : promote .uint = .uint ∧ N_RSH_ASSIGN ∈ nodesOf .rsh ∧ insnFor .rsh .uint = (.ursh, true) ∧
    insnFor .div .long = (.div, false) := by decide

/-- conversion of integer values at compile time (`cast_value`) is the C conversion, for every
target type except `_Bool` … -/
theorem cast_value_meets_c (t : IType) (ht : t.std ≠ .bool) (x : W64) : castValue t x = cConv t x := by
  have hb : t ≠ .bool := by intro e; subst e; exact ht rfl
  have e8s : ∀ x : W64, (x.setWidth 8).signExtend 64 = wrapI 64 (x.toInt.bmod (2 ^ 8)) := fun x => by
    apply eq_wrapI; rw [BitVec.toInt_signExtend_of_le (by decide), BitVec.toInt_setWidth]
    have := x.isLt; rw [BitVec.toInt_eq_toNat_cond]; simp only [Int.bmod_def]; split <;> omega
  have e16s : ∀ x : W64, (x.setWidth 16).signExtend 64 = wrapI 64 (x.toInt.bmod (2 ^ 16)) := fun x => by
    apply eq_wrapI; rw [BitVec.toInt_signExtend_of_le (by decide), BitVec.toInt_setWidth]
    have := x.isLt; rw [BitVec.toInt_eq_toNat_cond]; simp only [Int.bmod_def]; split <;> omega
  have e32s : ∀ x : W64, (x.setWidth 32).signExtend 64 = wrapI 64 (x.toInt.bmod (2 ^ 32)) := fun x => by
    apply eq_wrapI; rw [BitVec.toInt_signExtend_of_le (by decide), BitVec.toInt_setWidth]
    have := x.isLt; rw [BitVec.toInt_eq_toNat_cond]; simp only [Int.bmod_def]; split <;> omega
  have e64s : ∀ x : W64, x = wrapI 64 (x.toInt.bmod (2 ^ 64)) := fun x => by
    apply eq_wrapI; rw [Int.bmod_bmod]; exact (BitVec.toInt_bmod_cancel x).symm
  have eu : ∀ (k : Nat) (x : W64), k ≤ 64 → (x.setWidth k).setWidth 64 = wrapN 64 (x.toNat % 2 ^ k) := fun k x hk => by
    apply eq_wrapN
    simp only [BitVec.toNat_setWidth]
  have e64u : ∀ x : W64, x = wrapN 64 (x.toNat % 2 ^ 64) := fun x => by
    apply eq_wrapN; have := x.isLt; omega
  cases t <;> first
    | exact absurd rfl hb
    | (simp only [castValue, cConv, IType.width, IType.signed, IType.std, if_true, if_false,
        Bool.false_eq_true, reduceCtorEq]
       first | exact e8s x | exact e16s x | exact e32s x | exact e64s x
             | exact eu 8 x (by decide) | exact eu 16 x (by decide) | exact eu 32 x (by decide) | exact e64u x)

example : castValue .schar 0x1FF = -1 ∧ cConv .ushort (-1) = 0xFFFF := by decide

/-- … the full statement is FALSE for `_Bool` on the current code: `cast_value` (and the run-time
`cast`, which emits `UEXT8`) truncates to 8 bits instead of testing for non-zero (C11 6.3.1.2):
`(_Bool) 256` is 0 and `(_Bool) 2` is 2 under c2mir.  Replayed on the real code by
corpus/C07/kf-bool-conversion.c (known finding C07:bool-conversion). -/
theorem cast_value_bool_wrong :
    castValue .bool 256 ≠ cConv .bool 256 ∧ castValue .bool 2 ≠ cConv .bool 2 := by decide

theorem cast_value_bool_partial (x : W64) (h : x = 0 ∨ x = 1) : castValue .bool x = cConv .bool x := by
  rcases h with rfl | rfl <;> decide

/-- **Compile-time evaluation = run-time evaluation.**  For every binary arithmetic / bitwise /
shift operator, every type `t` operands are converted to and ALL 64-bit operand images: whenever
the MIR instruction the code generator selects for `(o, t)` has a documented result `r'` on the
converted operands, c2mir's constant folder yields the image of the same value (`r'` normalised
to `t`: for 32-bit instructions MIR.md defines only the low half).  In particular the folder does
not fail or differ for any defined division, modulo, shift, or wrap-around. -/
theorem fold_eq_runtime (o : BinOp) (t : IType) (ht : promote t = t) (a b r' : W64)
    (h : runtimeSem (insnFor o t) (castValue t a) (castValue t b) = some r') :
    foldConst o t a b = some (castValue t r') := by
  have h64 : ∀ (o : BinOp) (a b r' : W64), docSem (aopS o) false a b = some r' → (cS o a b).map id = some r' :=
    fun o a b r' h => by
      rw [cS_docS (by decide)]; simpa [docSem] using h
  have h64u : ∀ (o : BinOp) (a b r' : W64), docSem (aopU o) false a b = some r' → (cU o a b).map id = some r' :=
    fun o a b r' h => by
      rw [cU_docU (by decide)]; simpa [docSem] using h
  cases t <;> first
    | exact absurd ht (by decide)
    | (rw [insnFor_signed o _ rfl] at h
       first
         | exact fold_rt_s32 o _ _ r' h
         | exact h64 o a b r' h)
    | (rw [insnFor_unsigned o _ rfl] at h
       first
         | exact fold_rt_u32 o _ _ r' h
         | exact h64u o a b r' h)

/-- **Compile-time evaluation = C semantics.**  Whenever C11 defines the value of `a o b` for
operands of type `t` (`cBin`, over mathematical integers: no signed overflow, no division by zero,
shift count in range, no left shift of a negative value), c2mir's folder yields the image of
exactly that value.  (For shifts the count is taken in type `t` here; see `fold_shift_eq_runtime`
for counts of another promoted type.)  Together with `fold_eq_runtime` this ties the Lean
evaluator `cEval` (the check's third opinion) to the folding model. -/
theorem fold_meets_c (o : BinOp) (t : IType) (ht : promote t = t) (a b : W64)
    (ha : canonical t a) (hb : canonical t b) (r : Int)
    (h : cBin o t (valOf t a) (valOf t b) = some r) :
    ∃ z, foldConst o t a b = some z ∧ valOf t z = r := by
  cases t
  case int => exact fold_meets_c_int o a b ha hb r h
  case uint => exact fold_meets_c_uint o a b ha hb r h
  case long => exact fold_meets_c_s64 .long rfl rfl castValue_long o a b r h
  case llong => exact fold_meets_c_s64 .llong rfl rfl castValue_llong o a b r h
  case ulong => exact fold_meets_c_u64 .ulong rfl rfl castValue_ulong o a b r h
  case ullong => exact fold_meets_c_u64 .ullong rfl rfl castValue_ullong o a b r h
  all_goals exact absurd ht (by decide)

example : castValue .int (-7) = -7 ∧ cBin .div .int (valOf .int (-7)) (valOf .int 2) = some (-3) ∧
    cBin .add .int 2147483647 1 = none ∧ cBin .add .uint 4294967295 1 = some 0 := by decide

/-- shifts: the count is converted to its OWN promoted type `rt` by the folder and to `t` by the
generated code; both see the same count whenever it is in the range C defines (`0 ≤ count < width`) -/
theorem fold_shift_eq_runtime (o : BinOp) (_ho : o = .lsh ∨ o = .rsh) (t rt : IType) (ht : promote t = t)
    (a b r' : W64) (hb : castValue rt b = castValue t b)
    (h : runtimeSem (insnFor o t) (castValue t a) (castValue t b) = some r') :
    foldBin o t rt a b = some (castValue t r') := by
  have := fold_eq_runtime o t ht a b r' h
  simpa [foldConst, foldBin, hb] using this

/-- non-vacuity: `-7 / 2` in `int`, `1u << 31`, `-8 >> 1`, and an undefined case -/
example : foldConst .div .int (-7) 2 = some (-3) ∧
    runtimeSem (insnFor .div .int) (castValue .int (-7)) (castValue .int 2) = some (-3) := by decide
example : foldConst .lsh .uint 1 31 = some 0x80000000 := by decide
example : foldConst .rsh .int (-8) 1 = some (-4) ∧ foldConst .rsh .uint (-8) 1 = some 0x7FFFFFFC := by decide
example : runtimeSem (insnFor .div .int) 1 0 = none ∧ foldConst .div .int 1 0 = none := by decide

/-- **Comparisons**: the folder's result is the documented result of the selected compare
instruction, and both are the C comparison of the operands' mathematical values after the usual
arithmetic conversions (unsigned operands are compared as naturals, signed ones as integers). -/
theorem cmp_eq_runtime (c : CmpOp) (t : IType) (ht : promote t = t) (a b : W64) :
    runtimeSem (cmpFor c t) (castValue t a) (castValue t b) = some (foldCmp c t a b) ∧
    foldCmp c t a b = b2w (cCmp c (valOf t (castValue t a)) (valOf t (castValue t b))) := by
  have hs : ∀ t : IType, t.signed = true →
      foldCmp c t a b = b2w (cCmpS c (castValue t a) (castValue t b)) ∧
      valOf t (castValue t a) = (castValue t a).toInt ∧ valOf t (castValue t b) = (castValue t b).toInt :=
    fun t h => by simp [foldCmp, valOf, h]
  have hu : ∀ t : IType, t.signed = false →
      foldCmp c t a b = b2w (cCmpU c (castValue t a) (castValue t b)) ∧
      valOf t (castValue t a) = ((castValue t a).toNat : Int) ∧ valOf t (castValue t b) = ((castValue t b).toNat : Int) :=
    fun t h => by simp [foldCmp, valOf, h]
  cases t
  case int =>
    obtain ⟨e1, e2, e3⟩ := hs .int rfl
    rw [cmpFor_signed c _ rfl, e1, e2, e3, ← cCmpS_val]
    exact ⟨cmp_rt_s32 c _ _, rfl⟩
  case long =>
    obtain ⟨e1, e2, e3⟩ := hs .long rfl
    rw [cmpFor_signed c _ rfl, e1, e2, e3, ← cCmpS_val]
    exact ⟨cmp_rt_s64 c _ _, rfl⟩
  case llong =>
    obtain ⟨e1, e2, e3⟩ := hs .llong rfl
    rw [cmpFor_signed c _ rfl, e1, e2, e3, ← cCmpS_val]
    exact ⟨cmp_rt_s64 c _ _, rfl⟩
  case uint =>
    obtain ⟨e1, e2, e3⟩ := hu .uint rfl
    rw [cmpFor_unsigned c _ rfl, e1, e2, e3, ← cCmpU_val]
    exact ⟨cmp_rt_u32 c _ _, rfl⟩
  case ulong =>
    obtain ⟨e1, e2, e3⟩ := hu .ulong rfl
    rw [cmpFor_unsigned c _ rfl, e1, e2, e3, ← cCmpU_val]
    exact ⟨cmp_rt_u64 c _ _, rfl⟩
  case ullong =>
    obtain ⟨e1, e2, e3⟩ := hu .ullong rfl
    rw [cmpFor_unsigned c _ rfl, e1, e2, e3, ← cCmpU_val]
    exact ⟨cmp_rt_u64 c _ _, rfl⟩
  all_goals exact absurd ht (by decide)

/-- **Compare-and-branch selection.**  For every comparison operator and operand type, the CURRENT
`get_mir_type_insn_code` and `get_compare_branch_code` select the compare instruction and the
branch instruction `cmpFor` names, and that branch is taken exactly when the C comparison of the
converted operands holds. -/
theorem cmp_branch_table (c : CmpOp) (t : IType) (ht : promote t = t) :
    insnName (get_mir_type_insn_code t.toCTy (nodeOfCmp c)) = some (opName (cmpFor c t).1 (cmpFor c t).2) ∧
    insnName (get_compare_branch_code (get_mir_type_insn_code t.toCTy (nodeOfCmp c)))
      = some (brName (cmpFor c t).1 (cmpFor c t).2) ∧
    ∀ a b : W64, docBranch (cmpFor c t).1 (cmpFor c t).2 (castValue t a) (castValue t b)
      = cCmp c (valOf t (castValue t a)) (valOf t (castValue t b)) := by
  have h1 := gen_cmp_table; have h2 := gen_branch_table
  rw [List.all_eq_true] at h1 h2
  have h1' := h1 c (CmpOp.mem_all c); have h2' := h2 c (CmpOp.mem_all c)
  rw [List.all_eq_true] at h1' h2'
  refine ⟨by simpa using h1' t (arith_of_promoted t ht), by simpa using h2' t (arith_of_promoted t ht), ?_⟩
  intro a b
  obtain ⟨hr, hf⟩ := cmp_eq_runtime c t ht a b
  unfold runtimeSem at hr
  rw [docBranch, hr, hf]
  exact b2w_ne_zero _

example : foldCmp .lt .uint (-1) 1 = 0 ∧ foldCmp .lt .int (-1) 1 = 1 := by decide

/-- **Bit-field round trip.**  For every storage-unit content `u`, value `v`, bit offset and width
with `1 ≤ w`, `off + w ≤ 64`, signed or unsigned: reading the member back after the emitted store
sequence yields the low `w` bits of `v`, sign- resp. zero-extended, and the store leaves every bit
of the unit outside `[off, off + w)` unchanged. -/
theorem bf_roundtrip (sg : Bool) (u v : W64) (off w : Nat) (hw : 1 ≤ w) (h : off + w ≤ 64) :
    (∀ i, i < 64 → (bfExtract sg (bfInsert sg u v off w) off w).getLsbD i = extBit sg w v i) ∧
    (∀ i, i < 64 → (i < off ∨ off + w ≤ i) → (bfInsert sg u v off w).getLsbD i = u.getLsbD i) := by
  constructor
  · intro i hi
    rw [bfExtract_bit sg _ off w i hw h hi, extBit]
    by_cases h1 : i < w
    · rw [if_pos h1, if_pos h1, bfInsert_bit sg u v off w (off + i) hw h (by omega),
        if_pos ⟨by omega, by omega⟩]
      congr 1; omega
    · rw [if_neg h1, if_neg h1, bfInsert_bit sg u v off w (off + w - 1) hw h (by omega),
        if_pos ⟨by omega, by omega⟩]
      congr 2; omega
  · intro i hi ho
    rw [bfInsert_bit sg u v off w i hw h hi, if_neg (by omega)]

/-- static initialisers: the word `add_bit_field` computes at compile time is the word the emitted
store sequence would produce -/
theorem bf_static_init (sg : Bool) (u v : W64) (off w : Nat) :
    addBitField sg u v off w = bfInsert sg u v off w := addBitField_eq_bfInsert sg u v off w

example : bfInsert true 0xFFFF 5 4 3 = 0xFFDF ∧ bfExtract true 0xFFDF 4 3 = -3 ∧
    bfExtract false 0xFFDF 4 3 = 5 := by decide

/-- **Small block move** (`size ≤ 5` uses the byte loop; larger sizes call `memcpy`): for
non-overlapping source and destination the loop copies exactly the bytes `[0, size)` and changes
nothing else. -/
theorem block_move_copies (dst src size : Nat) (m : Mem)
    (hdis : dst + size ≤ src ∨ src + size ≤ dst) (a : Nat) :
    blockMove dst src size m a = if dst ≤ a ∧ a < dst + size then m (src + (a - dst)) else m a := by
  unfold blockMove
  by_cases h0 : size = 0
  · subst h0; simp; intro h1 h2; omega
  · rw [if_neg h0]
    exact blockMoveLoop_spec dst src size size m (by omega) (Nat.le_refl _)
      (fun i j hi hj => by omega) a

example : blockMove 10 20 3 (fun a => BitVec.ofNat 8 a) 11 = 21 := by decide

/-- converting the 64-bit image of a value `v` of ANY integer type `t'` with `cast_value` to an
arithmetic type `t` gives the image of `convVal t v`, C's conversion on mathematical values -/
theorem castValue_val (t t' : IType) (ht : promote t = t) (x : W64) :
    valOf t (castValue t x) = convVal t (valOf t' x) := by
  have hx := x.isLt
  have hI : x.toInt = if 2 * x.toNat < 2 ^ 64 then (x.toNat : Int) else (x.toNat : Int) - 2 ^ 64 :=
    BitVec.toInt_eq_toNat_cond x
  have hb : t.std ≠ .bool := fun e => by cases t <;> first | exact absurd ht (by decide) | exact absurd e (by decide)
  rw [cast_value_meets_c t hb x]
  have hv : valOf t' x = x.toInt ∨ valOf t' x = (x.toNat : Int) := by
    unfold valOf; split
    · exact Or.inl rfl
    · exact Or.inr rfl
  generalize valOf t' x = v at hv
  cases t <;> first
    | exact absurd ht (by decide)
    | (simp only [valOf, cConv, convVal, IType.signed, IType.std, IType.width, if_true, if_false,
         Bool.false_eq_true, reduceCtorEq, wrapI, wrapN, BitVec.toInt_ofInt, BitVec.toNat_ofNat]
       try simp only [Int.bmod_def] at *
       rcases hv with rfl | rfl <;> split at hI <;> omega)

theorem usualArith_promoted (t1 t2 : IType) : promote (usualArith t1 t2) = usualArith t1 t2 := by
  cases t1 <;> cases t2 <;> decide

/-- **Folding of `c ? a : b` with a constant condition** (integer arms): the folded constant is the
selected arm converted to the common type, exactly the value `cEval` (C11 6.5.15p5) assigns. -/
theorem fold_cond_meets_c (t1 t2 : IType) (c a b : W64) :
    valOf (usualArith t1 t2) (foldCond t1 t2 c a b)
      = convVal (usualArith t1 t2) (if c ≠ 0 then valOf t1 a else valOf t2 b) := by
  unfold foldCond
  split
  · exact castValue_val _ t1 (usualArith_promoted t1 t2) a
  · exact castValue_val _ t2 (usualArith_promoted t1 t2) b

example : foldCond .int .ulong 0 7 (-1) = -1 ∧ foldCond .uint .int 1 (-1) 5 = 0xFFFFFFFF ∧
    valOf (usualArith .uint .int) (foldCond .uint .int 0 9 (-1)) = 4294967295 := by decide

/-- **Promotion of bit-fields** (C11 6.3.1.1p2).  For a bit-field member declared `int` or
`unsigned int` with any width 1..32, the type the CURRENT c2mir computes with (expression type
from check() followed by `integer_promotion`) is `int` when int can represent all its values and
`unsigned int` otherwise (only `unsigned f:32`).  Both the width test and the replacement type are
regenerated from the source on every run. -/
theorem bf_promotion_rule (b : IType) (hb : b = .int ∨ b = .uint) (w : Nat) (h1 : 1 ≤ w) (h32 : w ≤ 32) :
    ofCTy (integer_promotion (bfExprTy b w)) = some (cBfPromote b w) := by
  have h := gen_bf_promotion_std
  rw [List.all_eq_true] at h
  have hb' : b ∈ [IType.int, IType.uint] := by rcases hb with rfl | rfl <;> simp
  have h1' := h b hb'
  rw [List.all_eq_true] at h1'
  have := h1' (w - 1) (by simp; omega)
  rw [show w - 1 + 1 = w by omega] at this
  simpa using this

example : cBfPromote .uint 32 = .uint ∧ cBfPromote .uint 31 = .int ∧ cBfPromote .int 32 = .int := by decide

end MirVerif.CArith
