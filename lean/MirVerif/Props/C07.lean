import MirVerif.Lemmas.CArithFold
import MirVerif.Lemmas.CArithBf
import MirVerif.Lemmas.BridgeC07
/-! # C07 — C programs compiled by c2mir behave as under the reference compiler.
Property theorems only (the proved fragment: conversions, opcode selection, compile-time folding,
bit-field access, small block moves).  The parser, declaration checker, initialiser flattening and
statement lowering are tested (checks/c07.py), not proved. -/
namespace MirVerif.CArith
open MirVerif MirVerif.Gen.C07

/-- **Integer promotions.**  For every integer type (standard or enumerated) the CURRENT
`integer_promotion` of c2mir.c returns exactly the type C11 6.3.1.1p2 prescribes. -/
theorem promotion_table (t : IType) : ofCTy (integer_promotion t.toCTy) = some (promote t) := by
  have h := gen_promotion_table
  rw [List.all_eq_true] at h
  simpa using h t (IType.mem_all t)

/-- **Usual arithmetic conversions.**  For every pair of integer types the CURRENT
`arithmetic_conversion` returns a type with the width and signedness of the C11 6.3.1.8 common
real type … -/
theorem usual_arith_table (t1 t2 : IType) :
    ∃ r, ofCTy (arithmetic_conversion t1.toCTy t2.toCTy) = some r ∧ sameRepr r (usualArith t1 t2) := by
  have h := gen_usual_arith_table
  rw [List.all_eq_true] at h
  have h1 := h t1 (IType.mem_all t1)
  rw [List.all_eq_true] at h1
  have h2 := h1 t2 (IType.mem_all t2)
  cases hc : ofCTy (arithmetic_conversion t1.toCTy t2.toCTy) with
  | none => rw [hc] at h2; cases h2
  | some r => rw [hc] at h2; exact ⟨r, rfl, of_decide_eq_true h2⟩

/-- … and it is literally the C type except that c2mir answers `unsigned long` where C says
`unsigned long long` (`unsigned long` × `long long`; same representation on LP64). -/
theorem usual_arith_exact (t1 t2 : IType) :
    ofCTy (arithmetic_conversion t1.toCTy t2.toCTy) = some (usualArith t1 t2) ∨
    (ofCTy (arithmetic_conversion t1.toCTy t2.toCTy) = some .ulong ∧ usualArith t1 t2 = .ullong) := by
  have h := gen_usual_arith_exact
  rw [List.all_eq_true] at h
  have h1 := h t1 (IType.mem_all t1)
  rw [List.all_eq_true] at h1
  have h2 := h1 t2 (IType.mem_all t2)
  simpa using h2

/-- signedness, bit size and MIR data type c2mir assigns to every integer type are those of LP64 -/
theorem type_repr_table (t : IType) :
    ((signed_integer_type_p t.toCTy ≠ 0) = (t.signed = true)) ∧ int_bit_size t.toCTy = (t.width : Int) ∧
    get_mir_type t.toCTy = mirTypeOf t := by
  have h1 := gen_signed_table; have h2 := gen_width_table; have h3 := gen_mir_type_table
  rw [List.all_eq_true] at h1 h2 h3
  exact ⟨of_decide_eq_true (h1 t (IType.mem_all t)), of_decide_eq_true (h2 t (IType.mem_all t)),
    of_decide_eq_true (h3 t (IType.mem_all t))⟩

theorem arith_of_promoted (t : IType) (ht : promote t = t) : t ∈ IType.arith := by
  cases t <;> first | decide | (exact absurd ht (by decide))

/-- **Opcode selection.**  For every binary operator (and its compound-assignment / increment
forms) and every type operands are converted to, the CURRENT `get_mir_type_insn_code` selects the
MIR instruction `insnFor` names (signed vs unsigned division, modulo, right shift; 32- vs 64-bit). -/
theorem insn_table (o : BinOp) (t : IType) (ht : promote t = t) (n : Int) (hn : n ∈ nodesOf o) :
    insnName (get_mir_type_insn_code t.toCTy n) = some (opName (insnFor o t).1 (insnFor o t).2) := by
  have h := gen_insn_table
  rw [List.all_eq_true] at h
  have h1 := h o (BinOp.mem_all o)
  rw [List.all_eq_true] at h1
  have h2 := h1 t (arith_of_promoted t ht)
  rw [List.all_eq_true] at h2
  simpa using h2 n hn

/-- conversion of integer values at compile time (`cast_value`) is the C conversion, for every
target type except `_Bool` … -/
theorem cast_value_meets_c (t : IType) (ht : t.std ≠ .bool) (x : W64) : castValue t x = cConv t x := by
  have hb : t ≠ .bool := by intro e; subst e; exact ht rfl
  have e8s : ∀ x : W64, (x.setWidth 8).signExtend 64 = wrapI 64 (x.toInt.bmod (2 ^ 8)) := fun x => by
    apply eq_wrapI; rw [BitVec.toInt_signExtend_of_le (by decide), BitVec.toInt_setWidth]
    rw [Int.bmod_bmod_of_dvd (by decide)]
  have e16s : ∀ x : W64, (x.setWidth 16).signExtend 64 = wrapI 64 (x.toInt.bmod (2 ^ 16)) := fun x => by
    apply eq_wrapI; rw [BitVec.toInt_signExtend_of_le (by decide), BitVec.toInt_setWidth]
    rw [Int.bmod_bmod_of_dvd (by decide)]
  have e32s : ∀ x : W64, (x.setWidth 32).signExtend 64 = wrapI 64 (x.toInt.bmod (2 ^ 32)) := fun x => by
    apply eq_wrapI; rw [BitVec.toInt_signExtend_of_le (by decide), BitVec.toInt_setWidth]
    rw [Int.bmod_bmod_of_dvd (by decide)]
  have e64s : ∀ x : W64, x = wrapI 64 (x.toInt.bmod (2 ^ 64)) := fun x => by
    apply eq_wrapI; rw [Int.bmod_bmod]; exact (BitVec.toInt_bmod_cancel x).symm
  have eu : ∀ (k : Nat) (x : W64), k ≤ 64 → (x.setWidth k).setWidth 64 = wrapN 64 (x.toNat % 2 ^ k) := fun k x hk => by
    apply eq_wrapN
    simp only [BitVec.toNat_setWidth]
    have : 2 ^ k ≤ 2 ^ 64 := Nat.pow_le_pow_right (by decide) hk
    have := Nat.mod_lt x.toNat (Nat.two_pow_pos k)
    omega
  have e64u : ∀ x : W64, x = wrapN 64 (x.toNat % 2 ^ 64) := fun x => by
    apply eq_wrapN; have := x.isLt; omega
  cases t <;> first
    | exact absurd rfl hb
    | (simp only [castValue, cConv, IType.width, IType.signed, IType.std, if_true, if_false,
        Bool.false_eq_true, reduceCtorEq]
       first | exact e8s x | exact e16s x | exact e32s x | exact e64s x
             | exact eu 8 x (by decide) | exact eu 16 x (by decide) | exact eu 32 x (by decide) | exact e64u x)

end MirVerif.CArith
