import MirVerif.Lemmas.Mir2C
import MirVerif.Lemmas.Mir2CSection
import MirVerif.Lemmas.BridgeC20
/-! # C20 — the C text emitted by mir2c computes what the MIR module computes.  Property theorems only.

Objects: `Gen.C20.*` are the tables regenerated on every run from `mir2c/mir2c.c` (rows of `out_insn`,
casts of the emitting helpers), `mir.h` (opcode enum) and `mir.c` (what `MIR_finish_func` rejects);
`cSem`/`cBranch`/`cCasts`/`cNeg`/`cBT`/`builtinS`/`builtinU` give the C11+gcc meaning of the emitted
statements (Model/Mir2C.lean, Model/Mir2COvf.lean); `docSem` & co. are the documented meaning of the
instructions (Model/Sem.lean, shared with C02); `printSection`/`printModule` model the item loop and
the data-section printer (Model/Mir2CSection.lean).

STATE AFTER THE REPAIRS IN /repo (fdd8881f uge, 90e55793 section loop, 88b8ee8f ldmov/switch, 363a5086 ubo):
`Model/Mir2CKnown.knownDeviations` is empty, so the theorems below are the FULL statements about the table
regenerated from the current source: every row meets the documentation, the section printer terminates
on every item list, every opcode outside `outsideVocabulary` (UNSPEC) has a case, UBO/UBNO test the
unsigned flag.  What was wrong before is kept only as statements about explicitly named OLD variants
(`oldUgeTmpl`, `printSection false`, `oldUboFlag`), never about `Gen`: `old_uge_template_wrong`,
`old_section_printer_diverges`, `old_section_printer_iff`, `old_ubo_flag_wrong`.

Still open, and not a defect of a row but of the approach (#20): without `-fwrapv` the emitted C is
*undefined* where MIR wraps — exactly the rows of `wrap_gap_rows` and `neg_gap`. -/
namespace MirVerif.Mir2C
open MirVerif

/-- no row of the integer table is a listed deviation any more -/
theorem no_deviation (a : AOp) (short : Bool) : deviates a short = false := by
  cases a <;> cases short <;> decide

/-- **Integer templates (full statement).**  Every integer arithmetic/logic/shift/compare opcode has
exactly one row in the regenerated table, and whenever the emitted statement `r = (T) a op (T) b;`
has a defined value under C11/gcc (with or without `-fwrapv`) — for ALL register contents — the
instruction is defined there too and the value has the documented bits. -/
theorem template_meets_doc (a : AOp) (short : Bool) :
    ∃ tm, (opName a short, tm) ∈ Gen.C20.intRows ∧
      (∀ tm', (opName a short, tm') ∈ Gen.C20.intRows → tm' = tm) ∧
      (∀ wrapv x y r, cSem wrapv tm x y = some r →
        ∃ r', docSem a short x y = some r' ∧ agree a short r r') := by
  have hc := gen_int_complete
  rw [List.all_eq_true] at hc
  have h1 := hc a (AOp.mem_all a)
  rw [List.all_eq_true] at h1
  have h2 := h1 short (by cases short <;> simp)
  have hm : (opName a short, expectedTmpl a short) ∈ Gen.C20.intRows := by simpa using h2
  refine ⟨expectedTmpl a short, hm, ?_, ?_⟩
  · intro tm' hk'
    exact nodup_keys_unique _ _ _ _ gen_int_functional hk' hm
  · intro wrapv x y r h
    have hd := no_deviation a short
    simp only [expectedTmpl, hd, Bool.false_eq_true, if_false] at h
    exact canon_meets_doc wrapv a short x y r h

/-- every row of the table is the row of some instruction (no stray or misnamed rows) -/
theorem template_rows_named (name : String) (tm : Tmpl) (h : (name, tm) ∈ Gen.C20.intRows) :
    ∃ a short, nameToOp name = some (a, short) ∧ tm = expectedTmpl a short := by
  have he := gen_int_expected
  rw [List.all_eq_true] at he
  have := he (name, tm) h
  simp only at this
  cases hn : nameToOp name with
  | none => rw [hn] at this; cases this
  | some p =>
    obtain ⟨a, s⟩ := p
    rw [hn] at this
    exact ⟨a, s, rfl, by simpa using this⟩

/-- compiled with `-fwrapv` the emitted statement is undefined exactly where the instruction is -/
theorem template_domain_wrapv (a : AOp) (short : Bool) (x y : W64) :
    cSem true (expectedTmpl a short) x y = none ↔ docSem a short x y = none := by
  have hd := no_deviation a short
  simp only [expectedTmpl, hd, Bool.false_eq_true, if_false]
  exact canon_domain a short x y

/-- **Gap #20, exact list.**  Without `-fwrapv` the emitted statement is undefined C although the
instruction is defined for some operands *exactly* for the rows ADD, ADDS, SUB, SUBS, MUL, MULS
(signed wrap-around); for every other row the option changes nothing. -/
theorem wrap_gap_rows (a : AOp) (short : Bool) :
    (∃ x y, cSem false (expectedTmpl a short) x y = none ∧ (docSem a short x y).isSome = true) ↔
      (a = .add ∨ a = .sub ∨ a = .mul) := by
  have hd := no_deviation a short
  simp only [expectedTmpl, hd, Bool.false_eq_true, if_false]
  constructor
  · rintro ⟨x, y, hn, hs⟩
    by_cases hg : (canonTmpl a short).wrapGap = true
    · cases a <;> cases short <;> simp_all [canonTmpl, Tmpl.wrapGap, common, promote, CTy.bits, CTy.signed]
    · rw [cSem_wrapv_irrel _ (by simpa using hg), canon_domain] at hn
      rw [hn] at hs; cases hs
  · rintro (rfl | rfl | rfl) <;> cases short
    · exact ⟨0x4000000040000000, 0x4000000040000000, by decide +kernel, by decide +kernel⟩
    · exact ⟨0x4000000040000000, 0x4000000040000000, by decide +kernel, by decide +kernel⟩
    · exact ⟨0x8000000080000000, 0x4000000040000000, by decide +kernel, by decide +kernel⟩
    · exact ⟨0x8000000080000000, 0x4000000040000000, by decide +kernel, by decide +kernel⟩
    · exact ⟨0x4000000040000000, 0x4000000040000000, by decide +kernel, by decide +kernel⟩
    · exact ⟨0x4000000040000000, 0x4000000040000000, by decide +kernel, by decide +kernel⟩

/-- the row `out_insn` had for `MIR_UGE` before fdd8881f (`out_uop3 (ctx, f, ops, ">")`) -/
def oldUgeTmpl : Tmpl := ⟨.u64, .u64, .cmp .gt⟩

/-- #16 (repaired): the OLD row yields 0 for `0 ≥u 0` where the documentation says 1; the row in the
regenerated table is covered by `template_meets_doc` -/
theorem old_uge_template_wrong :
    ∃ x y r r', cSem true oldUgeTmpl x y = some r ∧ docSem .uge false x y = some r' ∧ r ≠ r' :=
  ⟨0, 0, 0, 1, by decide +kernel, by decide +kernel, by decide⟩

/-- **Compare-and-branch templates**: exactly one row per opcode, and `if ((T) a op (T) b) goto l`
jumps exactly when the documented comparison holds. -/
theorem branch_template_meets_doc (a : AOp) (ha : a ∈ AOp.cmps) (short : Bool) :
    ∃ tm, (brName a short, tm) ∈ Gen.C20.brRows ∧
      (∀ tm', (brName a short, tm') ∈ Gen.C20.brRows → tm' = tm) ∧
      ∀ x y, cBranch tm x y = docBranch a short x y := by
  have hc := gen_br_complete
  rw [List.all_eq_true] at hc
  have h1 := hc a ha
  rw [List.all_eq_true] at h1
  have h2 := h1 short (by cases short <;> simp)
  have hm : (brName a short, canonTmpl a short) ∈ Gen.C20.brRows := by simpa using h2
  have hcmp : a.isCmp = true := by
    simp only [AOp.cmps, List.mem_cons, List.not_mem_nil, or_false] at ha
    rcases ha with rfl | rfl | rfl | rfl | rfl | rfl | rfl | rfl | rfl | rfl <;> rfl
  refine ⟨canonTmpl a short, hm, ?_, canon_branch a hcmp short⟩
  intro tm' hk'
  exact nodup_keys_unique _ _ _ _ gen_br_functional hk' hm

/-- **Extension templates** `r = (int64_t) (intK_t) a;` -/
theorem ext_template_meets_doc (k : Nat) (hk : k = 8 ∨ k = 16 ∨ k = 32) (signed : Bool) :
    ∃ cs, (extName k signed, cs) ∈ Gen.C20.castRows ∧
      (∀ cs', (extName k signed, cs') ∈ Gen.C20.castRows → cs' = cs) ∧
      ∀ x, cCasts cs x = docExt k signed x := by
  have hm : (extName k signed, canonCasts k signed) ∈ Gen.C20.castRows := by
    have hc := gen_cast_complete
    rcases hk with rfl | rfl | rfl <;> cases signed <;> simp_all
  refine ⟨_, hm, ?_, canon_casts k hk signed⟩
  intro cs' hk'
  exact nodup_keys_unique _ _ _ _ gen_cast_functional hk' hm

/-- **Negation templates** `r = - (T) a;`: where defined (always with `-fwrapv`) the documented result -/
theorem neg_template_meets_doc (short : Bool) :
    ((if short then "NEGS" else "NEG"), (if short then CTy.i32 else CTy.i64)) ∈ Gen.C20.negRows ∧
      (∀ x, cNeg true (if short then .i32 else .i64) x = some (docNeg short x)) ∧
      ∀ wrapv x r, cNeg wrapv (if short then .i32 else .i64) x = some r → r = docNeg short x := by
  refine ⟨?_, cNeg_true short, fun w x r h => cNeg_meets_doc w short x r h⟩
  rw [gen_neg_rows]; cases short <;> simp

/-- gap #20 for negation: `- (int64_t) INT64_MIN` / `- (int32_t) INT32_MIN` are undefined without `-fwrapv` -/
theorem neg_gap :
    cNeg false .i64 0x8000000000000000 = none ∧ cNeg false .i32 0x80000000 = none := by
  constructor <;> decide +kernel

/-- **BT/BF/BTS/BFS** (`if ([!](int64_t|int32_t) a) goto l;`, text pinned by `pinned_texts_unchanged`) -/
theorem bt_template_meets_doc (neg short : Bool) (x : W64) :
    cBT neg (if short then .i32 else .i64) x = docBT neg short x := cBT_meets_doc neg short x

/-- **Overflow instructions**: the stored result and the value of `__overflow` that `BO`/`BNO` test
after `ADDO/SUBO/MULO` (64-bit forms; `int64_t` builtin) are the documented result and signed flag -/
theorem ovf_signed_meets_doc (x y : W64) :
    builtinS .add x y = ((docAddO x y).1, (docAddO x y).2.1) ∧
    builtinS .sub x y = ((docSubO x y).1, (docSubO x y).2.1) ∧
    builtinS .mul x y = docMulO x y := ⟨rfl, rfl, rfl⟩

/-- 32-bit forms operate on `(int32_t) a`, `(int32_t) b` and store through `(int32_t *)&r` (low half of `r`) -/
theorem ovf_signed_short_meets_doc (x y : W64) :
    builtinS .add (lo32 x) (lo32 y) = ((docAddO (lo32 x) (lo32 y)).1, (docAddO (lo32 x) (lo32 y)).2.1) ∧
    builtinS .sub (lo32 x) (lo32 y) = ((docSubO (lo32 x) (lo32 y)).1, (docSubO (lo32 x) (lo32 y)).2.1) ∧
    builtinS .mul (lo32 x) (lo32 y) = docMulO (lo32 x) (lo32 y) := ⟨rfl, rfl, rfl⟩

/-- `UMULO[S]` (unsigned builtin) followed by `UBO`/`UBNO` -/
theorem umulo_meets_doc (x y : W64) :
    builtinU .mul x y = docUMulO x y ∧ builtinU .mul (lo32 x) (lo32 y) = docUMulO (lo32 x) (lo32 y) :=
  ⟨builtinU_mul x y, builtinU_mul _ _⟩

/-- the flag `UBO`/`UBNO` tested before 363a5086: the one `__overflow` variable set by the *signed* builtin -/
def oldUboFlag {n : Nat} (o : OvOp) (x y : BitVec n) : Bool := (builtinS o x y).2

/-- (repaired) the OLD flag is not the documented unsigned overflow: `-1 + 1` carries out of 64 bits -/
theorem old_ubo_flag_wrong : ∃ x y : W64, oldUboFlag .add x y ≠ (docAddO x y).2.2 :=
  ⟨0xFFFFFFFFFFFFFFFF, 1, by decide +kernel⟩

/-- **`UBO`/`UBNO` after `ADDO`/`SUBO[S]`** test `__uoverflow`, set from a second, unsigned builtin
evaluated before the result is stored (text pinned by `source_is_model`): the documented unsigned flag -/
theorem ubo_after_addo_meets_doc {n : Nat} (x y : BitVec n) :
    uboFlag .add x y = (docAddO x y).2.2 ∧ uboFlag .sub x y = (docSubO x y).2.2 := by
  have hc : unsignedFlagFromSigned = false := by decide
  simp only [uboFlag, hc, Bool.false_eq_true, if_false]
  exact ⟨builtinU_add_flag x y, builtinU_sub_flag x y⟩

/-- **The emitted ADDO/SUBO statement sequence, destination possibly equal to a source** (64-bit forms):
executed in the order the translator prints them (`gen_uoverflow_first`), the two statements leave the
documented result in `dst` and the documented signed and unsigned flags in `__overflow`/`__uoverflow`
— for every register file and every choice of `dst`, `s1`, `s2`, aliasing included. -/
theorem ovf_sequence_meets_doc (d s1 s2 : Nat) (r : Regs) :
    (let out := emitOvf64 Gen.C20.uoverflowBeforeStore .add d s1 s2 r
     out.1 d = (docAddO (r s1) (r s2)).1 ∧ out.2.1 = (docAddO (r s1) (r s2)).2.1 ∧
       out.2.2 = (docAddO (r s1) (r s2)).2.2) ∧
    (let out := emitOvf64 Gen.C20.uoverflowBeforeStore .sub d s1 s2 r
     out.1 d = (docSubO (r s1) (r s2)).1 ∧ out.2.1 = (docSubO (r s1) (r s2)).2.1 ∧
       out.2.2 = (docSubO (r s1) (r s2)).2.2) := by
  rw [gen_uoverflow_first]
  simp only [emitOvf64, if_true, Regs.set]
  refine ⟨⟨?_, ?_, builtinU_add_flag _ _⟩, ⟨?_, ?_, builtinU_sub_flag _ _⟩⟩ <;> simp [builtinS_add, builtinS_sub]

/-- the OTHER order (unsigned flag computed after the store) is wrong as soon as `dst = s1`: `-1 + 1` -/
theorem old_order_ovf_sequence_wrong :
    ∃ (d s1 s2 : Nat) (r : Regs),
      (emitOvf64 false .add d s1 s2 r).2.2 ≠ (docAddO (r s1) (r s2)).2.2 :=
  ⟨0, 0, 1, fun i => if i = 0 then 0xFFFFFFFFFFFFFFFF else 1, by decide +kernel⟩

/-- conversions, moves and floating-point rows have no Lean meaning; their emitted cast/operator text is
pinned (a changed cast breaks the gate) and they are executed against MIR_interp bit for bit -/
theorem other_rows_pinned :
    Gen.C20.otherRows = Canon.C20.otherRows ∧ Gen.C20.inlineCases = Canon.C20.inlineCases :=
  ⟨gen_other_rows, gen_inline_cases⟩

theorem expectedMissing_eq : expectedMissing = outsideVocabulary := by decide

/-- **Coverage (full statement).**  Every opcode of `MIR_insn_code_t` that `MIR_finish_func` does not
reject has a `case` in `out_insn`, except `outsideVocabulary` = UNSPEC (target-specific, no C meaning);
`gen_uncovered` (bridge) says the uncovered ones are exactly that list. -/
theorem coverage (c : Nat) (hc : c < Gen.C20.allOpcodes.length) (hr : c ∉ Gen.C20.rejectCodes)
    (hm : Gen.C20.allOpcodes.getD c "?" ∉ outsideVocabulary) : c ∈ Gen.C20.caseCodes := by
  by_cases hcase : c ∈ Gen.C20.caseCodes
  · exact hcase
  exfalso
  apply hm
  rw [← expectedMissing_eq, ← gen_uncovered]
  unfold uncoveredOpcodes uncoveredCodes
  apply List.mem_map.mpr
  refine ⟨c, ?_, rfl⟩
  simp [List.mem_filter, hc, hcase, hr]

/-- the case labels are opcodes (by name) and none is repeated -/
theorem coverage_codes_are_names :
    Gen.C20.caseCodes.map (fun c => Gen.C20.allOpcodes.getD c "?") = coveredOpcodes ∧
      Gen.C20.caseCodes.Nodup := ⟨gen_codes_are_names.1, gen_cases_wellformed.1⟩

/-- the two opcodes that had no case before 88b8ee8f are covered now -/
theorem ldmov_switch_covered : "LDMOV" ∈ coveredOpcodes ∧ "SWITCH" ∈ coveredOpcodes := by decide +kernel

theorem loop_is_fixed : loopFixed = true := by decide

/-- **Termination of the item loop / data-section printer (full statement).**  The loop of the current
source advances from the current item (`gen_section_advance`: the regenerated advance variable is
`curr_item`): for every item list the printer ends within `length + 1` steps per pass. -/
theorem section_printer_terminates (items : List Item) :
    (printModule loopFixed items (items.length + 1)).isSome = true := by
  rw [loop_is_fixed]; exact printModule_fixed_some items

/-- #17 (repaired): the OLD loop (`fixed = false`, advance from the first item) never ends on a named
data item followed by an anonymous one -/
theorem old_section_printer_diverges :
    ∃ items i, ∀ fuel, printSection false items i fuel = none := by
  refine ⟨[⟨true, .data⟩, ⟨false, .data⟩], 0, fun fuel => ?_⟩
  exact printSection_today_none _ 0 ⟨true, .data⟩ ⟨false, .data⟩ rfl rfl (by decide) rfl rfl (by decide) fuel

/-- the OLD loop ends on a (named, printable) section head **iff** no anonymous data item follows it -/
theorem old_section_printer_iff (items : List Item) (i : Nat) (hd : Item)
    (hhd : items[i]? = some hd) (hnamed : hd.named = true)
    (hkd : hd.kind ≠ .other ∧ hd.kind ≠ .exprData) :
    (∃ fuel, (printSection false items i fuel).isSome = true) ↔ noAnonFollower items i = true := by
  constructor
  · rintro ⟨fuel, hs⟩
    by_cases hna : noAnonFollower items i = true
    · exact hna
    exfalso
    unfold noAnonFollower at hna
    cases hit : items[i + 1]? with
    | none => simp [hit] at hna
    | some it =>
      simp only [hit, Bool.or_eq_true, beq_iff_eq, not_or, Bool.not_eq_true] at hna
      obtain ⟨⟨hn, h1⟩, h2⟩ := hna
      rw [printSection_today_none items i hd it hhd hnamed hkd hit hn ⟨h1, h2⟩ fuel] at hs
      cases hs
  · intro h; exact ⟨3, printSection_today_some items i h⟩

/-- the variant modelled as "the code that exists" is the one in the source, and the reviewed texts
(`out_*` helpers' emitted text, BT/BF, overflow insns, BO/BNO, the section loop) are unchanged -/
theorem source_is_model :
    Gen.C20.sectionAdvanceVar = expectedAdvance ∧ Gen.C20.helperText = Canon.C20.helperText ∧
      Gen.C20.pinned = Canon.C20.pinned := ⟨gen_section_advance, gen_helper_text, gen_pinned⟩

/-! ### non-vacuity: concrete, non-trivial instances of the hypotheses -/

-- a defined, non-trivial evaluation of an emitted 32-bit template and its documented counterpart
example : cSem false (canonTmpl .div true) 0xFFFFFFFF_80000000 0x1_00000002 = some 0xFFFFFFFF_C0000000 := by decide +kernel
example : docSem .div true 0xFFFFFFFF_80000000 0x1_00000002 = some 0xFFFFFFFF_C0000000 := by decide +kernel
-- a mixed-cast template (what a dropped cast would produce) is given a meaning too, and a different one
example : cSem true ⟨.i64, .u32, .bin .rsh⟩ 0xFFFFFFFF_80000000 0x1F = some 0xFFFFFFFF_FFFFFFFF := by decide +kernel
example : cSem true (canonTmpl .ursh true) 0xFFFFFFFF_80000000 0x1F = some 1 := by decide +kernel
-- a three-item section on which the fixed printer visits all members in both passes
example : printSection true [⟨true, .data⟩, ⟨false, .bss⟩, ⟨false, .refData⟩, ⟨true, .data⟩] 0 5
    = some [[0, 1, 2], [0, 1, 2]] := by decide
example : noAnonFollower [⟨true, .data⟩, ⟨true, .data⟩] 0 = true := by decide
example : (printSection false [⟨true, .data⟩, ⟨true, .data⟩] 0 3) = some [[0], [0]] := by decide
example : (5 : Nat) < Gen.C20.allOpcodes.length ∧ 5 ∉ Gen.C20.rejectCodes := by decide +kernel

end MirVerif.Mir2C
