/-! Property theorems for C20 (none yet). -/
