import MirVerif.Lemmas.SectionLink
import MirVerif.Props.C14.Load
/-!
# C14, part 2 — contents of `ref` and `expr` slots after `MIR_link`

`link env items` is the memory after the second loop of `MIR_link` ran over the loaded module
(`env` = the addresses `malloc`/thunk creation/import resolution happened to produce).
-/

namespace MirVerif.Section

/-- **no overlap**: within one section an earlier item ends before a later one starts -/
theorem ranges_disjoint (items : List Item) (i j : Nat) (p q : Placement) (it : Item) (hij : i < j)
    (hi : items[i]? = some it)
    (hp : (load items).pl[i]? = some (some p)) (hq : (load items).pl[j]? = some (some q))
    (hs : p.sec = q.sec) : p.off + it.plSize ≤ q.off :=
  ranges_ordered items i j p q it hij hi hp hq hs

example : ∃ (i j : Nat) (p q : Placement) (it : Item), i < j ∧ exItems[i]? = some it ∧
    (load exItems).pl[i]? = some (some p) ∧ (load exItems).pl[j]? = some (some q) ∧ p.sec = q.sec :=
  ⟨0, 2, ⟨0, 0⟩, ⟨0, 9⟩, _, by omega, rfl, by rw [load_eq_spec]; decide, by rw [load_eq_spec]; decide, rfl⟩

/-- which entries of the link loop can write a given byte of item `i`: only item `i` itself -/
theorem covers_only_self (env : Env) (items : List Item) (i : Nat) (p : Placement) (it : Item)
    (hi : items[i]? = some it) (hp : (load items).pl[i]? = some (some p)) (k : Nat) (hk : k < it.plSize)
    (z : Item × Option Placement) (hz : z ∈ items.zip (load items).pl)
    (hcov : covers env (load items).pl z p.sec (p.off + k)) : z = (it, some p) := by
  obtain ⟨j, hj⟩ := List.mem_iff_getElem?.1 hz
  obtain ⟨hj1, hj2⟩ := zip_getElem? _ _ _ _ hj
  obtain ⟨q, cs, hq, hc, hsec, hlo, hhi⟩ := hcov
  rw [hq] at hj2
  have hlen := linkCells_length _ _ _ _ hc
  rcases Nat.lt_trichotomy i j with h | h | h
  · have := ranges_ordered items i j p q it h hi hp hj2 hsec.symm
    omega
  · subst h
    rw [hi] at hj1; rw [hp] at hj2
    simp at hj1 hj2
    ext <;> simp [hj1, hq, hj2]
  · have := ranges_ordered items j i q p z.1 h hj1 hj2 hp hsec
    omega

/-- **link, general form**: after `MIR_link` the range of a `ref`/`expr` item holds exactly the cells
`memcpy`'d for it -/
theorem link_slot (env : Env) (items : List Item) (i : Nat) (p : Placement) (it : Item) (cs : List Cell)
    (hi : items[i]? = some it) (hp : (load items).pl[i]? = some (some p))
    (hc : linkCells env (load items).pl it = some cs) (k : Nat) (hk : k < cs.length) :
    link env items p.sec (p.off + k) = cs.getD k .undef := by
  have hlen := linkCells_length _ _ _ _ hc
  have hmem : (it, some p) ∈ items.zip (load items).pl :=
    List.mem_iff_getElem?.2 ⟨i, by rw [List.getElem?_zip_eq_some]; exact ⟨hi, hp⟩⟩
  have := linkLoop_unique env (load items).pl (items.zip (load items).pl) (load items).g p.sec (p.off + k)
    it p cs hmem hc rfl (by omega) (by omega)
    (fun z hz hcov => covers_only_self env items i p it hi hp k (by omega) z hz hcov)
  simp only [link]
  rw [this]; congr 1; omega

/-- **ref items hold the referenced item's address plus displacement** (little-endian, 64 bit) -/
theorem link_ref (env : Env) (items : List Item) (i : Nat) (p : Placement) (n : Option String) (j : Nat)
    (disp : Int) (hi : items[i]? = some (.ref n j disp)) (hp : (load items).pl[i]? = some (some p))
    (k : Nat) (hk : k < 8) :
    link env items p.sec (p.off + k)
      = .byte (refValue env (load items).pl j disp / 256 ^ k % 256) := by
  have := link_slot env items i p _ (leCells (refValue env (load items).pl j disp) Ty.p.size) hi hp rfl k
    (by simpa [leCells_length, Ty.size] using hk)
  rw [this, leCells_getD _ _ _ (by simpa [Ty.size] using hk)]

example : ∃ (i : Nat) (p : Placement) (n : Option String) (j : Nat) (disp : Int),
    exItems[i]? = some (Item.ref n j disp) ∧ (load exItems).pl[i]? = some (some p) :=
  ⟨4, ⟨4, 0⟩, none, 0, 5, rfl, by rw [load_eq_spec]; decide⟩

/-- the referenced address is the base of the target's section plus the target's offset when the
target is a data item of the module -/
theorem ref_target_addr (env : Env) (items : List Item) (j : Nat) (q : Placement)
    (hq : (load items).pl[j]? = some (some q)) :
    addrOf env (load items).pl j = env.base q.sec + q.off := by
  simp [addrOf, hq]

/-- **expr items hold the value of their expression function**, truncated to the result type
(for `long double` the 10 value bytes) -/
theorem link_expr (env : Env) (items : List Item) (i : Nat) (p : Placement) (n : Option String) (ty : Ty)
    (v : Nat) (hi : items[i]? = some (.expr n ty v)) (hp : (load items).pl[i]? = some (some p))
    (k : Nat) (hk : k < (if ty = .ld then 10 else ty.size)) :
    link env items p.sec (p.off + k) = .byte (v / 256 ^ k % 256) := by
  have hk' : k < (exprCells ty v).length := by
    cases ty <;> simp [exprCells, leCells_length, Ty.size] at hk ⊢ <;> omega
  have := link_slot env items i p _ (exprCells ty v) hi hp rfl k hk'
  rw [this, exprCells_getD ty v k hk]

example : ∃ (i : Nat) (p : Placement) (n : Option String) (ty : Ty) (v : Nat),
    exItems[i]? = some (Item.expr n ty v) ∧ (load exItems).pl[i]? = some (some p) :=
  ⟨5, ⟨5, 0⟩, some "e", .i16, 70000, rfl, by rw [load_eq_spec]; decide⟩

/-- **link leaves data, bss and lref ranges alone** -/
theorem link_preserves (env : Env) (items : List Item) (i : Nat) (p : Placement) (it : Item)
    (hi : items[i]? = some it) (hp : (load items).pl[i]? = some (some p))
    (hc : linkCells env (load items).pl it = none) (k : Nat) (hk : k < it.plSize) :
    link env items p.sec (p.off + k) = (load items).g p.sec (p.off + k) := by
  simp only [link]
  apply linkLoop_frame
  intro z hz hcov
  have := covers_only_self env items i p it hi hp k hk z hz hcov
  obtain ⟨q, cs, _, hc', _⟩ := hcov
  rw [this] at hc'
  simp [hc] at hc'

/-- data still holds its declared bytes after link -/
theorem link_data (env : Env) (items : List Item) (i : Nat) (p : Placement) (n : Option String) (ty : Ty)
    (nel : Nat) (bytes : List Nat)
    (hi : items[i]? = some (.data n ty nel bytes)) (hp : (load items).pl[i]? = some (some p))
    (hlen : bytes.length = nel * ty.size) (k : Nat) (hk : k < bytes.length) :
    link env items p.sec (p.off + k) = .byte bytes[k] := by
  rw [link_preserves env items i p _ hi hp (by simp [linkCells]) k (by simp [Item.plSize]; omega)]
  exact image_data items i p n ty nel bytes hi hp hlen k hk

/-- bss is still zero after link -/
theorem link_bss (env : Env) (items : List Item) (i : Nat) (p : Placement) (n : Option String) (len : Nat)
    (hi : items[i]? = some (.bss n len)) (hp : (load items).pl[i]? = some (some p))
    (k : Nat) (hk : k < len) :
    link env items p.sec (p.off + k) = .byte 0 := by
  rw [link_preserves env items i p _ hi hp (by simp [linkCells]) k (by simpa [Item.plSize] using hk)]
  exact image_bss items i p n len hi hp k hk

end MirVerif.Section
