import MirVerif.Lemmas.SectionModule
/-!
# C14 — loaded data items form contiguous, correctly initialised sections

All theorems are about `MirVerif.Section.load` (= the driving loop of `MIR_load_module` calling the two
passes of `load_bss_data_section`) for **every** item list; `pl[i]` is the placement of item `i`:
`some ⟨sec, off⟩` with `sec` the index of its section head and `off = item->addr - head->addr`, or
`none` for a non-data item.

What the code really does (`first_placement` + `next_placement` determine `pl` completely):
* a data/bss/ref/lref/expr item **without a name** that directly follows a placed item joins its
  section at `off + size` (the documented guarantee, `maximal`);
* a **named** data item, and any data item that follows a function/proto/import/export/forward item,
  starts a new section at offset 0 (`named_starts_section`, `after_other_starts_section`);
* the first item of the module, if a data item, starts a section.

Not proved here (only checked by the correspondence in `checks/c14.py`): that the C functions behave
like the model; the values the engines write into `lref` slots; `malloc` returning distinct blocks.
The `ref`/`expr` slots after `MIR_link` are in `Props/C14/Link.lean`.
-/

namespace MirVerif.Section

/-- a module used for the non-vacuity examples: `a: i8 7; i64 …; bss 3; <func>; ref a,5; e: expr <i16 func>` -/
def exItems : List Item :=
  [.data (some "a") .i8 1 [7], .data none .i64 1 [1, 2, 3, 4, 5, 6, 7, 8], .bss none 3, .other,
   .ref none 0 5, .expr (some "e") .i16 70000, .lref none 0 none 1]

/-! ## the table of `_MIR_type_size` -/

/-- every size is positive and at most 16 -/
theorem type_sizes (t : Ty) : 0 < t.size ∧ t.size ≤ 16 := by
  cases t <;> decide

/-! ## which items get an address, and the recursion that determines every placement -/

theorem pl_length (items : List Item) : (load items).pl.length = items.length :=
  loadModule_length 0 _ items

/-- the two nested loops compute the same placements as one left-to-right pass -/
theorem load_eq_spec (items : List Item) : (load items).pl = placeSpec none 0 items :=
  loadModule_pl_eq_spec 0 _ items

example : (load exItems).pl
    = [some ⟨0, 0⟩, some ⟨0, 1⟩, some ⟨0, 9⟩, none, some ⟨4, 0⟩, some ⟨5, 0⟩, some ⟨5, 2⟩] := by
  rw [load_eq_spec]; decide

/-- the first item starts a section iff it is a data item -/
theorem first_placement (it : Item) (tl : List Item) :
    (load (it :: tl)).pl[0]? = some (if it.isSec then some ⟨0, 0⟩ else none) := by
  rw [load_eq_spec]
  by_cases h : it.isSec = true <;> simp [placeSpec, h]

/-- the placement of item `i+1` as a function of the placement of item `i` — exactly what the two
nested loops do. -/
theorem next_placement (items : List Item) (i : Nat) (it it' : Item) (q : Option Placement)
    (hi : items[i]? = some it) (hi' : items[i + 1]? = some it') (hq : (load items).pl[i]? = some q) :
    (load items).pl[i + 1]? = some (
      if it'.isSec then
        match q with
        | some p => if it'.name.isNone then some ⟨p.sec, p.off + it.plSize⟩ else some ⟨i + 1, 0⟩
        | none => some ⟨i + 1, 0⟩
      else none) := by
  rw [load_eq_spec] at hq ⊢
  have hd := placeSpec_drop none 0 items i it q hi hq
  have hl : items.drop (i + 1) = it' :: items.drop (i + 1 + 1) := by
    rw [List.drop_eq_getElem?_toList_append, hi']; rfl
  have : (placeSpec none 0 items)[i + 1]? = ((placeSpec none 0 items).drop (i + 1))[0]? := by simp
  rw [this, hd, hl]
  cases q with
  | none => by_cases h : it'.isSec = true <;> simp [placeSpec, curAfter, h]
  | some p =>
    by_cases h : it'.isSec = true
    · by_cases hn : it'.name.isNone = true <;> simp [placeSpec, curAfter, h, hn]
    · simp [placeSpec, h]

example : ∃ i it it' q, exItems[i]? = some it ∧ exItems[i + 1]? = some it' ∧
    (load exItems).pl[i]? = some q := ⟨3, _, _, none, rfl, rfl, by rw [load_eq_spec]; decide⟩

private theorem lt_of_getElem? {α} {l : List α} {i : Nat} {a : α} (h : l[i]? = some a) : i < l.length := by
  rcases Nat.lt_or_ge i l.length with h' | h'
  · exact h'
  · simp [List.getElem?_eq_none h'] at h

/-- exactly the data/bss/ref/lref/expr items get an address in `MIR_load_module` -/
theorem placed_iff_isSec (items : List Item) (i : Nat) (it : Item) (hi : items[i]? = some it) :
    (∃ p, (load items).pl[i]? = some (some p)) ↔ it.isSec = true := by
  have hlen := pl_length items
  have hlt := lt_of_getElem? hi
  cases i with
  | zero =>
    cases items with
    | nil => simp at hi
    | cons x tl =>
      simp at hi; subst hi
      rw [first_placement]
      by_cases h : x.isSec = true <;> simp [h]
  | succ i =>
    obtain ⟨it0, h0⟩ : ∃ it0, items[i]? = some it0 := ⟨items[i]'(by omega), by simp⟩
    obtain ⟨q, hq⟩ : ∃ q, (load items).pl[i]? = some q := ⟨(load items).pl[i]'(by omega), by simp⟩
    rw [next_placement items i it0 it q h0 hi hq]
    by_cases h : it.isSec = true
    · cases q with
      | none => simp [h]
      | some p => by_cases hn : it.name.isNone = true <;> simp [h, hn]
    · simp [h]

theorem not_placed_of_other (items : List Item) (i : Nat) (it : Item) (hi : items[i]? = some it)
    (h : it.isSec = false) : (load items).pl[i]? = some none := by
  have hlen := pl_length items
  have hlt := lt_of_getElem? hi
  obtain ⟨q, hq⟩ : ∃ q, (load items).pl[i]? = some q := ⟨(load items).pl[i]'(by omega), by simp⟩
  cases q with
  | none => exact hq
  | some p => have := (placed_iff_isSec items i it hi).1 ⟨p, hq⟩; simp [h] at this

/-! ## contiguity -/

/-- the section head of a placed item is at or before it, is a data item, and sits at offset 0 of its
own section -/
theorem section_head (items : List Item) (i : Nat) (p : Placement)
    (hp : (load items).pl[i]? = some (some p)) :
    p.sec ≤ i ∧ (∃ h, items[p.sec]? = some h ∧ h.isSec = true) ∧
    (load items).pl[p.sec]? = some (some ⟨p.sec, 0⟩) := by
  obtain ⟨a, _, _, d, _, f⟩ := load_mem items i p hp
  exact ⟨a, d, f⟩

/-- **contiguous (first offset 0)**: an item that is its own section head is at offset 0 -/
theorem head_offset_zero (items : List Item) (i : Nat) (p : Placement)
    (hp : (load items).pl[i]? = some (some p)) (h : p.sec = i) : p.off = 0 := by
  have := (section_head items i p hp).2.2
  rw [h, hp] at this
  simp at this
  rw [this]

/-- **contiguous**: consecutive items of one section are adjacent in memory -/
theorem contiguous (items : List Item) (i : Nat) (p q : Placement) (it : Item)
    (hi : items[i]? = some it)
    (hp : (load items).pl[i]? = some (some p)) (hq : (load items).pl[i + 1]? = some (some q))
    (hs : q.sec = p.sec) : q.off = p.off + it.plSize := by
  have hlen := pl_length items
  have hlt := lt_of_getElem? hq
  obtain ⟨it', hi'⟩ : ∃ it', items[i + 1]? = some it' := ⟨items[i + 1]'(by omega), by simp⟩
  have hn := next_placement items i it it' (some p) hi hi' hp
  rw [hq] at hn
  have hsec := (section_head items i p hp).1
  by_cases h : it'.isSec = true
  · by_cases hnm : it'.name.isNone = true
    · simp [h, hnm] at hn; rw [hn]
    · simp [h, hnm] at hn; rw [hn] at hs; simp at hs; omega
  · simp [h] at hn

example : ∃ i p q it, exItems[i]? = some it ∧ (load exItems).pl[i]? = some (some p) ∧
    (load exItems).pl[i + 1]? = some (some q) ∧ q.sec = p.sec ∧ it.plSize = 8 :=
  ⟨1, ⟨0, 1⟩, ⟨0, 9⟩, _, rfl, by rw [load_eq_spec]; decide, by rw [load_eq_spec]; decide, rfl, rfl⟩

/-- **contiguous, closed form**: each item is at the offset given by the sizes of its predecessors in
the section -/
theorem offset_closed_form (items : List Item) (i : Nat) (p : Placement)
    (hp : (load items).pl[i]? = some (some p)) :
    p.off = extent ((items.drop p.sec).take (i - p.sec)) := by
  obtain ⟨_, h2, _⟩ := load_mem items i p hp
  have := placeLoop_offs _ _ _ _ _ _ h2
  simpa using this

/-! ## maximality -/

/-- **maximal** (the documented guarantee): an anonymous data/bss/ref/lref/expr item directly after a
placed item belongs to the same section, immediately behind it -/
theorem maximal (items : List Item) (i : Nat) (p : Placement) (it it' : Item)
    (hi : items[i]? = some it) (hi' : items[i + 1]? = some it')
    (hp : (load items).pl[i]? = some (some p))
    (hs : it'.isSec = true) (hn : it'.name = none) :
    (load items).pl[i + 1]? = some (some ⟨p.sec, p.off + it.plSize⟩) := by
  rw [next_placement items i it it' (some p) hi hi' hp]
  simp [hs, hn]

example : ∃ i p it it', exItems[i]? = some it ∧ exItems[i + 1]? = some it' ∧
    (load exItems).pl[i]? = some (some p) ∧ it'.isSec = true ∧ it'.name = none :=
  ⟨5, ⟨5, 0⟩, _, _, rfl, rfl, by rw [load_eq_spec]; decide, rfl, rfl⟩

/-- a **named** data item always starts a new section, whatever precedes it -/
theorem named_starts_section (items : List Item) (i : Nat) (it : Item)
    (hi : items[i]? = some it) (hs : it.isSec = true) (hn : it.name ≠ none) :
    (load items).pl[i]? = some (some ⟨i, 0⟩) := by
  have hlen := pl_length items
  have hlt := lt_of_getElem? hi
  have hnn : it.name.isNone = false := by
    cases h : it.name with
    | none => exact absurd h hn
    | some _ => rfl
  cases i with
  | zero =>
    cases items with
    | nil => simp at hi
    | cons x tl => simp at hi; subst hi; rw [first_placement]; simp [hs]
  | succ i =>
    obtain ⟨it0, h0⟩ : ∃ it0, items[i]? = some it0 := ⟨items[i]'(by omega), by simp⟩
    obtain ⟨q, hq⟩ : ∃ q, (load items).pl[i]? = some q := ⟨(load items).pl[i]'(by omega), by simp⟩
    rw [next_placement items i it0 it q h0 hi hq]
    cases q <;> simp [hs, hnn]

example : ∃ i it, exItems[i]? = some it ∧ it.isSec = true ∧ it.name ≠ none ∧ 0 < i :=
  ⟨5, _, rfl, rfl, by simp [Item.name], by omega⟩

/-- a data item directly after a func/proto/import/export/forward item starts a new section **even if
it is anonymous** -/
theorem after_other_starts_section (items : List Item) (i : Nat) (it it' : Item)
    (hi : items[i]? = some it) (hi' : items[i + 1]? = some it')
    (hns : it.isSec = false) (hs : it'.isSec = true) :
    (load items).pl[i + 1]? = some (some ⟨i + 1, 0⟩) := by
  rw [next_placement items i it it' none hi hi' (not_placed_of_other items i it hi hns)]
  simp [hs]

example : ∃ i it it', exItems[i]? = some it ∧ exItems[i + 1]? = some it' ∧ it.isSec = false ∧
    it'.isSec = true ∧ it'.name = none := ⟨3, _, _, rfl, rfl, rfl, rfl, rfl⟩

/-! ## the two passes agree; bounds -/

/-- **sizes_agree**: for every section, the placement pass stops exactly at the total the size pass
computed (before rounding) -/
theorem sizes_agree (l : List Item) (m : Mem) :
    (placeLoop 0 m true l).endAddr = sizeLoop 0 true l := by
  simpa using placeLoop_endAddr 0 m true l

example : sizeLoop 0 true exItems = 12 ∧ sectionSize exItems = 16 := by decide

/-- the block is the size-pass total rounded up to the next multiple of 8 -/
theorem alloc_tight (l : List Item) :
    sizeLoop 0 true l ≤ sectionSize l ∧ sectionSize l < sizeLoop 0 true l + 8 ∧ sectionSize l % 8 = 0 :=
  ⟨le_round8 _, round8_lt _, round8_mod _⟩

/-- **in_bounds**: every item lies inside the block allocated for its section, and that block (with
exactly this size) is the one recorded for the section head -/
theorem in_bounds (items : List Item) (i : Nat) (p : Placement) (it : Item)
    (hi : items[i]? = some it) (hp : (load items).pl[i]? = some (some p)) :
    p.off + it.plSize ≤ sectionSize (items.drop p.sec) ∧
    ∃ c, (⟨p.sec, sectionSize (items.drop p.sec), c⟩ : SecInfo) ∈ (load items).secs := by
  obtain ⟨hle, h2, _, _, h5, _⟩ := load_mem items i p hp
  refine ⟨?_, _, h5⟩
  have ho := placeLoop_offs _ _ _ _ _ _ h2
  have hj : i - p.sec < (secRun items p.sec).offs.length := lt_of_getElem? h2
  have hit : (items.drop p.sec)[i - p.sec]? = some it := by
    rw [List.getElem?_drop]; rw [← hi]; congr 1; omega
  have h1 := extent_take_succ _ _ _ hit
  have h3 := extent_take_mono (items.drop p.sec) (i - p.sec + 1) (secRun items p.sec).offs.length (by omega)
  have h4 := placeLoop_extent 0 (fun _ => Cell.undef) true (items.drop p.sec)
  have h6 := placeLoop_endAddr 0 (fun _ => Cell.undef) true (items.drop p.sec)
  have h7 := le_round8 (sizeLoop 0 true (items.drop p.sec))
  simp only [secRun] at h3 hj ho
  simp only [sectionSize]
  omega

example : ∃ (i : Nat) (p : Placement) (it : Item), exItems[i]? = some it ∧ (load exItems).pl[i]? = some (some p) ∧
    p.off + it.plSize = 12 ∧ sectionSize (exItems.drop p.sec) = 16 :=
  ⟨2, ⟨0, 9⟩, _, rfl, by rw [load_eq_spec]; decide, rfl, by decide⟩

/-! ## contents after `MIR_load_module` -/

/-- **image_spec** (general form): the bytes in the range of item `i` are what the placement pass
wrote for it; `ref`/`lref`/`expr` ranges are not written by the loader -/
theorem image_item (items : List Item) (i : Nat) (p : Placement) (it : Item)
    (hi : items[i]? = some it) (hp : (load items).pl[i]? = some (some p)) (k : Nat) (hk : k < it.plSize) :
    (load items).g p.sec (p.off + k)
      = if k < (loadCells it).length then (loadCells it).getD k .undef else .undef := by
  obtain ⟨hle, h2, h3, _⟩ := load_mem items i p hp
  have hit : (items.drop p.sec)[i - p.sec]? = some it := by
    rw [List.getElem?_drop]; rw [← hi]; congr 1; omega
  rw [h3]
  exact placeLoop_mem_item 0 (fun _ => Cell.undef) true _ _ _ _ hit h2 k hk

/-- **image_spec, data**: a data item holds its declared bytes -/
theorem image_data (items : List Item) (i : Nat) (p : Placement) (n : Option String) (ty : Ty)
    (nel : Nat) (bytes : List Nat)
    (hi : items[i]? = some (.data n ty nel bytes)) (hp : (load items).pl[i]? = some (some p))
    (hlen : bytes.length = nel * ty.size) (k : Nat) (hk : k < bytes.length) :
    (load items).g p.sec (p.off + k) = .byte bytes[k] := by
  have := image_item items i p _ hi hp k (by simp [Item.plSize]; omega)
  rw [this]
  simp [loadCells, dataCells, hlen ▸ hk, hk]

/-- **image_spec, bss**: a bss item is all zero -/
theorem image_bss (items : List Item) (i : Nat) (p : Placement) (n : Option String) (len : Nat)
    (hi : items[i]? = some (.bss n len)) (hp : (load items).pl[i]? = some (some p))
    (k : Nat) (hk : k < len) :
    (load items).g p.sec (p.off + k) = .byte 0 := by
  have := image_item items i p _ hi hp k (by simpa [Item.plSize] using hk)
  rw [this]
  simp [loadCells, hk]

example : ∃ (i : Nat) (p : Placement) (n : Option String) (len : Nat), exItems[i]? = some (Item.bss n len) ∧ (load exItems).pl[i]? = some (some p) ∧ 0 < len :=
  ⟨2, ⟨0, 9⟩, none, 3, rfl, by rw [load_eq_spec]; decide, by decide⟩

example : ∃ (i : Nat) (p : Placement) (n : Option String) (ty : Ty) (nel : Nat) (bytes : List Nat),
    exItems[i]? = some (Item.data n ty nel bytes) ∧
    (load exItems).pl[i]? = some (some p) ∧ bytes.length = nel * ty.size ∧ 0 < bytes.length :=
  ⟨1, ⟨0, 1⟩, none, .i64, 1, _, rfl, by rw [load_eq_spec]; decide, by decide, by decide⟩

/-- `ref`/`lref`/`expr` slots are reserved but left as `malloc` returned them until link/func preparation -/
theorem image_slot_after_load (items : List Item) (i : Nat) (p : Placement) (it : Item)
    (hi : items[i]? = some it) (hp : (load items).pl[i]? = some (some p))
    (hslot : loadCells it = []) (k : Nat) (hk : k < it.plSize) :
    (load items).g p.sec (p.off + k) = .undef := by
  rw [image_item items i p it hi hp k hk]; simp [hslot]

/-- nothing is written at or beyond the end of the last item (the rounding padding stays untouched) -/
theorem image_padding (items : List Item) (i : Nat) (p : Placement)
    (hp : (load items).pl[i]? = some (some p)) (x : Nat)
    (hx : sizeLoop 0 true (items.drop p.sec) ≤ x) :
    (load items).g p.sec x = .undef := by
  obtain ⟨_, _, h3, _⟩ := load_mem items i p hp
  rw [h3]
  have := placeLoop_endAddr 0 (fun _ => Cell.undef) true (items.drop p.sec)
  rw [secRun, placeLoop_mem_above _ _ _ _ _ (by omega)]

/-- the block of a section, as a list of `sectionSize` cells, read at an offset -/
theorem image_at (r : LoadRes) (s : SecInfo) (x : Nat) (h : x < s.size) :
    (image r s)[x]? = some (r.g s.head x) := by
  simp [image, h]

/-- **image_spec** (list form): in the allocated block of its section (exactly `sectionSize` bytes,
nothing read outside it) a data item shows its declared bytes and a bss item zeros -/
theorem image_spec (items : List Item) (i : Nat) (p : Placement) (it : Item)
    (hi : items[i]? = some it) (hp : (load items).pl[i]? = some (some p)) (c k : Nat)
    (hk : k < it.plSize) :
    (image (load items) ⟨p.sec, sectionSize (items.drop p.sec), c⟩)[p.off + k]?
      = some (if k < (loadCells it).length then (loadCells it).getD k .undef else .undef) := by
  have hb := (in_bounds items i p it hi hp).1
  rw [image_at _ _ _ (by simp only []; omega)]
  simp only []
  rw [image_item items i p it hi hp k hk]

end MirVerif.Section
