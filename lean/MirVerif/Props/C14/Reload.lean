import MirVerif.Lemmas.SectionReload
import MirVerif.Props.C14.Link
/-!
# C14, part 3 — loading an already loaded module again

`reload items g` is the memory after `MIR_load_module` ran a second time on a module whose items all
have their addresses, starting from **any** memory `g` (whatever the program stored meanwhile);
`relink env items g` is `MIR_link` after that.  Nothing moves (the placements are those of the first
load), and every item is initialised again.
-/

namespace MirVerif.Section

/-- which entries of the reload loop can write a given byte of item `i`: only item `i` itself -/
theorem rcovers_only_self (items : List Item) (i : Nat) (p : Placement) (it : Item)
    (hi : items[i]? = some it) (hp : (load items).pl[i]? = some (some p)) (k : Nat) (hk : k < it.plSize)
    (z : Item × Option Placement) (hz : z ∈ items.zip (load items).pl)
    (hcov : rcovers z p.sec (p.off + k)) : z = (it, some p) := by
  obtain ⟨j, hj⟩ := List.mem_iff_getElem?.1 hz
  obtain ⟨hj1, hj2⟩ := zip_getElem? _ _ _ _ hj
  obtain ⟨q, hq, hsec, hlo, hhi⟩ := hcov
  rw [hq] at hj2
  have hlen := loadCells_length_le z.1
  rcases Nat.lt_trichotomy i j with h | h | h
  · have := ranges_ordered items i j p q it h hi hp hj2 hsec.symm
    omega
  · subst h
    rw [hi] at hj1; rw [hp] at hj2
    simp at hj1 hj2
    ext <;> simp [hj1, hq, hj2]
  · have := ranges_ordered items j i q p z.1 h hj1 hj2 hp hsec
    omega

/-- **reload, general form**: after the second load the range of item `i` holds what the placement pass
writes for it (data bytes, zeros for bss) *whatever the memory held before*; `ref`/`lref`/`expr` ranges
are left as they were (until link / function preparation) -/
theorem reload_item (items : List Item) (g : GMem) (i : Nat) (p : Placement) (it : Item)
    (hi : items[i]? = some it) (hp : (load items).pl[i]? = some (some p)) (k : Nat) (hk : k < it.plSize) :
    reload items g p.sec (p.off + k)
      = if k < (loadCells it).length then (loadCells it).getD k .undef else g p.sec (p.off + k) := by
  have hmem : (it, some p) ∈ items.zip (load items).pl :=
    List.mem_iff_getElem?.2 ⟨i, by rw [List.getElem?_zip_eq_some]; exact ⟨hi, hp⟩⟩
  simp only [reload]
  split
  · rename_i hlt
    rw [reloadLoop_unique _ g p.sec (p.off + k) it p hmem rfl (by omega) (by omega)
      (fun z hz hcov => rcovers_only_self items i p it hi hp k hk z hz hcov)]
    congr 1; omega
  · rename_i hge
    apply reloadLoop_frame
    intro z hz hcov
    have := rcovers_only_self items i p it hi hp k hk z hz hcov
    obtain ⟨q, hq, _, _, hhi⟩ := hcov
    rw [this] at hq hhi
    simp at hq; subst hq
    simp at hhi; omega

/-- **bss is zero again after a second load**, whatever the program stored there -/
theorem reload_bss (items : List Item) (g : GMem) (i : Nat) (p : Placement) (n : Option String) (len : Nat)
    (hi : items[i]? = some (.bss n len)) (hp : (load items).pl[i]? = some (some p))
    (k : Nat) (hk : k < len) :
    reload items g p.sec (p.off + k) = .byte 0 := by
  rw [reload_item items g i p _ hi hp k (by simpa [Item.plSize] using hk)]
  simp [loadCells, hk]

/-- **data holds its declared bytes again after a second load** -/
theorem reload_data (items : List Item) (g : GMem) (i : Nat) (p : Placement) (n : Option String) (ty : Ty)
    (nel : Nat) (bytes : List Nat)
    (hi : items[i]? = some (.data n ty nel bytes)) (hp : (load items).pl[i]? = some (some p))
    (hlen : bytes.length = nel * ty.size) (k : Nat) (hk : k < bytes.length) :
    reload items g p.sec (p.off + k) = .byte bytes[k] := by
  rw [reload_item items g i p _ hi hp k (by simp [Item.plSize]; omega)]
  simp [loadCells, dataCells, hlen ▸ hk, hk]

example : ∃ (i : Nat) (p : Placement) (n : Option String) (len : Nat), exItems[i]? = some (Item.bss n len) ∧
    (load exItems).pl[i]? = some (some p) ∧ 0 < len :=
  ⟨2, ⟨0, 9⟩, none, 3, rfl, by rw [load_eq_spec]; decide, by decide⟩

/-- **link after a second load**: `ref`/`expr` ranges hold the cells `MIR_link` copies, whatever the
memory held before the reload -/
theorem relink_slot (env : Env) (items : List Item) (g : GMem) (i : Nat) (p : Placement) (it : Item)
    (cs : List Cell) (hi : items[i]? = some it) (hp : (load items).pl[i]? = some (some p))
    (hc : linkCells env (load items).pl it = some cs) (k : Nat) (hk : k < cs.length) :
    relink env items g p.sec (p.off + k) = cs.getD k .undef := by
  have hlen := linkCells_length _ _ _ _ hc
  have hmem : (it, some p) ∈ items.zip (load items).pl :=
    List.mem_iff_getElem?.2 ⟨i, by rw [List.getElem?_zip_eq_some]; exact ⟨hi, hp⟩⟩
  have := linkLoop_unique env (load items).pl (items.zip (load items).pl) (reload items g) p.sec (p.off + k)
    it p cs hmem hc rfl (by omega) (by omega)
    (fun z hz hcov => covers_only_self env items i p it hi hp k (by omega) z hz hcov)
  simp only [relink]
  rw [this]; congr 1; omega

/-- ref items hold target address + displacement again -/
theorem relink_ref (env : Env) (items : List Item) (g : GMem) (i : Nat) (p : Placement) (n : Option String)
    (j : Nat) (disp : Int) (hi : items[i]? = some (.ref n j disp))
    (hp : (load items).pl[i]? = some (some p)) (k : Nat) (hk : k < 8) :
    relink env items g p.sec (p.off + k)
      = .byte (refValue env (load items).pl j disp / 256 ^ k % 256) := by
  have := relink_slot env items g i p _ (leCells (refValue env (load items).pl j disp) Ty.p.size) hi hp rfl k
    (by simpa [leCells_length, Ty.size] using hk)
  rw [this, leCells_getD _ _ _ (by simpa [Ty.size] using hk)]

/-- data and bss keep their re-initialised contents through that link -/
theorem relink_preserves (env : Env) (items : List Item) (g : GMem) (i : Nat) (p : Placement) (it : Item)
    (hi : items[i]? = some it) (hp : (load items).pl[i]? = some (some p))
    (hc : linkCells env (load items).pl it = none) (k : Nat) (hk : k < it.plSize) :
    relink env items g p.sec (p.off + k) = reload items g p.sec (p.off + k) := by
  simp only [relink]
  apply linkLoop_frame
  intro z hz hcov
  have := covers_only_self env items i p it hi hp k hk z hz hcov
  obtain ⟨q, cs, _, hc', _⟩ := hcov
  rw [this] at hc'
  simp [hc] at hc'

end MirVerif.Section
