import MirVerif.Gen.C14_TypeSize
import MirVerif.Props.C14.Load
import MirVerif.Props.C14.Link
import MirVerif.Props.C14.Reload
/-!
# C14 — loaded data items form contiguous, correctly initialised sections

* `Props/C14/Load.lean`: placements (`contiguous`, `maximal`, `in_bounds`, `sizes_agree`, `image_*`)
  after `MIR_load_module`;
* `Props/C14/Link.lean`: `ref`/`expr` slots after `MIR_link`, data/bss unchanged by it;
* `Props/C14/Reload.lean`: a second `MIR_load_module` (+ link) of a loaded module re-initialises every item
  (bss to zero) from any memory state;
* here: the bridge between the table extracted from the current `mir.c` and the sizes the model uses.
-/

namespace MirVerif.Section

/-- **bridge** (T1): the switch table of `_MIR_type_size` in the current source, as extracted on this
run by `translate/c14_typesize.py`, is the table the model uses (`Ty.size`). -/
theorem type_size_table_bridge : MirVerif.Gen.C14.typeSizeRows = canonTypeSizes := by decide

end MirVerif.Section
