/-! Property theorems for C14 (none yet). -/
